(* C01 (third pass) — rules 3 (I/O rows), 4 (derived types), 5 (port counts), 7 (kind and type at both ends of every
   edge) and 17 (constants) for every WELL-TYPED program of the extended builder language (spec/Builder2WFS.v:
   wt_prog2, croot_ok; booleans computed from the program text) whose builder calls do not raise.

   As in proofs/BuilderTypeP.v: every link is fine with respect to the current operations of its end nodes
   (link_okb2); operations only ever change by growing (all incomplete operations have no out ports: see
   model/Builder2.v); `_wire_up_port` records the type it reads from the source's signature.  New here: the checker's
   environments are related to the interpreter's by alignment (same keys in the same order, a live entry of the
   checker carries the type found at the port the interpreter's entry names), so that the wires of a separately built
   program, which name nodes of another Hugr, are dead entries; the inserted block's links are the inner program's
   links re-indexed; closedness (proofs/Builder2FrameP.v) extended by `rest` for TailLoops and the node checks. *)
From Coq Require Import NArith List Bool Arith Lia.
Import ListNotations.
From HV Require Import lib.Harness model.Validity model.Builder model.Builder2 spec.BuilderS spec.BuilderWFS
  proofs.BuilderP proofs.BuilderExtP proofs.BuilderFrameP proofs.BuilderRulesP proofs.BuilderTypeP
  proofs.BuilderInputsP proofs.Builder2UnfoldP proofs.Builder2InvP proofs.Builder2P spec.Builder2WFS proofs.Builder2FrameP
  proofs.Builder2RulesP proofs.Builder2InputsP.
Local Open Scope N_scope.

(* ------------------------------------------------------------------ a link that is fine *)
Definition ord_out2 (o : vop) : bool :=
  match o with
  | Input _ | DFG _ _ | ExtOp _ _ | Tag _ _ _ | LoadConst _ | TailLoop _ _ _ _ | Conditional _ _ _ _
  | CallIndirect _ _ _ => true
  | _ => false
  end.
Definition ord_in2 (o : vop) : bool :=
  match o with
  | Output _ | DFG _ _ | ExtOp _ _ | Tag _ _ _ | LoadConst _ | TailLoop _ _ _ _ | Conditional _ _ _ _
  | CallIndirect _ _ _ => true
  | _ => false
  end.

Definition link_okb2 (l : list vnode) (e : edge) : bool :=
  match op_at l (e_src e), op_at l (e_dst e) with
  | Some so, Some do_ =>
      match e_soff e, e_doff e with
      | Some a, Some b =>
          match nthN (val_out so) a, nthN (val_in do_) b with
          | Some t, Some t' => t =? t'
          | _, _ => match so, do_ with
                    | Const v, LoadConst t => (a =? 0) && (b =? 0) && (value_ty v =? t)
                    | _, _ => false
                    end
          end
      | None, None => ord_out2 so && ord_in2 do_
      | _, _ => false
      end
  | _, _ => false
  end.
Definition LinkInv2 (st : store) : Prop := forallb (link_okb2 (s_nodes st)) (s_links st) = true.

Lemma kind_out_order2 o : ord_out2 o = true -> kind_out o (base_out o) = Some KOrder /\ base_out o < count_out o.
Proof.
  intros H. assert (S : static_out o = None /\ other_out o = (Some KOrder, 1)) by (destruct o; try discriminate H; split; reflexivity).
  destruct S as [S1 S2]. unfold kind_out, count_out, base_out. rewrite S1, S2. cbn [is_some b2N fst snd andb].
  rewrite N.add_0_r, N.ltb_irrefl. destruct (N.ltb_spec (lenN (val_out o)) (lenN (val_out o) + 1)); [|lia]. split; [reflexivity|lia].
Qed.
Lemma kind_in_order2 o : ord_in2 o = true -> kind_in o (base_in o) = Some KOrder /\ base_in o < count_in o.
Proof.
  intros H. assert (S : other_in o = (Some KOrder, 1)) by (destruct o; try discriminate H; reflexivity).
  unfold kind_in, count_in, base_in. rewrite S. cbn [fst snd].
  set (n := lenN (val_in o)). set (s := b2N (is_some (static_in o))).
  destruct (N.ltb_spec (n + s) n); [lia|].
  assert (E : is_some (static_in o) && (n + s =? n) = false).
  { subst s. destruct (static_in o); cbn [is_some b2N]; [|reflexivity]. cbn [andb]. apply N.eqb_neq. lia. }
  rewrite E. destruct (N.ltb_spec (n + s) (n + s + 1)); [|lia]. split; [reflexivity|lia].
Qed.

Lemma link_ok_serial2 st e : link_okb2 (s_nodes st) e = true ->
  kinds_clause (to_serial st) (ser st e) = true /\ counts_clause (to_serial st) (ser st e) = true.
Proof.
  unfold link_okb2, kinds_clause, counts_clause, resolve, op_of, op_at, ser, constrain_out, constrain_in, s_op, to_serial.
  cbn [g_nodes e_src e_dst e_soff e_doff].
  destruct (option_map n_op (nthN (s_nodes st) (e_src e))) as [so|]; [|discriminate].
  destruct (option_map n_op (nthN (s_nodes st) (e_dst e))) as [do_|] eqn:Ed; [|discriminate].
  destruct (e_soff e) as [a|], (e_doff e) as [b|]; try discriminate.
  - destruct (nthN (val_out so) a) as [t|] eqn:Ea.
    + destruct (nthN (val_in do_) b) as [t'|] eqn:Eb.
      * intros H. apply N.eqb_eq in H. subst t'.
        destruct (kind_out_value _ _ _ Ea) as [K1 C1]. destruct (kind_in_value _ _ _ Eb) as [K2 C2].
        rewrite K1. cbn [r_dst r_do r_kind]. rewrite Ed, K2. cbn [pkind_eqb]. rewrite N.eqb_refl.
        split; [reflexivity|]. apply andb_true_iff. split; now apply N.ltb_lt.
      * destruct so; try discriminate. destruct do_; try discriminate. intros H.
        apply andb_true_iff in H. destruct H as [H H3]. apply andb_true_iff in H. destruct H as [H1 H2].
        apply N.eqb_eq in H1, H2, H3. subst a b ty. cbn. rewrite Ed. cbn. rewrite N.eqb_refl. auto.
    + destruct so; try discriminate. destruct do_; try discriminate. intros H.
      apply andb_true_iff in H. destruct H as [H H3]. apply andb_true_iff in H. destruct H as [H1 H2].
      apply N.eqb_eq in H1, H2, H3. subst a b ty. cbn. rewrite Ed. cbn. rewrite N.eqb_refl. auto.
  - intros H. apply andb_true_iff in H. destruct H as [H1 H2].
    destruct (kind_out_order2 _ H1) as [K1 C1]. destruct (kind_in_order2 _ H2) as [K2 C2].
    rewrite K1. cbn [r_dst r_do r_kind]. rewrite Ed, K2. split; [reflexivity|].
    apply andb_true_iff. split; now apply N.ltb_lt.
Qed.

Lemma LinkInv2_rules st : LinkInv2 st -> r_edge_kinds (to_serial st) = true /\ r_port_counts (to_serial st) = true.
Proof.
  intros H. rewrite edge_kinds_unfold, port_counts_unfold, to_serial_edges, !forallb_map.
  unfold LinkInv2 in H. rewrite forallb_forall in H.
  split; apply forallb_forall; intros e Hin; apply (link_ok_serial2 st e (H _ Hin)).
Qed.

(* ------------------------------------------------------------------ operations only grow *)
Definition grows2 (o o' : vop) : Prop :=
  (forall a t, nthN (val_out o) a = Some t -> nthN (val_out o') a = Some t) /\
  (forall a t, nthN (val_in o) a = Some t -> nthN (val_in o') a = Some t) /\
  ord_out2 o' = ord_out2 o /\ ord_in2 o' = ord_in2 o /\
  (forall v, o = Const v -> o' = Const v) /\ (forall t, o = LoadConst t -> o' = LoadConst t).
Lemma grows2_refl o : grows2 o o.
Proof. repeat split; auto. Qed.
Lemma grows2_trans a b c : grows2 a b -> grows2 b c -> grows2 a c.
Proof.
  intros (A1 & A2 & A3 & A4 & A5 & A6) (B1 & B2 & B3 & B4 & B5 & B6). repeat split; auto; try congruence.
Qed.
Definition Grow2 (l l' : list vnode) : Prop :=
  forall k nd, nthN l k = Some nd -> exists nd', nthN l' k = Some nd' /\ grows2 (n_op nd) (n_op nd').
Lemma Grow2_refl l : Grow2 l l.
Proof. intros k nd H. exists nd. split; [exact H|apply grows2_refl]. Qed.
Lemma Grow2_trans a b c : Grow2 a b -> Grow2 b c -> Grow2 a c.
Proof.
  intros H1 H2 k nd E. destruct (H1 _ _ E) as (nd1 & E1 & G1). destruct (H2 _ _ E1) as (nd2 & E2 & G2).
  exists nd2. split; [exact E2|eapply grows2_trans; eauto].
Qed.
Lemma Grow2_app l ext : Grow2 l (l ++ ext).
Proof. intros k nd H. exists nd. split; [now apply nthN_app1|apply grows2_refl]. Qed.
Lemma Grow2_set l n nd x : nthN l n = Some nd -> grows2 (n_op nd) (n_op x) -> Grow2 l (set_nth l (N.to_nat n) x).
Proof.
  intros E G k nd0 H. destruct (N.eq_dec k n) as [->|Hne].
  - exists x. split; [apply nthN_set_nth_eq; eapply nthN_lt; eauto|]. rewrite E in H. now inversion H; subst.
  - exists nd0. split; [now rewrite nthN_set_nth_neq|apply grows2_refl].
Qed.
Lemma Grow2_snoc l x y : grows2 (n_op x) (n_op y) -> Grow2 (l ++ [x]) (l ++ [y]).
Proof.
  intros G k nd H. apply nthN_snoc_inv in H. destruct H as [H|[-> ->]].
  - exists nd. split; [now apply nthN_app1|apply grows2_refl].
  - exists y. split; [apply nthN_len|exact G].
Qed.
Lemma Keep_Grow2 st st' : Keep st st' -> Grow2 (s_nodes st) (s_nodes st').
Proof.
  intros K k nd H. exists nd. split; [|apply grows2_refl]. rewrite K; [exact H|]. eapply nthN_lt; eauto.
Qed.

Lemma link_okb2_grow l l' e : Grow2 l l' -> link_okb2 l e = true -> link_okb2 l' e = true.
Proof.
  intros G. unfold link_okb2, op_at.
  destruct (nthN l (e_src e)) as [ns|] eqn:Es; [|discriminate].
  destruct (nthN l (e_dst e)) as [nd|] eqn:Ed; [|discriminate]. cbn [option_map].
  destruct (G _ _ Es) as (ns' & Es' & (S1 & _ & S3 & _ & S5 & _)).
  destruct (G _ _ Ed) as (nd' & Ed' & (_ & D2 & _ & D4 & _ & D6)).
  rewrite Es', Ed'. cbn [option_map].
  destruct (e_soff e) as [a|], (e_doff e) as [b|]; try discriminate.
  - destruct (nthN (val_out (n_op ns)) a) as [t|] eqn:Ea.
    + destruct (nthN (val_in (n_op nd)) b) as [t'|] eqn:Eb.
      * now rewrite (S1 _ _ Ea), (D2 _ _ Eb).
      * destruct (n_op ns) eqn:Eos; try discriminate. cbn in Ea. rewrite nthN_nil in Ea. discriminate.
    + destruct (n_op ns) eqn:Eos; try discriminate. destruct (n_op nd) eqn:Eod; try discriminate.
      rewrite (S5 _ eq_refl), (D6 _ eq_refl). cbn [val_out df_sig]. now rewrite nthN_nil.
  - now rewrite S3, D4.
Qed.
Lemma LinkInv2_grow l l' es : Grow2 l l' -> forallb (link_okb2 l) es = true -> forallb (link_okb2 l') es = true.
Proof. intros G. apply forallb_impl_in. intros e _. now apply link_okb2_grow. Qed.

(* the completions *)
Lemma nil_grows_out (o o' : vop) : val_out o = [] -> val_in o = [] \/ val_in o' = val_in o ->
  ord_out2 o' = ord_out2 o -> ord_in2 o' = ord_in2 o -> (forall v, o <> Const v) -> (forall t, o <> LoadConst t) -> grows2 o o'.
Proof.
  intros Ho Hi A B C D. split; [|split; [|split; [|split; [|split]]]]; auto.
  - intros a t H. rewrite Ho, nthN_nil in H. discriminate.
  - intros a t H. destruct Hi as [Hi|Hi]; [rewrite Hi, nthN_nil in H; discriminate|now rewrite Hi].
  - intros v E. elim (C v E).
  - intros t E. elim (D t E).
Qed.
Ltac ngo := apply nil_grows_out; auto; try (let E := fresh in intros ? E; discriminate E).
Lemma grows2_completed tys o ts op' : completed_op tys o ts = Ok op' -> grows2 (initial_op o) op'.
Proof.
  assert (Y : forall i oo, grows2 (ExtOp [] []) (ExtOp i oo)).
  { intros i oo. ngo. }
  destruct o; cbn [completed_op initial_op]; intros H.
  - inversion H; apply grows2_refl.
  - inversion H; apply grows2_refl.
  - destruct ts as [|t [|]]; inversion H; apply Y.
  - destruct (find_sum tys [ts]); inversion H; apply Y.
  - destruct ts as [|t [|]]; try discriminate. destruct (nthN tys t) as [[c rows| |]|]; try discriminate.
    destruct rows as [|rw [|]]; try discriminate. inversion H; apply Y.
Qed.
Lemma grows2_output ts : grows2 (Output []) (Output ts).
Proof. ngo. Qed.
Lemma grows2_closed tys o ins ts o' : open_op o ins -> set_out_types2 tys o ts = Ok o' -> grows2 o o'.
Proof.
  intros [->|[->|(n & ->)]]; cbn; intros H.
  - inversion H. ngo.
  - inversion H. ngo.
  - destruct ts as [|t other]; [discriminate|]. destruct (nthN tys t) as [[c rows| |]|]; try discriminate.
    destruct rows as [|a [|jo [|]]]; try discriminate. destruct (row_eqb a _); [|discriminate].
    inversion H. ngo. right. cbn. now rewrite firstn_skipn, app_nil_r.
Qed.
Lemma grows2_cond rows others ts s : grows2 (Conditional rows others [] s) (Conditional rows others ts s).
Proof. ngo. Qed.

(* ------------------------------------------------------------------ node checks (rules 4 and 17) *)
Definition node_okb2 (tys : list tyinfo) (nd : vnode) : bool :=
  match n_op nd with
  | Tag t vs s => is_sum_of tys s vs && (t <? lenN vs)
  | Const v => value_ok tys [] v
  | CallIndirect i o f => is_fn_of tys f i o
  | Conditional rows _ _ s => is_sum_of tys s rows
  | TailLoop ji jo _ c => is_sum_of tys c [ji; jo]
  | _ => true
  end.
Lemma derived_types_of2 tys l : ModelOps2 l -> forallb (node_okb2 tys) l = true ->
  r_derived_types tys (Gn l) = true /\ r_const tys [] (Gn l) = true.
Proof.
  intros M H. unfold r_derived_types, r_const, ModelOps2 in *. cbn [Gn g_nodes].
  rewrite forallb_forall in H, M. split; apply forallb_forall; intros nd Hin; specialize (H _ Hin); specialize (M _ Hin);
    unfold node_okb2 in H; destruct (n_op nd); try discriminate M; auto.
Qed.

(* ------------------------------------------------------------------ aligned environments *)
Lemma Forall2_impl' {A B} (R R' : A -> B -> Prop) : (forall a b, R a b -> R' a b) -> forall la lb, Forall2 R la lb -> Forall2 R' la lb.
Proof. intros H la lb F. induction F; constructor; auto. Qed.
Lemma Forall2_length' {A B} (R : A -> B -> Prop) la lb : Forall2 R la lb -> length la = length lb.
Proof. intros F. induction F; cbn; congruence. Qed.
Definition Aligned {A B} (R : A -> B -> Prop) (la : list (N * A)) (lb : list (N * B)) : Prop :=
  Forall2 (fun x y => fst x = fst y /\ R (snd x) (snd y)) la lb.

Lemma Aligned_lookup {A B} (R : A -> B -> Prop) la lb : Aligned R la lb -> forall k,
  match lookup la k, lookup lb k with
  | Some a, Some b => R a b
  | None, None => True
  | _, _ => False
  end.
Proof.
  intros H k. induction H as [|[ka a] [kb b] la lb [Hk Hr] _ IH]; cbn [lookup]; [exact I|].
  cbn [fst snd] in Hk, Hr. subst kb. destruct (k =? ka); [exact Hr|exact IH].
Qed.
Lemma Aligned_impl {A B} (R R' : A -> B -> Prop) la lb : (forall a b, R a b -> R' a b) -> Aligned R la lb -> Aligned R' la lb.
Proof. intros H. apply Forall2_impl'. intros x y [E r]. split; auto. Qed.
Lemma Aligned_app {A B} (R : A -> B -> Prop) a1 a2 b1 b2 : Aligned R a1 b1 -> Aligned R a2 b2 -> Aligned R (a1 ++ a2) (b1 ++ b2).
Proof. apply Forall2_app. Qed.
Lemma Aligned_split {A B} (R : A -> B -> Prop) a1 a2 b : Aligned R (a1 ++ a2) b ->
  exists b1 b2, b = b1 ++ b2 /\ Aligned R a1 b1 /\ Aligned R a2 b2.
Proof. intros H. apply Forall2_app_inv_l in H. destruct H as (b1 & b2 & H1 & H2 & E). eauto. Qed.
Lemma Aligned_length {A B} (R : A -> B -> Prop) la lb : Aligned R la lb -> length la = length lb.
Proof. apply Forall2_length'. Qed.
Lemma Aligned_kill {A B} (R R' : A -> B -> Prop) (dead : B) la lb : (forall a, R' a dead) -> Aligned R la lb ->
  Aligned R' la (map (fun x => (fst x, dead)) lb).
Proof.
  intros Hd H. induction H as [|x y la lb [Hk _] _ IH]; cbn [map]; [constructor|].
  constructor; [split; [exact Hk|apply Hd]|exact IH].
Qed.

Definition Wrel (l : list vnode) (p : N * N) (ot : option tyid) : Prop := forall t, ot = Some t -> type_at l p = Some t.
Definition Srel (l : list vnode) (n : N) (b : bool) : Prop :=
  b = true -> exists nd, nthN l n = Some nd /\ ord_out2 (n_op nd) = true /\ ord_in2 (n_op nd) = true.
Definition Wsound (l : list vnode) (e : env) (G : tenv) : Prop := Aligned (Wrel l) (e_wires e) G.
Definition Ssound (l : list vnode) (e : env) (S : senv) : Prop := Aligned (Srel l) (e_stmts e) S.

Lemma Wsound_wire l e G w t : Wsound l e G -> wire_ty G w = Some t -> exists p, get_wire e w = Ok p /\ type_at l p = Some t.
Proof.
  intros H. pose proof (Aligned_lookup _ _ _ H w) as A. unfold wire_ty, get_wire.
  destruct (lookup (e_wires e) w) as [p|], (lookup G w) as [[t'|]|]; try discriminate; try contradiction.
  intros E. inversion E; subst. exists p. split; [reflexivity|]. now apply A.
Qed.
Lemma Wsound_wires l e G : Wsound l e G -> forall args ts ws, wire_tys G args = Some ts -> get_wires e args = Ok ws ->
  Forall2 (fun p t => type_at l p = Some t) ws ts.
Proof.
  intros H. induction args as [|w r IH]; intros ts ws; cbn [wire_tys get_wires].
  - intros E1 E2. inversion E1; inversion E2. constructor.
  - destruct (wire_ty G w) as [t|] eqn:Et; [|discriminate]. destruct (wire_tys G r) as [ts'|] eqn:Er; [|discriminate].
    intros E1. inversion E1; subst ts. destruct (Wsound_wire _ _ _ _ _ H Et) as (p & Ep & Tp). rewrite Ep. cbn [bind].
    destruct (get_wires e r) as [ps|] eqn:Eg; [|discriminate]. cbn [bind]. intros E2. inversion E2; subst ws.
    constructor; [exact Tp|]. now apply IH.
Qed.
Lemma Wsound_grow l l' e G : Grow2 l l' -> Wsound l e G -> Wsound l' e G.
Proof.
  intros GR. apply Aligned_impl. intros p ot H t Et. specialize (H t Et). unfold type_at in *.
  destruct (nthN l (fst p)) as [nd|] eqn:En; [|discriminate]. destruct (GR _ _ En) as (nd' & En' & (S1 & _)).
  rewrite En'. now apply S1.
Qed.
Lemma Ssound_grow l l' e S : Grow2 l l' -> Ssound l e S -> Ssound l' e S.
Proof.
  intros GR. apply Aligned_impl. intros n b H Eb. destruct (H Eb) as (nd & En & A & B).
  destruct (GR _ _ En) as (nd' & En' & (_ & _ & C & D & _)). exists nd'. rewrite C, D. auto.
Qed.
Lemma Wsound_bind_from l n nd ws : nthN l n = Some nd -> forall e G i,
  Wsound l e G -> Wsound l (bind_outs_from e n i ws) (tbind_from G i ws (val_out (n_op nd))).
Proof.
  intros En. induction ws as [|w r IH]; intros e G i H; cbn [bind_outs_from tbind_from]; [exact H|].
  apply IH. unfold Wsound. cbn [e_wires]. constructor; [|exact H]. split; [reflexivity|].
  cbn [snd]. intros t Et. unfold type_at. cbn [fst snd]. now rewrite En.
Qed.
Lemma Wsound_bind l n nd e G id rs : nthN l n = Some nd -> Wsound l e G ->
  Wsound l (bind_outs (bind_stmt e id n) n rs) (tbind G rs (val_out (n_op nd))).
Proof. intros En H. unfold bind_outs, tbind. now apply Wsound_bind_from. Qed.
Lemma Ssound_bind l n nd e S id rs : nthN l n = Some nd -> ord_out2 (n_op nd) = true -> ord_in2 (n_op nd) = true ->
  Ssound l e S -> Ssound l (bind_outs (bind_stmt e id n) n rs) ((id, true) :: S).
Proof.
  intros En A B H. unfold Ssound, bind_outs. rewrite bind_outs_from_stmts. cbn [bind_stmt e_stmts].
  constructor; [|exact H]. split; [reflexivity|]. intros _. exists nd. auto.
Qed.
Lemma Ssound_bind_in l e S n ws : Ssound l e S -> Ssound l (bind_outs e n ws) S.
Proof. unfold Ssound, bind_outs. now rewrite bind_outs_from_stmts. Qed.
Lemma Wsound_stmts l e e' G : e_wires e' = e_wires e -> Wsound l e G -> Wsound l e' G.
Proof. unfold Wsound. now intros ->. Qed.
Lemma Aligned_dead {A B} (R R' : A -> B -> Prop) (dead : B) : (forall a, R' a dead) -> forall la (lb : list (N * B)),
  Aligned R la (map (fun x : N * B => (fst x, dead)) lb) -> Aligned R' la (map (fun x : N * B => (fst x, dead)) lb).
Proof.
  intros Hd. induction la as [|x la IH]; intros lb H; destruct lb as [|y lb]; cbn [map] in *; inversion H; subst; constructor.
  - destruct H3 as [Hk _]. split; [exact Hk|apply Hd].
  - now apply IH.
Qed.
Lemma Wsound_dead l l' e G : Wsound l e (killw G) -> Wsound l' e (killw G).
Proof. apply (Aligned_dead (Wrel l) (Wrel l')). intros a t Et. discriminate Et. Qed.
Lemma Ssound_dead l l' e S : Ssound l e (kills S) -> Ssound l' e (kills S).
Proof. apply (Aligned_dead (Srel l) (Srel l')). intros a Et. discriminate Et. Qed.
Lemma Wsound_kill l l' e G : Wsound l e G -> Wsound l' e (killw G).
Proof. intros H. apply (Aligned_kill (Wrel l)); [|exact H]. intros a t Et. discriminate Et. Qed.
Lemma Ssound_kill l l' e S : Ssound l e S -> Ssound l' e (kills S).
Proof. intros H. apply (Aligned_kill (Srel l)); [|exact H]. intros a Et. discriminate Et. Qed.

Lemma types_agree2 l ws : forall ts ts',
  Forall2 (fun p t => type_at l p = Some t) ws ts -> Forall2 (fun p t => type_at l p = Some t) ws ts' -> ts' = ts.
Proof. intros ts ts' H1 H2. eapply types_agree; eauto. Qed.
Lemma Forall2_type_grow l l' ws ts : Grow2 l l' ->
  Forall2 (fun p t => type_at l p = Some t) ws ts -> Forall2 (fun p t => type_at l' p = Some t) ws ts.
Proof.
  intros GR. apply Forall2_impl'. intros p t H. unfold type_at in *.
  destruct (nthN l (fst p)) as [nd|] eqn:En; [|discriminate]. destruct (GR _ _ En) as (nd' & En' & (S1 & _)).
  rewrite En'. now apply S1.
Qed.
Lemma Forall2_type_lt l ws ts : Forall2 (fun p t => type_at l p = Some t) ws ts -> forall w, In w ws -> fst w < lenN l.
Proof.
  intros H. induction H as [|p t ws ts Hp _ IH]; intros w []; [subst w|now apply IH].
  unfold type_at in Hp. destruct (nthN l (fst p)) eqn:En; [|discriminate]. eapply nthN_lt; eauto.
Qed.

(* ------------------------------------------------------------------ the links _wire_up adds *)
Lemma anc_sib_from_sibling fuel : forall st sp t a, anc_sib_from fuel st sp t = Some a -> s_parent st a = sp /\ sp <> None.
Proof.
  induction fuel as [|f IH]; intros st sp t a; cbn [anc_sib_from]; [discriminate|].
  destruct (s_parent st t) as [tp|] eqn:E; [|discriminate].
  destruct (optN_eqb (Some tp) sp) eqn:Eq.
  - intros H. inversion H; subst. apply optN_eqb_true in Eq. subst sp. split; [exact E|discriminate].
  - apply IH.
Qed.
Lemma model2_out_ord o a t : model_op2 o = true -> nthN (val_out o) a = Some t -> ord_out2 o = true.
Proof.
  destruct o; cbn; try discriminate; auto; intros _ H; rewrite nthN_nil in H; discriminate.
Qed.
Lemma s_parent_node st n p : s_parent st n = Some p -> n <> 0 /\ exists nd, nthN (s_nodes st) n = Some nd /\ n_parent nd = p.
Proof.
  unfold s_parent. destruct (N.eqb_spec n 0); [discriminate|]. destruct (nthN (s_nodes st) n) as [nd|]; [|discriminate].
  cbn. intros H. inversion H. eauto.
Qed.
Lemma tags_parent l n nd : r_child_tags (Gn l) = true -> nthN l n = Some nd -> n <> 0 ->
  exists pd, nthN l (n_parent nd) = Some pd /\ allowed_child (n_op pd) (n_op nd) = true.
Proof.
  intros T E Hn. unfold r_child_tags in T. rewrite forallb_forall in T.
  specialize (T _ (nthN_in_indexed _ _ _ E)). cbn [fst snd] in T.
  apply orb_true_iff in T. destruct T as [T|T]; [apply N.eqb_eq in T; contradiction|].
  unfold op_of in T. cbn [Gn g_nodes] in T. destruct (nthN l (n_parent nd)) as [pd|] eqn:Ep; [|discriminate].
  cbn [option_map] in T. eauto.
Qed.

(* the proper ancestor found by _ancestral_sibling has an order input port, the source of a typed wire an order
   output port *)
Lemma olink_ok2 st w node a t :
  anc_sib st (fst w) node = Some a -> a <> node -> port_type st w = Ok t ->
  r_child_tags (Gn (s_nodes st)) = true -> ModelOps2 (s_nodes st) ->
  link_okb2 (s_nodes st) (olink (fst w) a) = true.
Proof.
  intros HA Hne HT T M.
  unfold port_type, s_op in HT. destruct (nthN (s_nodes st) (fst w)) as [ns|] eqn:Es; [|discriminate]. cbn in HT.
  destruct (nthN (val_out (n_op ns)) (snd w)) as [t'|] eqn:Et; [|discriminate].
  pose proof (model2_out_ord _ _ _ (forallb_nthN _ _ _ _ M Es) Et) as Oo.
  unfold anc_sib in HA. destruct (anc_sib_from_sibling _ _ _ _ _ HA) as [Hsib Hsome].
  apply anc_sib_from_cases in HA. destruct HA as [->|[c Hc]]; [contradiction|].
  destruct (s_parent_node _ _ _ Hc) as (Hc0 & ndc & Ec & Pc). subst a.
  destruct (tags_parent _ _ _ T Ec Hc0) as (pa & Ea & Al).
  (* a = n_parent ndc is a container of the model: DFG, Case, TailLoop or Conditional; a Case is excluded *)
  pose proof (forallb_nthN _ _ _ _ M Ea) as Ma. cbn beta in Ma.
  assert (Oi : ord_in2 (n_op pa) = true).
  { destruct (n_op pa) eqn:Eop; try discriminate Ma; try discriminate Al; try reflexivity.
    (* Case: its parent is a Conditional, and so is the source's parent: the source would be a Case *)
    exfalso. destruct (s_parent st (fst w)) as [q|] eqn:Eq; [|now elim Hsome].
    destruct (s_parent_node _ _ _ Hsib) as (Ha0 & nda & Ea' & Pa). rewrite Ea in Ea'. inversion Ea'; subst nda.
    destruct (tags_parent _ _ _ T Ea Ha0) as (qd & Eqd & Alq). rewrite Pa, Eop in *.
    destruct (s_parent_node _ _ _ Eq) as (Hs0 & nds & Es' & Ps). rewrite Es in Es'. inversion Es'; subst nds.
    destruct (tags_parent _ _ _ T Es Hs0) as (qd' & Eqd' & Als). rewrite Ps, Eqd in Eqd'. inversion Eqd'; subst qd'.
    destruct (n_op qd); try discriminate Alq. destruct (n_op ns); try discriminate Als.
    cbn in Et. rewrite nthN_nil in Et. discriminate. }
  unfold link_okb2, op_at, olink. cbn [e_src e_dst e_soff e_doff]. rewrite Es, Ea. cbn [option_map]. now rewrite Oo, Oi.
Qed.

Lemma link_okb2_grow_ends l l' e ns nd ns' nd' :
  nthN l (e_src e) = Some ns -> nthN l (e_dst e) = Some nd -> nthN l' (e_src e) = Some ns' -> nthN l' (e_dst e) = Some nd' ->
  grows2 (n_op ns) (n_op ns') -> grows2 (n_op nd) (n_op nd') -> link_okb2 l e = true -> link_okb2 l' e = true.
Proof.
  intros Es Ed Es' Ed' (S1 & _ & S3 & _ & S5 & _) (_ & D2 & _ & D4 & _ & D6). unfold link_okb2, op_at.
  rewrite Es, Ed, Es', Ed'. cbn [option_map].
  destruct (e_soff e) as [a|], (e_doff e) as [b|]; try discriminate.
  - destruct (nthN (val_out (n_op ns)) a) as [t|] eqn:Ea.
    + destruct (nthN (val_in (n_op nd)) b) as [t'|] eqn:Eb.
      * now rewrite (S1 _ _ Ea), (D2 _ _ Eb).
      * destruct (n_op ns) eqn:Eos; try discriminate. cbn in Ea. rewrite nthN_nil in Ea. discriminate.
    + destruct (n_op ns) eqn:Eos; try discriminate. destruct (n_op nd) eqn:Eod; try discriminate.
      rewrite (S5 _ eq_refl), (D6 _ eq_refl). cbn [val_out df_sig]. now rewrite nthN_nil.
  - now rewrite S3, D4.
Qed.

(* the links _wire_up adds are fine once the target's input row is the list of recorded types; every node but the
   target only grows *)
Lemma WNew_link_ok2 st node ws : forall i ts new, WNew st node i ws ts new ->
  r_child_tags (Gn (s_nodes st)) = true -> ModelOps2 (s_nodes st) -> (forall w, In w ws -> fst w <> node) ->
  forall l', (forall k nd, k <> node -> nthN (s_nodes st) k = Some nd -> exists nd', nthN l' k = Some nd' /\ grows2 (n_op nd) (n_op nd')) ->
  (exists nd', nthN l' node = Some nd' /\ forall j t, nthN ts j = Some t -> nthN (val_in (n_op nd')) (i + j) = Some t) ->
  forallb (link_okb2 l') new = true.
Proof.
  intros i ts new H. induction H; intros T M Hw l' GR (nd' & En' & Hin); [reflexivity|].
  assert (Hsrc : fst w <> node) by (apply Hw; now left).
  rewrite forallb_app. apply andb_true_iff. split.
  - destruct H0 as [->|[-> Hne]]; [reflexivity|]. cbn [forallb]. rewrite andb_true_r.
    pose proof (olink_ok2 _ _ _ _ _ H Hne H1 T M) as OK.
    unfold link_okb2, op_at, olink in OK. cbn [e_src e_dst e_soff e_doff] in OK.
    destruct (nthN (s_nodes st) (fst w)) as [ns|] eqn:Es; [|discriminate]. destruct (nthN (s_nodes st) a) as [na|] eqn:Ea; [|discriminate].
    destruct (GR _ _ Hsrc Es) as (ns' & Es' & Gs). destruct (GR _ _ Hne Ea) as (na' & Ea' & Ga).
    eapply (link_okb2_grow_ends (s_nodes st) l' (olink (fst w) a)); cbn [olink e_src e_dst]; eauto.
    unfold link_okb2, op_at, olink. cbn [e_src e_dst e_soff e_doff]. now rewrite Es, Ea.
  - cbn [forallb]. apply andb_true_iff. split.
    + unfold port_type, s_op in H1. destruct (nthN (s_nodes st) (fst w)) as [ns|] eqn:Es; [|discriminate]. cbn in H1.
      destruct (nthN (val_out (n_op ns)) (snd w)) as [t'|] eqn:Et; [|discriminate]. inversion H1; subst t'.
      destruct (GR _ _ Hsrc Es) as (ns' & Es' & (S1 & _)).
      unfold link_okb2, op_at, vlink. cbn [e_src e_dst e_soff e_doff]. rewrite Es', En'. cbn [option_map].
      rewrite (S1 _ _ Et). specialize (Hin 0 t eq_refl). rewrite N.add_0_r in Hin. rewrite Hin. apply N.eqb_refl.
    + apply IHWNew; auto.
      * intros w' Hw'. apply Hw. now right.
      * exists nd'. split; [exact En'|]. intros j t' Hj.
        replace (i + 1 + j) with (i + (j + 1)) by lia. apply Hin. now rewrite nthN_S.
Qed.

(* ------------------------------------------------------------------ the environments only grow at the front *)
Definition EnvMono (e e' : env) : Prop :=
  exists dw ds, e_wires e' = dw ++ e_wires e /\ e_stmts e' = ds ++ e_stmts e.
Lemma EnvMono_refl e : EnvMono e e. Proof. exists [], []. auto. Qed.
Lemma EnvMono_trans a b c : EnvMono a b -> EnvMono b c -> EnvMono a c.
Proof.
  intros (d1 & s1 & A1 & B1) (d2 & s2 & A2 & B2). exists (d2 ++ d1), (s2 ++ s1). rewrite A2, A1, B2, B1, !app_assoc. auto.
Qed.
Lemma bind_outs_from_mono ws : forall e n i, EnvMono e (bind_outs_from e n i ws).
Proof.
  induction ws as [|w r IH]; intros e n i; cbn [bind_outs_from]; [apply EnvMono_refl|].
  eapply EnvMono_trans; [|apply IH]. exists [(w, (n, i))], []. auto.
Qed.
Lemma EnvMono_bind e id n rs : EnvMono e (bind_outs (bind_stmt e id n) n rs).
Proof.
  eapply EnvMono_trans; [|apply bind_outs_from_mono]. exists [], [(id, n)]. auto.
Qed.

Section Mono.
  Variable tys : list tyinfo.
  Lemma exec2_env_mono :
    (forall s b st e st' e', exec_stmt2 tys s b st e = Ok (st', e') -> EnvMono e e') /\
    (forall r b st e st' e', exec_region2 tys r b st e = Ok (st', e') -> EnvMono e e') /\
    (forall l b st e st' e', exec_stmts2 tys l b st e = Ok (st', e') -> EnvMono e e') /\
    (forall cs c bs cur st e st' e' bs' cur', exec_cases2 tys cs c bs cur st e = Ok (st', e', bs', cur') -> EnvMono e e') /\
    (forall p e st' e', exec_prog2 tys p e = Ok (st', e') -> EnvMono e e').
  Proof.
    apply prog2_mutind.
    - intros id o args rs b st e st' e' H. apply exec_TOp_inv in H.
      destruct H as (ws & st1 & n & st2 & ts & op' & _ & _ & _ & _ & _ & ->). apply EnvMono_bind.
    - intros id v cp r b st e st' e' H. apply exec_TLoad_inv in H. destruct H as (st1 & c & st2 & l & _ & _ & _ & ->).
      apply EnvMono_bind.
    - intros id args body IH rs b st e st' e' H. apply exec_TNested_inv in H.
      destruct H as (ws & ts & st1 & d & st2 & i & st3 & o & st4 & ts4 & e5 & _ & _ & _ & _ & _ & _ & X & ->).
      eapply EnvMono_trans; [exact (IH _ _ _ _ _ X)|apply EnvMono_bind].
    - intros src dst b st e st' e' H. apply exec_TOrder_inv in H. destruct H as (a & c & _ & _ & _ & ->). apply EnvMono_refl.
    - intros id just rest body IH rs b st e st' e' H. apply exec_TLoop_inv in H.
      destruct H as (jw & rw & jt & rt & st1 & d & st2 & i & st3 & o & st4 & ts4 & e5 & _ & _ & _ & _ & _ & _ & _ & _ & X & ->).
      eapply EnvMono_trans; [exact (IH _ _ _ _ _ X)|apply EnvMono_bind].
    - intros id cond args cs IH rs b st e st' e' H. apply exec_TCond_inv in H.
      destruct H as (cw & ws & t & others & cp & rows & st1 & c & st2 & bs & st3 & ts3 & e4 & bs' & cur' & _ & _ & _ & _ & _ & _ & _ & X & _ & ->).
      eapply EnvMono_trans; [exact (IH _ _ _ _ _ _ _ _ _ X)|apply EnvMono_bind].
    - intros id sub IH args rs b st e st' e' H. apply exec_TInsert_inv in H.
      destruct H as (sti & e1 & ws & st1 & m & r & ts & X & _ & _ & _ & _ & ->).
      eapply EnvMono_trans; [exact (IH _ _ _ X)|apply EnvMono_bind].
    - intros id args rs b st e st' e' H. apply exec_TCallInd_inv in H.
      destruct H as (ws & st1 & n & st2 & ts & op' & _ & _ & _ & _ & _ & ->). apply EnvMono_bind.
    - intros ins body IH outs b st e st' e' H. apply exec_Reg_inv in H. destruct H as (st1 & ws & X & _ & _).
      eapply EnvMono_trans; [apply bind_outs_from_mono|exact (IH _ _ _ _ _ X)].
    - intros b st e st' e' H. apply exec_TNil_inv in H. destruct H as [_ ->]. apply EnvMono_refl.
    - intros s IHs r IHr b st e st' e' H. apply exec_TCons_inv in H. destruct H as (st1 & e1 & X1 & X2).
      eapply EnvMono_trans; [exact (IHs _ _ _ _ _ X1)|exact (IHr _ _ _ _ _ X2)].
    - intros c bs cur st e st' e' bs' cur' H. apply exec_CNil_inv in H. inversion H; subst. apply EnvMono_refl.
    - intros i r IHr rest IHrest c bs cur st e st' e' bs' cur' H. apply exec_CCons_inv in H.
      destruct H as (cb & st1 & e1 & ts & st2 & cur2 & _ & X0 & _ & _ & X3).
      eapply EnvMono_trans; [exact (IHr _ _ _ _ _ X0)|exact (IHrest _ _ _ _ _ _ _ _ _ X3)].
    - intros ins body IH e st' e' H. apply exec_QDfg_inv in H. exact (IH _ _ _ _ _ H).
    - intros just rest body IH e st' e' H. apply exec_QLoop_inv in H. exact (IH _ _ _ _ _ H).
    - intros rows others sumty cs IH e st' e' H. apply exec_QCond_inv in H. destruct H as (st1 & bs & bs' & cur' & _ & X & _).
      exact (IH _ _ _ _ _ _ _ _ _ X).
  Qed.

  (* the checker's environments only grow at the front, too *)
  Definition CMono (G : tenv) (S : senv) (G' : tenv) (S' : senv) : Prop :=
    (exists dG, G' = dG ++ G) /\ (exists dS, S' = dS ++ S).
  Lemma CMono_refl G S : CMono G S G S. Proof. split; exists []; reflexivity. Qed.
  Lemma CMono_trans G S G1 S1 G2 S2 : CMono G S G1 S1 -> CMono G1 S1 G2 S2 -> CMono G S G2 S2.
  Proof. intros [[a ->] [b ->]] [[c ->] [d ->]]. split; [exists (c ++ a)|exists (d ++ b)]; now rewrite app_assoc. Qed.
  Lemma tbind_from_mono ws : forall G i outs, exists dG, tbind_from G i ws outs = dG ++ G.
  Proof.
    induction ws as [|w r IH]; intros G i outs; cbn [tbind_from]; [exists []; reflexivity|].
    destruct (IH ((w, nthN outs i) :: G) (i + 1) outs) as [d ->]. exists (d ++ [(w, nthN outs i)]). now rewrite <- app_assoc.
  Qed.
  Lemma CMono_bind G S rs outs id : CMono G S (tbind G rs outs) ((id, true) :: S).
  Proof. split; [apply tbind_from_mono|exists [(id, true)]; reflexivity]. Qed.
  Lemma CMono_bindG G S G' S' rs outs id : CMono G S G' S' -> CMono G S (tbind G' rs outs) ((id, true) :: S').
  Proof. intros H. eapply CMono_trans; [exact H|apply CMono_bind]. Qed.
End Mono.

Ltac dm W :=
  match type of W with
  | match ?x with _ => _ end = _ => let E := fresh "E" in destruct x eqn:E; try discriminate W
  | (if ?x then _ else _) = _ => let E := fresh "E" in destruct x eqn:E; try discriminate W
  end.

Section WtMono.
  Variable tys : list tyinfo.
  Lemma wt_mono :
    (forall s G S G' S', wt_stmt2 tys s G S = Some (G', S') -> CMono G S G' S') /\
    (forall r ins G S G' S' outs, wt_region2 tys r ins G S = Some (G', S', outs) -> CMono G S G' S') /\
    (forall l G S G' S', wt_stmts2 tys l G S = Some (G', S') -> CMono G S G' S') /\
    (forall cs rows others G S cur G' S' cur', wt_cases2 tys cs rows others G S cur = Some (G', S', cur') -> CMono G S G' S') /\
    (forall p G S G' S' sg, wt_progx tys p G S = Some (G', S', sg) -> CMono G S G' S').
  Proof.
    apply prog2_mutind.
    - intros id o args rs G S G' S' W. cbn [wt_stmt2] in W. dm W. dm W. dm W. inversion W; subst. apply CMono_bind.
    - intros id v cp r G S G' S' W. cbn [wt_stmt2] in W. dm W. inversion W; subst. apply CMono_bind.
    - intros id args body IH rs G S G' S' W. cbn [wt_stmt2] in W. dm W. dm W. destruct p as [[G1 S1] outs].
      inversion W; subst. apply CMono_bindG. eapply IH; eauto.
    - intros src dst G S G' S' W. cbn [wt_stmt2] in W. dm W. inversion W; subst. apply CMono_refl.
    - intros id just rest body IH rs G S G' S' W. cbn [wt_stmt2] in W. dm W. dm W. dm W. destruct p as [[G1 S1] outs].
      destruct outs as [|t rt']; [discriminate|]. dm W. destruct t0 as [c rows| |]; try discriminate.
      destruct rows as [|a [|jo [|]]]; try discriminate. dm W. inversion W; subst. apply CMono_bindG. eapply IH; eauto.
    - intros id cond args cs IH rs G S G' S' W. cbn [wt_stmt2] in W. dm W. dm W. dm W. destruct t0 as [c rows| |]; try discriminate.
      dm W. destruct p as [[G1 S1] [outs|]]; [|discriminate]. inversion W; subst. apply CMono_bindG. eapply IH; eauto.
    - intros id sub IH args rs G S G' S' W. cbn [wt_stmt2] in W. dm W. destruct p as [[Gs Ss] [sin sout]]. dm W. dm W.
      inversion W; subst. eapply CMono_trans; [|apply CMono_bind]. split; eexists; reflexivity.
    - intros id args rs G S G' S' W. cbn [wt_stmt2] in W. dm W. dm W. dm W. inversion W; subst. apply CMono_bind.
    - intros ins body IH outs insr G S G' S' outs' W. cbn [wt_region2] in W. dm W. destruct p as [G1 S1]. dm W.
      inversion W; subst. eapply CMono_trans; [|eapply IH; eauto]. split; [apply tbind_from_mono|exists []; reflexivity].
    - intros G S G' S' W. cbn in W. inversion W; subst. apply CMono_refl.
    - intros s IHs r IHr G S G' S' W. cbn [wt_stmts2] in W. dm W. destruct p as [G1 S1].
      eapply CMono_trans; [eapply IHs; eauto|eapply IHr; eauto].
    - intros rows others G S cur G' S' cur' W. cbn in W. inversion W; subst. apply CMono_refl.
    - intros i r IHr rest IHrest rows others G S cur G' S' cur' W. cbn [wt_cases2] in W. dm W. dm W.
      destruct p as [[G1 S1] outs]. destruct cur as [o|].
      + dm W. eapply CMono_trans; [eapply IHr; eauto|eapply IHrest; eauto].
      + eapply CMono_trans; [eapply IHr; eauto|eapply IHrest; eauto].
    - intros ins body IH G S G' S' sg W. cbn [wt_progx] in W. dm W. destruct p as [[G1 S1] outs]. inversion W; subst.
      eapply IH; eauto.
    - intros just rest body IH G S G' S' sg W. cbn [wt_progx] in W. dm W. destruct p as [[G1 S1] outs].
      destruct outs as [|t rt']; [discriminate|]. dm W. destruct t0 as [c rows| |]; try discriminate.
      destruct rows as [|a [|jo [|]]]; try discriminate. dm W. inversion W; subst. eapply IH; eauto.
    - intros rows others sumty cs IH G S G' S' sg W. cbn [wt_progx] in W. dm W. dm W.
      destruct p as [[G1 S1] [outs|]]; [|discriminate]. inversion W; subst. eapply IH; eauto.
  Qed.
End WtMono.

(* ------------------------------------------------------------------ after an inserted program: its entries die, the outer ones come back *)
Lemma Aligned_splice {A B} (R R' : A -> B -> Prop) (dead : B) (la la1 dw : list (N * A)) (lb lbs dG : list (N * B)) :
  la1 = dw ++ la -> lbs = dG ++ map (fun x : N * B => (fst x, dead)) lb -> Aligned R la1 lbs -> Aligned R' la lb ->
  (forall a, R' a dead) ->
  Aligned R' la1 (map (fun x : N * B => (fst x, dead)) (firstn (length lbs - length lb) lbs) ++ lb).
Proof.
  intros -> -> H1 H2 Hd.
  pose proof (Aligned_length _ _ _ H1) as L1. pose proof (Aligned_length _ _ _ H2) as L2.
  rewrite !app_length, map_length in L1.
  assert (Ld : length dw = length dG) by lia.
  replace (length (dG ++ map (fun x : N * B => (fst x, dead)) lb) - length lb)%nat with (length dG)
    by (rewrite app_length, map_length; lia).
  rewrite firstn_app, firstn_all, Nat.sub_diag, firstn_O, app_nil_r.
  destruct (Aligned_split _ _ _ _ H1) as (b1 & b2 & E & A1 & A2).
  assert (b1 = dG).
  { pose proof (Aligned_length _ _ _ A1) as Lb. apply (f_equal (firstn (length dG))) in E.
    rewrite firstn_app, firstn_all, Nat.sub_diag, firstn_O, app_nil_r in E.
    rewrite firstn_app in E. replace (length dG - length b1)%nat with 0%nat in E by lia.
    rewrite firstn_O, app_nil_r, firstn_all2 in E by lia. congruence. }
  subst b1. apply Aligned_app; [|exact H2]. eapply Aligned_kill; eauto.
Qed.

Lemma Wsound_splice l l1 e e1 G Gs S Ss :
  EnvMono e e1 -> CMono (killw G) (kills S) Gs Ss -> Wsound l1 e1 Gs -> Ssound l1 e1 Ss -> Wsound l e G -> Ssound l e S ->
  Wsound l e1 (splicew Gs G) /\ Ssound l e1 (splices Ss S).
Proof.
  intros (dw & ds & Ew & Es) [[dG EG] [dS ES]] W1 S1 W S0. split.
  - unfold Wsound, splicew, killw. eapply (Aligned_splice (Wrel l1) (Wrel l) None); eauto. intros a t Et. discriminate Et.
  - unfold Ssound, splices, kills. eapply (Aligned_splice (Srel l1) (Srel l) false); eauto. intros a Et. discriminate Et.
Qed.

(* ------------------------------------------------------------------ the typed part of closedness *)
Definition loop_rest (l : list vnode) (p : N) (o : vop) : Prop :=
  match o with TailLoop _ _ rest c => nthN l (p + 2) = Some (mk (Output (c :: rest)) p) | _ => True end.
Definition TypedFrom (tys : list tyinfo) (lo : N) (l : list vnode) : Prop :=
  forall p nd, lo <= p -> nthN l p = Some nd -> node_okb2 tys nd = true /\ loop_rest l p (n_op nd).

Lemma loop_rest_keep l l' p o : loop_rest l p o -> (forall n, p <= n -> n < lenN l -> nthN l' n = nthN l n) -> loop_rest l' p o.
Proof.
  intros H K. destruct o; cbn [loop_rest] in *; auto. rewrite K; [exact H|lia|eapply nthN_lt; eauto].
Qed.
Lemma TypedFrom_keep tys lo l l' : TypedFrom tys lo l -> lenN l <= lenN l' ->
  (forall n, lo <= n -> n < lenN l -> nthN l' n = nthN l n) -> TypedFrom tys (lenN l) l' -> TypedFrom tys lo l'.
Proof.
  intros C1 L K C2 p nd Hp E. destruct (N.lt_ge_cases p (lenN l)) as [Lt|Ge].
  - rewrite K in E by assumption. destruct (C1 _ _ Hp E) as [A B]. split; [exact A|].
    eapply loop_rest_keep; [exact B|]. intros n Hn Ln. apply K; lia.
  - exact (C2 _ _ Ge E).
Qed.
Lemma TypedFrom_nil tys l : TypedFrom tys (lenN l) l.
Proof. intros p nd Hp E. apply nthN_lt in E. lia. Qed.
Lemma TypedFrom_set tys lo l n x : TypedFrom tys lo l -> n < lo -> TypedFrom tys lo (set_nth l (N.to_nat n) x).
Proof.
  intros C Ln p nd Hp E. rewrite nthN_set_nth_neq in E by lia. destruct (C _ _ Hp E) as [A B]. split; [exact A|].
  eapply loop_rest_keep; [exact B|]. intros m Hm _. apply nthN_set_nth_neq. lia.
Qed.
Definition simple_node (tys : list tyinfo) (nd : vnode) : bool :=
  node_okb2 tys nd && match n_op nd with TailLoop _ _ _ _ => false | _ => true end.
Lemma simple_typed tys l p nd : simple_node tys nd = true -> node_okb2 tys nd = true /\ loop_rest l p (n_op nd).
Proof. unfold simple_node. intros H. apply andb_true_iff in H. destruct H as [A B]. split; [exact A|]. now destruct (n_op nd). Qed.
Lemma TypedFrom_app tys lo l ext : TypedFrom tys lo l -> forallb (simple_node tys) ext = true -> TypedFrom tys lo (l ++ ext).
Proof.
  intros C Hx p nd Hp E. destruct (N.lt_ge_cases p (lenN l)) as [L|L].
  - rewrite nthN_app_lt in E by exact L. destruct (C _ _ Hp E) as [A B]. split; [exact A|].
    eapply loop_rest_keep; [exact B|]. intros n _ Ln. now apply nthN_app_lt.
  - rewrite nthN_app_ge in E by exact L. apply simple_typed. exact (forallb_nthN _ _ _ _ Hx E).
Qed.
Lemma TypedFrom_insert tys l inner parent :
  TypedFrom tys 0 inner -> TypedFrom tys (lenN l) (l ++ map (shiftn (lenN l) parent) (indexed inner)).
Proof.
  intros C p nd Hp E. rewrite nthN_app_ge in E by exact Hp. rewrite nthN_shifted in E.
  destruct (nthN inner (p - lenN l)) as [nd0|] eqn:E0; [|discriminate]. cbn in E. inversion E; subst nd; clear E.
  destruct (C _ _ (N.le_0_l _) E0) as [A B]. split; [exact A|]. unfold shiftn. cbn [snd mk n_op].
  set (q := p - lenN l) in *. replace p with (lenN l + q) by lia.
  destruct (n_op nd0); cbn [loop_rest] in *; auto.
  replace (lenN l + q + 2) with (lenN l + (q + 2)) by lia. apply nthN_comb_shift; [exact B|lia].
Qed.

Lemma full_of_closed_typed tys l : ClosedFrom 0 l -> TypedFrom tys 0 l -> ClosedFull l /\ forallb (node_okb2 tys) l = true.
Proof.
  intros C T. split.
  - intros p nd E. pose proof (C _ _ (N.le_0_l _) E) as Hc. destruct (T _ _ (N.le_0_l _) E) as [_ Hr].
    destruct (n_op nd); cbn [io_full io_strict loop_rest] in *; auto. destruct Hc as [A _]. auto.
  - apply forallb_forall. intros nd Hin. apply In_nth_error in Hin. destruct Hin as [k Hk].
    assert (E : nthN l (N.of_nat k) = Some nd) by (unfold nthN; now rewrite Nat2N.id).
    exact (proj1 (T _ _ (N.le_0_l _) E)).
Qed.

(* ------------------------------------------------------------------ small facts for the typed induction *)
Lemma Wsound_nil_any l e G : Wsound [] e G -> Wsound l e G.
Proof.
  apply Aligned_impl. intros p ot H t E. specialize (H t E). unfold type_at in H. rewrite nthN_nil in H. discriminate.
Qed.
Lemma Ssound_nil_any l e S : Ssound [] e S -> Ssound l e S.
Proof.
  apply Aligned_impl. intros n b H E. destruct (H E) as (nd & En & _). rewrite nthN_nil in En. discriminate.
Qed.
Lemma wire_types_type_at st ws : forall ts, wire_types st ws = Ok ts -> Forall2 (fun p t => type_at (s_nodes st) p = Some t) ws ts.
Proof.
  induction ws as [|w r IH]; intros ts; cbn [wire_types].
  - intros H. inversion H. constructor.
  - intros H. bd H. bd H. inversion H; subst. constructor; [now apply port_type_type_at|now apply IH].
Qed.
Lemma Forall2_type_not_node l ws ts n nd : Forall2 (fun p t => type_at l p = Some t) ws ts -> nthN l n = Some nd ->
  val_out (n_op nd) = [] -> forall w, In w ws -> fst w <> n.
Proof.
  intros H En Ho. induction H as [|p t ws ts Hp _ IH]; intros w []; [subst w|now apply IH].
  intros E. unfold type_at in Hp. rewrite E, En, Ho, nthN_nil in Hp. discriminate.
Qed.
Lemma firstn_lenN_app {A} (a b : list A) : firstn (N.to_nat (lenN a)) (a ++ b) = a.
Proof. unfold lenN. rewrite Nat2N.id, firstn_app, firstn_all, Nat.sub_diag, firstn_O. apply app_nil_r. Qed.
Lemma skipn_lenN_app {A} (a b : list A) : skipn (N.to_nat (lenN a)) (a ++ b) = b.
Proof. unfold lenN. rewrite Nat2N.id, skipn_app, skipn_all, Nat.sub_diag. reflexivity. Qed.
Lemma is_sum_of_refl tys t c rows : nthN tys t = Some (TSum c rows) -> is_sum_of tys t rows = true.
Proof. unfold is_sum_of. intros ->. apply rows_eqb_refl. Qed.
Lemma lookup_aligned_stmt l e S s n : Ssound l e S -> lookup (e_stmts e) s = Some n -> lookup S s = Some true ->
  exists nd, nthN l n = Some nd /\ ord_out2 (n_op nd) = true /\ ord_in2 (n_op nd) = true.
Proof.
  intros H E1 E2. pose proof (Aligned_lookup _ _ _ H s) as A. rewrite E1, E2 in A. now apply A.
Qed.

(* the shape of the nodes in a completed Conditional block *)
Lemma cond_block_typed tys l c rows others s pp outs bs :
  CasesInv l c rows others s pp (Some outs) bs -> forallb (fun x : dfb * bool => snd x) bs = true ->
  is_sum_of tys s rows = true ->
  forall p nd, c <= p -> p < c + 1 + 3 * lenN rows -> nthN l p = Some nd -> node_okb2 tys nd = true /\ loop_rest l p (n_op nd).
Proof.
  intros (Hc & Hl & CI) Hall Hs p nd Lp Up E.
  assert (Hk : forall k row, nthN rows k = Some row ->
     nthN l (c + 1 + 3 * k) = Some (mk (Case (row ++ others) outs) c) /\
     nthN l (c + 1 + 3 * k + 1) = Some (mk (Input (row ++ others)) (c + 1 + 3 * k)) /\
     nthN l (c + 1 + 3 * k + 2) = Some (mk (Output outs) (c + 1 + 3 * k))).
  { intros k row Hr. destruct (CI k row Hr) as (f & Hb & Hi & Hf). rewrite (forallb_snd_nth _ _ _ _ Hall Hb) in Hf.
    destruct Hf as (outs' & Eo & A & B). inversion Eo; subst outs'. auto. }
  destruct (N.eq_dec p c) as [->|Hne].
  - rewrite Hc in E. inversion E; subst nd. split; [exact Hs|exact I].
  - set (q := p - c - 1). pose proof (N.div_mod' q 3) as Hq. pose proof (N.mod_lt q 3 ltac:(lia)) as Hm.
    set (k := q / 3) in *. set (r := q mod 3) in *.
    assert (Lk : k < lenN rows) by lia. destruct (nthN_some_lt rows k Lk) as [row Hr].
    destruct (Hk k row Hr) as (A & B & C).
    assert (Hp : p = c + 1 + 3 * k + r) by lia.
    destruct (N.eq_dec r 0) as [R0|R0]; [|destruct (N.eq_dec r 1) as [R1|R1]].
    + rewrite Hp, R0, N.add_0_r in E. rewrite A in E. inversion E; subst nd. split; [reflexivity|exact I].
    + rewrite Hp, R1 in E. rewrite B in E. inversion E; subst nd. split; [reflexivity|exact I].
    + assert (r = 2) by lia. rewrite Hp, H in E. rewrite C in E. inversion E; subst nd. split; [reflexivity|exact I].
Qed.

(* ------------------------------------------------------------------ rule 8: counting facts that need the typed invariants *)
Lemma cnt_placeholder2 st n p off : LinkInv2 st -> nthN (s_nodes st) n = Some (mk (Output []) p) -> cnt (s_links st) n off = 0.
Proof.
  intros LI En. apply countb_zero. intros e Hin. unfold LinkInv2 in LI. rewrite forallb_forall in LI. specialize (LI _ Hin).
  unfold into. destruct (N.eqb_spec (e_dst e) n) as [Ed|_]; [|reflexivity]. cbn [andb].
  destruct (e_doff e) as [b|] eqn:Eb; [|reflexivity]. exfalso.
  unfold link_okb2, op_at in LI. rewrite Ed, En, Eb in LI. cbn [option_map mk n_op] in LI.
  destruct (option_map n_op (nthN (s_nodes st) (e_src e))) as [so|]; [|discriminate].
  destruct (e_soff e) as [a|]; [|discriminate]. cbn [val_in df_sig] in LI. rewrite nthN_nil in LI.
  destruct (nthN (val_out so) a); destruct so; discriminate.
Qed.
Lemma closed_base_in tys o ins ts o' : open_op o ins -> set_out_types2 tys o ts = Ok o' -> base_in o' = base_in o.
Proof.
  intros [->|[->|(n & ->)]]; cbn; intros H.
  - now inversion H.
  - now inversion H.
  - destruct ts as [|t other]; [discriminate|]. destruct (nthN tys t) as [[c rows| |]|]; try discriminate.
    destruct rows as [|a [|jo [|]]]; try discriminate. destruct (row_eqb a _); [|discriminate].
    inversion H. unfold base_in. cbn. now rewrite firstn_skipn, app_nil_r.
Qed.

Section TypeMain2.
  Variable tys : list tyinfo.

  Record Bpre2 (strict : bool) (st : store) (b : dfb) (e : env) (G : tenv) (S : senv) : Prop := {
    bq_inv : Inv2 st; bq_root : RootDF strict (s_nodes st); bq_base : Fbase2 st; bq_open : OpenB2 (s_nodes st) b;
    bq_pos : EnvPos e; bq_W : Wsound (s_nodes st) e G; bq_S : Ssound (s_nodes st) e S; bq_links : LinkInv2 st;
    bq_once : InOnce st }.

  (* what the structural and the frame induction give for a statement / statement list / region *)
  Lemma stmt_pre2 s strict b st e st' e' G S : exec_stmt2 tys s b st e = Ok (st', e') -> croot_stmt strict s = true ->
    Bpre2 strict st b e G S ->
    Inv2 st' /\ RootDF strict (s_nodes st') /\ Fbase2 st' /\ OpenB2 (s_nodes st') b /\ EnvPos e' /\ Keep st st' /\
    s_len st <= s_len st' /\ ClosedFrom (s_len st) (s_nodes st').
  Proof.
    intros H Hc [I R F O EP _ _ _ _]. destruct (exec2_keeps_invariants tys) as (KS & _). destruct (exec2_frame tys) as (FS & _).
    destruct (KS s strict _ _ _ _ _ H Hc I R (OpenB2_WB2 _ _ O)) as [I' X].
    destruct (FS s strict _ _ _ _ _ H Hc F O EP) as (F' & K & L & EP' & CF).
    split; [exact I'|]. split; [eapply RootDF_ext; eauto|]. split; [exact F'|]. split; [eapply OpenB2_keep; eauto|]. auto.
  Qed.
  Lemma stmts_pre2 l strict b st e st' e' G S : exec_stmts2 tys l b st e = Ok (st', e') -> croot_stmts strict l = true ->
    Bpre2 strict st b e G S ->
    Inv2 st' /\ RootDF strict (s_nodes st') /\ Fbase2 st' /\ OpenB2 (s_nodes st') b /\ EnvPos e' /\ Keep st st' /\
    s_len st <= s_len st' /\ ClosedFrom (s_len st) (s_nodes st').
  Proof.
    intros H Hc [I R F O EP _ _ _ _]. destruct (exec2_keeps_invariants tys) as (_ & _ & KL & _). destruct (exec2_frame tys) as (_ & _ & FL & _).
    destruct (KL l strict _ _ _ _ _ H Hc I R (OpenB2_WB2 _ _ O)) as [I' X].
    destruct (FL l strict _ _ _ _ _ H Hc F O EP) as (F' & K & L & EP' & CF).
    split; [exact I'|]. split; [eapply RootDF_ext; eauto|]. split; [exact F'|]. split; [eapply OpenB2_keep; eauto|]. auto.
  Qed.
  Lemma region_pre2 r strict b st e st' e' G S : exec_region2 tys r b st e = Ok (st', e') -> croot_region strict r = true ->
    Bpre2 strict st b e G S ->
    Inv2 st' /\ RootDF strict (s_nodes st') /\ Fbase2 st' /\ EnvPos e' /\ KeepX (b_parent b) (b_out b) st st' /\
    s_len st <= s_len st' /\ ClosedFrom (s_len st) (s_nodes st') /\ ClosedB tys st st' b /\ Ext st st'.
  Proof.
    intros H Hc [I R F O EP _ _ _ _]. destruct (exec2_keeps_invariants tys) as (_ & KR & _). destruct (exec2_frame tys) as (_ & FR & _).
    destruct (KR r strict _ _ _ _ _ H Hc I R (OpenB2_WB2 _ _ O)) as [I' X].
    destruct (FR r strict _ _ _ _ _ H Hc F O EP) as (F' & K & L & EP' & CF & CB).
    split; [exact I'|]. split; [eapply RootDF_ext; eauto|]. auto 10.
  Qed.

  (* the wire types the checker reads are the ones _wire_up records *)
  Lemma wired_types2 st e G args ws ts_s st1 ext node i ts new :
    Wsound (s_nodes st) e G -> get_wires e args = Ok ws -> wire_tys G args = Some ts_s ->
    s_nodes st1 = s_nodes st ++ ext -> WNew st1 node i ws ts new ->
    ts = ts_s /\ Forall2 (fun p t => type_at (s_nodes st) p = Some t) ws ts.
  Proof.
    intros W Gw WT En1 HW. pose proof (Wsound_wires _ _ _ W _ _ _ WT Gw) as H1.
    pose proof (WNew_types2 _ _ _ _ _ _ HW) as H2.
    assert (ts = ts_s).
    { eapply types_agree2; [|exact H2]. eapply Forall2_type_grow; [|exact H1]. rewrite En1. apply Grow2_app. }
    subst. auto.
  Qed.

  Lemma tags_same_canon l x y : canon (n_op x) = canon (n_op y) -> n_parent x = n_parent y ->
    r_child_tags (Gn (l ++ [y])) = true -> r_child_tags (Gn (l ++ [x])) = true.
  Proof.
    intros Hc Hp H. rewrite <- tags_canon in *. rewrite map_app in *. cbn [map] in *.
    replace (cnode x) with (cnode y); [exact H|]. unfold cnode. now rewrite Hc, Hp.
  Qed.

  (* a leaf node: appended (placeholder op0), wired, completed (op') *)
  Lemma leaf_typed strict st b e G S ws ts op0 op' new st1 st' id rs :
    Bpre2 strict st b e G S -> Inv2 st' ->
    Forall2 (fun p t => type_at (s_nodes st) p = Some t) ws ts ->
    s_nodes st1 = s_nodes st ++ [mk op0 (b_parent b)] -> WNew st1 (s_len st) 0 ws ts new ->
    s_nodes st' = s_nodes st ++ [mk op' (b_parent b)] -> s_links st' = s_links st ++ new ->
    canon op0 = canon op' -> model_op2 op0 = true ->
    val_in op' = ts -> ord_out2 op' = true -> ord_in2 op' = true -> simple_node tys (mk op' (b_parent b)) = true ->
    static_in op' = None ->
    Wsound (s_nodes st') (bind_outs (bind_stmt e id (s_len st)) (s_len st) rs) (tbind G rs (val_out op')) /\
    Ssound (s_nodes st') (bind_outs (bind_stmt e id (s_len st)) (s_len st) rs) ((id, true) :: S) /\
    LinkInv2 st' /\ TypedFrom tys (s_len st) (s_nodes st') /\ InOnce st'.
  Proof.
    intros [I R (M & CP & LP) O EP W Ss LI Q] I' HT En1 HW En' El' Hcan Hm0 Hin Ho Hi Hsim Hst.
    assert (GR : Grow2 (s_nodes st) (s_nodes st')) by (rewrite En'; apply Grow2_app).
    assert (Hn : nthN (s_nodes st') (s_len st) = Some (mk op' (b_parent b))) by (rewrite En'; unfold s_len; apply nthN_len).
    split; [|split; [|split; [|split]]].
    5: { eapply (InOnce_leaf st st1 st'); eauto; [exact (proj2 I)|]. cbn [mk n_op]. unfold base_in. rewrite Hst, Hin. cbn. lia. }
    - apply (Wsound_bind _ _ _ _ _ id rs Hn). eapply Wsound_grow; eauto.
    - eapply Ssound_bind; eauto. eapply Ssound_grow; eauto.
    - unfold LinkInv2. rewrite El', forallb_app. apply andb_true_iff. split; [eapply LinkInv2_grow; eauto|].
      eapply (WNew_link_ok2 _ _ _ _ _ _ HW).
      + rewrite En1. eapply (tags_same_canon _ _ (mk op' (b_parent b))); [exact Hcan|reflexivity|].
        rewrite <- En'. exact (proj1 (proj1 I')).
      + rewrite En1. apply ModelOps2_app; [exact M|]. unfold ModelOps2. cbn. now rewrite Hm0.
      + intros w Hw. pose proof (Forall2_type_lt _ _ _ HT w Hw). unfold s_len. lia.
      + intros k nd Hk E. rewrite En1 in E. apply nthN_snoc_inv in E. destruct E as [E|[E _]]; [|unfold s_len in Hk; contradiction].
        exists nd. split; [rewrite En'; now apply nthN_app1|apply grows2_refl].
      + exists (mk op' (b_parent b)). split; [exact Hn|]. cbn [mk n_op]. rewrite Hin. intros j t Hj. now rewrite N.add_0_l.
    - rewrite En'. apply TypedFrom_app; [apply TypedFrom_nil|]. cbn. now rewrite Hsim.
  Qed.

  Lemma container_typed strict st b e G S ws ts co ti st1 d st2 i st3 o st4 ts4 :
    Bpre2 strict st b e G S ->
    add_node st co (b_parent b) = Ok (st1, d) -> add_node st1 (Input ti) d = Ok (st2, i) -> add_node st2 (Output []) d = Ok (st3, o) ->
    wire_up st3 d ws = Ok (st4, ts4) ->
    Forall2 (fun p t => type_at (s_nodes st) p = Some t) ws ts -> (forall w, In w ws -> 0 < fst w) ->
    open_op co ti -> is_case co = false -> dataflow_child co = true -> val_in co = ts -> static_in co = None ->
    Bpre2 strict st4 (mkb (s_len st) (s_len st + 1) (s_len st + 2)) e G S /\ d = s_len st /\ i = s_len st + 1 /\ o = s_len st + 2 /\
    Keep st st4 /\ s_len st4 = s_len st + 3 /\ ts4 = ts /\ nthN (s_nodes st4) (s_len st) = Some (mk co (b_parent b)).
  Proof.
    intros [I R F O EP W Ss LI Q] A1 A2 A3 Wu HT Hpos Hop Hc Hdc Hin Hst.
    destruct (new_container _ _ _ _ _ _ _ _ _ _ A1 A2 A3 I (OpenB2_WB2 _ _ O) (open_op_dfk _ _ Hop) Hdc) as (I3 & X3 & W3).
    pose proof (Frame_Same _ _ (wire_up_from_frame _ _ _ _ _ _ Wu)) as S4.
    pose proof (InvX_Same _ _ _ S4 I3) as I4.
    destruct (container_spec _ _ _ _ _ _ _ _ _ _ _ _ _ A1 A2 A3 Wu) as (new & Lp & -> & -> & -> & En3 & El3 & HW & En4 & El4 & L4).
    destruct (OpenB2_pos _ _ O) as (P & _). fold (s_len st) in P.
    assert (GR4 : Grow2 (s_nodes st) (s_nodes st4)) by (rewrite En4, En3; apply Grow2_app).
    assert (Hd : nthN (s_nodes st4) (s_len st) = Some (mk co (b_parent b))) by (rewrite En4, En3; unfold s_len; apply nthN_len).
    destruct (container_entry st _ co ti ws ts4 new st3 st4 F P Hpos Hop Hc En3 HW En4 El4) as (F4 & O4 & K4 & _).
    assert (ts4 = ts).
    { eapply types_agree2; [|exact (WNew_types2 _ _ _ _ _ _ HW)]. eapply Forall2_type_grow; [|exact HT]. rewrite En3. apply Grow2_app. }
    subst ts4.
    split; [|repeat split; auto].
    constructor; auto.
    - eapply RootDF_ext; [|exact R]. eapply Ext_trans; [exact X3|apply Same_Ext; exact S4].
    - eapply Wsound_grow; eauto.
    - eapply Ssound_grow; eauto.
    - unfold LinkInv2. rewrite El4, forallb_app. apply andb_true_iff. split; [eapply LinkInv2_grow; eauto|].
      eapply (WNew_link_ok2 _ _ _ _ _ _ HW).
      + exact (proj1 (proj1 I3)).
      + rewrite <- En4. exact (proj1 F4).
      + intros w Hw. pose proof (Forall2_type_lt _ _ _ HT w Hw). unfold s_len. lia.
      + intros k nd _ E. exists nd. split; [now rewrite En4|apply grows2_refl].
      + exists (mk co (b_parent b)). split; [exact Hd|]. cbn [mk n_op]. rewrite Hin. intros j t Hj. now rewrite N.add_0_l.
    - apply (InOnce_container st st3 st4 ws ts new co (b_parent b) ti Q (proj2 I) HW); [rewrite En4; exact En3|exact El4|].
      unfold base_in. rewrite Hst, Hin. cbn. lia.
  Qed.

  (* DfBase.set_outputs at the end of a region *)
  Lemma region_close st1 b e1 G1 S1 oids ws outs st' :
    Inv2 st1 -> Fbase2 st1 -> OpenB2 (s_nodes st1) b -> Wsound (s_nodes st1) e1 G1 -> Ssound (s_nodes st1) e1 S1 -> LinkInv2 st1 ->
    InOnce st1 -> get_wires e1 oids = Ok ws -> wire_tys G1 oids = Some outs -> set_outputs2 tys st1 b ws = Ok st' ->
    Wsound (s_nodes st') e1 G1 /\ Ssound (s_nodes st') e1 S1 /\ LinkInv2 st' /\
    nthN (s_nodes st') (b_parent b + 2) = Some (mk (Output outs) (b_parent b)) /\ Grow2 (s_nodes st1) (s_nodes st') /\
    (forall lo, b_parent b + 2 < lo -> TypedFrom tys lo (s_nodes st1) -> TypedFrom tys lo (s_nodes st')) /\ InOnce st'.
  Proof.
    intros I1 (M1 & _ & _) O1 W1 Ss1 LI1 Q1 Gw WO SO.
    destruct (set_outputs2_spec _ _ _ _ _ SO O1) as (ts & new & o & ins & pp & o' & HW & El' & Hp1 & Hop & Hs & En').
    destruct O1 as (Ei & Eo & o1 & ins1 & pp1 & Hp1' & Hop1 & Hi1 & Ho1). rewrite Eo in HW.
    assert (En0 : s_nodes st1 = s_nodes st1 ++ []) by now rewrite app_nil_r.
    destruct (wired_types2 _ _ _ _ _ _ _ _ _ _ _ _ W1 Gw WO En0 HW) as [-> HT].
    set (p := b_parent b) in *.
    set (l2 := set_nth (s_nodes st1) (N.to_nat (p + 2)) (mk (Output outs) p)) in *.
    assert (Lo : p + 2 < lenN (s_nodes st1)) by (eapply nthN_lt; eauto).
    assert (GR2 : Grow2 (s_nodes st1) l2) by (eapply Grow2_set; [exact Ho1|apply grows2_output]).
    assert (Hp2 : nthN l2 p = Some (mk o pp)) by (unfold l2; rewrite nthN_set_nth_neq by lia; exact Hp1).
    assert (GR3 : Grow2 l2 (s_nodes st')) by (rewrite En'; eapply Grow2_set; [exact Hp2|eapply grows2_closed; eauto]).
    assert (GR : Grow2 (s_nodes st1) (s_nodes st')) by (eapply Grow2_trans; eauto).
    assert (Ho' : nthN (s_nodes st') (p + 2) = Some (mk (Output outs) p)).
    { rewrite En'. rewrite nthN_set_nth_neq by lia. unfold l2. now apply nthN_set_nth_eq. }
    split; [eapply Wsound_grow; eauto|]. split; [eapply Ssound_grow; eauto|]. split; [|split; [exact Ho'|split; [exact GR|split]]].
    2: { intros lo Hlo T. rewrite En'. apply TypedFrom_set; [apply TypedFrom_set; [exact T|lia]|lia]. }
    2: { eapply (InOnce_close st1 st' p pp o o' outs ws new); eauto.
         - intros off. eapply cnt_placeholder2; eauto.
         - eapply closed_base_in; eauto. }
    unfold LinkInv2. rewrite El', forallb_app. apply andb_true_iff. split; [eapply LinkInv2_grow; eauto|].
    eapply (WNew_link_ok2 _ _ _ _ _ _ HW).
    - exact (proj1 (proj1 I1)).
    - exact M1.
    - eapply Forall2_type_not_node; [exact HT|exact Ho1|reflexivity].
    - intros k nd _ E. exact (GR _ _ E).
    - exists (mk (Output outs) p). split; [exact Ho'|]. intros j t Hj. now rewrite N.add_0_l.
  Qed.

  Definition TS2 (s : stmt2) : Prop := forall strict b st e st' e' G S G' S',
    exec_stmt2 tys s b st e = Ok (st', e') -> wt_stmt2 tys s G S = Some (G', S') -> croot_stmt strict s = true ->
    Bpre2 strict st b e G S ->
    Wsound (s_nodes st') e' G' /\ Ssound (s_nodes st') e' S' /\ LinkInv2 st' /\ TypedFrom tys (s_len st) (s_nodes st') /\ InOnce st'.
  Definition TR2 (r : region2) : Prop := forall strict b st e st' e' G S G' S' ins outs,
    exec_region2 tys r b st e = Ok (st', e') -> wt_region2 tys r ins G S = Some (G', S', outs) -> croot_region strict r = true ->
    Bpre2 strict st b e G S -> (exists o pp, nthN (s_nodes st) (b_parent b) = Some (mk o pp) /\ open_op o ins) ->
    Wsound (s_nodes st') e' G' /\ Ssound (s_nodes st') e' S' /\ LinkInv2 st' /\ TypedFrom tys (s_len st) (s_nodes st') /\
    nthN (s_nodes st') (b_parent b + 2) = Some (mk (Output outs) (b_parent b)) /\ InOnce st'.
  Definition TL2 (l : stmts2) : Prop := forall strict b st e st' e' G S G' S',
    exec_stmts2 tys l b st e = Ok (st', e') -> wt_stmts2 tys l G S = Some (G', S') -> croot_stmts strict l = true ->
    Bpre2 strict st b e G S ->
    Wsound (s_nodes st') e' G' /\ Ssound (s_nodes st') e' S' /\ LinkInv2 st' /\ TypedFrom tys (s_len st) (s_nodes st') /\ InOnce st'.
  Definition TC2 (cs : cases2) : Prop := forall strict c rows others s pp bs cur st e st' e' bs' cur' G S G' S' cur2,
    exec_cases2 tys cs c bs cur st e = Ok (st', e', bs', cur') -> wt_cases2 tys cs rows others G S cur = Some (G', S', cur2) ->
    croot_cases strict cs = true ->
    Inv2 st -> RootDF strict (s_nodes st) -> Fbase2 st -> EnvPos e -> CasesInv (s_nodes st) c rows others s pp cur bs ->
    c + 1 + 3 * lenN rows <= s_len st -> Wsound (s_nodes st) e G -> Ssound (s_nodes st) e S -> LinkInv2 st -> InOnce st ->
    cur2 = cur' /\ Wsound (s_nodes st') e' G' /\ Ssound (s_nodes st') e' S' /\ LinkInv2 st' /\ TypedFrom tys (s_len st) (s_nodes st') /\
    InOnce st'.
  Definition TP2 (p : prog2) : Prop := forall e st' e' G S G' S' sin sout,
    exec_prog2 tys p e = Ok (st', e') -> wt_progx tys p G S = Some (G', S', (sin, sout)) -> croot_ok p = true ->
    EnvPos e -> Wsound [] e G -> Ssound [] e S ->
    Wsound (s_nodes st') e' G' /\ Ssound (s_nodes st') e' S' /\ LinkInv2 st' /\ TypedFrom tys 0 (s_nodes st') /\ InOnce st' /\
    exists ro, nthN (s_nodes st') 0 = Some (mk ro 0) /\ val_in ro = sin /\ val_out ro = sout /\
               ord_in2 ro = true /\ ord_out2 ro = true /\ static_in ro = None.

  (* ---------------------------------------------------------------- small facts about the operations *)
  Lemma ord_out2_canon o : ord_out2 (canon o) = ord_out2 o. Proof. now destruct o. Qed.
  Lemma ord_in2_canon o : ord_in2 (canon o) = ord_in2 o. Proof. now destruct o. Qed.
  Lemma completed_ord2 o ts op' : completed_op tys o ts = Ok op' -> ord_out2 op' = true /\ ord_in2 op' = true.
  Proof.
    intros C. pose proof (completed_canon tys _ _ _ C) as Hc.
    rewrite <- ord_out2_canon, <- ord_in2_canon, Hc, ord_out2_canon, ord_in2_canon. now destruct o.
  Qed.
  Lemma completed_simple o ts op' p : completed_op tys o ts = Ok op' -> opspec_ok tys o = true -> simple_node tys (mk op' p) = true.
  Proof.
    unfold simple_node, node_okb2. cbn [mk n_op].
    destruct o; cbn [completed_op opspec_ok]; intros H K.
    - inversion H; reflexivity.
    - inversion H; subst. now rewrite K.
    - destruct ts as [|t [|]]; inversion H; reflexivity.
    - destruct (find_sum tys [ts]); inversion H; reflexivity.
    - destruct ts as [|t [|]]; try discriminate. destruct (nthN tys t) as [[c rows| |]|]; try discriminate.
      destruct rows as [|rw [|]]; try discriminate. inversion H; reflexivity.
  Qed.
  Lemma completed_static o ts op' : completed_op tys o ts = Ok op' -> static_in op' = None.
  Proof.
    intros C. pose proof (completed_canon tys _ _ _ C) as Hc. destruct op', o; cbn in Hc; try discriminate; reflexivity.
  Qed.
  Lemma callind_static ts op' : completed_callind tys ts = Ok op' -> static_in op' = None.
  Proof.
    destruct ts as [|f r]; [discriminate|]. cbn. destruct (nthN tys f) as [[| |]|]; try discriminate. intros H. now inversion H.
  Qed.
  Lemma open_op_fun o ins ins' : open_op o ins -> open_op o ins' -> ins' = ins.
  Proof.
    intros [->|[->|(n & ->)]] [Q|[Q|(n' & Q)]]; inversion Q; reflexivity.
  Qed.

  Lemma node_of_ord2 b e l S r n : node_of b e r = Ok n -> OpenB2 l b -> Ssound l e S -> stmt_alive S r = true ->
    exists nd, nthN l n = Some nd /\ (r <> ROut -> ord_out2 (n_op nd) = true) /\ (r <> RIn -> ord_in2 (n_op nd) = true).
  Proof.
    intros H (Ei & Eo & o & ins & pp & Hp & Hop & Hi & Ho) SS A. destruct r as [| |s]; cbn in H.
    - inversion H; subst n. rewrite Ei. eexists. split; [exact Hi|]. split; [reflexivity|congruence].
    - inversion H; subst n. rewrite Eo. eexists. split; [exact Ho|]. split; [congruence|reflexivity].
    - destruct (lookup (e_stmts e) s) as [m|] eqn:E; [|discriminate]. inversion H; subst m.
      cbn in A. destruct (lookup S s) as [[|]|] eqn:E2; try discriminate.
      destruct (lookup_aligned_stmt _ _ _ _ _ SS E E2) as (nd & En & Oo & Oi). exists nd. auto.
  Qed.

  (* the nodes a container statement created are typed: the container (closed), its Input / Output, its body *)
  Lemma container_typed_exit st st4 st' d :
    d = s_len st -> s_len st4 = s_len st + 3 -> TypedFrom tys (s_len st4) (s_nodes st') ->
    (exists o' pp ins ts, nthN (s_nodes st') d = Some (mk o' pp) /\ node_okb2 tys (mk o' pp) = true /\ loop_rest (s_nodes st') d o' /\
       nthN (s_nodes st') (d + 1) = Some (mk (Input ins) d) /\ nthN (s_nodes st') (d + 2) = Some (mk (Output ts) d)) ->
    TypedFrom tys (s_len st) (s_nodes st').
  Proof.
    intros -> L4 T (o' & pp & ins & ts & E0 & Hok & Hrest & E1 & E2) p nd Hp E.
    destruct (N.lt_ge_cases p (s_len st4)) as [Lt|Ge]; [|exact (T _ _ Ge E)].
    assert (Hc : p = s_len st \/ p = s_len st + 1 \/ p = s_len st + 2) by lia.
    destruct Hc as [->|[->| ->]].
    - rewrite E0 in E. inversion E; subst nd. auto.
    - rewrite E1 in E. inversion E; subst nd. split; [reflexivity|exact I].
    - rewrite E2 in E. inversion E; subst nd. split; [reflexivity|exact I].
  Qed.

  Lemma callind_simple ts op' p : completed_callind tys ts = Ok op' -> simple_node tys (mk op' p) = true /\
    ord_out2 op' = true /\ ord_in2 op' = true.
  Proof.
    destruct ts as [|f r]; [discriminate|]. cbn. destruct (nthN tys f) as [[| |]|] eqn:E; try discriminate.
    intros H. inversion H; subst. unfold simple_node, node_okb2. cbn [mk n_op]. unfold is_fn_of. rewrite E, !row_eqb_refl. auto.
  Qed.

  (* the inserted block's links are the inner program's links, re-indexed *)
  Lemma link_okb2_shift l inner parent e : link_okb2 inner e = true ->
    link_okb2 (l ++ map (shiftn (lenN l) parent) (indexed inner)) (shift_edge (lenN l) e) = true.
  Proof.
    unfold link_okb2, op_at. cbn [shift_edge e_src e_dst e_soff e_doff].
    destruct (nthN inner (e_src e)) as [ns|] eqn:Es; [|discriminate]. destruct (nthN inner (e_dst e)) as [nd|] eqn:Ed; [|discriminate].
    rewrite !nthN_app_ge by lia. replace (lenN l + e_src e - lenN l) with (e_src e) by lia.
    replace (lenN l + e_dst e - lenN l) with (e_dst e) by lia. rewrite !nthN_shifted, Es, Ed. cbn [option_map shiftn mk n_op snd]. auto.
  Qed.

  (* add_conditional up to the wiring of its inputs: the state at the entry of the cases *)
  Lemma cond_entry st p rows others t st1 c st2 bs st3 ws ts3 :
    Fbase2 st -> 0 < s_len st -> (forall w, In w ws -> 0 < fst w) ->
    add_node st (Conditional rows others [] t) p = Ok (st1, c) -> make_cases st1 c rows others = Ok (st2, bs) ->
    wire_up st2 c ws = Ok (st3, ts3) ->
    exists new, c = s_len st /\
      s_nodes st2 = s_nodes st ++ mk (Conditional rows others [] t) p :: case_blocks (s_len st) others rows (s_len st + 1) /\
      s_nodes st3 = s_nodes st2 /\ s_links st3 = s_links st ++ new /\ WNew st2 (s_len st) 0 ws ts3 new /\
      s_len st3 = s_len st + 1 + 3 * lenN rows /\ Fbase2 st3 /\
      CasesInv (s_nodes st3) (s_len st) rows others t p None bs.
  Proof.
    intros (M & CP & LP) P Hpos E1 E2 E3.
    apply add_node_ok in E1. destruct E1 as (Lp & -> & En1 & El1).
    destruct (make_cases_spec _ _ _ _ _ _ E2) as (En2 & El2 & ->).
    apply wire_up_spec in E3. destruct E3 as (En3 & new & El3 & HW).
    assert (H1 : s_len st1 = s_len st + 1) by (rewrite (s_len_app2 _ _ _ En1); reflexivity).
    assert (EQ : s_nodes st2 = s_nodes st ++ mk (Conditional rows others [] t) p :: case_blocks (s_len st) others rows (s_len st + 1)).
    { rewrite En2, En1, H1, <- app_assoc. reflexivity. }
    exists new. split; [reflexivity|]. split; [exact EQ|]. split; [exact En3|]. split; [rewrite El3, El2, El1; reflexivity|].
    split; [exact HW|]. split; [|split].
    - unfold s_len at 1. rewrite En3, EQ, lenN_app, lenN_cons, case_blocks_len. unfold s_len. lia.
    - split; [|split].
      + rewrite En3, EQ. apply ModelOps2_app; [exact M|]. unfold ModelOps2. cbn [forallb mk n_op model_op2 andb]. apply case_blocks_model.
      + rewrite En3, EQ. now apply CasePos_cond_block.
      + eapply LinksPos_app; [rewrite El3, El2, El1; reflexivity|exact LP|]. eapply WNew_pos; eauto.
    - rewrite En3, EQ, H1. apply CasesInv_init.
  Qed.

  Lemma init_Bpre2 ro ti e G S : open_op ro ti -> is_case ro = false -> EnvPos e -> Wsound [] e G -> Ssound [] e S ->
    Bpre2 false {| s_nodes := [mk ro 0; mk (Input ti) 0; mk (Output []) 0]; s_links := [] |} (mkb 0 1 2) e G S.
  Proof.
    intros Hop Hc EP W Ss.
    assert (Hk : dfk ro = true) by (eapply open_op_dfk; eauto).
    assert (Hm : model_op2 ro = true) by (destruct Hop as [->|[->|(n & ->)]]; reflexivity).
    constructor.
    - split; [|reflexivity]. destruct ro; try discriminate; (repeat split; [eexists _, _; split; reflexivity]).
    - intros _. eexists. split; [reflexivity|]. cbn. now rewrite dfk_canon.
    - split; [|split; [|reflexivity]].
      + unfold ModelOps2. cbn. now rewrite Hm.
      + apply (CasePos_app [] _); [intros j nd E; unfold nthN in E; destruct (N.to_nat j); discriminate|]. cbn. now rewrite Hc.
    - split; [reflexivity|]. split; [reflexivity|]. exists ro, ti, 0. cbn [b_parent mkb s_nodes]. repeat split; auto.
    - exact EP.
    - now apply Wsound_nil_any.
    - now apply Ssound_nil_any.
    - reflexivity.
    - apply InOnce_nil. intros i nd E Hi. unfold nthN in E.
      destruct (N.to_nat i) as [|[|[|k]]] eqn:Ek; cbn in E; try lia; try (destruct k; discriminate); inversion E; reflexivity.
  Qed.

  Lemma Bpre2_of_pre strict st b st' e' G' S' :
    Inv2 st' /\ RootDF strict (s_nodes st') /\ Fbase2 st' /\ OpenB2 (s_nodes st') b /\ EnvPos e' /\ Keep st st' /\
      s_len st <= s_len st' /\ ClosedFrom (s_len st) (s_nodes st') ->
    Wsound (s_nodes st') e' G' -> Ssound (s_nodes st') e' S' -> LinkInv2 st' -> InOnce st' -> Bpre2 strict st' b e' G' S'.
  Proof. intros (I & R & F & O & EP & _) W Ss LI Q. constructor; auto. Qed.

  Lemma exec2_typed : (forall s, TS2 s) /\ (forall r, TR2 r) /\ (forall l, TL2 l) /\ (forall cs, TC2 cs) /\ (forall p, TP2 p).
  Proof.
    apply prog2_mutind; unfold TS2, TR2, TL2, TC2, TP2.
    - (* TOp *)
      intros id o args rs strict b st e st' e' G S G' S' H W Hc P.
      cbn [wt_stmt2] in W. destruct (wire_tys G args) as [ts_s|] eqn:WT; [|discriminate].
      destruct (completed_op tys o ts_s) as [op_s|] eqn:CS; [|discriminate].
      destruct (row_eqb (val_in op_s) ts_s && opspec_ok tys o) eqn:CK; [|discriminate]. inversion W; subst G' S'; clear W.
      apply andb_true_iff in CK. destruct CK as [CK1 CK2].
      destruct (stmt_pre2 _ _ _ _ _ _ _ _ _ H Hc P) as (I' & _).
      rewrite exec_TOp_SOp in H. apply SOp_spec in H.
      destruct H as (ws & ts & op' & new & st1 & Gw & Lp & En1 & El1 & HW & C & En' & El' & ->).
      destruct (wired_types2 _ _ _ _ _ _ _ _ _ _ _ _ (bq_W _ _ _ _ _ _ P) Gw WT En1 HW) as [-> HT].
      rewrite C in CS. inversion CS; subst op_s; clear CS.
      destruct (completed_ord2 _ _ _ C) as [Oo Oi].
      apply (leaf_typed strict st b e G S ws ts_s (initial_op o) op' new st1 st' id rs P I' HT En1 HW En' El'); auto.
      + symmetry. eapply completed_canon; eauto.
      + apply initial_model2.
      + now apply row_eqb_eq.
      + eapply completed_simple; eauto.
      + eapply completed_static; eauto.
    - (* TLoad *)
      intros id v cp r strict b st e st' e' G S G' S' H W Hc P.
      cbn [wt_stmt2] in W. destruct (value_ok tys [] v) eqn:VO; [|discriminate]. inversion W; subst G' S'; clear W.
      destruct P as [I R F O EP Ws Ss LI Q0].
      rewrite exec_TLoad_SLoad in H. apply SLoad_spec in H. destruct H as (En' & El' & ->).
      assert (GR : Grow2 (s_nodes st) (s_nodes st')) by (rewrite En'; apply Grow2_app).
      assert (Hcn : nthN (s_nodes st') (s_len st) = Some (mk (Const v) (match cp with CHere => b_parent b | CRoot => 0 end)))
        by (rewrite En'; unfold s_len; apply nthN_len).
      assert (Hn : nthN (s_nodes st') (s_len st + 1) = Some (mk (LoadConst (value_ty v)) (b_parent b))).
      { rewrite En'. rewrite nthN_app_ge by (unfold s_len; lia). unfold s_len.
        replace (lenN (s_nodes st) + 1 - lenN (s_nodes st)) with 1 by lia. reflexivity. }
      split; [|split; [|split; [|split]]].
      5: { eapply (InOnce_load st st'); eauto; [exact (proj2 I)|reflexivity|reflexivity]. }
      + apply (Wsound_bind _ _ _ _ _ id [r] Hn). eapply Wsound_grow; eauto.
      + eapply Ssound_bind; eauto; try reflexivity. eapply Ssound_grow; eauto.
      + unfold LinkInv2. rewrite El', forallb_app. apply andb_true_iff. split; [eapply LinkInv2_grow; eauto|].
        cbn [forallb]. rewrite andb_true_r. unfold link_okb2, op_at. cbn [e_src e_dst e_soff e_doff]. rewrite Hcn, Hn.
        cbn [option_map mk n_op val_out val_in df_sig]. rewrite nthN_nil. cbn. apply N.eqb_refl.
      + rewrite En'. apply TypedFrom_app; [apply TypedFrom_nil|]. unfold simple_node, node_okb2. cbn. now rewrite VO.
    - (* TNested *)
      intros id args body IH rs strict b st e st' e' G S G' S' H W Hc P.
      cbn [wt_stmt2] in W. destruct (wire_tys G args) as [ts_s|] eqn:WT; [|discriminate].
      match type of W with match ?x with _ => _ end = _ => destruct x as [[[G1 S1] outs]|] eqn:WR; [|discriminate] end.
      inversion W; subst G' S'; clear W.
      destruct (exec_TNested_inv _ _ _ _ _ _ _ _ _ _ H)
        as (ws & ts & st1 & d & st2 & i & st3 & o & st4 & ts4 & e5 & Gw & WTy & E1 & E2 & E3 & E4 & E5 & ->).
      pose proof (Wsound_wires _ _ _ (bq_W _ _ _ _ _ _ P) _ _ _ WT Gw) as HT.
      assert (ts = ts_s) by (eapply types_agree2; [exact HT|now apply wire_types_type_at]). subst ts_s.
      destruct (container_typed strict st b e G S ws ts (DFG ts []) ts _ _ _ _ _ _ _ _ P E1 E2 E3 E4 HT
                  (get_wires_pos2 _ _ _ (bq_pos _ _ _ _ _ _ P) Gw) (or_introl eq_refl) eq_refl eq_refl eq_refl eq_refl)
        as (P4 & -> & -> & -> & K4 & L4 & -> & Hd).
      destruct (IH strict _ _ _ _ _ _ _ _ _ _ _ E5 WR Hc P4) as (W' & S' & LI' & T' & Ho' & Q').
      { exists (DFG ts []), (b_parent b). split; [exact Hd|now left]. }
      destruct (region_pre2 _ _ _ _ _ _ _ _ _ E5 Hc P4) as (I' & _ & _ & _ & KX & L' & _ & (o & ins & pp & ts' & o' & Ha & Hop & Hs & Eb0 & Eb1 & Eb2) & _).
      cbn [b_parent b_out mkb] in *. rewrite Hd in Ha. inversion Ha; subst o pp; clear Ha. cbn in Hs. inversion Hs; subst o'; clear Hs.
      rewrite Eb2 in Ho'. inversion Ho'; subst ts'; clear Ho'.
      split; [|split; [|split; [|split; [|exact Q']]]].
      + apply (Wsound_bind _ _ _ _ _ id rs Eb0 W').
      + eapply Ssound_bind; eauto; reflexivity.
      + exact LI'.
      + eapply (container_typed_exit st st4 st' (s_len st)); eauto.
        exists (DFG ts outs), (b_parent b), ins, outs. repeat split; auto.
    - (* TOrder *)
      intros src dst strict b st e st' e' G S G' S' H W Hc P.
      cbn [wt_stmt2] in W. destruct (order_ends_ok src dst && stmt_alive S src && stmt_alive S dst) eqn:OE; [|discriminate].
      inversion W; subst G' S'; clear W. apply andb_true_iff in OE. destruct OE as [OE A2]. apply andb_true_iff in OE. destruct OE as [OE A1].
      destruct P as [I R F O EP Ws Ss LI Q0].
      rewrite exec_TOrder_SOrder in H. apply SOrder_spec in H. destruct H as (a & c & Na & Nc & En' & El' & ->).
      assert (Q' : InOnce st') by (eapply InOnce_order; eauto).
      rewrite En'. split; [exact Ws|]. split; [exact Ss|]. split; [|split; [apply TypedFrom_nil|exact Q']].
      unfold LinkInv2. rewrite En'. destruct El' as [->| ->]; [exact LI|].
      rewrite forallb_app. apply andb_true_iff. split; [exact LI|]. cbn [forallb]. rewrite andb_true_r.
      destruct (node_of_ord2 _ _ _ _ _ _ Na O Ss A1) as (na & Ea & Oa & _).
      destruct (node_of_ord2 _ _ _ _ _ _ Nc O Ss A2) as (nc & Ec & _ & Oc).
      unfold order_ends_ok in OE. apply andb_true_iff in OE. destruct OE as [OE1 OE2].
      unfold link_okb2, op_at, olink. cbn [e_src e_dst e_soff e_doff]. rewrite Ea, Ec. cbn [option_map].
      rewrite Oa, Oc; [reflexivity| |]; intros ->; discriminate.
    - (* TLoop *)
      intros id just rest body IH rs strict b st e st' e' G S G' S' H W Hc P.
      cbn [wt_stmt2] in W. destruct (wire_tys G just) as [jt_s|] eqn:WJ; [|discriminate].
      destruct (wire_tys G rest) as [rt_s|] eqn:WR0; [|discriminate].
      match type of W with match ?x with _ => _ end = _ => destruct x as [[[G1 S1] outs]|] eqn:WR; [|discriminate] end.
      destruct outs as [|t rt']; [discriminate|]. destruct (nthN tys t) as [[cpy rows| |]|] eqn:Et; try discriminate.
      destruct rows as [|a [|jo [|]]]; try discriminate.
      destruct (row_eqb a jt_s && row_eqb rt' rt_s) eqn:CK; [|discriminate]. inversion W; subst G' S'; clear W.
      apply andb_true_iff in CK. destruct CK as [CK1 CK2]. apply row_eqb_eq in CK1, CK2. subst a rt'.
      destruct (exec_TLoop_inv _ _ _ _ _ _ _ _ _ _ _ H)
        as (jw & rw & jt & rt & st1 & d & st2 & i & st3 & o & st4 & ts4 & e5 & G1w & G2w & T1 & T2 & E1 & E2 & E3 & E4 & E5 & ->).
      pose proof (Wsound_wires _ _ _ (bq_W _ _ _ _ _ _ P) _ _ _ WJ G1w) as HT1.
      pose proof (Wsound_wires _ _ _ (bq_W _ _ _ _ _ _ P) _ _ _ WR0 G2w) as HT2.
      assert (jt = jt_s) by (eapply types_agree2; [exact HT1|now apply wire_types_type_at]). subst jt_s.
      assert (rt = rt_s) by (eapply types_agree2; [exact HT2|now apply wire_types_type_at]). subst rt_s.
      assert (HT : Forall2 (fun p t => type_at (s_nodes st) p = Some t) (jw ++ rw) (jt ++ rt)) by now apply Forall2_app.
      assert (Hpos : forall w, In w (jw ++ rw) -> 0 < fst w).
      { intros w Hin. apply in_app_or in Hin. pose proof (bq_pos _ _ _ _ _ _ P) as EP0.
        destruct Hin; [eapply (get_wires_pos2 _ _ _ EP0 G1w)|eapply (get_wires_pos2 _ _ _ EP0 G2w)]; assumption. }
      destruct (container_typed strict st b e G S (jw ++ rw) (jt ++ rt) (TailLoop (jt ++ rt) [] [] (lenN jt)) (jt ++ rt)
                  _ _ _ _ _ _ _ _ P E1 E2 E3 E4 HT Hpos (or_intror (or_intror (ex_intro _ (lenN jt) eq_refl))) eq_refl eq_refl)
        as (P4 & -> & -> & -> & K4 & L4 & -> & Hd).
      { cbn. now rewrite app_nil_r. }
      { reflexivity. }
      destruct (IH strict _ _ _ _ _ _ _ _ _ _ _ E5 WR Hc P4) as (W' & S' & LI' & T' & Ho' & Q').
      { exists (TailLoop (jt ++ rt) [] [] (lenN jt)), (b_parent b). split; [exact Hd|right; right; eauto]. }
      destruct (region_pre2 _ _ _ _ _ _ _ _ _ E5 Hc P4) as (I' & _ & _ & _ & KX & L' & _ & (o & ins & pp & ts' & o' & Ha & Hop & Hs & Eb0 & Eb1 & Eb2) & _).
      cbn [b_parent b_out mkb] in *. rewrite Hd in Ha. inversion Ha; subst o pp; clear Ha.
      rewrite Eb2 in Ho'. inversion Ho'; subst ts'; clear Ho'.
      cbn in Hs. rewrite Et, firstn_lenN_app, skipn_lenN_app, row_eqb_refl in Hs. inversion Hs; subst o'; clear Hs.
      split; [|split; [|split; [|split; [|exact Q']]]].
      + apply (Wsound_bind _ _ _ _ _ id rs Eb0 W').
      + eapply Ssound_bind; eauto; reflexivity.
      + exact LI'.
      + eapply (container_typed_exit st st4 st' (s_len st)); eauto.
        exists (TailLoop jt jo rt t), (b_parent b), ins, (t :: rt). split; [exact Eb0|]. split; [|split; [exact Eb2|split; auto]].
        unfold node_okb2. cbn [mk n_op]. eapply is_sum_of_refl; eauto.
    - (* TCond *)
      intros id cond args cs IH rs strict b st e st' e' G S G' S' H W Hc P.
      cbn [wt_stmt2] in W. destruct (wire_ty G cond) as [t_s|] eqn:WC; [|discriminate].
      destruct (wire_tys G args) as [oth_s|] eqn:WA; [|discriminate].
      destruct (nthN tys t_s) as [[cpy rows_s| |]|] eqn:Et; try discriminate.
      match type of W with match ?x with _ => _ end = _ => destruct x as [[[G1 S1] [outs|]]|] eqn:WCs; try discriminate end.
      inversion W; subst G' S'; clear W.
      destruct (exec_TCond_inv _ _ _ _ _ _ _ _ _ _ _ H)
        as (cw & ws & t & others & cp & rows & st1 & c & st2 & bs & st3 & ts3 & e4 & bs' & cur' &
            G1w & G2w & WTy & Et' & E1 & E2 & E3 & E4 & Hd & ->).
      destruct P as [I R F O EP Ws Ss LI Q0].
      (* static and dynamic types agree *)
      destruct (Wsound_wire _ _ _ _ _ Ws WC) as (p0 & Ep0 & Tp0). rewrite G1w in Ep0. inversion Ep0; subst p0; clear Ep0.
      pose proof (Wsound_wires _ _ _ Ws _ _ _ WA G2w) as HTa.
      assert (HT : Forall2 (fun p t => type_at (s_nodes st) p = Some t) (cw :: ws) (t_s :: oth_s)) by (constructor; assumption).
      assert (Eq : t :: others = t_s :: oth_s) by (eapply types_agree2; [exact HT|now apply wire_types_type_at]).
      inversion Eq; subst t_s oth_s; clear Eq. rewrite Et in Et'. inversion Et'; subst cp rows_s; clear Et'.
      destruct (OpenB2_pos _ _ O) as (Pp & _). fold (s_len st) in Pp.
      assert (Hpos : forall w, In w (cw :: ws) -> 0 < fst w).
      { intros w [<-|Hin]; [eapply get_wire_pos2; eauto|eapply get_wires_pos2; eauto]. }
      (* structure *)
      destruct (InvX_add_df _ _ _ _ _ (Some (s_len st)) E1 I (proj1 (OpenB2_WB2 _ _ O)) eq_refl eq_refl eq_refl (or_introl eq_refl))
        as (I1 & X1 & N1 & L1 & _).
      assert (K1 : kindp is_cond (s_nodes st1) c).
      { exists (mk (Conditional rows others [] t) (b_parent b)). split; [|reflexivity]. rewrite L1, N1. unfold s_len. apply nthN_len. }
      rewrite <- N1 in I1.
      destruct (make_cases_inv _ _ _ _ _ _ _ E2 I1 K1 (or_intror eq_refl)) as (I2 & X2 & F2 & Ln & _).
      pose proof (Frame_Same _ _ (wire_up_from_frame _ _ _ _ _ _ E3)) as S3.
      destruct rows as [|r0 rows'].
      { destruct bs; [|unfold lenN in Ln; cbn in Ln; lia].
        destruct (exec_cases2_no_builders _ _ _ _ _ _ _ _ _ _ E4) as [-> ->]. discriminate Hd. }
      pose proof (InvX_Same _ _ _ S3 I2) as I3.
      pose proof (Ext_trans _ _ _ X1 (Ext_trans _ _ _ X2 (Same_Ext _ _ S3))) as X3.
      (* frame *)
      destruct (cond_entry _ _ _ _ _ _ _ _ _ _ _ _ F Pp Hpos E1 E2 E3) as (new & -> & EQ2 & En3 & El3 & HW & L3 & F3 & CI3).
      assert (GR3 : Grow2 (s_nodes st) (s_nodes st3)) by (rewrite En3, EQ2; apply Grow2_app).
      assert (ts3 = t :: others).
      { eapply types_agree2; [|exact (WNew_types2 _ _ _ _ _ _ HW)]. eapply Forall2_type_grow; [|exact HT]. rewrite EQ2. apply Grow2_app. }
      subst ts3.
      assert (Hcn : nthN (s_nodes st3) (s_len st) = Some (mk (Conditional (r0 :: rows') others [] t) (b_parent b))).
      { rewrite En3, EQ2. unfold s_len. apply nthN_len. }
      assert (LI3 : LinkInv2 st3).
      { unfold LinkInv2. rewrite El3, forallb_app. apply andb_true_iff. split; [eapply LinkInv2_grow; eauto|].
        eapply (WNew_link_ok2 _ _ _ _ _ _ HW).
        - exact (proj1 (proj1 I2)).
        - rewrite <- En3. exact (proj1 F3).
        - intros w Hw. pose proof (Forall2_type_lt _ _ _ HT w Hw). unfold s_len. lia.
        - intros k nd _ E. exists nd. split; [now rewrite En3|apply grows2_refl].
        - exists (mk (Conditional (r0 :: rows') others [] t) (b_parent b)). split; [exact Hcn|]. cbn [mk n_op]. intros j t' Hj. now rewrite N.add_0_l. }
      assert (Q3 : InOnce st3).
      { eapply (InOnce_cond st st2 st3); eauto; [exact (proj2 I)|rewrite En3; exact EQ2|reflexivity|].
        intros j nd Ej. eapply case_blocks_base_in; eauto. }
      destruct (IH strict _ _ _ _ _ _ _ _ _ _ _ _ _ _ _ _ _ _ E4 WCs Hc I3 (RootDF_ext _ _ _ X3 R) F3 EP CI3 ltac:(lia)
                  (Wsound_grow _ _ _ _ GR3 Ws) (Ssound_grow _ _ _ _ GR3 Ss) LI3 Q3) as (Ecur & W' & S' & LI' & T' & Q').
      destruct (exec2_frame tys) as (_ & _ & _ & FC & _).
      destruct (FC cs strict _ _ _ _ _ _ _ _ _ _ _ _ _ E4 Hc F3 EP CI3 ltac:(lia)) as (_ & L' & _ & CI' & _ & _).
      unfold cases_done in Hd. apply andb_true_iff in Hd. destruct Hd as [Hall Hsome]. subst cur'.
      pose proof (proj1 CI') as Hc'. cbn beta iota in Hc'.
      split; [|split; [|split; [|split; [|exact Q']]]].
      + apply (Wsound_bind _ _ _ _ _ id rs Hc' W').
      + eapply Ssound_bind; eauto; reflexivity.
      + exact LI'.
      + intros p nd Hp E. destruct (N.lt_ge_cases p (s_len st3)) as [Lt|Ge]; [|exact (T' _ _ Ge E)].
        eapply (cond_block_typed tys _ _ _ _ _ _ _ _ CI' Hall); eauto; [eapply is_sum_of_refl; eauto|lia].
    - (* TInsert *)
      intros id sub IH args rs strict b st e st' e' G S G' S' H W Hc P.
      cbn [wt_stmt2] in W.
      match type of W with match ?x with _ => _ end = _ => destruct x as [[[Gs Ss0] [sin sout]]|] eqn:WP; [|discriminate] end.
      cbv zeta in W. destruct (wire_tys (splicew Gs G) args) as [ts_s|] eqn:WT; [|discriminate].
      destruct (row_eqb ts_s sin) eqn:CK; [|discriminate]. inversion W; subst G' S'; clear W. apply row_eqb_eq in CK. subst ts_s.
      destruct (exec_TInsert_inv _ _ _ _ _ _ _ _ _ _ H) as (sti & e1 & ws & st1 & m & r & ts & E0 & Gw & E2 & Er & E4 & ->).
      destruct P as [I R (M & CP & LP) O EP Ws Ss LI Q0]. cbn [croot_stmt] in Hc.
      destruct (IH _ _ _ _ _ _ _ _ _ E0 WP Hc EP (Wsound_kill _ [] _ _ Ws) (Ssound_kill _ [] _ _ Ss))
        as (Wi & Si & LIi & Ti & Qi & ro & Hro & Hin & Hout & Oi & Oo & Hsr).
      destruct (exec2_keeps_invariants tys) as (_ & _ & _ & _ & HP). destruct (HP sub _ _ _ E0 Hc) as [[Gi Li] Ki].
      destruct (exec2_frame tys) as (_ & _ & _ & _ & FP). destruct (FP sub _ _ _ E0 Hc EP) as ((Mi & CPi & LPi) & EP1 & CFi).
      pose proof (proj1 (proj2 (proj2 Gi))) as Bi.
      destruct (insert_hugr_spec _ _ _ _ _ E2 Bi Li) as (A & B & MO & Lm).
      destruct (OpenB2_pos _ _ O) as (Pp & _). fold (s_len st) in Pp.
      assert (Pi : 0 < s_len sti) by (eapply nthN_lt; eauto).
      assert (Hr : r = s_len st) by (rewrite (MO 0) in Er by lia; inversion Er; lia). subst r.
      apply wire_up_spec in E4. destruct E4 as (En4 & new & El4 & HW).
      destruct O as (Ei & Eo & o1 & ins1 & pp1 & Hp1 & Hop1 & Hi1 & Ho1).
      assert (Kp : dfk (canon o1) = true) by (rewrite dfk_canon; eapply open_op_dfk; eauto).
      assert (I1 : Inv2 st1).
      { split.
        - rewrite A. unfold s_len. exact (GoodX_insert _ _ _ (mk o1 pp1) Hp1 (proj1 I) Gi Kp Ki).
        - apply (LinksOK_insert st st1 sti (proj2 I) Li); [|exact B]. unfold s_len. rewrite A, lenN_app, lenN_shifted. reflexivity. }
      assert (GR1 : Grow2 (s_nodes st) (s_nodes st')) by (rewrite En4, A; apply Grow2_app).
      destruct (Wsound_splice (s_nodes st) (s_nodes sti) e e1 G Gs S Ss0) as (W1 & S1); auto.
      { exact (proj2 (proj2 (proj2 (proj2 (exec2_env_mono tys)))) _ _ _ _ E0). }
      { exact (proj2 (proj2 (proj2 (proj2 (wt_mono tys)))) _ _ _ _ _ _ WP). }
      pose proof (Wsound_wires _ _ _ W1 _ _ _ WT Gw) as HT.
      assert (ts = sin).
      { eapply types_agree2; [|exact (WNew_types2 _ _ _ _ _ _ HW)]. eapply Forall2_type_grow; [|exact HT]. rewrite A. apply Grow2_app. }
      subst ts.
      assert (Hn : nthN (s_nodes st') (s_len st) = Some (mk ro (b_parent b))).
      { rewrite En4, A. unfold s_len. rewrite nthN_app_ge by lia. rewrite N.sub_diag, nthN_shifted, Hro. reflexivity. }
      split; [|split; [|split; [|split]]].
      5: { eapply (InOnce_insert st sti st1 st' (b_parent b) ws sin new ro); eauto; [exact (proj2 I)|].
           unfold base_in. rewrite Hin, Hsr. cbn. lia. }
      + rewrite <- Hout. apply (Wsound_bind _ _ _ _ _ id rs Hn). eapply Wsound_grow; eauto.
      + eapply Ssound_bind; eauto. eapply Ssound_grow; eauto.
      + unfold LinkInv2. rewrite El4, B, !forallb_app. apply andb_true_iff. split; [apply andb_true_iff; split|].
        * eapply LinkInv2_grow; eauto.
        * rewrite forallb_map, En4, A. unfold s_len. revert LIi. unfold LinkInv2. apply forallb_impl_in. intros x _. apply link_okb2_shift.
        * eapply (WNew_link_ok2 _ _ _ _ _ _ HW).
          -- exact (proj1 (proj1 I1)).
          -- rewrite A. apply ModelOps2_app; [exact M|now apply ModelOps2_shift].
          -- intros w Hw. pose proof (Forall2_type_lt _ _ _ HT w Hw). unfold s_len. lia.
          -- intros k nd _ E. exists nd. split; [now rewrite En4|apply grows2_refl].
          -- exists (mk ro (b_parent b)). split; [exact Hn|]. cbn [mk n_op]. rewrite Hin. intros j t' Hj. now rewrite N.add_0_l.
      + rewrite En4, A. unfold s_len. now apply TypedFrom_insert.
    - (* TCallInd *)
      intros id args rs strict b st e st' e' G S G' S' H W Hc P.
      cbn [wt_stmt2] in W. destruct (wire_tys G args) as [ts_s|] eqn:WT; [|discriminate].
      destruct (completed_callind tys ts_s) as [op_s|] eqn:CS; [|discriminate].
      destruct (row_eqb (val_in op_s) ts_s) eqn:CK; [|discriminate]. inversion W; subst G' S'; clear W.
      destruct (stmt_pre2 _ _ _ _ _ _ _ _ _ H Hc P) as (I' & _).
      apply TCallInd_spec in H. destruct H as (ws & ts & op' & new & st1 & Gw & Lp & En1 & El1 & HW & C & En' & El' & ->).
      destruct (wired_types2 _ _ _ _ _ _ _ _ _ _ _ _ (bq_W _ _ _ _ _ _ P) Gw WT En1 HW) as [-> HT].
      rewrite C in CS. inversion CS; subst op_s; clear CS.
      destruct (callind_simple _ _ (b_parent b) C) as (Hs & Oo & Oi).
      apply (leaf_typed strict st b e G S ws ts_s (CallIndirect [] [] 0) op' new st1 st' id rs P I' HT En1 HW En' El'); auto.
      + symmetry. eapply completed_callind_canon; eauto.
      + now apply row_eqb_eq.
      + eapply callind_static; eauto.
    - (* Reg *)
      intros wids body IH oids strict b st e st' e' G S G' S' ins outs H W Hc P (o0 & pp0 & Hp0 & Hop0).
      cbn [wt_region2] in W.
      match type of W with match ?x with _ => _ end = _ => destruct x as [[G1 S1]|] eqn:WB; [|discriminate] end.
      destruct (wire_tys G1 oids) as [outs_s|] eqn:WO; [|discriminate]. inversion W; subst G' S' outs_s; clear W.
      destruct (exec_Reg_inv _ _ _ _ _ _ _ _ _ H) as (st1 & ws & X & Gw & SO).
      pose proof P as [I R F O EP Ws Ss LI Q0].
      pose proof O as (Ei & Eo & o1 & ins1 & pp1 & Hp1 & Hop1 & Hi1 & Ho1).
      rewrite Hp0 in Hp1. inversion Hp1; subst o1 pp1; clear Hp1.
      pose proof (open_op_fun _ _ _ Hop0 Hop1) as Ein. subst ins1.
      destruct (OpenB2_pos _ _ O) as (_ & Pi & Po).
      assert (P0 : Bpre2 strict st b (bind_outs e (b_in b) wids) (tbind G wids ins) S).
      { constructor; auto.
        - now apply EnvPos_bind_in.
        - unfold bind_outs, tbind. rewrite Ei. now apply (Wsound_bind_from _ _ _ wids Hi1).
        - now apply Ssound_bind_in. }
      destruct (IH strict _ _ _ _ _ _ _ _ _ X WB Hc P0) as (W1 & Ss1 & LI1 & T1 & Q1).
      destruct (stmts_pre2 _ _ _ _ _ _ _ _ _ X Hc P0) as (I1 & R1 & F1 & O1 & EP1 & K1 & L1 & _).
      destruct (region_close _ _ _ _ _ _ _ _ _ I1 F1 O1 W1 Ss1 LI1 Q1 Gw WO SO) as (W' & S' & LI' & Ho' & _ & TT & Q').
      pose proof (OpenB2_lt _ _ O) as Lb. fold (s_len st) in Lb.
      split; [exact W'|]. split; [exact S'|]. split; [exact LI'|]. split; [apply TT; [lia|exact T1]|]. split; [exact Ho'|exact Q'].
    - (* TNil *)
      intros strict b st e st' e' G S G' S' H W _ P. apply exec_TNil_inv in H. destruct H as [-> ->].
      cbn in W. inversion W; subst. destruct P as [I R F O EP Ws Ss LI Q0]. split; [exact Ws|]. split; [exact Ss|]. split; [exact LI|]. split; [apply TypedFrom_nil|exact Q0].
    - (* TCons *)
      intros s IHs r IHr strict b st e st' e' G S G' S' H W Hc P. cbn [wt_stmts2] in W.
      match type of W with match ?x with _ => _ end = _ => destruct x as [[G1 S1]|] eqn:W1; [|discriminate] end.
      destruct (exec_TCons_inv _ _ _ _ _ _ _ _ H) as (st1 & e1 & X1 & X2).
      cbn [croot_stmts] in Hc. apply andb_true_iff in Hc. destruct Hc as [Hc1 Hc2].
      destruct (IHs strict _ _ _ _ _ _ _ _ _ X1 W1 Hc1 P) as (Wa & Sa & LIa & Ta & Qa).
      pose proof (stmt_pre2 _ _ _ _ _ _ _ _ _ X1 Hc1 P) as Pre1.
      pose proof (Bpre2_of_pre _ _ _ _ _ _ _ Pre1 Wa Sa LIa Qa) as P1.
      destruct (IHr strict _ _ _ _ _ _ _ _ _ X2 W Hc2 P1) as (Wb & Sb & LIb & Tb & Qb).
      destruct (stmts_pre2 _ _ _ _ _ _ _ _ _ X2 Hc2 P1) as (_ & _ & _ & _ & _ & K2 & L2 & _).
      split; [exact Wb|]. split; [exact Sb|]. split; [exact LIb|]. split; [|exact Qb].
      eapply TypedFrom_keep; [exact Ta|exact L2| |exact Tb]. intros n _ Hn. now apply K2.
    - (* CNil *)
      intros strict c rows others s pp bs cur st e st' e' bs' cur' G S G' S' cur2 H W _ I R F EP CI Lb Ws Ss LI Q0.
      apply exec_CNil_inv in H. inversion H; subst. cbn in W. inversion W; subst.
      split; [reflexivity|]. split; [exact Ws|]. split; [exact Ss|]. split; [exact LI|]. split; [apply TypedFrom_nil|exact Q0].
    - (* CCons *)
      intros i r IHr rest IHrest strict c rows others s pp bs cur st e st' e' bs' cur' G S G' S' cur2 H W Hc I R F EP CI Lblk Ws Ss LI Q0.
      cbn [wt_cases2] in W. destruct (nthN rows i) as [row_s|] eqn:Er; [|discriminate].
      match type of W with match ?x with _ => _ end = _ => destruct x as [[[G1 S1] outs]|] eqn:WR; [|discriminate] end.
      destruct (exec_CCons_inv _ _ _ _ _ _ _ _ _ _ H) as (cb & st1 & e1 & ts & st2 & cur2d & Hn & X0 & Xo & X2 & X3).
      cbn [croot_cases] in Hc. apply andb_true_iff in Hc. destruct Hc as [Hc1 Hc2].
      destruct (case_open _ _ _ _ _ _ _ _ _ _ CI Hn) as (row & Hrow & Hcb & OBc & Hcase & Lc & Lp).
      rewrite Er in Hrow. inversion Hrow; subst row_s. clear Hrow. rename Er into Hrow.
      assert (P : Bpre2 strict st cb e G S) by (constructor; auto).
      destruct (IHr strict _ _ _ _ _ _ _ _ _ _ _ X0 WR Hc1 P) as (W1 & Ss1 & LI1 & T1 & Ho1 & Q1).
      { exists (Case (row ++ others) []), c. subst cb. cbn [b_parent mkb]. split; [exact Hcase|right; left; reflexivity]. }
      destruct (region_pre2 _ _ _ _ _ _ _ _ _ X0 Hc1 P) as (I1 & R1 & F1 & EP1 & KX & L1 & _ & CB & X1).
      destruct (cases_step _ _ _ _ _ _ _ _ _ _ _ _ _ _ _ _ CI Hn Hrow Hcb F1 KX CB Xo X2) as (F2 & L2 & -> & CI2 & K2 & _ & Eout & Hdisj).
      rewrite Eout in Ho1. inversion Ho1; subst ts; clear Ho1.
      pose proof (update_outputs_same _ _ _ _ _ _ X2) as S2.
      assert (GR : Grow2 (s_nodes st1) (s_nodes st2)).
      { destruct Hdisj as [[_ ->]|(_ & Hc1n & En2 & _)]; [apply Grow2_refl|]. rewrite En2. eapply Grow2_set; [exact Hc1n|apply grows2_cond]. }
      assert (LI2 : LinkInv2 st2).
      { unfold LinkInv2. replace (s_links st2) with (s_links st1) by (destruct Hdisj as [[_ ->]|(_ & _ & _ & ->)]; reflexivity).
        eapply LinkInv2_grow; eauto. }
      assert (Q2 : InOnce st2).
      { destruct Hdisj as [[_ ->]|(_ & Hc1n & En2 & El2)]; [exact Q1|].
        exact (InOnce_set st1 st2 c (mk (Conditional rows others [] s) pp) (mk (Conditional rows others outs s) pp) Q1 Hc1n eq_refl En2 El2). }
      assert (Wrest : wt_cases2 tys rest rows others G1 S1 (Some outs) = Some (G', S', cur2)).
      { destruct cur as [o|]; [|exact W]. destruct (row_eqb o outs) eqn:Eo; [|discriminate]. apply row_eqb_eq in Eo. now subst o. }
      assert (Lc' : c < s_len st) by exact Lc.
      destruct (IHrest strict _ _ _ _ _ _ _ _ _ _ _ _ _ _ _ _ _ _ X3 Wrest Hc2 (InvX_Same _ _ _ S2 I1)
                  (RootDF_ext _ _ _ (Same_Ext _ _ S2) R1) F2 EP1 CI2 ltac:(lia)
                  (Wsound_grow _ _ _ _ GR W1) (Ssound_grow _ _ _ _ GR Ss1) LI2 Q2) as (Ec & Wq & Sq & LIq & Tq & Qq).
      destruct (exec2_frame tys) as (_ & _ & _ & FC & _).
      destruct (FC rest strict _ _ _ _ _ _ _ _ _ _ _ _ _ X3 Hc2 F2 EP1 CI2 ltac:(lia)) as (_ & L' & _ & _ & K' & _).
      split; [exact Ec|]. split; [exact Wq|]. split; [exact Sq|]. split; [exact LIq|]. split; [|exact Qq].
      assert (T2 : TypedFrom tys (s_len st) (s_nodes st2)).
      { destruct Hdisj as [[_ ->]|(_ & _ & En2 & _)]; [exact T1|]. rewrite En2. apply TypedFrom_set; [exact T1|exact Lc]. }
      eapply TypedFrom_keep; [exact T2|exact L'| |exact Tq].
      intros n Hn1 Hn2. fold (s_len st2) in Hn2. apply K'; [lia|right; lia].
    - (* QDfg *)
      intros ins body IH e st' e' G S G' S' sin sout H W Hc EP Ws Ss. apply exec_QDfg_inv in H. cbn [croot_ok] in Hc.
      cbn [wt_progx] in W.
      match type of W with match ?x with _ => _ end = _ => destruct x as [[[G1 S1] outs]|] eqn:WR; [|discriminate] end.
      inversion W; subst G' S' sin sout; clear W.
      pose proof (init_Bpre2 (DFG ins []) ins e G S (or_introl eq_refl) eq_refl EP Ws Ss) as P0.
      match type of H with exec_region2 _ _ _ ?st _ = _ => set (st0 := st) in * end.
      destruct (IH false _ _ _ _ _ _ _ _ _ _ _ H WR Hc P0) as (W' & S' & LI' & T' & Ho' & Q').
      { exists (DFG ins []), 0. split; [reflexivity|now left]. }
      destruct (region_pre2 _ _ _ _ _ _ _ _ _ H Hc P0) as (_ & _ & _ & _ & _ & _ & _ & (o & ins0 & pp & ts' & o' & Ha & Hop & Hs & Eb0 & Eb1 & Eb2) & _).
      cbn [b_parent mkb] in *. cbn in Ha. inversion Ha; subst o pp; clear Ha. cbn in Hs. inversion Hs; subst o'; clear Hs.
      rewrite Eb2 in Ho'. inversion Ho'; subst ts'; clear Ho'.
      split; [exact W'|]. split; [exact S'|]. split; [exact LI'|]. split; [|split; [exact Q'|]].
      + eapply (container_typed_exit {| s_nodes := []; s_links := [] |} st0 st' 0 eq_refl eq_refl T').
        exists (DFG ins outs), 0, ins0, outs. repeat split; auto.
      + exists (DFG ins outs). repeat split; auto.
    - (* QLoop *)
      intros just rest body IH e st' e' G S G' S' sin sout H W Hc EP Ws Ss. apply exec_QLoop_inv in H. cbn [croot_ok] in Hc.
      cbn [wt_progx] in W.
      match type of W with match ?x with _ => _ end = _ => destruct x as [[[G1 S1] outs]|] eqn:WR; [|discriminate] end.
      destruct outs as [|t rt']; [discriminate|]. destruct (nthN tys t) as [[cpy rows| |]|] eqn:Et; try discriminate.
      destruct rows as [|a [|jo [|]]]; try discriminate.
      destruct (row_eqb a just && row_eqb rt' rest) eqn:CK; [|discriminate]. inversion W; subst G' S' sin sout; clear W.
      apply andb_true_iff in CK. destruct CK as [CK1 CK2]. apply row_eqb_eq in CK1, CK2. subst a rt'.
      pose proof (init_Bpre2 (TailLoop (just ++ rest) [] [] (lenN just)) (just ++ rest) e G S
                    (or_intror (or_intror (ex_intro _ (lenN just) eq_refl))) eq_refl EP Ws Ss) as P0.
      match type of H with exec_region2 _ _ _ ?st _ = _ => set (st0 := st) in * end.
      destruct (IH false _ _ _ _ _ _ _ _ _ _ _ H WR Hc P0) as (W' & S' & LI' & T' & Ho' & Q').
      { exists (TailLoop (just ++ rest) [] [] (lenN just)), 0. split; [reflexivity|right; right; eauto]. }
      destruct (region_pre2 _ _ _ _ _ _ _ _ _ H Hc P0) as (_ & _ & _ & _ & _ & _ & _ & (o & ins0 & pp & ts' & o' & Ha & Hop & Hs & Eb0 & Eb1 & Eb2) & _).
      cbn [b_parent mkb] in *. cbn in Ha. inversion Ha; subst o pp; clear Ha.
      rewrite Eb2 in Ho'. inversion Ho'; subst ts'; clear Ho'.
      cbn in Hs. rewrite Et, firstn_lenN_app, skipn_lenN_app, row_eqb_refl in Hs. inversion Hs; subst o'; clear Hs.
      split; [exact W'|]. split; [exact S'|]. split; [exact LI'|]. split; [|split; [exact Q'|]].
      + eapply (container_typed_exit {| s_nodes := []; s_links := [] |} st0 st' 0 eq_refl eq_refl T').
        exists (TailLoop just jo rest t), 0, ins0, (t :: rest). split; [exact Eb0|]. split; [|split; [exact Eb2|split; auto]].
        unfold node_okb2. cbn [mk n_op]. eapply is_sum_of_refl; eauto.
      + exists (TailLoop just jo rest t). repeat split; auto.
    - (* QCond *)
      intros rows others sumty cs IH e st' e' G S G' S' sin sout H W Hc EP Ws Ss. cbn [croot_ok] in Hc.
      cbn [wt_progx] in W. destruct (is_sum_of tys sumty rows) eqn:Hsum; [|discriminate].
      match type of W with match ?x with _ => _ end = _ => destruct x as [[[G1 S1] [outs|]]|] eqn:WCs; try discriminate end.
      inversion W; subst G' S' sin sout; clear W.
      destruct (exec_QCond_inv _ _ _ _ _ _ _ _ H) as (st1 & bs & bs' & cur' & E0 & E1 & Hd).
      assert (I0 : InvX (Some 0) (new_store (Conditional rows others [] sumty))).
      { split; [repeat split|reflexivity]. eexists _, _. split; reflexivity. }
      assert (K0 : kindp is_cond (s_nodes (new_store (Conditional rows others [] sumty))) 0) by (eexists; split; reflexivity).
      destruct (make_cases_inv _ _ _ _ _ _ _ E0 I0 K0 (or_intror eq_refl)) as (I1 & X1 & _ & Ln & _).
      destruct (make_cases_spec _ _ _ _ _ _ E0) as (En1 & El1 & ->).
      cbn [new_store s_nodes s_links s_len lenN length N.of_nat app] in En1, El1, E1, Ln.
      destruct rows as [|r0 rows'].
      { cbn in E1. destruct (exec_cases2_no_builders _ _ _ _ _ _ _ _ _ _ E1) as [-> ->]. discriminate Hd. }
      assert (F1 : Fbase2 st1).
      { split; [|split].
        - rewrite En1. unfold ModelOps2. cbn [forallb mk n_op model_op2 andb]. apply case_blocks_model.
        - rewrite En1. apply (CasePos_cond_block [] (r0 :: rows') others sumty 0). intros j nd E. unfold nthN in E. destruct (N.to_nat j); discriminate.
        - unfold LinksPos. now rewrite El1. }
      assert (CI1 : CasesInv (s_nodes st1) 0 (r0 :: rows') others sumty 0 None (case_builders (r0 :: rows') 1)).
      { rewrite En1. apply (CasesInv_init [] (r0 :: rows') others sumty 0). }
      assert (L1 : s_len st1 = 1 + 3 * lenN (r0 :: rows')).
      { unfold s_len. rewrite En1, lenN_cons, case_blocks_len. lia. }
      assert (LI1 : LinkInv2 st1) by (unfold LinkInv2; now rewrite El1).
      assert (Q1 : InOnce st1).
      { intros i nd Ei Hi off Hoff. rewrite En1 in Ei. replace i with ((i - 1) + 1) in Ei by lia. rewrite nthN_S in Ei.
        rewrite (case_blocks_base_in _ _ _ _ _ _ Ei) in Hoff. lia. }
      destruct (IH true _ _ _ _ _ _ _ _ _ _ _ _ _ _ _ _ _ _ E1 WCs Hc I1 ltac:(intros Q; discriminate Q) F1 EP CI1 ltac:(lia)
                  (Wsound_nil_any _ _ _ Ws) (Ssound_nil_any _ _ _ Ss) LI1 Q1) as (Ecur & W' & S' & LI' & T' & Q').
      destruct (exec2_frame tys) as (_ & _ & _ & FC & _).
      destruct (FC cs true _ _ _ _ _ _ _ _ _ _ _ _ _ E1 Hc F1 EP CI1 ltac:(lia)) as (_ & L' & _ & CI' & _ & _).
      unfold cases_done in Hd. apply andb_true_iff in Hd. destruct Hd as [Hall Hsome]. subst cur'.
      pose proof (proj1 CI') as Hc'. cbn beta iota in Hc'.
      split; [exact W'|]. split; [exact S'|]. split; [exact LI'|]. split; [|split; [exact Q'|]].
      + intros p nd Hp E. destruct (N.lt_ge_cases p (s_len st1)) as [Lt|Ge]; [|exact (T' _ _ Ge E)].
        eapply (cond_block_typed tys _ _ _ _ _ _ _ _ CI' Hall Hsum); eauto. lia.
      + exists (Conditional (r0 :: rows') others outs sumty). repeat split; auto.
  Qed.
End TypeMain2.

(* ------------------------------------------------------------------ the theorems *)
Theorem exec_prog2_typed tys p st e1 :
  wt_prog2 tys p = true -> croot_ok p = true -> exec_prog2 tys p env0 = Ok (st, e1) ->
  LinkInv2 st /\ TypedFrom tys 0 (s_nodes st) /\ InOnce st.
Proof.
  unfold wt_prog2. intros W Hc H. destruct (wt_progx tys p [] []) as [[[G' S'] [sin sout]]|] eqn:WP; [|discriminate].
  destruct (exec2_typed tys) as (_ & _ & _ & _ & TP).
  destruct (TP p _ _ _ _ _ _ _ _ _ H WP Hc EnvPos_env0) as (_ & _ & LI & T & Q & _); [constructor|constructor|auto].
Qed.

Theorem run2_typed_rules tys p g : wt_prog2 tys p = true -> croot_ok p = true -> run2 tys p = Ok g ->
  r_io_rows g = true /\ r_derived_types tys g = true /\ r_port_counts g = true /\ r_edge_kinds g = true /\
  r_const tys [] g = true.
Proof.
  intros W Hc H. unfold run2 in H. bd H. destruct v as [st e1]. cbn [fst] in H. inversion H; subst; clear H.
  destruct (exec_prog2_typed _ _ _ _ W Hc E) as (LI & T & _).
  destruct (exec_prog2_frame _ _ _ _ E Hc) as ([(Ht & _ & Hb & _) _] & (M & CP & _) & CF).
  destruct (full_of_closed_typed _ _ CF T) as [Full NO].
  destruct (LinkInv2_rules _ LI) as [A B]. destruct (derived_types_of2 _ _ M NO) as [C D].
  split; [|auto]. rewrite io_rows_to_serial. now apply io_rows_of2.
Qed.

(* non-vacuity: the loop / conditional / inserted-Dfg example of proofs/Builder2P.v is well typed *)
Example ex4_wt : wt_prog2 ex4_tys ex4_prog = true.
Proof. vm_compute. reflexivity. Qed.

(* the premise is needed for the `rest` row of a TailLoop: hugr-py accepts a loop body whose remaining outputs differ
   from the loop's `rest` inputs, and the document then breaks rule 3 *)
Definition ex_rest_tys : list tyinfo := [TAtom true; TSum true [[]; []]].
Definition ex_rest : prog2 :=
  QLoop [] [0] (Reg [1] (TCons (TOp 1 (OTag 1 [[]; []] 1) [] [2]) TNil) [2]).
Example ex_rest_refuted : wt_prog2 ex_rest_tys ex_rest = false /\ croot_ok ex_rest = true /\
  exists g, run2 ex_rest_tys ex_rest = Ok g /\ r_io_rows g = false.
Proof. split; [vm_compute; reflexivity|]. split; [reflexivity|]. eexists. split; vm_compute; reflexivity. Qed.

(* ------------------------------------------------------------------ rule 8: from the store to the resolved edges *)
Lemma link_ok_resolve2 st e : link_okb2 (s_nodes st) e = true ->
  exists r do_, resolve (to_serial st) (ser st e) = Some r /\ r_dst r = e_dst e /\ s_op st (e_dst e) = Some do_ /\
    r_do r = match e_doff e with Some b => b | None => base_in do_ end.
Proof.
  unfold link_okb2, resolve, op_of, op_at, ser, constrain_out, constrain_in, s_op, to_serial.
  cbn [g_nodes e_src e_dst e_soff e_doff].
  destruct (option_map n_op (nthN (s_nodes st) (e_src e))) as [so|]; [|discriminate].
  destruct (option_map n_op (nthN (s_nodes st) (e_dst e))) as [do_|] eqn:Ed; [|discriminate].
  destruct (e_soff e) as [a|], (e_doff e) as [b|]; try discriminate.
  - destruct (nthN (val_out so) a) as [t|] eqn:Ea.
    + destruct (nthN (val_in do_) b) as [t'|] eqn:Eb.
      * intros _. rewrite (proj1 (kind_out_value _ _ _ Ea)). eexists _, do_. repeat split.
      * destruct so; try discriminate. cbn in Ea. rewrite nthN_nil in Ea. discriminate.
    + destruct so; try discriminate. destruct do_; try discriminate. intros H.
      apply andb_true_iff in H. destruct H as [H H3]. apply andb_true_iff in H. destruct H as [H1 H2].
      apply N.eqb_eq in H1. subst a. cbn. eexists _, _. repeat split.
  - intros H. apply andb_true_iff in H. destruct H as [H1 H2].
    rewrite (proj1 (kind_out_order2 _ H1)). eexists _, do_. repeat split.
Qed.

Lemma links_into_cnt2 st i nd off : LinkInv2 st -> nthN (s_nodes st) i = Some nd -> off < base_in (n_op nd) ->
  links_into (redges (to_serial st)) i off = cnt (s_links st) i off.
Proof.
  intros LI En Hoff. unfold redges, cnt, links_into. rewrite to_serial_edges. unfold LinkInv2 in LI.
  induction (s_links st) as [|e l IH]; [reflexivity|]. cbn [forallb] in LI. apply andb_true_iff in LI. destruct LI as [Le Ll].
  cbn [map flat_map countb]. rewrite countb_app, (IH Ll).
  destruct (link_ok_resolve2 _ _ Le) as (r & do_ & Hr & Hd & Ho & Hdo). rewrite Hr. cbn [countb]. rewrite N.add_0_r.
  f_equal. unfold into. rewrite Hd, Hdo. destruct (N.eqb_spec (e_dst e) i) as [Ei|_]; [|reflexivity]. cbn [andb].
  destruct (e_doff e) as [b|]; [reflexivity|]. cbn [optN_eqb option_eqb].
  rewrite Ei in Ho. unfold s_op in Ho. rewrite En in Ho. cbn in Ho. inversion Ho; subst do_.
  destruct (N.eqb_spec (base_in (n_op nd)) off); [lia|reflexivity].
Qed.

Lemma inputs_once_of2 st : LinkInv2 st -> InOnce st -> r_inputs_once (to_serial st) = true.
Proof.
  intros LI Q. unfold r_inputs_once. apply forallb_forall. intros [i nd] Hin. cbn [fst snd].
  apply in_indexed in Hin. cbn [to_serial g_nodes] in Hin.
  destruct (N.eqb_spec i 0) as [|Hi]; [reflexivity|]. cbn [orb]. apply forallb_forall. intros off Hoff.
  apply in_upto in Hoff. rewrite N2Nat.id in Hoff. apply N.eqb_eq.
  rewrite (links_into_cnt2 _ _ _ _ LI Hin Hoff). eapply Q; eauto.
Qed.

Theorem run2_inputs_once tys p g : wt_prog2 tys p = true -> croot_ok p = true -> run2 tys p = Ok g -> r_inputs_once g = true.
Proof.
  intros W Hc H. unfold run2 in H. bd H. destruct v as [st e1]. cbn [fst] in H. inversion H; subst; clear H.
  destruct (exec_prog2_typed _ _ _ _ W Hc E) as (LI & _ & Q). now apply inputs_once_of2.
Qed.
