(* C01 (third pass) — non-local edges for EVERY program of the extended builder language (only premise: croot_ok):
     rule 14 r_ext_order_edge     a value edge that enters a nested region (DFG, TailLoop body, Case, also inside an
                                  inserted program) has its state-order edge from the source to the sibling ancestor;
     rule 12 r_nonlocal_relation  every non-local edge is an Ext edge, or a static edge from an enclosing region;
     rule 15 r_dominance          no edge is classified as a Dom edge (no CFG in the language).
   Store level: ExtOrder (spec/BuilderS.v) and ConstLinks (proofs/BuilderNonLocalP.v) are invariants of exec2, also
   across Hugr.insert_hugr (the inner program's links re-indexed keep their ancestor relations); then the bridge to
   the validator's fuelled ancestor walk on the document, as in proofs/BuilderNonLocalP.v. *)
From Coq Require Import NArith List Bool Arith Lia.
Import ListNotations.
From HV Require Import lib.Harness model.Validity model.Builder model.Builder2 spec.BuilderS spec.BuilderWFS
  proofs.BuilderP proofs.BuilderExtP proofs.BuilderFrameP proofs.BuilderRulesP proofs.BuilderTypeP proofs.BuilderAcyclicP
  proofs.BuilderNonLocalP proofs.Builder2UnfoldP proofs.Builder2InvP proofs.Builder2P spec.Builder2WFS
  proofs.Builder2FrameP proofs.Builder2RulesP proofs.Builder2TypeP.
Local Open Scope N_scope.

(* ------------------------------------------------------------------ both link invariants together *)
Definition NL (st : store) : Prop := ExtOrder st /\ ConstLinks st.

Lemma NL_step st st' ext :
  Ext st st' -> LinksOK st -> s_links st' = s_links st ++ ext ->
  (forall e, In e ext -> ok_link st' e /\ const_link_ok st' e) -> NL st -> NL st'.
Proof.
  intros X K El H [A B]. split.
  - eapply EO_step; eauto. intros e Hin. exact (proj1 (H e Hin)).
  - eapply CL_step; eauto. intros e Hin. exact (proj2 (H e Hin)).
Qed.
Lemma NL_nodes st st' : Ext st st' -> LinksOK st -> s_links st' = s_links st -> NL st -> NL st'.
Proof. intros X K El [A B]. split; [eapply EO_nodes; eauto|eapply CL_nodes; eauto]. Qed.

Lemma NL_add_node st o p st' n : add_node st o p = Ok (st', n) -> LinksOK st -> NL st -> NL st' /\ LinksOK st'.
Proof.
  intros H K Q. apply add_node_ok in H. destruct H as (_ & _ & En & El). split.
  - eapply NL_nodes; eauto. eapply Ext_app; eauto.
  - eapply LinksOK_grow; eauto.
Qed.
Lemma NL_set_op st n o st' : set_op st n o = Ok st' -> Same st st' -> LinksOK st -> NL st -> NL st' /\ LinksOK st'.
Proof.
  intros H S K Q. split; [|exact (proj2 S K)]. eapply NL_nodes; eauto; [now apply Same_Ext|]. eapply set_op_links; eauto.
Qed.
Lemma NL_wire_up st node ws st' ts : wire_up st node ws = Ok (st', ts) -> LinksOK st -> NL st -> NL st' /\ LinksOK st'.
Proof.
  intros H K [A B]. pose proof (wire_up_from_frame _ _ _ _ _ _ H) as F. split; [split|exact (proj2 F K)].
  - eapply EO_wire_up_from; eauto.
  - apply wire_up_spec in H. destruct H as (En & new & El & HW).
    eapply CL_step; [apply Ext_nodes_eq; exact En|exact K|exact El| |exact B].
    eapply WNew_const; [exact HW|apply Ext_nodes_eq; exact En].
Qed.
Lemma NL_order_link st s d st' : add_order_link st s d = Ok st' -> LinksOK st -> NL st -> NL st' /\ LinksOK st'.
Proof.
  intros H K [A B]. split; [split|exact (proj2 (add_order_link_frame _ _ _ _ H) K)].
  - eapply EO_order_link; eauto.
  - destruct (add_order_link_cases _ _ _ _ H) as (En & _ & [El|El]).
    + eapply CL_nodes; eauto. now apply Ext_nodes_eq.
    + eapply CL_step; eauto; [now apply Ext_nodes_eq|]. intros e [<-|[]]. split; [reflexivity|]. intros Hp. discriminate Hp.
Qed.

(* ------------------------------------------------------------------ the inserted block *)
Section InsertNL.
  Variables (st sti st1 : store) (parent : N).
  Let base := s_len st.
  Hypothesis En : s_nodes st1 = s_nodes st ++ map (shiftn base parent) (indexed (s_nodes sti)).
  Hypothesis El : s_links st1 = s_links st ++ map (shift_edge base) (s_links sti).

  Lemma s_parent_shift n p : s_parent sti n = Some p -> s_parent st1 (base + n) = Some (base + p).
  Proof.
    intros H. destruct (s_parent_node _ _ _ H) as (Hn & nd & E & Hp). unfold s_parent.
    replace (base + n =? 0) with false by (symmetry; apply N.eqb_neq; lia).
    rewrite En. unfold base, s_len. rewrite nthN_app_ge by lia. replace (lenN (s_nodes st) + n - lenN (s_nodes st)) with n by lia.
    rewrite nthN_shifted, E. cbn. unfold shiftn. cbn [fst snd mk n_parent].
    replace (n =? 0) with false by (symmetry; now apply N.eqb_neq). now rewrite Hp.
  Qed.
  Lemma s_op_shift n : n < s_len sti -> s_op st1 (base + n) = s_op sti n.
  Proof.
    intros L. unfold s_op. rewrite En. unfold base, s_len. rewrite nthN_app_ge by lia.
    replace (lenN (s_nodes st) + n - lenN (s_nodes st)) with n by lia. rewrite nthN_shifted.
    destruct (nthN (s_nodes sti) n); reflexivity.
  Qed.
  Lemma AncSib_shift ps t a : AncSib (s_parent sti) (Some ps) t a ->
    AncSib (s_parent st1) (Some (base + ps)) (base + t) (base + a).
  Proof.
    intros H. remember (Some ps) as sp eqn:Esp. induction H as [t tp H1 H2|t tp a H1 H2 H3 IH]; subst sp.
    - inversion H2; subst tp. eapply AS_here; [apply s_parent_shift; exact H1|reflexivity].
    - eapply AS_up; [apply s_parent_shift; exact H1| |now apply IH]. intros Q. inversion Q. apply H2. f_equal. lia.
  Qed.
  Lemma AncSib_none par t a : AncSib par None t a -> False.
  Proof. intros H. remember None as sp eqn:E. induction H; subst; [discriminate|auto]. Qed.
  Lemma Anc_shift a n : Anc (s_parent sti) a n -> Anc (s_parent st1) (base + a) (base + n).
  Proof.
    intros H. induction H as [n H|n m H _ IH]; [apply Anc_direct|eapply Anc_step; [|exact IH]]; now apply s_parent_shift.
  Qed.

  Lemma shifted_link_ok e : LinksOK sti -> In e (s_links sti) -> ok_link sti e -> const_link_ok sti e ->
    ok_link st1 (shift_edge base e) /\ const_link_ok st1 (shift_edge base e).
  Proof.
    intros K Hin OK [Sh CL]. destruct (LinksOK_in _ _ K Hin) as [Ls Ld]. split.
    - intros Hp Hc. cbn [shift_edge e_src e_dst] in *. rewrite (s_op_shift _ Ls) in Hc.
      destruct (OK Hp Hc) as (a & HA & HO).
      destruct (s_parent sti (e_src e)) as [ps|] eqn:Eps; [|elim (AncSib_none _ _ _ HA)].
      exists (base + a). split.
      + rewrite (s_parent_shift _ _ Eps). now apply AncSib_shift.
      + destruct HO as [->|(o & Ho & Io)]; [now left|right]. exists (shift_edge base o). split.
        * rewrite El. apply in_or_app. right. now apply in_map.
        * unfold is_order_link in *. cbn [shift_edge e_src e_dst e_soff e_doff].
          apply andb_true_iff in Io. destruct Io as [Io Io3]. apply andb_true_iff in Io. destruct Io as [Io1 Io2].
          apply N.eqb_eq in Io1, Io2. rewrite Io1, Io2, !N.eqb_refl. exact Io3.
    - split; [exact Sh|]. intros Hp Hc. cbn [shift_edge e_src e_dst] in *. rewrite (s_op_shift _ Ls) in Hc.
      destruct (CL Hp Hc) as (pc & pd & A & B & C). exists (base + pc), (base + pd).
      split; [now apply s_parent_shift|]. split; [now apply s_parent_shift|].
      destruct C as [->|C]; [now left|right; now apply Anc_shift].
  Qed.

  Lemma NL_insert : LinksOK st -> LinksOK sti -> NL st -> NL sti -> NL st1.
  Proof.
    intros K Ki Q [Ai Bi]. eapply NL_step; [eapply Ext_app; exact En|exact K|exact El| |exact Q].
    intros e' Hin. apply in_map_iff in Hin. destruct Hin as (e & <- & Hin). apply shifted_link_ok; auto.
  Qed.
End InsertNL.

(* ------------------------------------------------------------------ the builders keep both invariants *)
Section MainNL.
  Variable tys : list tyinfo.

  Definition NS (s : stmt2) : Prop := forall strict b st e st' e',
    exec_stmt2 tys s b st e = Ok (st', e') -> croot_stmt strict s = true ->
    Inv2 st -> RootDF strict (s_nodes st) -> WB2 st b -> NL st -> NL st'.
  Definition NR (r : region2) : Prop := forall strict b st e st' e',
    exec_region2 tys r b st e = Ok (st', e') -> croot_region strict r = true ->
    Inv2 st -> RootDF strict (s_nodes st) -> WB2 st b -> NL st -> NL st'.
  Definition NLs (l : stmts2) : Prop := forall strict b st e st' e',
    exec_stmts2 tys l b st e = Ok (st', e') -> croot_stmts strict l = true ->
    Inv2 st -> RootDF strict (s_nodes st) -> WB2 st b -> NL st -> NL st'.
  Definition NC (cs : cases2) : Prop := forall strict c bs cur st e st' e' bs' cur',
    exec_cases2 tys cs c bs cur st e = Ok (st', e', bs', cur') -> croot_cases strict cs = true ->
    Inv2 st -> RootDF strict (s_nodes st) -> (forall cb f, In (cb, f) bs -> WB2 st cb) -> NL st -> NL st'.
  Definition NP (p : prog2) : Prop := forall e st' e',
    exec_prog2 tys p e = Ok (st', e') -> croot_ok p = true -> NL st'.

  Lemma NL_empty nodes : NL {| s_nodes := nodes; s_links := [] |}.
  Proof. split; intros e []. Qed.

  (* three add_node calls and the wiring of a new container *)
  Lemma NL_container st p co ti st1 d st2 i st3 o ws st4 ts4 :
    add_node st co p = Ok (st1, d) -> add_node st1 (Input ti) d = Ok (st2, i) -> add_node st2 (Output []) d = Ok (st3, o) ->
    wire_up st3 d ws = Ok (st4, ts4) -> LinksOK st -> NL st -> NL st4.
  Proof.
    intros A1 A2 A3 W K Q.
    destruct (NL_add_node _ _ _ _ _ A1 K Q) as [Q1 K1]. destruct (NL_add_node _ _ _ _ _ A2 K1 Q1) as [Q2 K2].
    destruct (NL_add_node _ _ _ _ _ A3 K2 Q2) as [Q3 K3]. exact (proj1 (NL_wire_up _ _ _ _ _ W K3 Q3)).
  Qed.

  Lemma NL_set_outputs2 st b ws st' : set_outputs2 tys st b ws = Ok st' -> Inv2 st -> WB2 st b -> NL st -> NL st'.
  Proof.
    intros H I W Q. pose proof (set_outputs2_same _ _ _ _ _ H W) as S.
    destruct (set_outputs2_inv _ _ _ _ _ H) as (st0 & ts & st1 & po & po' & E0 & E1 & E2 & E3 & E4).
    destruct (NL_wire_up _ _ _ _ _ E0 (proj2 I) Q) as [Q0 K0].
    pose proof (Frame_Same _ _ (wire_up_from_frame _ _ _ _ _ _ E0)) as S0.
    pose proof (WB2_ext _ _ _ (Same_Ext _ _ S0) W) as W0.
    pose proof (set_op_same _ _ _ _ E1 (kindp_output_at _ _ (proj2 W0))) as S1.
    destruct (NL_set_op _ _ _ _ E1 S1 K0 Q0) as [Q1 K1].
    pose proof (set_op_same2 _ _ _ _ _ E4 E2 (set_out_types2_canon _ _ _ _ E3)) as S2.
    exact (proj1 (NL_set_op _ _ _ _ E4 S2 K1 Q1)).
  Qed.

  Lemma make_cases_NL others : forall rows st c st' bs, make_cases st c rows others = Ok (st', bs) ->
    LinksOK st -> NL st -> NL st' /\ LinksOK st'.
  Proof.
    induction rows as [|r rest IH]; intros st c st' bs H K Q; cbn [make_cases] in H.
    - inversion H; subst. auto.
    - bd H. destruct v as [st1 n]. cbn [fst snd] in H. bd H. destruct v as [st3 io]. cbn [fst snd] in H.
      bd H. destruct v as [st4 bs4]. cbn [fst snd] in H. inversion H; subst; clear H.
      destruct (init_io_inv _ _ _ _ _ E0) as (st2 & i & o & A1 & A2 & _).
      destruct (NL_add_node _ _ _ _ _ E K Q) as [Q1 K1]. destruct (NL_add_node _ _ _ _ _ A1 K1 Q1) as [Q2 K2].
      destruct (NL_add_node _ _ _ _ _ A2 K2 Q2) as [Q3 K3]. eapply IH; eauto.
  Qed.

  Lemma exec2_nonlocal : (forall s, NS s) /\ (forall r, NR r) /\ (forall l, NLs l) /\ (forall cs, NC cs) /\ (forall p, NP p).
  Proof.
    destruct (exec2_keeps_invariants tys) as (KS & KR & KL & KC & KP).
    apply prog2_mutind; unfold NS, NR, NLs, NC, NP.
    - (* TOp *)
      intros id o args rs strict b st e st' e' H _ I _ W Q.
      destruct (exec_TOp_inv _ _ _ _ _ _ _ _ _ _ H) as (ws & st1 & n & st2 & ts & op' & _ & E1 & E2 & E3 & E4 & _).
      destruct (NL_add_node _ _ _ _ _ E1 (proj2 I) Q) as [Q1 K1]. destruct (NL_wire_up _ _ _ _ _ E2 K1 Q1) as [Q2 K2].
      apply add_node_ok in E1. destruct E1 as (_ & Hn & L1 & _).
      assert (S3 : Same st2 st').
      { eapply set_op_same; [exact E4|]. exists (mk (initial_op o) (b_parent b)). split.
        - rewrite (proj1 (wire_up_from_frame _ _ _ _ _ _ E2)), L1, Hn. unfold s_len. apply nthN_len.
        - cbn. symmetry. eapply completed_canon; eauto. }
      exact (proj1 (NL_set_op _ _ _ _ E4 S3 K2 Q2)).
    - (* TLoad *)
      intros id v cp r strict b st e st' e' H Hc I R W Q.
      destruct (KS _ strict _ _ _ _ _ H Hc I R W) as [I' X].
      rewrite exec_TLoad_SLoad in H. apply SLoad_spec in H. destruct H as (En' & El' & _).
      assert (B' : bounded (s_nodes st') = true) by exact (proj1 (proj2 (proj2 (proj1 I')))).
      assert (Lb : b_parent b < s_len st) by (destruct W as [(nd & E & _) _]; eapply nthN_lt; eauto).
      assert (Hcn : nthN (s_nodes st') (s_len st) = Some (mk (Const v) (match cp with CHere => b_parent b | CRoot => 0 end)))
        by (rewrite En'; unfold s_len; apply nthN_len).
      assert (Hn : nthN (s_nodes st') (s_len st + 1) = Some (mk (LoadConst (value_ty v)) (b_parent b))).
      { rewrite En'. rewrite nthN_app_ge by (unfold s_len; lia). unfold s_len.
        replace (lenN (s_nodes st) + 1 - lenN (s_nodes st)) with 1 by lia. reflexivity. }
      eapply NL_step; [exact X|exact (proj2 I)|exact El'| |exact Q].
      intros e0 [<-|[]]. split.
      + intros _ Hk. cbn [e_src] in Hk. unfold s_op in Hk. rewrite Hcn in Hk. discriminate Hk.
      + split; [reflexivity|]. intros _ _. cbn [e_src e_dst].
        exists (match cp with CHere => b_parent b | CRoot => 0 end), (b_parent b).
        split; [eapply s_parent_mk; [exact Hcn|lia]|]. split; [eapply s_parent_mk; [exact Hn|lia]|].
        destruct cp; [now left|]. destruct (N.eq_dec (b_parent b) 0) as [->|Hne]; [now left|right].
        eapply (root_anc st' B' (S (N.to_nat (b_parent b)))); [lia| |exact Hne].
        rewrite (s_len_app2 _ _ _ En'). lia.
    - (* TNested *)
      intros id args body IH rs strict b st e st' e' H Hc I R W Q.
      destruct (exec_TNested_inv _ _ _ _ _ _ _ _ _ _ H)
        as (ws & ts & st1 & d & st2 & i & st3 & o & st4 & ts4 & e5 & _ & _ & E1 & E2 & E3 & E4 & E5 & _).
      destruct (new_container _ _ _ _ _ _ _ _ _ _ E1 E2 E3 I W eq_refl eq_refl) as (I3 & X3 & W3).
      pose proof (Frame_Same _ _ (wire_up_from_frame _ _ _ _ _ _ E4)) as S4.
      pose proof (Ext_trans _ _ _ X3 (Same_Ext _ _ S4)) as X4.
      eapply (IH strict _ _ _ _ _ E5 Hc (InvX_Same _ _ _ S4 I3) (RootDF_ext _ _ _ X4 R) (WB2_ext _ _ _ (Same_Ext _ _ S4) W3)).
      exact (NL_container _ _ _ _ _ _ _ _ _ _ _ _ _ E1 E2 E3 E4 (proj2 I) Q).
    - (* TOrder *)
      intros src dst strict b st e st' e' H _ I _ W Q.
      destruct (exec_TOrder_inv _ _ _ _ _ _ _ _ H) as (a & c & _ & _ & E & _).
      exact (proj1 (NL_order_link _ _ _ _ E (proj2 I) Q)).
    - (* TLoop *)
      intros id just rest body IH rs strict b st e st' e' H Hc I R W Q.
      destruct (exec_TLoop_inv _ _ _ _ _ _ _ _ _ _ _ H)
        as (jw & rw & jt & rt & st1 & d & st2 & i & st3 & o & st4 & ts4 & e5 & _ & _ & _ & _ & E1 & E2 & E3 & E4 & E5 & _).
      destruct (new_container _ _ _ _ _ _ _ _ _ _ E1 E2 E3 I W eq_refl eq_refl) as (I3 & X3 & W3).
      pose proof (Frame_Same _ _ (wire_up_from_frame _ _ _ _ _ _ E4)) as S4.
      pose proof (Ext_trans _ _ _ X3 (Same_Ext _ _ S4)) as X4.
      eapply (IH strict _ _ _ _ _ E5 Hc (InvX_Same _ _ _ S4 I3) (RootDF_ext _ _ _ X4 R) (WB2_ext _ _ _ (Same_Ext _ _ S4) W3)).
      exact (NL_container _ _ _ _ _ _ _ _ _ _ _ _ _ E1 E2 E3 E4 (proj2 I) Q).
    - (* TCond *)
      intros id cond args cs IH rs strict b st e st' e' H Hc I R W Q.
      destruct (exec_TCond_inv _ _ _ _ _ _ _ _ _ _ _ H)
        as (cw & ws & t & others & cp & rows & st1 & c & st2 & bs & st3 & ts3 & e4 & bs' & cur' &
            _ & _ & _ & _ & E1 & E2 & E3 & E4 & Hd & _).
      destruct (InvX_add_df _ _ _ _ _ (Some (s_len st)) E1 I (proj1 W) eq_refl eq_refl eq_refl (or_introl eq_refl))
        as (I1 & X1 & N1 & L1 & _).
      assert (K1 : kindp is_cond (s_nodes st1) c).
      { exists (mk (Conditional rows others [] t) (b_parent b)). split; [|reflexivity]. rewrite L1, N1. unfold s_len. apply nthN_len. }
      rewrite <- N1 in I1.
      destruct (make_cases_inv _ _ _ _ _ _ _ E2 I1 K1 (or_intror eq_refl)) as (I2 & X2 & F2 & Ln & _).
      pose proof (Frame_Same _ _ (wire_up_from_frame _ _ _ _ _ _ E3)) as S3.
      destruct rows as [|r0 rows'].
      { destruct bs; [|unfold lenN in Ln; cbn in Ln; lia].
        destruct (exec_cases2_no_builders _ _ _ _ _ _ _ _ _ _ E4) as [-> ->]. discriminate Hd. }
      pose proof (InvX_Same _ _ _ S3 I2) as I3.
      pose proof (Ext_trans _ _ _ X1 (Ext_trans _ _ _ X2 (Same_Ext _ _ S3))) as X3.
      destruct (NL_add_node _ _ _ _ _ E1 (proj2 I) Q) as [Q1 K1'].
      destruct (make_cases_NL _ _ _ _ _ _ E2 K1' Q1) as [Q2 K2].
      destruct (NL_wire_up _ _ _ _ _ E3 K2 Q2) as [Q3 K3].
      eapply (IH strict _ _ _ _ _ _ _ _ _ E4 Hc I3 (RootDF_ext _ _ _ X3 R)); [|exact Q3].
      intros cb f Hin. eapply WB2_ext; [apply Same_Ext; exact S3|]. exact (proj1 (F2 _ _ Hin)).
    - (* TInsert *)
      intros id sub IH args rs strict b st e st' e' H Hc I R W Q.
      destruct (exec_TInsert_inv _ _ _ _ _ _ _ _ _ _ H) as (sti & e1 & ws & st1 & m & r & ts & E0 & _ & E2 & _ & E4 & _).
      pose proof (IH _ _ _ E0 Hc) as Qi. destruct (KP sub _ _ _ E0 Hc) as [[Gi Li] _].
      destruct (insert_hugr_spec _ _ _ _ _ E2 (proj1 (proj2 (proj2 Gi))) Li) as (A & B & _ & _).
      pose proof (NL_insert st sti st1 (b_parent b) A B (proj2 I) Li Q Qi) as Q1.
      assert (K1 : LinksOK st1).
      { apply (LinksOK_insert st st1 sti (proj2 I) Li); [|exact B]. unfold s_len. rewrite A, lenN_app, lenN_shifted. reflexivity. }
      exact (proj1 (NL_wire_up _ _ _ _ _ E4 K1 Q1)).
    - (* TCallInd *)
      intros id args rs strict b st e st' e' H _ I _ W Q.
      destruct (exec_TCallInd_inv _ _ _ _ _ _ _ _ _ H) as (ws & st1 & n & st2 & ts & op' & _ & E1 & E2 & E3 & E4 & _).
      destruct (NL_add_node _ _ _ _ _ E1 (proj2 I) Q) as [Q1 K1]. destruct (NL_wire_up _ _ _ _ _ E2 K1 Q1) as [Q2 K2].
      apply add_node_ok in E1. destruct E1 as (_ & Hn & L1 & _).
      assert (S3 : Same st2 st').
      { eapply set_op_same; [exact E4|]. exists (mk (CallIndirect [] [] 0) (b_parent b)). split.
        - rewrite (proj1 (wire_up_from_frame _ _ _ _ _ _ E2)), L1, Hn. unfold s_len. apply nthN_len.
        - cbn. symmetry. eapply completed_callind_canon; eauto. }
      exact (proj1 (NL_set_op _ _ _ _ E4 S3 K2 Q2)).
    - (* Reg *)
      intros ins body IH outs strict b st e st' e' H Hc I R W Q.
      destruct (exec_Reg_inv _ _ _ _ _ _ _ _ _ H) as (st1 & ws & E0 & _ & E2).
      destruct (KL _ strict _ _ _ _ _ E0 Hc I R W) as (I1 & X1).
      eapply NL_set_outputs2; [exact E2|exact I1|eapply WB2_ext; eauto|]. eapply IH; eauto.
    - (* TNil *)
      intros strict b st e st' e' H _ I _ _ Q. apply exec_TNil_inv in H. destruct H as [-> _]. exact Q.
    - (* TCons *)
      intros s IHs r IHr strict b st e st' e' H Hc I R W Q.
      destruct (exec_TCons_inv _ _ _ _ _ _ _ _ H) as (st1 & e1 & E0 & E1).
      cbn [croot_stmts] in Hc. apply andb_true_iff in Hc. destruct Hc as [Hc1 Hc2].
      destruct (KS _ strict _ _ _ _ _ E0 Hc1 I R W) as (I1 & X1).
      eapply (IHr strict _ _ _ _ _ E1 Hc2 I1 (RootDF_ext _ _ _ X1 R) (WB2_ext _ _ _ X1 W)). eapply IHs; eauto.
    - (* CNil *)
      intros strict c bs cur st e st' e' bs' cur' H _ I _ _ Q. apply exec_CNil_inv in H. inversion H; subst. exact Q.
    - (* CCons *)
      intros i r IHr rest IHrest strict c bs cur st e st' e' bs' cur' H Hc I R F Q.
      destruct (exec_CCons_inv _ _ _ _ _ _ _ _ _ _ H) as (cb & st1 & e1 & ts & st2 & cur2 & Hn & E0 & _ & E2 & E3).
      cbn [croot_cases] in Hc. apply andb_true_iff in Hc. destruct Hc as [Hc1 Hc2].
      pose proof (F _ _ (nthN_In _ _ _ Hn)) as Wc.
      destruct (KR _ strict _ _ _ _ _ E0 Hc1 I R Wc) as (I1 & X1).
      pose proof (IHr strict _ _ _ _ _ E0 Hc1 I R Wc Q) as Q1.
      pose proof (update_outputs_same _ _ _ _ _ _ E2) as S2.
      pose proof (Ext_trans _ _ _ X1 (Same_Ext _ _ S2)) as X2.
      assert (Q2 : NL st2).
      { destruct (update_outputs_inv _ _ _ _ _ _ E2) as [(_ & _ & rows & others & o & s & _ & Es)|(_ & _ & ->)]; [|exact Q1].
        exact (proj1 (NL_set_op _ _ _ _ Es S2 (proj2 I1) Q1)). }
      eapply (IHrest strict _ _ _ _ _ _ _ _ _ E3 Hc2 (InvX_Same _ _ _ S2 I1) (RootDF_ext _ _ _ X2 R)); [|exact Q2].
      intros cb' f Hin. apply in_set_nth in Hin. eapply WB2_ext; [exact X2|]. destruct Hin as [Hin|Hin].
      + inversion Hin; subst. exact Wc.
      + exact (F _ _ Hin).
    - (* QDfg *)
      intros ins body IH e st' e' H Hc. apply exec_QDfg_inv in H. cbn [croot_ok] in Hc.
      match type of H with exec_region2 _ _ ?b ?st _ = _ => assert (I0 : Inv2 st /\ WB2 st b) end.
      { split; [split; [repeat split|reflexivity]|split]; try reflexivity.
        - eexists _, _. split; reflexivity.
        - eexists. split; reflexivity.
        - eexists. split; reflexivity. }
      destruct I0 as (I0 & W0). eapply (IH false _ _ _ _ _ H Hc I0); [|exact W0|apply NL_empty].
      intros _. eexists. split; reflexivity.
    - (* QLoop *)
      intros just rest body IH e st' e' H Hc. apply exec_QLoop_inv in H. cbn [croot_ok] in Hc.
      match type of H with exec_region2 _ _ ?b ?st _ = _ => assert (I0 : Inv2 st /\ WB2 st b) end.
      { split; [split; [repeat split|reflexivity]|split]; try reflexivity.
        - eexists _, _. split; reflexivity.
        - eexists. split; reflexivity.
        - eexists. split; reflexivity. }
      destruct I0 as (I0 & W0). eapply (IH false _ _ _ _ _ H Hc I0); [|exact W0|apply NL_empty].
      intros _. eexists. split; reflexivity.
    - (* QCond *)
      intros rows others sumty cs IH e st' e' H Hc. cbn [croot_ok] in Hc.
      destruct (exec_QCond_inv _ _ _ _ _ _ _ _ H) as (st1 & bs & bs' & cur' & E0 & E1 & Hd).
      assert (I0 : InvX (Some 0) (new_store (Conditional rows others [] sumty))).
      { split; [repeat split|reflexivity]. eexists _, _. split; reflexivity. }
      assert (K0 : kindp is_cond (s_nodes (new_store (Conditional rows others [] sumty))) 0) by (eexists; split; reflexivity).
      destruct (make_cases_inv _ _ _ _ _ _ _ E0 I0 K0 (or_intror eq_refl)) as (I1 & X1 & F1 & Ln & _).
      destruct rows as [|r0 rows'].
      { destruct bs; [|unfold lenN in Ln; cbn in Ln; lia].
        destruct (exec_cases2_no_builders _ _ _ _ _ _ _ _ _ _ E1) as [-> ->]. discriminate Hd. }
      destruct (make_cases_NL _ _ _ _ _ _ E0 eq_refl (NL_empty _)) as [Q1 _].
      eapply (IH true _ _ _ _ _ _ _ _ _ E1 Hc I1); [intros F; discriminate F| |exact Q1].
      intros cb f Hin. exact (proj1 (F1 _ _ Hin)).
  Qed.

  Theorem exec_prog2_nonlocal p st e1 : exec_prog2 tys p env0 = Ok (st, e1) -> croot_ok p = true -> NL st.
  Proof. intros H Hc. destruct exec2_nonlocal as (_ & _ & _ & _ & HP). eapply HP; eauto. Qed.
End MainNL.

(* ------------------------------------------------------------------ the bridge to the document *)
Lemma kind_out_static_model2 o a k : model_op2 o = true -> kind_out o a = Some k -> is_static k = true ->
  a = 0 /\ exists v, o = Const v.
Proof.
  intros M. unfold kind_out. destruct (a <? lenN (val_out o)).
  - destruct (nthN (val_out o) a); cbn; intros H; inversion H; subst; discriminate.
  - destruct (is_some (static_out o) && (a =? lenN (val_out o))) eqn:E.
    + destruct o; cbn in *; try discriminate. apply N.eqb_eq in E. intros _ _. split; [exact E|eauto].
    + destruct (a <? count_out o); [|discriminate]. destruct o; cbn; try discriminate; intros H; inversion H; subst; discriminate.
Qed.

Lemma order_link_resolves2 st o s a so da :
  In o (s_links st) -> is_order_link s a o = true -> s_op st s = Some so -> s_op st a = Some da ->
  ord_out2 so = true -> ord_in2 da = true -> has_order_edge (redges (to_serial st)) s a = true.
Proof.
  intros Hin Ho Es Ea Oo Oi. unfold is_order_link in Ho.
  apply andb_true_iff in Ho. destruct Ho as [Ho Hoff]. apply andb_true_iff in Ho. destruct Ho as [H1 H2].
  apply N.eqb_eq in H1, H2. destruct (e_soff o) eqn:Eso; [discriminate|]. destruct (e_doff o) eqn:Edo; [discriminate|].
  unfold has_order_edge. apply existsb_exists.
  exists {| r_src := s; r_so := base_out so; r_dst := a; r_do := base_in da; r_kind := KOrder |}. split.
  - unfold redges. apply in_flat_map. exists (ser st o). split; [rewrite to_serial_edges; now apply in_map|].
    unfold resolve, ser. cbn [e_src e_dst e_soff e_doff]. rewrite !op_of_serial, H1, H2, Es, Ea.
    unfold constrain_out, constrain_in. rewrite Eso, Edo, Es, Ea.
    rewrite (proj1 (kind_out_order2 _ Oo)). now left.
  - cbn. now rewrite !N.eqb_refl.
Qed.

(* a container that is a sibling of a node with a value out port has an order input port (it is not a Case) *)
Lemma sibling_container_ord_in st src ns a t x c fp :
  r_child_tags (Gn (s_nodes st)) = true -> ModelOps2 (s_nodes st) ->
  nthN (s_nodes st) src = Some ns -> nthN (val_out (n_op ns)) a = Some t -> s_parent st src = Some fp ->
  s_parent st x = Some fp -> s_parent st c = Some x ->
  exists ndx, nthN (s_nodes st) x = Some ndx /\ ord_in2 (n_op ndx) = true.
Proof.
  intros T M Es Et Hps Hpx Hc.
  destruct (s_parent_node _ _ _ Hc) as (Hc0 & ndc & Ec & Pc). subst x.
  destruct (tags_parent _ _ _ T Ec Hc0) as (pa & Ea & Al). exists pa. split; [exact Ea|].
  pose proof (forallb_nthN _ _ _ _ M Ea) as Ma. cbn beta in Ma.
  destruct (n_op pa) eqn:Eop; try discriminate Ma; try discriminate Al; try reflexivity.
  exfalso. destruct (s_parent_node _ _ _ Hpx) as (Ha0 & nda & Ea' & Pa). rewrite Ea in Ea'. inversion Ea'; subst nda.
  destruct (tags_parent _ _ _ T Ea Ha0) as (qd & Eqd & Alq). rewrite Pa, Eop in *.
  destruct (s_parent_node _ _ _ Hps) as (Hs0 & nds & Es' & Ps). rewrite Es in Es'. inversion Es'; subst nds.
  destruct (tags_parent _ _ _ T Es Hs0) as (qd' & Eqd' & Als). rewrite Ps, Eqd in Eqd'. inversion Eqd'; subst qd'.
  destruct (n_op qd); try discriminate Alq. destruct (n_op ns); try discriminate Als.
  cbn in Et. rewrite nthN_nil in Et. discriminate.
Qed.

(* every resolved edge is local, a good non-local edge, or non-copyable *)
Lemma classify_ok2 tys st e r :
  Inv2 st -> ModelOps2 (s_nodes st) -> LinksPos st -> ExtOrder st -> ConstLinks st ->
  In e (s_links st) -> resolve (to_serial st) (ser st e) = Some r ->
  let c := classify tys (to_serial st) (redges (to_serial st)) r in c = ELocal \/ c = EOk \/ c = ENonCopyable.
Proof.
  intros [G K] M LP EO CL Hin Hr.
  assert (Hb : bounded (s_nodes st) = true) by exact (proj1 (proj2 (proj2 G))).
  assert (Hlt : forall n m, parent_of (to_serial st) n = Some m -> m < n) by (intros n m H; eapply s_parent_lt; eauto).
  destruct (resolve_ends _ _ _ Hr) as [Es Ed]. cbn [ser e_src e_dst] in Es, Ed.
  destruct (LinksOK_in _ _ K Hin) as [Ls Ld].
  unfold LinksPos in LP. rewrite forallb_forall in LP. specialize (LP _ Hin).
  apply andb_true_iff in LP. destruct LP as [P1 P2]. apply negb_true_iff in P1, P2. apply N.eqb_neq in P1, P2.
  destruct (nthN_some_lt _ _ Ls) as [ns Ens]. destruct (nthN_some_lt _ _ Ld) as [nd End].
  pose proof (s_parent_at _ _ _ Ens P1) as Hps. pose proof (s_parent_at _ _ _ End P2) as Hpd.
  remember (n_parent ns) as fp eqn:Efp. remember (n_parent nd) as tp eqn:Etp.
  cbv zeta. unfold classify. rewrite Es, Ed, !parent_of_serial, Hps, Hpd.
  destruct (N.eqb_spec fp tp) as [Eq|Hne]; [now left|]. right.
  assert (Lf : (N.to_nat tp < length (g_nodes (to_serial st)))%nat).
  { pose proof (s_parent_lt _ _ _ Hb Hpd). unfold s_len, lenN in Ld. unfold to_serial. cbn [g_nodes]. lia. }
  unfold resolve in Hr. cbn [ser e_src e_dst e_soff e_doff] in Hr. rewrite !op_of_serial in Hr.
  assert (Eso : s_op st (e_src e) = Some (n_op ns)) by (unfold s_op; now rewrite Ens).
  assert (Edo : s_op st (e_dst e) = Some (n_op nd)) by (unfold s_op; now rewrite End).
  rewrite Eso, Edo in Hr.
  destruct (CL e Hin) as [Sh CLe].
  destruct (e_soff e) as [a|] eqn:Ea.
  - unfold shape_ok in Sh. rewrite Ea in Sh. cbn [is_some] in Sh. destruct (e_doff e) as [b|] eqn:Eb; [|discriminate Sh].
    assert (PL : port_link e = true) by (unfold port_link; now rewrite Ea, Eb).
    cbn [constrain_out constrain_in] in Hr.
    destruct (kind_out (n_op ns) a) as [k|] eqn:Ek; [|discriminate]. inversion Hr; subst r; clear Hr. cbn [r_kind r_src r_dst].
    destruct (is_static k) eqn:Est.
    + cbn [negb andb]. left.
      destruct (kind_out_static_model2 _ _ _ (forallb_nthN _ _ _ _ M Ens) Ek Est) as (_ & v & Ev).
      assert (Hc : is_const_kind (s_op st (e_src e)) = true) by (rewrite Eso, Ev; reflexivity).
      destruct (CLe PL Hc) as (pc & pd & A & B & C). rewrite Hps in A. rewrite Hpd in B. inversion A; inversion B; subst pc pd.
      destruct C as [C|C]; [contradiction|].
      apply walk_static_ok; [exact Hlt|exact Lf|exact C].
    + destruct k as [t| | | |]; try discriminate Est; cbn [negb andb]; try (right; reflexivity).
      destruct (ty_copy tys t); cbn [negb]; [|right; reflexivity]. left.
      pose proof (kind_out_value_inv _ _ _ Ek) as Ht.
      assert (Hc : is_const_kind (s_op st (e_src e)) = false).
      { rewrite Eso. destruct (n_op ns); try reflexivity. cbn in Ht. rewrite nthN_nil in Ht. discriminate. }
      destruct (EO e Hin PL Hc) as (x & HA & HO). rewrite Hps in HA.
      inversion HA as [t0 tp0 H1 H2|t0 tp0 a0 H1 H2 H3]; subst t0.
      * rewrite Hpd in H1. inversion H1; subst tp0. inversion H2. congruence.
      * rewrite Hpd in H1. inversion H1; subst tp0. clear H1. subst a0.
        rewrite (walk_value_ok (to_serial st) (redges (to_serial st)) (e_src e) fp Hlt (model2_no_func _ M) _ tp x); [|exact Lf|exact H3].
        assert (HOE : has_order_edge (redges (to_serial st)) (e_src e) x = true).
        { destruct HO as [->|(o & Ho & Io)].
          - exfalso. pose proof (AncSib_parent _ _ _ _ H3) as Q. rewrite Hpd in Q. inversion Q. contradiction.
          - pose proof (AncSib_parent _ _ _ _ H3) as Hpx.
            assert (Hxc : exists c, s_parent st c = Some x).
            { destruct (AncSib_cases _ _ _ _ H3) as [Ex|[c Hc']]; [|eauto]. exists (e_dst e). now rewrite Ex. }
            destruct Hxc as [c Hxc].
            destruct (sibling_container_ord_in st (e_src e) ns a t x c fp (proj1 G) M Ens Ht Hps Hpx Hxc) as (ndx & Ex & Ox).
            eapply order_link_resolves2; [exact Ho|exact Io|exact Eso| |eapply model2_out_ord; [exact (forallb_nthN _ _ _ _ M Ens)|exact Ht]|exact Ox].
            unfold s_op. now rewrite Ex. }
        now rewrite HOE.
  - unfold shape_ok in Sh. rewrite Ea in Sh. cbn [is_some] in Sh. destruct (e_doff e) as [b|] eqn:Eb; [discriminate Sh|].
    cbn [constrain_out constrain_in] in Hr. rewrite Eso, Edo in Hr.
    destruct (kind_out (n_op ns) (base_out (n_op ns))) as [k|] eqn:Ek; [|discriminate]. inversion Hr; subst r; clear Hr. cbn [r_kind r_src r_dst].
    destruct (kind_out_base _ _ Ek) as [Est Hnv]. rewrite Est. cbn [negb andb]. right.
    destruct k; try reflexivity. elim (Hnv t). reflexivity.
Qed.

Lemma no_code_of2 tys st c :
  Inv2 st -> ModelOps2 (s_nodes st) -> LinksPos st -> ExtOrder st -> ConstLinks st ->
  c <> ELocal -> c <> EOk -> c <> ENonCopyable -> no_code tys (to_serial st) c = true.
Proof.
  intros I M LP EO CL N1 N2 N3. unfold no_code. apply forallb_forall. intros r Hr. apply negb_true_iff.
  unfold redges in Hr. apply in_flat_map in Hr. destruct Hr as (e' & He' & Hr).
  destruct (resolve (to_serial st) e') as [r'|] eqn:Er; [|destruct Hr]. destruct Hr as [<-|[]].
  rewrite to_serial_edges in He'. apply in_map_iff in He'. destruct He' as (e & <- & He).
  destruct (classify_ok2 tys st e r' I M LP EO CL He Er) as [E|[E|E]]; cbv zeta in E; rewrite E;
    destruct c; try reflexivity; congruence.
Qed.

Theorem run2_nonlocal tys p g : croot_ok p = true -> run2 tys p = Ok g ->
  r_nonlocal_relation tys g = true /\ r_ext_order_edge tys g = true /\ r_dominance tys g = true.
Proof.
  intros Hc H. unfold run2 in H. bd H. destruct v as [st e1]. cbn [fst] in H. inversion H; subst; clear H.
  destruct (exec_prog2_frame _ _ _ _ E Hc) as (I & (M & _ & LP) & _).
  destruct (exec_prog2_nonlocal tys _ _ _ E Hc) as [EO CL].
  unfold r_nonlocal_relation, r_ext_order_edge, r_dominance.
  rewrite !(no_code_of2 tys st) by (auto; discriminate). auto.
Qed.

(* non-vacuity: in the example of proofs/Builder2P.v the loop body and both cases use wires of the enclosing region *)
Definition ex5_tys : list tyinfo := [TAtom true; TSum true [[]; []]].
Definition ex5_prog : prog2 :=
  QDfg [0; 1] (Reg [1; 2]
    (TCons (TCond 1 2 [] (CCons 0 (Reg [] (TCons (TOp 2 ONoop [1] [3]) TNil) [3])
                         (CCons 1 (Reg [] (TCons (TInsert 3 (QDfg [0] (Reg [4] TNil [4])) [1] [5]) TNil) [5]) CNil)) [6])
     TNil) [6]).
Example ex5_nonlocal : croot_ok ex5_prog = true /\ wt_prog2 ex5_tys ex5_prog = true /\
  exists g, run2 ex5_tys ex5_prog = Ok g /\
  valid {| v_tys := ex5_tys; v_main := g; v_subs := [] |} = true /\
  existsb (fun r => ecode_eqb (classify ex5_tys g (redges g) r) EOk && negb (is_static (r_kind r))) (redges g) = true.
Proof. split; [reflexivity|]. split; [vm_compute; reflexivity|]. eexists. split; [vm_compute; reflexivity|]. split; vm_compute; reflexivity. Qed.

(* ------------------------------------------------------------------ why rule 10 needs the typing premise in the extended language *)
(* The interpreter's wire dictionary keeps the wires of a separately built program after it has been inserted; they
   name node indices of the INNER Hugr.  Here the inserted Dfg's Noop sits at inner index 3, and in the enclosing Hugr
   index 3 is the Conditional under construction: the second case uses the dead wire, hugr-py (and the model) wire port
   0 of the Conditional into its own case and add the order edge Conditional -> Conditional: a cycle.  wt_prog2 rejects
   the program (the wire is dead outside the inserted program); there is no add_state_order in it. *)
Definition ex6_tys : list tyinfo := [TAtom true; TSum true [[]; []]].
Definition ex6_prog : prog2 :=
  QDfg [0; 1] (Reg [1; 2]
    (TCons (TCond 1 2 [1]
       (CCons 0 (Reg [10] (TCons (TInsert 2 (QDfg [0] (Reg [20] (TCons (TOp 3 ONoop [20] [21]) TNil) [21])) [10] [11]) TNil) [11])
       (CCons 1 (Reg [12] (TCons (TOp 4 ONoop [21] [13]) TNil) [13]) CNil)) [14]) TNil) [14]).
Example ex6_dead_wire_cycle : croot_ok ex6_prog = true /\ wt_prog2 ex6_tys ex6_prog = false /\
  exists g, run2 ex6_tys ex6_prog = Ok g /\ r_acyclic g = false.
Proof. split; [reflexivity|]. split; [vm_compute; reflexivity|]. eexists. split; vm_compute; reflexivity. Qed.
