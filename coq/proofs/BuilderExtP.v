(* C01 — every non-local value wire made by the builders has its order edge (invariant of exec). *)
From Coq Require Import NArith List Bool Arith Lia.
Import ListNotations.
From HV Require Import lib.Harness model.Validity model.Builder spec.BuilderS proofs.BuilderP.
Local Open Scope N_scope.

Lemma optN_eqb_true a b : optN_eqb a b = true -> a = b.
Proof.
  destruct a, b; cbn; try discriminate; try reflexivity. intros H. apply N.eqb_eq in H. now subst.
Qed.
Lemma optN_eqb_false a b : optN_eqb a b = false -> a <> b.
Proof.
  destruct a, b; cbn; try discriminate; intros H E; inversion E; subst. rewrite N.eqb_refl in H. discriminate.
Qed.

Lemma anc_sib_from_sound fuel : forall st sp t a,
  anc_sib_from fuel st sp t = Some a -> AncSib (s_parent st) sp t a.
Proof.
  induction fuel as [|f IH]; intros st sp t a; cbn [anc_sib_from]; [discriminate|].
  destruct (s_parent st t) as [tp|] eqn:E; [|discriminate].
  destruct (optN_eqb (Some tp) sp) eqn:Q.
  - intros H. inversion H; subst. eapply AS_here; eauto. now apply optN_eqb_true.
  - intros H. eapply AS_up; eauto. now apply optN_eqb_false.
Qed.

Lemma AncSib_mono par par' sp t a :
  (forall n p, par n = Some p -> par' n = Some p) -> AncSib par sp t a -> AncSib par' sp t a.
Proof. intros M H. induction H; [eapply AS_here|eapply AS_up]; eauto. Qed.

(* ------------------------------------------------------------------ old nodes keep parent and kind *)
Lemma nth_ext st st' n nd : Ext st st' -> nthN (s_nodes st) n = Some nd ->
  exists nd', nthN (s_nodes st') n = Some nd' /\ cnode nd' = cnode nd.
Proof.
  intros [ext E] Hn.
  assert (H : nthN (map cnode (s_nodes st')) n = Some (cnode nd)).
  { rewrite E. apply nthN_app1. rewrite nthN_map, Hn. reflexivity. }
  rewrite nthN_map in H. destruct (nthN (s_nodes st') n) as [nd'|]; [|discriminate].
  exists nd'. split; [reflexivity|]. cbn [option_map] in H. congruence.
Qed.
Lemma parent_ext st st' n p : Ext st st' -> s_parent st n = Some p -> s_parent st' n = Some p.
Proof.
  intros X. unfold s_parent. destruct (n =? 0); [discriminate|].
  destruct (nthN (s_nodes st) n) as [nd|] eqn:E; [|discriminate]. cbn. intros H. inversion H; subst.
  destruct (nth_ext _ _ _ _ X E) as (nd' & E' & C). rewrite E'. cbn. unfold cnode in C. now inversion C.
Qed.
Lemma const_kind_canon o o' : canon o = canon o' -> is_const_kind (Some o) = is_const_kind (Some o').
Proof. destruct o, o'; cbn; intros H; try discriminate H; reflexivity. Qed.
Lemma old_node_ext st st' n : Ext st st' -> n < s_len st ->
  s_parent st' n = s_parent st n /\ is_const_kind (s_op st' n) = is_const_kind (s_op st n).
Proof.
  intros X L. destruct (nthN_some_lt _ _ L) as [nd E]. destruct (nth_ext _ _ _ _ X E) as (nd' & E' & C).
  unfold s_parent, s_op. rewrite E, E'. cbn. unfold cnode in C. inversion C as [[C1 C2]]. split.
  - now rewrite C2.
  - now apply const_kind_canon.
Qed.

Lemma LinksOK_in st e : LinksOK st -> In e (s_links st) -> e_src e < s_len st /\ e_dst e < s_len st.
Proof.
  unfold LinksOK. rewrite forallb_forall. intros H Hin. specialize (H _ Hin).
  apply andb_true_iff in H. destruct H as [A B]. split; now apply N.ltb_lt.
Qed.

(* the general step: old nodes keep parent and kind, links grow by `ext`, each new link is fine *)
Lemma EO_step st st' ext :
  Ext st st' -> LinksOK st -> s_links st' = s_links st ++ ext ->
  (forall e, In e ext -> ok_link st' e) -> ExtOrder st -> ExtOrder st'.
Proof.
  intros X K El Hnew Q e Hin. rewrite El in Hin. apply in_app_or in Hin. destruct Hin as [Hin|Hin]; [|now apply Hnew].
  destruct (LinksOK_in _ _ K Hin) as [Ls Ld]. destruct (old_node_ext _ _ _ X Ls) as [Ps Cs].
  intros Hp Hc. rewrite Cs in Hc. destruct (Q e Hin Hp Hc) as (a & HA & HO).
  exists a. split.
  - rewrite Ps. eapply AncSib_mono; [|exact HA]. intros n p. now apply parent_ext.
  - destruct HO as [HO|(o & Ho & Io)]; [now left|right]. exists o. split; [|exact Io].
    rewrite El. apply in_or_app. now left.
Qed.

Lemma EO_nodes st st' : Ext st st' -> LinksOK st -> s_links st' = s_links st -> ExtOrder st -> ExtOrder st'.
Proof.
  intros X K El. apply (EO_step st st' []); auto; [now rewrite app_nil_r|]. intros e [].
Qed.

(* ------------------------------------------------------------------ the link primitives *)
Lemma add_link_ok st s so d do_ st' : add_link st s so d do_ = Ok st' ->
  s_nodes st' = s_nodes st /\
  s_links st' = s_links st ++ [{| e_src := s; e_soff := so; e_dst := d; e_doff := do_ |}].
Proof.
  unfold add_link. destruct ((s <? s_len st) && (d <? s_len st)); intros H; inversion H; subst. auto.
Qed.
Lemma Ext_nodes_eq st st' : s_nodes st' = s_nodes st -> Ext st st'.
Proof. intros E. exists []. now rewrite E, app_nil_r. Qed.
Lemma s_parent_eq st st' n : s_nodes st' = s_nodes st -> s_parent st' n = s_parent st n.
Proof. intros E. unfold s_parent. now rewrite E. Qed.

Lemma add_order_link_cases st s d st' : add_order_link st s d = Ok st' ->
  s_nodes st' = s_nodes st /\
  (exists o, In o (s_links st') /\ is_order_link s d o = true) /\
  (s_links st' = s_links st \/
   s_links st' = s_links st ++ [{| e_src := s; e_soff := None; e_dst := d; e_doff := None |}]).
Proof.
  unfold add_order_link. destruct (existsb (is_order_link s d) (s_links st)) eqn:E.
  - intros H. inversion H; subst. split; [reflexivity|]. split; [|now left].
    apply existsb_exists in E. exact E.
  - intros H. apply add_link_ok in H. destruct H as [En El]. split; [exact En|]. split; [|now right].
    eexists. split; [rewrite El; apply in_or_app; right; left; reflexivity|].
    unfold is_order_link. cbn. now rewrite !N.eqb_refl.
Qed.

Lemma EO_order_link st s d st' : add_order_link st s d = Ok st' -> LinksOK st -> ExtOrder st -> ExtOrder st'.
Proof.
  intros H K Q. destruct (add_order_link_cases _ _ _ _ H) as (En & _ & [El|El]).
  - eapply EO_nodes; eauto. now apply Ext_nodes_eq.
  - eapply EO_step; eauto; [now apply Ext_nodes_eq|]. intros e [<-|[]]. intros Hp. discriminate Hp.
Qed.

Lemma EO_static_link st c so l do_ st' :
  add_link st c so l do_ = Ok st' -> is_const_kind (s_op st c) = true -> LinksOK st -> ExtOrder st -> ExtOrder st'.
Proof.
  intros H Hc K Q. apply add_link_ok in H. destruct H as [En El].
  eapply EO_step; eauto; [now apply Ext_nodes_eq|]. intros e [<-|[]]. intros _ Hk. cbn [e_src] in Hk.
  unfold s_op in Hk, Hc. rewrite En in Hk. congruence.
Qed.

Lemma EO_wire_up_port st node i w st' t :
  wire_up_port st node i w = Ok (st', t) -> LinksOK st -> ExtOrder st -> ExtOrder st'.
Proof.
  unfold wire_up_port. destruct (anc_sib st (fst w) node) as [a|] eqn:EA; [|discriminate].
  apply anc_sib_from_sound in EA. intros H K Q.
  destruct (a =? node) eqn:Ean.
  - apply N.eqb_eq in Ean. subst a. cbn [bind] in H. bd H. rename v into st2. bd H. inversion H; subst; clear H.
    apply add_link_ok in E. destruct E as [En El].
    eapply EO_step; eauto; [now apply Ext_nodes_eq|]. intros e [<-|[]]. intros _ _. cbn [e_src e_dst].
    exists node. split; [|now left]. rewrite (s_parent_eq _ _ _ En).
    eapply AncSib_mono; [|exact EA]. intros n p. now rewrite (s_parent_eq _ _ _ En).
  - bd H. rename v into st1. bd H. rename v into st2. bd H. inversion H; subst; clear H.
    destruct (add_order_link_cases _ _ _ _ E) as (En1 & (o & Ho & Io) & _).
    pose proof (EO_order_link _ _ _ _ E K Q) as Q1.
    pose proof (proj2 (add_order_link_frame _ _ _ _ E) K) as K1.
    apply add_link_ok in E0. destruct E0 as [En2 El2].
    eapply EO_step; eauto; [now apply Ext_nodes_eq|]. intros e [<-|[]]. intros _ _. cbn [e_src e_dst].
    exists a. split.
    + rewrite (s_parent_eq _ _ _ En2), (s_parent_eq _ _ _ En1).
      eapply AncSib_mono; [|exact EA]. intros n p. now rewrite (s_parent_eq _ _ _ En2), (s_parent_eq _ _ _ En1).
    + right. exists o. split; [|exact Io]. rewrite El2. apply in_or_app. now left.
Qed.

Lemma EO_wire_up_from ws : forall st node i st' ts,
  wire_up_from st node i ws = Ok (st', ts) -> LinksOK st -> ExtOrder st -> ExtOrder st'.
Proof.
  induction ws as [|w r IH]; intros st node i st' ts; cbn [wire_up_from].
  - intros H. now inversion H.
  - intros H K Q. bd H. destruct v as [st1 t]. cbn [fst snd] in H. bd H. destruct v as [st2 ts2].
    cbn [fst snd] in H. inversion H; subst; clear H.
    eapply IH; eauto.
    + exact (proj2 (wire_up_port_frame _ _ _ _ _ _ E) K).
    + eapply EO_wire_up_port; eauto.
Qed.

(* ------------------------------------------------------------------ the builders keep ExtOrder *)
Lemma set_op_links st n o st' : set_op st n o = Ok st' -> s_links st' = s_links st.
Proof. unfold set_op. destruct (nthN (s_nodes st) n); intros H; inversion H; reflexivity. Qed.

Section MainExt.
  Variable tys : list tyinfo.

  Lemma EO_set_outputs st b ws st' :
    set_outputs st b ws = Ok st' -> Inv st -> WB st b -> ExtOrder st -> ExtOrder st'.
  Proof.
    unfold set_outputs, wire_up. intros H I W Q. bd H. destruct v as [st1 ts]. cbn [fst snd] in H.
    bd H. rename v into st2. destruct (s_op st2 (b_parent b)) as [po|] eqn:E3; [|discriminate].
    pose proof (wire_up_from_frame _ _ _ _ _ _ E) as F1. pose proof (Frame_Same _ _ F1) as S1.
    pose proof (EO_wire_up_from _ _ _ _ _ _ E (proj2 I) Q) as Q1.
    pose proof (Inv_Same _ _ S1 I) as I1.
    pose proof (WB_ext _ _ _ (Same_Ext _ _ S1) W) as [_ W1].
    pose proof (set_op_same _ _ _ _ E0 W1) as S2.
    pose proof (EO_nodes _ _ (Same_Ext _ _ S2) (proj2 I1) (set_op_links _ _ _ _ E0) Q1) as Q2.
    pose proof (Inv_Same _ _ S2 I1) as I2.
    assert (S3 : Same st2 st').
    { eapply set_op_same; [exact H|]. unfold s_op in E3.
      destruct (nthN (s_nodes st2) (b_parent b)) as [nd|] eqn:E4; [|discriminate]. cbn in E3. inversion E3; subst.
      exists nd. split; [exact E4|]. now rewrite canon_set_out_types. }
    exact (EO_nodes _ _ (Same_Ext _ _ S3) (proj2 I2) (set_op_links _ _ _ _ H) Q2).
  Qed.

  Definition P2_stmt (s : stmt) : Prop := forall b st e st' e',
    exec_stmt tys s b st e = Ok (st', e') -> Inv st -> WB st b -> ExtOrder st -> ExtOrder st'.
  Definition P2_region (r : region) : Prop := forall b st e st' e',
    exec_region tys r b st e = Ok (st', e') -> Inv st -> WB st b -> ExtOrder st -> ExtOrder st'.
  Definition P2_stmts (l : stmts) : Prop := forall b st e st' e',
    exec_stmts tys l b st e = Ok (st', e') -> Inv st -> WB st b -> ExtOrder st -> ExtOrder st'.

  Lemma exec_keeps_ext_order :
    (forall s, P2_stmt s) /\ (forall r, P2_region r) /\ (forall l, P2_stmts l).
  Proof.
    destruct (exec_keeps_invariants tys) as (KS & KR & KL).
    apply prog_mutind; unfold P2_stmt, P2_region, P2_stmts.
    - (* SOp *)
      intros id o args rs b st e st' e' H I W Q. cbn [exec_stmt] in H.
      bd H. rename v into ws. bd H. destruct v as [st1 n1]. cbn [fst snd] in H.
      bd H. destruct v as [st2 ts]. cbn [fst snd] in H. bd H. rename v into op'. bd H. rename v into st3.
      inversion H; subst; clear H.
      destruct (Inv_add_leaf _ _ _ _ _ E0 I (proj1 W) (initial_plain o) (initial_allowed o)) as (I1 & X1 & N1 & L1).
      destruct (add_node_ok _ _ _ _ _ E0) as (_ & _ & _ & K1).
      pose proof (EO_nodes _ _ X1 (proj2 I) K1 Q) as Q1.
      pose proof (wire_up_from_frame _ _ _ _ _ _ E1) as F2.
      pose proof (EO_wire_up_from _ _ _ _ _ _ E1 (proj2 I1) Q1) as Q2.
      pose proof (Inv_Same _ _ (Frame_Same _ _ F2) I1) as I2.
      assert (S3 : Same st2 st').
      { eapply set_op_same; [exact E3|]. exists (mk (initial_op o) (b_parent b)). split.
        - rewrite (proj1 F2), L1, N1. unfold s_len. apply nthN_len.
        - cbn. symmetry. eapply completed_canon; eauto. }
      exact (EO_nodes _ _ (Same_Ext _ _ S3) (proj2 I2) (set_op_links _ _ _ _ E3) Q2).
    - (* SLoad *)
      intros id v cp r b st e st' e' H I W Q. cbn [exec_stmt] in H.
      bd H. destruct v0 as [st1 c]. cbn [fst snd] in H. bd H. destruct v0 as [st2 l]. cbn [fst snd] in H.
      bd H. rename v0 into st3. inversion H; subst; clear H.
      assert (Kp : kind_at (s_nodes st) (match cp with CHere => b_parent b | CRoot => 0 end) (DFG [] [])).
      { destruct cp; [exact (proj1 W)|]. destruct I as [(_ & _ & _ & (r0 & rest & Er & D1 & D2)) _].
        exists r0. rewrite Er. split; [reflexivity|exact D2]. }
      destruct (Inv_add_leaf _ _ _ _ _ E I Kp eq_refl eq_refl) as (I1 & X1 & N1 & L1).
      destruct (add_node_ok _ _ _ _ _ E) as (_ & _ & _ & K1).
      pose proof (EO_nodes _ _ X1 (proj2 I) K1 Q) as Q1.
      pose proof (WB_ext _ _ _ X1 W) as W1.
      destruct (Inv_add_leaf _ _ _ _ _ E0 I1 (proj1 W1) eq_refl eq_refl) as (I2 & X2 & N2 & L2).
      destruct (add_node_ok _ _ _ _ _ E0) as (_ & _ & _ & K2).
      pose proof (EO_nodes _ _ X2 (proj2 I1) K2 Q1) as Q2.
      eapply EO_static_link; [exact E1| |exact (proj2 I2)|exact Q2].
      unfold s_op. rewrite L2, L1, N1. unfold s_len. erewrite nthN_app1 by apply nthN_len. reflexivity.
    - (* SNested *)
      intros id args body IH rs b st e st' e' H I W Q. cbn [exec_stmt] in H.
      bd H. rename v into ws. bd H. rename v into ts. bd H. destruct v as [st1 d]. cbn [fst snd] in H.
      unfold init_io in H. bd H. destruct v as [st3 io].
      unfold init_io in E2. bd E2. destruct v as [st2a i]. cbn [fst snd] in E2. bd E2. destruct v as [st2b o].
      cbn [fst snd] in E2.
      assert (K3 : s_links st2b = s_links st).
      { destruct (add_node_ok _ _ _ _ _ E1) as (_ & _ & _ & A1). destruct (add_node_ok _ _ _ _ _ E3) as (_ & _ & _ & A2).
        destruct (add_node_ok _ _ _ _ _ E4) as (_ & _ & _ & A3). congruence. }
      inversion E2; subst; clear E2. cbn [fst snd] in H.
      bd H. destruct v as [st4 ts4]. cbn [fst snd] in H. bd H. destruct v as [st5 e5]. cbn [fst snd] in H.
      inversion H; subst; clear H.
      destruct (new_region_inv _ _ _ _ _ _ _ _ _ E1 E3 E4 I (proj1 W)) as (I3 & X3 & W3).
      pose proof (EO_nodes _ _ X3 (proj2 I) K3 Q) as Q3.
      pose proof (EO_wire_up_from _ _ _ _ _ _ E2 (proj2 I3) Q3) as Q4.
      pose proof (Frame_Same _ _ (wire_up_from_frame _ _ _ _ _ _ E2)) as S4.
      pose proof (Inv_Same _ _ S4 I3) as I4.
      pose proof (WB_ext _ _ _ (Same_Ext _ _ S4) W3) as W4.
      exact (IH _ _ _ _ _ E5 I4 W4 Q4).
    - (* SOrder *)
      intros src dst b st e st' e' H I W Q. cbn [exec_stmt] in H.
      bd H. bd H. bd H. inversion H; subst; clear H.
      eapply EO_order_link; eauto. exact (proj2 I).
    - (* Region *)
      intros ins body IH outs b st e st' e' H I W Q. cbn [exec_region] in H.
      bd H. destruct v as [st1 e1]. cbn [fst snd] in H. bd H. rename v into ws. bd H. rename v into st2.
      inversion H; subst; clear H.
      destruct (KL _ _ _ _ _ _ E I W) as (I1 & X1).
      pose proof (IH _ _ _ _ _ E I W Q) as Q1.
      exact (EO_set_outputs _ _ _ _ E1 I1 (WB_ext _ _ _ X1 W) Q1).
    - (* SNil *)
      intros b st e st' e' H I W Q. cbn in H. now inversion H; subst.
    - (* SCons *)
      intros s IHs r IHr b st e st' e' H I W Q. cbn [exec_stmts] in H.
      bd H. destruct v as [st1 e1]. cbn [fst snd] in H.
      destruct (KS _ _ _ _ _ _ E I W) as (I1 & X1).
      exact (IHr _ _ _ _ _ H I1 (WB_ext _ _ _ X1 W) (IHs _ _ _ _ _ E I W Q)).
  Qed.

  (* the store a whole program leaves behind *)
  Theorem exec_prog_ext_order p st : exec_prog tys p = Ok st -> ExtOrder st.
  Proof.
    destruct p as [ins body]. unfold exec_prog.
    cbn [init_io new_store add_node s_len s_nodes lenN length N.of_nat].
    intros H. cbn in H. bd H. destruct v as [st1 e1]. cbn [fst snd] in H. inversion H; subst; clear H.
    destruct exec_keeps_ext_order as (_ & HR & _).
    match type of E with exec_region _ _ ?b ?st0 ?e = _ => assert (I0 : Inv st0 /\ WB st0 b /\ ExtOrder st0) end.
    { split; [split; [repeat split|reflexivity]|split; [split|]].
      - eexists _, _. split; [reflexivity|split; reflexivity].
      - eexists. split; reflexivity.
      - eexists. split; reflexivity.
      - intros e []. }
    destruct I0 as (I0 & W0 & Q0). exact (HR _ _ _ _ _ _ E I0 W0 Q0).
  Qed.
End MainExt.

(* non-vacuity: in the store of the example program of BuilderP.v there is a non-local wire (its ancestor
   sibling is not its target) *)
Example ex_has_ext_wire : exists st, exec_prog ex_tys ex_prog = Ok st /\
  existsb (fun e => port_link e && negb (optN_eqb (anc_sib st (e_src e) (e_dst e)) (Some (e_dst e)))) (s_links st) = true.
Proof. eexists. split; vm_compute; reflexivity. Qed.
