(* C17 — facts about the REGENERATED constants (coq/gen/Schemas.v), re-proved on every run. *)
From Coq Require Import List Bool String Arith ZArith.
Import ListNotations.
From HV Require Import lib.Harness model.Schema spec.SchemaS proofs.SchemaP gen.Schemas.
Open Scope string_scope.

Lemma hugr_eq : schema_equiv (norm published_hugr) (norm generated_hugr) = true.
Proof. vm_compute. reflexivity. Qed.
Lemma hugr_strict_eq : schema_equiv (norm published_hugr_strict) (norm generated_hugr_strict) = true.
Proof. vm_compute. reflexivity. Qed.
Lemma testing_eq : schema_equiv (norm published_testing) (norm generated_testing) = true.
Proof. vm_compute. reflexivity. Qed.
Lemma testing_strict_eq : schema_equiv (norm published_testing_strict) (norm generated_testing_strict) = true.
Proof. vm_compute. reflexivity. Qed.

Lemma hugr_same : SameDocuments published_hugr generated_hugr.
Proof. exact (same_documents_accepted _ _ hugr_eq). Qed.
Lemma hugr_strict_same : SameDocuments published_hugr_strict generated_hugr_strict.
Proof. exact (same_documents_accepted _ _ hugr_strict_eq). Qed.
Lemma testing_same : SameDocuments published_testing generated_testing.
Proof. exact (same_documents_accepted _ _ testing_eq). Qed.
Lemma testing_strict_same : SameDocuments published_testing_strict generated_testing_strict.
Proof. exact (same_documents_accepted _ _ testing_strict_eq). Qed.

Definition all_schemas : list json :=
  [published_hugr; published_hugr_strict; published_testing; published_testing_strict;
   generated_hugr; generated_hugr_strict; generated_testing; generated_testing_strict].
(* all eight lie in the formalised subset (known keywords, payload shapes, every $ref resolves, no duplicate
   keys), so the validator's verdicts on them are JSON Schema's *)
Lemma all_supported : forallb (fun s => supported s s) all_schemas = true.
Proof. vm_compute. reflexivity. Qed.
Lemma all_discriminators : forallb discriminators_ok all_schemas = true.
Proof. vm_compute. reflexivity. Qed.

Lemma versions : versions_agree_b serialization_version model_versions published_files generated_files = true.
Proof. vm_compute. reflexivity. Qed.

(* non-vacuity on the real constants: the published strict HUGR schema accepts a small HUGR, rejects it with an
   extra member, with a member missing, and with an unknown operation tag; the lax one accepts the extra member *)
Definition tiny_hugr (extra : list (string * json)) (op : string) : json :=
  JObj [("version", JStr "live");
        ("nodes", JArr [JObj ([("parent", JNum 0%Z); ("op", JStr op)] ++ extra)]);
        ("edges", JArr [JArr [JArr [JNum 0%Z; JNull]; JArr [JNum 0%Z; JNum 0%Z]]])].
Example published_accepts_and_rejects :
  accepts 60 published_hugr_strict "SerialHugr" (tiny_hugr [] "Module") = true /\
  accepts 60 published_hugr_strict "SerialHugr" (tiny_hugr [("x", JNull)] "Module") = false /\
  accepts 60 published_hugr "SerialHugr" (tiny_hugr [("x", JNull)] "Module") = true /\
  accepts 60 published_hugr "SerialHugr" (tiny_hugr [] "Modul") = false /\
  accepts 60 published_hugr "SerialHugr" (JObj [("version", JStr "live"); ("nodes", JArr [])]) = false.
Proof. vm_compute. auto. Qed.
