(* C17 — facts about the REGENERATED constants (coq/gen/Schemas.v), re-proved on every run. *)
From Coq Require Import List Bool String Arith ZArith.
Import ListNotations.
From HV Require Import lib.Harness model.Schema spec.SchemaS proofs.SchemaP gen.Schemas.
From HV Require Import model.SchemaSeq model.SchemaFiles spec.SchemaSeqS proofs.SchemaSeqP gen.SchemaOrders.
Open Scope string_scope.

Lemma hugr_eq : schema_equiv (norm published_hugr) (norm generated_hugr) = true.
Proof. vm_compute. reflexivity. Qed.
Lemma hugr_strict_eq : schema_equiv (norm published_hugr_strict) (norm generated_hugr_strict) = true.
Proof. vm_compute. reflexivity. Qed.
Lemma testing_eq : schema_equiv (norm published_testing) (norm generated_testing) = true.
Proof. vm_compute. reflexivity. Qed.
Lemma testing_strict_eq : schema_equiv (norm published_testing_strict) (norm generated_testing_strict) = true.
Proof. vm_compute. reflexivity. Qed.

Lemma hugr_same : SameDocuments published_hugr generated_hugr.
Proof. exact (same_documents_accepted _ _ hugr_eq). Qed.
Lemma hugr_strict_same : SameDocuments published_hugr_strict generated_hugr_strict.
Proof. exact (same_documents_accepted _ _ hugr_strict_eq). Qed.
Lemma testing_same : SameDocuments published_testing generated_testing.
Proof. exact (same_documents_accepted _ _ testing_eq). Qed.
Lemma testing_strict_same : SameDocuments published_testing_strict generated_testing_strict.
Proof. exact (same_documents_accepted _ _ testing_strict_eq). Qed.

Definition all_schemas : list json :=
  [published_hugr; published_hugr_strict; published_testing; published_testing_strict;
   generated_hugr; generated_hugr_strict; generated_testing; generated_testing_strict].
(* all eight lie in the formalised subset (known keywords, payload shapes, every $ref resolves, no duplicate
   keys), so the validator's verdicts on them are JSON Schema's *)
Lemma all_supported : forallb (fun s => supported s s) all_schemas = true.
Proof. vm_compute. reflexivity. Qed.
Lemma all_discriminators : forallb discriminators_ok all_schemas = true.
Proof. vm_compute. reflexivity. Qed.

Lemma versions : versions_agree_b serialization_version model_versions published_files generated_files = true.
Proof. vm_compute. reflexivity. Qed.

(* non-vacuity on the real constants: the published strict HUGR schema accepts a small HUGR, rejects it with an
   extra member, with a member missing, and with an unknown operation tag; the lax one accepts the extra member *)
Definition tiny_hugr (extra : list (string * json)) (op : string) : json :=
  JObj [("version", JStr "live");
        ("nodes", JArr [JObj ([("parent", JNum 0%Z); ("op", JStr op)] ++ extra)]);
        ("edges", JArr [JArr [JArr [JNum 0%Z; JNull]; JArr [JNum 0%Z; JNum 0%Z]]])].
Example published_accepts_and_rejects :
  accepts 60 published_hugr_strict "SerialHugr" (tiny_hugr [] "Module") = true /\
  accepts 60 published_hugr_strict "SerialHugr" (tiny_hugr [("x", JNull)] "Module") = false /\
  accepts 60 published_hugr "SerialHugr" (tiny_hugr [("x", JNull)] "Module") = true /\
  accepts 60 published_hugr "SerialHugr" (tiny_hugr [] "Modul") = false /\
  accepts 60 published_hugr "SerialHugr" (JObj [("version", JStr "live"); ("nodes", JArr [])]) = false.
Proof. vm_compute. auto. Qed.

(* ---- rebuild ORDERS (gen/SchemaOrders.v: the schema write_schema writes after every step of each history, one
   fresh process per history).  Every one of them is the file expected in the state reached. *)
Lemma orders_ok : forallb (run_ok published init) order_runs = true.
Proof. vm_compute. reflexivity. Qed.
Lemma orders_same : Forall (RunSame published init) order_runs.
Proof.
  apply Forall_forall. intros r Hin. apply run_ok_sound.
  exact (proj1 (forallb_forall _ _) orders_ok r Hin).
Qed.
(* the histories: each (root, configuration) alone in a fresh process, and every ordered pair of them (equal ones
   included) as two consecutive steps of some history *)
Lemma orders_cover : singles_covered (map (map fst) order_runs) && transitions_covered (map (map fst) order_runs) = true.
Proof. vm_compute. reflexivity. Qed.
(* the HUGR files hold no definition of the testing root: what (SerialHugr, c) defines is the published HUGR file
   in EVERY state *)
Lemma hugr_files_hold_no_testing_root : forall c, def_of (published FHugr c) (root_name FTesting) = None.
Proof. destruct c; vm_compute; reflexivity. Qed.
Lemma hugr_file_history_independent : forall st c, expected published st FHugr c = published FHugr c.
Proof.
  intros st c. apply expected_no_subst. unfold subst_of, families. cbn [flat_map family_eqb app].
  rewrite hugr_files_hold_no_testing_root. destruct (st (GRoot FTesting)); reflexivity.
Qed.
(* non-vacuity on the real constants: the testing files do hold SerialHugr, and after a strict HUGR rebuild the
   lax testing file is expected to hold the STRICT SerialHugr definition (a different file) *)
Example testing_file_after_hugr :
  def_of (published FTesting false) "SerialHugr" <> None /\
  json_eqb (expected published (run_steps init [(FHugr, true); (FTesting, false)]) FTesting false)
           (published FTesting false) = false /\
  def_of (expected published (run_steps init [(FHugr, true); (FTesting, false)]) FTesting false) "SerialHugr"
    = def_of (published FHugr true) "SerialHugr".
Proof. vm_compute. repeat split; discriminate. Qed.
