(* Proofs for C02 / C03 over model/SerialHugr.v and spec/SerialHugrS.v.
   1. lists, strictly increasing lists, the renumbering `rank` (order preserving, bijective onto 0..n-1)
   2. what guard_b says; the document of a guarded HUGR (Doc); C03: serial_index_sane, serial_port_addressing
   3. the loader: node loop (load_nodes_built, by snoc induction) and edge loop (load_links_spec)
   4. C02: canonical documents are fixed points (canonical_fixpoint); roundtrip_fixpoint; roundtrip_iso
   5. concrete instances: non-vacuity and the refutations for index reuse / links on missing ports *)
From Coq Require Import List Bool Arith Lia Permutation.
Import ListNotations.
From HV Require Import lib.Harness model.SerialHugr spec.SerialHugrS.

(* ------------------------------------------------------------------ lists *)
Lemma mapM_map {A B} (f : A -> option B) (g : A -> B) l :
  (forall x, In x l -> f x = Some (g x)) -> mapM f l = Some (map g l).
Proof.
  induction l as [|x r IH]; intros H; cbn; [reflexivity|].
  rewrite (H x (or_introl eq_refl)), IH; [reflexivity|]. intros y Hy. apply H. now right.
Qed.
Lemma mapM_seq_nth {A} (f : nat -> option A) (l : list A) : forall a,
  (forall j y, nth_error l j = Some y -> f (a + j) = Some y) -> mapM f (seq a (length l)) = Some l.
Proof.
  induction l as [|x r IH]; intros a H; cbn; [reflexivity|].
  rewrite <- (Nat.add_0_r a) at 1. rewrite (H 0 x eq_refl), (IH (S a)); [reflexivity|].
  intros j y Hj. replace (S a + j) with (a + S j) by lia. now apply H.
Qed.
Lemma mapM_list_nth {A B} (f : A -> option B) (l : list A) (l' : list B) :
  length l = length l' ->
  (forall j x y, nth_error l j = Some x -> nth_error l' j = Some y -> f x = Some y) -> mapM f l = Some l'.
Proof.
  revert l'. induction l as [|x r IH]; intros [|y s] Hl H; cbn in *; try discriminate; [reflexivity|].
  rewrite (H 0 x y eq_refl eq_refl), (IH s); [reflexivity|lia|].
  intros j a b Ha Hb. exact (H (S j) a b Ha Hb).
Qed.
Lemma filter_map_comm {A B} (f : A -> B) (Q : B -> bool) l :
  filter Q (map f l) = map f (filter (fun x => Q (f x)) l).
Proof. induction l as [|x r IH]; cbn; [reflexivity|]. destruct (Q (f x)); cbn; now rewrite IH. Qed.
Lemma nth_error_set_nth {A} (l : list A) i x j :
  nth_error (set_nth l i x) j = if j =? i then (if i <? length l then Some x else None) else nth_error l j.
Proof.
  revert i j. induction l as [|y r IH]; intros i j; cbn.
  - destruct i, j; cbn; try reflexivity. destruct (j =? i); reflexivity.
  - destruct i, j; cbn [set_nth nth_error Nat.eqb length]; try reflexivity. rewrite IH.
    destruct (j =? i); [|reflexivity]. change (S i <? S (length r)) with (i <? length r). reflexivity.
Qed.
Lemma length_set_nth {A} (l : list A) i x : length (set_nth l i x) = length l.
Proof. revert i. induction l as [|y r IH]; intros [|i]; cbn; try reflexivity. now rewrite IH. Qed.
Lemma index_of_nth x l k : index_of x l = Some k -> nth_error l k = Some x.
Proof.
  revert k. induction l as [|y r IH]; intros k; cbn; [discriminate|].
  destruct (Nat.eqb_spec x y) as [->|Hne]; [intros [= <-]; reflexivity|].
  destruct (index_of x r) as [k'|]; cbn; [|discriminate]. intros [= <-]. cbn. now apply IH.
Qed.
Lemma index_of_seq i n : i < n -> index_of i (seq 0 n) = Some i.
Proof.
  assert (G : forall a n, a <= i < a + n -> index_of i (seq a n) = Some (i - a)).
  { intros a m. revert a. induction m as [|m IH]; intros a H; [lia|]. cbn.
    destruct (Nat.eqb_spec i a) as [->|Hne]; [f_equal; lia|].
    rewrite IH by lia. cbn. f_equal. lia. }
  intros H. rewrite G by lia. f_equal. lia.
Qed.

(* strictly increasing lists *)
Fixpoint incr (l : list nat) : Prop :=
  match l with [] => True | x :: r => (forall y, In y r -> x < y) /\ incr r end.
Lemma incr_filter_seq f a n : incr (filter f (seq a n)).
Proof.
  revert a. induction n as [|n IH]; intros a; cbn; [exact I|].
  destruct (f a); [|apply IH]. cbn. split; [|apply IH].
  intros y Hy. apply filter_In in Hy. destruct Hy as [Hy _]. apply in_seq in Hy. lia.
Qed.
Lemma rank_in_cons x r i : rank_in (x :: r) i = (if x <? i then 1 else 0) + rank_in r i.
Proof. unfold rank_in. cbn [filter]. destruct (x <? i); reflexivity. Qed.
Lemma rank_in_mono L i j : i <= j -> rank_in L i <= rank_in L j.
Proof.
  intros H. induction L as [|x r IH]; [reflexivity|]. rewrite !rank_in_cons.
  destruct (Nat.ltb_spec x i), (Nat.ltb_spec x j); lia.
Qed.
Lemma rank_in_strict L i j : In i L -> i < j -> rank_in L i < rank_in L j.
Proof.
  intros Hin H. induction L as [|x r IH]; [contradiction|]. rewrite !rank_in_cons.
  destruct Hin as [->|Hin].
  - pose proof (rank_in_mono r i j). destruct (Nat.ltb_spec i i), (Nat.ltb_spec i j); lia.
  - specialize (IH Hin). destruct (Nat.ltb_spec x i), (Nat.ltb_spec x j); lia.
Qed.
Lemma rank_in_inj L i j : In i L -> In j L -> rank_in L i = rank_in L j -> i = j.
Proof.
  intros Hi Hj E. destruct (Nat.lt_trichotomy i j) as [H|[H|H]]; [|assumption|].
  - pose proof (rank_in_strict L i j Hi H). lia.
  - pose proof (rank_in_strict L j i Hj H). lia.
Qed.
Lemma rank_in_le_length L i : rank_in L i <= length L.
Proof. induction L as [|x r IH]; [reflexivity|]. rewrite rank_in_cons. cbn [length]. destruct (x <? i); lia. Qed.
Lemma rank_in_lt_length L i : In i L -> rank_in L i < length L.
Proof.
  induction L as [|x r IH]; [contradiction|]. rewrite rank_in_cons. cbn [length].
  intros [->|Hin].
  - pose proof (rank_in_le_length r i).
    destruct (Nat.ltb_spec i i); lia.
  - specialize (IH Hin). destruct (x <? i); lia.
Qed.
Lemma rank_in_below L i : (forall y, In y L -> i <= y) -> rank_in L i = 0.
Proof.
  intros H. induction L as [|x r IH]; [reflexivity|]. rewrite rank_in_cons, IH.
  - pose proof (H x (or_introl eq_refl)). destruct (Nat.ltb_spec x i); lia.
  - intros y Hy. apply H. now right.
Qed.
Lemma index_of_rank L i : incr L -> In i L -> index_of i L = Some (rank_in L i).
Proof.
  induction L as [|x r IH]; [contradiction|]. intros [Hx Hr] Hin. cbn [index_of]. rewrite rank_in_cons.
  destruct (Nat.eqb_spec i x) as [->|Hne].
  - rewrite rank_in_below; [destruct (Nat.ltb_spec x x); [lia|reflexivity]|].
    intros y Hy. specialize (Hx y Hy). lia.
  - destruct Hin as [->|Hin]; [congruence|]. rewrite (IH Hr Hin). cbn [option_map].
    specialize (Hx i Hin). destruct (Nat.ltb_spec x i); [reflexivity|lia].
Qed.
Lemma index_of_notin L i : ~ In i L -> index_of i L = None.
Proof.
  induction L as [|x r IH]; [reflexivity|]. intros H. cbn.
  destruct (Nat.eqb_spec i x) as [->|Hne]; [exfalso; apply H; now left|].
  rewrite IH; [reflexivity|]. intros Hin. apply H. now right.
Qed.
Lemma nth_rank L : incr L -> forall k i, nth_error L k = Some i -> rank_in L i = k.
Proof.
  induction L as [|x r IH]; intros Hinc k i; [destruct k; discriminate|].
  destruct Hinc as [Hx Hr]. rewrite rank_in_cons. destruct k as [|k]; cbn [nth_error].
  - intros [= ->]. rewrite rank_in_below; [destruct (Nat.ltb_spec i i); lia|].
    intros y Hy. specialize (Hx y Hy). lia.
  - intros Hk. pose proof (nth_error_In _ _ Hk) as Hin. specialize (Hx i Hin).
    rewrite (IH Hr k i Hk). destruct (Nat.ltb_spec x i); lia.
Qed.
Lemma map_rank_seq L : incr L -> map (rank_in L) L = seq 0 (length L).
Proof.
  induction L as [|x r IH]; [reflexivity|]. intros [Hx Hr]. cbn [map length seq].
  f_equal.
  - rewrite rank_in_cons, rank_in_below; [destruct (Nat.ltb_spec x x); lia|].
    intros y Hy. specialize (Hx y Hy). lia.
  - rewrite <- seq_shift, <- (IH Hr), map_map. apply map_ext_in. intros y Hy.
    rewrite rank_in_cons. specialize (Hx y Hy). destruct (Nat.ltb_spec x y); lia.
Qed.

Lemma mapM_nth {A B} (f : A -> option B) l l' :
  mapM f l = Some l' ->
  length l' = length l /\
  forall k x, nth_error l k = Some x -> exists y, f x = Some y /\ nth_error l' k = Some y.
Proof.
  revert l'. induction l as [|a r IH]; intros l'; cbn.
  - intros [= <-]. split; [reflexivity|]. intros [|k] x; discriminate.
  - destruct (f a) as [b|] eqn:Ea; [|discriminate]. destruct (mapM f r) as [bs|] eqn:Er; [|discriminate].
    intros [= <-]. destruct (IH bs eq_refl) as [Hl Hn]. split; [cbn; now rewrite Hl|].
    intros [|k] x; cbn; [intros [= <-]; eauto|]. apply Hn.
Qed.
Lemma mapM_total {A B} (f : A -> option B) l :
  (forall x, In x l -> exists y, f x = Some y) -> exists l', mapM f l = Some l'.
Proof.
  induction l as [|a r IH]; intros H; cbn; [eauto|].
  destruct (H a (or_introl eq_refl)) as [b ->]. destruct IH as [bs ->]; [|eauto].
  intros x Hx. apply H. now right.
Qed.

Section Proofs.
  Variables op sop md : Type.
  Variable enc : op -> sop.
  Variable dec : sop -> op.
  Variable ndp : op -> dir -> option nat.
  Variable md_nil : md.
  Variable md_is_nil : md -> bool.
  Variables vports sports : op -> dir -> nat.
  Variable has_order : op -> bool.
  (* ops._num_dataflow_ports counts the value and static ports of the operations that have an order port *)
  Hypothesis ndp_spec : forall o d, ndp o d = if has_order o then Some (vports o d + sports o d) else None.

  Notation node := (node op md).
  Notation hugr := (hugr op md).
  Notation snode := (snode sop).
  Notation serial := (serial sop md).
  Notation to_serial := (to_serial enc ndp md_is_nil).
  Notation from_serial := (from_serial dec ndp md_nil).
  Notation guard_b := (guard_b vports sports has_order).
  Notation ports_exist_b := (ports_exist_b vports sports has_order).
  Notation port_exists := (port_exists vports sports has_order).
  Notation addr := (addr vports sports).
  Notation expected_edge := (expected_edge vports sports).
  Notation constrain := (constrain op md ndp).
  Notation ser_link := (ser_link op md ndp).
  Notation ser_node := (ser_node op sop md enc).
  Notation meta_of := (meta_of op md md_is_nil).
  Notation get_meta := (get_meta sop md md_nil).
  Notation load_nodes := (load_nodes op sop md dec md_nil).
  Notation load_links := (load_links op md ndp).
  Notation get_offset := (get_offset op md ndp).
  Notation new_node := (new_node op md).
  Notation add_child := (add_child op md).
  Notation bump := (bump op md).
  Notation bump_at := (bump_at op md).

  (* ---------------------------------------------------------------- live nodes, rekey = rank *)
  Lemma live_from_spec (l : list (option node)) i :
    live_from l i = filter (fun j => match nth_error l (j - i) with Some (Some _) => true | _ => false end)
                           (seq i (length l)).
  Proof.
    revert i. induction l as [|x r IH]; intros i; [reflexivity|].
    cbn [length seq filter live_from]. rewrite Nat.sub_diag. cbn [nth_error].
    assert (E : filter (fun j => match nth_error (x :: r) (j - i) with Some (Some _) => true | _ => false end)
                       (seq (S i) (length r)) = live_from r (S i)).
    { rewrite IH. apply filter_ext_in. intros j Hj. apply in_seq in Hj.
      replace (j - i) with (S (j - S i)) by lia. reflexivity. }
    destruct x; rewrite E; reflexivity.
  Qed.
  Lemma live_lives (h : hugr) : live h = lives h.
  Proof.
    unfold live, lives. rewrite live_from_spec. apply filter_ext. intros j. rewrite Nat.sub_0_r.
    unfold is_live. reflexivity.
  Qed.
  Lemma lives_incr (h : hugr) : incr (lives h).
  Proof. apply incr_filter_seq. Qed.
  Lemma is_live_get (h : hugr) i : is_live h i = true <-> exists n, get_node h i = Some n.
  Proof.
    unfold is_live, get_node. destruct (nth_error (h_nodes h) i) as [[n|]|]; split; intros H; eauto;
      try discriminate; destruct H; discriminate.
  Qed.
  Lemma lives_In (h : hugr) i : In i (lives h) <-> is_live h i = true.
  Proof.
    unfold lives. rewrite filter_In, in_seq. split; [tauto|]. intros H. split; [|assumption].
    unfold is_live in H. destruct (nth_error (h_nodes h) i) eqn:E; [|discriminate].
    assert (i < length (h_nodes h)) by (apply nth_error_Some; congruence). lia.
  Qed.
  Lemma rekey_live (h : hugr) i : is_live h i = true -> rekey h i = Some (rank h i).
  Proof.
    intros H. unfold rekey, rank. rewrite live_lives. apply index_of_rank; [apply lives_incr|now apply lives_In].
  Qed.
  (* the renumbering preserves the order of the live nodes and is a bijection onto 0 .. n-1 *)
  Lemma rank_order_preserving (h : hugr) i j :
    is_live h i = true -> i < j -> rank h i < rank h j.
  Proof. intros Hi Hij. apply rank_in_strict; [now apply lives_In|assumption]. Qed.
  Lemma rank_injective (h : hugr) i j :
    is_live h i = true -> is_live h j = true -> rank h i = rank h j -> i = j.
  Proof. intros Hi Hj. apply rank_in_inj; now apply lives_In. Qed.
  Lemma rank_bound (h : hugr) i : is_live h i = true -> rank h i < length (lives h).
  Proof. intros Hi. apply rank_in_lt_length. now apply lives_In. Qed.

  (* ---------------------------------------------------------------- what the guard says *)
  Lemma children_in_spec (h : hugr) L p : children_in (child_table h L) p = filter (is_child h p) L.
  Proof.
    induction L as [|c r IH]; [reflexivity|]. unfold child_table, children_in in *. cbn [map filter snd fst].
    unfold is_child at 1. destruct (parent_of h c) as [q|]; [|exact IH].
    destruct (q =? p); cbn [map fst]; [f_equal|]; exact IH.
  Qed.
  Definition parent_fact (h : hugr) (i : nat) (n : node) : Prop :=
    match n_parent n with
    | None => i = h_root h
    | Some p => is_live h p = true /\ p < i /\ i <> h_root h
    end.
  Lemma io_facts (h : hugr) : index_ordered_b h = true ->
    is_live h (h_root h) = true /\
    forall i, is_live h i = true -> exists n, get_node h i = Some n /\ parent_fact h i n /\
                                     n_children n = filter (is_child h i) (lives h).
  Proof.
    unfold index_ordered_b. cbv zeta. intros H. apply andb_prop in H. destruct H as [Hr Hall]. split; [exact Hr|].
    intros i Hi. rewrite forallb_forall in Hall. specialize (Hall i (proj2 (lives_In h i) Hi)).
    unfold node_ordered in Hall. destruct (get_node h i) as [n|]; [|discriminate]. exists n. split; [reflexivity|].
    apply andb_prop in Hall. destruct Hall as [Hp Hc]. split.
    - unfold parent_fact. destruct (n_parent n) as [p|].
      + apply andb_prop in Hp. destruct Hp as [Hp Hne]. apply andb_prop in Hp. destruct Hp as [Hl Hlt].
        split; [exact Hl|]. split; [now apply Nat.ltb_lt|]. intros E. rewrite E, Nat.eqb_refl in Hne. discriminate.
      + now apply Nat.eqb_eq.
    - rewrite <- children_in_spec. destruct (list_eqb_spec Nat.eqb Nat.eqb_spec (n_children n)
        (children_in (child_table h (lives h)) i)); [assumption|discriminate].
  Qed.
  Lemma root_min (h : hugr) : index_ordered_b h = true -> forall i, is_live h i = true -> h_root h <= i.
  Proof.
    intros H. destruct (io_facts h H) as [_ F]. intros i. induction i as [i IH] using lt_wf_ind. intros Hi.
    destruct (F i Hi) as [n [_ [Hp _]]]. unfold parent_fact in Hp. destruct (n_parent n) as [p|]; [|lia].
    destruct Hp as [Hl [Hlt _]]. specialize (IH p Hlt Hl). lia.
  Qed.
  Lemma rank_root (h : hugr) : index_ordered_b h = true -> rank h (h_root h) = 0.
  Proof.
    intros H. apply rank_in_below. intros y Hy. apply root_min; [assumption|now apply lives_In].
  Qed.
  Lemma pe_facts (h : hugr) : ports_exist_b h = true ->
    forall l, In l (h_links h) -> port_exists h (fst l) DOut = true /\ port_exists h (snd l) DIn = true.
  Proof.
    unfold SerialHugrS.ports_exist_b. rewrite forallb_forall. intros H l Hl. specialize (H l Hl). now apply andb_prop in H.
  Qed.
  Lemma port_exists_live (h : hugr) p d : port_exists h p d = true -> is_live h (fst p) = true.
  Proof.
    unfold SerialHugrS.port_exists. intros H. apply is_live_get. destruct (get_node h (fst p)); [eauto|discriminate].
  Qed.
  Lemma constrain_addr (h : hugr) p d : port_exists h p d = true -> constrain h p d = addr h p d.
  Proof.
    unfold SerialHugrS.port_exists, SerialHugr.constrain, SerialHugrS.addr. destruct (get_node h (fst p)) as [n|]; [|discriminate].
    destruct (snd p) as [|k]; [|reflexivity]. rewrite ndp_spec. destruct (has_order (n_op n)); [reflexivity|discriminate].
  Qed.

  (* ---------------------------------------------------------------- the document of a guarded HUGR *)
  Definition parent_or_self (i : nat) (n : node) : nat := match n_parent n with Some p => p | None => i end.
  Definition snode_of (h : hugr) (i : nat) (n : node) : snode :=
    {| s_op := enc (n_op n); s_parent := rank h (parent_or_self i n) |}.
  Lemma ser_node_guarded (h : hugr) i n : index_ordered_b h = true -> get_node h i = Some n ->
    ser_node h i = Some (snode_of h i n).
  Proof.
    intros H Hn. destruct (io_facts h H) as [_ F]. assert (Hi : is_live h i = true) by (apply is_live_get; eauto).
    destruct (F i Hi) as [n' [Hn' [Hp _]]]. rewrite Hn in Hn'. injection Hn' as <-.
    unfold SerialHugr.ser_node. rewrite Hn. unfold snode_of, parent_or_self, parent_fact in *.
    destruct (n_parent n) as [p|]; [destruct Hp as [Hl _]; now rewrite (rekey_live h p Hl)|].
    now rewrite (rekey_live h i Hi).
  Qed.
  Lemma ser_link_guarded (h : hugr) l :
    port_exists h (fst l) DOut = true -> port_exists h (snd l) DIn = true ->
    exists a b, addr h (fst l) DOut = Some a /\ addr h (snd l) DIn = Some b /\
                ser_link h l = Some (expected_edge h l).
  Proof.
    intros Ho Hi. unfold SerialHugr.ser_link. rewrite (constrain_addr h _ _ Ho), (constrain_addr h _ _ Hi).
    rewrite (rekey_live h _ (port_exists_live h _ _ Ho)), (rekey_live h _ (port_exists_live h _ _ Hi)).
    unfold SerialHugrS.expected_edge.
    assert (Ea : exists a, addr h (fst l) DOut = Some a).
    { unfold SerialHugrS.addr, SerialHugrS.port_exists in *. destruct (get_node h (fst (fst l))); [|discriminate].
      destruct (snd (fst l)); eauto. }
    assert (Eb : exists b, addr h (snd l) DIn = Some b).
    { unfold SerialHugrS.addr, SerialHugrS.port_exists in *. destruct (get_node h (fst (snd l))); [|discriminate].
      destruct (snd (snd l)); eauto. }
    destruct Ea as [a Ea], Eb as [b Eb]. exists a, b. rewrite Ea, Eb. auto.
  Qed.

  Record Doc (h : hugr) (s : serial) : Prop := {
    doc_len : length (s_nodes s) = length (lives h);
    doc_node : forall k i, nth_error (lives h) k = Some i ->
        exists n, get_node h i = Some n /\ nth_error (s_nodes s) k = Some (snode_of h i n);
    doc_edges : s_edges s = map (expected_edge h) (h_links h);
    doc_meta : s_meta s = Some (meta_of (h_nodes h))
  }.
  Lemma to_serial_doc (h : hugr) s : guard_b h = true -> to_serial h = Some s -> Doc h s.
  Proof.
    unfold SerialHugrS.guard_b. intros G. apply andb_prop in G. destruct G as [Gi Gp]. unfold SerialHugr.to_serial.
    destruct (mapM (ser_node h) (live h)) as [ns|] eqn:En; [|discriminate].
    destruct (mapM (ser_link h) (h_links h)) as [es|] eqn:Ee; [|discriminate]. intros [= <-].
    rewrite live_lives in En. destruct (mapM_nth _ _ _ En) as [Hl Hn]. constructor; cbn.
    - exact Hl.
    - intros k i Hk. destruct (Hn k i Hk) as [y [Hy Hy']].
      assert (Hi : is_live h i = true) by (apply lives_In; eapply nth_error_In; eauto).
      apply is_live_get in Hi. destruct Hi as [n Hn']. exists n. split; [assumption|].
      rewrite (ser_node_guarded h i n Gi Hn') in Hy. now injection Hy as <-.
    - rewrite (mapM_map (ser_link h) (expected_edge h)) in Ee; [now injection Ee as <-|].
      intros l Hl'. destruct (pe_facts h Gp l Hl') as [Ho Hi]. destruct (ser_link_guarded h l Ho Hi) as [a [b [_ [_ E]]]].
      exact E.
    - reflexivity.
  Qed.
  Lemma to_serial_total (h : hugr) : guard_b h = true -> exists s, to_serial h = Some s.
  Proof.
    unfold SerialHugrS.guard_b. intros G. apply andb_prop in G. destruct G as [Gi Gp]. unfold SerialHugr.to_serial.
    destruct (mapM_total (ser_node h) (live h)) as [ns ->].
    { intros i Hi. rewrite live_lives in Hi. apply lives_In, is_live_get in Hi. destruct Hi as [n Hn].
      rewrite (ser_node_guarded h i n Gi Hn). eauto. }
    destruct (mapM_total (ser_link h) (h_links h)) as [es ->]; [|eauto].
    intros l Hl. destruct (pe_facts h Gp l Hl) as [Ho Hi]. destruct (ser_link_guarded h l Ho Hi) as [a [b [_ [_ E]]]].
    eauto.
  Qed.

  (* ---------------------------------------------------------------- C03 *)
  Theorem serial_index_sane (h : hugr) s : guard_b h = true -> to_serial h = Some s ->
    rank h (h_root h) = 0 /\ IndexSane s.
  Proof.
    intros G Hs. pose proof (to_serial_doc h s G Hs) as D. destruct D as [Dl Dn De Dm].
    unfold SerialHugrS.guard_b in G. apply andb_prop in G. destruct G as [Gi Gp].
    destruct (io_facts h Gi) as [Hroot F]. pose proof (rank_root h Gi) as Hr0. split; [exact Hr0|].
    assert (Hpos : forall k i, nth_error (lives h) k = Some i -> rank h i = k).
    { intros k i Hk. apply (nth_rank (lives h) (lives_incr h) k i Hk). }
    assert (Hnode : forall k x, nth_error (s_nodes s) k = Some x ->
              exists i n, nth_error (lives h) k = Some i /\ get_node h i = Some n /\ x = snode_of h i n).
    { intros k x Hx. assert (Hk : k < length (lives h)) by (rewrite <- Dl; apply nth_error_Some; congruence).
      destruct (nth_error (lives h) k) as [i|] eqn:Ei; [|apply nth_error_None in Ei; lia].
      destruct (Dn k i Ei) as [n [Hn Hx']]. rewrite Hx in Hx'. injection Hx' as ->. eauto. }
    repeat split.
    - assert (Hr : is_live h (h_root h) = true) by exact Hroot.
      pose proof (proj2 (lives_In h _) Hr) as Hin. apply In_nth_error in Hin. destruct Hin as [k Hk].
      pose proof (Hpos k _ Hk) as E. rewrite Hr0 in E. subst k.
      destruct (Dn 0 _ Hk) as [n [Hn Hx]]. exists (snode_of h (h_root h) n). split; [exact Hx|].
      destruct (F _ Hr) as [n' [Hn' [Hp _]]]. rewrite Hn in Hn'. injection Hn' as <-.
      unfold snode_of, parent_or_self, parent_fact in *. cbn. destruct (n_parent n) as [p|]; [|exact Hr0].
      destruct Hp as [_ [_ Hne]]. congruence.
    - intros k x Hk Hx. destruct (Hnode k x Hx) as [i [n [Hi [Hn ->]]]].
      assert (Hli : is_live h i = true) by (apply lives_In; eapply nth_error_In; eauto).
      destruct (F i Hli) as [n' [Hn' [Hp _]]]. rewrite Hn in Hn'. injection Hn' as <-.
      unfold snode_of, parent_or_self, parent_fact in *. cbn. rewrite <- (Hpos k i Hi).
      destruct (n_parent n) as [p|].
      + destruct Hp as [Hl [Hlt _]]. now apply rank_order_preserving.
      + pose proof (Hpos k i Hi) as E. rewrite Hp, Hr0 in E. lia.
    - rewrite De in H. apply in_map_iff in H. destruct H as [l [<- Hl]]. cbn.
      destruct (pe_facts h Gp l Hl) as [Ho _]. rewrite Dl. apply rank_bound. eapply port_exists_live; eauto.
    - rewrite De in H. apply in_map_iff in H. destruct H as [l [<- Hl]]. cbn.
      destruct (pe_facts h Gp l Hl) as [_ Hi]. rewrite Dl. apply rank_bound. eapply port_exists_live; eauto.
  Qed.
  Theorem serial_port_addressing (h : hugr) s : guard_b h = true -> to_serial h = Some s ->
    s_edges s = map (expected_edge h) (h_links h).
  Proof. intros G Hs. exact (doc_edges h s (to_serial_doc h s G Hs)). Qed.

  (* ---------------------------------------------------------------- loading a document: the node loop *)
  (* node 0 names itself as parent, every other node names an earlier node *)
  Definition PE (SN : list snode) : Prop :=
    forall k x, nth_error SN k = Some x -> (k = 0 /\ s_parent x = 0) \/ (0 < k /\ s_parent x < k).
  Definition ischild (SN : list snode) (j c : nat) : bool :=
    match nth_error SN c with Some y => (0 <? c) && (s_parent y =? j) | None => false end.
  Definition Built (s : serial) (SN : list snode) (ns : list node) : Prop :=
    length ns = length SN /\
    forall j y, nth_error SN j = Some y ->
      exists nj, nth_error ns j = Some nj /\ n_op nj = dec (s_op y) /\
        n_parent nj = (if j =? 0 then None else Some (s_parent y)) /\
        n_children nj = filter (ischild SN j) (seq 0 (length SN)) /\
        n_md nj = get_meta s j /\ n_nin nj = 0 /\ n_nout nj = 0.

  Lemma load_nodes_app (s : serial) A B : forall ns r,
    load_nodes s (A ++ B) ns r =
    match load_nodes s A ns r with Some (ns', r') => load_nodes s B ns' r' | None => None end.
  Proof.
    induction A as [|x A IH]; intros ns r; [reflexivity|]. cbn [app SerialHugr.load_nodes].
    destruct (s_parent x =? length ns); [apply IH|].
    destruct (nth_error _ (s_parent x)); [apply IH|reflexivity].
  Qed.
  Lemma filter_nil {A} (f : A -> bool) l : (forall x, In x l -> f x = false) -> filter f l = [].
  Proof.
    induction l as [|x r IH]; intros H; [reflexivity|]. cbn. rewrite (H x (or_introl eq_refl)). apply IH.
    intros y Hy. apply H. now right.
  Qed.
  Lemma PE_prefix A B : PE (A ++ B) -> PE A.
  Proof.
    intros H k x Hk. apply (H k x). rewrite nth_error_app1; [assumption|]. apply nth_error_Some. congruence.
  Qed.
  Lemma ischild_prefix A x j c : c < length A -> ischild (A ++ [x]) j c = ischild A j c.
  Proof. intros H. unfold ischild. now rewrite nth_error_app1. Qed.

  Lemma load_nodes_built (s : serial) SN : PE SN ->
    exists ns, load_nodes s SN [] 0 = Some (ns, 0) /\ Built s SN ns.
  Proof.
    induction SN as [|x A IH] using rev_ind; intros HPE.
    - exists []. split; [reflexivity|]. split; [reflexivity|]. intros [|j] y; discriminate.
    - destruct (IH (PE_prefix _ _ HPE)) as [ns [Hload [Hlen HB]]]. rewrite load_nodes_app, Hload.
      cbn [SerialHugr.load_nodes]. set (k := length A) in *.
      assert (Hx : nth_error (A ++ [x]) k = Some x).
      { rewrite nth_error_app2 by (unfold k; lia). unfold k. now rewrite Nat.sub_diag. }
      rewrite Hlen. fold k.
      assert (Hlen' : length (A ++ [x]) = S k) by (rewrite app_length; cbn; unfold k; lia).
      destruct (HPE k x Hx) as [[Hk0 Hp0]|[Hkpos Hpk]].
      + (* the root *)
        rewrite Hp0, Hk0. cbn [Nat.eqb]. eexists. split; [reflexivity|].
        assert (A = []) by (destruct A; [reflexivity|cbn in k; unfold k in Hk0; discriminate]). subst A.
        destruct ns; [|cbn in Hlen; discriminate]. cbn [app]. split; [reflexivity|].
        intros [|j] y Hy; [|destruct j; discriminate]. cbn in Hy. injection Hy as <-.
        eexists. split; [reflexivity|]. cbn. unfold ischild. cbn. repeat split; reflexivity.
      + (* an ordinary node: its parent p < k exists already *)
        set (p := s_parent x) in *.
        destruct (Nat.eqb_spec p k) as [E|_]; [lia|].
        assert (Hpa : exists yp, nth_error A p = Some yp).
        { destruct (nth_error A p) eqn:E; [eauto|]. apply nth_error_None in E. fold k in E. lia. }
        destruct Hpa as [yp Hyp]. destruct (HB p yp Hyp) as [np [Hnp _]].
        rewrite nth_error_app1 by lia. rewrite Hnp. eexists. split; [reflexivity|]. split.
        * rewrite length_set_nth, app_length, Hlen'. cbn. lia.
        * intros j y Hy. rewrite nth_error_set_nth.
          assert (Hjk : j < S k) by (rewrite <- Hlen'; apply nth_error_Some; congruence).
          assert (Hfil : filter (ischild (A ++ [x]) j) (seq 0 (length (A ++ [x]))) =
                         filter (ischild A j) (seq 0 k) ++ (if p =? j then [k] else [])).
          { rewrite Hlen', seq_S, filter_app. f_equal.
            - apply filter_ext_in. intros c Hc. apply in_seq in Hc. apply ischild_prefix. fold k. lia.
            - cbn [filter Nat.add]. unfold ischild. rewrite Hx. fold p.
              destruct (Nat.ltb_spec 0 k); [|lia]. cbn [andb]. destruct (p =? j); reflexivity. }
          destruct (Nat.eq_dec j k) as [->|Hne].
          -- (* the new node itself *)
             rewrite Hx in Hy. injection Hy as <-.
             destruct (Nat.eqb_spec k p) as [E|_]; [lia|].
             rewrite nth_error_app2 by lia. rewrite Hlen, Nat.sub_diag. cbn [nth_error].
             eexists. split; [reflexivity|]. cbn.
             destruct (Nat.eqb_spec k 0) as [E|_]; [lia|]. repeat split; try reflexivity.
             symmetry. apply filter_nil. intros c Hc. apply in_seq in Hc. unfold ischild.
             destruct (nth_error (A ++ [x]) c) as [yc|] eqn:Ec; [|reflexivity].
             destruct (HPE c yc Ec) as [[-> _]|[Hc0 Hcp]]; [reflexivity|].
             destruct (Nat.eqb_spec (s_parent yc) k) as [E|_]; [lia|]. now rewrite andb_false_r.
          -- assert (Hj : j < k) by lia.
             assert (Hy' : nth_error A j = Some y) by (rewrite nth_error_app1 in Hy by (fold k; lia); exact Hy).
             destruct (HB j y Hy') as [nj [Hnj [Hop [Hpar [Hch [Hmd [Hin Hout]]]]]]].
             rewrite app_length. cbn [length]. rewrite Hlen.
             destruct (Nat.eqb_spec j p) as [->|Hjp].
             ++ destruct (Nat.ltb_spec p (k + 1)); [|lia]. rewrite Hnj in Hnp. injection Hnp as <-.
                eexists. split; [reflexivity|]. cbn. rewrite Hfil, Nat.eqb_refl, <- Hch.
                repeat split; assumption.
             ++ rewrite nth_error_app1 by lia. exists nj. split; [exact Hnj|].
                rewrite Hfil. destruct (Nat.eqb_spec p j) as [E|_]; [congruence|]. rewrite app_nil_r, <- Hch.
                repeat split; assumption.
  Qed.

  (* ---------------------------------------------------------------- loading a document: the edge loop *)
  Definition skel (a b : list node) : Prop :=
    length a = length b /\
    forall j x, nth_error a j = Some x -> exists y, nth_error b j = Some y /\
      n_op y = n_op x /\ n_parent y = n_parent x /\ n_children y = n_children x /\ n_md y = n_md x.
  Lemma skel_refl a : skel a a.
  Proof. split; [reflexivity|]. intros j x Hx. exists x. repeat split; assumption. Qed.
  Lemma skel_trans a b c : skel a b -> skel b c -> skel a c.
  Proof.
    intros [L1 H1] [L2 H2]. split; [congruence|]. intros j x Hx. destruct (H1 j x Hx) as [y [Hy [E1 [E2 [E3 E4]]]]].
    destruct (H2 j y Hy) as [z [Hz [F1 [F2 [F3 F4]]]]]. exists z. repeat split; congruence.
  Qed.
  Lemma skel_bump_at ns i d o : skel ns (bump_at ns i d o).
  Proof.
    unfold SerialHugr.bump_at. destruct (nth_error ns i) as [n|] eqn:E; [|apply skel_refl].
    split; [now rewrite length_set_nth|]. intros j x Hx. rewrite nth_error_set_nth.
    destruct (Nat.eqb_spec j i) as [->|_]; [|exists x; repeat split; assumption].
    assert (Hi : i < length ns) by (apply nth_error_Some; congruence).
    destruct (Nat.ltb_spec i (length ns)); [|lia]. rewrite E in Hx. injection Hx as <-.
    eexists. split; [reflexivity|]. destruct o; cbn; repeat split; reflexivity.
  Qed.
  Definition dec_off (ns : list node) (i x : nat) (d : dir) : aoff :=
    match nth_error ns i with
    | Some n => match ndp (n_op n) d with Some c => if x =? c then AOrder else APort x | None => APort x end
    | None => APort x
    end.
  Definition off_of (o : option nat) : nat := match o with Some x => x | None => 0 end.
  Definition dec_edge (ns : list node) (e : sedge) : link :=
    ((fst (fst e), dec_off ns (fst (fst e)) (off_of (snd (fst e))) DOut),
     (fst (snd e), dec_off ns (fst (snd e)) (off_of (snd (snd e))) DIn)).
  Definition edge_ok (n : nat) (e : sedge) : Prop :=
    fst (fst e) < n /\ fst (snd e) < n /\ snd (fst e) <> None /\ snd (snd e) <> None.
  Lemma dec_off_skel a b i x d : skel a b -> dec_off b i x d = dec_off a i x d.
  Proof.
    intros [L H]. unfold dec_off. destruct (nth_error a i) as [n|] eqn:E.
    - destruct (H i n E) as [y [-> [-> _]]]. reflexivity.
    - apply nth_error_None in E. rewrite L in E. apply nth_error_None in E. now rewrite E.
  Qed.
  Lemma get_offset_some ns i x d : i < length ns -> get_offset ns i (Some x) d = Some (Some (dec_off ns i x d)).
  Proof.
    intros H. unfold SerialHugr.get_offset, dec_off. destruct (nth_error ns i) as [n|] eqn:E;
      [|apply nth_error_None in E; lia].
    destruct (ndp (n_op n) d); [destruct (x =? n0)|]; reflexivity.
  Qed.
  Lemma load_links_spec es : forall ns0 ns ls, skel ns0 ns ->
    (forall e, In e es -> edge_ok (length ns0) e) ->
    exists ns', load_links es ns ls = Some (ns', ls ++ map (dec_edge ns0) es) /\ skel ns0 ns'.
  Proof.
    induction es as [|e es IH]; intros ns0 ns ls Hsk Hok.
    - exists ns. cbn. now rewrite app_nil_r.
    - destruct (Hok e (or_introl eq_refl)) as [Ha [Hb [Hx Hy]]].
      destruct e as [[a [x|]] [b [y|]]]; cbn in Ha, Hb, Hx, Hy; try congruence.
      cbn [SerialHugr.load_links]. pose proof Hsk as [Hlen _].
      rewrite (get_offset_some ns a x DOut) by lia. rewrite (get_offset_some ns b y DIn) by lia.
      rewrite !(dec_off_skel ns0 ns) by assumption.
      edestruct (IH ns0) as [ns' [Hl Hs']]; [| |rewrite Hl].
      + eapply skel_trans; [exact Hsk|]. eapply skel_trans; apply skel_bump_at.
      + intros e He. apply Hok. now right.
      + exists ns'. split; [|exact Hs']. rewrite <- app_assoc. reflexivity.
  Qed.

  (* ---------------------------------------------------------------- a HUGR without holes *)
  Lemma live_from_dense (l : list node) i : live_from (map Some l) i = seq i (length l).
  Proof. revert i. induction l as [|x r IH]; intros i; cbn; [reflexivity|]. now rewrite IH. Qed.
  Lemma meta_of_dense (l : list node) :
    meta_of (map Some l) = map (fun n => if md_is_nil (n_md n) then None else Some (n_md n)) l.
  Proof. induction l as [|x r IH]; cbn; [reflexivity|]. now rewrite IH. Qed.
  Lemma meta_of_length (l : list (option node)) i : length (meta_of l) = length (live_from l i).
  Proof. revert i. induction l as [|[x|] r IH]; intros i; cbn; [reflexivity| |]; now rewrite (IH (S i)). Qed.
  Lemma meta_of_nonnil (l : list (option node)) m : In (Some m) (meta_of l) -> md_is_nil m = false.
  Proof.
    induction l as [|[x|] r IH]; cbn; [tauto| |exact IH].
    destruct (md_is_nil (n_md x)) eqn:E; intros [H|H]; try discriminate; [now apply IH| |now apply IH].
    injection H as <-. exact E.
  Qed.
  Lemma meta_of_nth (l : list (option node)) : forall a k i, nth_error (live_from l a) k = Some i ->
    exists n, nth_error l (i - a) = Some (Some n) /\
              nth_error (meta_of l) k = Some (if md_is_nil (n_md n) then None else Some (n_md n)).
  Proof.
    induction l as [|[x|] r IH]; intros a k i; cbn [live_from SerialHugr.meta_of].
    - destruct k; discriminate.
    - destruct k as [|k]; cbn [nth_error].
      + intros [= <-]. rewrite Nat.sub_diag. exists x. split; reflexivity.
      + intros Hk. destruct (IH (S a) k i Hk) as [n [Hn Hm]].
        assert (S a <= i).
        { apply nth_error_In in Hk. rewrite live_from_spec in Hk. apply filter_In in Hk. destruct Hk as [Hk _].
          apply in_seq in Hk. lia. }
        exists n. replace (i - a) with (S (i - S a)) by lia. split; assumption.
    - intros Hk. destruct (IH (S a) k i Hk) as [n [Hn Hm]].
      assert (S a <= i).
      { apply nth_error_In in Hk. rewrite live_from_spec in Hk. apply filter_In in Hk. destruct Hk as [Hk _].
        apply in_seq in Hk. lia. }
      exists n. replace (i - a) with (S (i - S a)) by lia. split; assumption.
  Qed.
  Lemma map_eq_nth {A B} (f : A -> B) (l : list A) (l' : list B) :
    length l = length l' -> (forall j x, nth_error l j = Some x -> nth_error l' j = Some (f x)) -> map f l = l'.
  Proof.
    revert l'. induction l as [|x r IH]; intros [|y s] Hl H; cbn in *; try discriminate; [reflexivity|].
    specialize (H 0 x eq_refl) as H0. cbn in H0. injection H0 as <-. f_equal. apply IH; [lia|].
    intros j a Ha. exact (H (S j) a Ha).
  Qed.
  Lemma mapM_map_id {A B} (f : B -> option A) (g : A -> B) l :
    (forall e, In e l -> f (g e) = Some e) -> mapM f (map g l) = Some l.
  Proof.
    induction l as [|x r IH]; intros H; cbn; [reflexivity|]. rewrite (H x (or_introl eq_refl)), IH; [reflexivity|].
    intros e He. apply H. now right.
  Qed.

  (* ---------------------------------------------------------------- C02: the fixed point *)
  Hypothesis md_nil_is_nil : md_is_nil md_nil = true.

  (* any document with node 0 as root, parents listed earlier, edges between listed nodes with explicit
     offsets, operations that re-encode to themselves and a full metadata list without empty dicts
     loads, and the loaded HUGR serializes to the same document *)
  Definition Canonical (s : serial) : Prop :=
    s_nodes s <> [] /\ PE (s_nodes s) /\
    (forall e, In e (s_edges s) -> edge_ok (length (s_nodes s)) e) /\
    (forall y, In y (s_nodes s) -> enc (dec (s_op y)) = s_op y) /\
    exists M, s_meta s = Some M /\ length M = length (s_nodes s) /\ forall m, In (Some m) M -> md_is_nil m = false.

  Lemma from_serial_canonical (s : serial) : Canonical s ->
    exists ns ns', from_serial s = Some {| h_nodes := map Some ns'; h_root := 0;
                                           h_links := map (dec_edge ns) (s_edges s) |} /\
                   Built s (s_nodes s) ns /\ skel ns ns'.
  Proof.
    intros [Hne [HPE [Hed _]]]. destruct (load_nodes_built s (s_nodes s) HPE) as [ns [Hload HB]].
    pose proof HB as [Hlen _].
    destruct (load_links_spec (s_edges s) ns ns [] (skel_refl ns)) as [ns' [Hl Hsk]].
    { intros e He. rewrite Hlen. now apply Hed. }
    exists ns, ns'. split; [|split; assumption]. unfold SerialHugr.from_serial.
    destruct (s_nodes s) eqn:E; [congruence|]. rewrite Hload, Hl. reflexivity.
  Qed.

  Lemma canonical_fixpoint (s : serial) h' : Canonical s -> from_serial s = Some h' -> to_serial h' = Some s.
  Proof.
    intros HC Hfs. destruct (from_serial_canonical s HC) as [ns [ns' [Hfs' [[Hlen HB] Hsk]]]].
    rewrite Hfs in Hfs'. injection Hfs' as ->. destruct HC as [Hne [HPE [Hed [Henc [M [HM [HMl HMn]]]]]]].
    pose proof Hsk as [Hlen' Hsk'].
    set (h' := {| h_nodes := map Some ns'; h_root := 0; h_links := map (dec_edge ns) (s_edges s) |}).
    assert (Hget : forall j y, nth_error (s_nodes s) j = Some y ->
              exists nj, get_node h' j = Some nj /\ n_op nj = dec (s_op y) /\
                         n_parent nj = (if j =? 0 then None else Some (s_parent y)) /\ n_md nj = get_meta s j).
    { intros j y Hy. destruct (HB j y Hy) as [nj [Hnj [Hop [Hpar [_ [Hmd _]]]]]].
      destruct (Hsk' j nj Hnj) as [nj' [Hnj' [E1 [E2 [_ E4]]]]]. exists nj'. unfold get_node. cbn [h_nodes h'].
      rewrite nth_error_map, Hnj'. cbn. repeat split; congruence. }
    assert (Hrekey : forall q, q < length (s_nodes s) -> rekey h' q = Some q).
    { intros q Hq. unfold rekey, live. cbn [h_nodes h']. rewrite live_from_dense. apply index_of_seq. lia. }
    unfold SerialHugr.to_serial.
    assert (E1 : mapM (ser_node h') (live h') = Some (s_nodes s)).
    { unfold live. cbn [h_nodes h']. rewrite live_from_dense, <- Hlen', Hlen. apply mapM_seq_nth.
      intros j y Hy. cbn [Nat.add]. destruct (Hget j y Hy) as [nj [Hnj [Hop [Hpar _]]]].
      unfold SerialHugr.ser_node. rewrite Hnj, Hpar.
      assert (Hj : j < length (s_nodes s)) by (apply nth_error_Some; congruence).
      destruct (HPE j y Hy) as [[-> Hp0]|[Hj0 Hpj]].
      - cbn [Nat.eqb]. rewrite (Hrekey 0 Hj), Hop, (Henc y (nth_error_In _ _ Hy)). destruct y; cbn in *. now subst.
      - destruct (Nat.eqb_spec j 0); [lia|]. rewrite (Hrekey (s_parent y)) by lia.
        rewrite Hop, (Henc y (nth_error_In _ _ Hy)). now destruct y. }
    assert (E2 : mapM (ser_link h') (h_links h') = Some (s_edges s)).
    { cbn [h_links h']. apply mapM_map_id. intros e He. destruct (Hed e He) as [Ha [Hb [Hx Hy]]].
      destruct e as [[a [x|]] [b [y|]]]; cbn in Ha, Hb, Hx, Hy; try congruence.
      unfold SerialHugr.ser_link, dec_edge. cbn [fst snd off_of]. rewrite (Hrekey a Ha), (Hrekey b Hb).
      assert (Hc : forall i x d, i < length (s_nodes s) -> constrain h' (i, dec_off ns i x d) d = Some x).
      { intros i z d Hi. unfold SerialHugr.constrain, dec_off. cbn [fst snd].
        destruct (nth_error ns i) as [ni|] eqn:Ei; [|apply nth_error_None in Ei; lia].
        destruct (Hsk' i ni Ei) as [ni' [Hni' [Eop _]]].
        destruct (ndp (n_op ni) d) as [c|] eqn:Ec; [|reflexivity].
        destruct (Nat.eqb_spec z c) as [->|_]; [|reflexivity].
        unfold get_node. cbn [h_nodes h']. rewrite nth_error_map, Hni'. cbn. now rewrite Eop, Ec. }
      rewrite (Hc a x DOut Ha), (Hc b y DIn Hb). reflexivity. }
    rewrite E1, E2. f_equal. destruct s as [SN ES MT]; cbn in *. f_equal. rewrite HM. f_equal.
    cbn [h_nodes h']. rewrite meta_of_dense. apply map_eq_nth; [congruence|].
    intros j nj' Hnj'. assert (Hj : j < length SN) by (rewrite <- Hlen, Hlen'; apply nth_error_Some; congruence).
    destruct (nth_error SN j) as [y|] eqn:Ey; [|apply nth_error_None in Ey; lia].
    destruct (Hget j y Ey) as [nj [Hnj [_ [_ Hmd]]]]. unfold get_node in Hnj. cbn [h_nodes h'] in Hnj.
    rewrite nth_error_map, Hnj' in Hnj. cbn in Hnj. injection Hnj as <-. rewrite Hmd.
    unfold SerialHugr.get_meta. cbn [s_meta]. rewrite HM.
    destruct (nth_error M j) as [[m|]|] eqn:Em; [| |apply nth_error_None in Em; lia].
    - destruct M; [destruct j; discriminate|]. cbv beta iota. now rewrite (HMn m (nth_error_In _ _ Em)).
    - destruct M; [destruct j; discriminate|]. cbv beta iota. now rewrite md_nil_is_nil.
  Qed.

  (* operations re-encode to themselves after decoding (C05: operations survive encoding and decoding) *)
  Hypothesis enc_dec_enc : forall o, enc (dec (enc o)) = enc o.

  Lemma doc_canonical (h : hugr) s : guard_b h = true -> to_serial h = Some s -> Canonical s.
  Proof.
    intros G Hs. pose proof (to_serial_doc h s G Hs) as D. destruct (serial_index_sane h s G Hs) as [Hr0 [S1 [S2 S3]]].
    destruct D as [Dl Dn De Dm]. pose proof G as G'. unfold SerialHugrS.guard_b in G'. apply andb_prop in G'.
    destruct G' as [Gi Gp]. destruct (io_facts h Gi) as [Hroot _].
    repeat split.
    - intros E. rewrite E in Dl. cbn in Dl. apply lives_In in Hroot. destruct (lives h); [contradiction|discriminate].
    - intros k x Hx. destruct k as [|k].
      + left. split; [reflexivity|]. destruct S1 as [r [Hr Hp]]. rewrite Hx in Hr. now injection Hr as ->.
      + right. split; [lia|]. apply S2; [lia|assumption].
    - apply S3. assumption.
    - apply S3. assumption.
    - rewrite De in H. apply in_map_iff in H. destruct H as [l [<- Hl]]. destruct (pe_facts h Gp l Hl) as [Ho Hi].
      destruct (ser_link_guarded h l Ho Hi) as [a [b [Ea [Eb _]]]]. unfold SerialHugrS.expected_edge. cbn. congruence.
    - rewrite De in H. apply in_map_iff in H. destruct H as [l [<- Hl]]. destruct (pe_facts h Gp l Hl) as [Ho Hi].
      destruct (ser_link_guarded h l Ho Hi) as [a [b [Ea [Eb _]]]]. unfold SerialHugrS.expected_edge. cbn. congruence.
    - intros y Hy. apply In_nth_error in Hy. destruct Hy as [k Hk].
      assert (Hk' : k < length (lives h)) by (rewrite <- Dl; apply nth_error_Some; congruence).
      destruct (nth_error (lives h) k) as [i|] eqn:Ei; [|apply nth_error_None in Ei; lia].
      destruct (Dn k i Ei) as [n [_ Hy]]. rewrite Hk in Hy. injection Hy as ->. cbn. apply enc_dec_enc.
    - exists (meta_of (h_nodes h)). split; [exact Dm|]. split.
      + rewrite (meta_of_length _ 0). fold (live h). now rewrite live_lives.
      + apply meta_of_nonnil.
  Qed.

  Theorem roundtrip_fixpoint (h : hugr) s : guard_b h = true -> to_serial h = Some s ->
    exists h', from_serial s = Some h' /\ to_serial h' = Some s.
  Proof.
    intros G Hs. pose proof (doc_canonical h s G Hs) as HC.
    destruct (from_serial_canonical s HC) as [ns [ns' [Hfs _]]]. eexists. split; [exact Hfs|].
    now apply canonical_fixpoint.
  Qed.

  Theorem roundtrip_fixpoint_total (h : hugr) : guard_b h = true ->
    exists s h', to_serial h = Some s /\ from_serial s = Some h' /\ to_serial h' = Some s.
  Proof.
    intros G. destruct (to_serial_total h G) as [s Hs]. destruct (roundtrip_fixpoint h s G Hs) as [h' [H1 H2]]. eauto.
  Qed.

  (* ---------------------------------------------------------------- C02: same observable structure *)
  (* decoding preserves the port counts (C05: same derived facts), and {} is the only empty metadata *)
  Hypothesis ndp_dec_enc : forall o d, ndp (dec (enc o)) d = ndp o d.
  Hypothesis md_nil_unique : forall m, md_is_nil m = true -> m = md_nil.

  Theorem roundtrip_iso (h : hugr) s : guard_b h = true -> to_serial h = Some s ->
    exists h', from_serial s = Some h' /\ Iso enc h h'.
  Proof.
    intros G Hs. pose proof (doc_canonical h s G Hs) as HC.
    destruct (from_serial_canonical s HC) as [ns [ns' [Hfs [[Hlen HB] [Hlen' Hsk]]]]].
    eexists. split; [exact Hfs|].
    pose proof (to_serial_doc h s G Hs) as [Dl Dn De Dm]. destruct (serial_index_sane h s G Hs) as [Hr0 _].
    pose proof G as G'. unfold SerialHugrS.guard_b in G'. apply andb_prop in G'. destruct G' as [Gi Gp].
    destruct (io_facts h Gi) as [Hroot F].
    assert (Hnth : forall i, is_live h i = true -> nth_error (lives h) (rank h i) = Some i).
    { intros i Hi. apply index_of_nth. apply index_of_rank; [apply lives_incr|now apply lives_In]. }
    (* the loaded node at the rank of a live node *)
    assert (Hnode : forall i n, get_node h i = Some n ->
              exists nk nk', nth_error ns (rank h i) = Some nk /\ nth_error ns' (rank h i) = Some nk' /\
                n_op nk' = n_op nk /\ n_parent nk' = n_parent nk /\ n_children nk' = n_children nk /\ n_md nk' = n_md nk /\
                n_op nk = dec (enc (n_op n)) /\
                n_parent nk = (if rank h i =? 0 then None else Some (rank h (parent_or_self i n))) /\
                n_children nk = filter (ischild (s_nodes s) (rank h i)) (seq 0 (length (s_nodes s))) /\
                n_md nk = get_meta s (rank h i)).
    { intros i n Hn. assert (Hi : is_live h i = true) by (apply is_live_get; eauto).
      destruct (Dn _ _ (Hnth i Hi)) as [n' [Hn' Hy]]. rewrite Hn in Hn'. injection Hn' as <-.
      destruct (HB _ _ Hy) as [nk [Hnk [Hop [Hpar [Hch [Hmd _]]]]]].
      destruct (Hsk _ _ Hnk) as [nk' [Hnk' [E1 [E2 [E3 E4]]]]]. exists nk, nk'. cbn in Hop, Hpar. repeat split; assumption. }
    constructor.
    - (* no holes, as many nodes as live nodes *)
      intros k. unfold is_live. cbn [h_nodes]. rewrite nth_error_map. rewrite <- Dl, <- Hlen, Hlen'.
      destruct (nth_error ns' k) eqn:E; cbn; split; intros H; try reflexivity; try discriminate.
      + apply nth_error_Some. congruence.
      + apply nth_error_None in E. lia.
    - intros i n Hn. assert (Hi : is_live h i = true) by (apply is_live_get; eauto).
      destruct (Hnode i n Hn) as [nk [nk' [Hnk [Hnk' [E1 [E2 [E3 [E4 [Hop [Hpar [Hch Hmd]]]]]]]]]]].
      destruct (F i Hi) as [n' [Hn' [Hp Hc]]]. rewrite Hn in Hn'. injection Hn' as <-.
      exists nk'. split; [unfold get_node; cbn [h_nodes]; now rewrite nth_error_map, Hnk'|].
      split; [rewrite E1, Hop; apply enc_dec_enc|]. split; [|split].
      + (* parent *)
        rewrite E2, Hpar. unfold parent_or_self, parent_fact in *. destruct (n_parent n) as [p|]; cbn [option_map].
        * destruct Hp as [_ [_ Hne]]. destruct (Nat.eqb_spec (rank h i) 0) as [E|_]; [|reflexivity].
          exfalso. apply Hne. apply (rank_injective h); [assumption..|congruence].
        * subst i. now rewrite Hr0.
      + (* children, in order *)
        rewrite E3, Hch, Hc, Dl, <- (map_rank_seq (lives h) (lives_incr h)), filter_map_comm.
        f_equal. apply filter_ext_in. intros c Hc'. apply lives_In in Hc'. fold (rank h c).
        unfold ischild. destruct (proj1 (is_live_get h c) Hc') as [nc Hnc].
        destruct (Dn _ _ (Hnth c Hc')) as [nc' [Hnc' Hy]]. rewrite Hnc in Hnc'. injection Hnc' as <-. rewrite Hy. cbn [s_parent snode_of].
        destruct (F c Hc') as [nc' [Hnc' [Hpc _]]]. rewrite Hnc in Hnc'. injection Hnc' as <-.
        unfold is_child, parent_of. rewrite Hnc. unfold parent_or_self, parent_fact in *.
        destruct (n_parent nc) as [q|].
        * destruct Hpc as [Hq [_ Hne]].
          assert (rank h c <> 0) by (intros E; apply Hne; apply (rank_injective h); [assumption..|congruence]).
          destruct (Nat.ltb_spec 0 (rank h c)); [|lia]. cbn [andb].
          destruct (Nat.eqb_spec q i) as [->|Hqi]; [now rewrite Nat.eqb_refl|].
          destruct (Nat.eqb_spec (rank h q) (rank h i)) as [E|_]; [|reflexivity].
          exfalso. apply Hqi. now apply (rank_injective h).
        * subst c. rewrite Hr0. reflexivity.
      + (* metadata *)
        rewrite E4, Hmd. unfold SerialHugr.get_meta. rewrite Dm.
        pose proof (Hnth i Hi) as Hk. rewrite <- live_lives in Hk. unfold live in Hk.
        destruct (meta_of_nth (h_nodes h) 0 _ _ Hk) as [n' [Hn' Hm]]. rewrite Nat.sub_0_r in Hn'.
        unfold get_node in Hn. rewrite Hn' in Hn. injection Hn as ->.
        destruct (meta_of (h_nodes h)) as [|m0 M] eqn:EM; [destruct (rank h i); discriminate|].
        rewrite Hm. destruct (md_is_nil (n_md n)) eqn:En; [symmetry; now apply md_nil_unique|reflexivity].
    - cbn [h_root]. now rewrite Hr0.
    - (* links: the same list, renumbered; order links stay order links *)
      cbn [h_links]. rewrite De, map_map. erewrite map_ext_in; [apply Permutation_refl|].
      intros l Hl. destruct (pe_facts h Gp l Hl) as [Ho Hi].
      assert (Hoff : forall p d, port_exists h p d = true ->
                dec_off ns (rank h (fst p)) (off_of (addr h p d)) d = snd p).
      { intros p d Hp. pose proof (port_exists_live h p d Hp) as Hlp. unfold SerialHugrS.port_exists in Hp.
        destruct (get_node h (fst p)) as [n|] eqn:En; [|discriminate].
        destruct (Hnode _ _ En) as [nk [_ [Hnk [_ [_ [_ [_ [_ [Hop _]]]]]]]]].
        unfold dec_off. rewrite Hnk, Hop, ndp_dec_enc, ndp_spec. unfold SerialHugrS.addr. rewrite En.
        destruct (has_order (n_op n)); destruct (snd p) as [|k]; cbn [off_of]; try discriminate; try reflexivity.
        - now rewrite Nat.eqb_refl.
        - apply Nat.ltb_lt in Hp. destruct (Nat.eqb_spec k (vports (n_op n) d + sports (n_op n) d)); [lia|reflexivity]. }
      unfold dec_edge, SerialHugrS.expected_edge, rename_link, rename_port. cbn [fst snd].
      rewrite (Hoff _ _ Ho), (Hoff _ _ Hi). reflexivity.
  Qed.
End Proofs.

(* ------------------------------------------------------------------ concrete instances *)
(* operations = their own encoding (a number); every operation has 1 value port in each direction, no
   static port, and an order port; metadata = a number, 0 = {} *)
Module Witness.
  Definition enc (o : nat) : nat := o.
  Definition dec (c : nat) : nat := c.
  Definition vports (o : nat) (d : dir) : nat := 1.
  Definition sports (o : nat) (d : dir) : nat := 0.
  Definition has_order (o : nat) : bool := true.
  Definition ndp (o : nat) (d : dir) : option nat := Some 1.
  Definition md_is_nil (m : nat) : bool := m =? 0.
  Definition to_s := to_serial enc ndp md_is_nil.
  Definition from_s := from_serial dec ndp 0.
  Definition nd o p ch m : node nat nat :=
    {| n_op := o; n_parent := p; n_children := ch; n_md := m; n_nin := 1; n_nout := 1 |}.

  Lemma hyps : (forall o d, ndp o d = if has_order o then Some (vports o d + sports o d) else None) /\
               md_is_nil 0 = true /\ (forall o, enc (dec (enc o)) = enc o) /\
               (forall o d, ndp (dec (enc o)) d = ndp o d) /\ (forall m, md_is_nil m = true -> m = 0).
  Proof. repeat split. intros m H. now apply Nat.eqb_eq in H. Qed.

  (* non-vacuity: a HUGR with a hole, metadata, a value link and an order link satisfies the guard *)
  Definition good : hugr nat nat :=
    {| h_nodes := [Some (nd 10 None [2; 3] 0); None; Some (nd 11 (Some 0) [] 7); Some (nd 12 (Some 0) [] 0)];
       h_root := 0; h_links := [((2, APort 0), (3, APort 0)); ((2, AOrder), (3, AOrder))] |}.
  Lemma good_guard : guard_b vports sports has_order good = true.
  Proof. reflexivity. Qed.

  (* index reuse, child before parent: node 1 is a child of node 2.  The hierarchy is a tree and every
     link is on an existing port, yet the document lists the child first and does not load *)
  Definition reuse_child : hugr nat nat :=
    {| h_nodes := [Some (nd 10 None [2] 0); Some (nd 11 (Some 2) [] 0); Some (nd 12 (Some 0) [1] 0)];
       h_root := 0; h_links := [] |}.
  (* index reuse, siblings out of index order: the children of the root are [2; 1] *)
  Definition reuse_sibling : hugr nat nat :=
    {| h_nodes := [Some (nd 10 None [2; 1] 0); Some (nd 11 (Some 0) [] 0); Some (nd 12 (Some 0) [] 0)];
       h_root := 0; h_links := [] |}.
  (* a link on output port 1 of an operation with a single output *)
  Definition off_port : hugr nat nat :=
    {| h_nodes := [Some (nd 10 None [1; 2] 0); Some (nd 11 (Some 0) [] 0); Some (nd 12 (Some 0) [] 0)];
       h_root := 0; h_links := [((1, APort 1), (2, APort 0))] |}.
End Witness.

Lemma roundtrip_example :
  exists s h', Witness.to_s Witness.good = Some s /\ Witness.from_s s = Some h' /\ Witness.to_s h' = Some s /\
               length (s_nodes s) = 3 /\ h_links h' = [((1, APort 0), (2, APort 0)); ((1, AOrder), (2, AOrder))].
Proof. eexists. eexists. vm_compute. repeat split. Qed.

Lemma reuse_child_before_parent_refuted :
  hierarchy_ok_b Witness.reuse_child = true /\
  ports_exist_b Witness.vports Witness.sports Witness.has_order Witness.reuse_child = true /\
  exists s, Witness.to_s Witness.reuse_child = Some s /\
            Witness.from_s s = None /\                      (* load_json raises *)
            index_sane_b s = false.                         (* a parent is listed after its child *)
Proof. split; [reflexivity|]. split; [reflexivity|]. eexists. split; [reflexivity|]. split; reflexivity. Qed.

Lemma reuse_sibling_order_refuted :
  hierarchy_ok_b Witness.reuse_sibling = true /\
  ports_exist_b Witness.vports Witness.sports Witness.has_order Witness.reuse_sibling = true /\
  exists s h', Witness.to_s Witness.reuse_sibling = Some s /\ Witness.from_s s = Some h' /\
               Witness.to_s h' = Some s /\                  (* the fixed point still holds *)
               ~ Iso Witness.enc Witness.reuse_sibling h'.  (* but the child order is not preserved *)
Proof.
  split; [reflexivity|]. split; [reflexivity|]. eexists. eexists. split; [reflexivity|]. split; [reflexivity|].
  split; [reflexivity|]. intros [_ Hn _ _].
  destruct (Hn 0 _ eq_refl) as [n' [Hg [_ [_ [Hc _]]]]]. vm_compute in Hg. injection Hg as <-.
  vm_compute in Hc. discriminate.
Qed.

Lemma missing_port_refuted :
  index_ordered_b Witness.off_port = true /\
  exists s h', Witness.to_s Witness.off_port = Some s /\ Witness.from_s s = Some h' /\
               Witness.to_s h' = Some s /\
               h_links h' = [((1, AOrder), (2, APort 0))] /\      (* the link came back as an order link *)
               ~ Iso Witness.enc Witness.off_port h'.
Proof.
  split; [reflexivity|]. eexists. eexists. split; [reflexivity|]. split; [reflexivity|]. split; [reflexivity|].
  split; [reflexivity|]. intros [_ _ _ Hl]. vm_compute in Hl. apply Permutation_length_1_inv in Hl. discriminate.
Qed.
