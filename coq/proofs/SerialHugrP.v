From HV Require Import lib.Harness model.SerialHugr spec.SerialHugrS.
