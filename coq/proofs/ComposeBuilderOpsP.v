(* C01 -> C02 -> C05, end to end: the HUGR a builder program leaves behind, with the builder's operation literals
   concretised into the operations of model/CodecOps.v (types through a table tyc, extension operations as opaque
   Custom operations), serialises -- through C05's concrete codec -- to a document that loads back to an isomorphic
   HUGR and is a fixed point.  Premises: the program is well typed (wt_prog) and runs, and the concretised constants
   are inside C05's domain (value_ok: every type the table assigns encodes, a sum value has a sum type).  No hypothesis
   about operations, their codec or their port counts is left: the concretisation respects the port counts
   ([conc_ndp]) on every operation a well-typed program of the modelled language can place. *)
From Coq Require Import NArith List Bool Arith Lia Permutation.
Import ListNotations.
From HV Require Import lib.Harness model.Validity model.Builder spec.BuilderS proofs.BuilderP proofs.BuilderFrameP
  proofs.BuilderRulesP spec.BuilderWFS proofs.BuilderTypeP.
From HV Require Import model.Types model.SerialTypes model.Codec model.CodecVals model.CodecOps
  proofs.CodecOpsP proofs.CodecDocP proofs.CodecEqP.
From HV Require Import model.SerialHugr spec.SerialHugrS proofs.SerialHugrP proofs.SerialHugrOnP
  model.ComposeOps proofs.ComposeOpsP model.ComposeDepth proofs.ComposeDepthP model.ComposeBuilder proofs.ComposeBuilderP.

(* the operations a well-typed program of the modelled language places: model operations, Tags naming a variant *)
Definition QB (o : vop) : Prop :=
  model_op o = true /\ match o with Validity.Tag t vs _ => (t <? lenN vs)%N = true | _ => True end.

Section Conc.
  Variable H : Type.
  Variable tyc : tyid -> ty.
  Variable nm : name.
  Notation conc := (conc H tyc nm).

  (* the concretisation has the port counts the validity literal records *)
  Lemma conc_ndp o d : QB o -> c_ndp H (conc o) d = v_ndp o d.
  Proof.
    intros [M T]. unfold c_ndp, v_ndp, v_has_order, base_in, base_out, val_in, val_out, lenN.
    destruct o; try discriminate M; cbn [ComposeBuilder.conc df_sig Validity.df_sig is_some static_in static_out b2N ft_in ft_out];
      unfold crow; try (destruct d; rewrite ?map_length; f_equal; lia); try reflexivity.
    - (* Tag *) unfold rows_of. cbn [variant_rows]. unfold nthN. rewrite nth_error_map.
      apply N.ltb_lt in T. destruct (nth_error variants (N.to_nat tag)) as [r|] eqn:E.
      + cbn [option_map]. destruct d; rewrite ?map_length; cbn [length]; f_equal; lia.
      + apply nth_error_None in E. unfold lenN in T. lia.
  Qed.

  Lemma conc_tag_ok o : QB o -> tag_ok H (conc o) = true.
  Proof.
    intros [M T]. destruct o; try reflexivity. cbn [ComposeBuilder.conc tag_ok]. unfold rows_of. cbn [variant_rows].
    apply N.ltb_lt in T. apply Nat.ltb_lt. rewrite map_length. unfold lenN in T. lia.
  Qed.

  (* C05's op_ok on a concretised operation only asks something of the constants *)
  Variable h_ok : H -> bool.
  Definition ConstsOK (st : store) : Prop :=
    forall nd v, In nd (Builder.s_nodes st) -> Validity.n_op nd = Validity.Const v -> value_ok H h_ok (cval H tyc nm v) = true.
  Lemma conc_op_ok o : model_op o = true ->
    (forall v, o = Validity.Const v -> value_ok H h_ok (cval H tyc nm v) = true) -> op_ok H h_ok (conc o) = true.
  Proof. intros M HC. destruct o; try discriminate M; try reflexivity. cbn. now apply HC. Qed.
End Conc.

(* what a well-typed program that runs leaves in the store *)
Lemma builder_QStore tys p st : wt_prog tys p = true -> exec_prog tys p = Ok st -> QStore QB st.
Proof.
  intros W E nd Hin. destruct (exec_prog_typed tys p st W E) as [_ NO]. destruct (exec_prog_frame tys p st E) as [_ (M & _)].
  unfold NodesOK in NO. unfold ModelOps in M. rewrite forallb_forall in NO, M. specialize (NO nd Hin). specialize (M nd Hin).
  split; [exact M|]. unfold node_okb in NO. destruct (Validity.n_op nd); try exact I. now apply andb_true_iff in NO as [_ NO].
Qed.

(* ---- the end-to-end theorem, at nesting depth 0 (the modelled builder language has no function-valued constants) ---- *)
Section EndToEnd.
  Variable tyc : tyid -> ty.
  Variable nm : name.
  Variable pc : nat -> nat * nat.
  Notation cview := (bview (op E0) (conc E0 tyc nm) pc).
  Notation enc := (c_enc E0 E0 e0).
  Notation dec := (c_dec E0 E0 e0).
  Notation ndp := (c_ndp E0).
  Notation to_s := (SerialHugr.to_serial enc ndp unit_is_nil).
  Notation from_s := (SerialHugr.from_serial dec ndp tt).

  Theorem builder_roundtrip_concrete tys p g : wt_prog tys p = true -> run tys p = Ok g ->
    exists st, exec_prog tys p = Ok st /\
      (ConstsOK E0 tyc nm e0_ok st ->
       guard_b (c_vports E0 E0 e0) (c_sports E0 E0 e0) (c_has_order E0 E0 e0) (cview st) = true /\
       ops_ok_b unit e0_ok (cview st) = true /\
       exists h', to_s (cview st) = Some (doc_of_graph (op E0) (conc E0 tyc nm) (sop E0) enc g) /\
                  from_s (doc_of_graph (op E0) (conc E0 tyc nm) (sop E0) enc g) = Some h' /\
                  to_s h' = Some (doc_of_graph (op E0) (conc E0 tyc nm) (sop E0) enc g) /\
                  Iso enc (cview st) h').
  Proof.
    intros W R. unfold run in R. destruct (exec_prog tys p) as [st|e] eqn:E; [|discriminate]. cbn in R. injection R as <-.
    exists st. split; [reflexivity|]. intros HC.
    destruct (exec_prog_typed tys p st W E) as [LI _]. pose proof (proj1 (exec_prog_frame tys p st E)) as I.
    pose proof (builder_QStore tys p st W E) as HQ.
    assert (G : guard_b (c_vports E0 E0 e0) (c_sports E0 E0 e0) (c_has_order E0 E0 e0) (cview st) = true).
    { exact (view_guard (op E0) (conc E0 tyc nm) pc ndp _ _ _ (c_ndp_spec E0 E0 e0) QB (fun o d => conc_ndp E0 tyc nm o d) st I HQ LI). }
    assert (Hs : to_s (cview st) = Some (doc_of_graph (op E0) (conc E0 tyc nm) (sop E0) enc (Builder.to_serial st))).
    { exact (view_to_serial (op E0) (sop E0) (conc E0 tyc nm) pc enc ndp QB (fun o d => conc_ndp E0 tyc nm o d) st I HQ LI). }
    assert (A : ops_ok_b unit e0_ok (cview st) = true).
    { unfold ops_ok_b, bview. cbn [h_nodes]. rewrite forallb_forall. intros on Hin. apply in_map_iff in Hin as [n [<- Hin]].
      apply In_nth_error in Hin as [k Hk]. rewrite mapi_from_nth in Hk. cbn [Nat.add] in Hk.
      destruct (nth_error (Builder.s_nodes st) k) as [nd|] eqn:En; [|discriminate]. injection Hk as <-.
      cbn [bnode SerialHugr.n_op]. pose proof (nth_error_In _ _ En) as Hnd. destruct (HQ nd Hnd) as [M T].
      unfold cop_ok_b. apply conc_op_ok; [exact M|]. intros v Ev. exact (HC nd v Hnd Ev). }
    split; [exact G|]. split; [exact A|].
    destruct (roundtrip_concrete E0 E0 e0 e0 e0 e0_type e0_ok e0_rt unit tt unit_is_nil eq_refl unit_nil_unique (cview st) G
                (ops_ok_OpsIn _ _ _ _ A)) as [s [h' [Hs1 [Hf [Hs2 [HI _]]]]]].
    rewrite Hs in Hs1. injection Hs1 as <-. exists h'. split; [exact Hs|]. split; [exact Hf|]. split; [exact Hs2|exact HI].
  Qed.
End EndToEnd.

(* ---- non-vacuity: the 13-node example program of C01 (constant kept at the root, nested region using an outer wire
   -- an Ext edge with its order edge --, MakeTuple / UnpackTuple / Noop, Tag, fixed-signature operation, linear value,
   explicit order edge), concretised with usize / Tuple(usize, usize) / Bool / qubit ---- *)
Definition ex_tyc (t : tyid) : ty :=
  match t with
  | 0%N => TUSize
  | 1%N => Types.TSum [[TUSize; TUSize]]
  | 2%N => Types.TSum [[]; []]
  | _ => TQubit
  end.
Definition ex_pc (_ : nat) : nat * nat := (0, 0).

Lemma ex2_end_to_end : wt_prog ex2_tys ex2_prog = true /\
  exists g st, run ex2_tys ex2_prog = Ok g /\ exec_prog ex2_tys ex2_prog = Ok st /\
    ConstsOK E0 ex_tyc 7%N e0_ok st /\
    (* a non-local value link (Ext wire) and the order link that accompanies it are in the store *)
    existsb (fun e => port_link e && negb (optN_eqb (anc_sib st (e_src e) (e_dst e)) (Some (e_dst e)))) (s_links st) = true /\
    length (SerialHugr.s_nodes (doc_of_graph (op E0) (conc E0 ex_tyc 7%N) (sop E0) (c_enc E0 E0 e0) g)) = 13 /\
    guard_b (c_vports E0 E0 e0) (c_sports E0 E0 e0) (c_has_order E0 E0 e0) (bview (op E0) (conc E0 ex_tyc 7%N) ex_pc st) = true.
Proof.
  split; [vm_compute; reflexivity|].
  destruct (run ex2_tys ex2_prog) as [g|] eqn:Eg; [|vm_compute in Eg; discriminate].
  destruct (exec_prog ex2_tys ex2_prog) as [st|] eqn:Est; [|vm_compute in Est; discriminate].
  exists g, st. split; [reflexivity|]. split; [reflexivity|].
  vm_compute in Eg. injection Eg as <-. vm_compute in Est. injection Est as <-.
  split.
  - intros nd v Hin Ev. cbn in Hin.
    repeat (destruct Hin as [<-|Hin]; [try discriminate Ev; try (injection Ev as <-; vm_compute; reflexivity)|]). destruct Hin.
  - repeat split; vm_compute; reflexivity.
Qed.
