(* C03 — the short-circuit validator of model/SchemaFast.v computes the validator of model/Schema.v:
   fvalidates fuel root s d = validates fuel root s d for all arguments. *)
From Coq Require Import List Bool ZArith String Ascii Arith.
Import ListNotations.
From HV Require Import lib.Harness model.Schema model.SchemaFast.
Open Scope string_scope.

Lemma fforallb_eq {A} (f : A -> bool) l : fforallb f l = forallb f l.
Proof. induction l as [|a r IH]; cbn; [reflexivity|]. rewrite IH. reflexivity. Qed.
Lemma fexistsb_eq {A} (f : A -> bool) l : fexistsb f l = existsb f l.
Proof. induction l as [|a r IH]; cbn; [reflexivity|]. rewrite IH. reflexivity. Qed.
Lemma fzip_all_eq V ss ds : fzip_all V ss ds = all_true (zip_with V ss ds).
Proof.
  revert ds. induction ss as [|s r IH]; intros [|d ds]; cbn; try reflexivity. rewrite IH. reflexivity.
Qed.
Lemma fcount_eq P ss : fcount P ss = count_true (map P ss).
Proof.
  unfold count_true. induction ss as [|s r IH]; cbn; [reflexivity|]. destruct (P s); cbn; now rewrite IH.
Qed.

Lemma forallb_ext2 {A} (f g : A -> bool) l : (forall x, f x = g x) -> forallb f l = forallb g l.
Proof. intros H. induction l as [|x r IH]; cbn; [reflexivity|]. now rewrite H, IH. Qed.
Lemma zip_with_ext V1 V2 ss ds : (forall s d, V1 s d = V2 s d) -> zip_with V1 ss ds = zip_with V2 ss ds.
Proof.
  intros H. revert ds. induction ss as [|s r IH]; intros [|d ds]; cbn; try reflexivity. now rewrite H, IH.
Qed.

Section Ext.
  Variables V1 V2 : json -> json -> bool.
  Variable root : json.
  Hypothesis HV : forall s d, V1 s d = V2 s d.

  Lemma fchk_object_eq kvs d : fchk_object V1 root kvs d = chk_object V2 root kvs d.
  Proof.
    unfold fchk_object, chk_object, known_keys.
    unfold fchk_enum, fchk_required, fchk_props, fchk_addl, fchk_prefix, fchk_items, fchk_anyOf, fchk_oneOf.
    rewrite fforallb_eq.
    replace (match lookup "enum" kvs with
             | Some (JArr es) => fexistsb (fun e => data_equiv e d) es
             | Some _ => false | None => true end) with (chk_enum (lookup "enum" kvs) d)
      by (unfold chk_enum; destruct (lookup "enum" kvs) as [[]|]; try reflexivity; now rewrite fexistsb_eq).
    replace (match lookup "required" kvs with
             | Some (JArr rs) => match d with
                                 | JObj o => fforallb (fun r => match r with JStr n => has_key n o | _ => false end) rs
                                 | _ => true end
             | Some _ => false | None => true end) with (chk_required (lookup "required" kvs) d)
      by (unfold chk_required; destruct (lookup "required" kvs) as [[]|]; try reflexivity;
          destruct d; try reflexivity; now rewrite fforallb_eq).
    replace (match lookup "properties" kvs with
             | Some (JObj ps) => match d with
                                 | JObj o => fforallb (fun kv => match lookup (fst kv) ps with
                                                                 | Some s => V1 s (snd kv) | None => true end) o
                                 | _ => true end
             | Some _ => false | None => true end) with (chk_props V2 (lookup "properties" kvs) d)
      by (unfold chk_props; destruct (lookup "properties" kvs) as [[]|]; try reflexivity;
          destruct d; try reflexivity; rewrite fforallb_eq; apply forallb_ext2; intros kv;
          destruct (lookup (fst kv) kvs0); [symmetry; apply HV|reflexivity]).
    replace (match lookup "additionalProperties" kvs with
             | Some s => match d with
                         | JObj o => fforallb (fun kv => if in_props (fst kv) (lookup "properties" kvs) then true
                                                         else V1 s (snd kv)) o
                         | _ => true end
             | None => true end)
      with (chk_addl V2 (lookup "properties" kvs) (lookup "additionalProperties" kvs) d)
      by (unfold chk_addl; destruct (lookup "additionalProperties" kvs); try reflexivity;
          destruct d; try reflexivity; rewrite fforallb_eq; apply forallb_ext2; intros kv;
          destruct (in_props (fst kv) (lookup "properties" kvs)); [reflexivity|symmetry; apply HV]).
    replace (match lookup "prefixItems" kvs with
             | Some (JArr ps) => match d with JArr xs => fzip_all V1 ps xs | _ => true end
             | Some _ => false | None => true end) with (chk_prefix V2 (lookup "prefixItems" kvs) d)
      by (unfold chk_prefix; destruct (lookup "prefixItems" kvs) as [[]|]; try reflexivity;
          destruct d; try reflexivity; rewrite fzip_all_eq; f_equal; symmetry; now apply zip_with_ext).
    replace (match lookup "items" kvs with
             | Some s => match d with
                         | JArr xs => fforallb (V1 s) (skipn (prefix_len (lookup "prefixItems" kvs)) xs)
                         | _ => true end
             | None => true end) with (chk_items V2 (lookup "prefixItems" kvs) (lookup "items" kvs) d)
      by (unfold chk_items; destruct (lookup "items" kvs); try reflexivity;
          destruct d; try reflexivity; rewrite fforallb_eq; apply forallb_ext2; intros x; symmetry; apply HV).
    replace (match lookup "anyOf" kvs with
             | Some (JArr ss) => fexistsb (fun s => V1 s d) ss
             | Some _ => false | None => true end) with (chk_anyOf V2 (lookup "anyOf" kvs) d)
      by (unfold chk_anyOf, some_true; destruct (lookup "anyOf" kvs) as [[]|]; try reflexivity;
          rewrite fexistsb_eq; induction l as [|s r IH]; cbn; [reflexivity|]; now rewrite HV, IH).
    replace (match lookup "oneOf" kvs with
             | Some (JArr ss) => Nat.eqb (fcount (fun s => V1 s d) ss) 1
             | Some _ => false | None => true end) with (chk_oneOf V2 (lookup "oneOf" kvs) d)
      by (unfold chk_oneOf; destruct (lookup "oneOf" kvs) as [[]|]; try reflexivity;
          rewrite fcount_eq; do 2 f_equal; apply map_ext; intros s; symmetry; apply HV).
    replace (chk_ref V1 root (lookup "$ref" kvs) d) with (chk_ref V2 root (lookup "$ref" kvs) d)
      by (unfold chk_ref; destruct (lookup "$ref" kvs) as [[]|]; try reflexivity;
          destruct (resolve root s); [symmetry; apply HV|reflexivity]).
    rewrite <- !andb_assoc. reflexivity.
  Qed.
End Ext.

Theorem fvalidates_eq : forall fuel root s d, fvalidates fuel root s d = validates fuel root s d.
Proof.
  induction fuel as [|f IH]; intros root s d; destruct s as [| | | | | |kvs]; try reflexivity.
  cbn [fvalidates validates]. apply fchk_object_eq. intros s' d'. apply IH.
Qed.
Corollary faccepts_eq : forall fuel root name d, faccepts fuel root name d = accepts fuel root name d.
Proof. intros. apply fvalidates_eq. Qed.
