(* Proofs for C02 (second pass): the guard of the round-trip theorems is an invariant of mutation histories.
   The store model is model/Graph.v (C04's: node table, free stack, BiMap of sub-ports); its invariant
   [Inv] and the refinement of every mutator to the sequential specification are proofs/GraphInvP.v.
   Here:  [Ord] (every parent has a smaller index, every children list is strictly increasing) is kept
   by every call inside the store's guard that does not reuse an index;  [Inv] + [Ord] give
   [index_ordered_b] of the view;  [PE] (links attach only to ports the operations have) is kept when
   every add_link / add_order_link call names ports the operations have. *)
From Coq Require Import List Bool Arith ZArith Lia Permutation.
Import ListNotations.
From HV Require Import lib.PyDict lib.Harness model.BiMapM proofs.BiMapP model.Graph spec.GraphS
     proofs.GraphP proofs.GraphInvP proofs.InsertP.
From HV Require Import model.SerialHugr spec.SerialHugrS proofs.SerialHugrP model.HugrHist spec.HugrHistS.

(* ------------------------------------------------------------------ strictly increasing lists *)
Lemma incr_filter f l : incr l -> incr (filter f l).
Proof.
  induction l as [|x r IH]; cbn; [auto|]. intros [Hx Hr]. destruct (f x); [|auto]. cbn. split; [|auto].
  intros y Hy. apply filter_In in Hy. apply Hx. tauto.
Qed.
Lemma incr_snoc l n : incr l -> (forall x, In x l -> x < n) -> incr (l ++ [n]).
Proof.
  induction l as [|x r IH]; cbn; [intros _ _; split; [intros y []|exact I]|].
  intros [Hx Hr] Hb. split.
  - intros y Hy. apply in_app_or in Hy. destruct Hy as [Hy|[<-|[]]]; [now apply Hx|apply Hb; now left].
  - apply IH; [assumption|]. intros y Hy. apply Hb. now right.
Qed.
Lemma incr_ext l1 : forall l2, incr l1 -> incr l2 -> (forall x, In x l1 <-> In x l2) -> l1 = l2.
Proof.
  induction l1 as [|x r IH]; intros [|y t] H1 H2 HE.
  - reflexivity.
  - exfalso. apply (proj2 (HE y)). now left.
  - exfalso. apply (proj1 (HE x)). now left.
  - cbn in H1, H2. destruct H1 as [Hx Hr], H2 as [Hy Ht].
    assert (x = y) as ->.
    { destruct (proj1 (HE x) (or_introl eq_refl)) as [E|Hin]; [auto|].
      destruct (proj2 (HE y) (or_introl eq_refl)) as [E|Hin']; [auto|].
      specialize (Hx _ Hin'). specialize (Hy _ Hin). lia. }
    f_equal. apply IH; [assumption|assumption|]. intros z. split; intros Hz.
    + destruct (proj1 (HE z) (or_intror Hz)) as [E|Hin]; [|assumption]. specialize (Hx _ Hz). lia.
    + destruct (proj2 (HE z) (or_intror Hz)) as [E|Hin]; [|assumption]. specialize (Hy _ Hz). lia.
Qed.
Lemma list_eqb_refl_nat l : list_eqb Nat.eqb l l = true.
Proof. destruct (list_eqb_spec Nat.eqb Nat.eqb_spec l l); [reflexivity|congruence]. Qed.

(* (lives_In of SerialHugrP.v, without its spurious dependency on an inhabitant of the metadata type) *)
Lemma lives_In' {op md} (h : SerialHugr.hugr op md) i : In i (lives h) <-> is_live h i = true.
Proof.
  unfold lives. rewrite filter_In, in_seq. split; [tauto|]. intros H. split; [|assumption].
  unfold is_live in H. destruct (nth_error (h_nodes h) i) eqn:E; [|discriminate].
  assert (i < length (h_nodes h)) by (apply nth_error_Some; congruence). lia.
Qed.

Section HP.
  Context {Op Meta : Type}.
  Notation store := (Graph.hugr Op Meta).
  Notation ndata := (node_data Op Meta).
  Notation gget := (@Graph.get_node Op Meta).
  Notation aget := (dget Nat.eqb).

  (* ---------------------------------------------------------------- the view *)
  Lemma view_get (h : store) i : SerialHugr.get_node (view h) i = option_map vnode (gget h i).
  Proof.
    unfold SerialHugr.get_node, Graph.get_node, view. cbn [h_nodes]. rewrite nth_error_map.
    destruct (nth_error (nodes h) i) as [[d|]|]; reflexivity.
  Qed.
  Lemma view_live (h : store) i : is_live (view h) i = true <-> gget h i <> None.
  Proof.
    rewrite (is_live_get Op Meta). rewrite view_get. destruct (gget h i) as [d|]; cbn; split.
    - congruence.
    - eauto.
    - intros (n & E). discriminate.
    - congruence.
  Qed.
  Lemma view_live_b (h : store) i : is_live (view h) i = s_live h i.
  Proof.
    unfold s_live. destruct (is_live (view h) i) eqn:E.
    - apply view_live in E. destruct (gget h i); congruence.
    - destruct (gget h i) eqn:E'; [|reflexivity]. assert (is_live (view h) i = true) by (apply view_live; congruence). congruence.
  Qed.

  (* ---------------------------------------------------------------- hierarchy consistent with index order *)
  Definition Ord (h : store) : Prop :=
    (forall n d p, gget h n = Some d -> nd_parent d = Some p -> p < n) /\
    (forall n d, gget h n = Some d -> incr (nd_children d)).

  Theorem ord_index_ordered (h : store) : Inv h -> Ord h -> index_ordered_b (view h) = true.
  Proof.
    intros (_ & _ & _ & (T1 & T2 & T3 & T4)) (O1 & O2).
    destruct T1 as (rd & Er & Pr).
    unfold index_ordered_b. cbv zeta. apply andb_true_intro. split.
    - cbn [h_root view]. apply view_live. congruence.
    - apply forallb_forall. intros i Hi. apply lives_In' in Hi. pose proof Hi as Hl. apply view_live in Hl.
      destruct (gget h i) as [d|] eqn:E; [|congruence]. clear Hl.
      unfold node_ordered. rewrite view_get, E. cbn [option_map vnode n_parent n_children h_root view].
      apply andb_true_intro. split.
      + destruct (nd_parent d) as [p|] eqn:P.
        * assert (Hne : i <> root h) by (intros ->; congruence).
          destruct (T2 i d E Hne) as (p' & pd & P' & Ep & _). assert (p' = p) by congruence. subst p'.
          apply andb_true_intro. split; [apply andb_true_intro; split|].
          -- apply view_live. congruence.
          -- apply Nat.ltb_lt. eapply O1; eassumption.
          -- destruct (Nat.eqb_spec i (root h)); [contradiction|reflexivity].
        * destruct (Nat.eqb_spec i (root h)) as [|Hne]; [reflexivity|].
          destruct (T2 i d E Hne) as (p' & pd & P' & _). congruence.
      + rewrite (children_in_spec Op Meta).
        replace (filter (is_child (view h) i) (lives (view h))) with (nd_children d); [apply list_eqb_refl_nat|].
        apply incr_ext; [eapply O2; eassumption|apply incr_filter, (lives_incr Op Meta)|].
        intros c. rewrite filter_In, lives_In'. unfold is_child, parent_of. rewrite view_get. split.
        * intros Hc. destruct (T3 i d c E Hc) as (dc & Ec & Pc). split; [apply view_live; congruence|].
          rewrite Ec. cbn. rewrite Pc. apply Nat.eqb_refl.
        * intros (Hlc & Hpc). apply view_live in Hlc. destruct (gget h c) as [dc|] eqn:Ec; [|congruence].
          cbn in Hpc. destruct (nd_parent dc) as [q|] eqn:Pc; [|discriminate]. apply Nat.eqb_eq in Hpc. subst q.
          assert (Hne : c <> root h) by (intros ->; congruence).
          destruct (T2 c dc Ec Hne) as (p' & pd & P' & Ep & Hin). assert (p' = i) by congruence. subst p'.
          assert (pd = d) by congruence. now subst pd.
  Qed.

  (* ---------------------------------------------------------------- one call of the store, inside its guard *)
  Lemma abs_live_b (h : store) n : a_live (abs h) n = s_live h n.
  Proof. unfold a_live, s_live. rewrite abs_get. destruct (gget h n); reflexivity. Qed.
  Lemma port_ok_abs (h : store) p : port_ok (abs h) p = pok h p.
  Proof. unfold port_ok, pok. now rewrite abs_live_b. Qed.

  (* the specification of the store (spec/GraphS.v) accepts the call: it returns normally, the store
     invariant is kept and the new state represents the specification's new state *)
  Lemma guard_next (h : store) b h' rt r : Inv h -> call_in_guard h (HB b) = true -> bstep h b = (h', rt, r) ->
    exists g', s_bstep (abs h) b rt = Next g' /\ r = Ok /\ Inv h' /\ Rep h' g'.
  Proof.
    intros HI HG Hb. pose proof (bstep_refines h (abs h) b h' rt r HI (Rep_abs h) Hb) as H.
    destruct (s_bstep (abs h) b rt) as [| |g'] eqn:Es; [exfalso|contradiction|exists g'; tauto]. clear H Hb.
    destruct b as [o p k m|o p m|s t|x y|s t|n]; cbn [s_bstep call_in_guard] in *.
    - change (dflt (abs h) p) with (dfl h p) in Es. rewrite abs_live_b, HG in Es.
      destruct rt; try discriminate. destruct (a_live (abs h) n); discriminate.
    - change (dflt (abs h) p) with (dfl h p) in Es. rewrite abs_live_b, HG in Es.
      destruct rt; try discriminate. destruct (a_live (abs h) n); discriminate.
    - rewrite !port_ok_abs, HG in Es. discriminate.
    - rewrite !abs_live_b, HG in Es. discriminate.
    - discriminate.
    - rewrite abs_get in Es. destruct (gget h n) as [d|]; [|discriminate]. cbn [option_map anode_of a_children] in Es.
      apply andb_prop in HG. destruct HG as [Hc Hr]. destruct (nd_children d); [|discriminate].
      change (a_root (abs h)) with (root h) in Es. destruct (Nat.eqb n (root h)); discriminate.
  Qed.

  (* what a call other than add_node does to a node that is live afterwards: it was live before, with the
     same operation, parent and metadata, and its children list is a sublist of the old one *)
  Lemma s_bstep_back2 (g : agraph Op Meta) c rt g' x a' : NoDup (map fst (a_nodes g)) ->
    s_bstep g c rt = Next g' -> adds_node (HB c) = false -> aget (a_nodes g') x = Some a' ->
    exists a, aget (a_nodes g) x = Some a /\ a_op a' = a_op a /\ a_parent a' = a_parent a /\ a_meta a' = a_meta a /\
              exists f, a_children a' = filter f (a_children a).
  Proof.
    intros HND Hs Hna Ha.
    assert (Hsame : forall a, aget (a_nodes g) x = Some a -> a_op a' = a_op a -> a_parent a' = a_parent a ->
              a_meta a' = a_meta a -> a_children a' = a_children a ->
              exists a, aget (a_nodes g) x = Some a /\ a_op a' = a_op a /\ a_parent a' = a_parent a /\ a_meta a' = a_meta a /\
                        exists f, a_children a' = filter f (a_children a)).
    { intros a E1 E2 E3 E4 E5. exists a. repeat split; try assumption. exists (fun _ => true).
      rewrite E5. symmetry. apply filter_id. reflexivity. }
    assert (Hlink : forall s t, aget (a_nodes (s_add_link g s t)) x = Some a' ->
              exists a, aget (a_nodes g) x = Some a /\ a_op a' = a_op a /\ a_parent a' = a_parent a /\ a_meta a' = a_meta a /\
                        exists f, a_children a' = filter f (a_children a)).
    { intros s t H. rewrite s_add_link_get in H. destruct (aget (a_nodes g) x) as [a|] eqn:E; [|discriminate].
      cbn in H. injection H as <-. apply (Hsame a); reflexivity. }
    destruct c as [o p k m|o p m|s t|y z|s t|n]; cbn [s_bstep adds_node] in *; try discriminate.
    - destruct (port_ok g s && port_ok g t); [|discriminate]. injection Hs as <-. eauto.
    - destruct (a_live g y && a_live g z); [|discriminate]. injection Hs as <-.
      destruct (s_has_link g (y, (-1)%Z) (z, (-1)%Z)); [apply (Hsame a'); auto|eauto].
    - injection Hs as <-. unfold s_delete_link in Ha. destruct (remove1 Graph.link_eqb (s, t) (a_links g)); cbn in Ha;
        apply (Hsame a'); auto.
    - destruct (aget (a_nodes g) n) as [an|] eqn:En; [|discriminate]. destruct (a_children an); [|discriminate].
      destruct (Nat.eqb n (a_root g)); [discriminate|]. injection Hs as <-. unfold s_delete_node in Ha. cbn [a_nodes] in Ha.
      destruct (a_parent an) as [pp|].
      + rewrite aget_ddel in Ha by now apply a_upd_nodup. destruct (Nat.eqb x n); [discriminate|].
        rewrite a_upd_get in Ha. destruct (Nat.eqb_spec x pp) as [->|]; [|apply (Hsame a'); auto].
        destruct (aget (a_nodes g) pp) as [pa|] eqn:Ep; [|discriminate]. cbn in Ha. injection Ha as <-.
        exists pa. repeat split. eexists. reflexivity.
      + rewrite aget_ddel in Ha by assumption. destruct (Nat.eqb x n); [discriminate|]. apply (Hsame a'); auto.
  Qed.

  Lemma bstep_back (h : store) b h' rt r g' x d' : Inv h -> bstep h b = (h', rt, r) ->
    s_bstep (abs h) b rt = Next g' -> adds_node (HB b) = false -> gget h' x = Some d' ->
    exists d, gget h x = Some d /\ nd_op d' = nd_op d /\ nd_parent d' = nd_parent d /\ nd_meta d' = nd_meta d /\
              exists f, nd_children d' = filter f (nd_children d).
  Proof.
    intros HI Hb Hs Hna E. pose proof (bstep_refines h (abs h) b h' rt r HI (Rep_abs h) Hb) as H. rewrite Hs in H.
    destruct H as (_ & _ & HR'). pose proof (get_refines h' g' x HR') as Hx. rewrite E in Hx. cbn in Hx. symmetry in Hx.
    destruct (s_bstep_back2 (abs h) b rt g' x _ ltac:(apply Rep_abs) Hs Hna Hx) as (a & Ea & F1 & F2 & F3 & f & F4).
    rewrite abs_get in Ea. destruct (gget h x) as [d|]; [|discriminate]. cbn in Ea. injection Ea as <-.
    exists d. split; [reflexivity|]. cbn in F1, F2, F3, F4. repeat split; try assumption. exists f. assumption.
  Qed.

  (* with no freed index pending, add_node allocates the index after the last one *)
  Lemma add_fresh_index (h : store) o p k m : free h = [] -> snd (fst (add_node_raw h o p k m)) = length (nodes h).
  Proof.
    intros Hf. unfold add_node_raw. rewrite Hf.
    destruct p as [pp|]; [destruct (Graph.get_node _ pp)|]; destruct k; try destruct (Graph.get_node _ _); reflexivity.
  Qed.

  Lemma add_node_Ord (h : store) o pp k m h' n : Inv h -> Ord h -> gget h pp <> None -> free h = [] ->
    add_node_raw h o (Some pp) k m = (h', n, Ok) -> Ord h'.
  Proof.
    intros (_ & HF & _ & (_ & _ & T3 & _)) (O1 & O2) Hpp Hfree Hadd.
    destruct (gget h pp) as [pd|] eqn:Ep; [|congruence].
    destruct (add_node_effect h o pp k m pd HF Ep) as (h1 & n1 & Hadd1 & Hdead & Hget & _).
    rewrite Hadd in Hadd1. injection Hadd1 as <- <-.
    pose proof (add_fresh_index h o (Some pp) k m Hfree) as Hn. rewrite Hadd in Hn. cbn in Hn.
    assert (Hppn : pp < n) by (rewrite Hn; eapply get_node_lt; eassumption).
    split.
    - intros x d q. rewrite Hget. destruct (Nat.eqb_spec x n) as [->|Hxn].
      + intros [= <-]. cbn. intros [= <-]. exact Hppn.
      + destruct (Nat.eqb_spec x pp) as [->|]; [intros [= <-]; cbn; apply O1; assumption|apply O1].
    - intros x d. rewrite Hget. destruct (Nat.eqb_spec x n) as [->|Hxn].
      + intros [= <-]. cbn. exact I.
      + destruct (Nat.eqb_spec x pp) as [->|]; [|apply O2]. intros [= <-]. cbn. apply incr_snoc; [eapply O2; eassumption|].
        intros c Hc. destruct (T3 pp pd c Ep Hc) as (dc & Ec & _). rewrite Hn. eapply get_node_lt; eassumption.
  Qed.

  Lemma bstep_Ord (h : store) b h' rt r : Inv h -> Ord h -> call_ok h (HB b) = true -> bstep h b = (h', rt, r) ->
    r = Ok /\ Inv h' /\ Ord h'.
  Proof.
    intros HI HO HC Hb. unfold call_ok in HC. apply andb_prop in HC. destruct HC as [HG HFr].
    destruct (guard_next h b h' rt r HI HG Hb) as (g' & Hs & Hr & HI' & HR'). split; [exact Hr|]. split; [exact HI'|].
    destruct (adds_node (HB b)) eqn:Hadd.
    - unfold call_fresh in HFr. rewrite Hadd in HFr. cbn in HFr. destruct (free h) eqn:Hf; [|discriminate]. subst r.
      destruct b as [o p k m|o p m|s t|x y|s t|n]; try discriminate; cbn [bstep call_in_guard] in *.
      + destruct (add_node h o p k m) as [[h1 n1] r1] eqn:E. injection Hb as <- <- ->. unfold add_node in E.
        eapply (add_node_Ord h o (dfl h p) _ m h1 n1 HI HO); [|exact Hf|exact E].
        unfold s_live in HG. destruct (gget h (dfl h p)); congruence.
      + destruct (add_node h o p None m) as [[h1 n1] r1] eqn:E. injection Hb as <- <- ->. unfold add_node in E.
        eapply (add_node_Ord h o (dfl h p) _ m h1 n1 HI HO); [|exact Hf|exact E].
        unfold s_live in HG. destruct (gget h (dfl h p)); congruence.
    - destruct HO as (O1 & O2). split.
      + intros x d' q E P. destruct (bstep_back h b h' rt r g' x d' HI Hb Hs Hadd E) as (d & E0 & _ & F2 & _).
        eapply O1; [exact E0|congruence].
      + intros x d' E. destruct (bstep_back h b h' rt r g' x d' HI Hb Hs Hadd E) as (d & E0 & _ & _ & _ & f & F4).
        rewrite F4. apply incr_filter. eapply O2; eassumption.
  Qed.

  (* ---------------------------------------------------------------- metadata assignment *)
  Lemma set_meta_effect (h : store) n m d : gget h n = Some d ->
    set_meta h n m = (set_node h n (set_meta_data d m), Ok) /\
    forall x, gget (set_node h n (set_meta_data d m)) x = if Nat.eqb x n then Some (set_meta_data d m) else gget h x.
  Proof.
    intros E. unfold set_meta. rewrite E. split; [reflexivity|]. intros x. apply get_set_node. eapply get_node_lt; eassumption.
  Qed.
  Lemma set_meta_Inv (h : store) n m d : Inv h -> gget h n = Some d -> Inv (set_node h n (set_meta_data d m)).
  Proof.
    intros (HL & HF & HC & HT) E. destruct (set_meta_effect h n m d E) as [_ Hget].
    split; [exact HL|]. split; [|split].
    - apply (FreeOK_ext h); [|reflexivity|apply GraphInvP.length_set_nth|assumption].
      intros x. rewrite Hget. destruct (Nat.eqb_spec x n) as [->|]; [rewrite E; split; discriminate|tauto].
    - apply (Cover_mono h); [|intros l Hl; exact Hl|assumption]. intros x dx Ex. rewrite Hget.
      destruct (Nat.eqb_spec x n) as [->|]; [|exists dx; split; [assumption|lia]].
      assert (dx = d) by congruence. subst dx. eexists. split; [reflexivity|]. cbn. lia.
    - apply (Tree_ext h); [|reflexivity|assumption]. intros x. rewrite Hget.
      destruct (Nat.eqb_spec x n) as [->|]; [rewrite E; reflexivity|reflexivity].
  Qed.

  Lemma hstep_inv (h : store) c : Inv h -> Ord h -> call_ok h c = true ->
    snd (hstep h c) = Ok /\ Inv (fst (hstep h c)) /\ Ord (fst (hstep h c)).
  Proof.
    intros HI HO HC. destruct c as [b|n m]; cbn [hstep].
    - destruct (bstep h b) as [[h' rt] r] eqn:E. cbn [fst snd]. eapply bstep_Ord; eassumption.
    - unfold call_ok in HC. apply andb_prop in HC. destruct HC as [HG _]. cbn [call_in_guard] in HG. unfold s_live in HG.
      destruct (gget h n) as [d|] eqn:E; [|discriminate].
      destruct (set_meta_effect h n m d E) as [-> Hget]. cbn [fst snd]. split; [reflexivity|]. split; [now apply set_meta_Inv|].
      destruct HO as (O1 & O2). split.
      + intros x dx q. rewrite Hget. destruct (Nat.eqb_spec x n) as [->|]; [intros [= <-]; cbn; now apply O1|apply O1].
      + intros x dx. rewrite Hget. destruct (Nat.eqb_spec x n) as [->|]; [intros [= <-]; cbn; eapply O2; eassumption|apply O2].
  Qed.

  (* ---------------------------------------------------------------- histories *)
  Theorem hrun_inv cs : forall h : store, Inv h -> Ord h -> hist_ok h cs = true ->
    Inv (hrun h cs) /\ Ord (hrun h cs) /\ all_return h cs = true.
  Proof.
    induction cs as [|c r IH]; intros h HI HO HH; cbn [hrun fold_left all_return]; [auto|].
    unfold hist_ok in HH. cbn [every_call] in HH. apply andb_prop in HH. destruct HH as [Hc Hr].
    destruct (hstep_inv h c HI HO Hc) as (Hret & HI' & HO'). rewrite Hret. cbn [res_eqb andb].
    exact (IH _ HI' HO' Hr).
  Qed.
  Lemma init_Ord o m : Ord (@init Op Meta o m).
  Proof.
    split.
    - intros n d p. unfold init, add_node_raw. cbn. destruct n as [|[|n]]; cbn; try discriminate. intros [= <-]. discriminate.
    - intros n d. unfold init, add_node_raw. cbn. destruct n as [|[|n]]; cbn; try discriminate. intros [= <-]. exact I.
  Qed.
  (* index_ordered is an invariant of histories that never reuse an index: Hugr(root_op), then any sequence
     of add_node / add_const / add_link / add_order_link / delete_link / delete_node / metadata assignment
     inside the store's guard with no freed index pending at any add_node *)
  Theorem history_index_ordered o m cs : hist_ok (@init Op Meta o m) cs = true ->
    all_return (init o m) cs = true /\ Inv (hrun (init o m) cs) /\ index_ordered_b (view (hrun (init o m) cs)) = true.
  Proof.
    intros HH. destruct (init_inv o m) as [HI _].
    destruct (hrun_inv cs (init o m) HI (init_Ord o m) HH) as (HI' & HO' & Hret).
    split; [exact Hret|]. split; [exact HI'|]. now apply ord_index_ordered.
  Qed.
End HP.
