(* Proofs for C02 (second pass): the guard of the round-trip theorems is an invariant of mutation histories.
   The store model is model/Graph.v (C04's: node table, free stack, BiMap of sub-ports); its invariant
   [Inv] and the refinement of every mutator to the sequential specification are proofs/GraphInvP.v.
   Here:  [Ord] (every parent has a smaller index, every children list is strictly increasing) is kept
   by every call inside the store's guard that does not reuse an index;  [Inv] + [Ord] give
   [index_ordered_b] of the view;  [PE] (links attach only to ports the operations have) is kept when
   every add_link / add_order_link call names ports the operations have. *)
From Coq Require Import List Bool Arith ZArith Lia Permutation.
Import ListNotations.
From HV Require Import lib.PyDict lib.Harness model.BiMapM proofs.BiMapP model.Graph spec.GraphS
     proofs.GraphP proofs.GraphInvP proofs.InsertP.
From HV Require Import model.SerialHugr spec.SerialHugrS proofs.SerialHugrP model.HugrHist spec.HugrHistS.

(* ------------------------------------------------------------------ strictly increasing lists *)
Lemma incr_filter f l : incr l -> incr (filter f l).
Proof.
  induction l as [|x r IH]; cbn; [auto|]. intros [Hx Hr]. destruct (f x); [|auto]. cbn. split; [|auto].
  intros y Hy. apply filter_In in Hy. apply Hx. tauto.
Qed.
Lemma incr_snoc l n : incr l -> (forall x, In x l -> x < n) -> incr (l ++ [n]).
Proof.
  induction l as [|x r IH]; cbn; [intros _ _; split; [intros y []|exact I]|].
  intros [Hx Hr] Hb. split.
  - intros y Hy. apply in_app_or in Hy. destruct Hy as [Hy|[<-|[]]]; [now apply Hx|apply Hb; now left].
  - apply IH; [assumption|]. intros y Hy. apply Hb. now right.
Qed.
Lemma incr_ext l1 : forall l2, incr l1 -> incr l2 -> (forall x, In x l1 <-> In x l2) -> l1 = l2.
Proof.
  induction l1 as [|x r IH]; intros [|y t] H1 H2 HE.
  - reflexivity.
  - exfalso. apply (proj2 (HE y)). now left.
  - exfalso. apply (proj1 (HE x)). now left.
  - cbn in H1, H2. destruct H1 as [Hx Hr], H2 as [Hy Ht].
    assert (x = y) as ->.
    { destruct (proj1 (HE x) (or_introl eq_refl)) as [E|Hin]; [auto|].
      destruct (proj2 (HE y) (or_introl eq_refl)) as [E|Hin']; [auto|].
      specialize (Hx _ Hin'). specialize (Hy _ Hin). lia. }
    f_equal. apply IH; [assumption|assumption|]. intros z. split; intros Hz.
    + destruct (proj1 (HE z) (or_intror Hz)) as [E|Hin]; [|assumption]. specialize (Hx _ Hz). lia.
    + destruct (proj2 (HE z) (or_intror Hz)) as [E|Hin]; [|assumption]. specialize (Hy _ Hz). lia.
Qed.
Lemma list_eqb_refl_nat l : list_eqb Nat.eqb l l = true.
Proof. destruct (list_eqb_spec Nat.eqb Nat.eqb_spec l l); [reflexivity|congruence]. Qed.

(* ------------------------------------------------------------------ insert_hugr keeps the index order *)
Lemma incr_map (f : nat -> nat) l : incr l -> (forall x y, In x l -> In y l -> x < y -> f x < f y) -> incr (map f l).
Proof.
  induction l as [|x r IH]; cbn; [auto|]. intros [Hx Hr] Hf. split.
  - intros y Hy. apply in_map_iff in Hy. destruct Hy as (z & <- & Hz). apply Hf; [now left|now right|now apply Hx].
  - apply IH; [assumption|]. intros a b Ha Hb. apply Hf; now right.
Qed.
Lemma live_from_incr {Op Meta} (l : list (option (node_data Op Meta))) : forall i, incr (Graph.live_from l i).
Proof.
  induction l as [|[d|] r IH]; intros i; cbn [Graph.live_from]; [exact I| |apply IH].
  cbn. split; [|apply IH]. intros y Hy. apply live_from_ge in Hy. lia.
Qed.

(* (lives_In of SerialHugrP.v, without its spurious dependency on an inhabitant of the metadata type) *)
Lemma lives_In' {op md} (h : SerialHugr.hugr op md) i : In i (lives h) <-> is_live h i = true.
Proof.
  unfold lives. rewrite filter_In, in_seq. split; [tauto|]. intros H. split; [|assumption].
  unfold is_live in H. destruct (nth_error (h_nodes h) i) eqn:E; [|discriminate].
  assert (i < length (h_nodes h)) by (apply nth_error_Some; congruence). lia.
Qed.

Section HP.
  Context {Op Meta : Type}.
  Notation store := (Graph.hugr Op Meta).
  Notation ndata := (node_data Op Meta).
  Notation gget := (@Graph.get_node Op Meta).
  Notation aget := (dget Nat.eqb).

  (* ---------------------------------------------------------------- the view *)
  Lemma view_get (h : store) i : SerialHugr.get_node (view h) i = option_map vnode (gget h i).
  Proof.
    unfold SerialHugr.get_node, Graph.get_node, view. cbn [h_nodes]. rewrite nth_error_map.
    destruct (nth_error (nodes h) i) as [[d|]|]; reflexivity.
  Qed.
  Lemma view_live (h : store) i : is_live (view h) i = true <-> gget h i <> None.
  Proof.
    rewrite (is_live_get Op Meta). rewrite view_get. destruct (gget h i) as [d|]; cbn; split.
    - congruence.
    - eauto.
    - intros (n & E). discriminate.
    - congruence.
  Qed.
  Lemma view_live_b (h : store) i : is_live (view h) i = s_live h i.
  Proof.
    unfold s_live. destruct (is_live (view h) i) eqn:E.
    - apply view_live in E. destruct (gget h i); congruence.
    - destruct (gget h i) eqn:E'; [|reflexivity]. assert (is_live (view h) i = true) by (apply view_live; congruence). congruence.
  Qed.

  (* ---------------------------------------------------------------- hierarchy consistent with index order *)
  Definition Ord (h : store) : Prop :=
    (forall n d p, gget h n = Some d -> nd_parent d = Some p -> p < n) /\
    (forall n d, gget h n = Some d -> incr (nd_children d)).

  Theorem ord_index_ordered (h : store) : Inv h -> Ord h -> index_ordered_b (view h) = true.
  Proof.
    intros (_ & _ & _ & (T1 & T2 & T3 & T4)) (O1 & O2).
    destruct T1 as (rd & Er & Pr).
    unfold index_ordered_b. cbv zeta. apply andb_true_intro. split.
    - cbn [h_root view]. apply view_live. congruence.
    - apply forallb_forall. intros i Hi. apply lives_In' in Hi. pose proof Hi as Hl. apply view_live in Hl.
      destruct (gget h i) as [d|] eqn:E; [|congruence]. clear Hl.
      unfold node_ordered. rewrite view_get, E. cbn [option_map vnode n_parent n_children h_root view].
      apply andb_true_intro. split.
      + destruct (nd_parent d) as [p|] eqn:P.
        * assert (Hne : i <> root h) by (intros ->; congruence).
          destruct (T2 i d E Hne) as (p' & pd & P' & Ep & _). assert (p' = p) by congruence. subst p'.
          apply andb_true_intro. split; [apply andb_true_intro; split|].
          -- apply view_live. congruence.
          -- apply Nat.ltb_lt. eapply O1; eassumption.
          -- destruct (Nat.eqb_spec i (root h)); [contradiction|reflexivity].
        * destruct (Nat.eqb_spec i (root h)) as [|Hne]; [reflexivity|].
          destruct (T2 i d E Hne) as (p' & pd & P' & _). congruence.
      + rewrite (children_in_spec Op Meta).
        replace (filter (is_child (view h) i) (lives (view h))) with (nd_children d); [apply list_eqb_refl_nat|].
        apply incr_ext; [eapply O2; eassumption|apply incr_filter, (lives_incr Op Meta)|].
        intros c. rewrite filter_In, lives_In'. unfold is_child, parent_of. rewrite view_get. split.
        * intros Hc. destruct (T3 i d c E Hc) as (dc & Ec & Pc). split; [apply view_live; congruence|].
          rewrite Ec. cbn. rewrite Pc. apply Nat.eqb_refl.
        * intros (Hlc & Hpc). apply view_live in Hlc. destruct (gget h c) as [dc|] eqn:Ec; [|congruence].
          cbn in Hpc. destruct (nd_parent dc) as [q|] eqn:Pc; [|discriminate]. apply Nat.eqb_eq in Hpc. subst q.
          assert (Hne : c <> root h) by (intros ->; congruence).
          destruct (T2 c dc Ec Hne) as (p' & pd & P' & Ep & Hin). assert (p' = i) by congruence. subst p'.
          assert (pd = d) by congruence. now subst pd.
  Qed.

  (* ---------------------------------------------------------------- one call of the store, inside its guard *)
  Lemma abs_live_b (h : store) n : a_live (abs h) n = s_live h n.
  Proof. unfold a_live, s_live. rewrite abs_get. destruct (gget h n); reflexivity. Qed.
  Lemma port_ok_abs (h : store) p : port_ok (abs h) p = pok h p.
  Proof. unfold port_ok, pok. now rewrite abs_live_b. Qed.

  (* the specification of the store (spec/GraphS.v) accepts the call: it returns normally, the store
     invariant is kept and the new state represents the specification's new state *)
  Lemma guard_next (h : store) b h' rt r : Inv h -> basic_in_guard h b = true -> bstep h b = (h', rt, r) ->
    exists g', s_bstep (abs h) b rt = Next g' /\ r = Ok /\ Inv h' /\ Rep h' g'.
  Proof.
    intros HI HG Hb. pose proof (bstep_refines h (abs h) b h' rt r HI (Rep_abs h) Hb) as H.
    destruct (s_bstep (abs h) b rt) as [| |g'] eqn:Es; [exfalso|contradiction|exists g'; tauto]. clear H Hb.
    destruct b as [o p k m|o p m|s t|x y|s t|n]; cbn [s_bstep basic_in_guard] in *.
    - change (dflt (abs h) p) with (dfl h p) in Es. rewrite abs_live_b, HG in Es.
      destruct rt; try discriminate. destruct (a_live (abs h) n); discriminate.
    - change (dflt (abs h) p) with (dfl h p) in Es. rewrite abs_live_b, HG in Es.
      destruct rt; try discriminate. destruct (a_live (abs h) n); discriminate.
    - rewrite !port_ok_abs, HG in Es. discriminate.
    - rewrite !abs_live_b, HG in Es. discriminate.
    - discriminate.
    - rewrite abs_get in Es. destruct (gget h n) as [d|]; [|discriminate]. cbn [option_map anode_of a_children] in Es.
      apply andb_prop in HG. destruct HG as [Hc Hr]. destruct (nd_children d); [|discriminate].
      change (a_root (abs h)) with (root h) in Es. destruct (Nat.eqb n (root h)); discriminate.
  Qed.

  (* what a call other than add_node does to a node that is live afterwards: it was live before, with the
     same operation, parent and metadata, and its children list is a sublist of the old one *)
  Lemma s_bstep_back2 (g : agraph Op Meta) c rt g' x a' : NoDup (map fst (a_nodes g)) ->
    s_bstep g c rt = Next g' -> basic_adds c = false -> aget (a_nodes g') x = Some a' ->
    exists a, aget (a_nodes g) x = Some a /\ a_op a' = a_op a /\ a_parent a' = a_parent a /\ a_meta a' = a_meta a /\
              exists f, a_children a' = filter f (a_children a).
  Proof.
    intros HND Hs Hna Ha.
    assert (Hsame : forall a, aget (a_nodes g) x = Some a -> a_op a' = a_op a -> a_parent a' = a_parent a ->
              a_meta a' = a_meta a -> a_children a' = a_children a ->
              exists a, aget (a_nodes g) x = Some a /\ a_op a' = a_op a /\ a_parent a' = a_parent a /\ a_meta a' = a_meta a /\
                        exists f, a_children a' = filter f (a_children a)).
    { intros a E1 E2 E3 E4 E5. exists a. repeat split; try assumption. exists (fun _ => true).
      rewrite E5. symmetry. apply filter_id. reflexivity. }
    assert (Hlink : forall s t, aget (a_nodes (s_add_link g s t)) x = Some a' ->
              exists a, aget (a_nodes g) x = Some a /\ a_op a' = a_op a /\ a_parent a' = a_parent a /\ a_meta a' = a_meta a /\
                        exists f, a_children a' = filter f (a_children a)).
    { intros s t H. rewrite s_add_link_get in H. destruct (aget (a_nodes g) x) as [a|] eqn:E; [|discriminate].
      cbn in H. injection H as <-. apply (Hsame a); reflexivity. }
    destruct c as [o p k m|o p m|s t|y z|s t|n]; cbn [s_bstep basic_adds] in *; try discriminate.
    - destruct (port_ok g s && port_ok g t); [|discriminate]. injection Hs as <-. eauto.
    - destruct (a_live g y && a_live g z); [|discriminate]. injection Hs as <-.
      destruct (s_has_link g (y, (-1)%Z) (z, (-1)%Z)); [apply (Hsame a'); auto|eauto].
    - injection Hs as <-. unfold s_delete_link in Ha. destruct (remove1 Graph.link_eqb (s, t) (a_links g)); cbn in Ha;
        apply (Hsame a'); auto.
    - destruct (aget (a_nodes g) n) as [an|] eqn:En; [|discriminate]. destruct (a_children an); [|discriminate].
      destruct (Nat.eqb n (a_root g)); [discriminate|]. injection Hs as <-. unfold s_delete_node in Ha. cbn [a_nodes] in Ha.
      destruct (a_parent an) as [pp|].
      + rewrite aget_ddel in Ha by now apply a_upd_nodup. destruct (Nat.eqb x n); [discriminate|].
        rewrite a_upd_get in Ha. destruct (Nat.eqb_spec x pp) as [->|]; [|apply (Hsame a'); auto].
        destruct (aget (a_nodes g) pp) as [pa|] eqn:Ep; [|discriminate]. cbn in Ha. injection Ha as <-.
        exists pa. repeat split. eexists. reflexivity.
      + rewrite aget_ddel in Ha by assumption. destruct (Nat.eqb x n); [discriminate|]. apply (Hsame a'); auto.
  Qed.

  Lemma bstep_back (h : store) b h' rt r g' x d' : Inv h -> bstep h b = (h', rt, r) ->
    s_bstep (abs h) b rt = Next g' -> basic_adds b = false -> gget h' x = Some d' ->
    exists d, gget h x = Some d /\ nd_op d' = nd_op d /\ nd_parent d' = nd_parent d /\ nd_meta d' = nd_meta d /\
              exists f, nd_children d' = filter f (nd_children d).
  Proof.
    intros HI Hb Hs Hna E. pose proof (bstep_refines h (abs h) b h' rt r HI (Rep_abs h) Hb) as H. rewrite Hs in H.
    destruct H as (_ & _ & HR'). pose proof (get_refines h' g' x HR') as Hx. rewrite E in Hx. cbn in Hx. symmetry in Hx.
    destruct (s_bstep_back2 (abs h) b rt g' x _ ltac:(apply Rep_abs) Hs Hna Hx) as (a & Ea & F1 & F2 & F3 & f & F4).
    rewrite abs_get in Ea. destruct (gget h x) as [d|]; [|discriminate]. cbn in Ea. injection Ea as <-.
    exists d. split; [reflexivity|]. cbn in F1, F2, F3, F4. repeat split; try assumption. exists f. assumption.
  Qed.

  (* with no freed index pending, add_node allocates the index after the last one *)
  Lemma add_fresh_index (h : store) o p k m : free h = [] -> snd (fst (add_node_raw h o p k m)) = length (nodes h).
  Proof.
    intros Hf. unfold add_node_raw. rewrite Hf.
    destruct p as [pp|]; [destruct (Graph.get_node _ pp)|]; destruct k; try destruct (Graph.get_node _ _); reflexivity.
  Qed.

  Lemma add_node_Ord (h : store) o pp k m h' n : Inv h -> Ord h -> gget h pp <> None -> free h = [] ->
    add_node_raw h o (Some pp) k m = (h', n, Ok) -> Ord h'.
  Proof.
    intros (_ & HF & _ & (_ & _ & T3 & _)) (O1 & O2) Hpp Hfree Hadd.
    destruct (gget h pp) as [pd|] eqn:Ep; [|congruence].
    destruct (add_node_effect h o pp k m pd HF Ep) as (h1 & n1 & Hadd1 & Hdead & Hget & _).
    rewrite Hadd in Hadd1. injection Hadd1 as <- <-.
    pose proof (add_fresh_index h o (Some pp) k m Hfree) as Hn. rewrite Hadd in Hn. cbn in Hn.
    assert (Hppn : pp < n) by (rewrite Hn; eapply get_node_lt; eassumption).
    split.
    - intros x d q. rewrite Hget. destruct (Nat.eqb_spec x n) as [->|Hxn].
      + intros [= <-]. cbn. intros [= <-]. exact Hppn.
      + destruct (Nat.eqb_spec x pp) as [->|]; [intros [= <-]; cbn; apply O1; assumption|apply O1].
    - intros x d. rewrite Hget. destruct (Nat.eqb_spec x n) as [->|Hxn].
      + intros [= <-]. cbn. exact I.
      + destruct (Nat.eqb_spec x pp) as [->|]; [|apply O2]. intros [= <-]. cbn. apply incr_snoc; [eapply O2; eassumption|].
        intros c Hc. destruct (T3 pp pd c Ep Hc) as (dc & Ec & _). rewrite Hn. eapply get_node_lt; eassumption.
  Qed.

  Lemma bstep_Ord (h : store) b h' rt r : Inv h -> Ord h -> basic_ok h b = true -> bstep h b = (h', rt, r) ->
    r = Ok /\ Inv h' /\ Ord h'.
  Proof.
    intros HI HO HC Hb. unfold basic_ok in HC. apply andb_prop in HC. destruct HC as [HG HFr].
    destruct (guard_next h b h' rt r HI HG Hb) as (g' & Hs & Hr & HI' & HR'). split; [exact Hr|]. split; [exact HI'|].
    destruct (basic_adds b) eqn:Hadd.
    - cbn in HFr. destruct (free h) eqn:Hf; [|discriminate]. subst r.
      destruct b as [o p k m|o p m|s t|x y|s t|n]; try discriminate; cbn [bstep basic_in_guard] in *.
      + destruct (add_node h o p k m) as [[h1 n1] r1] eqn:E. injection Hb as <- <- ->. unfold add_node in E.
        eapply (add_node_Ord h o (dfl h p) _ m h1 n1 HI HO); [|exact Hf|exact E].
        unfold s_live in HG. destruct (gget h (dfl h p)); congruence.
      + destruct (add_node h o p None m) as [[h1 n1] r1] eqn:E. injection Hb as <- <- ->. unfold add_node in E.
        eapply (add_node_Ord h o (dfl h p) _ m h1 n1 HI HO); [|exact Hf|exact E].
        unfold s_live in HG. destruct (gget h (dfl h p)); congruence.
    - destruct HO as (O1 & O2). split.
      + intros x d' q E P. destruct (bstep_back h b h' rt r g' x d' HI Hb Hs Hadd E) as (d & E0 & _ & F2 & _).
        eapply O1; [exact E0|congruence].
      + intros x d' E. destruct (bstep_back h b h' rt r g' x d' HI Hb Hs Hadd E) as (d & E0 & _ & _ & _ & f & F4).
        rewrite F4. apply incr_filter. eapply O2; eassumption.
  Qed.
  (* the history of an inserted HUGR *)
  Lemma brun_Ord bs : forall h : store, Inv h -> Ord h -> every_basic basic_ok h bs = true ->
    Inv (brun h bs) /\ Ord (brun h bs).
  Proof.
    induction bs as [|b r IH]; intros h HI HO HH; cbn [brun fold_left]; [auto|].
    cbn [every_basic] in HH. apply andb_prop in HH. destruct HH as [Hb Hr].
    destruct (bstep h b) as [[h' rt] res] eqn:E. destruct (bstep_Ord h b h' rt res HI HO Hb E) as (_ & HI' & HO').
    cbn [fst] in *. exact (IH h' HI' HO' Hr).
  Qed.

  (* ---------------------------------------------------------------- insert_hugr *)
  Notation mget := (@dget nat nid Nat.eqb).
  Lemma add_node_raw_free_nil (h : store) o p k m : free h = [] -> free (fst (fst (add_node_raw h o p k m))) = [].
  Proof.
    intros Hf. unfold add_node_raw. rewrite Hf.
    destruct p as [pp|]; [destruct (Graph.get_node _ pp)|]; destruct k; try destruct (Graph.get_node _ _); cbn; exact Hf.
  Qed.
  Lemma add_link_free (h : store) s t : free (fst (add_link h s t)) = free h.
  Proof.
    unfold add_link. destruct (lm_add (links h) s t); [|reflexivity]. cbn.
    destruct (Graph.get_node _ (fst s)); [|reflexivity]. destruct (Graph.get_node _ (fst t)); reflexivity.
  Qed.
  Lemma add_node_raw_length (h : store) o p k m : free h = [] ->
    length (nodes (fst (fst (add_node_raw h o p k m)))) = S (length (nodes h)).
  Proof.
    intros Hf. unfold add_node_raw. rewrite Hf.
    destruct p as [pp|]; [destruct (Graph.get_node _ pp)|]; destruct k; try destruct (Graph.get_node _ _);
      cbn [fst nodes set_node with_nodes]; rewrite ?GraphInvP.length_set_nth, ?app_length; cbn; lia.
  Qed.

  Lemma insert_chain_one (Ak B : store) mk parent (n : nid) d : gget B n = Some d ->
    insert_chain [] Ak B mk parent [n] =
    match (match nd_parent d with
           | Some bp => match mget mk bp with Some x => inl (Some x) | None => inr EKey end
           | None => inl parent end) with
    | inr e => (Ak, mk, e)
    | inl pp => match add_node Ak (nd_op d) pp (Some (nd_outs d)) (nd_meta d) with
                | (A1, n', Ok) => (A1, dset Nat.eqb mk n n', Ok)
                | (A1, _, e) => (A1, mk, e)
                end
    end.
  Proof.
    intros E. cbn [insert_chain dget prefer]. rewrite E.
    destruct (nd_parent d) as [bp|]; [destruct (mget mk bp)|]; try reflexivity;
      destruct (add_node Ak _ _ _ _) as [[A1 n'] r]; destruct r; reflexivity.
  Qed.

  Definition MonoM (mk : mapping) : Prop :=
    forall c1 c2 v1 v2, mget mk c1 = Some v1 -> mget mk c2 = Some v2 -> c1 < c2 -> v1 < v2.

  (* phase 1 of insert_hugr on an index-ordered source, with no freed index pending: every node's parent is
     copied before it, so the nodes are copied in index order, each at the next fresh index *)
  Lemma insert_nodes_mono (B : store) parent (L0 : nat) :
    (forall n d q, gget B n = Some d -> nd_parent d = Some q -> q < n /\ gget B q <> None) ->
    forall (todo : list nid) (Ak : store) mk A1 m1, incr todo -> (forall n, In n todo -> gget B n <> None) -> free Ak = [] ->
      (forall c, gget B c <> None -> In c todo \/ mget mk c <> None) ->
      (forall c n, mget mk c <> None -> In n todo -> c < n) ->
      (forall c v, mget mk c = Some v -> L0 <= v < length (nodes Ak)) -> L0 <= length (nodes Ak) -> MonoM mk ->
      insert_nodes [] Ak B mk parent todo = (A1, m1, Ok) ->
      free A1 = [] /\ MonoM m1 /\ (forall c v, mget m1 c = Some v -> L0 <= v).
  Proof.
    intros HB. induction todo as [|n rest IH]; intros Ak mk A1 m1 Hincr Hlive Hfree Hall Hbelow Hbound HL0 Hmono Hins.
    - cbn in Hins. injection Hins as <- <-. split; [assumption|]. split; [assumption|]. intros c v E. apply (Hbound c v E).
    - cbn [insert_nodes] in Hins. cbn in Hincr. destruct Hincr as [Hn Hincr].
      assert (Hmn : mget mk n = None).
      { destruct (mget mk n) eqn:E; [|reflexivity]. exfalso. assert (n < n); [|lia]. apply (Hbelow n n); [congruence|now left]. }
      destruct (gget B n) as [d|] eqn:Ed; [|exfalso; apply (Hlive n); [now left|assumption]].
      assert (Hlen : n < length (nodes B)) by (eapply get_node_lt; eassumption).
      assert (Hanc : ancestors_todo (S (length (nodes B))) B mk (Some n) [] = inl [n]).
      { cbn [ancestors_todo]. rewrite Hmn, Ed. destruct (length (nodes B)) as [|f]; [lia|]. cbn [ancestors_todo].
        destruct (nd_parent d) as [q|] eqn:Pq; [|reflexivity].
        destruct (HB n d q Ed Pq) as [Hq Hql]. destruct (Hall q Hql) as [Hin|Hm].
        - exfalso. destruct Hin as [->|Hin]; [lia|]. specialize (Hn _ Hin). lia.
        - destruct (mget mk q); [reflexivity|congruence]. }
      rewrite Hanc in Hins. rewrite (insert_chain_one Ak B mk parent n d Ed) in Hins.
      destruct (match nd_parent d with
                | Some bp => match mget mk bp with Some x => inl (Some x) | None => inr EKey end
                | None => inl parent end) as [pp|e] eqn:Enp.
      2:{ assert (e = EKey) by (destruct (nd_parent d); [destruct (mget mk _)|]; congruence). subst e. cbn in Hins. discriminate. }
      destruct (add_node Ak (nd_op d) pp (Some (nd_outs d)) (nd_meta d)) as [[A2 idx] r] eqn:Eadd.
      destruct r; try discriminate.
      unfold add_node in Eadd.
      pose proof (add_fresh_index Ak (nd_op d) (Some match pp with Some p0 => p0 | None => root Ak end) (Some (nd_outs d)) (nd_meta d) Hfree) as Hidx.
      pose proof (add_node_raw_free_nil Ak (nd_op d) (Some match pp with Some p0 => p0 | None => root Ak end) (Some (nd_outs d)) (nd_meta d) Hfree) as Hfr.
      pose proof (add_node_raw_length Ak (nd_op d) (Some match pp with Some p0 => p0 | None => root Ak end) (Some (nd_outs d)) (nd_meta d) Hfree) as Hln.
      rewrite Eadd in Hidx, Hfr, Hln. cbn [fst snd] in Hidx, Hfr, Hln. subst idx.
      apply (IH A2 (dset Nat.eqb mk n (length (nodes Ak))) A1 m1); try assumption.
      + intros x Hx. apply Hlive. now right.
      + intros c Hc. rewrite mget_dset. destruct (Nat.eqb_spec c n) as [->|Hcn]; [right; discriminate|].
        destruct (Hall c Hc) as [[E|Hin]|Hm]; [congruence|now left|now right].
      + intros c x. rewrite mget_dset. destruct (Nat.eqb_spec c n) as [->|Hcn]; [intros _ Hx; now apply Hn|].
        intros Hm Hx. apply (Hbelow c x Hm). now right.
      + intros c v. rewrite mget_dset, Hln. destruct (Nat.eqb_spec c n) as [->|Hcn]; [intros [= <-]; lia|].
        intros E. specialize (Hbound c v E). lia.
      + lia.
      + intros c1 c2 v1 v2. rewrite !mget_dset.
        destruct (Nat.eqb_spec c1 n) as [->|H1]; destruct (Nat.eqb_spec c2 n) as [->|H2].
        * lia.
        * intros _ E2 Hlt. exfalso. assert (c2 < n); [|lia]. apply (Hbelow c2 n); [congruence|now left].
        * intros E1 [= <-] _. apply (Hbound c1 v1 E1).
        * apply Hmono.
  Qed.

  Lemma copy_children_free (B : store) m todo : forall A : store, free (fst (copy_children A B m todo)) = free A.
  Proof.
    induction todo as [|n rest IH]; intros A; cbn [copy_children]; [reflexivity|].
    destruct (Graph.get_node B n) as [d|]; [|reflexivity]. destruct (mget m n) as [n'|]; [|reflexivity].
    destruct (Graph.get_node A n') as [d'|]; [|reflexivity]. destruct (map_opt (mget m) (nd_children d)); [|reflexivity].
    rewrite IH. reflexivity.
  Qed.
  Lemma copy_links_free m ls : forall A : store, free (fst (copy_links A m ls)) = free A.
  Proof.
    induction ls as [|[s t] rest IH]; intros A; cbn [copy_links]; [reflexivity|].
    destruct (mget m (fst s)) as [s'|]; [|reflexivity]. destruct (mget m (fst t)) as [t'|]; [|reflexivity].
    pose proof (add_link_free A (s', snd s) (t', snd t)) as H.
    destruct (add_link A (s', snd s) (t', snd t)) as [A1 r]. cbn [fst] in H. destruct r; try exact H.
    rewrite IH. exact H.
  Qed.

  Theorem insert_hugr_Ord (A B : store) (parent : option nid) :
    let p := match parent with Some x => x | None => root A end in
    Inv A -> Ord A -> free A = [] -> Inv B -> Ord B -> gget A p <> None ->
    exists A' m, insert_hugr [] A B parent = (A', m, Ok) /\ Inv A' /\ Ord A' /\ free A' = [].
  Proof.
    intros p HIA HOA HfA HIB HOB HpA.
    assert (HWF : WF B).
    { exists (fun x => x). intros n d q E P. destruct HOB as [O1 _]. eapply O1; eassumption. }
    destruct (insert_ok [] A B parent HIA HIB HWF HpA) as (A' & m & Hins & HI' & HIF). fold p in HIF.
    exists A', m. split; [exact Hins|]. split; [exact HI'|].
    (* the three phases *)
    unfold insert_hugr in Hins.
    destruct (insert_nodes [] A B [] parent (iter_nodes B)) as [[A1 m1] r1] eqn:E1. destruct r1; try discriminate.
    destruct (copy_children A1 B m1 (iter_nodes B)) as [A2 r2] eqn:E2. destruct r2; try discriminate.
    destruct (copy_links A2 m1 (q_links B)) as [A3 r3] eqn:E3. injection Hins as <- <- ->.
    destruct HIB as (HLB & HFB & HCB & HTB). destruct (tree_facts B HTB) as (_ & HparliveB & _).
    destruct HOB as (OB1 & OB2). destruct HOA as (OA1 & OA2).
    destruct (insert_nodes_mono B parent (length (nodes A))
                (fun n d q E P => conj (OB1 n d q E P) (HparliveB n d q E P))
                (iter_nodes B) A [] A1 m1) as (Hf1 & Hmono & Hlow); try assumption.
    { apply live_from_incr. }
    { intros n Hn. now apply iter_nodes_In. }
    { intros c Hc. left. now apply iter_nodes_In. }
    { intros c n H. cbn in H. congruence. }
    { intros c v H. discriminate. }
    { lia. }
    { intros c1 c2 v1 v2 H. discriminate. }
    assert (Hfree' : free A3 = []).
    { pose proof (copy_links_free m1 (q_links B) A2) as H3. rewrite E3 in H3. cbn [fst] in H3.
      pose proof (copy_children_free B m1 (iter_nodes B) A1) as H2. rewrite E2 in H2. cbn [fst] in H2. congruence. }
    split; [|exact Hfree'].
    (* images lie above every node of A and the mapping is increasing *)
    destruct HIA as (_ & HFA & _ & (_ & _ & TA3 & _)). destruct HTB as (TB1 & _ & TB3 & _).
    assert (Himg : forall c, gget B c <> None -> exists v, mget m1 c = Some v /\ mapn m1 c = v /\ length (nodes A) <= v).
    { intros c Hc. apply (if_dom _ _ _ _ _ HIF) in Hc. destruct (mget m1 c) as [v|] eqn:E; [|congruence].
      exists v. split; [reflexivity|]. split; [now apply mapn_get|]. eapply Hlow; eassumption. }
    split.
    - intros x d' q Ex Pq.
      destruct (if_only _ _ _ _ _ HIF x ltac:(congruence)) as [Hold|(c & Ec)].
      + destruct (gget A x) as [d|] eqn:Ed; [|congruence]. rewrite (if_old _ _ _ _ _ HIF x d Ed) in Ex. injection Ex as <-.
        apply (OA1 x d q Ed). destruct (Nat.eqb x p); exact Pq.
      + assert (Hcb : gget B c <> None) by (apply (if_dom _ _ _ _ _ HIF); congruence).
        destruct (gget B c) as [b|] eqn:Eb; [|congruence].
        destruct (if_copy _ _ _ _ _ HIF c x b Ec Eb) as (d2 & Ed2 & _ & _ & _ & Pd2 & _).
        assert (d2 = d') by congruence. subst d2. rewrite Pd2 in Pq. injection Pq as <-.
        assert (Hx : length (nodes A) <= x) by (eapply Hlow; eassumption).
        destruct (nd_parent b) as [qb|] eqn:Pb.
        * destruct (Himg qb (HparliveB c b qb Eb Pb)) as (v & Ev & -> & _). eapply Hmono; [exact Ev|exact Ec|]. eapply OB1; eassumption.
        * destruct (gget A p) as [pd|] eqn:Ep; [|congruence]. pose proof (get_node_lt A p pd Ep). lia.
    - intros x d' Ex.
      destruct (if_only _ _ _ _ _ HIF x ltac:(congruence)) as [Hold|(c & Ec)].
      + destruct (gget A x) as [d|] eqn:Ed; [|congruence]. rewrite (if_old _ _ _ _ _ HIF x d Ed) in Ex. injection Ex as <-.
        destruct (Nat.eqb x p); [|eapply OA2; eassumption]. cbn. apply incr_snoc; [eapply OA2; eassumption|].
        intros ch Hch. destruct (TA3 x d ch Ed Hch) as (dc & Ech & _). pose proof (get_node_lt A ch dc Ech).
        destruct TB1 as (rb & Erb & _). destruct (Himg (root B) ltac:(congruence)) as (v & _ & -> & Hv). lia.
      + assert (Hcb : gget B c <> None) by (apply (if_dom _ _ _ _ _ HIF); congruence).
        destruct (gget B c) as [b|] eqn:Eb; [|congruence].
        destruct (if_copy _ _ _ _ _ HIF c x b Ec Eb) as (d2 & Ed2 & _ & _ & _ & _ & Cd2).
        assert (d2 = d') by congruence. subst d2. rewrite Cd2. apply incr_map; [eapply OB2; eassumption|].
        intros c1 c2 H1 H2 Hlt.
        destruct (TB3 c b c1 Eb H1) as (b1 & Eb1 & _). destruct (TB3 c b c2 Eb H2) as (b2 & Eb2 & _).
        destruct (Himg c1 ltac:(congruence)) as (v1 & Ev1 & -> & _). destruct (Himg c2 ltac:(congruence)) as (v2 & Ev2 & -> & _).
        eapply Hmono; eassumption.
  Qed.

  (* ---------------------------------------------------------------- metadata assignment *)
  Lemma set_meta_effect (h : store) n m d : gget h n = Some d ->
    set_meta h n m = (set_node h n (set_meta_data d m), Ok) /\
    forall x, gget (set_node h n (set_meta_data d m)) x = if Nat.eqb x n then Some (set_meta_data d m) else gget h x.
  Proof.
    intros E. unfold set_meta. rewrite E. split; [reflexivity|]. intros x. apply get_set_node. eapply get_node_lt; eassumption.
  Qed.
  Lemma set_meta_Inv (h : store) n m d : Inv h -> gget h n = Some d -> Inv (set_node h n (set_meta_data d m)).
  Proof.
    intros (HL & HF & HC & HT) E. destruct (set_meta_effect h n m d E) as [_ Hget].
    split; [exact HL|]. split; [|split].
    - apply (FreeOK_ext h); [|reflexivity|apply GraphInvP.length_set_nth|assumption].
      intros x. rewrite Hget. destruct (Nat.eqb_spec x n) as [->|]; [rewrite E; split; discriminate|tauto].
    - apply (Cover_mono h); [|intros l Hl; exact Hl|assumption]. intros x dx Ex. rewrite Hget.
      destruct (Nat.eqb_spec x n) as [->|]; [|exists dx; split; [assumption|lia]].
      assert (dx = d) by congruence. subst dx. eexists. split; [reflexivity|]. cbn. lia.
    - apply (Tree_ext h); [|reflexivity|assumption]. intros x. rewrite Hget.
      destruct (Nat.eqb_spec x n) as [->|]; [rewrite E; reflexivity|reflexivity].
  Qed.

  Lemma init_Ord o m : Ord (@init Op Meta o m).
  Proof.
    split.
    - intros n d p. unfold init, add_node_raw. cbn. destruct n as [|[|n]]; cbn; try discriminate. intros [= <-]. discriminate.
    - intros n d. unfold init, add_node_raw. cbn. destruct n as [|[|n]]; cbn; try discriminate. intros [= <-]. exact I.
  Qed.
  Lemma hstep_inv (h : store) c : Inv h -> Ord h -> call_ok h c = true ->
    snd (hstep h c) = Ok /\ Inv (fst (hstep h c)) /\ Ord (fst (hstep h c)).
  Proof.
    intros HI HO HC. destruct c as [b|n m|o m src p]; cbn [hstep].
    - destruct (bstep h b) as [[h' rt] r] eqn:E. cbn [fst snd]. exact (bstep_Ord h b h' rt r HI HO HC E).
    - unfold call_ok in HC. apply andb_prop in HC. destruct HC as [HG _]. cbn [call_in_guard] in HG. unfold s_live in HG.
      destruct (gget h n) as [d|] eqn:E; [|discriminate].
      destruct (set_meta_effect h n m d E) as [-> Hget]. cbn [fst snd]. split; [reflexivity|]. split; [now apply set_meta_Inv|].
      destruct HO as (O1 & O2). split.
      + intros x dx q. rewrite Hget. destruct (Nat.eqb_spec x n) as [->|]; [intros [= <-]; cbn; now apply O1|apply O1].
      + intros x dx. rewrite Hget. destruct (Nat.eqb_spec x n) as [->|]; [intros [= <-]; cbn; eapply O2; eassumption|apply O2].
    - unfold call_ok in HC. apply andb_prop in HC. destruct HC as [HG HFr]. cbn [call_in_guard] in HG.
      apply andb_prop in HG. destruct HG as [Hsrc Hp]. unfold call_fresh in HFr. cbn in HFr.
      destruct (free h) eqn:Hf; [|discriminate].
      destruct (init_inv o m) as [HI0 _]. destruct (brun_Ord src (init o m) HI0 (init_Ord o m) Hsrc) as [HIB HOB].
      destruct (insert_hugr_Ord h (brun (init o m) src) p HI HO Hf HIB HOB) as (A' & mp & Hins & HI' & HO' & _).
      { unfold s_live, dfl in Hp. destruct (gget h _); congruence. }
      rewrite Hins. cbn [fst snd]. auto.
  Qed.

  (* ---------------------------------------------------------------- histories *)
  Theorem hrun_inv cs : forall h : store, Inv h -> Ord h -> hist_ok h cs = true ->
    Inv (hrun h cs) /\ Ord (hrun h cs) /\ all_return h cs = true.
  Proof.
    induction cs as [|c r IH]; intros h HI HO HH; cbn [hrun fold_left all_return]; [auto|].
    unfold hist_ok in HH. cbn [every_call] in HH. apply andb_prop in HH. destruct HH as [Hc Hr].
    destruct (hstep_inv h c HI HO Hc) as (Hret & HI' & HO'). rewrite Hret. cbn [res_eqb andb].
    exact (IH _ HI' HO' Hr).
  Qed.
  (* index_ordered is an invariant of histories that never reuse an index: Hugr(root_op), then any sequence
     of add_node / add_const / add_link / add_order_link / delete_link / delete_node / metadata assignment
     inside the store's guard with no freed index pending at any add_node *)
  Theorem history_index_ordered o m cs : hist_ok (@init Op Meta o m) cs = true ->
    all_return (init o m) cs = true /\ Inv (hrun (init o m) cs) /\ index_ordered_b (view (hrun (init o m) cs)) = true.
  Proof.
    intros HH. destruct (init_inv o m) as [HI _].
    destruct (hrun_inv cs (init o m) HI (init_Ord o m) HH) as (HI' & HO' & Hret).
    split; [exact Hret|]. split; [exact HI'|]. now apply ord_index_ordered.
  Qed.
End HP.

(* ------------------------------------------------------------------ links attach only to ports the operations have *)
Section Ports.
  Context {Op Meta : Type}.
  Variables vports sports : Op -> dir -> nat.
  Variable has_order : Op -> bool.
  Notation store := (Graph.hugr Op Meta).
  Notation gget := (@Graph.get_node Op Meta).
  Notation aget := (dget Nat.eqb).
  Notation call_on_ports := (call_on_ports vports sports has_order).
  Notation hist_on_ports := (hist_on_ports vports sports has_order).

  Definition pe_port (h : store) (p : Graph.port) (d : dir) : bool :=
    port_exists vports sports has_order (view h) (vport p) d.
  Definition PE (h : store) : Prop :=
    forall s t, In (s, t) (q_links h) -> pe_port h s DOut = true /\ pe_port h t DIn = true.

  Lemma PE_ports_exist (h : store) : PE h -> ports_exist_b vports sports has_order (view h) = true.
  Proof.
    intros H. unfold ports_exist_b. apply forallb_forall. intros l Hl. cbn [view h_links] in Hl.
    apply in_map_iff in Hl. destruct Hl as ([s t] & <- & Hin). destruct (H s t Hin) as [A B].
    cbn [vlink fst snd]. unfold pe_port in A, B. now rewrite A, B.
  Qed.
  Lemma pe_port_live (h : store) p d : pe_port h p d = true -> exists nd, gget h (fst p) = Some nd.
  Proof.
    unfold pe_port, port_exists. cbn [vport fst snd]. rewrite view_get. destruct (gget h (fst p)) as [nd|]; [eauto|discriminate].
  Qed.
  Lemma pe_port_ext (h h' : store) p d nd nd' : gget h (fst p) = Some nd -> gget h' (fst p) = Some nd' ->
    nd_op nd' = nd_op nd -> pe_port h' p d = pe_port h p d.
  Proof.
    unfold pe_port, port_exists. cbn [vport fst snd]. rewrite !view_get. intros -> -> E. cbn. now rewrite E.
  Qed.

  (* the links after a call of the store are links it had before, or the link the call adds *)
  Definition new_link (c : bcmd Op Meta) (l : Graph.port * Graph.port) : Prop :=
    match c with
    | AddLink s t => l = (s, t)
    | AddOrder a b => l = ((a, (-1)%Z), (b, (-1)%Z))
    | _ => False
    end.
  Lemma s_bstep_links (g : agraph Op Meta) c rt g' l : s_bstep g c rt = Next g' -> In l (a_links g') ->
    In l (a_links g) \/ new_link c l.
  Proof.
    intros Hs Hin.
    assert (Hadd : forall s t, In l (a_links (s_add_link g s t)) -> In l (a_links g) \/ l = (s, t)).
    { intros s t H. unfold s_add_link in H. cbn [a_links] in H. rewrite !a_upd_links in H.
      apply in_app_or in H. destruct H as [H|[<-|[]]]; auto. }
    destruct c as [o p k m|o p m|s t|y z|s t|n]; cbn [s_bstep new_link] in *.
    - destruct (a_live g (dflt g p)); [|discriminate]. destruct rt as [|n|]; try discriminate.
      destruct (a_live g n); [discriminate|]. injection Hs as <-. unfold s_add_node in Hin. cbn [a_links] in Hin.
      rewrite a_upd_links in Hin. now left.
    - destruct (a_live g (dflt g p)); [|discriminate]. destruct rt as [|n|]; try discriminate.
      destruct (a_live g n); [discriminate|]. injection Hs as <-. unfold s_add_node in Hin. cbn [a_links] in Hin.
      rewrite a_upd_links in Hin. now left.
    - destruct (port_ok g s && port_ok g t); [|discriminate]. injection Hs as <-. auto.
    - destruct (a_live g y && a_live g z); [|discriminate]. injection Hs as <-.
      destruct (s_has_link g (y, (-1)%Z) (z, (-1)%Z)); [now left|auto].
    - injection Hs as <-. left. unfold s_delete_link in Hin.
      destruct (remove1 Graph.link_eqb (s, t) (a_links g)) as [l0|] eqn:E; [|exact Hin]. cbn [a_links] in Hin.
      apply (remove1_perm Graph.link_eqb link_eqb_spec) in E. eapply Permutation_in; [symmetry; exact E|now right].
    - destruct (aget (a_nodes g) n) as [an|]; [|discriminate]. destruct (a_children an); [|discriminate].
      destruct (Nat.eqb n (a_root g)); [discriminate|]. injection Hs as <-. left.
      unfold s_delete_node in Hin. cbn [a_links] in Hin. apply filter_In in Hin. destruct Hin as [Hin _].
      destruct (a_parent an); [now rewrite a_upd_links in Hin|exact Hin].
  Qed.

  (* no call changes the operation of a node *)
  Lemma bstep_op_kept (h : store) b h' rt r g' x nd nd' : Inv h -> bstep h b = (h', rt, r) ->
    s_bstep (abs h) b rt = Next g' -> gget h x = Some nd -> gget h' x = Some nd' -> nd_op nd' = nd_op nd.
  Proof.
    intros HI Hb Hs E E'. destruct (adds_node (HB b)) eqn:Hadd.
    - assert (Hnd : b <> DelNode x) by (intros ->; discriminate).
      destruct (live_nodes_keep_index h (abs h) b h' rt r g' x nd HI (Rep_abs h) Hb Hs E Hnd) as (d' & Ed' & F & _).
      congruence.
    - destruct (bstep_back h b h' rt r g' x nd' HI Hb Hs Hadd E') as (d & Ed & F & _). congruence.
  Qed.

  Lemma bstep_PE (h : store) b h' rt r : Inv h -> PE h -> call_in_guard h (HB b) = true ->
    call_on_ports h (HB b) = true -> bstep h b = (h', rt, r) -> Inv h' /\ PE h'.
  Proof.
    intros HI HP HG HC Hb. destruct (guard_next h b h' rt r HI HG Hb) as (g' & Hs & _ & HI' & HR').
    split; [exact HI'|]. intros s t Hin.
    assert (Hl : In (s, t) (q_links h) \/ new_link b (s, t)).
    { eapply Permutation_in in Hin; [|exact (links_refine h' g' HR')]. exact (s_bstep_links (abs h) b rt g' _ Hs Hin). }
    assert (Hold : pe_port h s DOut = true /\ pe_port h t DIn = true).
    { destruct Hl as [Hl|Hl]; [now apply HP|].
      destruct b as [o p k m|o p m|s0 t0|y z|s0 t0|n]; cbn [new_link] in Hl; try contradiction;
        injection Hl as -> ->; cbn [HugrHistS.call_on_ports] in HC; unfold link_on_ports in HC; apply andb_prop in HC; exact HC. }
    destruct HI' as (_ & _ & HC' & _). destruct (HC' s t Hin) as ((ds & Es & _) & (dt & Et & _)).
    destruct Hold as [Ho Hi]. destruct (pe_port_live _ _ _ Ho) as (ns & Ens). destruct (pe_port_live _ _ _ Hi) as (nt & Ent).
    split.
    - rewrite (pe_port_ext h h' s DOut ns ds Ens Es); [exact Ho|]. eapply bstep_op_kept; eassumption.
    - rewrite (pe_port_ext h h' t DIn nt dt Ent Et); [exact Hi|]. eapply bstep_op_kept; eassumption.
  Qed.

  (* the history of an inserted HUGR *)
  Lemma brun_PE bs : forall h : store, Inv h -> PE h -> every_basic basic_ok h bs = true ->
    every_basic (basic_on_ports vports sports has_order) h bs = true -> PE (brun h bs).
  Proof.
    induction bs as [|b r IH]; intros h HI HP HG HC; cbn [brun fold_left]; [assumption|].
    cbn [every_basic] in HG, HC. apply andb_prop in HG, HC. destruct HG as [Hg Hgr], HC as [Hc Hcr].
    unfold basic_ok in Hg. apply andb_prop in Hg. destruct Hg as [Hg _].
    destruct (bstep h b) as [[h' rt] res] eqn:E. destruct (bstep_PE h b h' rt res HI HP Hg Hc E) as [HI' HP'].
    cbn [fst] in *. exact (IH h' HI' HP' Hgr Hcr).
  Qed.
  Lemma pe_port_ext2 (h h' : store) p p' d nd nd' : snd p' = snd p -> gget h (fst p) = Some nd -> gget h' (fst p') = Some nd' ->
    nd_op nd' = nd_op nd -> pe_port h' p' d = pe_port h p d.
  Proof.
    unfold pe_port, port_exists. cbn [vport fst snd]. rewrite !view_get. intros -> -> -> E. cbn. now rewrite E.
  Qed.
  (* insert_hugr: the links afterwards are the old ones and the images of the inserted HUGR's links; operations are copied *)
  Lemma insert_PE (A B : store) p m A' : PE A -> PE B -> IsoFrame A B p m A' -> PE A'.
  Proof.
    intros HPA HPB HIF s t Hin. eapply Permutation_in in Hin; [|exact (if_links _ _ _ _ _ HIF)].
    apply in_app_or in Hin. destruct Hin as [Hin|Hin].
    - destruct (HPA s t Hin) as [Ho Hi].
      destruct (pe_port_live _ _ _ Ho) as (ns & Ens). destruct (pe_port_live _ _ _ Hi) as (nt & Ent).
      pose proof (if_old _ _ _ _ _ HIF _ _ Ens) as Es'. pose proof (if_old _ _ _ _ _ HIF _ _ Ent) as Et'.
      split.
      + rewrite (pe_port_ext A A' s DOut ns _ Ens Es'); [exact Ho|]. destruct (Nat.eqb (fst s) p); reflexivity.
      + rewrite (pe_port_ext A A' t DIn nt _ Ent Et'); [exact Hi|]. destruct (Nat.eqb (fst t) p); reflexivity.
    - apply in_map_iff in Hin. destruct Hin as ([s0 t0] & E & Hin0). unfold InsertS.mapl, mapp in E. cbn [fst snd] in E.
      injection E as <- <-. destruct (HPB s0 t0 Hin0) as [Ho Hi].
      destruct (pe_port_live _ _ _ Ho) as (ns & Ens). destruct (pe_port_live _ _ _ Hi) as (nt & Ent).
      assert (Himg : forall x b, gget B x = Some b -> exists d', gget A' (mapn m x) = Some d' /\ nd_op d' = nd_op b).
      { intros x b Eb. assert (Hm : dget Nat.eqb m x <> None) by (apply (if_dom _ _ _ _ _ HIF); congruence).
        destruct (dget Nat.eqb m x) as [x'|] eqn:Em; [|congruence]. rewrite (mapn_get _ _ _ Em).
        destruct (if_copy _ _ _ _ _ HIF x x' b Em Eb) as (d' & Ed' & F & _). eauto. }
      destruct (Himg _ _ Ens) as (ds & Es' & Fs). destruct (Himg _ _ Ent) as (dt & Et' & Ft).
      split.
      + rewrite (pe_port_ext2 B A' s0 (mapn m (fst s0), snd s0) DOut ns ds eq_refl Ens Es' Fs). exact Ho.
      + rewrite (pe_port_ext2 B A' t0 (mapn m (fst t0), snd t0) DIn nt dt eq_refl Ent Et' Ft). exact Hi.
  Qed.

  Lemma init_PE (o : Op) (m : Meta) : PE (init o m).
  Proof. intros s t []. Qed.

  Lemma hstep_PE (h : store) c : Inv h -> PE h -> call_in_guard h c = true -> call_on_ports h c = true ->
    Inv (fst (hstep h c)) /\ PE (fst (hstep h c)).
  Proof.
    intros HI HP HG HC. destruct c as [b|n m|o m src p]; cbn [hstep].
    - destruct (bstep h b) as [[h' rt] r] eqn:E. cbn [fst]. eapply bstep_PE; eassumption.
    - cbn [call_in_guard] in HG. unfold s_live in HG. destruct (gget h n) as [d|] eqn:E; [|discriminate].
      destruct (set_meta_effect h n m d E) as [-> Hget]. cbn [fst]. split; [now apply set_meta_Inv|].
      intros s t Hin. change (q_links (set_node h n (set_meta_data d m))) with (q_links h) in Hin.
      destruct (HP s t Hin) as [Ho Hi].
      destruct (pe_port_live _ _ _ Ho) as (ns & Ens). destruct (pe_port_live _ _ _ Hi) as (nt & Ent).
      assert (Hk : forall x nx, gget h x = Some nx -> exists nx', gget (set_node h n (set_meta_data d m)) x = Some nx' /\ nd_op nx' = nd_op nx).
      { intros x nx Ex. rewrite Hget. destruct (Nat.eqb_spec x n) as [->|]; [|eauto].
        assert (nx = d) by congruence. subst nx. eexists. split; reflexivity. }
      destruct (Hk _ _ Ens) as (ns' & Ens' & Fs). destruct (Hk _ _ Ent) as (nt' & Ent' & Ft).
      split; [rewrite (pe_port_ext h _ s DOut ns ns' Ens Ens' Fs)|rewrite (pe_port_ext h _ t DIn nt nt' Ent Ent' Ft)]; assumption.
    - cbn [call_in_guard HugrHistS.call_on_ports] in HG, HC. apply andb_prop in HG. destruct HG as [Hsrc Hp].
      destruct (init_inv o m) as [HI0 _]. destruct (brun_Ord src (init o m) HI0 (init_Ord o m) Hsrc) as [HIB HOB].
      pose proof (brun_PE src (init o m) HI0 (init_PE o m) Hsrc HC) as HPB.
      assert (HWF : WF (brun (init o m) src)).
      { exists (fun x => x). intros x d q E P. destruct HOB as [O1 _]. eapply O1; eassumption. }
      destruct (insert_ok [] h (brun (init o m) src) p HI HIB HWF) as (A' & mp & Hins & HI' & HIF).
      { unfold s_live, dfl in Hp. destruct (gget h _); congruence. }
      rewrite Hins. cbn [fst]. split; [exact HI'|]. exact (insert_PE h _ _ mp A' HP HPB HIF).
  Qed.

  Theorem hrun_PE cs : forall h : store, Inv h -> PE h -> hist_in_guard h cs = true -> hist_on_ports h cs = true ->
    PE (hrun h cs).
  Proof.
    induction cs as [|c r IH]; intros h HI HP HG HC; cbn [hrun fold_left]; [assumption|].
    unfold hist_in_guard in HG. unfold HugrHistS.hist_on_ports in HC. cbn [every_call] in HG, HC.
    apply andb_prop in HG, HC. destruct HG as [Hg Hgr], HC as [Hc Hcr].
    destruct (hstep_PE h c HI HP Hg Hc) as [HI' HP']. exact (IH _ HI' HP' Hgr Hcr).
  Qed.

  Lemma every_call_weaken (P Q : store -> hcmd Op Meta -> bool) : (forall h c, P h c = true -> Q h c = true) ->
    forall cs h, every_call P h cs = true -> every_call Q h cs = true.
  Proof.
    intros HPQ. induction cs as [|c r IH]; intros h H; cbn [every_call] in *; [reflexivity|].
    apply andb_prop in H. destruct H as [A B]. now rewrite (HPQ _ _ A), (IH _ B).
  Qed.
  Lemma hist_ok_in_guard cs (h : store) : hist_ok h cs = true -> hist_in_guard h cs = true.
  Proof. apply every_call_weaken. intros h' c H. unfold call_ok in H. now apply andb_prop in H. Qed.

  (* the premise of the round-trip theorems holds after every history without index reuse whose add_link /
     add_order_link calls name ports the operations have *)
  Theorem history_guard o m cs : hist_ok (@init Op Meta o m) cs = true -> hist_on_ports (init o m) cs = true ->
    all_return (init o m) cs = true /\ guard_b vports sports has_order (view (hrun (init o m) cs)) = true.
  Proof.
    intros HH HC. destruct (history_index_ordered o m cs HH) as (Hret & _ & HO). split; [exact Hret|].
    unfold guard_b. rewrite HO. cbn [andb]. apply PE_ports_exist.
    destruct (init_inv o m) as [HI _]. apply hrun_PE; [exact HI| |now apply hist_ok_in_guard|exact HC].
    intros s t [].
  Qed.
End Ports.

(* ------------------------------------------------------------------ the syntactic form of "no index reuse" *)
Section Syntactic.
  Context {Op Meta : Type}.
  Notation store := (Graph.hugr Op Meta).

  Lemma insert_chain_free (B : store) parent : forall chain (Ak : store) mk, free Ak = [] ->
    free (fst (fst (insert_chain [] Ak B mk parent chain))) = [].
  Proof.
    induction chain as [|c rest IH]; intros Ak mk Hf; cbn [insert_chain dget prefer]; [exact Hf|].
    destruct (Graph.get_node B c) as [d|]; [|exact Hf].
    assert (Hadd : forall pp, free (fst (fst (
              match add_node Ak (nd_op d) pp (Some (nd_outs d)) (nd_meta d) with
              | (A1, n, Ok) => insert_chain [] A1 B (dset Nat.eqb mk c n) parent rest
              | (A1, _, e) => (A1, mk, e)
              end))) = []).
    { intros pp. unfold add_node.
      pose proof (add_node_raw_free_nil Ak (nd_op d) (Some match pp with Some p0 => p0 | None => root Ak end)
                    (Some (nd_outs d)) (nd_meta d) Hf) as H.
      destruct (add_node_raw Ak _ _ _ _) as [[A1 n] r]. cbn [fst] in H. destruct r; try exact H. now apply IH. }
    destruct (nd_parent d) as [bp|]; [destruct (dget Nat.eqb mk bp)|]; cbv zeta; try apply Hadd. exact Hf.
  Qed.
  Lemma insert_nodes_free (B : store) parent : forall todo (Ak : store) mk, free Ak = [] ->
    free (fst (fst (insert_nodes [] Ak B mk parent todo))) = [].
  Proof.
    induction todo as [|n rest IH]; intros Ak mk Hf; cbn [insert_nodes]; [exact Hf|].
    destruct (ancestors_todo _ B mk (Some n) []) as [chain|e]; [|exact Hf].
    pose proof (insert_chain_free B parent chain Ak mk Hf) as H.
    destruct (insert_chain [] Ak B mk parent chain) as [[A1 m1] r]. cbn [fst] in H. destruct r; try exact H. now apply IH.
  Qed.
  Lemma insert_hugr_free (A B : store) parent : free A = [] -> free (fst (fst (insert_hugr [] A B parent))) = [].
  Proof.
    intros Hf. unfold insert_hugr. pose proof (insert_nodes_free B parent (iter_nodes B) A [] Hf) as H1.
    destruct (insert_nodes [] A B [] parent (iter_nodes B)) as [[A1 m] r1]. cbn [fst] in H1. destruct r1; try exact H1.
    pose proof (copy_children_free B m (iter_nodes B) A1) as H2.
    destruct (copy_children A1 B m (iter_nodes B)) as [A2 r2]. cbn [fst] in H2. destruct r2; cbn [fst]; try congruence.
    pose proof (copy_links_free m (q_links B) A2) as H3.
    destruct (copy_links A2 m (q_links B)) as [A3 r3]. cbn [fst] in *. congruence.
  Qed.
  Lemma hstep_free_nil (h : store) (c : hcmd Op Meta) : free h = [] -> deletes_node c = false -> free (fst (hstep h c)) = [].
  Proof.
    intros Hf Hd. destruct c as [[o p k m|o p m|s t|a b|s t|n]|n m|o m src p]; cbn [hstep bstep deletes_node] in *; try discriminate.
    - unfold add_node. pose proof (add_node_raw_free_nil h o (Some (match p with Some x => x | None => root h end)) k m Hf) as H.
      destruct (add_node_raw _ _ _ _ _) as [[h' n'] r]. exact H.
    - unfold add_node. pose proof (add_node_raw_free_nil h o (Some (match p with Some x => x | None => root h end)) None m Hf) as H.
      destruct (add_node_raw _ _ _ _ _) as [[h' n'] r]. exact H.
    - pose proof (add_link_free h s t) as H. destruct (add_link h s t) as [h' r]. cbn in *. congruence.
    - unfold add_order_link. destruct (has_link h _ _); [exact Hf|].
      pose proof (add_link_free h (a, (-1)%Z) (b, (-1)%Z)) as H. destruct (add_link h _ _) as [h' r]. cbn in *. congruence.
    - unfold delete_link. destruct (lm_delete_link (links h) s t). exact Hf.
    - unfold set_meta. destruct (Graph.get_node h n); exact Hf.
    - pose proof (insert_hugr_free h (brun (init o m) src) p Hf) as H.
      destruct (insert_hugr [] h _ p) as [[h' mp] r]. exact H.
  Qed.

  Lemma hist_ok_no_adds cs : forall h : store, hist_in_guard h cs = true ->
    forallb (fun c => negb (adds_node c)) cs = true -> hist_ok h cs = true.
  Proof.
    induction cs as [|c r IH]; intros h HG HN; [reflexivity|]. unfold hist_ok, hist_in_guard in *. cbn [every_call forallb] in *.
    apply andb_prop in HG, HN. destruct HG as [Hg Hgr], HN as [Hn Hnr].
    unfold call_ok, call_fresh. rewrite Hg, Hn. cbn. now apply IH.
  Qed.
  (* a history inside the guard in which no node is added after a node was deleted never reuses an index *)
  Theorem no_add_after_delete_ok cs : forall h : store, free h = [] -> hist_in_guard h cs = true ->
    no_add_after_delete cs = true -> hist_ok h cs = true.
  Proof.
    induction cs as [|c r IH]; intros h Hf HG HN; [reflexivity|].
    pose proof HG as HG0. unfold hist_in_guard in HG. cbn [every_call] in HG. apply andb_prop in HG. destruct HG as [Hg Hgr].
    assert (Hc : call_ok h c = true).
    { unfold call_ok, call_fresh. rewrite Hg, Hf. cbn. apply orb_true_r. }
    unfold hist_ok. cbn [every_call]. rewrite Hc. cbn [andb]. cbn [no_add_after_delete] in HN.
    destruct (deletes_node c) eqn:Hd.
    - now apply hist_ok_no_adds.
    - apply IH; [now apply hstep_free_nil|exact Hgr|exact HN].
  Qed.
  Theorem no_add_after_delete_init (o : Op) (m : Meta) cs : hist_in_guard (init o m) cs = true ->
    no_add_after_delete cs = true -> hist_ok (init o m) cs = true.
  Proof. apply no_add_after_delete_ok. reflexivity. Qed.
End Syntactic.

(* ------------------------------------------------------------------ the round trip after a history *)
Section RoundTrip.
  Variables op sop md : Type.
  Variable enc : op -> sop.
  Variable dec : sop -> op.
  Variable ndp : op -> dir -> option nat.
  Variable md_nil : md.
  Variable md_is_nil : md -> bool.
  Variables vports sports : op -> dir -> nat.
  Variable has_order : op -> bool.
  Hypothesis ndp_spec : forall o d, ndp o d = if has_order o then Some (vports o d + sports o d) else None.
  Hypothesis md_nil_is_nil : md_is_nil md_nil = true.
  Hypothesis md_nil_unique : forall m, md_is_nil m = true -> m = md_nil.
  Hypothesis enc_dec_enc : forall o, enc (dec (enc o)) = enc o.
  Hypothesis ndp_dec_enc : forall o d, ndp (dec (enc o)) d = ndp o d.

  Theorem history_roundtrip (o : op) (m : md) (cs : list (hcmd op md)) :
    hist_ok (init o m) cs = true -> hist_on_ports vports sports has_order (init o m) cs = true ->
    exists s h', to_serial enc ndp md_is_nil (view (hrun (init o m) cs)) = Some s /\
                 from_serial dec ndp md_nil s = Some h' /\ to_serial enc ndp md_is_nil h' = Some s /\
                 Iso enc (view (hrun (init o m) cs)) h'.
  Proof.
    intros HH HC. destruct (history_guard vports sports has_order o m cs HH HC) as [_ HG].
    destruct (roundtrip_fixpoint_total op sop md enc dec ndp md_nil md_is_nil vports sports has_order ndp_spec
                md_nil_is_nil enc_dec_enc _ HG) as (s & h' & Hs & Hl & Hs').
    destruct (roundtrip_iso op sop md enc dec ndp md_nil md_is_nil vports sports has_order ndp_spec
                enc_dec_enc ndp_dec_enc md_nil_unique _ s HG Hs) as (h2 & Hl2 & HI).
    assert (h2 = h') by congruence. subst h2.
    exists s, h'. split; [exact Hs|]. split; [exact Hl|]. split; [exact Hs'|exact HI].
  Qed.
End RoundTrip.

(* ------------------------------------------------------------------ non-vacuity *)
(* Hugr(0); three nodes under the root; two links out of one port; a HUGR of three nodes with a link is
   inserted under node 1 (it becomes nodes 4, 5, 6); the middle node of the first three (target of one of the
   links) is deleted; an order link, a metadata assignment and a link that is added and deleted again follow.
   Operations as in SerialHugrP.Witness: every operation has one value port per direction and an order port. *)
Module HistWitness.
  Definition src : list (bcmd nat nat) :=
    [AddNode 8 None None 0; AddNode 9 (Some 1) None 2; AddLink (1, 0%Z) (2, 0%Z)].
  Definition cs : list (hcmd nat nat) :=
    [HB (AddNode 1 None (Some 1%Z) 0); HB (AddNode 2 None None 5); HB (AddConst 3 (Some 0) 0);
     HB (AddLink (1, 0%Z) (2, 0%Z)); HB (AddLink (1, 0%Z) (3, 0%Z)); HB (AddLink (2, 0%Z) (3, 0%Z));
     HInsert 7 0 src (Some 1);
     HB (DelNode 2);
     HB (AddOrder 1 3); HSetMeta 3 7; HB (AddLink (3, 0%Z) (1, 0%Z)); HB (DelLink (3, 0%Z) (1, 0%Z))].
  Definition final := view (hrun (init 0 0) cs).
End HistWitness.
Lemma history_example :
  hist_ok (init 0 0) HistWitness.cs = true /\
  hist_on_ports Witness.vports Witness.sports Witness.has_order (init 0 0) HistWitness.cs = true /\
  no_add_after_delete HistWitness.cs = true /\
  map (option_map (fun n => (n_parent n, n_children n, n_md n))) (h_nodes HistWitness.final) =
    [Some (None, [1; 3], 0); Some (Some 0, [4], 0); None; Some (Some 0, [], 7);
     Some (Some 1, [5], 0); Some (Some 4, [6], 0); Some (Some 5, [], 2)] /\
  h_links HistWitness.final = [((5, APort 0), (6, APort 0)); ((1, APort 0), (3, APort 0)); ((1, AOrder), (3, AOrder))] /\
  exists s h', Witness.to_s HistWitness.final = Some s /\ Witness.from_s s = Some h' /\ Witness.to_s h' = Some s /\
               length (s_nodes s) = 6.
Proof.
  split; [vm_compute; reflexivity|]. split; [vm_compute; reflexivity|]. split; [reflexivity|].
  split; [vm_compute; reflexivity|]. split; [vm_compute; reflexivity|].
  destruct (Witness.to_s HistWitness.final) as [s|] eqn:E; [|vm_compute in E; discriminate].
  destruct (Witness.from_s s) as [h'|] eqn:E2; [|vm_compute in E; injection E as <-; vm_compute in E2; discriminate].
  exists s, h'. vm_compute in E. injection E as <-. vm_compute in E2. injection E2 as <-. repeat split; reflexivity.
Qed.
