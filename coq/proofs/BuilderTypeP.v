(* C01 (second pass) — port counts (rule 5), kind and type agreement at both ends of every edge (rule 7), derived
   types (rule 4) and constants (rule 17) for every WELL-TYPED program of the modelled builder language
   (spec/BuilderWFS.v: wt_prog, a boolean computed from the program text) whose builder calls do not raise.

   The invariant: every link of the store is fine with respect to the CURRENT operations of its two end nodes
   (link_okb): a value link leaves an out port that exists and enters an in port that exists with the same type;
   the static link of a constant goes Const -> LoadConst of the constant's type; an order link joins two nodes
   that have an order port.  Operations only ever change by growing (a placeholder is replaced by the completed
   operation: Output [] -> Output ts, DFG ins [] -> DFG ins outs, ExtOp [] [] -> the completed partial op), so a
   link that was fine stays fine; `_wire_up_port` records the type it reads from the source's signature, which is
   what the target's input row is then made of. *)
From Coq Require Import NArith List Bool Arith Lia.
Import ListNotations.
From HV Require Import lib.Harness model.Validity model.Builder spec.BuilderS spec.BuilderWFS
  proofs.BuilderP proofs.BuilderExtP proofs.BuilderFrameP proofs.BuilderRulesP.
Local Open Scope N_scope.

(* ------------------------------------------------------------------ a link that is fine *)
Definition ord_out (o : vop) : bool :=
  match o with Input _ | DFG _ _ | ExtOp _ _ | Tag _ _ _ | LoadConst _ => true | _ => false end.
Definition ord_in (o : vop) : bool :=
  match o with Output _ | DFG _ _ | ExtOp _ _ | Tag _ _ _ | LoadConst _ => true | _ => false end.
Definition op_at (l : list vnode) (n : N) : option vop := option_map n_op (nthN l n).

Definition link_okb (l : list vnode) (e : edge) : bool :=
  match op_at l (e_src e), op_at l (e_dst e) with
  | Some so, Some do_ =>
      match e_soff e, e_doff e with
      | Some a, Some b =>
          match nthN (val_out so) a, nthN (val_in do_) b with
          | Some t, Some t' => t =? t'
          | _, _ => match so, do_ with
                    | Const v, LoadConst t => (a =? 0) && (b =? 0) && (value_ty v =? t)
                    | _, _ => false
                    end
          end
      | None, None => ord_out so && ord_in do_
      | _, _ => false
      end
  | _, _ => false
  end.
Definition LinkInv (st : store) : Prop := forallb (link_okb (s_nodes st)) (s_links st) = true.

(* ------------------------------------------------------------------ from a fine link to the two rule clauses *)
Definition ser (st : store) (e : edge) : edge :=
  {| e_src := e_src e; e_soff := constrain_out st (e_src e) (e_soff e);
     e_dst := e_dst e; e_doff := constrain_in st (e_dst e) (e_doff e) |}.
Lemma to_serial_edges st : g_edges (to_serial st) = map (ser st) (s_links st).
Proof. reflexivity. Qed.

Definition kinds_clause (g : graph) (e : edge) : bool :=
  match resolve g e with
  | Some r => match op_of g (r_dst r) with
              | Some do_ => match kind_in do_ (r_do r) with
                            | Some k => pkind_eqb (r_kind r) k
                            | None => false
                            end
              | None => false
              end
  | None => false
  end.
Definition counts_clause (g : graph) (e : edge) : bool :=
  match op_of g (e_src e), op_of g (e_dst e) with
  | Some so, Some do_ =>
      match (match e_soff e with Some x => Some x | None => other_port_out so end),
            (match e_doff e with Some x => Some x | None => other_port_in do_ end) with
      | Some a, Some b => (a <? count_out so) && (b <? count_in do_)
      | _, _ => false
      end
  | _, _ => false
  end.
Lemma edge_kinds_unfold g : r_edge_kinds g = forallb (kinds_clause g) (g_edges g).
Proof. reflexivity. Qed.
Lemma port_counts_unfold g : r_port_counts g = forallb (counts_clause g) (g_edges g).
Proof. reflexivity. Qed.

Lemma kind_out_value o a t : nthN (val_out o) a = Some t -> kind_out o a = Some (KValue t) /\ a < count_out o.
Proof.
  intros H. pose proof (nthN_lt _ _ _ H) as L. unfold kind_out, count_out, base_out.
  destruct (N.ltb_spec a (lenN (val_out o))); [|lia]. rewrite H. split; [reflexivity|lia].
Qed.
Lemma kind_in_value o a t : nthN (val_in o) a = Some t -> kind_in o a = Some (KValue t) /\ a < count_in o.
Proof.
  intros H. pose proof (nthN_lt _ _ _ H) as L. unfold kind_in, count_in, base_in.
  destruct (N.ltb_spec a (lenN (val_in o))); [|lia]. rewrite H. split; [reflexivity|lia].
Qed.
Lemma kind_out_order o : ord_out o = true -> kind_out o (base_out o) = Some KOrder /\ base_out o < count_out o.
Proof.
  intros H. assert (S : static_out o = None /\ other_out o = (Some KOrder, 1)) by (destruct o; try discriminate H; split; reflexivity).
  destruct S as [S1 S2]. unfold kind_out, count_out, base_out. rewrite S1, S2. cbn [is_some b2N fst snd andb].
  rewrite N.add_0_r, N.ltb_irrefl. destruct (N.ltb_spec (lenN (val_out o)) (lenN (val_out o) + 1)); [|lia]. split; [reflexivity|lia].
Qed.
Lemma kind_in_order o : ord_in o = true -> kind_in o (base_in o) = Some KOrder /\ base_in o < count_in o.
Proof.
  intros H. assert (S : other_in o = (Some KOrder, 1)) by (destruct o; try discriminate H; reflexivity).
  unfold kind_in, count_in, base_in. rewrite S. cbn [fst snd].
  set (n := lenN (val_in o)). set (s := b2N (is_some (static_in o))).
  destruct (N.ltb_spec (n + s) n); [lia|].
  assert (E : is_some (static_in o) && (n + s =? n) = false).
  { subst s. destruct (static_in o); cbn [is_some b2N]; [|reflexivity]. cbn [andb]. apply N.eqb_neq. lia. }
  rewrite E. destruct (N.ltb_spec (n + s) (n + s + 1)); [|lia]. split; [reflexivity|lia].
Qed.

Lemma link_ok_serial st e : link_okb (s_nodes st) e = true ->
  kinds_clause (to_serial st) (ser st e) = true /\ counts_clause (to_serial st) (ser st e) = true.
Proof.
  unfold link_okb, kinds_clause, counts_clause, resolve, op_of, op_at, ser, constrain_out, constrain_in, s_op, to_serial.
  cbn [g_nodes e_src e_dst e_soff e_doff].
  destruct (option_map n_op (nthN (s_nodes st) (e_src e))) as [so|]; [|discriminate].
  destruct (option_map n_op (nthN (s_nodes st) (e_dst e))) as [do_|] eqn:Ed; [|discriminate].
  destruct (e_soff e) as [a|], (e_doff e) as [b|]; try discriminate.
  - destruct (nthN (val_out so) a) as [t|] eqn:Ea.
    + destruct (nthN (val_in do_) b) as [t'|] eqn:Eb.
      * intros H. apply N.eqb_eq in H. subst t'.
        destruct (kind_out_value _ _ _ Ea) as [K1 C1]. destruct (kind_in_value _ _ _ Eb) as [K2 C2].
        rewrite K1. cbn [r_dst r_do r_kind]. rewrite Ed, K2. cbn [pkind_eqb]. rewrite N.eqb_refl.
        split; [reflexivity|]. apply andb_true_iff. split; now apply N.ltb_lt.
      * destruct so; try discriminate. destruct do_; try discriminate. intros H.
        apply andb_true_iff in H. destruct H as [H H3]. apply andb_true_iff in H. destruct H as [H1 H2].
        apply N.eqb_eq in H1, H2, H3. subst a b ty. cbn. rewrite Ed. cbn. rewrite N.eqb_refl. auto.
    + destruct so; try discriminate. destruct do_; try discriminate. intros H.
      apply andb_true_iff in H. destruct H as [H H3]. apply andb_true_iff in H. destruct H as [H1 H2].
      apply N.eqb_eq in H1, H2, H3. subst a b ty. cbn. rewrite Ed. cbn. rewrite N.eqb_refl. auto.
  - intros H. apply andb_true_iff in H. destruct H as [H1 H2].
    destruct (kind_out_order _ H1) as [K1 C1]. destruct (kind_in_order _ H2) as [K2 C2].
    rewrite K1. cbn [r_dst r_do r_kind]. rewrite Ed, K2. split; [reflexivity|].
    apply andb_true_iff. split; now apply N.ltb_lt.
Qed.

Lemma LinkInv_rules st : LinkInv st -> r_edge_kinds (to_serial st) = true /\ r_port_counts (to_serial st) = true.
Proof.
  intros H. rewrite edge_kinds_unfold, port_counts_unfold, to_serial_edges, !forallb_map.
  unfold LinkInv in H. rewrite forallb_forall in H.
  split; apply forallb_forall; intros e Hin; apply (link_ok_serial st e (H _ Hin)).
Qed.

(* ------------------------------------------------------------------ operations only grow *)
Definition grows (o o' : vop) : Prop :=
  (forall a t, nthN (val_out o) a = Some t -> nthN (val_out o') a = Some t) /\
  (forall a t, nthN (val_in o) a = Some t -> nthN (val_in o') a = Some t) /\
  ord_out o' = ord_out o /\ ord_in o' = ord_in o /\
  (forall v, o = Const v -> o' = Const v) /\ (forall t, o = LoadConst t -> o' = LoadConst t).
Lemma grows_refl o : grows o o.
Proof. repeat split; auto. Qed.
Lemma grows_trans a b c : grows a b -> grows b c -> grows a c.
Proof.
  intros (A1 & A2 & A3 & A4 & A5 & A6) (B1 & B2 & B3 & B4 & B5 & B6). repeat split; auto; try congruence.
Qed.
Definition Grow (l l' : list vnode) : Prop :=
  forall k nd, nthN l k = Some nd -> exists nd', nthN l' k = Some nd' /\ grows (n_op nd) (n_op nd').
Lemma Grow_refl l : Grow l l.
Proof. intros k nd H. exists nd. split; [exact H|apply grows_refl]. Qed.
Lemma Grow_trans a b c : Grow a b -> Grow b c -> Grow a c.
Proof.
  intros H1 H2 k nd E. destruct (H1 _ _ E) as (nd1 & E1 & G1). destruct (H2 _ _ E1) as (nd2 & E2 & G2).
  exists nd2. split; [exact E2|eapply grows_trans; eauto].
Qed.
Lemma Grow_app l ext : Grow l (l ++ ext).
Proof. intros k nd H. exists nd. split; [now apply nthN_app1|apply grows_refl]. Qed.
Lemma Grow_set l n nd x : nthN l n = Some nd -> grows (n_op nd) (n_op x) -> Grow l (set_nth l (N.to_nat n) x).
Proof.
  intros E G k nd0 H. destruct (N.eq_dec k n) as [->|Hne].
  - exists x. split; [apply nthN_set_nth_eq; eapply nthN_lt; eauto|]. rewrite E in H. now inversion H; subst.
  - exists nd0. split; [now rewrite nthN_set_nth_neq|apply grows_refl].
Qed.
Lemma Grow_snoc l x y : grows (n_op x) (n_op y) -> Grow (l ++ [x]) (l ++ [y]).
Proof.
  intros G k nd H. apply nthN_snoc_inv in H. destruct H as [H|[-> ->]].
  - exists nd. split; [now apply nthN_app1|apply grows_refl].
  - exists y. split; [apply nthN_len|exact G].
Qed.
Lemma Keep_Grow st st' : Keep st st' -> Grow (s_nodes st) (s_nodes st').
Proof.
  intros K k nd H. exists nd. split; [|apply grows_refl]. rewrite K; [exact H|]. eapply nthN_lt; eauto.
Qed.

Lemma nthN_nil {A} a : nthN (@nil A) a = None.
Proof. unfold nthN. destruct (N.to_nat a); reflexivity. Qed.
Lemma link_okb_grow l l' e : Grow l l' -> link_okb l e = true -> link_okb l' e = true.
Proof.
  intros G. unfold link_okb, op_at.
  destruct (nthN l (e_src e)) as [ns|] eqn:Es; [|discriminate].
  destruct (nthN l (e_dst e)) as [nd|] eqn:Ed; [|discriminate]. cbn [option_map].
  destruct (G _ _ Es) as (ns' & Es' & (S1 & _ & S3 & _ & S5 & _)).
  destruct (G _ _ Ed) as (nd' & Ed' & (_ & D2 & _ & D4 & _ & D6)).
  rewrite Es', Ed'. cbn [option_map].
  destruct (e_soff e) as [a|], (e_doff e) as [b|]; try discriminate.
  - destruct (nthN (val_out (n_op ns)) a) as [t|] eqn:Ea.
    + destruct (nthN (val_in (n_op nd)) b) as [t'|] eqn:Eb.
      * now rewrite (S1 _ _ Ea), (D2 _ _ Eb).
      * destruct (n_op ns) eqn:Eos; try discriminate. cbn in Ea. rewrite nthN_nil in Ea. discriminate.
    + destruct (n_op ns) eqn:Eos; try discriminate. destruct (n_op nd) eqn:Eod; try discriminate.
      rewrite (S5 _ eq_refl), (D6 _ eq_refl). cbn [val_out df_sig]. now rewrite nthN_nil.
  - now rewrite S3, D4.
Qed.
Lemma LinkInv_grow l l' es : Grow l l' -> forallb (link_okb l) es = true -> forallb (link_okb l') es = true.
Proof. intros G. apply forallb_impl_in. intros e _. now apply link_okb_grow. Qed.

Lemma grows_completed tys o ts op' : completed_op tys o ts = Ok op' -> grows (initial_op o) op'.
Proof.
  assert (X : forall a t, nthN (@nil tyid) a = Some t -> False) by (intros a t; unfold nthN; destruct (N.to_nat a); discriminate).
  assert (Y : forall i oo, grows (ExtOp [] []) (ExtOp i oo)).
  { intros i oo. repeat split; try discriminate; intros a t H; cbn in H; elim (X _ _ H). }
  destruct o; cbn [completed_op initial_op]; intros H.
  - inversion H; apply grows_refl.
  - inversion H; apply grows_refl.
  - destruct ts as [|t [|]]; inversion H; apply Y.
  - destruct (find_sum tys [ts]); inversion H; apply Y.
  - destruct ts as [|t [|]]; try discriminate. destruct (nthN tys t) as [[c rows| |]|]; try discriminate.
    destruct rows as [|rw [|]]; try discriminate. inversion H; apply Y.
Qed.

(* ------------------------------------------------------------------ the proper ancestor found by _ancestral_sibling is a DFG *)
Lemma anc_sib_from_cases fuel : forall st sp t a,
  anc_sib_from fuel st sp t = Some a -> a = t \/ exists c, s_parent st c = Some a.
Proof.
  induction fuel as [|f IH]; intros st sp t a; cbn [anc_sib_from]; [discriminate|].
  destruct (s_parent st t) as [tp|] eqn:E; [|discriminate].
  destruct (optN_eqb (Some tp) sp).
  - intros H. inversion H. now left.
  - intros H. right. destruct (IH _ _ _ _ H) as [->|X]; eauto.
Qed.
Lemma proper_anc_is_dfg st s t a : anc_sib st s t = Some a -> a <> t -> Good (s_nodes st) -> ModelOps (s_nodes st) ->
  exists nd, nthN (s_nodes st) a = Some nd /\ is_dfg (n_op nd) = true.
Proof.
  intros H Hne (T & _) M. unfold anc_sib in H. apply anc_sib_from_cases in H. destruct H as [->|[c Hc]]; [contradiction|].
  unfold s_parent in Hc. destruct (N.eqb_spec c 0); [discriminate|].
  destruct (nthN (s_nodes st) c) as [ndc|] eqn:Ec; [|discriminate]. cbn in Hc. inversion Hc; subst a.
  eapply parent_is_dfg; eauto.
Qed.
Lemma model_out_ord o a t : model_op o = true -> nthN (val_out o) a = Some t -> ord_out o = true.
Proof.
  assert (X : forall a t, nthN (@nil tyid) a = Some t -> False) by (intros a' t'; unfold nthN; destruct (N.to_nat a'); discriminate).
  destruct o; cbn; try discriminate; auto; intros _ H; elim (X _ _ H).
Qed.
Lemma is_dfg_ord_in o : is_dfg o = true -> ord_in o = true. Proof. now destruct o. Qed.

Lemma olink_ok st w node a t :
  anc_sib st (fst w) node = Some a -> a <> node -> port_type st w = Ok t -> Good (s_nodes st) -> ModelOps (s_nodes st) ->
  link_okb (s_nodes st) (olink (fst w) a) = true.
Proof.
  intros HA Hne HT G M. destruct (proper_anc_is_dfg _ _ _ _ HA Hne G M) as (nd & En & Hd).
  unfold port_type, s_op in HT. destruct (nthN (s_nodes st) (fst w)) as [ns|] eqn:Es; [|discriminate]. cbn in HT.
  destruct (nthN (val_out (n_op ns)) (snd w)) as [t'|] eqn:Et; [|discriminate].
  unfold link_okb, op_at, olink. cbn [e_src e_dst e_soff e_doff]. rewrite Es, En. cbn [option_map].
  rewrite (model_out_ord _ _ _ (forallb_nthN _ _ _ _ M Es) Et), (is_dfg_ord_in _ Hd). reflexivity.
Qed.

(* the links _wire_up adds are fine once the target's input row is the list of recorded types *)
Lemma WNew_link_ok st node ws : forall i ts new, WNew st node i ws ts new ->
  Good (s_nodes st) -> ModelOps (s_nodes st) -> forall l', Grow (s_nodes st) l' ->
  (exists nd', nthN l' node = Some nd' /\ forall j t, nthN ts j = Some t -> nthN (val_in (n_op nd')) (i + j) = Some t) ->
  forallb (link_okb l') new = true.
Proof.
  intros i ts new H. induction H; intros G M l' GR (nd' & En' & Hin); [reflexivity|].
  rewrite forallb_app. apply andb_true_iff. split.
  - destruct H0 as [->|[-> Hne]]; [reflexivity|]. cbn [forallb]. rewrite andb_true_r.
    eapply link_okb_grow; [exact GR|]. eapply olink_ok; eauto.
  - cbn [forallb]. apply andb_true_iff. split.
    + unfold port_type, s_op in H1. destruct (nthN (s_nodes st) (fst w)) as [ns|] eqn:Es; [|discriminate]. cbn in H1.
      destruct (nthN (val_out (n_op ns)) (snd w)) as [t'|] eqn:Et; [|discriminate]. inversion H1; subst t'.
      destruct (GR _ _ Es) as (ns' & Es' & (S1 & _)).
      unfold link_okb, op_at, vlink. cbn [e_src e_dst e_soff e_doff]. rewrite Es', En'. cbn [option_map].
      rewrite (S1 _ _ Et). specialize (Hin 0 t eq_refl). rewrite N.add_0_r in Hin. rewrite Hin. apply N.eqb_refl.
    + apply IHWNew; auto. exists nd'. split; [exact En'|]. intros j t' Hj.
      replace (i + 1 + j) with (i + (j + 1)) by lia. apply Hin. now rewrite nthN_S.
Qed.

Lemma WNew_LinksOK st node ws : forall i ts new, WNew st node i ws ts new ->
  forallb (fun e => (e_src e <? s_len st) && (e_dst e <? s_len st)) new = true.
Proof.
  intros i ts new H. induction H; [reflexivity|].
  rewrite forallb_app. apply andb_true_iff. split.
  - destruct H0 as [->|[-> Hne]]; [reflexivity|]. cbn. rewrite andb_true_r.
    apply andb_true_iff. split; apply N.ltb_lt; [exact H2|].
    unfold anc_sib in H. apply anc_sib_from_has_parent in H. destruct H as [p Hp]. unfold s_parent in Hp.
    destruct (a =? 0); [discriminate|]. destruct (nthN (s_nodes st) a) eqn:Ea; [|discriminate]. eapply nthN_lt; eauto.
  - cbn [forallb vlink e_src e_dst]. rewrite IHWNew, andb_true_r. apply andb_true_iff. split; now apply N.ltb_lt.
Qed.

(* ------------------------------------------------------------------ the type environment read off the store *)
Definition type_at (l : list vnode) (p : N * N) : option tyid :=
  match nthN l (fst p) with Some nd => nthN (val_out (n_op nd)) (snd p) | None => None end.
Definition G_of (l : list vnode) (e : env) : tenv := map (fun x => (fst x, type_at l (snd x))) (e_wires e).

Lemma port_type_type_at st w t : port_type st w = Ok t <-> type_at (s_nodes st) w = Some t.
Proof.
  unfold port_type, type_at, s_op. destruct (nthN (s_nodes st) (fst w)) as [nd|]; cbn; [|split; discriminate].
  destruct (nthN (val_out (n_op nd)) (snd w)); split; intros H; inversion H; reflexivity.
Qed.
Lemma lookup_map_snd {A B} (f : A -> B) (l : list (N * A)) k :
  lookup (map (fun x => (fst x, f (snd x))) l) k = option_map f (lookup l k).
Proof. induction l as [|[k' v] l IH]; cbn; [reflexivity|]. destruct (k =? k'); [reflexivity|exact IH]. Qed.

Lemma wire_tys_types l e args : forall ws ts, get_wires e args = Ok ws -> wire_tys (G_of l e) args = Some ts ->
  Forall2 (fun p t => type_at l p = Some t) ws ts.
Proof.
  induction args as [|w r IH]; intros ws ts; cbn [get_wires wire_tys].
  - intros H1 H2. inversion H1; inversion H2. constructor.
  - unfold get_wire, wire_ty, G_of. rewrite lookup_map_snd.
    destruct (lookup (e_wires e) w) as [p|]; [|discriminate]. cbn [bind option_map].
    destruct (get_wires e r) as [ps|]; [|discriminate]. cbn [bind]. intros H1. inversion H1; subst.
    destruct (type_at l p) as [t|] eqn:Et; [|discriminate].
    fold (G_of l e). destruct (wire_tys (G_of l e) r) as [ts'|]; [|discriminate]. intros H2. inversion H2; subst.
    constructor; auto.
Qed.
Lemma WNew_types2 st node ws : forall i ts new, WNew st node i ws ts new ->
  Forall2 (fun p t => type_at (s_nodes st) p = Some t) ws ts.
Proof. intros i ts new H. induction H; constructor; auto. now apply port_type_type_at. Qed.
Lemma types_agree l l' ws : forall ts ts',
  Forall2 (fun p t => type_at l p = Some t) ws ts -> Forall2 (fun p t => type_at l' p = Some t) ws ts' ->
  (forall p, In p ws -> type_at l' p = type_at l p) -> ts' = ts.
Proof.
  induction ws as [|w r IH]; intros ts ts' H1 H2 E; inversion H1; inversion H2; subst; [reflexivity|].
  f_equal.
  - rewrite (E w (or_introl eq_refl)) in H8. congruence.
  - apply IH; auto. intros p Hp. apply E. now right.
Qed.

Lemma G_of_ext l l' e : (forall w p, In (w, p) (e_wires e) -> type_at l' p = type_at l p) -> G_of l' e = G_of l e.
Proof.
  intros H. unfold G_of. apply map_ext_in. intros [w p] Hin. cbn [fst snd]. now rewrite (H _ _ Hin).
Qed.
Lemma G_of_bind_from l n nd ws : nthN l n = Some nd -> forall e i,
  G_of l (bind_outs_from e n i ws) = tbind_from (G_of l e) i ws (val_out (n_op nd)).
Proof.
  intros En. induction ws as [|w r IH]; intros e i; cbn [bind_outs_from tbind_from]; [reflexivity|].
  rewrite IH. f_equal. unfold G_of. cbn [e_wires map fst snd]. unfold type_at at 1. cbn [fst snd]. now rewrite En.
Qed.
Lemma type_at_keep st st' p : Keep st st' -> fst p < s_len st -> type_at (s_nodes st') p = type_at (s_nodes st) p.
Proof. intros K L. unfold type_at. now rewrite K. Qed.
Lemma type_at_app l ext p : fst p < lenN l -> type_at (l ++ ext) p = type_at l p.
Proof. intros L. unfold type_at. now rewrite nthN_app_lt. Qed.

(* ------------------------------------------------------------------ statements name nodes with order ports; Tag / Const nodes *)
Definition StmtsOK (l : list vnode) (e : env) : Prop :=
  forall s n, In (s, n) (e_stmts e) -> exists nd, nthN l n = Some nd /\ ord_out (n_op nd) = true /\ ord_in (n_op nd) = true.
Lemma StmtsOK_grow l l' e : Grow l l' -> StmtsOK l e -> StmtsOK l' e.
Proof.
  intros G H s n Hin. destruct (H _ _ Hin) as (nd & En & A & B). destruct (G _ _ En) as (nd' & En' & (_ & _ & C & D & _)).
  exists nd'. split; [exact En'|]. now rewrite C, D.
Qed.
Lemma StmtsOK_bind l e id n nd rs : StmtsOK l e -> nthN l n = Some nd -> ord_out (n_op nd) = true -> ord_in (n_op nd) = true ->
  StmtsOK l (bind_outs (bind_stmt e id n) n rs).
Proof.
  intros H En A B s m Hin. unfold bind_outs in Hin. rewrite bind_outs_from_stmts in Hin. cbn in Hin.
  destruct Hin as [Hin|Hin]; [inversion Hin; subst; eauto|eauto].
Qed.
Lemma StmtsOK_bind_in l e n ws : StmtsOK l e -> StmtsOK l (bind_outs e n ws).
Proof. intros H s m Hin. unfold bind_outs in Hin. rewrite bind_outs_from_stmts in Hin. eauto. Qed.

Definition node_okb (tys : list tyinfo) (nd : vnode) : bool :=
  match n_op nd with
  | Tag t vs s => is_sum_of tys s vs && (t <? lenN vs)
  | Const v => value_ok tys [] v
  | _ => true
  end.
Definition NodesOK (tys : list tyinfo) (l : list vnode) : Prop := forallb (node_okb tys) l = true.

Lemma derived_types_of tys l : ModelOps l -> NodesOK tys l -> r_derived_types tys (Gn l) = true /\ r_const tys [] (Gn l) = true.
Proof.
  intros M H. unfold r_derived_types, r_const, NodesOK, ModelOps in *. cbn [Gn g_nodes].
  rewrite forallb_forall in H, M. split; apply forallb_forall; intros nd Hin; specialize (H _ Hin); specialize (M _ Hin);
    unfold node_okb in H; destruct (n_op nd); try discriminate M; auto.
Qed.

(* ------------------------------------------------------------------ the structural invariants at the entry of a nested region *)
Lemma Good_region l ts p : Good l -> kind_at l p (DFG [] []) ->
  Good (l ++ [mk (DFG ts []) p; mk (Input ts) (lenN l); mk (Output []) (lenN l)]).
Proof.
  intros G K. set (st := {| s_nodes := l; s_links := [] |}).
  assert (Lp : p < lenN l) by (destruct K as (nd & En & _); eapply nthN_lt; eauto).
  set (st1 := {| s_nodes := l ++ [mk (DFG ts []) p]; s_links := [] |}).
  set (st2 := {| s_nodes := s_nodes st1 ++ [mk (Input ts) (lenN l)]; s_links := [] |}).
  set (st3 := {| s_nodes := s_nodes st2 ++ [mk (Output []) (lenN l)]; s_links := [] |}).
  assert (A1 : add_node st (DFG ts []) p = Ok (st1, lenN l)).
  { unfold add_node, s_len. cbn [st s_nodes s_links]. destruct (N.ltb_spec p (lenN l)); [reflexivity|lia]. }
  assert (A2 : add_node st1 (Input ts) (lenN l) = Ok (st2, lenN l + 1)).
  { unfold add_node, s_len. cbn [st1 s_nodes s_links]. rewrite lenN_app.
    destruct (N.ltb_spec (lenN l) (lenN l + lenN [mk (DFG ts []) p])); [reflexivity|cbn in *; lia]. }
  assert (A3 : add_node st2 (Output []) (lenN l) = Ok (st3, lenN l + 2)).
  { unfold add_node, s_len. cbn [st2 st1 s_nodes s_links]. rewrite !lenN_app.
    destruct (N.ltb_spec (lenN l) (lenN l + lenN [mk (DFG ts []) p] + lenN [mk (Input ts) (lenN l)])); [|cbn in *; lia].
    do 2 f_equal. cbn. lia. }
  assert (I : Inv st) by (split; [exact G|reflexivity]).
  destruct (new_region_inv _ _ _ _ _ _ _ _ _ A1 A2 A3 I K) as ([G3 _] & _ & _).
  cbn [st3 st2 st1 s_nodes] in G3. rewrite <- !app_assoc in G3. exact G3.
Qed.

Lemma nested_entry st b e ws ts new st3 st4 :
  Inv st -> Abase st -> OpenB (s_nodes st) b -> EnvRange st e ->
  (forall w, In w ws -> 0 < fst w /\ fst w < s_len st) ->
  s_nodes st3 = s_nodes st ++ [mk (DFG ts []) (b_parent b); mk (Input ts) (s_len st); mk (Output []) (s_len st)] ->
  WNew st3 (s_len st) 0 ws ts new -> s_nodes st4 = s_nodes st3 -> s_links st4 = s_links st ++ new ->
  Inv st4 /\ Abase st4 /\ OpenB (s_nodes st4) {| b_parent := s_len st; b_in := s_len st + 1; b_out := s_len st + 2 |} /\
  EnvRange st4 e /\ s_len st4 = s_len st + 3.
Proof.
  intros [G K] (M & IO & LP) OB ER Hws En3 HW En4 El4.
  pose proof (OpenB_lt _ _ OB) as Lb. fold (s_len st) in Lb.
  assert (Hl3 : s_len st3 = s_len st + 3) by (rewrite (s_len_app _ _ _ En3); reflexivity).
  assert (Hl4 : s_len st4 = s_len st + 3) by (rewrite (s_len_nodes _ _ En4); exact Hl3).
  split; [|split; [|split; [|split]]]; auto.
  - split.
    + rewrite En4, En3. apply Good_region; [exact G|]. exact (proj1 (OpenB_WB _ _ OB)).
    + unfold LinksOK. rewrite El4, forallb_app. apply andb_true_iff. split.
      * revert K. unfold LinksOK. apply forallb_impl_in. intros x _ H. apply andb_true_iff in H. destruct H as [X Y].
        apply N.ltb_lt in X, Y. apply andb_true_iff. split; apply N.ltb_lt; lia.
      * pose proof (WNew_LinksOK _ _ _ _ _ _ HW) as H. rewrite Hl3 in H. now rewrite Hl4.
  - split; [|split].
    + rewrite En4, En3. apply ModelOps_app; [exact M|reflexivity].
    + rewrite En4, En3. apply io_ok_app_region. exact IO.
    + eapply LinksPos_app; [exact El4|exact LP|]. eapply WNew_pos; [exact HW| |lia]. intros w Hw. now apply Hws.
  - split; [reflexivity|]. split; [reflexivity|]. exists ts, (b_parent b). cbn [b_parent]. rewrite En4, En3. split.
    + apply nthN_len.
    + rewrite nthN_app_ge by (unfold s_len; lia). unfold s_len.
      replace (lenN (s_nodes st) + 2 - lenN (s_nodes st)) with 2 by lia. reflexivity.
  - eapply EnvRange_mono; [|exact ER]. lia.
Qed.

(* ------------------------------------------------------------------ small facts about the operations *)
Lemma row_eqb_eq a b : row_eqb a b = true -> a = b.
Proof. unfold row_eqb. destruct (list_eqb_spec N.eqb N.eqb_spec a b); [auto|discriminate]. Qed.
Lemma ord_out_canon o : ord_out (canon o) = ord_out o. Proof. now destruct o. Qed.
Lemma ord_in_canon o : ord_in (canon o) = ord_in o. Proof. now destruct o. Qed.
Lemma initial_ord o : ord_out (initial_op o) = true /\ ord_in (initial_op o) = true. Proof. now destruct o. Qed.
Lemma completed_ord tys o ts op' : completed_op tys o ts = Ok op' -> ord_out op' = true /\ ord_in op' = true.
Proof.
  intros C. pose proof (completed_canon tys _ _ _ C) as Hc. destruct (initial_ord o) as [A B].
  rewrite <- ord_out_canon, <- ord_in_canon, Hc, ord_out_canon, ord_in_canon. auto.
Qed.
Lemma completed_node_ok tys o ts op' p : completed_op tys o ts = Ok op' -> opspec_ok tys o = true -> node_okb tys (mk op' p) = true.
Proof.
  destruct o; cbn [completed_op opspec_ok]; intros H K.
  - inversion H; reflexivity.
  - inversion H; subst. exact K.
  - destruct ts as [|t [|]]; inversion H; reflexivity.
  - destruct (find_sum tys [ts]); inversion H; reflexivity.
  - destruct ts as [|t [|]]; try discriminate. destruct (nthN tys t) as [[c rows| |]|]; try discriminate.
    destruct rows as [|rw [|]]; try discriminate. inversion H; reflexivity.
Qed.
Lemma grows_output ts : grows (Output []) (Output ts).
Proof. repeat split; try discriminate; intros a t H; cbn in H; rewrite nthN_nil in H; discriminate. Qed.
Lemma grows_dfg i ts : grows (DFG i []) (DFG i ts).
Proof. repeat split; try discriminate; auto. intros a t H; cbn in H; rewrite nthN_nil in H; discriminate. Qed.

Section TypeMain.
  Variable tys : list tyinfo.

  Record Bpre (st : store) (b : dfb) (e : env) (G : tenv) : Prop := {
    bp_inv : Inv st; bp_base : Abase st; bp_open : OpenB (s_nodes st) b; bp_range : EnvRange st e;
    bp_not : WiresNot (b_parent b) e; bp_stmts : StmtsOK (s_nodes st) e; bp_G : G_of (s_nodes st) e = G;
    bp_links : LinkInv st; bp_nodes : NodesOK tys (s_nodes st) }.

  Lemma stmt_pre s b st e st' e' G : exec_stmt tys s b st e = Ok (st', e') -> Bpre st b e G ->
    Inv st' /\ Abase st' /\ OpenB (s_nodes st') b /\ EnvRange st' e' /\ WiresNot (b_parent b) e' /\ Keep st st' /\
    s_len st <= s_len st'.
  Proof.
    intros H P. destruct (exec_keeps_invariants tys) as (KS & _ & _). destruct (exec_frame tys) as (FSs & _ & _).
    destruct (KS _ _ _ _ _ _ H (bp_inv _ _ _ _ P) (OpenB_WB _ _ (bp_open _ _ _ _ P))) as [I' _].
    destruct (FSs _ _ _ _ _ _ H (bp_base _ _ _ _ P) (bp_open _ _ _ _ P) (bp_range _ _ _ _ P)) as (A' & K & L & R' & X).
    split; [exact I'|]. split; [exact A'|]. split; [eapply OpenB_keep; [exact K|exact (bp_open _ _ _ _ P)]|].
    split; [exact R'|]. split; [|split; [exact K|exact L]].
    eapply WiresNot_ext; [exact X| |exact (bp_not _ _ _ _ P)].
    pose proof (OpenB_lt _ _ (bp_open _ _ _ _ P)). unfold s_len. lia.
  Qed.
  Lemma stmts_pre l b st e st' e' G : exec_stmts tys l b st e = Ok (st', e') -> Bpre st b e G ->
    Keep st st' /\ s_len st <= s_len st'.
  Proof.
    intros H P. destruct (exec_frame tys) as (_ & _ & FLl).
    destruct (FLl _ _ _ _ _ _ H (bp_base _ _ _ _ P) (bp_open _ _ _ _ P) (bp_range _ _ _ _ P)) as (_ & K & L & _). auto.
  Qed.

  Definition TS (s : stmt) : Prop := forall b st e st' e' G G',
    exec_stmt tys s b st e = Ok (st', e') -> wt_stmt tys s G = Some G' -> Bpre st b e G -> Bpre st' b e' G'.
  Definition TR (r : region) : Prop := forall b st e st' e' G G' ins outs pp,
    exec_region tys r b st e = Ok (st', e') -> wt_region tys r ins G = Some (G', outs) -> Bpre st b e G ->
    nthN (s_nodes st) (b_parent b) = Some (mk (DFG ins []) pp) ->
    LinkInv st' /\ NodesOK tys (s_nodes st') /\ StmtsOK (s_nodes st') e' /\ G_of (s_nodes st') e' = G' /\
    nthN (s_nodes st') (b_parent b) = Some (mk (DFG ins outs) pp).
  Definition TL (l : stmts) : Prop := forall b st e st' e' G G',
    exec_stmts tys l b st e = Ok (st', e') -> wt_stmts tys l G = Some G' -> Bpre st b e G -> Bpre st' b e' G'.

  Lemma node_of_ord b e st r n : node_of b e r = Ok n -> OpenB (s_nodes st) b -> io_ok (s_nodes st) -> StmtsOK (s_nodes st) e ->
    exists nd, nthN (s_nodes st) n = Some nd /\ (r <> ROut -> ord_out (n_op nd) = true) /\ (r <> RIn -> ord_in (n_op nd) = true).
  Proof.
    intros H (Ei & Eo & i & pp & Hp & Ho) IO SK. destruct r as [| |s]; cbn in H.
    - inversion H; subst n. destruct (IO _ _ _ _ Hp eq_refl) as [A _]. rewrite Ei. eexists. split; [exact A|].
      split; [reflexivity|congruence].
    - inversion H; subst n. rewrite Eo. eexists. split; [exact Ho|]. split; [congruence|reflexivity].
    - destruct (lookup (e_stmts e) s) as [m|] eqn:E; [|discriminate]. inversion H; subst m.
      apply lookup_In in E. destruct (SK _ _ E) as (nd & En & A & B). exists nd. auto.
  Qed.

  Lemma exec_typed : (forall s, TS s) /\ (forall r, TR r) /\ (forall l, TL l).
  Proof.
    apply prog_mutind; unfold TS, TR, TL.
    - (* SOp *)
      intros id o args rs b st e st' e' G G' H W P. cbn [wt_stmt] in W.
      destruct (wire_tys G args) as [ts_s|] eqn:WT; [|discriminate].
      destruct (completed_op tys o ts_s) as [op_s|] eqn:CS; [|discriminate].
      destruct (row_eqb (val_in op_s) ts_s && opspec_ok tys o) eqn:CK; [|discriminate]. inversion W; subst G'; clear W.
      apply andb_true_iff in CK. destruct CK as [CK1 CK2].
      destruct (stmt_pre _ _ _ _ _ _ _ H P) as (I' & A' & O' & R' & N' & K & L).
      destruct P as [I A O R Nn SK EG LI NO].
      apply SOp_spec in H. destruct H as (ws & ts & op' & new & st1 & Gw & Lp & En1 & El1 & HW & C & En' & El' & ->).
      assert (ts = ts_s).
      { eapply (types_agree (s_nodes st) (s_nodes st1) ws).
        - eapply wire_tys_types; eauto. now rewrite EG.
        - eapply WNew_types2; eauto.
        - intros p Hp. rewrite En1. apply type_at_app. apply (get_wires_pos _ _ _ _ R Gw _ Hp). }
      subst ts_s. rewrite C in CS. inversion CS; subst op_s; clear CS.
      assert (G1 : Good (s_nodes st1)).
      { eapply Good_sk; [|exact (proj1 I')]. rewrite En1, En', !map_app. f_equal. cbn. unfold cnode. cbn.
        now rewrite (completed_canon tys _ _ _ C). }
      assert (M1 : ModelOps (s_nodes st1)).
      { rewrite En1. apply ModelOps_app; [exact (proj1 A)|]. unfold ModelOps. cbn. now rewrite initial_model. }
      assert (GR1 : Grow (s_nodes st1) (s_nodes st')).
      { rewrite En1, En'. apply Grow_snoc. cbn. eapply grows_completed; eauto. }
      assert (GR : Grow (s_nodes st) (s_nodes st')) by (rewrite En'; apply Grow_app).
      assert (Hn : nthN (s_nodes st') (s_len st) = Some (mk op' (b_parent b))) by (rewrite En'; unfold s_len; apply nthN_len).
      destruct (completed_ord _ _ _ _ C) as [OO OI].
      constructor; auto.
      + eapply StmtsOK_bind; eauto. eapply StmtsOK_grow; eauto.
      + unfold bind_outs. rewrite (G_of_bind_from _ _ _ rs Hn). cbn [mk n_op]. unfold tbind. f_equal.
        unfold G_of at 1. cbn [bind_stmt e_wires]. fold (G_of (s_nodes st') e). rewrite <- EG. apply G_of_ext.
        intros w p Hin. rewrite En'. apply type_at_app. apply (proj1 R _ _ Hin).
      + unfold LinkInv. rewrite El', forallb_app. apply andb_true_iff. split.
        * eapply LinkInv_grow; eauto.
        * eapply WNew_link_ok; eauto. exists (mk op' (b_parent b)). split; [exact Hn|]. cbn [mk n_op]. rewrite (row_eqb_eq _ _ CK1).
          intros j t Hj. now rewrite N.add_0_l.
      + unfold NodesOK. rewrite En', forallb_app. apply andb_true_iff. split; [exact NO|]. cbn [forallb].
        rewrite andb_true_r. eapply completed_node_ok; eauto.
    - (* SLoad *)
      intros id v cp r b st e st' e' G G' H W P. cbn [wt_stmt] in W.
      destruct (value_ok tys [] v) eqn:VO; [|discriminate]. inversion W; subst G'; clear W.
      destruct (stmt_pre _ _ _ _ _ _ _ H P) as (I' & A' & O' & R' & N' & K & L).
      destruct P as [I A O R Nn SK EG LI NO].
      apply SLoad_spec in H. destruct H as (En' & El' & ->).
      assert (GR : Grow (s_nodes st) (s_nodes st')) by (rewrite En'; apply Grow_app).
      assert (Hc : nthN (s_nodes st') (s_len st) = Some (mk (Const v) (match cp with CHere => b_parent b | CRoot => 0 end)))
        by (rewrite En'; unfold s_len; apply nthN_len).
      assert (Hn : nthN (s_nodes st') (s_len st + 1) = Some (mk (LoadConst (value_ty v)) (b_parent b))).
      { rewrite En'. rewrite nthN_app_ge by (unfold s_len; lia). unfold s_len.
        replace (lenN (s_nodes st) + 1 - lenN (s_nodes st)) with 1 by lia. reflexivity. }
      constructor; auto.
      + eapply StmtsOK_bind; eauto. eapply StmtsOK_grow; eauto.
      + unfold bind_outs. rewrite (G_of_bind_from _ _ _ [r] Hn). cbn [mk n_op]. unfold tbind. f_equal.
        unfold G_of at 1. cbn [bind_stmt e_wires]. fold (G_of (s_nodes st') e). rewrite <- EG. apply G_of_ext.
        intros w p Hin. rewrite En'. apply type_at_app. apply (proj1 R _ _ Hin).
      + unfold LinkInv. rewrite El', forallb_app. apply andb_true_iff. split; [eapply LinkInv_grow; eauto|].
        cbn [forallb]. rewrite andb_true_r. unfold link_okb, op_at. cbn [e_src e_dst e_soff e_doff]. rewrite Hc, Hn.
        cbn [option_map mk n_op val_out val_in df_sig]. rewrite nthN_nil. cbn. apply N.eqb_refl.
      + unfold NodesOK. rewrite En', forallb_app. apply andb_true_iff. split; [exact NO|]. cbn. now rewrite VO.
    - (* SNested *)
      intros id args body IH rs b st e st' e' G G' H W P. cbn [wt_stmt] in W.
      destruct (wire_tys G args) as [ts_s|] eqn:WT; [|discriminate].
      match type of W with match ?x with _ => _ end = _ => destruct x as [[G1 outs]|] eqn:WR; [|discriminate] end.
      inversion W; subst G'; clear W.
      destruct (stmt_pre _ _ _ _ _ _ _ H P) as (I' & A' & O' & R' & N' & K & L).
      destruct P as [I A O R Nn SK EG LI NO].
      apply SNested_spec in H.
      destruct H as (ws & ts & new & st3 & st4 & e5 & Gw & T & Lp & En3 & El3 & HW & En4 & El4 & X & ->).
      assert (ts = ts_s).
      { eapply (types_agree (s_nodes st) (s_nodes st3) ws).
        - eapply wire_tys_types; eauto. now rewrite EG.
        - eapply WNew_types2; eauto.
        - intros p Hp. rewrite En3. apply type_at_app. apply (get_wires_pos _ _ _ _ R Gw _ Hp). }
      subst ts_s.
      destruct (nested_entry _ _ _ _ _ _ _ _ I A O R (get_wires_pos _ _ _ _ R Gw) En3 HW En4 El4) as (I4 & A4 & O4 & R4 & L4).
      set (d := s_len st) in *.
      assert (GR4 : Grow (s_nodes st) (s_nodes st4)) by (rewrite En4, En3; apply Grow_app).
      assert (Hd : nthN (s_nodes st4) d = Some (mk (DFG ts []) (b_parent b))) by (rewrite En4, En3; apply nthN_len).
      assert (P4 : Bpre st4 {| b_parent := d; b_in := d + 1; b_out := d + 2 |} e G).
      { constructor; auto.
        - intros w p Hin. cbn [b_parent]. pose proof (proj1 R _ _ Hin). fold d in H. lia.
        - eapply StmtsOK_grow; eauto.
        - rewrite <- EG. apply G_of_ext. intros w p Hin. rewrite En4, En3. apply type_at_app. apply (proj1 R _ _ Hin).
        - unfold LinkInv. rewrite El4, forallb_app. apply andb_true_iff. split; [eapply LinkInv_grow; eauto|].
          eapply WNew_link_ok; [exact HW| | | |].
          + rewrite <- En4. exact (proj1 I4).
          + rewrite <- En4. exact (proj1 A4).
          + rewrite <- En4. apply Grow_refl.
          + exists (mk (DFG ts []) (b_parent b)). split; [exact Hd|]. intros j t Hj. now rewrite N.add_0_l.
        - unfold NodesOK. rewrite En4, En3, forallb_app. apply andb_true_iff. split; [exact NO|reflexivity]. }
      destruct (IH _ _ _ _ _ _ _ _ _ _ X WR P4 Hd) as (LI' & NO' & SK' & EG' & Hd').
      cbn [b_parent] in Hd'.
      constructor; auto.
      + eapply StmtsOK_bind; eauto.
      + unfold bind_outs. rewrite (G_of_bind_from _ _ _ rs Hd'). cbn [mk n_op val_out df_sig]. unfold tbind. f_equal.
        exact EG'.
    - (* SOrder *)
      intros src dst b st e st' e' G G' H W P. cbn [wt_stmt] in W.
      destruct (order_ends_ok src dst) eqn:OE; [|discriminate]. inversion W; subst G'; clear W.
      destruct (stmt_pre _ _ _ _ _ _ _ H P) as (I' & A' & O' & R' & N' & K & L).
      destruct P as [I A O R Nn SK EG LI NO].
      apply SOrder_spec in H. destruct H as (a & c & Na & Nc & En' & El' & ->).
      constructor; auto; try (rewrite En'; assumption).
      unfold LinkInv. rewrite En'. destruct El' as [->| ->]; [exact LI|].
      rewrite forallb_app. apply andb_true_iff. split; [exact LI|]. cbn [forallb]. rewrite andb_true_r.
      destruct (node_of_ord _ _ _ _ _ Na O (proj1 (proj2 A)) SK) as (na & Ea & Oa & _).
      destruct (node_of_ord _ _ _ _ _ Nc O (proj1 (proj2 A)) SK) as (nc & Ec & _ & Oc).
      unfold order_ends_ok in OE. apply andb_true_iff in OE. destruct OE as [OE1 OE2].
      unfold link_okb, op_at, olink. cbn [e_src e_dst e_soff e_doff]. rewrite Ea, Ec. cbn [option_map].
      rewrite Oa, Oc; [reflexivity| |]; intros ->; discriminate.
    - (* Region *)
      intros wids body IH oids b st e st' e' G G' ins outs pp H W P Hp. cbn [wt_region] in W.
      match type of W with match ?x with _ => _ end = _ => destruct x as [G1|] eqn:WB; [|discriminate] end.
      destruct (wire_tys G1 oids) as [outs_s|] eqn:WO; [|discriminate]. inversion W; subst G' outs_s; clear W.
      apply exec_region_inv in H. destruct H as (st1 & ws & X & Gw & SO).
      pose proof P as [I A O R Nn SK EG LI NO].
      pose proof O as (Ei & Eo & _).
      pose proof (OpenB_lt _ _ O) as Lb. fold (s_len st) in Lb.
      destruct (proj1 (proj2 A) _ _ _ _ Hp eq_refl) as [Hin _].
      assert (P0 : Bpre st b (bind_outs e (b_in b) wids) (tbind G wids ins)).
      { constructor; auto.
        - apply EnvRange_bind_in; [exact R|lia|lia].
        - apply WiresNot_bind_in; [exact Nn|lia].
        - now apply StmtsOK_bind_in.
        - unfold bind_outs. rewrite Ei. rewrite (G_of_bind_from _ _ _ wids Hin). cbn [mk n_op val_out df_sig].
          unfold tbind. now rewrite EG. }
      destruct (stmts_pre _ _ _ _ _ _ _ X P0) as [K1 L1].
      pose proof (IH _ _ _ _ _ _ _ X WB P0) as [I1 A1 O1 R1 Nn1 SK1 EG1 LI1 NO1].
      destruct (set_outputs_spec _ _ _ _ SO O1) as (ts & new & i & pp' & HW & El' & Hp1 & En').
      assert (Hpe : mk (DFG i []) pp' = mk (DFG ins []) pp) by (rewrite K1 in Hp1 by lia; congruence).
      inversion Hpe; subst i pp'; clear Hpe.
      assert (ts = outs).
      { eapply (types_agree (s_nodes st1) (s_nodes st1) ws).
        - eapply wire_tys_types; eauto. now rewrite EG1.
        - eapply WNew_types2; eauto.
        - reflexivity. }
      subst ts. rewrite Eo in HW.
      destruct O1 as (_ & _ & i1 & pp1 & Hp1' & Ho1).
      set (p := b_parent b) in *.
      set (l2 := set_nth (s_nodes st1) (N.to_nat (p + 2)) (mk (Output outs) p)) in *.
      assert (GR2 : Grow (s_nodes st1) l2) by (eapply Grow_set; [exact Ho1|apply grows_output]).
      assert (Hp2 : nthN l2 p = Some (mk (DFG ins []) pp)) by (unfold l2; rewrite nthN_set_nth_neq by lia; exact Hp1).
      assert (GR3 : Grow l2 (s_nodes st')) by (rewrite En'; eapply Grow_set; [exact Hp2|apply grows_dfg]).
      assert (GR : Grow (s_nodes st1) (s_nodes st')) by (eapply Grow_trans; eauto).
      assert (Lo : p + 2 < lenN (s_nodes st1)) by (eapply nthN_lt; eauto).
      assert (Ho' : nthN (s_nodes st') (p + 2) = Some (mk (Output outs) p)).
      { rewrite En'. rewrite nthN_set_nth_neq by lia. unfold l2. now apply nthN_set_nth_eq. }
      split; [|split; [|split; [|split]]].
      + unfold LinkInv. rewrite El', forallb_app. apply andb_true_iff. split; [eapply LinkInv_grow; eauto|].
        eapply WNew_link_ok; [exact HW|exact (proj1 I1)|exact (proj1 A1)|exact GR|].
        exists (mk (Output outs) p). split; [exact Ho'|]. intros j t Hj. now rewrite N.add_0_l.
      + unfold NodesOK. rewrite En'. apply forallb_set_nth; [|reflexivity]. apply forallb_set_nth; [exact NO1|reflexivity].
      + eapply StmtsOK_grow; eauto.
      + rewrite <- EG1. apply G_of_ext. intros w q Hq. pose proof (Nn1 _ _ Hq) as Hne. fold p in Hne.
        unfold type_at. rewrite En'. rewrite nthN_set_nth_neq by exact Hne. unfold l2.
        destruct (N.eq_dec (fst q) (p + 2)) as [E2|E2].
        * rewrite E2, nthN_set_nth_eq by exact Lo. rewrite Ho1. cbn. now rewrite !nthN_nil.
        * now rewrite nthN_set_nth_neq by exact E2.
      + rewrite En'. apply nthN_set_nth_eq. unfold l2. rewrite lenN_set_nth. eapply nthN_lt; eauto.
    - (* SNil *)
      intros b st e st' e' G G' H W P. cbn in H, W. inversion H; inversion W; subst. exact P.
    - (* SCons *)
      intros s IHs r IHr b st e st' e' G G' H W P. cbn [wt_stmts] in W.
      match type of W with match ?x with _ => _ end = _ => destruct x as [G1|] eqn:W1; [|discriminate] end.
      apply exec_SCons_inv in H. destruct H as (st1 & e1 & X1 & X2).
      eapply IHr; eauto.
  Qed.
End TypeMain.

(* ------------------------------------------------------------------ the theorem *)
Lemma init_Bpre tys ins : Bpre tys (st0 ins) b0 e0 [].
Proof.
  constructor.
  - apply init_Inv.
  - apply init_Abase.
  - apply init_OpenB.
  - apply init_EnvRange.
  - intros w p [].
  - intros s n [].
  - reflexivity.
  - reflexivity.
  - reflexivity.
Qed.

Theorem exec_prog_typed tys p st : wt_prog tys p = true -> exec_prog tys p = Ok st ->
  LinkInv st /\ NodesOK tys (s_nodes st).
Proof.
  destruct p as [ins body]. unfold wt_prog. intros W H.
  destruct (wt_region tys body ins []) as [[G' outs]|] eqn:WR; [|discriminate].
  apply exec_prog_inv in H. destruct H as [e' H].
  destruct (exec_typed tys) as (_ & TRr & _).
  destruct (TRr _ _ _ _ _ _ _ _ _ _ _ H WR (init_Bpre tys ins) eq_refl) as (LI & NO & _). auto.
Qed.

Theorem run_ports_kinds tys p g : wt_prog tys p = true -> run tys p = Ok g ->
  r_port_counts g = true /\ r_edge_kinds g = true /\ r_derived_types tys g = true /\ r_const tys [] g = true.
Proof.
  unfold run. intros W H. bd H. rename v into st. inversion H; subst; clear H.
  destruct (exec_prog_typed _ _ _ W E) as [LI NO]. destruct (exec_prog_frame _ _ _ E) as [_ (M & _)].
  destruct (LinkInv_rules _ LI) as [A B]. destruct (derived_types_of _ _ M NO) as [C D]. auto.
Qed.

(* non-vacuity: a well-typed program with a constant kept at the root, a nested region that uses an outer wire
   (Ext edge + order edge), the partial operations MakeTuple / UnpackTuple / Noop, a Tag, an extension operation
   with a fixed signature, a linear value threaded through and an explicit order edge; it runs, and the whole
   `valid` accepts its document *)
Definition ex2_tys : list tyinfo := [TAtom true; TSum true [[0; 0]]; TSum true [[]; []]; TAtom false].
Definition ex2_prog : prog :=
  PDfg [0; 3] (Region [1; 11]
    (SCons (SLoad 1 (VSum 2 1 []) CRoot 2)
    (SCons (SNested 2 [1] (Region [3]
        (SCons (SOp 3 OMakeTuple [3; 1] [4])
        (SCons (SOp 4 OUnpackTuple [4] [5; 6])
        (SCons (SOp 5 (OTag 1 [[]; []] 2) [] [7])
         SNil))) [5; 7]) [8; 9])
    (SCons (SOp 6 (OFixed [0; 2] [0]) [8; 2] [10])
    (SCons (SOp 7 ONoop [11] [12])
    (SCons (SOrder RIn (RStmt 6)) SNil))))) [10; 12]).
Example ex2_runs : wt_prog ex2_tys ex2_prog = true /\
  exists g, run ex2_tys ex2_prog = Ok g /\
    valid {| v_tys := ex2_tys; v_main := g; v_subs := [] |} = true /\ length (g_nodes g) = 13%nat /\
    existsb (fun e => negb (optN_eqb (parent_of g (e_src e)) (parent_of g (e_dst e)))) (g_edges g) = true.
Proof. split; [vm_compute; reflexivity|]. eexists. split; [vm_compute; reflexivity|]. repeat split; vm_compute; reflexivity. Qed.

(* the typed invariants at the entry of a nested region (the bookkeeping of the SNested case, for reuse) *)
Lemma nested_Bpre tys st b e G args ws ts new st3 st4 :
  Bpre tys st b e G -> get_wires e args = Ok ws -> wire_tys G args = Some ts ->
  s_nodes st3 = s_nodes st ++ [mk (DFG ts []) (b_parent b); mk (Input ts) (s_len st); mk (Output []) (s_len st)] ->
  WNew st3 (s_len st) 0 ws ts new -> s_nodes st4 = s_nodes st3 -> s_links st4 = s_links st ++ new ->
  Bpre tys st4 {| b_parent := s_len st; b_in := s_len st + 1; b_out := s_len st + 2 |} e G /\
  nthN (s_nodes st4) (s_len st) = Some (mk (DFG ts []) (b_parent b)).
Proof.
  intros [I A O R Nn SK EG LI NO] Gw WT En3 HW En4 El4.
  destruct (nested_entry _ _ _ _ _ _ _ _ I A O R (get_wires_pos _ _ _ _ R Gw) En3 HW En4 El4) as (I4 & A4 & O4 & R4 & L4).
  set (d := s_len st) in *.
  assert (GR4 : Grow (s_nodes st) (s_nodes st4)) by (rewrite En4, En3; apply Grow_app).
  assert (Hd : nthN (s_nodes st4) d = Some (mk (DFG ts []) (b_parent b))) by (rewrite En4, En3; apply nthN_len).
  split; [|exact Hd]. constructor; auto.
  - intros w p Hin. cbn [b_parent]. pose proof (proj1 R _ _ Hin). fold d in H. lia.
  - eapply StmtsOK_grow; eauto.
  - rewrite <- EG. apply G_of_ext. intros w p Hin. rewrite En4, En3. apply type_at_app. apply (proj1 R _ _ Hin).
  - unfold LinkInv. rewrite El4, forallb_app. apply andb_true_iff. split; [eapply LinkInv_grow; eauto|].
    eapply WNew_link_ok; [exact HW| | | |].
    + rewrite <- En4. exact (proj1 I4).
    + rewrite <- En4. exact (proj1 A4).
    + rewrite <- En4. apply Grow_refl.
    + exists (mk (DFG ts []) (b_parent b)). split; [exact Hd|]. intros j t Hj. now rewrite N.add_0_l.
  - unfold NodesOK. rewrite En4, En3, forallb_app. apply andb_true_iff. split; [exact NO|reflexivity].
Qed.

(* the wire types the checker reads are the ones _wire_up records *)
Lemma wired_types tys st b e G args ws ts_s st1 ext node i ts new :
  Bpre tys st b e G -> get_wires e args = Ok ws -> wire_tys G args = Some ts_s ->
  s_nodes st1 = s_nodes st ++ ext -> WNew st1 node i ws ts new -> ts = ts_s.
Proof.
  intros [I A O R Nn SK EG LI NO] Gw WT En1 HW.
  eapply (types_agree (s_nodes st) (s_nodes st1) ws).
  - eapply wire_tys_types; eauto. now rewrite EG.
  - eapply WNew_types2; eauto.
  - intros p Hp. rewrite En1. apply type_at_app. apply (get_wires_pos _ _ _ _ R Gw _ Hp).
Qed.
