(* Proofs for C04 (whole store): the invariant of the node table / free stack / hierarchy / counters and
   the refinement of every mutator to the sequential specification of spec/GraphS.v. *)
From Coq Require Import List Bool Arith ZArith Lia Permutation.
Import ListNotations.
From HV Require Import lib.PyDict lib.Harness model.BiMapM proofs.BiMapP model.Graph spec.GraphS proofs.GraphP.

(* ------------------------------------------------------------------ lists *)
Lemma nth_error_set_nth {A} (l : list A) : forall n x m,
  nth_error (set_nth l n x) m =
  if Nat.eqb m n then match nth_error l n with Some _ => Some x | None => None end else nth_error l m.
Proof.
  induction l as [|a r IH]; intros n x m; cbn.
  - destruct (Nat.eqb m n); destruct n, m; reflexivity.
  - destruct n as [|n], m as [|m]; cbn; try reflexivity. apply IH.
Qed.
Lemma length_set_nth {A} (l : list A) : forall n x, length (set_nth l n x) = length l.
Proof. induction l as [|a r IH]; intros [|n] x; cbn; auto. Qed.
Lemma remove1_perm {A} (eqb : A -> A -> bool) (Heq : forall a b, reflect (a = b) (eqb a b)) x (l : list A) :
  forall l', remove1 eqb x l = Some l' -> Permutation l (x :: l').
Proof.
  induction l as [|y r IH]; cbn; intros l'; [discriminate|].
  destruct (Heq x y) as [->|Hne]; [intros [= ->]; reflexivity|].
  destruct (remove1 eqb x r) as [r'|]; [|discriminate]. intros [= <-].
  rewrite perm_swap. constructor. now apply IH.
Qed.
Lemma remove1_none {A} (eqb : A -> A -> bool) (Heq : forall a b, reflect (a = b) (eqb a b)) x (l : list A) :
  remove1 eqb x l = None -> ~ In x l.
Proof.
  induction l as [|y r IH]; cbn; [tauto|].
  destruct (Heq x y) as [->|Hne]; [discriminate|].
  destruct (remove1 eqb x r); [discriminate|]. intros _ [E|H]; [congruence|]. now apply IH.
Qed.
Lemma remove1_some {A} (eqb : A -> A -> bool) (Heq : forall a b, reflect (a = b) (eqb a b)) x (l : list A) :
  In x l -> remove1 eqb x l <> None.
Proof. intros H E. now apply (remove1_none eqb Heq) in E. Qed.
(* removing the only occurrence = filtering it out *)
Lemma remove1_filter (x : nat) (l : list nat) : NoDup l -> In x l ->
  remove1 Nat.eqb x l = Some (filter (fun c => negb (Nat.eqb c x)) l).
Proof.
  induction l as [|y r IH]; cbn; [tauto|]. intros Hnd Hin. inversion Hnd; subst.
  destruct (Nat.eqb_spec x y) as [->|Hne].
  - rewrite Nat.eqb_refl. cbn. f_equal. symmetry. apply filter_id. intros z Hz.
    destruct (Nat.eqb_spec z y) as [->|]; [contradiction|reflexivity].
  - destruct Hin as [E|Hin]; [congruence|]. rewrite (IH H2 Hin).
    destruct (Nat.eqb_spec y x); [congruence|]. reflexivity.
Qed.

Lemma NoDup_app_intro {A} (l1 l2 : list A) :
  NoDup l1 -> NoDup l2 -> (forall x, In x l1 -> In x l2 -> False) -> NoDup (l1 ++ l2).
Proof.
  induction l1 as [|a r IH]; cbn; intros H1 H2 Hd; [exact H2|]. inversion H1; subst.
  constructor.
  - rewrite in_app_iff. intros [H|H]; [contradiction|]. exact (Hd a (or_introl eq_refl) H).
  - apply IH; auto. intros x Hx. apply Hd. now right.
Qed.

Section W.
  Context {Op Meta : Type}.
  Notation hugr := (hugr Op Meta).
  Notation node_data := (node_data Op Meta).
  Notation agraph := (agraph Op Meta).
  Notation aget := (dget Nat.eqb).

  (* ---------------------------------------------------------------- node table *)
  Lemma get_node_lt (h : hugr) n d : get_node h n = Some d -> n < length (nodes h).
  Proof.
    unfold get_node. destruct (nth_error (nodes h) n) eqn:E; [|discriminate]. intros _.
    apply nth_error_Some. congruence.
  Qed.
  Lemma get_set_node (h : hugr) n d m : n < length (nodes h) ->
    get_node (set_node h n d) m = if Nat.eqb m n then Some d else get_node h m.
  Proof.
    intros Hn. unfold get_node, set_node, with_nodes. cbn [nodes]. rewrite nth_error_set_nth.
    destruct (Nat.eqb m n); [|reflexivity].
    destruct (nth_error (nodes h) n) eqn:E; [reflexivity|]. apply nth_error_None in E. lia.
  Qed.
  Lemma links_set_node (h : hugr) n d : links (set_node h n d) = links h.
  Proof. reflexivity. Qed.

  (* ---------------------------------------------------------------- the invariant *)
  Definition FreeOK (h : hugr) : Prop :=
    NoDup (free h) /\ forall n, In n (free h) <-> (n < length (nodes h) /\ get_node h n = None).
  Definition Cover (h : hugr) : Prop :=
    forall s t, In (s, t) (lm_links (links h)) ->
      (exists d, get_node h (fst s) = Some d /\ (-1 <= snd s < nd_outs d)%Z) /\
      (exists d, get_node h (fst t) = Some d /\ (-1 <= snd t < nd_inps d)%Z).
  Definition Tree (h : hugr) : Prop :=
    (exists d, get_node h (root h) = Some d /\ nd_parent d = None) /\
    (forall n d, get_node h n = Some d -> n <> root h ->
       exists p pd, nd_parent d = Some p /\ get_node h p = Some pd /\ In n (nd_children pd)) /\
    (forall p pd c, get_node h p = Some pd -> In c (nd_children pd) ->
       exists d, get_node h c = Some d /\ nd_parent d = Some p) /\
    (forall p pd, get_node h p = Some pd -> NoDup (nd_children pd)).
  Definition Inv (h : hugr) : Prop := LInv (links h) /\ FreeOK h /\ Cover h /\ Tree h.

  (* ---------------------------------------------------------------- abstraction *)
  Definition anode_of (d : node_data) : anode Op Meta :=
    {| a_op := nd_op d; a_parent := nd_parent d; a_children := nd_children d; a_meta := nd_meta d;
       a_nin := nd_inps d; a_nout := nd_outs d |}.
  Definition Rep (h : hugr) (g : agraph) : Prop :=
    (forall n, option_map anode_of (get_node h n) = aget (a_nodes g) n) /\
    NoDup (map fst (a_nodes g)) /\
    Permutation (lm_links (links h)) (a_links g) /\ root h = a_root g.

  Lemma rep_live h g n : Rep h g -> a_live g n = true <-> get_node h n <> None.
  Proof.
    intros (Hn & _). unfold a_live. rewrite <- Hn. destruct (get_node h n); cbn; split; congruence.
  Qed.

  (* ---------------------------------------------------------------- the index oracle
     [prefer pick h] permutes the list of free indices, or grows the table by free slots up to the chosen index:
     every query, the invariant and the representation relation are insensitive to it, so every statement below
     holds for EVERY choice of index *)
  Lemma pick_first_spec (f : nid) (fr : list nid) : NoDup fr ->
    NoDup (pick_first f fr) /\ forall x, In x (pick_first f fr) <-> In x fr.
  Proof.
    intros Hnd. unfold pick_first. destruct (mem_spec Nat.eqb Nat.eqb_spec f fr) as [Hin|Hn]; [|tauto].
    split.
    - constructor; [|now apply NoDup_filter].
      intros H. apply filter_In in H. destruct H as [_ H]. now rewrite Nat.eqb_refl in H.
    - intros x. cbn [In]. rewrite filter_In. destruct (Nat.eqb_spec x f) as [->|Hne]; cbn; [tauto|].
      split; [intros [E|[H _]]; [congruence|assumption]|intros H; right; split; [assumption|reflexivity]].
  Qed.
  Lemma prefer_links pick (h : hugr) : links (prefer pick h) = links h.
  Proof. destruct pick as [f|]; [|reflexivity]. unfold prefer. now destruct (Nat.ltb f (length (nodes h))). Qed.
  Lemma prefer_root pick (h : hugr) : root (prefer pick h) = root h.
  Proof. destruct pick as [f|]; [|reflexivity]. unfold prefer. now destruct (Nat.ltb f (length (nodes h))). Qed.
  Lemma nth_error_grow {A} (l : list (option A)) k n :
    match nth_error (l ++ repeat None k) n with Some (Some d) => Some d | _ => None end =
    match nth_error l n with Some (Some d) => Some d | _ => None end.
  Proof.
    destruct (Nat.lt_ge_cases n (length l)) as [Hlt|Hge].
    - now rewrite nth_error_app1.
    - rewrite nth_error_app2 by assumption.
      assert (nth_error l n = None) as -> by now apply nth_error_None.
      destruct (nth_error (repeat None k) (n - length l)) as [x|] eqn:E; [|reflexivity].
      apply nth_error_In, repeat_spec in E. now subst x.
  Qed.
  Lemma prefer_get pick (h : hugr) n : get_node (prefer pick h) n = get_node h n.
  Proof.
    destruct pick as [f|]; [|reflexivity]. unfold prefer. destruct (Nat.ltb f (length (nodes h))); [reflexivity|].
    unfold get_node. cbn [nodes]. apply nth_error_grow.
  Qed.
  Lemma prefer_length pick (h : hugr) : length (nodes h) <= length (nodes (prefer pick h)).
  Proof.
    destruct pick as [f|]; [|reflexivity]. unfold prefer. destruct (Nat.ltb f (length (nodes h))); [reflexivity|].
    cbn [nodes]. rewrite app_length. lia.
  Qed.
  Lemma FreeOK_prefer pick (h : hugr) : FreeOK h -> FreeOK (prefer pick h).
  Proof.
    destruct pick as [f|]; [|auto]. intros (Hnd & Hfree). unfold prefer.
    destruct (Nat.ltb_spec f (length (nodes h))) as [Hlt|Hge].
    - destruct (pick_first_spec f (free h) Hnd) as [Hnd' Hin].
      split; cbn [free nodes]; [exact Hnd'|]. intros n. rewrite Hin. exact (Hfree n).
    - set (L := length (nodes h)). set (k := S f - L).
      set (h' := {| nodes := nodes h ++ repeat None k; links := links h; free := rev (seq L k) ++ free h; root := root h |}).
      assert (Hg : forall n, get_node h' n = get_node h n) by (intros n; unfold get_node; cbn [nodes h']; apply nth_error_grow).
      split; cbn [free nodes h'].
      + apply NoDup_app_intro.
        * apply NoDup_rev, seq_NoDup.
        * exact Hnd.
        * intros x Hx Hx'. apply in_rev, in_seq in Hx. apply Hfree in Hx'. fold L in Hx'. lia.
      + intros n. rewrite in_app_iff, <- in_rev, in_seq, app_length, repeat_length. fold L. fold h'. rewrite Hg, Hfree. fold L.
        split.
        * intros [H|[H1 H2]]; [|split; [lia|exact H2]]. split; [lia|].
          unfold get_node. assert (nth_error (nodes h) n = None) as -> by (apply nth_error_None; fold L; lia). reflexivity.
        * intros [H1 H2]. destruct (Nat.lt_ge_cases n L); [right; tauto|left; lia].
  Qed.
  Lemma Inv_prefer pick (h : hugr) : Inv h -> Inv (prefer pick h).
  Proof.
    intros (HL & HF & HC & HT).
    split; [now rewrite prefer_links|]. split; [exact (FreeOK_prefer pick h HF)|]. split.
    - intros s t. rewrite prefer_links, !prefer_get. exact (HC s t).
    - destruct HT as (H1 & H2 & H3 & H4). unfold Tree. rewrite prefer_root.
      repeat split; try (setoid_rewrite prefer_get); assumption.
  Qed.
  Lemma Rep_prefer pick (h : hugr) g : Rep h g -> Rep (prefer pick h) g.
  Proof.
    intros (H1 & H2 & H3 & H4). split; [intros n; rewrite prefer_get; apply H1|].
    split; [exact H2|]. split; [now rewrite prefer_links|now rewrite prefer_root].
  Qed.
  (* an admissible choice is the index the next add_node takes *)
  Lemma prefer_head f (h : hugr) : In f (free h) \/ length (nodes h) <= f -> exists r, free (prefer (Some f) h) = f :: r.
  Proof.
    intros Hin. unfold prefer. destruct (Nat.ltb_spec f (length (nodes h))) as [Hlt|Hge]; cbn [free].
    - destruct Hin as [Hin|Hin]; [|lia]. unfold pick_first.
      destruct (mem_spec Nat.eqb Nat.eqb_spec f (free h)); [eauto|contradiction].
    - replace (S f - length (nodes h)) with (S (f - length (nodes h))) by lia.
      rewrite seq_S, rev_app_distr. cbn [rev app]. replace (length (nodes h) + (f - length (nodes h))) with f by lia. eauto.
  Qed.
  Lemma dead_is_admissible f (h : hugr) : FreeOK h -> get_node h f = None -> In f (free h) \/ length (nodes h) <= f.
  Proof.
    intros (_ & Hfree) Hd. destruct (Nat.lt_ge_cases f (length (nodes h))); [left; apply Hfree; tauto|now right].
  Qed.

  (* pointwise effect of a_upd *)
  Lemma aget_dset (l : list (nid * anode Op Meta)) k v k' :
    aget (dset Nat.eqb l k v) k' = if Nat.eqb k' k then Some v else aget l k'.
  Proof.
    destruct (Nat.eqb_spec k' k) as [->|Hne].
    - apply (dget_dset_same Nat.eqb Nat.eqb_spec).
    - now apply (dget_dset_other Nat.eqb Nat.eqb_spec).
  Qed.
  Lemma aget_ddel (l : list (nid * anode Op Meta)) k k' : NoDup (map fst l) ->
    aget (ddel Nat.eqb l k) k' = if Nat.eqb k' k then None else aget l k'.
  Proof.
    intros Hnd. destruct (Nat.eqb_spec k' k) as [->|Hne].
    - now apply (dget_ddel_same Nat.eqb Nat.eqb_spec).
    - now apply (dget_ddel_other Nat.eqb Nat.eqb_spec).
  Qed.
  Lemma aget_app_fresh (l : list (nid * anode Op Meta)) k v k' : aget l k = None ->
    aget (l ++ [(k, v)]) k' = if Nat.eqb k' k then Some v else aget l k'.
  Proof.
    intros H. rewrite <- aget_dset. f_equal. symmetry.
    induction l as [|[a b] r IH]; cbn in *; [reflexivity|].
    destruct (Nat.eqb k a); [discriminate|]. now rewrite IH.
  Qed.
  Lemma a_upd_get (g : agraph) n f k :
    aget (a_nodes (a_upd g n f)) k =
    if Nat.eqb k n then option_map f (aget (a_nodes g) n) else aget (a_nodes g) k.
  Proof.
    unfold a_upd. destruct (aget (a_nodes g) n) as [a|] eqn:E; cbn [a_nodes option_map].
    - apply aget_dset.
    - destruct (Nat.eqb_spec k n) as [->|]; [assumption|reflexivity].
  Qed.
  Lemma a_upd_links (g : agraph) n f : a_links (a_upd g n f) = a_links g.
  Proof. unfold a_upd. destruct (aget (a_nodes g) n); reflexivity. Qed.
  Lemma a_upd_root (g : agraph) n f : a_root (a_upd g n f) = a_root g.
  Proof. unfold a_upd. destruct (aget (a_nodes g) n); reflexivity. Qed.
  Lemma keys_dset_nodup (l : list (nid * anode Op Meta)) k v : NoDup (map fst l) -> NoDup (map fst (dset Nat.eqb l k v)).
  Proof. apply (nodup_dset Nat.eqb Nat.eqb_spec). Qed.
  Lemma a_upd_nodup (g : agraph) n f : NoDup (map fst (a_nodes g)) -> NoDup (map fst (a_nodes (a_upd g n f))).
  Proof. unfold a_upd. destruct (aget (a_nodes g) n); cbn [a_nodes]; [apply keys_dset_nodup|auto]. Qed.

  (* ---------------------------------------------------------------- updating one live node *)
  Definition h_upd (h : hugr) (n : nid) (f : node_data -> node_data) : hugr :=
    match get_node h n with Some d => set_node h n (f d) | None => h end.
  Lemma h_upd_get h n f k :
    get_node (h_upd h n f) k = if Nat.eqb k n then option_map f (get_node h n) else get_node h k.
  Proof.
    unfold h_upd. destruct (get_node h n) as [d|] eqn:E; cbn [option_map].
    - apply get_set_node. eapply get_node_lt; eassumption.
    - destruct (Nat.eqb_spec k n) as [->|]; [assumption|reflexivity].
  Qed.
  Lemma h_upd_links h n f : links (h_upd h n f) = links h.
  Proof. unfold h_upd. destruct (get_node h n); reflexivity. Qed.
  Lemma h_upd_free h n f : free (h_upd h n f) = free h.
  Proof. unfold h_upd. destruct (get_node h n); reflexivity. Qed.
  Lemma h_upd_root h n f : root (h_upd h n f) = root h.
  Proof. unfold h_upd. destruct (get_node h n); reflexivity. Qed.
  Lemma h_upd_length h n f : length (nodes (h_upd h n f)) = length (nodes h).
  Proof. unfold h_upd. destruct (get_node h n); [|reflexivity]. cbn. apply length_set_nth. Qed.

  Definition NodesRep (h : hugr) (g : agraph) : Prop :=
    forall n, option_map anode_of (get_node h n) = aget (a_nodes g) n.
  Lemma h_upd_rep h g n f fa : NodesRep h g -> (forall d, anode_of (f d) = fa (anode_of d)) ->
    NodesRep (h_upd h n f) (a_upd g n fa).
  Proof.
    intros HR Hf k. rewrite h_upd_get, a_upd_get. destruct (Nat.eqb k n); [|apply HR].
    rewrite <- HR. destruct (get_node h n); cbn; [now rewrite Hf|reflexivity].
  Qed.

  (* ---------------------------------------------------------------- extensionality of the invariant parts *)
  Lemma FreeOK_ext (h h' : hugr) :
    (forall x, get_node h' x = None <-> get_node h x = None) -> free h' = free h ->
    length (nodes h') = length (nodes h) -> FreeOK h -> FreeOK h'.
  Proof. intros Hg Hf Hl (A & B). unfold FreeOK. rewrite Hf, Hl. split; [assumption|]. intros n. rewrite Hg. apply B. Qed.
  Definition shape (d : node_data) := (nd_parent d, nd_children d).
  Lemma Tree_ext (h h' : hugr) :
    (forall x, option_map shape (get_node h' x) = option_map shape (get_node h x)) -> root h' = root h ->
    Tree h -> Tree h'.
  Proof.
    intros Hs Hr (T1 & T2 & T3 & T4).
    assert (Hto : forall x d', get_node h' x = Some d' -> exists d, get_node h x = Some d /\ shape d = shape d').
    { intros x d' E. specialize (Hs x). rewrite E in Hs. destruct (get_node h x) as [d|]; [|discriminate].
      exists d. split; [reflexivity|]. cbn in Hs. congruence. }
    assert (Hfrom : forall x d, get_node h x = Some d -> exists d', get_node h' x = Some d' /\ shape d = shape d').
    { intros x d E. specialize (Hs x). rewrite E in Hs. destruct (get_node h' x) as [d'|]; [|discriminate].
      exists d'. split; [reflexivity|]. cbn in Hs. congruence. }
    unfold Tree. rewrite Hr. split; [|split; [|split]].
    - destruct T1 as (d & E & P). destruct (Hfrom _ _ E) as (d' & E' & S). exists d'. split; [assumption|].
      unfold shape in S. congruence.
    - intros n d' E Hn. destruct (Hto _ _ E) as (d & E0 & S). destruct (T2 n d E0 Hn) as (p & pd & P & Ep & Hin).
      destruct (Hfrom _ _ Ep) as (pd' & Ep' & S'). exists p, pd'. unfold shape in S, S'.
      split; [congruence|]. split; [assumption|]. congruence.
    - intros p pd' c E Hin. destruct (Hto _ _ E) as (pd & E0 & S). unfold shape in S.
      assert (Hin0 : In c (nd_children pd)) by congruence.
      destruct (T3 p pd c E0 Hin0) as (d & Ec & P). destruct (Hfrom _ _ Ec) as (d' & Ec' & S').
      exists d'. split; [assumption|]. unfold shape in S'. congruence.
    - intros p pd' E. destruct (Hto _ _ E) as (pd & E0 & S). unfold shape in S.
      replace (nd_children pd') with (nd_children pd) by congruence. eapply T4; eassumption.
  Qed.
  (* counters may only grow, links may only shrink *)
  Lemma Cover_mono (h h' : hugr) :
    (forall x d, get_node h x = Some d -> exists d', get_node h' x = Some d' /\
        (nd_outs d <= nd_outs d')%Z /\ (nd_inps d <= nd_inps d')%Z) ->
    (forall l, In l (lm_links (links h')) -> In l (lm_links (links h))) -> Cover h -> Cover h'.
  Proof.
    intros Hm Hl HC s t Hin. destruct (HC s t (Hl _ Hin)) as ((d & E & B) & (d2 & E2 & B2)). split.
    - destruct (Hm _ _ E) as (d' & E' & Lo & Li). exists d'. split; [assumption|lia].
    - destruct (Hm _ _ E2) as (d' & E' & Lo & Li). exists d'. split; [assumption|lia].
  Qed.

  (* ---------------------------------------------------------------- add_link *)
  Definition fo (s : port) (d : node_data) := set_outs d (Z.max (nd_outs d) (snd s + 1)).
  Definition fi (t : port) (d : node_data) := set_inps d (Z.max (nd_inps d) (snd t + 1)).
  Lemma get_with_links (h : hugr) l x : get_node (with_links h l) x = get_node h x.
  Proof. reflexivity. Qed.

  Lemma add_link_eq h s t l ds dt :
    lm_add (links h) s t = Some l -> get_node h (fst s) = Some ds -> get_node h (fst t) = Some dt ->
    add_link h s t = (h_upd (h_upd (with_links h l) (fst s) (fo s)) (fst t) (fi t), Ok).
  Proof.
    intros Hl Hs Ht. unfold add_link. rewrite Hl. rewrite get_with_links, Hs.
    unfold h_upd at 2. rewrite get_with_links, Hs. unfold h_upd. fold (fo s ds).
    destruct (get_node (set_node (with_links h l) (fst s) (fo s ds)) (fst t)) as [d'|] eqn:E; [reflexivity|].
    exfalso. rewrite get_set_node in E by (cbn; eapply get_node_lt; eassumption).
    destruct (Nat.eqb (fst t) (fst s)); [discriminate|]. rewrite get_with_links in E. congruence.
  Qed.

  Lemma add_link_get h s t l x :
    get_node (h_upd (h_upd (with_links h l) (fst s) (fo s)) (fst t) (fi t)) x =
    if Nat.eqb x (fst t)
    then option_map (fi t) (if Nat.eqb (fst t) (fst s) then option_map (fo s) (get_node h (fst s)) else get_node h (fst t))
    else if Nat.eqb x (fst s) then option_map (fo s) (get_node h (fst s)) else get_node h x.
  Proof. rewrite !h_upd_get, !get_with_links. reflexivity. Qed.

  Theorem add_link_refines h g s t : Inv h -> Rep h g -> port_ok g s = true -> port_ok g t = true ->
    exists h', add_link h s t = (h', Ok) /\ Inv h' /\ Rep h' (s_add_link g s t).
  Proof.
    intros (HL & HF & HC & HT) HR Hs Ht. pose proof HR as (HN & HND & HP & Hroot).
    unfold port_ok in Hs, Ht. apply andb_true_iff in Hs, Ht. destruct Hs as [Hs Hso], Ht as [Ht Hto].
    apply (rep_live h g _ HR) in Hs, Ht. apply Z.leb_le in Hso, Hto.
    destruct (get_node h (fst s)) as [ds|] eqn:Es; [|congruence].
    destruct (get_node h (fst t)) as [dt|] eqn:Et; [|congruence].
    destruct (lm_add_ok (links h) s t HL) as (l & Hl & HL' & Hlinks).
    eexists. split; [eapply add_link_eq; eassumption|].
    set (h' := h_upd (h_upd (with_links h l) (fst s) (fo s)) (fst t) (fi t)).
    assert (Hlk : links h' = l) by (subst h'; now rewrite !h_upd_links).
    (* every node keeps its shape, counters only grow and cover the new link *)
    assert (Hpt : forall x d, get_node h x = Some d -> exists d', get_node h' x = Some d' /\
              shape d' = shape d /\ (nd_outs d <= nd_outs d')%Z /\ (nd_inps d <= nd_inps d')%Z /\
              (x = fst s -> (snd s < nd_outs d')%Z) /\ (x = fst t -> (snd t < nd_inps d')%Z)).
    { intros x d E. subst h'. rewrite add_link_get.
      destruct (Nat.eqb_spec x (fst t)) as [->|Hxt].
      - destruct (Nat.eqb_spec (fst t) (fst s)) as [Hts|Hts].
        + rewrite Es. cbn. eexists. split; [reflexivity|]. rewrite Hts in E. assert (d = ds) by congruence. subst d.
          cbn. repeat split; try reflexivity; try lia; try (intros; congruence).
        + rewrite Et. cbn. eexists. split; [reflexivity|]. assert (d = dt) by congruence. subst d.
          cbn. repeat split; try reflexivity; try lia; try (intros; congruence).
      - destruct (Nat.eqb_spec x (fst s)) as [->|Hxs].
        + rewrite Es. cbn. eexists. split; [reflexivity|]. assert (d = ds) by congruence. subst d.
          cbn. repeat split; try reflexivity; try lia; try (intros; congruence).
        + exists d. split; [assumption|]. repeat split; try lia; try (intros; congruence). }
    assert (Hnone : forall x, get_node h' x = None <-> get_node h x = None).
    { intros x. subst h'. rewrite add_link_get.
      destruct (Nat.eqb_spec x (fst t)) as [->|Hxt].
      - destruct (Nat.eqb (fst t) (fst s)); rewrite ?Es, Et; cbn; split; congruence.
      - destruct (Nat.eqb_spec x (fst s)) as [->|Hxs]; [rewrite Es; cbn; split; congruence|tauto]. }
    split; [split; [|split; [|split]]|].
    - now rewrite Hlk.
    - apply (FreeOK_ext h h'); [assumption| | |assumption]; subst h'.
      + now rewrite !h_upd_free.
      + now rewrite !h_upd_length.
    - intros s' t' Hin. rewrite Hlk, Hlinks in Hin. apply in_app_iff in Hin. destruct Hin as [Hin|[[= <- <-]|[]]].
      + destruct (HC s' t' Hin) as ((d & E & B) & (d2 & E2 & B2)). split.
        * destruct (Hpt _ _ E) as (d' & E' & _ & Lo & _). exists d'. split; [assumption|lia].
        * destruct (Hpt _ _ E2) as (d' & E' & _ & _ & Li & _). exists d'. split; [assumption|lia].
      + split.
        * destruct (Hpt _ _ Es) as (d' & E' & _ & _ & _ & Bo & _). exists d'. split; [assumption|]. specialize (Bo eq_refl). lia.
        * destruct (Hpt _ _ Et) as (d' & E' & _ & _ & _ & _ & Bi). exists d'. split; [assumption|]. specialize (Bi eq_refl). lia.
    - apply (Tree_ext h h'); [|subst h'; now rewrite !h_upd_root|assumption].
      intros x. destruct (get_node h x) as [d|] eqn:E.
      + destruct (Hpt _ _ E) as (d' & E' & S & _). rewrite E'. cbn. now rewrite S.
      + apply Hnone in E. now rewrite E.
    - split; [|split; [|split]].
      + unfold s_add_link. cbn [a_nodes]. subst h'.
        apply h_upd_rep; [apply h_upd_rep; [exact HN|reflexivity]|reflexivity].
      + unfold s_add_link. cbn [a_nodes]. now apply a_upd_nodup, a_upd_nodup.
      + rewrite Hlk, Hlinks. unfold s_add_link. cbn [a_links]. rewrite !a_upd_links. now apply Permutation_app_tail.
      + unfold s_add_link. cbn [a_root]. rewrite !a_upd_root. subst h'. now rewrite !h_upd_root.
  Qed.

  (* ---------------------------------------------------------------- delete_link, add_order_link *)
  Lemma remove1_in {A} (eqb : A -> A -> bool) (Heq : forall a b, reflect (a = b) (eqb a b)) x (l l' : list A) :
    remove1 eqb x l = Some l' -> In x l.
  Proof. intros H. apply (remove1_perm eqb Heq) in H. eapply Permutation_in; [symmetry; exact H|now left]. Qed.

  Theorem delete_link_refines h g s t : Inv h -> Rep h g ->
    exists h', delete_link h s t = (h', Ok) /\ Inv h' /\ Rep h' (s_delete_link g s t).
  Proof.
    intros (HL & HF & HC & HT) (HN & HND & HP & Hroot).
    destruct (lm_delete_link_ok (links h) s t HL) as (l & Hd & HL' & Hcase).
    unfold delete_link. rewrite Hd. eexists. split; [reflexivity|].
    assert (Hsub : forall x, In x (lm_links l) -> In x (lm_links (links h))).
    { intros x Hx. destruct Hcase as [[_ Hperm]|[_ ->]]; [|assumption].
      eapply Permutation_in; [symmetry; exact Hperm|now right]. }
    split; [split; [|split; [|split]]|].
    - exact HL'.
    - apply (FreeOK_ext h); try reflexivity; try (intros x; reflexivity); assumption.
    - apply (Cover_mono h); [|exact Hsub|assumption]. intros x d E. exists d. split; [exact E|lia].
    - apply (Tree_ext h); [reflexivity|reflexivity|assumption].
    - split; [|split; [|split]]; cbn [links with_links root].
      + unfold s_delete_link. destruct (remove1 link_eqb (s, t) (a_links g)); exact HN.
      + unfold s_delete_link. destruct (remove1 link_eqb (s, t) (a_links g)); exact HND.
      + unfold s_delete_link. destruct (remove1 link_eqb (s, t) (a_links g)) as [L'|] eqn:E; cbn [a_links].
        * pose proof (remove1_perm link_eqb link_eqb_spec _ _ _ E) as HP'.
          destruct Hcase as [[_ Hperm]|[Hnot _]].
          -- apply (Permutation_cons_inv (a := (s, t))). now rewrite <- Hperm, <- HP'.
          -- exfalso. apply Hnot. eapply Permutation_in; [symmetry; exact HP|].
             eapply remove1_in; [apply link_eqb_spec|eassumption].
        * destruct Hcase as [[Hin _]|[_ ->]]; [|assumption]. exfalso.
          apply (remove1_none link_eqb link_eqb_spec) in E. apply E. eapply Permutation_in; eassumption.
      + unfold s_delete_link. destruct (remove1 link_eqb (s, t) (a_links g)); exact Hroot.
  Qed.

  Theorem add_order_link_refines h g a b : Inv h -> Rep h g -> a_live g a = true -> a_live g b = true ->
    exists h', add_order_link h a b = (h', Ok) /\ Inv h' /\
      Rep h' (if s_has_link g (a, (-1)%Z) (b, (-1)%Z) then g else s_add_link g (a, (-1)%Z) (b, (-1)%Z)).
  Proof.
    intros HI HR Ha Hb.
    destruct HI as (HL & HI'). destruct HR as (HN & HND & HP & Hroot).
    assert (Hh : has_link h (a, (-1)%Z) (b, (-1)%Z) = s_has_link g (a, (-1)%Z) (b, (-1)%Z)).
    { unfold has_link, linked_out, s_has_link. now apply has_link_refines. }
    unfold add_order_link. rewrite Hh. destruct (s_has_link g (a, (-1)%Z) (b, (-1)%Z)).
    - exists h. split; [reflexivity|]. split; [split; assumption|repeat split; assumption].
    - apply add_link_refines; [split; assumption|repeat split; assumption| |]; unfold port_ok; cbn [fst snd];
        [rewrite Ha|rewrite Hb]; reflexivity.
  Qed.

  (* ---------------------------------------------------------------- add_node *)
  Lemma aget_in (l : list (nid * anode Op Meta)) n : In n (map fst l) -> aget l n <> None.
  Proof.
    induction l as [|[k v] r IH]; cbn; [tauto|]. destruct (Nat.eqb_spec n k) as [->|Hne]; [discriminate|].
    intros [E|H]; [congruence|auto].
  Qed.

  Definition new_node (o : Op) (p : nid) (m : Meta) : node_data :=
    {| nd_op := o; nd_parent := Some p; nd_inps := 0; nd_outs := 0; nd_children := []; nd_meta := m |}.
  Definition add_child (n : nid) (d : node_data) := set_children d (nd_children d ++ [n]).

  (* allocation: a dead index becomes live, nothing else changes *)
  Lemma alloc_effect (h : hugr) (nd : node_data) : FreeOK h ->
    exists n h1,
      match free h with
      | f :: r => (f, {| nodes := set_nth (nodes h) f (Some nd); links := links h; free := r; root := root h |})
      | [] => (length (nodes h), with_nodes h (nodes h ++ [Some nd]))
      end = (n, h1) /\
      get_node h n = None /\ (forall x, get_node h1 x = if Nat.eqb x n then Some nd else get_node h x) /\
      links h1 = links h /\ root h1 = root h /\ FreeOK h1.
  Proof.
    intros (Hnd & Hfree). destruct (free h) as [|f r] eqn:Ef.
    - exists (length (nodes h)), (with_nodes h (nodes h ++ [Some nd])). split; [reflexivity|].
      assert (Hget : forall x, get_node (with_nodes h (nodes h ++ [Some nd])) x =
                               if Nat.eqb x (length (nodes h)) then Some nd else get_node h x).
      { intros x. unfold get_node, with_nodes. cbn [nodes].
        destruct (Nat.eqb_spec x (length (nodes h))) as [->|Hne].
        - now rewrite nth_error_app2, Nat.sub_diag by lia.
        - destruct (Nat.lt_ge_cases x (length (nodes h))).
          + now rewrite nth_error_app1 by assumption.
          + assert (nth_error (nodes h ++ [Some nd]) x = None) as -> by (apply nth_error_None; rewrite app_length; cbn; lia).
            assert (nth_error (nodes h) x = None) as -> by (apply nth_error_None; lia). reflexivity. }
      split; [|split; [exact Hget|split; [reflexivity|split; [reflexivity|]]]].
      + unfold get_node. assert (nth_error (nodes h) (length (nodes h)) = None) as -> by (apply nth_error_None; lia). reflexivity.
      + split; cbn [free with_nodes]; [rewrite Ef; constructor|]. rewrite Ef. intros x. split; [intros []|].
        intros [Hlt Hx]. rewrite Hget in Hx. cbn [nodes with_nodes] in Hlt. rewrite app_length in Hlt. cbn in Hlt.
        destruct (Nat.eqb_spec x (length (nodes h))); [discriminate|].
        apply (Hfree x). split; [lia|assumption].
    - assert (Hf : f < length (nodes h) /\ get_node h f = None) by (apply Hfree; now left). destruct Hf as [Hlt Hdead].
      eexists f, _. split; [reflexivity|].
      assert (Hget : forall x, get_node {| nodes := set_nth (nodes h) f (Some nd); links := links h; free := r; root := root h |} x =
                               if Nat.eqb x f then Some nd else get_node h x).
      { intros x. unfold get_node. cbn [nodes]. rewrite nth_error_set_nth.
        destruct (Nat.eqb x f); [|reflexivity].
        destruct (nth_error (nodes h) f) eqn:E; [reflexivity|]. apply nth_error_None in E. lia. }
      split; [assumption|]. split; [exact Hget|]. split; [reflexivity|]. split; [reflexivity|].
      inversion Hnd as [|? ? Hnotin Hnd']; subst. split; cbn [free nodes]; [assumption|].
      intros x. rewrite length_set_nth. rewrite Hget. split.
      + intros Hin. assert (x <> f) by (intros ->; contradiction).
        destruct (Nat.eqb_spec x f); [contradiction|]. apply Hfree. now right.
      + intros [Hl Hx]. destruct (Nat.eqb_spec x f); [discriminate|].
        assert (In x (f :: r)) as [E|Hin] by (apply Hfree; split; assumption); [congruence|assumption].
  Qed.

  Lemma add_node_effect (h : hugr) o p k m pd : FreeOK h -> get_node h p = Some pd ->
    exists h' n, add_node_raw h o (Some p) k m = (h', n, Ok) /\ get_node h n = None /\
      (forall x, get_node h' x = if Nat.eqb x n then Some (set_outs (new_node o p m) (zdflt k))
                                 else if Nat.eqb x p then Some (add_child n pd) else get_node h x) /\
      links h' = links h /\ root h' = root h /\ FreeOK h'.
  Proof.
    intros HF Hp. unfold add_node_raw. fold (new_node o p m).
    destruct (alloc_effect h (new_node o p m) HF) as (n & h1 & -> & Hdead & Hget1 & Hl1 & Hr1 & HF1).
    assert (Hnp : p <> n) by (intros ->; congruence).
    assert (Hp1 : get_node h1 p = Some pd).
    { rewrite Hget1. destruct (Nat.eqb_spec p n); [contradiction|assumption]. }
    rewrite Hp1. change (set_children pd (nd_children pd ++ [n])) with (add_child n pd).
    set (h2 := set_node h1 p (add_child n pd)).
    assert (Hget2 : forall x, get_node h2 x = if Nat.eqb x p then Some (add_child n pd)
                                               else if Nat.eqb x n then Some (new_node o p m) else get_node h x).
    { intros x. subst h2. rewrite get_set_node by (eapply get_node_lt; eassumption). now rewrite Hget1. }
    assert (HF2 : FreeOK h2).
    { apply (FreeOK_ext h1); [| reflexivity | apply length_set_nth | assumption].
      intros x. rewrite Hget2. destruct (Nat.eqb_spec x p) as [->|]; [rewrite Hp1; split; discriminate|].
      now rewrite Hget1. }
    destruct k as [k|].
    - assert (Hn2 : get_node h2 n = Some (new_node o p m)).
      { rewrite Hget2. destruct (Nat.eqb_spec n p); [congruence|]. now rewrite Nat.eqb_refl. }
      rewrite Hn2. exists (set_node h2 n (set_outs (new_node o p m) k)), n. split; [reflexivity|].
      split; [assumption|]. split; [|split; [exact Hl1|split; [exact Hr1|]]].
      + intros x. rewrite get_set_node by (eapply get_node_lt; eassumption). rewrite Hget2.
        destruct (Nat.eqb_spec x n) as [->|]; [reflexivity|]. reflexivity.
      + apply (FreeOK_ext h2); [| reflexivity | apply length_set_nth | assumption].
        intros x. rewrite get_set_node by (eapply get_node_lt; eassumption).
        destruct (Nat.eqb_spec x n) as [->|]; [rewrite Hn2; split; discriminate|reflexivity].
    - exists h2, n. split; [reflexivity|]. split; [assumption|]. split; [|split; [exact Hl1|split; [exact Hr1|exact HF2]]].
      intros x. rewrite Hget2. destruct (Nat.eqb_spec x n) as [->|Hxn].
      + destruct (Nat.eqb_spec n p); [congruence|]. reflexivity.
      + reflexivity.
  Qed.

  Theorem add_node_refines h g o parent k m : Inv h -> Rep h g -> a_live g (dflt g parent) = true ->
    exists h' n, add_node h o parent k m = (h', n, Ok) /\ a_live g n = false /\ Inv h' /\
                 Rep h' (s_add_node g n o (dflt g parent) (zdflt k) m).
  Proof.
    intros (HL & HF & HC & HT) HR Hp. pose proof HR as (HN & HND & HP & Hroot).
    set (p := dflt g parent) in *.
    assert (Hpe : match parent with Some x => x | None => root h end = p).
    { subst p. unfold dflt. destruct parent; [reflexivity|exact Hroot]. }
    unfold add_node. rewrite Hpe. apply (rep_live h g _ HR) in Hp.
    destruct (get_node h p) as [pd|] eqn:Ep; [|congruence].
    destruct (add_node_effect h o p k m pd HF Ep) as (h' & n & Hadd & Hdead & Hget & Hlk & Hrt & HF').
    exists h', n. split; [exact Hadd|].
    assert (Hnp : n <> p) by (intros ->; congruence).
    assert (Hlive : forall x d, get_node h x = Some d -> x <> n) by (intros x d E ->; congruence).
    assert (Hgn : aget (a_nodes g) n = None) by (rewrite <- HN, Hdead; reflexivity).
    split; [unfold a_live; now rewrite Hgn|]. split; [split; [|split; [|split]]|].
    - now rewrite Hlk.
    - exact HF'.
    - intros s t Hin. rewrite Hlk in Hin. destruct (HC s t Hin) as ((d & E & B) & (d2 & E2 & B2)). split.
      + rewrite Hget. destruct (Nat.eqb_spec (fst s) n) as [E'|_]; [exfalso; exact (Hlive _ _ E E')|].
        destruct (Nat.eqb_spec (fst s) p) as [E'|_]; [|eauto].
        rewrite E' in E. assert (d = pd) by congruence. subst d. eexists. split; [reflexivity|exact B].
      + rewrite Hget. destruct (Nat.eqb_spec (fst t) n) as [E'|_]; [exfalso; exact (Hlive _ _ E2 E')|].
        destruct (Nat.eqb_spec (fst t) p) as [E'|_]; [|eauto].
        rewrite E' in E2. assert (d2 = pd) by congruence. subst d2. eexists. split; [reflexivity|exact B2].
    - destruct HT as (T1 & T2 & T3 & T4). unfold Tree. rewrite Hrt. split; [|split; [|split]].
      + destruct T1 as (d & E & P). rewrite Hget.
        destruct (Nat.eqb_spec (root h) n) as [E'|_]; [exfalso; exact (Hlive _ _ E E')|].
        destruct (Nat.eqb_spec (root h) p) as [E'|_]; [|eauto].
        rewrite E' in E. assert (d = pd) by congruence. subst d. eexists. split; [reflexivity|exact P].
      + intros x d. rewrite Hget. destruct (Nat.eqb_spec x n) as [->|Hxn].
        * intros [= <-] _. exists p, (add_child n pd). split; [reflexivity|]. split.
          -- rewrite Hget. destruct (Nat.eqb_spec p n); [congruence|]. now rewrite Nat.eqb_refl.
          -- cbn. apply in_or_app. right. now left.
        * intros E Hx.
          assert (exists d0, get_node h x = Some d0 /\ nd_parent d = nd_parent d0) as (d0 & E0 & Pd).
          { destruct (Nat.eqb_spec x p) as [->|]; [injection E as <-; eauto|eauto]. }
          destruct (T2 x d0 E0 Hx) as (q & qd & Pq & Eq & Hin). exists q. rewrite Hget.
          destruct (Nat.eqb_spec q n) as [->|_]; [congruence|].
          destruct (Nat.eqb_spec q p) as [->|_].
          -- eexists. split; [congruence|]. split; [reflexivity|]. cbn. apply in_or_app. left.
             assert (qd = pd) by congruence. now subst qd.
          -- exists qd. split; [congruence|]. split; assumption.
      + intros q qd c. rewrite Hget. destruct (Nat.eqb_spec q n) as [->|Hqn]; [intros [= <-] []|].
        intros Eq Hin.
        assert (c = n /\ q = p \/ exists qd0, get_node h q = Some qd0 /\ In c (nd_children qd0)) as [[-> ->]|(qd0 & Eq0 & Hin0)].
        { destruct (Nat.eqb_spec q p) as [->|].
          - injection Eq as <-. cbn in Hin. apply in_app_or in Hin. destruct Hin as [Hin|[<-|[]]]; [right; eauto|left; auto].
          - right. eauto. }
        * rewrite Hget, Nat.eqb_refl. eexists. split; reflexivity.
        * destruct (T3 q qd0 c Eq0 Hin0) as (d & Ec & Pc). rewrite Hget.
          destruct (Nat.eqb_spec c n) as [->|_]; [congruence|].
          destruct (Nat.eqb_spec c p) as [->|_]; [|eauto].
          assert (d = pd) by congruence. subst d. eexists. split; [reflexivity|exact Pc].
      + intros q qd. rewrite Hget. destruct (Nat.eqb_spec q n) as [->|Hqn]; [intros [= <-]; constructor|].
        destruct (Nat.eqb_spec q p) as [->|]; [|apply T4].
        intros [= <-]. cbn. apply NoDup_app_snoc || idtac.
        assert (Hnd : NoDup (nd_children pd)) by (eapply T4; eassumption).
        assert (Hnin : ~ In n (nd_children pd)).
        { intros Hin. destruct (T3 p pd n Ep Hin) as (d & E & _). congruence. }
        clear - Hnd Hnin. induction (nd_children pd) as [|a r IH]; cbn; [repeat constructor; auto|].
        inversion Hnd; subst. constructor; [|apply IH; [assumption|intros H; apply Hnin; now right]].
        rewrite in_app_iff. cbn. intros [H|[H|[]]]; [contradiction|]. apply Hnin. now left.
    - split; [|split; [|split]].
      + intros x. unfold s_add_node. cbn [a_nodes]. rewrite aget_app_fresh.
        2:{ rewrite a_upd_get. destruct (Nat.eqb_spec n p); [contradiction|assumption]. }
        rewrite a_upd_get, Hget. destruct (Nat.eqb x n); [reflexivity|].
        destruct (Nat.eqb x p); [|apply HN]. rewrite <- HN, Ep. reflexivity.
      + unfold s_add_node. cbn [a_nodes]. rewrite map_app. cbn [map fst].
        assert (Hnd1 : NoDup (map fst (a_nodes (a_upd g p (fun a => a_with_children a (a_children a ++ [n])))))) by now apply a_upd_nodup.
        assert (Hnin : ~ In n (map fst (a_nodes (a_upd g p (fun a => a_with_children a (a_children a ++ [n])))))).
        { intros Hin. apply aget_in in Hin. apply Hin. rewrite a_upd_get. destruct (Nat.eqb_spec n p); [contradiction|assumption]. }
        revert Hnd1 Hnin. generalize (map fst (a_nodes (a_upd g p (fun a => a_with_children a (a_children a ++ [n]))))).
        intros l. induction l as [|a r IH]; cbn; intros Hnd Hnin; [repeat constructor; auto|].
        inversion Hnd; subst. constructor; [|apply IH; [assumption|intros H; apply Hnin; now right]].
        rewrite in_app_iff. cbn. intros [H|[H|[]]]; [contradiction|]. apply Hnin. now left.
      + rewrite Hlk. unfold s_add_node. cbn [a_links]. now rewrite a_upd_links.
      + rewrite Hrt. unfold s_add_node. cbn [a_root]. now rewrite a_upd_root.
  Qed.

  (* ---------------------------------------------------------------- delete_node (a non-root leaf) *)
  Definition drop_child (n : nid) (d : node_data) := set_children d (filter (fun c => negb (Nat.eqb c n)) (nd_children d)).

  Theorem delete_node_refines h g n a : Inv h -> Rep h g ->
    aget (a_nodes g) n = Some a -> a_children a = [] -> n <> a_root g ->
    exists h', delete_node h n = (h', Ok) /\ Inv h' /\ Rep h' (s_delete_node g n a).
  Proof.
    intros (HL & HF & HC & HT) HR Ha Hleaf Hnr. pose proof HR as (HN & HND & HP & Hroot).
    pose proof HT as (T1 & T2 & T3 & T4).
    destruct (get_node h n) as [d|] eqn:Ed; [|specialize (HN n); rewrite Ed, Ha in HN; discriminate].
    assert (Hda : a = anode_of d) by (specialize (HN n); rewrite Ed, Ha in HN; cbn in HN; congruence).
    assert (Hdl : nd_children d = []) by (subst a; exact Hleaf).
    rewrite <- Hroot in Hnr.
    destruct (T2 n d Ed Hnr) as (p & pd & Pd & Ep & Hin).
    assert (Hpn : p <> n).
    { intros ->. assert (pd = d) by congruence. subst pd. rewrite Hdl in Hin. destruct Hin. }
    unfold delete_node. rewrite Ed, Pd, Ep. rewrite (remove1_filter n _ (T4 p pd Ep) Hin).
    fold (drop_child n pd). set (h1 := set_node h p (drop_child n pd)).
    assert (Hget1 : forall x, get_node h1 x = if Nat.eqb x p then Some (drop_child n pd) else get_node h x).
    { intros x. subst h1. apply get_set_node. eapply get_node_lt; eassumption. }
    destruct (lm_clear_node_ok (links h1) n (nd_inps d) (nd_outs d) HL) as (l & Hclr & HL' & Hlinks).
    { intros [s t] Hl. destruct (HC s t Hl) as ((d1 & E1 & B1) & (d2 & E2 & B2)). cbn [fst snd]. split.
      - intros E. rewrite E in E1. assert (d1 = d) by congruence. now subst d1.
      - intros E. rewrite E in E2. assert (d2 = d) by congruence. now subst d2. }
    rewrite Hclr.
    remember {| nodes := set_nth (nodes h1) n None; links := l; free := n :: free h1; root := root h1 |} as h' eqn:Hh'.
    exists h'. split; [rewrite Hh'; reflexivity|].
    assert (Hget : forall x, get_node h' x = if Nat.eqb x n then None
                                             else if Nat.eqb x p then Some (drop_child n pd) else get_node h x).
    { intros x. rewrite <- Hget1. unfold get_node at 1. rewrite Hh'. cbn [nodes]. rewrite nth_error_set_nth.
      destruct (Nat.eqb x n); [|reflexivity]. destruct (nth_error (nodes h1) n); reflexivity. }
    assert (Hlk' : links h' = l) by now rewrite Hh'.
    assert (Hrt' : root h' = root h) by now rewrite Hh'.
    assert (Hfr' : free h' = n :: free h) by now rewrite Hh'.
    assert (Hlen' : length (nodes h') = length (nodes h)).
    { rewrite Hh'. cbn [nodes]. rewrite length_set_nth. subst h1. cbn. apply length_set_nth. }
    clear Hh'.
    assert (Hsub : forall x, In x (lm_links l) -> In x (lm_links (links h)) /\ touches n x = false).
    { intros x Hx. eapply Permutation_in in Hx; [|exact Hlinks]. apply filter_In in Hx.
      destruct Hx as [Hx Ht]. split; [exact Hx|]. now destruct (touches n x). }
    split; [split; [|split; [|split]]|].
    - now rewrite Hlk'.
    - destruct HF as (Hnd & Hfree). split; rewrite Hfr'.
      + constructor; [|assumption]. intros Hinf. apply Hfree in Hinf. destruct Hinf as [_ Hinf]. congruence.
      + intros x. rewrite Hlen'. rewrite Hget. cbn [In]. rewrite Hfree.
        destruct (Nat.eqb_spec x n) as [->|Hxn].
        * split; [intros _; split; [eapply get_node_lt; eassumption|reflexivity]|auto].
        * destruct (Nat.eqb_spec x p) as [->|Hxp].
          -- split; [intros [E|[_ E]]; congruence|intros [_ E]; discriminate].
          -- split; [intros [E|E]; [congruence|assumption]|auto].
    - intros s t Hl. rewrite Hlk' in Hl. destruct (Hsub _ Hl) as [Hl0 Htouch].
      unfold touches in Htouch. cbn [fst snd] in Htouch. apply orb_false_iff in Htouch. destruct Htouch as [Hs Ht].
      apply Nat.eqb_neq in Hs, Ht. destruct (HC s t Hl0) as ((d1 & E1 & B1) & (d2 & E2 & B2)). split.
      + rewrite Hget. destruct (Nat.eqb_spec (fst s) n); [contradiction|].
        destruct (Nat.eqb_spec (fst s) p) as [E|_]; [|eauto].
        rewrite E in E1. assert (d1 = pd) by congruence. subst d1. eexists. split; [reflexivity|exact B1].
      + rewrite Hget. destruct (Nat.eqb_spec (fst t) n); [contradiction|].
        destruct (Nat.eqb_spec (fst t) p) as [E|_]; [|eauto].
        rewrite E in E2. assert (d2 = pd) by congruence. subst d2. eexists. split; [reflexivity|exact B2].
    - unfold Tree. rewrite Hrt'. split; [|split; [|split]].
      + destruct T1 as (dr & E & P). rewrite Hget. destruct (Nat.eqb_spec (root h) n); [congruence|].
        destruct (Nat.eqb_spec (root h) p) as [E'|_]; [|eauto].
        rewrite E' in E. assert (dr = pd) by congruence. subst dr. eexists. split; [reflexivity|exact P].
      + intros x dx. rewrite Hget. destruct (Nat.eqb_spec x n) as [->|Hxn]; [discriminate|].
        intros E Hx.
        assert (exists d0, get_node h x = Some d0 /\ nd_parent dx = nd_parent d0) as (d0 & E0 & Pd0).
        { destruct (Nat.eqb_spec x p) as [->|]; [injection E as <-; eauto|eauto]. }
        destruct (T2 x d0 E0 Hx) as (q & qd & Pq & Eq & Hinq). exists q. rewrite Hget.
        destruct (Nat.eqb_spec q n) as [->|_].
        { exfalso. assert (qd = d) by congruence. subst qd. rewrite Hdl in Hinq. destruct Hinq. }
        destruct (Nat.eqb_spec q p) as [->|_].
        * eexists. split; [congruence|]. split; [reflexivity|]. cbn. apply filter_In.
          assert (qd = pd) by congruence. subst qd. split; [assumption|]. destruct (Nat.eqb_spec x n); [contradiction|reflexivity].
        * exists qd. split; [congruence|]. split; assumption.
      + intros q qd c. rewrite Hget. destruct (Nat.eqb_spec q n) as [->|Hqn]; [discriminate|].
        intros Eq Hinc.
        assert (exists qd0, get_node h q = Some qd0 /\ In c (nd_children qd0) /\ c <> n) as (qd0 & Eq0 & Hin0 & Hcn).
        { destruct (Nat.eqb_spec q p) as [->|Hqp].
          - injection Eq as <-. cbn in Hinc. apply filter_In in Hinc. destruct Hinc as [Hinc Hc].
            exists pd. repeat split; [assumption|assumption|]. intros ->. now rewrite Nat.eqb_refl in Hc.
          - exists qd. repeat split; [assumption|assumption|]. intros ->.
            destruct (T3 q qd n Eq Hinc) as (d' & E' & P'). congruence. }
        destruct (T3 q qd0 c Eq0 Hin0) as (dc & Ec & Pc). rewrite Hget.
        destruct (Nat.eqb_spec c n); [contradiction|].
        destruct (Nat.eqb_spec c p) as [->|_]; [|eauto].
        assert (dc = pd) by congruence. subst dc. eexists. split; [reflexivity|exact Pc].
      + intros q qd. rewrite Hget. destruct (Nat.eqb_spec q n); [discriminate|].
        destruct (Nat.eqb_spec q p) as [->|]; [|apply T4].
        intros [= <-]. cbn. apply NoDup_filter. eapply T4; eassumption.
    - assert (Hap : a_parent a = Some p) by (subst a; exact Pd).
      unfold s_delete_node. rewrite Hap. split; [|split; [|split]]; cbn [a_nodes a_links a_root].
      + intros x. rewrite aget_ddel by now apply a_upd_nodup. rewrite a_upd_get, Hget.
        destruct (Nat.eqb x n); [reflexivity|]. destruct (Nat.eqb x p); [|apply HN].
        rewrite <- HN, Ep. reflexivity.
      + apply (nodup_ddel Nat.eqb). now apply a_upd_nodup.
      + rewrite Hlk', Hlinks. rewrite a_upd_links. now apply Permutation_filter.
      + rewrite a_upd_root, Hrt'. exact Hroot.
  Qed.

  (* ---------------------------------------------------------------- one command, histories *)
  Theorem bstep_refines h g c h' rt r : Inv h -> Rep h g -> bstep h c = (h', rt, r) ->
    match s_bstep g c rt with
    | OutOfScope => True
    | Bad => False
    | Next g' => r = Ok /\ Inv h' /\ Rep h' g'
    end.
  Proof.
    intros HI HR Hstep. destruct c as [o p k m|o p m|s t|a b|s t|n]; cbn [bstep s_bstep] in *.
    - destruct (a_live g (dflt g p)) eqn:Hp; [|exact I].
      destruct (add_node_refines h g o p k m HI HR Hp) as (h1 & n & Hadd & Hfresh & HI' & HR').
      rewrite Hadd in Hstep. injection Hstep as <- <- <-. rewrite Hfresh. auto.
    - destruct (a_live g (dflt g p)) eqn:Hp; [|exact I].
      destruct (add_node_refines h g o p None m HI HR Hp) as (h1 & n & Hadd & Hfresh & HI' & HR').
      rewrite Hadd in Hstep. injection Hstep as <- <- <-. rewrite Hfresh. auto.
    - destruct (port_ok g s) eqn:Hs; [|exact I]. destruct (port_ok g t) eqn:Ht; [|exact I]. cbn [andb].
      destruct (add_link_refines h g s t HI HR Hs Ht) as (h1 & Hadd & HI' & HR').
      rewrite Hadd in Hstep. injection Hstep as <- <- <-. auto.
    - destruct (a_live g a) eqn:Ha; [|exact I]. destruct (a_live g b) eqn:Hb; [|exact I]. cbn [andb].
      destruct (add_order_link_refines h g a b HI HR Ha Hb) as (h1 & Hadd & HI' & HR').
      rewrite Hadd in Hstep. injection Hstep as <- <- <-. auto.
    - destruct (delete_link_refines h g s t HI HR) as (h1 & Hdel & HI' & HR').
      rewrite Hdel in Hstep. injection Hstep as <- <- <-. auto.
    - destruct (aget (a_nodes g) n) as [a|] eqn:Ha; [|exact I].
      destruct (a_children a) eqn:Hch; [|exact I].
      destruct (Nat.eqb_spec n (a_root g)) as [|Hnr]; [exact I|].
      destruct (delete_node_refines h g n a HI HR Ha Hch Hnr) as (h1 & Hdel & HI' & HR').
      rewrite Hdel in Hstep. injection Hstep as <- <- <-. auto.
  Qed.

  (* the history as the specification sees it: every command with the value the model returned *)
  Fixpoint trace (h : hugr) (cs : list (bcmd Op Meta)) : list (bcmd Op Meta * ret) :=
    match cs with
    | [] => []
    | c :: r => let '(h', rt, _) := bstep h c in (c, rt) :: trace h' r
    end.

  Theorem brun_refines cs : forall h g g', Inv h -> Rep h g ->
    s_brun g (trace h cs) = Next g' -> Inv (brun h cs) /\ Rep (brun h cs) g'.
  Proof.
    induction cs as [|c cs IH]; intros h g g' HI HR; cbn [trace s_brun brun fold_left].
    - intros [= <-]. auto.
    - destruct (bstep h c) as [[h1 rt] r] eqn:E. cbn [s_brun fst].
      pose proof (bstep_refines h g c h1 rt r HI HR E) as Hs.
      destruct (s_bstep g c rt) as [| |g1]; try discriminate.
      destruct Hs as (_ & HI1 & HR1). intros H. exact (IH h1 g1 g' HI1 HR1 H).
  Qed.
  (* the specification never rejects what the model returns *)
  Theorem brun_never_bad cs : forall h g, Inv h -> Rep h g -> s_brun g (trace h cs) <> Bad.
  Proof.
    induction cs as [|c cs IH]; intros h g HI HR; cbn [trace s_brun]; [discriminate|].
    destruct (bstep h c) as [[h1 rt] r] eqn:E. cbn [s_brun].
    pose proof (bstep_refines h g c h1 rt r HI HR E) as Hs.
    destruct (s_bstep g c rt) as [| |g1]; [discriminate|contradiction|].
    destruct Hs as (_ & HI1 & HR1). now apply IH.
  Qed.

  (* ---- the same for every choice of free indices (the oracle of model/Graph.v) ---- *)
  Theorem bstep_at_refines pick (h : hugr) g c h' rt r : Inv h -> Rep h g -> bstep_at pick h c = (h', rt, r) ->
    match s_bstep g c rt with
    | OutOfScope => True
    | Bad => False
    | Next g' => r = Ok /\ Inv h' /\ Rep h' g'
    end.
  Proof.
    intros HI HR. unfold bstep_at.
    exact (bstep_refines _ g c h' rt r (Inv_prefer _ h HI) (Rep_prefer _ h g HR)).
  Qed.
  (* the admissible choice is honoured: the new node gets the index the oracle names *)
  Theorem add_node_takes_the_choice (h : hugr) f o p k m : In f (free h) \/ length (nodes h) <= f ->
    snd (fst (add_node_raw (prefer (Some f) h) o p k m)) = f.
  Proof.
    intros Hin. destruct (prefer_head f h Hin) as (r & E). unfold add_node_raw. rewrite E.
    destruct p as [p|].
    - destruct (get_node _ p); [|reflexivity]. destruct k; [|reflexivity]. destruct (get_node _ f); reflexivity.
    - destruct k; [|reflexivity]. destruct (get_node _ f); reflexivity.
  Qed.
  (* under the store invariant ANY index that is not live is admissible: a freed one, the next fresh one, or one
     further beyond the end of the table *)
  Theorem add_node_takes_any_dead_index (h : hugr) f o p k m : FreeOK h -> get_node h f = None ->
    snd (fst (add_node_raw (prefer (Some f) h) o p k m)) = f.
  Proof. intros HF Hd. apply add_node_takes_the_choice. now apply dead_is_admissible. Qed.
  (* the history as the specification sees it, choices given: every command with the value the model returned *)
  Fixpoint trace_at (h : hugr) (cs : list (bcmd Op Meta * ret)) : list (bcmd Op Meta * ret) :=
    match cs with
    | [] => []
    | (c, pick) :: r => let '(h', rt, _) := bstep_at pick h c in (c, rt) :: trace_at h' r
    end.
  Theorem brun_at_refines cs : forall h g g', Inv h -> Rep h g ->
    s_brun g (trace_at h cs) = Next g' -> Inv (brun_at h cs) /\ Rep (brun_at h cs) g'.
  Proof.
    induction cs as [|[c pick] cs IH]; intros h g g' HI HR; cbn [trace_at s_brun brun_at fold_left].
    - intros [= <-]. auto.
    - cbn [fst snd]. destruct (bstep_at pick h c) as [[h1 rt] r] eqn:E. cbn [s_brun fst].
      pose proof (bstep_at_refines pick h g c h1 rt r HI HR E) as Hs.
      destruct (s_bstep g c rt) as [| |g1]; try discriminate.
      destruct Hs as (_ & HI1 & HR1). intros H. exact (IH h1 g1 g' HI1 HR1 H).
  Qed.
  Theorem brun_at_never_bad cs : forall h g, Inv h -> Rep h g -> s_brun g (trace_at h cs) <> Bad.
  Proof.
    induction cs as [|[c pick] cs IH]; intros h g HI HR; cbn [trace_at s_brun]; [discriminate|].
    destruct (bstep_at pick h c) as [[h1 rt] r] eqn:E. cbn [s_brun].
    pose proof (bstep_at_refines pick h g c h1 rt r HI HR E) as Hs.
    destruct (s_bstep g c rt) as [| |g1]; [discriminate|contradiction|].
    destruct Hs as (_ & HI1 & HR1). now apply IH.
  Qed.
  (* without choices the oracle version is the plain one *)
  Lemma bstep_at_none (h : hugr) c : bstep_at RUnit h c = bstep h c.
  Proof. reflexivity. Qed.

  (* Hugr(root_op) *)
  Lemma LInv_empty : LInv {| fwd := []; bck := [] |}.
  Proof.
    split; [|split]; cbn.
    - split; [constructor|split; [constructor|]]. intros k v. cbn. split; discriminate.
    - intros p j H. discriminate.
    - intros p j H. discriminate.
  Qed.
  Theorem init_inv o m : Inv (init o m) /\ Rep (init o m) (s_init 0 o m).
  Proof.
    unfold init, add_node_raw. cbn.
    set (nd := {| nd_op := o; nd_parent := None; nd_inps := 0; nd_outs := 0; nd_children := []; nd_meta := m |}).
    assert (Hget : forall x, get_node {| nodes := [Some nd]; links := {| fwd := []; bck := [] |}; free := []; root := 0 |} x
                             = if Nat.eqb x 0 then Some nd else None).
    { intros [|[|x]]; reflexivity. }
    split; [split; [|split; [|split]]|].
    - exact LInv_empty.
    - split; cbn [free]; [constructor|]. intros n. rewrite Hget. cbn [nodes length]. split; [intros []|].
      intros [Hl Hn]. destruct n; [discriminate|lia].
    - intros s t []. 
    - split; [|split; [|split]]; cbn [root].
      + exists nd. split; reflexivity.
      + intros n d. rewrite Hget. destruct n; [intros _ H; congruence|discriminate].
      + intros p pd c. rewrite Hget. destruct p; [intros [= <-] []|discriminate].
      + intros p pd. rewrite Hget. destruct p; [intros [= <-]; constructor|discriminate].
    - split; [|split; [|split]]; cbn.
      + intros [|[|n]]; reflexivity.
      + repeat constructor. intros [].
      + constructor.
      + reflexivity.
  Qed.

  (* ---------------------------------------------------------------- queries *)
  Lemma live_from_In (l : list (option node_data)) : forall i x,
    In x (live_from l i) <-> exists k d, x = i + k /\ nth_error l k = Some (Some d).
  Proof.
    induction l as [|[d|] r IH]; intros i x; cbn [live_from].
    - split; [intros []|]. intros (k & d & _ & H). destruct k; discriminate.
    - cbn [In]. rewrite IH. split.
      + intros [<-|(k & d' & -> & H)]; [exists 0, d; split; [lia|reflexivity]|exists (S k), d'; split; [lia|exact H]].
      + intros ([|k] & d' & -> & H); [left; lia|right; exists k, d'; split; [lia|exact H]].
    - rewrite IH. split.
      + intros (k & d' & -> & H). exists (S k), d'. split; [lia|exact H].
      + intros ([|k] & d' & -> & H); [discriminate|exists k, d'; split; [lia|exact H]].
  Qed.
  Lemma live_from_ge (l : list (option node_data)) i x : In x (live_from l i) -> i <= x.
  Proof. intros H. apply live_from_In in H. destruct H as (k & _ & -> & _). lia. Qed.
  Lemma live_from_NoDup (l : list (option node_data)) : forall i, NoDup (live_from l i).
  Proof.
    induction l as [|[d|] r IH]; intros i; cbn [live_from]; [constructor| |apply IH].
    constructor; [|apply IH]. intros H. apply live_from_ge in H. lia.
  Qed.
  Fixpoint dead_from (l : list (option node_data)) (i : nat) : list nid :=
    match l with [] => [] | Some _ :: r => dead_from r (S i) | None :: r => i :: dead_from r (S i) end.
  Lemma dead_from_In (l : list (option node_data)) : forall i x,
    In x (dead_from l i) <-> exists k, x = i + k /\ nth_error l k = Some None.
  Proof.
    induction l as [|[d|] r IH]; intros i x; cbn [dead_from].
    - split; [intros []|]. intros (k & _ & H). destruct k; discriminate.
    - rewrite IH. split.
      + intros (k & -> & H). exists (S k). split; [lia|exact H].
      + intros ([|k] & -> & H); [discriminate|exists k; split; [lia|exact H]].
    - cbn [In]. rewrite IH. split.
      + intros [<-|(k & -> & H)]; [exists 0; split; [lia|reflexivity]|exists (S k); split; [lia|exact H]].
      + intros ([|k] & -> & H); [left; lia|right; exists k; split; [lia|exact H]].
  Qed.
  Lemma dead_from_NoDup (l : list (option node_data)) : forall i, NoDup (dead_from l i).
  Proof.
    induction l as [|[d|] r IH]; intros i; cbn [dead_from]; [constructor|apply IH|].
    constructor; [|apply IH]. intros H. apply dead_from_In in H. destruct H as (k & E & _). lia.
  Qed.
  Lemma live_dead_length (l : list (option node_data)) : forall i,
    length (live_from l i) + length (dead_from l i) = length l.
  Proof. induction l as [|[d|] r IH]; intros i; cbn; [reflexivity| |]; specialize (IH (S i)); lia. Qed.

  Lemma iter_nodes_In (h : hugr) n : In n (iter_nodes h) <-> get_node h n <> None.
  Proof.
    unfold iter_nodes. rewrite live_from_In. unfold get_node. split.
    - intros (k & d & -> & H). cbn. now rewrite H.
    - destruct (nth_error (nodes h) n) as [[d|]|] eqn:E; try congruence. intros _. exists n, d. split; [lia|exact E].
  Qed.

  Theorem iter_refines h g : Rep h g -> Permutation (iter_nodes h) (sq_nodes g).
  Proof.
    intros (HN & HND & _). apply NoDup_Permutation; [apply live_from_NoDup|exact HND|].
    intros n. rewrite iter_nodes_In. unfold sq_nodes. rewrite <- (HN n) || idtac. split.
    - intros H. specialize (HN n). destruct (get_node h n) as [d|]; [|congruence]. cbn in HN.
      symmetry in HN. eapply (dget_In Nat.eqb Nat.eqb_spec). exact HN.
    - intros H. apply aget_in in H. specialize (HN n). destruct (get_node h n); [discriminate|]. cbn in HN. congruence.
  Qed.
  Theorem len_refines h g : Inv h -> Rep h g -> num_nodes h = length (a_nodes g).
  Proof.
    intros (_ & (Hnd & Hfree) & _) HR. pose proof (iter_refines h g HR) as HP. apply Permutation_length in HP.
    unfold sq_nodes in HP. rewrite map_length in HP. rewrite <- HP. unfold num_nodes, iter_nodes.
    assert (Hd : Permutation (free h) (dead_from (nodes h) 0)).
    { apply NoDup_Permutation; [assumption|apply dead_from_NoDup|]. intros n. rewrite Hfree, dead_from_In. unfold get_node. split.
      - intros [Hl Hn]. exists n. split; [lia|]. destruct (nth_error (nodes h) n) as [[d|]|] eqn:E; try congruence.
        apply nth_error_None in E. lia.
      - intros (k & -> & H). cbn. rewrite H. split; [|reflexivity]. apply nth_error_Some. congruence. }
    apply Permutation_length in Hd. rewrite Hd. pose proof (live_dead_length (nodes h) 0). lia.
  Qed.

  Theorem get_refines h g n : Rep h g -> option_map anode_of (get_node h n) = aget (a_nodes g) n.
  Proof. intros (HN & _). apply HN. Qed.
  Theorem links_refine h g : Rep h g -> Permutation (q_links h) (a_links g).
  Proof. intros (_ & _ & HP & _). exact HP. Qed.
  Theorem linked_out_refine h g p : Inv h -> Rep h g -> Permutation (linked_out h p) (sq_linked_out g p).
  Proof. intros (HL & _) (_ & _ & HP & _). exact (linked_out_refines (links h) (a_links g) p HL HP). Qed.
  Theorem linked_in_refine h g p : Inv h -> Rep h g -> Permutation (linked_in h p) (sq_linked_in g p).
  Proof. intros (HL & _) (_ & _ & HP & _). exact (linked_in_refines (links h) (a_links g) p HL HP). Qed.
  Theorem has_link_refine h g s t : Inv h -> Rep h g -> has_link h s t = s_has_link g s t.
  Proof. intros (HL & _) (_ & _ & HP & _). exact (has_link_refines (links h) (a_links g) s t HL HP). Qed.
  Theorem order_out_refine h g n : Inv h -> Rep h g ->
    Permutation (outgoing_order_links h n) (map fst (sq_linked_out g (n, (-1)%Z))).
  Proof. intros HI HR. apply Permutation_map. now apply linked_out_refine. Qed.
  Theorem order_in_refine h g n : Inv h -> Rep h g ->
    Permutation (incoming_order_links h n) (map fst (sq_linked_in g (n, (-1)%Z))).
  Proof. intros HI HR. apply Permutation_map. now apply linked_in_refine. Qed.

  (* outgoing_links / incoming_links: one entry per declared port, each the multiset the specification
     gives; while the HUGR has no link at all the implementation yields nothing (not promised either way) *)
  Theorem outgoing_refine h g n : Inv h -> Rep h g ->
    match outgoing_links h n, sq_outgoing g n with
    | Some L, Some L' =>
        (fwd (links h) <> [] -> map fst L = map fst L') /\
        forall p l, In (p, l) L -> exists l', In (p, l') L' /\ Permutation l l'
    | None, None => True
    | _, _ => False
    end.
  Proof.
    intros HI HR. unfold outgoing_links, sq_outgoing. rewrite <- (get_refines h g n HR).
    destruct (get_node h n) as [d|]; cbn [option_map]; [|exact I]. cbn [anode_of a_nout]. split.
    - intros Hne. unfold node_links. destruct (fwd (links h)); [congruence|]. rewrite !map_map. reflexivity.
    - intros p l Hin. unfold node_links in Hin. destruct (fwd (links h)) eqn:E; [destruct Hin|]. rewrite <- E in Hin.
      apply in_map_iff in Hin. destruct Hin as (o & [= <- <-] & Ho). eexists. split.
      + apply in_map_iff. exists o. split; [reflexivity|exact Ho].
      + now apply linked_out_refine.
  Qed.
  Theorem incoming_refine h g n : Inv h -> Rep h g ->
    match incoming_links h n, sq_incoming g n with
    | Some L, Some L' =>
        (bck (links h) <> [] -> map fst L = map fst L') /\
        forall p l, In (p, l) L -> exists l', In (p, l') L' /\ Permutation l l'
    | None, None => True
    | _, _ => False
    end.
  Proof.
    intros HI HR. unfold incoming_links, sq_incoming. rewrite <- (get_refines h g n HR).
    destruct (get_node h n) as [d|]; cbn [option_map]; [|exact I]. cbn [anode_of a_nin]. split.
    - intros Hne. unfold node_links. destruct (bck (links h)); [congruence|]. rewrite !map_map. reflexivity.
    - intros p l Hin. unfold node_links in Hin. destruct (bck (links h)) eqn:E; [destruct Hin|]. rewrite <- E in Hin.
      apply in_map_iff in Hin. destruct Hin as (o & [= <- <-] & Ho). eexists. split.
      + apply in_map_iff. exists o. split; [reflexivity|exact Ho].
      + now apply linked_in_refine.
  Qed.

  (* ---------------------------------------------------------------- corollaries of the property text *)
  (* what a command of the specification may do to a node it does not delete *)
  Definition kept (a a' : anode Op Meta) : Prop :=
    a_op a' = a_op a /\ a_parent a' = a_parent a /\ a_meta a' = a_meta a /\
    (a_nin a <= a_nin a')%Z /\ (a_nout a <= a_nout a')%Z.
  Lemma kept_refl a : kept a a.
  Proof. unfold kept. repeat split; lia. Qed.
  Lemma kept_trans a b c : kept a b -> kept b c -> kept a c.
  Proof. unfold kept. intros (A1 & A2 & A3 & A4 & A5) (B1 & B2 & B3 & B4 & B5). repeat split; try congruence; lia. Qed.
  Lemma a_upd_kept (g : agraph) k f n a : (forall x, kept x (f x)) -> aget (a_nodes g) n = Some a ->
    exists a', aget (a_nodes (a_upd g k f)) n = Some a' /\ kept a a'.
  Proof.
    intros Hf Ha. rewrite a_upd_get. destruct (Nat.eqb_spec n k) as [->|].
    - rewrite Ha. cbn. eexists. split; [reflexivity|apply Hf].
    - exists a. split; [assumption|apply kept_refl].
  Qed.
  Lemma s_add_link_kept (g : agraph) s t n a : aget (a_nodes g) n = Some a ->
    exists a', aget (a_nodes (s_add_link g s t)) n = Some a' /\ kept a a'.
  Proof.
    intros Ha. unfold s_add_link. cbn [a_nodes].
    destruct (a_upd_kept g (fst s) (fun a0 => a_with_nout a0 (Z.max (a_nout a0) (snd s + 1))) n a) as (a1 & E1 & K1);
      [intros x; unfold kept; cbn; repeat split; lia|assumption|].
    destruct (a_upd_kept _ (fst t) (fun a0 => a_with_nin a0 (Z.max (a_nin a0) (snd t + 1))) n a1
                (fun x => ltac:(unfold kept; cbn; repeat split; lia)) E1) as (a2 & E2 & K2).
    exists a2. split; [exact E2|]. eapply kept_trans; eassumption.
  Qed.

  Lemma s_bstep_keeps g c rt g' n a : NoDup (map fst (a_nodes g)) ->
    s_bstep g c rt = Next g' -> aget (a_nodes g) n = Some a -> c <> DelNode n ->
    exists a', aget (a_nodes g') n = Some a' /\ kept a a'.
  Proof.
    intros HND Hs Ha Hc.
    assert (Hadd : forall n' o p k m, a_live g n' = false ->
              exists a', aget (a_nodes (s_add_node g n' o p k m)) n = Some a' /\ kept a a').
    { intros n' o p k m Hfresh. unfold s_add_node. cbn [a_nodes].
      assert (Hnn : n <> n') by (intros ->; unfold a_live in Hfresh; rewrite Ha in Hfresh; discriminate).
      destruct (a_upd_kept g p (fun a0 => a_with_children a0 (a_children a0 ++ [n'])) n a
                  (fun x => ltac:(unfold kept; cbn; repeat split; lia)) Ha) as (a1 & E1 & K1).
      exists a1. split; [|exact K1].
      assert (Hlen : forall l : list (nid * anode Op Meta), aget l n = Some a1 -> forall v, aget (l ++ [(n', v)]) n = Some a1).
      { induction l as [|[k0 v0] r IH]; cbn; [discriminate|]. destruct (Nat.eqb n k0); auto. }
      now apply Hlen. }
    destruct c as [o p k m|o p m|s t|x y|s t|n']; cbn [s_bstep] in Hs.
    - destruct (a_live g (dflt g p)); [|discriminate]. destruct rt as [|n'|]; try discriminate.
      destruct (a_live g n') eqn:E; [discriminate|]. injection Hs as <-. now apply Hadd.
    - destruct (a_live g (dflt g p)); [|discriminate]. destruct rt as [|n'|]; try discriminate.
      destruct (a_live g n') eqn:E; [discriminate|]. injection Hs as <-. now apply Hadd.
    - destruct (port_ok g s && port_ok g t); [|discriminate]. injection Hs as <-. now apply s_add_link_kept.
    - destruct (a_live g x && a_live g y); [|discriminate]. injection Hs as <-.
      destruct (s_has_link g (x, (-1)%Z) (y, (-1)%Z)); [exists a; split; [assumption|apply kept_refl]|now apply s_add_link_kept].
    - injection Hs as <-. unfold s_delete_link. destruct (remove1 link_eqb (s, t) (a_links g)); cbn [a_nodes];
        exists a; (split; [assumption|apply kept_refl]).
    - destruct (aget (a_nodes g) n') as [an|] eqn:En; [|discriminate].
      destruct (a_children an); [|discriminate]. destruct (Nat.eqb n' (a_root g)); [discriminate|]. injection Hs as <-.
      assert (Hnn : n <> n') by congruence.
      unfold s_delete_node. cbn [a_nodes].
      destruct (a_parent an) as [p|].
      + destruct (a_upd_kept g p (fun pa => a_with_children pa (filter (fun c => negb (Nat.eqb c n')) (a_children pa))) n a
                    (fun x => ltac:(unfold kept; cbn; repeat split; lia)) Ha) as (a1 & E1 & K1).
        exists a1. split; [|exact K1]. rewrite aget_ddel by now apply a_upd_nodup.
        destruct (Nat.eqb_spec n n'); [contradiction|assumption].
      + exists a. split; [|apply kept_refl]. rewrite aget_ddel by assumption.
        destruct (Nat.eqb_spec n n'); [contradiction|assumption].
  Qed.

  (* "live nodes keep their index" (and operation, parent, metadata; port counts never shrink) *)
  Theorem live_nodes_keep_index h g c h' rt r g' n d : Inv h -> Rep h g ->
    bstep h c = (h', rt, r) -> s_bstep g c rt = Next g' -> get_node h n = Some d -> c <> DelNode n ->
    exists d', get_node h' n = Some d' /\ nd_op d' = nd_op d /\ nd_parent d' = nd_parent d /\ nd_meta d' = nd_meta d /\
               (nd_inps d <= nd_inps d')%Z /\ (nd_outs d <= nd_outs d')%Z.
  Proof.
    intros HI HR Hb Hs Hd Hc. pose proof (bstep_refines h g c h' rt r HI HR Hb) as H. rewrite Hs in H.
    destruct H as (_ & _ & HR'). pose proof HR as (HN & HND & _).
    assert (Ha : aget (a_nodes g) n = Some (anode_of d)) by (rewrite <- HN, Hd; reflexivity).
    destruct (s_bstep_keeps g c rt g' n _ HND Hs Ha Hc) as (a' & Ea & K).
    pose proof (get_refines h' g' n HR') as Hn. rewrite Ea in Hn.
    destruct (get_node h' n) as [d'|]; [|discriminate]. exists d'. split; [reflexivity|].
    cbn in Hn. assert (a' = anode_of d') by congruence. subst a'. exact K.
  Qed.

  (* "a deleted node is unreachable and no remaining link mentions it" *)
  Theorem deleted_node_unreachable_and_unmentioned h g n a : Inv h -> Rep h g ->
    aget (a_nodes g) n = Some a -> a_children a = [] -> n <> a_root g ->
    exists h', delete_node h n = (h', Ok) /\ get_node h' n = None /\ ~ In n (iter_nodes h') /\
               forall l, In l (q_links h') -> touches n l = false.
  Proof.
    intros HI HR Ha Hl Hr. destruct (delete_node_refines h g n a HI HR Ha Hl Hr) as (h' & Hd & HI' & HR').
    exists h'. split; [exact Hd|]. pose proof HR as (_ & HND & _).
    assert (Hn : get_node h' n = None).
    { pose proof (get_refines h' _ n HR') as H. unfold s_delete_node in H. cbn [a_nodes] in H.
      rewrite aget_ddel in H.
      - rewrite Nat.eqb_refl in H. destruct (get_node h' n); [discriminate|reflexivity].
      - destruct (a_parent a); [now apply a_upd_nodup|assumption]. }
    split; [exact Hn|]. split; [rewrite iter_nodes_In; congruence|].
    intros l Hin. pose proof (links_refine h' _ HR') as HP. eapply Permutation_in in Hin; [|exact HP].
    unfold s_delete_node in Hin. cbn [a_links] in Hin. apply filter_In in Hin. destruct Hin as [_ H].
    now destruct (touches n l).
  Qed.

  Lemma lo_app L s t p : lo (L ++ [(s, t)]) p = lo L p ++ (if port_eqb s p then [t] else []).
  Proof. unfold lo. rewrite filter_app, map_app. cbn. destruct (port_eqb s p); reflexivity. Qed.
  Lemma li_app L s t p : li (L ++ [(s, t)]) p = li L p ++ (if port_eqb t p then [s] else []).
  Proof. unfold li. rewrite filter_app, map_app. cbn. destruct (port_eqb t p); reflexivity. Qed.

  (* "every added link is reported exactly once from both ends" *)
  Theorem added_link_reported_once_from_both_ends h g s t : Inv h -> Rep h g ->
    port_ok g s = true -> port_ok g t = true ->
    exists h', add_link h s t = (h', Ok) /\
      Permutation (q_links h') ((s, t) :: q_links h) /\
      (forall p, Permutation (linked_out h' p) ((if port_eqb s p then [t] else []) ++ linked_out h p)) /\
      (forall p, Permutation (linked_in h' p) ((if port_eqb t p then [s] else []) ++ linked_in h p)).
  Proof.
    intros HI HR Hs Ht. destruct (add_link_refines h g s t HI HR Hs Ht) as (h' & Ha & HI' & HR').
    exists h'. split; [exact Ha|]. split; [|split].
    - rewrite (links_refine h' _ HR'), (links_refine h g HR). unfold s_add_link. cbn [a_links]. rewrite !a_upd_links.
      now rewrite <- Permutation_cons_append.
    - intros p. rewrite (linked_out_refine h' _ p HI' HR'), (linked_out_refine h g p HI HR).
      unfold sq_linked_out, s_add_link. cbn [a_links]. rewrite !a_upd_links.
      change (map snd (filter (fun l => port_eqb (fst l) p) (a_links g ++ [(s, t)]))) with (lo (a_links g ++ [(s, t)]) p).
      rewrite lo_app. apply Permutation_app_comm.
    - intros p. rewrite (linked_in_refine h' _ p HI' HR'), (linked_in_refine h g p HI HR).
      unfold sq_linked_in, s_add_link. cbn [a_links]. rewrite !a_upd_links.
      change (map fst (filter (fun l => port_eqb (snd l) p) (a_links g ++ [(s, t)]))) with (li (a_links g ++ [(s, t)]) p).
      rewrite li_app. apply Permutation_app_comm.
  Qed.

  (* "deleting one link removes exactly that one" *)
  Theorem delete_link_removes_exactly_one h s t : Inv h ->
    exists h', delete_link h s t = (h', Ok) /\
      ((In (s, t) (q_links h) /\ Permutation (q_links h) ((s, t) :: q_links h')) \/
       (~ In (s, t) (q_links h) /\ q_links h' = q_links h)).
  Proof.
    intros (HL & _). destruct (lm_delete_link_ok (links h) s t HL) as (l & Hd & _ & Hcase).
    unfold delete_link. rewrite Hd. eexists. split; [reflexivity|]. unfold q_links. cbn [links with_links].
    destruct Hcase as [[Hin HP]|[Hn ->]]; [left|right]; auto.
  Qed.

  (* "reported port counts are never smaller than the highest offset in use plus one" *)
  Theorem port_count_lower_bounds h s t : Inv h -> In (s, t) (q_links h) ->
    (exists k, num_out_ports h (fst s) = Some k /\ (snd s + 1 <= k)%Z) /\
    (exists k, num_in_ports h (fst t) = Some k /\ (snd t + 1 <= k)%Z).
  Proof.
    intros (_ & _ & HC & _) Hin. destruct (HC s t Hin) as ((d & E & B) & (d2 & E2 & B2)).
    unfold num_out_ports, num_in_ports. rewrite E, E2. cbn. split; eexists; (split; [reflexivity|lia]).
  Qed.
  (* "... nor than the count requested at creation": the new node reports exactly the requested count,
     and live_nodes_keep_index shows counts never shrink afterwards *)
  Theorem port_count_at_creation h g o parent k m : Inv h -> Rep h g -> a_live g (dflt g parent) = true ->
    exists h' n, add_node h o parent k m = (h', n, Ok) /\ num_out_ports h' n = Some (zdflt k) /\
                 q_parent h' n = Some (Some (dflt g parent)) /\ get_node h n = None.
  Proof.
    intros HI HR Hp. destruct (add_node_refines h g o parent k m HI HR Hp) as (h' & n & Ha & Hf & HI' & HR').
    exists h', n. split; [exact Ha|]. pose proof (get_refines h' _ n HR') as H.
    unfold s_add_node in H. cbn [a_nodes] in H.
    assert (Hfresh : aget (a_nodes g) n = None) by (unfold a_live in Hf; destruct (aget (a_nodes g) n); [discriminate|reflexivity]).
    assert (Hnp : n <> dflt g parent) by (intros E; unfold a_live in Hp; rewrite <- E, Hfresh in Hp; discriminate).
    rewrite aget_app_fresh in H by (rewrite a_upd_get; destruct (Nat.eqb_spec n (dflt g parent)); [contradiction|assumption]).
    rewrite Nat.eqb_refl in H. unfold num_out_ports, q_parent.
    destruct (get_node h' n) as [d|]; [|discriminate]. cbn in H. injection H as H1 H2 H3 H4 H5 H6. cbn.
    split; [|split].
    - now rewrite H6.
    - now rewrite H2.
    - pose proof (get_refines h g n HR) as H'. rewrite Hfresh in H'. destruct (get_node h n); [discriminate|reflexivity].
  Qed.

  (* the corollaries that mention an allocation, for every choice of free index *)
  Theorem live_nodes_keep_index_at pick (h : hugr) g c h' rt r g' n d : Inv h -> Rep h g ->
    bstep_at pick h c = (h', rt, r) -> s_bstep g c rt = Next g' -> get_node h n = Some d -> c <> DelNode n ->
    exists d', get_node h' n = Some d' /\ nd_op d' = nd_op d /\ nd_parent d' = nd_parent d /\ nd_meta d' = nd_meta d /\
               (nd_inps d <= nd_inps d')%Z /\ (nd_outs d <= nd_outs d')%Z.
  Proof.
    intros HI HR Hb Hs Hd. unfold bstep_at in Hb. rewrite <- (prefer_get (pick_of pick) h n) in Hd.
    exact (live_nodes_keep_index _ g c h' rt r g' n d (Inv_prefer _ h HI) (Rep_prefer _ h g HR) Hb Hs Hd).
  Qed.
  Theorem port_count_at_creation_at pick (h : hugr) g o parent k m : Inv h -> Rep h g -> a_live g (dflt g parent) = true ->
    exists h' n, add_node (prefer pick h) o parent k m = (h', n, Ok) /\ num_out_ports h' n = Some (zdflt k) /\
                 q_parent h' n = Some (Some (dflt g parent)) /\ get_node h n = None.
  Proof.
    intros HI HR Hp.
    destruct (port_count_at_creation _ g o parent k m (Inv_prefer pick h HI) (Rep_prefer pick h g HR) Hp)
      as (h' & n & H1 & H2 & H3 & H4).
    exists h', n. rewrite prefer_get in H4. auto.
  Qed.

  Theorem reachable_refines (o : Op) (m : Meta) cs g' :
    s_brun (s_init 0 o m) (trace (init o m) cs) = Next g' ->
    Inv (brun (init o m) cs) /\ Rep (brun (init o m) cs) g'.
  Proof. destruct (init_inv o m) as [HI HR]. exact (brun_refines cs _ _ g' HI HR). Qed.
  Theorem reachable_never_bad (o : Op) (m : Meta) cs :
    s_brun (s_init 0 o m) (trace (init o m) cs) <> Bad.
  Proof. destruct (init_inv o m) as [HI HR]. exact (brun_never_bad cs _ _ HI HR). Qed.
End W.
