(* C01 — the signature rows of the hand-transcribed validator (model/Validity.v: df_sig, inner_sig, the rows compared by
   the Conditional / CFG children checks and the CFG edge check) are the rows the Rust sources build.

   gen/RustTables.v carries, regenerated from `fn signature` / `fn inner_signature` / the helper methods of
   hugr-core/src/ops/*.rs, each row as a concatenation of items over the FIELD NAMES of the Rust operation struct
   (row F, ty F, sum_rows F = Type::new_sum(F), sum2 A B, fn F = Type::new_function(F), row_at F I, sig_in/sig_out F,
   body_in/body_out F).  This file
     * says which argument of each constructor of Validity.v's `vop` stands for which Rust field (`field`; hand-written,
       the counterpart of `rname`), and proves every row-/type-/signature-typed field of every Rust struct is represented
       (explicit exception list: the polymorphic signatures that Validity.v interns as one number, AliasDefn.definition);
     * evaluates the regenerated expressions over those fields (`eval_row`) and proves, for ALL operations and type tables,
       that the rows of Validity.v match them item by item, where an item built by Type::new_sum / Type::new_function is
       matched by the type id the operation literal carries for it — under rule 4 of Validity.v (r_derived_types), which
       checks exactly that id against the table. *)
From Coq Require Import NArith List Bool Arith String Lia.
Import ListNotations.
From HV Require Import lib.Harness model.Validity gen.RustTables proofs.RustTablesP.
Local Open Scope string_scope.
Local Open Scope list_scope.

(* ------------------------------------------------------------------ fields of the Rust structs, read off a vop *)
Inductive fval :=
| FRow (r : row)             (* TypeRow *)
| FRows (rs : list row)      (* Vec<TypeRow> *)
| FTy (t : tyid)             (* Type *)
| FNat (n : N)               (* usize *)
| FSig (i o : row).          (* Signature; for FuncDefn.signature (PolyFuncType) its body *)

Definition fkind (v : fval) : string :=
  match v with FRow _ => "row" | FRows _ => "rows" | FTy _ => "ty" | FNat _ => "nat" | FSig _ _ => "sig" end.



(* HAND-WRITTEN: which constructor argument is which field of the Rust struct (names as in hugr-core/src/ops/*.rs) *)
Definition fields_of (o : vop) : list (string * fval) :=
  match o with
  | Module | FuncDecl _ | AliasDecl | AliasDefn | Const _ => []
  | FuncDefn _ i o' => [("signature", FSig i o')]
  | Input t => [("types", FRow t)]
  | Output t => [("types", FRow t)]
  | Call _ i o' => [("instantiation", FSig i o')]
  | CallIndirect i o' _ => [("signature", FSig i o')]
  | LoadConst t => [("datatype", FTy t)]
  | LoadFunc _ i o' _ => [("instantiation", FSig i o')]
  | DFG i o' => [("signature", FSig i o')]
  | CFG i o' => [("signature", FSig i o')]
  | Block i rows others _ => [("inputs", FRow i); ("sum_rows", FRows rows); ("other_outputs", FRow others)]
  | ExitB o' => [("cfg_outputs", FRow o')]
  | Conditional rows others outs _ => [("sum_rows", FRows rows); ("other_inputs", FRow others); ("outputs", FRow outs)]
  | Case i o' => [("signature", FSig i o')]
  | TailLoop ji jo rest _ => [("just_inputs", FRow ji); ("just_outputs", FRow jo); ("rest", FRow rest)]
  | Tag t vs _ => [("tag", FNat t); ("variants", FRows vs)]
  | ExtOp i o' => [("signature", FSig i o')]
  end.
Definition field (o : vop) (f : string) : option fval := slookup f (fields_of o).

(* every field of the Rust struct whose type is TypeRow, Vec<TypeRow>, Type, Signature, usize or PolyFuncType is
   represented with the right kind.  EXCEPTIONS (explicit):
     - FuncDecl.signature, Call.func_sig, LoadFunction.func_sig : PolyFuncType — Validity.v interns the whole polymorphic
       signature as one number (fsig) compared for equality on Function edges; the rules never look inside;
     - FuncDefn.signature : PolyFuncType — represented by its body (DataflowParent::inner_signature = signature.body());
     - AliasDefn.definition : Type — aliases are not modelled beyond their tag. *)
Definition field_exception (k f : string) : bool :=
  (String.eqb k "FuncDecl" && String.eqb f "signature") || (String.eqb k "Call" && String.eqb f "func_sig") ||
  (String.eqb k "LoadFunction" && String.eqb f "func_sig") || (String.eqb k "AliasDefn" && String.eqb f "definition").
Definition fields_modelled_b : bool :=
  forallb (fun o =>
    forallb (fun k =>
      match slookup k rs_fields with
      | None => false
      | Some fs =>
          forallb (fun ft => field_exception k (fst ft) ||
                             match field o (fst ft) with
                             | Some v => String.eqb (fkind v) (if String.eqb (snd ft) "poly" then "sig" else snd ft)
                             | None => false
                             end) fs &&
          (* and nothing else: every field of the hand-written table is a field of the struct *)
          forallb (fun fv => existsb (fun ft => String.eqb (fst ft) (fst fv)) fs) (fields_of o)
      end) (rnames o)) all_wits.
Lemma fields_modelled : fields_modelled_b = true.
Proof. vm_compute. reflexivity. Qed.

(* ------------------------------------------------------------------ evaluating a regenerated row expression *)
Inductive ritem :=
| RT (t : tyid)                (* a type that is there *)
| RSum (rows : list row)       (* Type::new_sum(rows) *)
| RFn (i o : row).             (* Type::new_function(i -> o) *)

Definition eval_item (o : vop) (params : list (string * N)) (it : string * list string) : option (list ritem) :=
  let (kind, args) := it in
  match args with
  | [a] =>
      match field o a with
      | Some (FRow r) => if String.eqb kind "row" then Some (map RT r) else None
      | Some (FTy t) => if String.eqb kind "ty" then Some [RT t] else None
      | Some (FRows rs) => if String.eqb kind "sum_rows" then Some [RSum rs] else None
      | Some (FSig i o') =>
          if String.eqb kind "fn" then Some [RFn i o']
          else if String.eqb kind "sig_in" || String.eqb kind "body_in" then Some (map RT i)
          else if String.eqb kind "sig_out" || String.eqb kind "body_out" then Some (map RT o')
          else None
      | _ => None
      end
  | [a; b] =>
      if String.eqb kind "sum2" then
        match field o a, field o b with
        | Some (FRow x), Some (FRow y) => Some [RSum [x; y]]
        | _, _ => None
        end
      else if String.eqb kind "row_at" then
        match field o a, (match field o b with Some (FNat n) => Some n | _ => slookup b params end) with
        | Some (FRows rs), Some n => option_map (map RT) (nthN rs n)
        | _, _ => None
        end
      else None
  | _ => None
  end.
Fixpoint eval_row (o : vop) (params : list (string * N)) (e : list (string * list string)) : option (list ritem) :=
  match e with
  | [] => Some []
  | it :: r => match eval_item o params it, eval_row o params r with
               | Some a, Some b => Some (a ++ b)
               | _, _ => None
               end
  end.

(* an evaluated item against a type id of Validity.v: the same id, or an id the table describes as that sum / function *)
Definition item_matches (tys : list tyinfo) (it : ritem) (t : tyid) : bool :=
  match it with
  | RT t' => (t' =? t)%N
  | RSum rows => is_sum_of tys t rows
  | RFn i o => is_fn_of tys t i o
  end.
Fixpoint items_match (tys : list tyinfo) (a : list ritem) (b : row) : bool :=
  match a, b with
  | [], [] => true
  | x :: r, y :: s => item_matches tys x y && items_match tys r s
  | _, _ => false
  end.
Definition sig_agrees (tys : list tyinfo) (o : vop) (params : list (string * N))
           (e : option (list (string * list string) * list (string * list string))) (v : option (row * row)) : bool :=
  match e, v with
  | Some (ei, eo), Some (i, oo) =>
      match eval_row o params ei, eval_row o params eo with
      | Some a, Some b => items_match tys a i && items_match tys b oo
      | _, _ => false
      end
  | None, None => true
  | _, _ => false
  end.

(* rule 4 of Validity.v for one operation *)
Definition derived_ok (tys : list tyinfo) (o : vop) : bool :=
  match o with
  | CallIndirect i o f => is_fn_of tys f i o
  | LoadFunc _ i o f => is_fn_of tys f i o
  | Block _ rows _ s => is_sum_of tys s rows
  | Conditional rows _ _ s => is_sum_of tys s rows
  | TailLoop ji jo _ c => is_sum_of tys c [ji; jo]
  | Tag t vs s => is_sum_of tys s vs && (t <? lenN vs)%N
  | _ => true
  end.
Lemma r_derived_types_is : forall tys g, r_derived_types tys g = forallb (fun n => derived_ok tys (n_op n)) (g_nodes g).
Proof. reflexivity. Qed.

Lemma im_rt : forall tys r, items_match tys (map RT r) r = true.
Proof. induction r as [|t r IH]; cbn; [reflexivity|]. now rewrite N.eqb_refl, IH. Qed.
Lemma im_rt_app : forall tys r x y, items_match tys (map RT r ++ x) (r ++ y) = items_match tys x y.
Proof. induction r as [|t r IH]; intros; cbn; [reflexivity|]. now rewrite N.eqb_refl, IH. Qed.
Lemma im_rt_nil : forall tys r, items_match tys (map RT r ++ []) r = true.
Proof. intros. rewrite app_nil_r. apply im_rt. Qed.
Lemma im_rt_app_nil : forall tys r s, items_match tys (map RT r ++ map RT s ++ []) (r ++ s) = true.
Proof. intros. rewrite im_rt_app. apply im_rt_nil. Qed.

Local Arguments map : simpl never.
Local Arguments app : simpl never.
Local Arguments items_match : simpl never.
Local Arguments is_sum_of : simpl never.
Local Arguments is_fn_of : simpl never.

Ltac im_solve :=
  repeat first
    [ reflexivity
    | assumption
    | rewrite N.eqb_refl
    | rewrite im_rt_app_nil
    | rewrite im_rt_nil
    | rewrite im_rt
    | match goal with
      | |- context [items_match ?tys ([?x] ++ ?r) (?t :: ?s)] =>
          change (items_match tys ([x] ++ r) (t :: s)) with (item_matches tys x t && items_match tys r s)
      | |- context [items_match ?tys [] []] => change (items_match tys [] []) with true
      | H : ?a = true |- context [?a] => rewrite H
      end
    | progress cbn [item_matches andb] ].

(* OpTrait::dataflow_signature: for every operation, the rows of df_sig are the regenerated ones *)
Theorem df_sig_matches : forall tys o k, derived_ok tys o = true -> In k (rnames o) ->
  sig_agrees tys o [] (slookup k rs_signature) (df_sig o) = true.
Proof.
  intros tys o k D H.
  destruct o; cbn [rnames rname] in H;
    repeat (destruct H as [<-|H]; [|]); try contradiction;
    cbn in D |- *; try reflexivity; im_solve.
  (* Tag: variants.get(tag) exists under rule 4 *)
  all: try (apply andb_true_iff in D as [D1 D2]; apply N.ltb_lt in D2;
            unfold nthN; destruct (nth_error variants (N.to_nat tag)) eqn:E;
            [cbn; im_solve
            |apply nth_error_None in E; unfold lenN in D2; lia]).
Qed.

(* DataflowParent::inner_signature *)
Theorem inner_sig_matches : forall tys o k, derived_ok tys o = true -> In k (rnames o) ->
  sig_agrees tys o [] (slookup k rs_inner_signature) (inner_sig o) = true.
Proof.
  intros tys o k D H.
  destruct o; cbn [rnames rname] in H;
    repeat (destruct H as [<-|H]; [|]); try contradiction;
    cbn in D |- *; try reflexivity; im_solve.
Qed.

(* Conditional::validate_op_children compares case i's inner signature with (case_input_row(i), outputs): these are the
   rows `fst rc ++ others` and `outs` of r_io_rows's Conditional clause *)
Theorem case_rows_match : forall rows others outs s i r,
  nthN rows i = Some r ->
  eval_row (Conditional rows others outs s) [("#case", i)] rs_case_input_row = Some (map RT r ++ map RT others ++ []) /\
  eval_row (Conditional rows others outs s) [] rs_case_output_row = Some (map RT outs ++ []).
Proof. intros. cbn. rewrite H. split; reflexivity. Qed.

(* validate_cfg_edge compares successor_input(port) of the source block with dataflow_input of the target: these are
   `rw ++ others` and the target's `ins` / `outs` in r_cfg_edges; CFG::validate_op_children compares the entry block's
   inputs and the exit block's cfg_outputs with the CFG's signature (r_io_rows's CFG clause) *)
Theorem successor_rows_match : forall ins rows others s i r,
  nthN rows i = Some r ->
  eval_row (Block ins rows others s) [("#successor", i)] rs_successor_input = Some (map RT r ++ map RT others ++ []).
Proof. intros. cbn. rewrite H. reflexivity. Qed.
Theorem block_input_rows_match :
  (forall ins rows others s, option_map (eval_row (Block ins rows others s) []) (slookup "DataflowBlock" rs_block_input)
                             = Some (Some (map RT ins ++ []))) /\
  (forall outs, option_map (eval_row (ExitB outs) []) (slookup "ExitBlock" rs_block_input) = Some (Some (map RT outs ++ []))).
Proof. split; intros; reflexivity. Qed.

(* non-vacuity: a type table with a sum and a function type *)
Example ex_sig :
  let tys := [TAtom true; TSum true [[0]; []]; TFn [0] [0] 0]%N in
  derived_ok tys (Conditional [[0]; []] [0] [0] 1)%N = true /\
  sig_agrees tys (Conditional [[0]; []] [0] [0] 1)%N [] (slookup "Conditional" rs_signature)
             (df_sig (Conditional [[0]; []] [0] [0] 1)%N) = true /\
  sig_agrees tys (Conditional [[0]; []] [0] [0] 0)%N [] (slookup "Conditional" rs_signature)
             (df_sig (Conditional [[0]; []] [0] [0] 0)%N) = false.
Proof. vm_compute. repeat split; reflexivity. Qed.
