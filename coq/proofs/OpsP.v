(* Proofs for C06: the model of hugr.ops (model/Ops.v) computes what the specification's typing rules
   (spec/OpsS.v) assign. *)
From Coq Require Import ZArith NArith List Bool Arith Lia ZifyBool.
Import ListNotations.
From HV Require Import lib.Harness model.Types model.Ops spec.OpsS.
Local Open Scope Z_scope.

(* ---- Python indexing at non-negative offsets is nth_error ---- *)
Lemma py_index_nonneg {A} (l : list A) (z : Z) : 0 <= z ->
  py_index l z = match nth_error l (Z.to_nat z) with Some x => Ret x | None => Raise EIndex end.
Proof.
  intros Hz. unfold py_index.
  destruct (z <? 0) eqn:E; [lia|].
  destruct (nth_error l (Z.to_nat z)) eqn:En.
  - assert (Hlt : (Z.to_nat z < length l)%nat) by (apply nth_error_Some; congruence).
    destruct ((z <? 0) || (Z.of_nat (length l) <=? z)) eqn:E2; [lia|reflexivity].
  - destruct ((z <? 0) || (Z.of_nat (length l) <=? z)); reflexivity.
Qed.
Lemma py_index_nat {A} (l : list A) (i : nat) :
  py_index l (Z.of_nat i) = match nth_error l i with Some x => Ret x | None => Raise EIndex end.
Proof. rewrite py_index_nonneg by lia. now rewrite Nat2Z.id. Qed.
Lemma py_index_single {A} (x : A) (z : Z) : z <> -1 ->
  py_index [x] z = if z =? 0 then Ret x else Raise EIndex.
Proof.
  intros Hz. unfold py_index. cbn [length].
  destruct (z <? 0) eqn:E.
  - destruct ((z + Z.of_nat 1 <? 0) || (Z.of_nat 1 <=? z + Z.of_nat 1)) eqn:E2; [|lia].
    destruct (z =? 0) eqn:E3; [lia|reflexivity].
  - destruct (z =? 0) eqn:E3.
    + assert (z = 0) by lia. subst. reflexivity.
    + destruct ((z <? 0) || (Z.of_nat 1 <=? z)) eqn:E2; [reflexivity|lia].
Qed.

Lemma sum_rows_iff t rs : sum_rows t rs <-> sum_rows_f t = Some rs.
Proof.
  split.
  - intros []; reflexivity.
  - destruct t; cbn; intros H; inversion H; constructor.
Qed.
Lemma sum_rows_variant t rs : sum_rows_f t = Some rs -> variant_rows t = Ret rs.
Proof. destruct t; cbn; intros H; inversion H; reflexivity. Qed.

Section Proofs.
  Variable V : Type.
  Variable vtype : V -> result ty.
  Notation op := (op V).
  (* the specification's "type of a constant" is whatever the value reports (typing of values is C14) *)
  Definition ctype_of (v : V) : option ty := match vtype v with Ret t => Some t | Raise _ => None end.
  Notation ct := ctype_of.

  Definition f_rows (f : functy) : rows := (f_in f, f_out f).

  (* ---- has_sig is the graph of spec_sig ---- *)
  Lemma has_sig_iff (o : op) s : has_sig o s <-> spec_sig o = Some s.
  Proof.
    split.
    - intros H; destruct H as [| | | |e n p a Hp| | | |i s0 rs r Hs Hn| | | | | | | |]; cbn; try reflexivity.
      + destruct d; reflexivity.
      + rewrite Hp. reflexivity.
      + destruct (Z.of_nat i <? 0) eqn:E; [lia|].
        apply sum_rows_iff in Hs. rewrite Hs, Nat2Z.id, Hn. reflexivity.
    - destruct o; cbn; intros H;
        repeat match type of H with
               | match ?x with _ => _ end = _ => destruct x eqn:?
               | (if ?x then _ else _) = _ => destruct x eqn:?
               end; inversion H; subst; try (constructor; fail).
      + constructor. assumption.
      + replace tag with (Z.of_nat (Z.to_nat tag)) by lia.
        econstructor; [apply sum_rows_iff; eassumption|assumption].
  Qed.

  (* well-formedness excluding the two places where the code answers although the specification is silent:
     a negative tag (Python indexing wraps around) and a polymorphic extension op without cached signature *)
  Definition wf_op (o : op) : bool :=
    match o with
    | OTag z _ => 0 <=? z
    | OExtOp _ _ (Some p) None _ => match p_params p with [] => true | _ => false end
    | _ => true
    end.

  (* ---- signatures ---- *)
  Theorem sig_sound (o : op) s : has_sig o s -> exists f, df_sig o = Ret f /\ f_rows f = s.
  Proof.
    intros H; destruct H as [| | | | | | | |i s0 rs r Hs Hn| | | | | | | |]; cbn; try (eexists; split; reflexivity).
    apply sum_rows_iff, sum_rows_variant in Hs. rewrite Hs. cbn.
    rewrite py_index_nat, Hn. cbn. eexists; split; reflexivity.
  Qed.
  Theorem sig_complete (o : op) f : df_sig o = Ret f -> wf_op o = true -> has_sig o (f_rows f).
  Proof.
    intros H W. apply has_sig_iff.
    destruct o; cbn in *; unfold dfg_signature in *;
      repeat match type of H with
             | context [complete ?x] => destruct x; cbn in H
             | match ?x with _ => _ end = _ => destruct x eqn:?; cbn in H
             end; try discriminate; inversion H; subst; cbn; try reflexivity.
    - destruct def_sig; reflexivity.
    - destruct (p_params p); [reflexivity|discriminate].
    - (* Tag *)
      destruct (tag <? 0) eqn:E; [lia|].
      destruct sum; cbn in *; try discriminate.
      + rewrite py_index_nonneg in H by lia.
        destruct (nth_error rows (Z.to_nat tag)); inversion H; reflexivity.
      + rewrite py_index_nonneg in H by lia.
        destruct (nth_error (repeat [] n) (Z.to_nat tag)); inversion H; reflexivity.
  Qed.
  Theorem sig_unique (o : op) s1 s2 : has_sig o s1 -> has_sig o s2 -> s1 = s2.
  Proof. intros H1 H2. apply has_sig_iff in H1, H2. congruence. Qed.

  Lemma spec_sig_df (o : op) ins outs : spec_sig o = Some (ins, outs) ->
    exists f, df_sig o = Ret f /\ f_in f = ins /\ f_out f = outs.
  Proof.
    intros H. apply has_sig_iff, sig_sound in H. destruct H as [f [H1 H2]].
    exists f. inversion H2. auto.
  Qed.

  Lemma has_inner_iff (o : op) s : has_inner_sig o s <-> spec_inner_sig o = Some s.
  Proof.
    split.
    - intros []; reflexivity.
    - destruct o; cbn; intros H;
        repeat match type of H with match ?x with _ => _ end = _ => destruct x eqn:? end;
        inversion H; constructor.
  Qed.
  Theorem inner_sound (o : op) s : has_inner_sig o s -> exists f, inner_sig o = Ret f /\ f_rows f = s.
  Proof. intros []; cbn; eexists; split; reflexivity. Qed.
  Theorem inner_complete (o : op) f : inner_sig o = Ret f -> has_inner_sig o (f_rows f).
  Proof.
    intros H. apply has_inner_iff.
    destruct o; cbn in *; unfold dfg_signature, funcdefn_signature in *; try discriminate;
      repeat match type of H with context [complete ?x] => destruct x; cbn in H end;
      try discriminate; inversion H; reflexivity.
  Qed.

  Theorem case_inputs_correct (o : op) i r : case_inputs o i r -> nth_inputs o (Z.of_nat i) = Ret r.
  Proof.
    intros [s rs oth outs j r0 Hs Hn]. cbn.
    apply sum_rows_iff, sum_rows_variant in Hs. rewrite Hs. cbn. rewrite py_index_nat, Hn. reflexivity.
  Qed.
  Theorem successor_inputs_correct (o : op) i r : successor_inputs o i r -> nth_outputs o (Z.of_nat i) = Ret r.
  Proof.
    intros [ins s rs oth d j r0 Hs Hn]. cbn.
    apply sum_rows_iff, sum_rows_variant in Hs. rewrite Hs. cbn. rewrite py_index_nat, Hn. reflexivity.
  Qed.

  (* ---- output count ---- *)
  Theorem num_out_correct (o : op) n : spec_num_out o = Some n -> num_out o = Ret (Z.of_nat n).
  Proof.
    unfold spec_num_out. destruct (spec_sig o) as [[ins outs]|] eqn:E.
    - intros H; inversion H; subst. apply spec_sig_df in E. destruct E as [f [E1 [E2 E3]]]. subst.
      destruct o; cbn in *; unfold dfg_signature in *;
        repeat match type of E1 with
               | context [complete ?x] => destruct x; cbn in E1
               | context [bind ?x _] => destruct x eqn:?; cbn in E1
               | match ?x with _ => _ end = _ => destruct x eqn:?; cbn in E1
               end; try discriminate; inversion E1; subst; cbn; unfold zlen; try reflexivity.
      + rewrite app_length, Nat2Z.inj_add. reflexivity.
    - destruct o; cbn in *; intros H; try discriminate; try (inversion H; reflexivity).
      (* Block *)
      destruct sum as [s|]; [|discriminate]. cbn.
      destruct (sum_rows_f s) eqn:Es; [|discriminate]. inversion H; subst.
      rewrite (sum_rows_variant _ _ Es). reflexivity.
  Qed.

  (* ---- port kinds ---- *)
  Definition is_typed (r : result kind) : bool :=
    match r with Ret (ValueKind _) | Ret (ConstKind _) | Ret (FunctionKind _) => true | _ => false end.

  (* the generic DataflowOp.port_kind on an operation with a known signature *)
  Lemma row_kind (row : list ty) z : 0 <= z ->
    rmap ValueKind (py_index row z) =
    match nth_error row (Z.to_nat z) with Some t => Ret (ValueKind t) | None => Raise EIndex end.
  Proof. intros Hz. rewrite py_index_nonneg by assumption. destruct (nth_error row (Z.to_nat z)); reflexivity. Qed.

  Ltac zcase z :=
    destruct (z =? -1) eqn:?Em1; [|destruct (z <? 0) eqn:?Eneg].

  Theorem port_kind_spec (o : op) d z :
    match spec_port_kind ct o d z with
    | Port k => port_kind vtype o d z = Ret k
    | NoPort => is_typed (port_kind vtype o d z) = false
    | Unspecified => True
    end.
  Proof.
    unfold spec_port_kind. zcase z.
    - (* order port *)
      destruct o, d; cbn; rewrite ?Em1; cbn; try reflexivity;
        (destruct (z =? 0) eqn:E0; [lia|reflexivity]).
    - exact I.
    - assert (Hz : 0 <= z) by lia.
      destruct (spec_sig o) as [[ins outs]|] eqn:Es.
      + (* operations with a dataflow signature *)
        destruct (spec_sig_df _ _ _ Es) as [f [Ef [Ei Eo]]]. subst ins outs.
        assert (Hgen : forall dd, rmap ValueKind (sig_port_type f dd z) =
                  match nth_error (match dd with In => f_in f | Out => f_out f end) (Z.to_nat z) with
                  | Some t => Ret (ValueKind t) | None => Raise EIndex end).
        { intros dd. unfold sig_port_type. rewrite Em1. destruct dd; apply row_kind; assumption. }
        destruct o; cbn in Es; try discriminate;
          (* generic DataflowOp classes *)
          try (cbn [port_kind op_port_type is_dataflow_op static_port static_site];
               cbn [df_sig] in Ef; rewrite Em1, Ef; cbn [bind]; rewrite Hgen;
               destruct d; cbn [f_in f_out];
               (destruct (nth_error _ (Z.to_nat z)); [reflexivity|]);
               (destruct (Nat.eqb _ _); reflexivity)).
        * (* LoadConst *)
          destruct t as [t|]; [|discriminate]. cbn in Ef. inversion Ef; subst f. cbn.
          rewrite Em1. destruct d; cbn.
          -- destruct (Z.to_nat z) eqn:En; cbn.
             ++ assert (z = 0) by lia. subst. reflexivity.
             ++ destruct (z =? 0) eqn:E0; [lia|]. destruct n; reflexivity.
          -- destruct (Z.to_nat z) eqn:En; cbn.
             ++ assert (z = 0) by lia. subst. reflexivity.
             ++ destruct (z =? 0) eqn:E0; [lia|]. destruct n; cbn; try reflexivity.
        * (* Call *)
          cbn in Ef. inversion Ef; subst f. cbn [port_kind]. rewrite Em1.
          destruct d; cbn [static_port static_site].
          -- destruct (nth_error (f_in inst) (Z.to_nat z)) eqn:En.
             ++ assert ((Z.to_nat z < length (f_in inst))%nat) by (apply nth_error_Some; congruence).
                unfold zlen. destruct (z =? Z.of_nat (length (f_in inst))) eqn:E2; [lia|].
                rewrite Hgen. cbn. rewrite En. reflexivity.
             ++ destruct (Nat.eqb (Z.to_nat z) (length (f_in inst))) eqn:E3.
                ** apply Nat.eqb_eq in E3. unfold zlen.
                   destruct (z =? Z.of_nat (length (f_in inst))) eqn:E2; [reflexivity|lia].
                ** apply Nat.eqb_neq in E3. unfold zlen.
                   destruct (z =? Z.of_nat (length (f_in inst))) eqn:E2; [lia|].
                   rewrite Hgen. cbn. rewrite En. reflexivity.
          -- rewrite Hgen. cbn. destruct (nth_error (f_out inst) (Z.to_nat z)); [reflexivity|].
             destruct (Nat.eqb _ _); reflexivity.
        * (* LoadFunc *)
          cbn in Ef. inversion Ef; subst f. cbn. rewrite Em1. destruct d; cbn.
          -- destruct (Z.to_nat z) eqn:En; cbn.
             ++ assert (z = 0) by lia. subst. reflexivity.
             ++ destruct (z =? 0) eqn:E0; [lia|]. destruct n; reflexivity.
          -- destruct (Z.to_nat z) eqn:En; cbn.
             ++ assert (z = 0) by lia. subst. reflexivity.
             ++ destruct (z =? 0) eqn:E0; [lia|]. destruct n; cbn; try reflexivity.
      + (* no dataflow signature *)
        destruct (dataflow_node o) eqn:Edf; [exact I|].
        destruct o; cbn in Edf; try discriminate; cbn [cf_ports static_port static_site port_kind].
        * (* Block *)
          destruct sum as [s|], d; try exact I.
          -- destruct (Nat.ltb _ _); reflexivity.
          -- destruct (sum_rows_f s); [|exact I]. destruct (Nat.ltb _ _); reflexivity.
          -- destruct (Nat.ltb _ _); reflexivity.
        * (* Exit *) destruct d; destruct (Nat.ltb _ _); reflexivity.
        * (* Const *)
          destruct d; cbn.
          -- destruct (Nat.eqb _ _); reflexivity.
          -- destruct (Nat.eqb (Z.to_nat z) 0) eqn:E0.
             ++ apply Nat.eqb_eq in E0. assert (z = 0) by lia. subst. cbn. unfold ctype_of.
                destruct (vtype v); cbn; [reflexivity|exact I].
             ++ apply Nat.eqb_neq in E0. destruct (z =? 0) eqn:E1; [lia|]. reflexivity.
        * (* Case *) destruct d; destruct (Nat.eqb _ _); reflexivity.
        * (* FuncDefn *)
          destruct d; cbn.
          -- destruct (Nat.eqb _ _); reflexivity.
          -- destruct (Nat.eqb (Z.to_nat z) 0) eqn:E0.
             ++ apply Nat.eqb_eq in E0. assert (z = 0) by lia. subst. cbn.
                destruct outputs; cbn; [reflexivity|exact I].
             ++ apply Nat.eqb_neq in E0. destruct (z =? 0) eqn:E1; [lia|]. reflexivity.
        * (* FuncDecl *)
          destruct d; cbn.
          -- destruct (Nat.eqb _ _); reflexivity.
          -- destruct (Nat.eqb (Z.to_nat z) 0) eqn:E0.
             ++ apply Nat.eqb_eq in E0. assert (z = 0) by lia. subst. reflexivity.
             ++ apply Nat.eqb_neq in E0. destruct (z =? 0) eqn:E1; [lia|]. reflexivity.
        * (* Module *) destruct d; destruct (Nat.eqb _ _); reflexivity.
        * (* AliasDecl *) destruct d; destruct (Nat.eqb _ _); reflexivity.
        * (* AliasDefn *) destruct d; destruct (Nat.eqb _ _); reflexivity.
  Qed.

  Theorem port_kind_correct (o : op) d z k :
    spec_port_kind ct o d z = Port k -> port_kind vtype o d z = Ret k.
  Proof. intros H. pose proof (port_kind_spec o d z) as P. rewrite H in P. exact P. Qed.
  Theorem port_kind_no_invented_port (o : op) d z :
    spec_port_kind ct o d z = NoPort -> is_typed (port_kind vtype o d z) = false.
  Proof. intros H. pose proof (port_kind_spec o d z) as P. rewrite H in P. exact P. Qed.

  (* ---- the type reported for a value output port is the payload of its kind ---- *)
  Theorem value_out_type_is_kind_payload (o : op) z t :
    port_kind vtype o Out z = Ret (ValueKind t) <-> hugr_port_type vtype o Out z = Ret (Some t).
  Proof.
    assert (G : forall r : result ty, rmap ValueKind r = Ret (ValueKind t) <-> rmap Some r = Ret (Some t)).
    { intros [x|e]; cbn; split; intros H; inversion H; reflexivity. }
    destruct (z =? -1) eqn:Em1.
    - (* the order offset: an order port at most, never a type *)
      assert (z = -1) by lia. subst z.
      destruct o; cbn; unfold dfg_signature, funcdefn_signature;
        (split; intros H; try discriminate H;
         repeat match type of H with
                | context [complete ?x] => destruct x; cbn in H
                | context [match ?x with _ => _ end] => destruct x; cbn in H
                | context [bind ?x _] => destruct x; cbn in H
                end;
         discriminate H).
    - assert (S1 : forall x : ty,
                ((if z =? 0 then Ret (ValueKind x) else Raise EInvalidPort) = Ret (ValueKind t) <->
                 rmap Some (py_index [x] z) = Ret (Some t))).
      { intros x. rewrite py_index_single by lia.
        destruct (z =? 0); cbn; split; intros H; inversion H; reflexivity. }
      destruct o; cbn [port_kind hugr_port_type is_dataflow_op]; rewrite ?Em1;
        try (apply G);
        try (split; intros H; [|discriminate H]; unfold funcdefn_signature in H;
             repeat match type of H with
                    | context [if ?c then _ else _] => destruct c
                    | context [rmap _ ?r] => destruct r; cbn [rmap bind] in H
                    end; discriminate H).
      + (* LoadConst *)
        unfold op_port_type; cbn [is_dataflow_op outer_sig].
        destruct t0 as [x|]; cbn [complete bind rmap].
        * unfold sig_port_type. rewrite Em1. cbn [f_out]. apply S1.
        * destruct (z =? 0); split; intros H; discriminate H.
      + (* Call *)
        destruct (sig_port_type inst Out z); cbn [rmap bind]; split; intros H; inversion H; reflexivity.
      + (* LoadFunc *)
        unfold op_port_type; cbn [is_dataflow_op outer_sig bind].
        unfold sig_port_type. rewrite Em1. cbn [f_out]. apply S1.
  Qed.

  (* ---- a reported type is the specification's, in BOTH directions ----
     Which ports Hugr.port_type answers with a type at all is a choice of the implementation (today: every value
     port of the DataflowOp classes, the value outputs of a Call, not the value inputs of a Call).  The
     statements are therefore made for EVERY answer function [pt] whose reported types are payloads of the
     port's kind ([kind_payload_reports]); the code's function is one instance, the variant that also answers
     on the value inputs of a Call is another. *)
  Definition kind_payload_reports (pt : op -> dir -> Z -> result (option ty)) : Prop :=
    forall o d z t, pt o d z = Ret (Some t) -> port_kind vtype o d z = Ret (ValueKind t).

  Theorem reported_type_is_specified pt : kind_payload_reports pt ->
    forall o d z t, pt o d z = Ret (Some t) ->
      match spec_port_kind ct o d z with
      | Port (ValueKind t0) => t = t0          (* a value port: the type the specification assigns *)
      | Port _ | NoPort => False               (* static / control-flow / order port, no port: never a type *)
      | Unspecified => True
      end.
  Proof.
    intros Hpt o d z t H. apply Hpt in H. pose proof (port_kind_spec o d z) as P.
    destruct (spec_port_kind ct o d z) as [k| |].
    - rewrite H in P. inversion P; subst k. reflexivity.
    - rewrite H in P. discriminate P.
    - exact I.
  Qed.

  Lemma op_port_type_not_order (o : op) d t : op_port_type o d (-1) <> Ret t.
  Proof.
    unfold op_port_type. destruct (is_dataflow_op o); [|discriminate].
    destruct (outer_sig o); cbn; discriminate.
  Qed.

  Theorem hugr_port_type_kind_payload : kind_payload_reports (hugr_port_type vtype).
  Proof.
    intros o d z t H.
    destruct d; [|apply value_out_type_is_kind_payload; exact H].
    unfold hugr_port_type in H.
    destruct (is_dataflow_op o) eqn:Edf.
    - destruct (op_port_type o In z) as [x|e] eqn:Ept; cbn in H; [|discriminate]. inversion H; subst x.
      destruct (z =? -1) eqn:Em1.
      { assert (z = -1) by lia. subst z. exfalso. exact (op_port_type_not_order _ _ _ Ept). }
      destruct o; cbn in Edf; try discriminate; cbn [port_kind]; rewrite ?Em1; try (rewrite Ept; reflexivity).
      + (* LoadConst: no value input *)
        exfalso. unfold op_port_type in Ept. cbn in Ept. destruct t0; cbn in Ept; [|discriminate].
        unfold sig_port_type in Ept. rewrite Em1 in Ept. cbn in Ept. unfold py_index in Ept. cbn in Ept.
        destruct (z <? 0); destruct ((_ <? 0) || (_ <=? _)) eqn:E2 in Ept; try discriminate; lia.
      + (* LoadFunc: no value input *)
        exfalso. unfold op_port_type in Ept. cbn in Ept.
        unfold sig_port_type in Ept. rewrite Em1 in Ept. cbn in Ept. unfold py_index in Ept. cbn in Ept.
        destruct (z <? 0); destruct ((_ <? 0) || (_ <=? _)) eqn:E2 in Ept; try discriminate; lia.
    - destruct o; discriminate H.
  Qed.

  (* the variant that answers on the value inputs of a Call too (the payload of the port's kind in either
     direction): equally admissible, and it differs from the code's function exactly there *)
  Definition hugr_port_type_call_inputs (o : op) (d : dir) (z : Z) : result (option ty) :=
    match o with
    | OCall _ _ _ =>
        bind (port_kind vtype o d z) (fun k => match k with ValueKind t => Ret (Some t) | _ => Ret None end)
    | _ => hugr_port_type vtype o d z
    end.
  Theorem hugr_port_type_call_inputs_kind_payload : kind_payload_reports hugr_port_type_call_inputs.
  Proof.
    intros o d z t H. destruct o; try (apply hugr_port_type_kind_payload; exact H).
    unfold hugr_port_type_call_inputs in H.
    destruct (port_kind vtype (OCall sig inst targs) d z) as [k|e]; cbn in H; [|discriminate].
    destruct k; inversion H; reflexivity.
  Qed.

  (* today's answers on value INPUT ports: the specified type, or (Call) no type -- never another type *)
  Theorem in_port_type_none_or_specified (o : op) z t0 :
    spec_port_kind ct o In z = Port (ValueKind t0) ->
    hugr_port_type vtype o In z = Ret (Some t0) \/ hugr_port_type vtype o In z = Ret None.
  Proof.
    intros Hs. pose proof (port_kind_correct _ _ _ _ Hs) as Hk.
    unfold hugr_port_type. destruct (is_dataflow_op o) eqn:Edf.
    - left.
      assert (Em1 : (z =? -1) = false).
      { destruct (z =? -1) eqn:E; [|reflexivity]. assert (z = -1) by lia. subst z.
        unfold spec_port_kind in Hs. cbn in Hs. destruct (has_order_port o In); discriminate Hs. }
      destruct o; cbn in Edf; try discriminate; cbn [port_kind] in Hk; rewrite ?Em1 in Hk;
        try (destruct (op_port_type _ In z); cbn in Hk |- *; inversion Hk; reflexivity).
      + (* LoadConst *) destruct (z =? 0); [destruct t; cbn in Hk|]; discriminate Hk.
      + (* LoadFunc *) destruct (z =? 0); discriminate Hk.
    - right. destruct o; reflexivity.
  Qed.

  (* ---- per operation kind ---- *)
  Theorem dfg_outer_is_inner i o d : outer_sig (V:=V) (ODFG i o d) = inner_sig (V:=V) (ODFG i o d).
  Proof. reflexivity. Qed.
  Theorem conditional_sig s oth outs :
    outer_sig (V:=V) (OConditional s oth (Some outs)) = Ret (mkF (s :: oth) outs []).
  Proof. reflexivity. Qed.
  Theorem tailloop_sigs ji x jo d :
    outer_sig (V:=V) (OTailLoop ji x (Some jo) d) = Ret (mkF (ji ++ x) (jo ++ x) []) /\
    inner_sig (V:=V) (OTailLoop ji x (Some jo) d) = Ret (mkF (ji ++ x) (TSum [ji; jo] :: x) []).
  Proof. split; reflexivity. Qed.
  Theorem tag_sig i s rs r : sum_rows s rs -> nth_error rs i = Some r ->
    outer_sig (V:=V) (OTag (Z.of_nat i) s) = Ret (mkF r [s] []).
  Proof.
    intros Hs Hn. cbn. apply sum_rows_iff, sum_rows_variant in Hs. rewrite Hs. cbn.
    rewrite py_index_nat, Hn. reflexivity.
  Qed.
  Theorem callindirect_sig f :
    outer_sig (V:=V) (OCallIndirect (Some f)) = Ret (mkF (fty f :: f_in f) (f_out f) []).
  Proof. reflexivity. Qed.
  Theorem make_unpack_inverse ts : exists m u,
    outer_sig (V:=V) (OMakeTuple (Some ts)) = Ret m /\ outer_sig (V:=V) (OUnpackTuple (Some ts)) = Ret u /\
    f_in u = f_out m /\ f_out u = f_in m /\ f_in m = ts /\ f_out m = [TSum [ts]].
  Proof. do 2 eexists. cbn. repeat split. Qed.

  (* Call exposes the instantiation, whatever the polymorphic body looks like *)
  Theorem call_ports_use_instantiation sig inst ta :
    let o : op := OCall sig inst ta in
    function_port_offset o = Ret (zlen (f_in inst)) /\
    num_out o = Ret (zlen (f_out inst)) /\
    port_kind vtype o In (zlen (f_in inst)) = Ret (FunctionKind sig) /\
    (forall i t, nth_error (f_in inst) i = Some t -> port_kind vtype o In (Z.of_nat i) = Ret (ValueKind t)) /\
    (forall i t, nth_error (f_out inst) i = Some t -> port_kind vtype o Out (Z.of_nat i) = Ret (ValueKind t)) /\
    port_kind vtype o In (-1) = Ret OrderKind /\ port_kind vtype o Out (-1) = Ret OrderKind.
  Proof.
    cbn. repeat split.
    - unfold zlen. destruct (Z.of_nat (length (f_in inst)) =? -1) eqn:E; [lia|].
      now rewrite Z.eqb_refl.
    - intros i t H.
      assert ((i < length (f_in inst))%nat) by (apply nth_error_Some; congruence).
      destruct (Z.of_nat i =? -1) eqn:E; [lia|]. unfold zlen.
      destruct (Z.of_nat i =? Z.of_nat (length (f_in inst))) eqn:E2; [lia|].
      unfold sig_port_type. rewrite E, py_index_nat, H. reflexivity.
    - intros i t H. destruct (Z.of_nat i =? -1) eqn:E; [lia|].
      unfold sig_port_type. rewrite E, py_index_nat, H. reflexivity.
  Qed.
  Theorem loadfunc_ports sig inst ta :
    let o : op := OLoadFunc sig inst ta in
    outer_sig o = Ret (mkF [] [fty inst] []) /\ num_out o = Ret 1 /\
    port_kind vtype o In 0 = Ret (FunctionKind sig) /\ port_kind vtype o Out 0 = Ret (ValueKind (fty inst)) /\
    port_kind vtype o In (-1) = Ret OrderKind /\ port_kind vtype o Out (-1) = Ret OrderKind.
  Proof. cbn. repeat split. Qed.

  (* LoadConstant and Const agree on the constant's type *)
  Theorem loadconst_const_agree v t lc : vtype v = Ret t -> loadconst_of vtype v = Ret lc ->
    port_kind vtype (OConst v) Out 0 = Ret (ConstKind t) /\
    port_kind vtype lc In 0 = Ret (ConstKind t) /\
    port_kind vtype lc Out 0 = Ret (ValueKind t) /\
    outer_sig lc = Ret (mkF [] [t] []).
  Proof.
    unfold loadconst_of. intros Hv Hl. rewrite Hv in Hl. cbn in Hl. inversion Hl; subst. cbn.
    rewrite Hv. repeat split.
  Qed.
End Proofs.

(* ---- non-vacuity and the two refuted pre-repair behaviours (V := ty, a constant is its type) ---- *)
Definition vt0 (t : ty) : result ty := Ret t.
(* forall (r : [Type]). r -> r   instantiated at [usize, qubit]: two value inputs, the function port at 2 *)
Definition ex_poly : polyfunc := mkP [PList (PType Any)] (mkF [TRowVar 0 Any] [TRowVar 0 Any] []).
Definition ex_inst : functy := mkF [TUSize; TQubit] [TUSize; TQubit] [].
Definition ex_call : op ty := OCall ex_poly ex_inst [ASeq [AType TUSize; AType TQubit]].

Example ex_call_ports :
  function_port_offset ex_call = Ret 2 /\ num_out ex_call = Ret 2 /\
  port_kind vt0 ex_call In 1 = Ret (ValueKind TQubit) /\ port_kind vt0 ex_call In 2 = Ret (FunctionKind ex_poly) /\
  spec_port_kind (ctype_of ty vt0) ex_call In 2 = Port (FunctionKind ex_poly) /\
  has_sig ex_call ([TUSize; TQubit], [TUSize; TQubit]).
Proof. repeat split; try reflexivity. apply S_Call. Qed.

Example ex_tag_has_sig : has_sig (OTag (V:=ty) 1 (TSum [[]; [TQubit; TUSize]])) ([TQubit; TUSize], [TSum [[]; [TQubit; TUSize]]]).
Proof. refine (S_Tag ty 1%nat _ [[]; [TQubit; TUSize]] _ _ _); [constructor|reflexivity]. Qed.

(* D13 as found: counted on the polymorphic body, the Call has one output and the function port at 1 *)
Theorem call_counts_orig_refuted : exists o : op ty, exists n,
  spec_num_out o = Some n /\ call_num_out_orig o <> Ret (Z.of_nat n) /\
  exists k, spec_port_kind (ctype_of ty vt0) o In 1 = Port k /\ port_kind_orig vt0 o In 1 <> Ret k.
Proof.
  exists ex_call, 2%nat. split; [reflexivity|]. split; [vm_compute; discriminate|].
  exists (ValueKind TQubit). split; [reflexivity|vm_compute; discriminate].
Qed.
(* D14 as found: the order port of LoadConst / LoadFunc / Call raised *)
Theorem order_port_orig_refuted : exists o1 o2 o3 : op ty,
  (forall o, List.In o [o1; o2; o3] ->
     spec_port_kind (ctype_of ty vt0) o Out (-1) = Port OrderKind /\ port_kind_orig vt0 o Out (-1) <> Ret OrderKind).
Proof.
  exists (OLoadConst (Some TUSize)), (OLoadFunc (mono ex_inst) ex_inst []), ex_call.
  intros o [<-|[<-|[<-|[]]]]; (split; [reflexivity|vm_compute; discriminate]).
Qed.
