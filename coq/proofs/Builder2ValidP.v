(* C01 (fourth pass) — rules 9 and 11 on the serialised document, and ALL 18 rules together, for every program of the
   extended builder language (model/Builder2.v) under the premises croot_ok, wt_prog2, ord_prog2, lin_prog2:
     run2_linear_once        rule 9   (from LinInv2 with nothing pending, proofs/Builder2LinearP.v)
     run2_nonlocal_copyable  rule 11  (SibLin from proofs/Builder2LinearP.v, OrdSib from proofs/Builder2AcyclicP.v,
                                       ConstLinks from proofs/Builder2NonLocalP.v)
     run2_valid              valid {| tys; run2 p; [] |} = true *)
From Coq Require Import NArith List Bool Arith Lia.
Import ListNotations.
From HV Require Import lib.Harness model.Validity model.Builder model.Builder2 spec.BuilderS spec.BuilderWFS
  proofs.BuilderP proofs.BuilderExtP proofs.BuilderFrameP proofs.BuilderRulesP proofs.BuilderTypeP proofs.BuilderAcyclicP
  proofs.BuilderNonLocalP proofs.BuilderInputsP proofs.BuilderLinearP proofs.BuilderCopyP
  proofs.Builder2UnfoldP proofs.Builder2InvP proofs.Builder2P spec.Builder2WFS
  proofs.Builder2FrameP proofs.Builder2RulesP proofs.Builder2TypeP proofs.Builder2InputsP proofs.Builder2NonLocalP
  spec.Builder2LiveS proofs.Builder2AcyclicP proofs.Builder2LinearP.
Local Open Scope N_scope.

(* ------------------------------------------------------------------ from the store to the resolved edges *)
Lemma link_ok_resolve_src2 st e : link_okb2 (s_nodes st) e = true ->
  exists r nds, resolve (to_serial st) (ser st e) = Some r /\ r_src r = e_src e /\ r_dst r = e_dst e /\
    nthN (s_nodes st) (e_src e) = Some nds /\
    r_so r = match e_soff e with Some a => a | None => base_out (n_op nds) end /\
    match e_soff e with
    | None => True
    | Some a => (exists t, nthN (val_out (n_op nds)) a = Some t /\ r_kind r = KValue t) \/ is_static (r_kind r) = true
    end.
Proof.
  unfold link_okb2, resolve, op_of, op_at, ser, constrain_out, constrain_in, s_op, to_serial.
  cbn [g_nodes e_src e_dst e_soff e_doff].
  destruct (nthN (s_nodes st) (e_src e)) as [ns|] eqn:Es; [|discriminate]. cbn [option_map].
  destruct (option_map n_op (nthN (s_nodes st) (e_dst e))) as [do_|] eqn:Ed; [|discriminate].
  destruct (e_soff e) as [a|], (e_doff e) as [b|]; try discriminate.
  - destruct (nthN (val_out (n_op ns)) a) as [t|] eqn:Ea.
    + destruct (nthN (val_in do_) b) as [t'|] eqn:Eb.
      * intros _. rewrite (proj1 (kind_out_value _ _ _ Ea)). eexists _, ns. repeat split. left. eauto.
      * destruct (n_op ns); try discriminate. cbn in Ea. rewrite nthN_nil in Ea. discriminate.
    + destruct (n_op ns) eqn:Eo; try discriminate. destruct do_; try discriminate. intros H.
      apply andb_true_iff in H. destruct H as [H H3]. apply andb_true_iff in H. destruct H as [H1 H2].
      apply N.eqb_eq in H1. subst a. cbn. eexists _, ns. repeat split. now right.
  - intros H. apply andb_true_iff in H. destruct H as [H1 H2].
    rewrite (proj1 (kind_out_order2 _ H1)). eexists _, ns. repeat split.
Qed.

Lemma links_from_cntf2 st i nd off t : LinkInv2 st -> nthN (s_nodes st) i = Some nd ->
  nthN (val_out (n_op nd)) off = Some t -> links_from (redges (to_serial st)) i off = cntf (s_links st) (i, off).
Proof.
  intros LI En Ht. pose proof (nthN_lt _ _ _ Ht) as Loff.
  unfold redges, cntf, links_from. rewrite to_serial_edges. unfold LinkInv2 in LI.
  induction (s_links st) as [|e l IH]; [reflexivity|]. cbn [forallb] in LI. apply andb_true_iff in LI. destruct LI as [Le Ll].
  cbn [map flat_map countb]. rewrite countb_app, (IH Ll).
  destruct (link_ok_resolve_src2 _ _ Le) as (r & nds & Hr & Hs & _ & Ens & Hso & _). rewrite Hr. cbn [countb]. rewrite N.add_0_r.
  f_equal. unfold from. cbn [fst snd]. rewrite Hs, Hso. destruct (N.eqb_spec (e_src e) i) as [Ei|_]; [|reflexivity]. cbn [andb].
  destruct (e_soff e) as [a|]; [reflexivity|]. cbn [optN_eqb option_eqb].
  rewrite Ei, En in Ens. inversion Ens; subst nds.
  destruct (N.eqb_spec (base_out (n_op nd)) off) as [E|_]; [|reflexivity]. unfold base_out in E. lia.
Qed.

Lemma linear_once_of2 tys st e : ModelOps2 (s_nodes st) -> LinkInv2 st -> LinInv2 tys st e [] (fun _ => False) ->
  r_linear_once tys (to_serial st) = true.
Proof.
  intros M LI [_ _ _ ALL _]. unfold r_linear_once. apply forallb_forall. intros [i nd] Hin. cbn [fst snd].
  apply in_indexed in Hin. cbn [to_serial g_nodes] in Hin.
  destruct (N.eqb_spec i 0) as [|Hi]; [reflexivity|]. cbn [orb]. apply andb_true_iff. split.
  - apply forallb_forall. intros [off t] Hot. cbn [fst snd]. apply in_indexed in Hot.
    destruct (ty_copy tys t) eqn:Ec; [reflexivity|]. cbn [orb]. apply N.eqb_eq.
    rewrite (links_from_cntf2 _ _ _ _ _ LI Hin Hot).
    assert (Hl : lin_at tys (s_nodes st) (i, off) = true) by (unfold lin_at, type_at; cbn [fst snd]; now rewrite Hin, Hot, Ec).
    destruct (ALL (i, off) Hi (fun F => F) Hl) as [H|(w & [] & _)]. exact H.
  - pose proof (forallb_nthN _ _ _ _ M Hin) as Hm. cbn beta in Hm. destruct (n_op nd); try reflexivity. discriminate Hm.
Qed.

Lemma nonlocal_copyable_of2 tys st : LinkInv2 st -> SibLin tys st -> OrdSib st -> r_nonlocal_copyable tys (to_serial st) = true.
Proof.
  intros LI SL OS. unfold r_nonlocal_copyable, no_code. apply forallb_forall. intros r Hr. apply negb_true_iff.
  destruct (classify tys (to_serial st) (redges (to_serial st)) r) eqn:Ec; try reflexivity. exfalso.
  apply classify_noncopyable_inv in Ec. destruct Ec as (fp & tp & Hps & Hpd & Hne & Hst & Hcp).
  unfold redges in Hr. apply in_flat_map in Hr. destruct Hr as (e' & He' & Hr).
  destruct (resolve (to_serial st) e') as [r'|] eqn:Er; [|destruct Hr]. destruct Hr as [<-|[]].
  rewrite to_serial_edges in He'. apply in_map_iff in He'. destruct He' as (e & <- & He).
  unfold LinkInv2 in LI. rewrite forallb_forall in LI.
  destruct (link_ok_resolve_src2 _ _ (LI _ He)) as (r0 & nds & Hr0 & Hs & Hd & Ens & _ & Hk). rewrite Er in Hr0. inversion Hr0; subst r0; clear Hr0.
  rewrite Hs, Hd, !parent_of_serial in *.
  destruct (e_soff e) as [a|] eqn:Ea.
  - destruct Hk as [(t & Et & Ek)|Hk]; [|congruence].
    specialize (Hcp _ Ek).
    assert (Hl : lin_at tys (s_nodes st) (e_src e, a) = true) by (unfold lin_at, type_at; cbn [fst snd]; now rewrite Ens, Et, Hcp).
    pose proof (SL e a He Ea Hl) as Q. congruence.
  - pose proof (OS e He Ea) as Q. congruence.
Qed.

(* ------------------------------------------------------------------ the theorems *)
Lemma exec_prog2_linear tys p st e1 : wt_prog2 tys p = true -> croot_ok p = true -> lin_prog2 tys p = true ->
  exec_prog2 tys p env0 = Ok (st, e1) -> LinInv2 tys st e1 [] (fun _ => False) /\ SibLin tys st.
Proof.
  unfold wt_prog2, lin_prog2. intros W Hc LN H. destruct (wt_progx tys p [] []) as [[[G' S'] [sin sout]]|] eqn:WP; [|discriminate].
  destruct (exec2_linear tys) as (_ & _ & _ & _ & LP).
  destruct (LP p _ _ _ _ _ _ _ _ _ H WP LN Hc EnvPos_env0) as (A & B & _); [constructor|constructor|auto].
Qed.

Theorem run2_linear_once tys p g : wt_prog2 tys p = true -> croot_ok p = true -> lin_prog2 tys p = true ->
  run2 tys p = Ok g -> r_linear_once tys g = true.
Proof.
  intros W Hc LN H. unfold run2 in H. bd H. destruct v as [st e1]. cbn [fst] in H. inversion H; subst; clear H.
  destruct (exec_prog2_typed _ _ _ _ W Hc E) as (LI & _ & _).
  destruct (exec_prog2_frame _ _ _ _ E Hc) as (_ & (M & _) & _).
  destruct (exec_prog2_linear _ _ _ _ W Hc LN E) as [LIv _]. eapply linear_once_of2; eauto.
Qed.

Theorem run2_nonlocal_copyable tys p g : wt_prog2 tys p = true -> croot_ok p = true -> ord_prog2 p = true ->
  lin_prog2 tys p = true -> run2 tys p = Ok g -> r_nonlocal_copyable tys g = true.
Proof.
  intros W Hc OD LN H. unfold run2 in H. bd H. destruct v as [st e1]. cbn [fst] in H. inversion H; subst; clear H.
  destruct (exec_prog2_typed _ _ _ _ W Hc E) as (LI & _ & _).
  destruct (exec_prog2_linear _ _ _ _ W Hc LN E) as [_ SL]. destruct (exec_prog2_forward _ _ _ _ OD Hc E) as [_ OS].
  now apply nonlocal_copyable_of2.
Qed.

(* the goal of props/C01.v for the extended language *)
Theorem run2_valid tys p g : r_table tys = true -> wf_prog2 tys p = true -> run2 tys p = Ok g ->
  valid {| v_tys := tys; v_main := g; v_subs := [] |} = true.
Proof.
  intros T WF H. unfold wf_prog2 in WF.
  apply andb_true_iff in WF. destruct WF as [WF LN]. apply andb_true_iff in WF. destruct WF as [WF OD].
  apply andb_true_iff in WF. destruct WF as [Hc W].
  destruct (run2_structural _ _ _ Hc H) as (R0 & R1 & R2).
  destruct (run2_root_func_cfg _ _ _ Hc H) as (R6 & R13 & R16).
  destruct (run2_typed_rules _ _ _ W Hc H) as (R3 & R4 & R5 & R7 & R17).
  pose proof (run2_inputs_once _ _ _ W Hc H) as R8. pose proof (run2_linear_once _ _ _ W Hc LN H) as R9.
  pose proof (run2_acyclic _ _ _ Hc OD H) as R10. pose proof (run2_nonlocal_copyable _ _ _ W Hc OD LN H) as R11.
  destruct (run2_nonlocal tys _ _ Hc H) as (R12 & R14 & R15).
  unfold valid, valid_graph, rules. cbn [v_tys v_main v_subs forallb].
  now rewrite T, R0, R1, R2, R3, R4, R5, R6, R7, R8, R9, R10, R11, R12, R13, R14, R15, R16, R17.
Qed.

(* non-vacuity: both example programs of the extended language satisfy all the premises *)
Example ex4_wf : wf_prog2 ex4_tys ex4_prog = true /\ r_table ex4_tys = true.
Proof. split; vm_compute; reflexivity. Qed.
Example ex5_wf : wf_prog2 ex5_tys ex5_prog = true /\ r_table ex5_tys = true.
Proof. split; vm_compute; reflexivity. Qed.


(* a NON-COPYABLE value (type 0) goes through a Conditional (cases built in the order 1, 0), an inserted Dfg and a
   TailLoop, each time consumed exactly once; the program satisfies every premise and the whole `valid` accepts its
   document (19 nodes) *)
Definition ex7_tys : list tyinfo := [TAtom false; TSum true [[]; []]].
Definition ex7_prog : prog2 :=
  QDfg [0; 1] (Reg [1; 2]
    (TCons (TCond 1 2 [1] (CCons 1 (Reg [3] TNil [3]) (CCons 0 (Reg [4] (TCons (TOp 2 ONoop [4] [5]) TNil) [5]) CNil)) [6])
    (TCons (TInsert 3 (QDfg [0] (Reg [7] TNil [7])) [6] [8])
    (TCons (TLoop 4 [] [8] (Reg [9] (TCons (TLoad 5 (VSum 1 0 []) CHere 10) TNil) [10; 9]) [11])
     TNil))) [11]).
Example ex7_linear : wf_prog2 ex7_tys ex7_prog = true /\ r_table ex7_tys = true /\
  exists g, run2 ex7_tys ex7_prog = Ok g /\ valid {| v_tys := ex7_tys; v_main := g; v_subs := [] |} = true /\
    length (g_nodes g) = 19%nat /\
    existsb (fun n => existsb (fun t => negb (ty_copy ex7_tys t)) (val_out (n_op n))) (g_nodes g) = true.
Proof.
  split; [vm_compute; reflexivity|]. split; [vm_compute; reflexivity|]. eexists.
  split; [vm_compute; reflexivity|]. split; [vm_compute; reflexivity|]. split; vm_compute; reflexivity.
Qed.

(* the premises are needed: a non-copyable wire used twice (rule 9 fails), and one used in a nested region (rule 11 fails);
   hugr-py raises for neither *)
Definition ex8_twice : prog2 :=
  QDfg [0] (Reg [1] (TCons (TOp 1 (OFixed [0; 0] [0]) [1; 1] [2]) TNil) [2]).
Example ex8_twice_refuted : wt_prog2 ex7_tys ex8_twice = true /\ lin_prog2 ex7_tys ex8_twice = false /\
  exists g, run2 ex7_tys ex8_twice = Ok g /\ r_linear_once ex7_tys g = false.
Proof. split; [vm_compute; reflexivity|]. split; [vm_compute; reflexivity|]. eexists. split; vm_compute; reflexivity. Qed.
Definition ex8_nonlocal : prog2 :=
  QDfg [0] (Reg [1] (TCons (TNested 1 [] (Reg [] (TCons (TOp 2 ONoop [1] [2]) TNil) [2]) [3]) TNil) [3]).
Example ex8_nonlocal_refuted : wt_prog2 ex7_tys ex8_nonlocal = true /\ lin_prog2 ex7_tys ex8_nonlocal = false /\
  exists g, run2 ex7_tys ex8_nonlocal = Ok g /\ r_nonlocal_copyable ex7_tys g = false.
Proof. split; [vm_compute; reflexivity|]. split; [vm_compute; reflexivity|]. eexists. split; vm_compute; reflexivity. Qed.
