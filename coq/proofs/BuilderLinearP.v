(* C01 (second pass) — rule 9: every output port of non-copyable type of every non-root node has exactly one
   outgoing link, for every well-typed program whose non-copyable wires are consumed exactly once in their own
   region (spec/BuilderWFS.v: lin_prog) and whose builder calls do not raise.

   The invariant (LinInv): the checker's list of pending wires (the current region's, followed by those of the
   enclosing regions) names, injectively, exactly the non-copyable out ports that have no link yet; every other
   non-copyable out port has exactly one. *)
From Coq Require Import NArith List Bool Arith Lia.
Import ListNotations.
From HV Require Import lib.Harness model.Validity model.Builder spec.BuilderS spec.BuilderWFS
  proofs.BuilderP proofs.BuilderExtP proofs.BuilderFrameP proofs.BuilderRulesP proofs.BuilderTypeP proofs.BuilderAcyclicP
  proofs.BuilderInputsP.
Local Open Scope N_scope.

(* ------------------------------------------------------------------ counting *)
Definition from (p : N * N) (e : edge) : bool := (e_src e =? fst p) && optN_eqb (e_soff e) (Some (snd p)).
Definition cntf (es : list edge) (p : N * N) : N := countb (from p) es.
Definition pair_eq (p q : N * N) : bool := (fst q =? fst p) && (snd q =? snd p).
Definition occ (w : wid) (l : list wid) : N := countb (N.eqb w) l.
Definition wport (e : env) (w : wid) : option (N * N) := lookup (e_wires e) w.

Lemma cntf_app a b p : cntf (a ++ b) p = cntf a p + cntf b p.
Proof. apply countb_app. Qed.
Lemma countb_ext_in {A} (f g : A -> bool) l : (forall x, In x l -> f x = g x) -> countb f l = countb g l.
Proof.
  induction l as [|x l IH]; intros H; cbn [countb]; [reflexivity|]. rewrite (H x (or_introl eq_refl)), IH; [reflexivity|].
  intros y Hy. apply H. now right.
Qed.
Lemma countb_le1_notin (w : wid) l : ~ In w l -> occ w l = 0.
Proof. intros H. apply countb_zero. intros x Hx. apply N.eqb_neq. intros ->. contradiction. Qed.
Lemma pair_eq_true p q : pair_eq p q = true <-> q = p.
Proof.
  unfold pair_eq. rewrite andb_true_iff, !N.eqb_eq. destruct p, q; cbn. split; [intros [-> ->]; reflexivity|intros H; inversion H; auto].
Qed.

Lemma WNew_cntf st node ws : forall i ts new, WNew st node i ws ts new -> forall p, cntf new p = countb (pair_eq p) ws.
Proof.
  intros i ts new H. induction H; intros p; [reflexivity|].
  rewrite cntf_app. assert (Hpre : cntf pre p = 0).
  { destruct H0 as [->|[-> _]]; [reflexivity|]. unfold cntf, from, olink. cbn [countb e_src e_soff optN_eqb option_eqb].
    now rewrite andb_false_r. }
  rewrite Hpre. unfold cntf at 1. cbn [countb]. fold (cntf rest p). rewrite IHWNew. reflexivity.
Qed.

Lemma get_wires_ports e args : forall ws, get_wires e args = Ok ws -> forall p,
  countb (pair_eq p) ws = countb (fun a => match wport e a with Some q => pair_eq p q | None => false end) args.
Proof.
  induction args as [|a r IH]; intros ws H p; cbn [get_wires] in H.
  - inversion H. reflexivity.
  - unfold get_wire in H. destruct (lookup (e_wires e) a) as [q|] eqn:E; [|discriminate].
    cbn [bind] in H. destruct (get_wires e r) as [qs|] eqn:E2; [|discriminate]. cbn [bind] in H. inversion H; subst ws.
    cbn [countb]. unfold wport at 1. rewrite E. f_equal. now apply IH.
Qed.

(* ------------------------------------------------------------------ use_wires *)
Section Lin.
  Variable tys : list tyinfo.

  Definition lin_w (G : tenv) (w : wid) : bool :=
    match wire_ty G w with Some t => negb (ty_copy tys t) | None => false end.

  Lemma removeN_In w x l : In x (removeN w l) <-> In x l /\ x <> w.
  Proof.
    unfold removeN. rewrite filter_In. split; intros [A B]; split; auto.
    - apply negb_true_iff, N.eqb_neq in B. exact B.
    - apply negb_true_iff, N.eqb_neq. exact B.
  Qed.
  Lemma removeN_NoDup w l : NoDup l -> NoDup (removeN w l).
  Proof. apply NoDup_filter. Qed.

  Lemma use_wires_spec G args : forall pend pend1, use_wires tys G pend args = Some pend1 -> NoDup pend ->
    NoDup pend1 /\
    (forall w, In w pend1 <-> In w pend /\ ~ (In w args /\ lin_w G w = true)) /\
    (forall w, In w args -> lin_w G w = true -> In w pend /\ occ w args = 1).
  Proof.
    induction args as [|a r IH]; intros pend pend1 H ND; cbn [use_wires] in H.
    - inversion H; subst. split; [exact ND|]. split; [intros w; split; [intros X; split; [exact X|intros [[] _]]|tauto]|intros w []].
    - destruct (wire_ty G a) as [t|] eqn:Ea; [|discriminate].
      assert (La : lin_w G a = negb (ty_copy tys t)) by (unfold lin_w; now rewrite Ea).
      destruct (ty_copy tys t) eqn:Ec.
      + destruct (IH _ _ H ND) as (N1 & I1 & O1). split; [exact N1|]. split.
        * intros w. rewrite I1. split; intros [A B]; split; auto.
          -- intros [[<-|X] Y]; [rewrite La in Y; discriminate|apply B; auto].
          -- intros [X Y]. apply B. split; [now right|exact Y].
        * intros w [<-|X] Y; [rewrite La in Y; discriminate|]. destruct (O1 _ X Y) as [P Q]. split; [exact P|].
          unfold occ in *. cbn [countb]. destruct (N.eqb_spec w a) as [->|_]; [rewrite La in Y; discriminate|]. lia.
      + destruct (memN a pend) eqn:Em; [|discriminate]. apply memN_In in Em.
        destruct (IH _ _ H (removeN_NoDup a _ ND)) as (N1 & I1 & O1). split; [exact N1|]. split.
        * intros w. rewrite I1, removeN_In. split.
          -- intros [[A A'] B]. split; [exact A|]. intros [[<-|X] Y]; [congruence|apply B; auto].
          -- intros [A B]. split; [split; [exact A|]|].
             ++ intros ->. apply B. split; [now left|]. now rewrite La.
             ++ intros [X Y]. apply B. split; [now right|exact Y].
        * intros w [<-|X] Y.
          -- split; [exact Em|]. unfold occ. cbn [countb]. rewrite N.eqb_refl.
             destruct (in_dec N.eq_dec a r) as [Hin|Hn].
             ++ destruct (O1 _ Hin Y) as [P _]. apply removeN_In in P. destruct P as [_ P]. congruence.
             ++ fold (occ a r). rewrite (countb_le1_notin _ _ Hn). reflexivity.
          -- destruct (O1 _ X Y) as [P Q]. apply removeN_In in P. destruct P as [P Pn]. split; [exact P|].
             unfold occ in *. cbn [countb]. destruct (N.eqb_spec w a) as [->|_]; [congruence|]. lia.
  Qed.

  (* ------------------------------------------------------------------ binding result wires *)
  Lemma bind_from_notin rs : forall e n i w, ~ In w rs -> wport (bind_outs_from e n i rs) w = wport e w.
  Proof.
    induction rs as [|r rest IH]; intros e n i w H; cbn [bind_outs_from]; [reflexivity|].
    rewrite IH by (intros X; apply H; now right). unfold wport. cbn [e_wires lookup].
    destruct (N.eqb_spec w r) as [->|_]; [elim H; now left|reflexivity].
  Qed.
  Lemma bind_from_nth rs : forall e n i j r, NoDup rs -> nth_error rs j = Some r ->
    wport (bind_outs_from e n i rs) r = Some (n, i + N.of_nat j).
  Proof.
    induction rs as [|x rest IH]; intros e n i j r ND H; [destruct j; discriminate|]. inversion ND as [|? ? Hx ND']; subst.
    cbn [bind_outs_from]. destruct j as [|j]; cbn [nth_error] in H.
    - inversion H; subst x. rewrite bind_from_notin by exact Hx. unfold wport. cbn [e_wires lookup]. rewrite N.eqb_refl.
      f_equal. f_equal. lia.
    - rewrite (IH _ _ _ _ _ ND' H). f_equal. f_equal. lia.
  Qed.
  Lemma in_lin_outs_from rs outs : forall i r, In r (lin_outs_from tys i rs outs) <->
    exists j t, nth_error rs j = Some r /\ nthN outs (i + N.of_nat j) = Some t /\ ty_copy tys t = false.
  Proof.
    induction rs as [|x rest IH]; intros i r; cbn [lin_outs_from].
    - split; [intros []|intros (j & t & H & _); destruct j; discriminate].
    - assert (S : (exists j t, nth_error (x :: rest) j = Some r /\ nthN outs (i + N.of_nat j) = Some t /\ ty_copy tys t = false) <->
                  (x = r /\ exists t, nthN outs i = Some t /\ ty_copy tys t = false) \/
                  (exists j t, nth_error rest j = Some r /\ nthN outs (i + 1 + N.of_nat j) = Some t /\ ty_copy tys t = false)).
      { split.
        - intros (j & t & H1 & H2 & H3). destruct j as [|j]; cbn [nth_error] in H1.
          + left. inversion H1. split; [reflexivity|]. exists t. rewrite N.add_0_r in H2. auto.
          + right. exists j, t. replace (i + 1 + N.of_nat j) with (i + N.of_nat (S j)) by lia. auto.
        - intros [[-> (t & H2 & H3)]|(j & t & H1 & H2 & H3)].
          + exists 0%nat, t. rewrite N.add_0_r. auto.
          + exists (S j), t. replace (i + N.of_nat (S j)) with (i + 1 + N.of_nat j) by lia. auto. }
      rewrite S. destruct (nthN outs i) as [t|] eqn:Et.
      + destruct (ty_copy tys t) eqn:Ec.
        * rewrite IH. split; [auto|]. intros [[_ (t' & E & C)]|X]; [inversion E; subst; congruence|exact X].
        * cbn [In]. rewrite IH. split; [intros [->|X]; [left; eauto|auto]|]. intros [[-> _]|X]; auto.
      + rewrite IH. split; [auto|]. intros [[_ (t' & E & _)]|X]; [discriminate|exact X].
  Qed.
  Lemma lin_outs_incl rs outs i r : In r (lin_outs_from tys i rs outs) -> In r rs.
  Proof. intros H. apply in_lin_outs_from in H. destruct H as (j & t & H & _). eapply nth_error_In; eauto. Qed.
  Lemma lin_outs_NoDup rs outs : forall i, NoDup rs -> NoDup (lin_outs_from tys i rs outs).
  Proof.
    induction rs as [|x rest IH]; intros i ND; cbn [lin_outs_from]; [constructor|]. inversion ND as [|? ? Hx ND']; subst.
    destruct (nthN outs i) as [t|]; [|auto]. destruct (ty_copy tys t); [auto|]. constructor; [|auto].
    intros H. apply lin_outs_incl in H. contradiction.
  Qed.
End Lin.

(* ------------------------------------------------------------------ the invariant *)
Lemma NoDup_app_intro {A} (a b : list A) : NoDup a -> NoDup b -> (forall x, In x a -> ~ In x b) -> NoDup (a ++ b).
Proof.
  induction a as [|x a IH]; intros Na Nb D; cbn; [exact Nb|]. inversion Na as [|? ? Hx Na']; subst. constructor.
  - intros H. apply in_app_or in H. destruct H as [H|H]; [contradiction|]. apply (D x); [now left|exact H].
  - apply IH; auto. intros y Hy. apply D. now right.
Qed.
Lemma NoDup_app_l {A} (a b : list A) : NoDup (a ++ b) -> NoDup a.
Proof.
  induction a as [|x a IH]; intros N; [constructor|]. cbn in N. inversion N as [|? ? Hx N']; subst. constructor; [|auto].
  intros H. apply Hx. apply in_or_app. now left.
Qed.
Lemma NoDup_app_r {A} (a b : list A) : NoDup (a ++ b) -> NoDup b.
Proof. induction a as [|x a IH]; intros N; [exact N|]. cbn in N. inversion N; auto. Qed.
Lemma NoDup_app_disj {A} (a b : list A) x : NoDup (a ++ b) -> In x a -> In x b -> False.
Proof.
  induction a as [|y a IH]; intros N Ha Hb; [destruct Ha|]. cbn in N. inversion N as [|? ? Hy N']; subst.
  destruct Ha as [->|Ha]; [apply Hy; apply in_or_app; now right|eauto].
Qed.

Section Lin2.
  Variable tys : list tyinfo.

  Definition lin_at (l : list vnode) (p : N * N) : bool :=
    match type_at l p with Some t => negb (ty_copy tys t) | None => false end.

  (* gp: pending wires; x: a node whose out ports are not yet accounted for *)
  Record LinInv (st : store) (e : env) (gp : list wid) (x : N) : Prop := {
    li_nodup : NoDup gp;
    li_pend : forall w, In w gp ->
              exists p, wport e w = Some p /\ lin_at (s_nodes st) p = true /\ cntf (s_links st) p = 0;
    li_inj : forall w w' p, In w gp -> In w' gp -> wport e w = Some p -> wport e w' = Some p -> w = w';
    li_all : forall p, fst p <> 0 -> fst p <> x -> lin_at (s_nodes st) p = true ->
             cntf (s_links st) p = 1 \/ exists w, In w gp /\ wport e w = Some p }.

  Lemma lin_w_G_of l e w : lin_w tys (G_of l e) w = match wport e w with Some p => lin_at l p | None => false end.
  Proof.
    unfold lin_w, wire_ty, G_of, wport, lin_at. rewrite lookup_map_snd.
    destruct (lookup (e_wires e) w) as [p|]; cbn [option_map]; [|reflexivity]. now destruct (type_at l p).
  Qed.

  Lemma consume st st1 e args ws pend pend1 rest x1 new :
    LinInv st e (pend ++ rest) 0 ->
    (forall p, fst p <> x1 -> lin_at (s_nodes st1) p = lin_at (s_nodes st) p) ->
    s_links st1 = s_links st ++ new ->
    (forall p, lin_at (s_nodes st) p = true -> cntf new p = countb (pair_eq p) ws) ->
    get_wires e args = Ok ws -> use_wires tys (G_of (s_nodes st) e) pend args = Some pend1 ->
    (forall w p, In w (pend ++ rest) -> wport e w = Some p -> fst p <> x1) ->
    LinInv st1 e (pend1 ++ rest) x1.
  Proof.
    intros [ND PE INJ ALL] K El Hnew Gw UW Hx.
    destruct (use_wires_spec tys _ _ _ _ UW (NoDup_app_l _ _ ND)) as (N1 & I1 & O1).
    assert (Sub : forall w, In w (pend1 ++ rest) -> In w (pend ++ rest)).
    { intros w H. apply in_app_or in H. apply in_or_app. destruct H as [H|H]; [left; now apply I1|now right]. }
    (* an argument wire naming a non-copyable port is a pending wire of this region, used once *)
    assert (F : forall a p, In a args -> wport e a = Some p -> lin_at (s_nodes st) p = true -> In a pend /\ occ a args = 1).
    { intros a p Ha Hp Hl. apply O1; [exact Ha|]. now rewrite lin_w_G_of, Hp. }
    assert (Cnew : forall p, lin_at (s_nodes st) p = true ->
              cntf new p = countb (fun a => match wport e a with Some q => pair_eq p q | None => false end) args).
    { intros p Hl. rewrite (Hnew p Hl). now apply get_wires_ports. }
    constructor.
    - apply NoDup_app_intro; [exact N1|exact (NoDup_app_r _ _ ND)|].
      intros w H1 H2. apply I1 in H1. exact (NoDup_app_disj _ _ _ ND (proj1 H1) H2).
    - intros w Hw. destruct (PE w (Sub w Hw)) as (p & Hp & Hl & Hc). exists p. split; [exact Hp|]. split.
      + rewrite K; [exact Hl|]. eapply Hx; eauto.
      + rewrite El, cntf_app, Hc, (Cnew p Hl). cbn. apply countb_zero. intros a Ha.
        destruct (wport e a) as [q|] eqn:Eq; [|reflexivity]. apply not_true_iff_false. intros E. apply pair_eq_true in E. subst q.
        destruct (F a p Ha Eq Hl) as [Hap _].
        assert (a = w) by (eapply INJ; eauto; apply in_or_app; now left). subst a.
        apply in_app_or in Hw. destruct Hw as [Hw|Hw].
        * apply I1 in Hw. apply (proj2 Hw). split; [exact Ha|]. now rewrite lin_w_G_of, Eq.
        * exact (NoDup_app_disj _ _ _ ND Hap Hw).
    - intros w w' p Hw Hw'. apply INJ; auto.
    - intros p P0 P1 Hl1. rewrite K in Hl1 by exact P1. destruct (ALL p P0 P0 Hl1) as [Hc|(w & Hw & Hp)].
      + left. rewrite El, cntf_app, Hc, (Cnew p Hl1). replace (countb _ args) with 0; [reflexivity|]. symmetry.
        apply countb_zero. intros a Ha. destruct (wport e a) as [q|] eqn:Eq; [|reflexivity].
        apply not_true_iff_false. intros E. apply pair_eq_true in E. subst q.
        destruct (F a p Ha Eq Hl1) as [Hap _]. destruct (PE a (in_or_app _ _ _ (or_introl Hap))) as (p' & Hp' & _ & Hc').
        rewrite Eq in Hp'. inversion Hp'; subst p'. rewrite Hc in Hc'. discriminate.
      + destruct (in_dec N.eq_dec w (pend1 ++ rest)) as [Hin|Hnin]; [right; eauto|left].
        destruct (PE w Hw) as (p' & Hp' & _ & Hc). rewrite Hp in Hp'. inversion Hp'; subst p'.
        apply in_app_or in Hw. destruct Hw as [Hw|Hw]; [|elim Hnin; apply in_or_app; now right].
        assert (X : In w args /\ lin_w tys (G_of (s_nodes st) e) w = true).
        { destruct (in_dec N.eq_dec w args) as [Ha|Hna].
          - split; [exact Ha|]. now rewrite lin_w_G_of, Hp.
          - elim Hnin. apply in_or_app. left. apply I1. split; [exact Hw|]. intros [Ha _]. contradiction. }
        destruct (O1 _ (proj1 X) (proj2 X)) as [_ Hocc].
        rewrite El, cntf_app, Hc, (Cnew p Hl1). cbn. rewrite <- Hocc. unfold occ. apply countb_ext_in. intros a Ha.
        destruct (wport e a) as [q|] eqn:Eq.
        * destruct (pair_eq p q) eqn:E.
          -- apply pair_eq_true in E. subst q. destruct (F a p Ha Eq Hl1) as [Hap _].
             assert (a = w) by (eapply INJ; eauto; apply in_or_app; now left). subst a. symmetry. apply N.eqb_refl.
          -- symmetry. apply N.eqb_neq. intros ->. rewrite Hp in Eq. inversion Eq; subst q.
             assert (pair_eq p p = true) by (apply pair_eq_true; reflexivity). congruence.
        * symmetry. apply N.eqb_neq. intros ->. congruence.
  Qed.

  Lemma bind_lin st e e' gp n nd rs :
    LinInv st e gp n -> n <> 0 -> nthN (s_nodes st) n = Some nd ->
    NoDup rs -> (forall r, In r rs -> wport e r = None) -> covers tys rs (val_out (n_op nd)) = true ->
    (forall j, cntf (s_links st) (n, j) = 0) ->
    (forall w p, In w gp -> wport e w = Some p -> fst p <> n) ->
    (forall w, ~ In w rs -> wport e' w = wport e w) ->
    (forall j r, nth_error rs j = Some r -> wport e' r = Some (n, N.of_nat j)) ->
    LinInv st e' (lin_outs tys rs (val_out (n_op nd)) ++ gp) 0.
  Proof.
    intros [ND PE INJ ALL] Hn En NDr Fr Cov C0 Hx Eold Enew.
    assert (Old : forall w, In w gp -> ~ In w rs).
    { intros w Hw Hr. destruct (PE w Hw) as (p & Hp & _). rewrite (Fr _ Hr) in Hp. discriminate. }
    assert (New : forall r, In r (lin_outs tys rs (val_out (n_op nd))) ->
              exists j t, nth_error rs j = Some r /\ nthN (val_out (n_op nd)) (N.of_nat j) = Some t /\ ty_copy tys t = false).
    { intros r H. apply in_lin_outs_from in H. destruct H as (j & t & H1 & H2 & H3). rewrite N.add_0_l in H2. eauto. }
    constructor.
    - apply NoDup_app_intro; [now apply lin_outs_NoDup|exact ND|].
      intros r H1 H2. apply (Old r H2). eapply lin_outs_incl; eauto.
    - intros w Hw. apply in_app_or in Hw. destruct Hw as [Hw|Hw].
      + destruct (New w Hw) as (j & t & H1 & H2 & H3). exists (n, N.of_nat j). split; [now apply Enew|]. split; [|apply C0].
        unfold lin_at, type_at. cbn [fst snd]. now rewrite En, H2, H3.
      + destruct (PE w Hw) as (p & Hp & Hl & Hc). exists p. rewrite Eold by (now apply Old). auto.
    - intros w w' p Hw Hw' Hp Hp'. apply in_app_or in Hw. apply in_app_or in Hw'.
      destruct Hw as [Hw|Hw], Hw' as [Hw'|Hw'].
      + destruct (New w Hw) as (j & t & H1 & _). destruct (New w' Hw') as (j' & t' & H1' & _).
        rewrite (Enew _ _ H1) in Hp. rewrite (Enew _ _ H1') in Hp'. rewrite <- Hp in Hp'. inversion Hp'.
        assert (j' = j) by lia. subst j'. congruence.
      + destruct (New w Hw) as (j & t & H1 & _). rewrite (Enew _ _ H1) in Hp. inversion Hp; subst p.
        rewrite Eold in Hp' by (now apply Old). elim (Hx _ _ Hw' Hp'). reflexivity.
      + destruct (New w' Hw') as (j & t & H1 & _). rewrite (Enew _ _ H1) in Hp'. inversion Hp'; subst p.
        rewrite Eold in Hp by (now apply Old). elim (Hx _ _ Hw Hp). reflexivity.
      + rewrite Eold in Hp, Hp' by (now apply Old). eapply INJ; eauto.
    - intros p P0 _ Hl. destruct (N.eq_dec (fst p) n) as [E|Hne].
      + right. destruct p as [i j]. cbn [fst] in E. subst i. unfold lin_at, type_at in Hl. cbn [fst snd] in Hl. rewrite En in Hl.
        destruct (nthN (val_out (n_op nd)) j) as [t|] eqn:Et; [|discriminate]. apply negb_true_iff in Hl.
        unfold covers in Cov. rewrite forallb_forall in Cov. specialize (Cov _ (nthN_in_indexed _ _ _ Et)). cbn [fst snd] in Cov.
        rewrite Hl in Cov. cbn [orb] in Cov. apply N.ltb_lt in Cov. unfold lenN in Cov.
        destruct (nth_error rs (N.to_nat j)) as [r|] eqn:Er; [|apply nth_error_None in Er; lia].
        exists r. split.
        * apply in_or_app. left. apply in_lin_outs_from. exists (N.to_nat j), t. rewrite N.add_0_l, N2Nat.id. auto.
        * rewrite (Enew _ _ Er). now rewrite N2Nat.id.
      + destruct (ALL p P0 Hne Hl) as [Hc|(w & Hw & Hp)]; [now left|right].
        exists w. split; [apply in_or_app; now right|]. now rewrite Eold by (now apply Old).
  Qed.
End Lin2.

(* ------------------------------------------------------------------ helpers for the induction *)
Lemma fresh_ws_spec l e rs : fresh_ws (G_of l e) rs = true -> NoDup rs /\ forall r, In r rs -> wport e r = None.
Proof.
  unfold fresh_ws. intros H. apply andb_true_iff in H. destruct H as [H1 H2]. split.
  - destruct (nodupb_spec N.eqb N.eqb_spec rs); [assumption|discriminate].
  - intros r Hr. rewrite forallb_forall in H2. specialize (H2 _ Hr). unfold G_of in H2. rewrite lookup_map_snd in H2.
    unfold wport. destruct (lookup (e_wires e) r); [discriminate|reflexivity].
Qed.
Lemma lin_at_app tys l ext p :
  (forall k nd, nth_error ext k = Some nd -> lenN l + N.of_nat k = fst p -> val_out (n_op nd) = []) ->
  lin_at tys (l ++ ext) p = lin_at tys l p.
Proof.
  intros H. unfold lin_at, type_at. destruct (N.lt_ge_cases (fst p) (lenN l)) as [L|L].
  - now rewrite nthN_app_lt.
  - rewrite nthN_app_ge by exact L. rewrite (nthN_none_ge l) by exact L.
    unfold nthN. destruct (nth_error ext (N.to_nat (fst p - lenN l))) as [nd|] eqn:E; [|reflexivity].
    rewrite (H _ _ E) by lia. now destruct (N.to_nat (snd p)).
Qed.
Lemma cntf_fresh st n j : LinksOK st -> s_len st <= n -> cntf (s_links st) (n, j) = 0.
Proof.
  intros K L. apply countb_zero. intros e Hin. destruct (LinksOK_in _ _ K Hin) as [Ls _].
  unfold from. cbn [fst]. replace (e_src e =? n) with false; [reflexivity|]. symmetry. apply N.eqb_neq. lia.
Qed.
Lemma ports_not ws n j : (forall q, In q ws -> fst q <> n) -> countb (pair_eq (n, j)) ws = 0.
Proof.
  intros H. apply countb_zero. intros q Hq. unfold pair_eq. cbn [fst]. replace (fst q =? n) with false; [reflexivity|].
  symmetry. apply N.eqb_neq. now apply H.
Qed.
Lemma cntf_placeholder_src st P i pp j : LinkInv st -> nthN (s_nodes st) P = Some (mk (DFG i []) pp) ->
  cntf (s_links st) (P, j) = 0.
Proof.
  intros LI En. apply countb_zero. intros e Hin. unfold LinkInv in LI. rewrite forallb_forall in LI. specialize (LI _ Hin).
  unfold from. cbn [fst snd]. destruct (N.eqb_spec (e_src e) P) as [Es|_]; [|reflexivity]. cbn [andb].
  destruct (e_soff e) as [a|] eqn:Ea; [|reflexivity]. cbn [optN_eqb option_eqb].
  destruct (N.eqb_spec a j) as [->|_]; [|reflexivity]. exfalso.
  unfold link_okb, op_at in LI. rewrite Es, En, Ea in LI. cbn [option_map mk n_op] in LI.
  destruct (option_map n_op (nthN (s_nodes st) (e_dst e))) as [do_|]; [|discriminate].
  destruct (e_doff e) as [b|]; [|discriminate]. cbn [val_out df_sig] in LI. rewrite nthN_nil in LI. discriminate.
Qed.
Definition WStable (e e' : env) : Prop := forall w p, wport e w = Some p -> wport e' w = Some p.
Lemma WStable_bind e id n rs : (forall r, In r rs -> wport e r = None) -> WStable e (bind_outs (bind_stmt e id n) n rs).
Proof.
  intros Fr w p H. unfold bind_outs. rewrite bind_from_notin; [exact H|]. intros Hr. rewrite (Fr _ Hr) in H. discriminate.
Qed.
Lemma WStable_bind_in e n rs : (forall r, In r rs -> wport e r = None) -> WStable e (bind_outs e n rs).
Proof.
  intros Fr w p H. unfold bind_outs. rewrite bind_from_notin; [exact H|]. intros Hr. rewrite (Fr _ Hr) in H. discriminate.
Qed.
Lemma wport_range st e w p : EnvRange st e -> wport e w = Some p -> 0 < fst p /\ fst p < s_len st.
Proof. intros R H. apply lookup_In in H. exact (proj1 R _ _ H). Qed.

(* inversion of the checkers, with the recursive calls folded *)
Lemma wt_SNested_inv tys id args body rs G G' : wt_stmt tys (SNested id args body rs) G = Some G' ->
  exists ts G1 outs, wire_tys G args = Some ts /\ wt_region tys body ts G = Some (G1, outs) /\ G' = tbind G1 rs outs.
Proof.
  intros W. cbn [wt_stmt] in W. destruct (wire_tys G args) as [ts|]; [|discriminate].
  match type of W with match ?x with _ => _ end = _ => destruct x as [[G1 outs]|] eqn:WR; [|discriminate] end.
  inversion W. eauto 6.
Qed.
Lemma wt_region_inv tys ws body oids ins G G' outs : wt_region tys (Region ws body oids) ins G = Some (G', outs) ->
  wt_stmts tys body (tbind G ws ins) = Some G' /\ wire_tys G' oids = Some outs.
Proof.
  intros W. cbn [wt_region] in W.
  match type of W with match ?x with _ => _ end = _ => destruct x as [G1|] eqn:WB; [|discriminate] end.
  destruct (wire_tys G1 oids) as [o|] eqn:WO; [|discriminate]. inversion W; subst. auto.
Qed.
Lemma wt_SCons_inv tys s r G G' : wt_stmts tys (SCons s r) G = Some G' ->
  exists G1, wt_stmt tys s G = Some G1 /\ wt_stmts tys r G1 = Some G'.
Proof.
  intros W. cbn [wt_stmts] in W.
  match type of W with match ?x with _ => _ end = _ => destruct x as [G1|] eqn:W1; [|discriminate] end. eauto.
Qed.
Lemma lin_SNested_inv tys id args body rs G pend pend' ts G1 outs :
  lin_stmt tys (SNested id args body rs) G pend = Some pend' -> wire_tys G args = Some ts ->
  wt_region tys body ts G = Some (G1, outs) ->
  exists pend1, use_wires tys G pend args = Some pend1 /\ lin_region tys body ts G = true /\
                fresh_ws G1 rs = true /\ covers tys rs outs = true /\ pend' = lin_outs tys rs outs ++ pend1.
Proof.
  intros LN WT WR. cbn [lin_stmt] in LN. rewrite WT in LN.
  destruct (use_wires tys G pend args) as [pend1|]; [|discriminate].
  match type of LN with match ?x with _ => _ end = _ => change x with (wt_region tys body ts G) in LN end. rewrite WR in LN.
  match type of LN with (if ?c && _ && _ then _ else _) = _ => change c with (lin_region tys body ts G) in LN end.
  destruct (lin_region tys body ts G); [|discriminate]. cbn [andb] in LN.
  destruct (fresh_ws G1 rs) eqn:F; [|discriminate]. destruct (covers tys rs outs) eqn:C; [|discriminate].
  inversion LN. eauto 8.
Qed.
Lemma lin_region_inv tys ws body oids ins G G1 : lin_region tys (Region ws body oids) ins G = true ->
  wt_stmts tys body (tbind G ws ins) = Some G1 ->
  fresh_ws G ws = true /\ covers tys ws ins = true /\
  exists pend1, lin_stmts tys body (tbind G ws ins) (lin_outs tys ws ins) = Some pend1 /\ use_wires tys G1 pend1 oids = Some [].
Proof.
  intros LN WB.
  assert (E : lin_region tys (Region ws body oids) ins G =
              fresh_ws G ws && covers tys ws ins &&
              match lin_stmts tys body (tbind G ws ins) (lin_outs tys ws ins), wt_stmts tys body (tbind G ws ins) with
              | Some pend1, Some G1 => match use_wires tys G1 pend1 oids with Some [] => true | _ => false end
              | _, _ => false
              end) by reflexivity.
  rewrite E, WB in LN. clear E. apply andb_true_iff in LN. destruct LN as [LN LN3].
  apply andb_true_iff in LN. destruct LN as [FR CV]. split; [exact FR|]. split; [exact CV|].
  destruct (lin_stmts tys body (tbind G ws ins) (lin_outs tys ws ins)) as [pend1|]; [|discriminate].
  destruct (use_wires tys G1 pend1 oids) as [[|? ?]|] eqn:UW; try discriminate. eauto.
Qed.
Lemma lin_SCons_inv tys s r G G1 pend pend' : lin_stmts tys (SCons s r) G pend = Some pend' -> wt_stmt tys s G = Some G1 ->
  exists p1, lin_stmt tys s G pend = Some p1 /\ lin_stmts tys r G1 p1 = Some pend'.
Proof.
  intros LN W1.
  assert (E : lin_stmts tys (SCons s r) G pend =
              match lin_stmt tys s G pend, wt_stmt tys s G with
              | Some p1, Some G1 => lin_stmts tys r G1 p1
              | _, _ => None
              end) by reflexivity.
  rewrite E, W1 in LN. clear E. destruct (lin_stmt tys s G pend) as [p1|]; [|discriminate]. eauto.
Qed.

Section LinMain.
  Variable tys : list tyinfo.

  Definition LS (s : stmt) : Prop := forall b st e st' e' G G' pend pend' rest,
    exec_stmt tys s b st e = Ok (st', e') -> wt_stmt tys s G = Some G' -> lin_stmt tys s G pend = Some pend' ->
    Bpre tys st b e G -> LinInv tys st e (pend ++ rest) 0 ->
    LinInv tys st' e' (pend' ++ rest) 0 /\ WStable e e'.
  Definition LR (r : region) : Prop := forall b st e st' e' G G' ins outs pp rest,
    exec_region tys r b st e = Ok (st', e') -> wt_region tys r ins G = Some (G', outs) -> lin_region tys r ins G = true ->
    Bpre tys st b e G -> nthN (s_nodes st) (b_parent b) = Some (mk (DFG ins []) pp) ->
    LinInv tys st e rest (b_in b) -> (forall j, cntf (s_links st) (b_in b, j) = 0) ->
    (forall w p, In w rest -> wport e w = Some p -> fst p < b_parent b) ->
    LinInv tys st' e' rest (b_parent b) /\ WStable e e' /\ (forall j, cntf (s_links st') (b_parent b, j) = 0).
  Definition LL (l : stmts) : Prop := forall b st e st' e' G G' pend pend' rest,
    exec_stmts tys l b st e = Ok (st', e') -> wt_stmts tys l G = Some G' -> lin_stmts tys l G pend = Some pend' ->
    Bpre tys st b e G -> LinInv tys st e (pend ++ rest) 0 ->
    LinInv tys st' e' (pend' ++ rest) 0 /\ WStable e e'.

  Lemma exec_linear : (forall s, LS s) /\ (forall r, LR r) /\ (forall l, LL l).
  Proof.
    destruct (exec_typed tys) as (TSs & TRr & TLl).
    apply prog_mutind; unfold LS, LR, LL.
    - (* SOp *)
      intros id o args rs b st e st' e' G G' pend pend' rest H W LN P Q.
      pose proof P as [I A O R Nn SK EG LI NO].
      cbn [lin_stmt] in LN. destruct (wire_tys G args) as [ts_s|] eqn:WT; [|discriminate].
      destruct (completed_op tys o ts_s) as [op_s|] eqn:CS; [|discriminate].
      destruct (use_wires tys G pend args) as [pend1|] eqn:UW; [|discriminate].
      destruct (fresh_ws G rs && covers tys rs (val_out op_s)) eqn:FC; [|discriminate]. inversion LN; subst pend'; clear LN.
      apply andb_true_iff in FC. destruct FC as [FR CV]. rewrite <- EG in FR, UW.
      destruct (fresh_ws_spec _ _ _ FR) as [NDr Fr].
      apply SOp_spec in H. destruct H as (ws & ts & op' & new & st1 & Gw & Lp & En1 & El1 & HW & C & En' & El' & ->).
      assert (ts = ts_s) by (eapply wired_types; [exact P|exact Gw|exact WT|exact En1|exact HW]). subst ts_s. rewrite C in CS. inversion CS; subst op_s; clear CS.
      set (n := s_len st) in *.
      assert (Hn : nthN (s_nodes st') n = Some (mk op' (b_parent b))) by (rewrite En'; unfold n, s_len; apply nthN_len).
      assert (Lb : b_parent b + 2 < n) by (pose proof (OpenB_lt _ _ O); exact H).
      assert (Hws : forall q, In q ws -> fst q <> n) by (intros q Hq; pose proof (get_wires_pos _ _ _ _ R Gw _ Hq); fold n in H; lia).
      assert (Q1 : LinInv tys st' e (pend1 ++ rest) n).
      { eapply consume; [exact Q| |exact El'| |exact Gw|exact UW|].
        - intros p Hp. rewrite En'. apply lin_at_app. intros k nd Hk Hl. destruct k as [|[|k]]; cbn in Hk; try discriminate.
          unfold n, s_len in Hp. lia.
        - intros p _. eapply WNew_cntf; eauto.
        - intros w p _ Hp. pose proof (wport_range _ _ _ _ R Hp). fold n in H. lia. }
      rewrite app_assoc_reverse. split; [|now apply WStable_bind].
      eapply (bind_lin tys st' e _ (pend1 ++ rest) n (mk op' (b_parent b)) rs Q1); auto.
      + lia.
      + intros j. rewrite El', cntf_app, (cntf_fresh _ _ _ (proj2 I)) by (fold n; lia).
        rewrite (WNew_cntf _ _ _ _ _ _ HW), (ports_not _ _ _ Hws). reflexivity.
      + intros w p _ Hp. pose proof (wport_range _ _ _ _ R Hp). fold n in H. lia.
      + intros w Hw. unfold bind_outs. now rewrite bind_from_notin.
      + intros j r Hj. unfold bind_outs. rewrite (bind_from_nth _ _ _ _ _ _ NDr Hj). now rewrite N.add_0_l.
    - (* SLoad *)
      intros id v cp r b st e st' e' G G' pend pend' rest H W LN P Q.
      pose proof P as [I A O R Nn SK EG LI NO].
      cbn [lin_stmt] in LN. destruct (fresh_ws G [r]) eqn:FR; [|discriminate]. inversion LN; subst pend'; clear LN.
      rewrite <- EG in FR. destruct (fresh_ws_spec _ _ _ FR) as [NDr Fr].
      apply SLoad_spec in H. destruct H as (En' & El' & ->).
      set (n := s_len st) in *.
      assert (Hn : nthN (s_nodes st') (n + 1) = Some (mk (LoadConst (value_ty v)) (b_parent b))).
      { rewrite En'. rewrite nthN_app_ge by (unfold n, s_len; lia). unfold n, s_len.
        replace (lenN (s_nodes st) + 1 - lenN (s_nodes st)) with 1 by lia. reflexivity. }
      assert (Q1 : LinInv tys st' e (pend ++ rest) (n + 1)).
      { eapply (consume tys st st' e [] [] pend pend rest); [exact Q| |exact El'| |reflexivity|reflexivity|].
        - intros p Hp. rewrite En'. apply lin_at_app. intros k nd Hk Hl. destruct k as [|[|k]]; cbn in Hk.
          + inversion Hk; reflexivity.
          + unfold n, s_len in Hp. lia.
          + destruct k; discriminate.
        - intros p Hl. cbn [countb]. apply countb_zero. intros e0 [<-|[]]. unfold from. cbn [e_src e_soff].
          replace (n =? fst p) with false; [reflexivity|]. symmetry. apply N.eqb_neq. intros E.
          unfold lin_at, type_at in Hl. rewrite <- E, (nthN_none_ge (s_nodes st)) in Hl by (unfold n, s_len; lia). discriminate.
        - intros w p _ Hp. pose proof (wport_range _ _ _ _ R Hp). fold n in H. lia. }
      rewrite app_assoc_reverse. split; [|now apply WStable_bind].
      eapply (bind_lin tys st' e _ (pend ++ rest) (n + 1) (mk (LoadConst (value_ty v)) (b_parent b)) [r] Q1); auto.
      + lia.
      + unfold covers. cbn. now rewrite orb_true_r.
      + intros j. rewrite El', cntf_app, (cntf_fresh _ _ _ (proj2 I)) by (fold n; lia). unfold cntf, from. cbn [countb e_src e_soff fst snd].
        replace (n =? n + 1) with false by (symmetry; apply N.eqb_neq; lia). reflexivity.
      + intros w p _ Hp. pose proof (wport_range _ _ _ _ R Hp). fold n in H. lia.
      + intros w Hw. unfold bind_outs. now rewrite bind_from_notin.
      + intros j r0 Hj. unfold bind_outs. rewrite (bind_from_nth _ _ _ _ _ _ NDr Hj). now rewrite N.add_0_l.
    - (* SNested *)
      intros id args body IH rs b st e st' e' G G' pend pend' rest H W LN P Q.
      pose proof P as [I A O R Nn SK EG LI NO].
      pose proof (TSs _ _ _ _ _ _ _ _ H W P) as P'.
      destruct (wt_SNested_inv _ _ _ _ _ _ _ W) as (ts_s & G1 & outs & WT & WR & ->).
      destruct (lin_SNested_inv _ _ _ _ _ _ _ _ _ _ _ LN WT WR) as (pend1 & UW & LRg & FR & CV & ->).
      rewrite <- EG in UW.
      apply SNested_spec in H.
      destruct H as (ws & ts & new & st3 & st4 & e5 & Gw & T & Lp & En3 & El3 & HW & En4 & El4 & X & ->).
      assert (ts = ts_s) by (eapply wired_types; [exact P|exact Gw|exact WT|exact En3|exact HW]). subst ts_s.
      destruct (nested_Bpre _ _ _ _ _ _ _ _ _ _ _ P Gw WT En3 HW En4 El4) as [P4 Hd].
      set (d := s_len st) in *.
      assert (Lb : b_parent b + 2 < d) by (pose proof (OpenB_lt _ _ O); exact H).
      assert (Hws : forall q, In q ws -> fst q < d) by (intros q Hq; apply (get_wires_pos _ _ _ _ R Gw _ Hq)).
      assert (Q4 : LinInv tys st4 e (pend1 ++ rest) (d + 1)).
      { eapply consume; [exact Q| |exact El4| |exact Gw|exact UW|].
        - intros p Hp. rewrite En4, En3. apply lin_at_app. intros k nd Hk Hl. destruct k as [|[|[|k]]]; cbn in Hk.
          + inversion Hk; reflexivity.
          + unfold d, s_len in Hp. lia.
          + inversion Hk; reflexivity.
          + destruct k; discriminate.
        - intros p _. eapply WNew_cntf; eauto.
        - intros w p _ Hp. pose proof (wport_range _ _ _ _ R Hp). fold d in H. lia. }
      assert (C4 : forall j, cntf (s_links st4) (d + 1, j) = 0).
      { intros j. rewrite El4, cntf_app, (cntf_fresh _ _ _ (proj2 I)) by (fold d; lia).
        rewrite (WNew_cntf _ _ _ _ _ _ HW), ports_not; [reflexivity|]. intros q Hq. specialize (Hws _ Hq). lia. }
      assert (RB : forall w p, In w (pend1 ++ rest) -> wport e w = Some p -> fst p < d).
      { intros w p _ Hp. apply (wport_range _ _ _ _ R Hp). }
      destruct (IH _ _ _ _ _ _ _ _ _ _ _ X WR LRg P4 Hd Q4 C4 RB) as (Q5 & WS5 & C5). cbn [b_parent b_in] in *.
      destruct (TRr _ _ _ _ _ _ _ _ _ _ _ X WR P4 Hd) as (_ & _ & _ & EG5 & Hd'). cbn [b_parent] in Hd'.
      rewrite <- EG5 in FR. destruct (fresh_ws_spec _ _ _ FR) as [NDr Fr].
      rewrite app_assoc_reverse. split.
      + eapply (bind_lin tys st' e5 _ (pend1 ++ rest) d (mk (DFG ts outs) (b_parent b)) rs Q5); auto.
        * lia.
        * intros w p Hw Hp. destruct (li_pend _ _ _ _ _ Q4 w Hw) as (p0 & Hp0 & _).
          rewrite (WS5 _ _ Hp0) in Hp. inversion Hp; subst p0. pose proof (wport_range _ _ _ _ R Hp0). fold d in H. lia.
        * intros w Hw. unfold bind_outs. now rewrite bind_from_notin.
        * intros j r Hj. unfold bind_outs. rewrite (bind_from_nth _ _ _ _ _ _ NDr Hj). now rewrite N.add_0_l.
      + intros w p Hp. apply (WStable_bind e5 id d rs Fr). now apply WS5.
    - (* SOrder *)
      intros src dst b st e st' e' G G' pend pend' rest H W LN P Q.
      pose proof P as [I A O R Nn SK EG LI NO].
      cbn [lin_stmt] in LN. inversion LN; subst pend'; clear LN.
      apply SOrder_spec in H. destruct H as (a & c & Na & Nc & En' & El' & ->).
      split; [|intros w p Hp; exact Hp].
      assert (El : exists new, s_links st' = s_links st ++ new /\ forall p, cntf new p = 0).
      { destruct El' as [El'|El']; [exists []; split; [now rewrite app_nil_r|reflexivity]|].
        exists [olink a c]. split; [exact El'|]. intros p. unfold cntf, from, olink. cbn [countb e_src e_soff optN_eqb option_eqb].
        now rewrite andb_false_r. }
      destruct El as (new & El & Cn).
      eapply (consume tys st st' e [] [] pend pend rest 0 new); [exact Q| |exact El| |reflexivity|reflexivity|].
      + intros p _. now rewrite En'.
      + intros p _. now rewrite Cn.
      + intros w p _ Hp. pose proof (wport_range _ _ _ _ R Hp). lia.
    - (* Region *)
      intros wids body IH oids b st e st' e' G G' ins outs pp rest H W LN P Hp Q C0 RB.
      destruct (wt_region_inv _ _ _ _ _ _ _ _ W) as [WB WO]. rename G' into G1.
      destruct (lin_region_inv _ _ _ _ _ _ _ LN WB) as (FR & CV & pend1 & LB & UW).
      apply exec_region_inv in H. destruct H as (st1 & ws & X & Gw & SO).
      pose proof P as [I A O R Nn SK EG LI NO].
      pose proof O as (Ei & Eo & _).
      pose proof (OpenB_lt _ _ O) as Lb. fold (s_len st) in Lb.
      destruct (proj1 (proj2 A) _ _ _ _ Hp eq_refl) as [Hin _].
      rewrite <- EG in FR. destruct (fresh_ws_spec _ _ _ FR) as [NDr Fr].
      assert (P0 : Bpre tys st b (bind_outs e (b_in b) wids) (tbind G wids ins)).
      { constructor; auto.
        - apply EnvRange_bind_in; [exact R|lia|lia].
        - apply WiresNot_bind_in; [exact Nn|lia].
        - now apply StmtsOK_bind_in.
        - unfold bind_outs. rewrite Ei. rewrite (G_of_bind_from _ _ _ wids Hin). cbn [mk n_op val_out df_sig].
          unfold tbind. now rewrite EG. }
      assert (Q0 : LinInv tys st (bind_outs e (b_in b) wids) (lin_outs tys wids ins ++ rest) 0).
      { rewrite Ei in Q, C0 |- *.
        eapply (bind_lin tys st e _ rest (b_parent b + 1) (mk (Input ins) (b_parent b)) wids Q); auto.
        - lia.
        - intros w p Hw Hpw. specialize (RB _ _ Hw Hpw). lia.
        - intros w Hw. unfold bind_outs. now rewrite bind_from_notin.
        - intros j r Hj. unfold bind_outs. rewrite (bind_from_nth _ _ _ _ _ _ NDr Hj). now rewrite N.add_0_l. }
      destruct (IH _ _ _ _ _ _ _ _ _ rest X WB LB P0 Q0) as (Q1 & WS1).
      destruct (stmts_pre tys _ _ _ _ _ _ _ X P0) as [K1 L1].
      pose proof (TLl _ _ _ _ _ _ _ _ X WB P0) as P1. pose proof P1 as [I1 A1 O1 R1 Nn1 SK1 EG1 LI1 NO1].
      destruct (set_outputs_spec _ _ _ _ SO O1) as (ts & new & i1 & pp' & HW & El' & Hp1 & En').
      destruct O1 as (_ & _ & i2 & pp2 & Hp2 & Ho2).
      set (p := b_parent b) in *. rewrite <- EG1 in UW.
      assert (Lo : p + 2 < lenN (s_nodes st1)) by (eapply nthN_lt; eauto).
      assert (Hws : forall q, In q ws -> fst q <> p).
      { intros q Hq. destruct (get_wires_In _ _ _ Gw _ Hq) as [w Hw]. exact (Nn1 _ _ Hw). }
      split; [|split].
      + eapply (consume tys st1 st' e' oids ws pend1 [] rest p new); [exact Q1| |exact El'| |exact Gw|exact UW|].
        * intros q Hq. unfold lin_at, type_at. rewrite En'. rewrite nthN_set_nth_neq by exact Hq.
          destruct (N.eq_dec (fst q) (p + 2)) as [E2|E2].
          -- rewrite E2, nthN_set_nth_eq by exact Lo. rewrite Ho2. cbn. now rewrite !nthN_nil.
          -- now rewrite nthN_set_nth_neq by exact E2.
        * intros q _. eapply WNew_cntf; eauto.
        * intros w q _ Hq. apply lookup_In in Hq. exact (Nn1 _ _ Hq).
      + intros w q Hq. apply WS1. now apply (WStable_bind_in e (b_in b) wids Fr).
      + intros j. rewrite El', cntf_app, (cntf_placeholder_src _ _ _ _ _ LI1 Hp1), (WNew_cntf _ _ _ _ _ _ HW), (ports_not _ _ _ Hws).
        reflexivity.
    - (* SNil *)
      intros b st e st' e' G G' pend pend' rest H W LN P Q. cbn in H, LN. inversion H; inversion LN; subst.
      split; [exact Q|intros w p Hp; exact Hp].
    - (* SCons *)
      intros s IHs r IHr b st e st' e' G G' pend pend' rest H W LN P Q.
      destruct (wt_SCons_inv _ _ _ _ _ W) as (G1 & W1 & W2). destruct (lin_SCons_inv _ _ _ _ _ _ _ LN W1) as (p1 & L1 & L2).
      apply exec_SCons_inv in H. destruct H as (st1 & e1 & X1 & X2).
      destruct (IHs _ _ _ _ _ _ _ _ _ rest X1 W1 L1 P Q) as (Q1 & WS1).
      destruct (IHr _ _ _ _ _ _ _ _ _ rest X2 W2 L2 (TSs _ _ _ _ _ _ _ _ X1 W1 P) Q1) as (Q2 & WS2).
      split; [exact Q2|]. intros w p Hp. apply WS2. now apply WS1.
  Qed.
End LinMain.

(* ------------------------------------------------------------------ from the store to the resolved edges of the document *)
Lemma link_ok_resolve_src st e : link_okb (s_nodes st) e = true ->
  exists r so, resolve (to_serial st) (ser st e) = Some r /\ r_src r = e_src e /\ s_op st (e_src e) = Some so /\
    r_so r = match e_soff e with Some a => a | None => base_out so end.
Proof.
  unfold link_okb, resolve, op_of, op_at, ser, constrain_out, constrain_in, s_op, to_serial.
  cbn [g_nodes e_src e_dst e_soff e_doff].
  destruct (option_map n_op (nthN (s_nodes st) (e_src e))) as [so|] eqn:Es; [|discriminate].
  destruct (option_map n_op (nthN (s_nodes st) (e_dst e))) as [do_|] eqn:Ed; [|discriminate].
  destruct (e_soff e) as [a|], (e_doff e) as [b|]; try discriminate.
  - destruct (nthN (val_out so) a) as [t|] eqn:Ea.
    + destruct (nthN (val_in do_) b) as [t'|] eqn:Eb.
      * intros _. rewrite (proj1 (kind_out_value _ _ _ Ea)). eexists _, so. repeat split.
      * destruct so; try discriminate. cbn in Ea. rewrite nthN_nil in Ea. discriminate.
    + destruct so; try discriminate. destruct do_; try discriminate. intros H.
      apply andb_true_iff in H. destruct H as [H H3]. apply andb_true_iff in H. destruct H as [H1 H2].
      apply N.eqb_eq in H1. subst a. cbn. eexists _, _. repeat split.
  - intros H. apply andb_true_iff in H. destruct H as [H1 H2].
    rewrite (proj1 (kind_out_order _ H1)). eexists _, so. repeat split.
Qed.

Lemma links_from_cntf st i nd off t : LinkInv st -> nthN (s_nodes st) i = Some nd ->
  nthN (val_out (n_op nd)) off = Some t -> links_from (redges (to_serial st)) i off = cntf (s_links st) (i, off).
Proof.
  intros LI En Ht. pose proof (nthN_lt _ _ _ Ht) as Loff.
  unfold redges, cntf, links_from. rewrite to_serial_edges. unfold LinkInv in LI.
  induction (s_links st) as [|e l IH]; [reflexivity|]. cbn [forallb] in LI. apply andb_true_iff in LI. destruct LI as [Le Ll].
  cbn [map flat_map countb]. rewrite countb_app, (IH Ll).
  destruct (link_ok_resolve_src _ _ Le) as (r & so & Hr & Hs & Ho & Hso). rewrite Hr. cbn [countb]. rewrite N.add_0_r.
  f_equal. unfold from. cbn [fst snd]. rewrite Hs, Hso. destruct (N.eqb_spec (e_src e) i) as [Ei|_]; [|reflexivity]. cbn [andb].
  destruct (e_soff e) as [a|]; [reflexivity|]. cbn [optN_eqb option_eqb].
  rewrite Ei in Ho. unfold s_op in Ho. rewrite En in Ho. cbn in Ho. inversion Ho; subst so.
  destruct (N.eqb_spec (base_out (n_op nd)) off) as [E|_]; [|reflexivity]. unfold base_out in E. lia.
Qed.

Lemma linear_once_of tys st e : ModelOps (s_nodes st) -> LinkInv st -> LinInv tys st e [] 0 ->
  r_linear_once tys (to_serial st) = true.
Proof.
  intros M LI [_ _ _ ALL]. unfold r_linear_once. apply forallb_forall. intros [i nd] Hin. cbn [fst snd].
  apply in_indexed in Hin. cbn [to_serial g_nodes] in Hin.
  destruct (N.eqb_spec i 0) as [|Hi]; [reflexivity|]. cbn [orb]. apply andb_true_iff. split.
  - apply forallb_forall. intros [off t] Hot. cbn [fst snd]. apply in_indexed in Hot.
    destruct (ty_copy tys t) eqn:Ec; [reflexivity|]. cbn [orb]. apply N.eqb_eq.
    rewrite (links_from_cntf _ _ _ _ _ LI Hin Hot).
    assert (Hl : lin_at tys (s_nodes st) (i, off) = true) by (unfold lin_at, type_at; cbn [fst snd]; now rewrite Hin, Hot, Ec).
    destruct (ALL (i, off) Hi Hi Hl) as [H|(w & [] & _)]. exact H.
  - pose proof (forallb_nthN _ _ _ _ M Hin) as Hm. cbn beta in Hm. destruct (n_op nd); try reflexivity. discriminate Hm.
Qed.

(* ------------------------------------------------------------------ the theorem *)
Theorem run_linear_once tys p g : wt_prog tys p = true -> lin_prog tys p = true -> run tys p = Ok g ->
  r_linear_once tys g = true.
Proof.
  unfold run. intros W LN H. bd H. rename v into st. inversion H; subst; clear H.
  destruct (exec_prog_typed _ _ _ W E) as [LI _]. destruct (exec_prog_frame _ _ _ E) as [_ (M & _)].
  destruct p as [ins body]. unfold wt_prog in W. unfold lin_prog in LN.
  destruct (wt_region tys body ins []) as [[G' outs]|] eqn:WR; [|discriminate].
  apply exec_prog_inv in E. destruct E as [e' E].
  destruct (exec_linear tys) as (_ & LRr & _).
  assert (Q0 : LinInv tys (st0 ins) e0 [] (b_in b0)).
  { constructor; [constructor|intros w []|intros w w' p []|].
    intros p P0 P1 Hl. exfalso. unfold lin_at, type_at in Hl. cbn [b_in b0] in P1. cbn [st0 s_nodes] in Hl.
    unfold nthN in Hl. destruct (N.to_nat (fst p)) as [|[|[|k]]] eqn:Ek; cbn in Hl; try lia.
    - destruct (N.to_nat (snd p)); discriminate.
    - destruct k; discriminate. }
  destruct (LRr _ _ _ _ _ _ _ _ _ _ _ [] E WR LN (init_Bpre tys ins) eq_refl Q0) as (Q & _ & _); [reflexivity|intros w p []|].
  eapply linear_once_of; eauto.
Qed.
