(* Proofs about the values the tracked-builder calls return (model/TrackedRet.v against spec/TrackedRetS.v). *)
From Coq Require Import ZArith NArith List Bool Arith Lia.
Import ListNotations.
From HV Require Import lib.Harness model.Tracked model.TrackedRet spec.TrackedS spec.TrackedRetS proofs.TrackedP.

(* ---- the comprehension [track_wire(w) for w in wires] ---- *)
Lemma track_wires_ret_fst ws : forall tr, fst (track_wires_ret tr ws) = tr ++ map Some ws.
Proof.
  induction ws as [|w r IH]; intros tr; cbn; [now rewrite app_nil_r|].
  specialize (IH (tr ++ [Some w])). destruct (track_wires_ret (tr ++ [Some w]) r) as [tr2 l]. cbn in *.
  now rewrite IH, <- app_assoc.
Qed.

Lemma track_wires_ret_snd ws : forall tr,
  snd (track_wires_ret tr ws) = map (fun k => Z.of_nat (length tr + k)) (seq 0 (length ws)).
Proof.
  induction ws as [|w r IH]; intros tr; cbn; [reflexivity|].
  specialize (IH (tr ++ [Some w])). destruct (track_wires_ret (tr ++ [Some w]) r) as [tr2 l]. cbn in *.
  rewrite IH. f_equal.
  - rewrite app_length. cbn. lia.
  - rewrite <- seq_shift, map_map. apply map_ext. intros k. rewrite app_length. cbn. f_equal. lia.
Qed.

Lemma node_names_map k : forall n, node_names n k = map (fun j => (n + N.of_nat j)%N) (seq 0 k).
Proof.
  induction k as [|k IH]; intros n; [reflexivity|].
  cbn [node_names]. rewrite IH. cbn [seq map]. f_equal; [lia|].
  rewrite <- seq_shift, map_map. apply map_ext. intros j. lia.
Qed.

(* the step function of model/Tracked.v stores what the comprehension stores *)
Lemma step_track_wires h tr ws : step h tr (TrackWires ws) = (h, fst (track_wires_ret tr ws), None).
Proof. cbn. now rewrite track_wires_ret_fst. Qed.

(* ---- one call: the model's value is the history's value ---- *)
Lemma fresh_from_length (tr : tracked) st n : a_next st = Z.of_nat (length tr) ->
  map (fun k => Z.of_nat (length tr + k)) (seq 0 n) = fresh_indices st n.
Proof. intros E. unfold fresh_indices. apply map_ext. intros k. rewrite E. lia. Qed.

Lemma ret_agree nin h tr st c : agree h tr st -> h_nin h = nin -> ret_of h tr c = a_ret nin st c.
Proof.
  intros Ha Hnin. pose proof Ha as (Hn & Hc & _).
  destruct c as [w|ws| |i|op m args|coms|args| ]; cbn [ret_of a_ret]; try reflexivity.
  - unfold track_wire_ret. cbn [snd]. rewrite app_length. cbn. f_equal. lia.
  - rewrite track_wires_ret_snd. f_equal. now apply fresh_from_length.
  - rewrite track_wires_ret_snd. f_equal. rewrite Hnin. unfold inputs. rewrite map_length, seq_length.
    now apply fresh_from_length.
  - now rewrite (tracked_wire_denotes h tr st i Ha).
  - unfold new_name. now rewrite Hc.
  - rewrite node_names_map. unfold fresh_nodes, new_name. now rewrite Hc.
Qed.

(* ---- whole programs: the values returned are those the history prescribes; all of them when the
   run ends without an exception, a prefix when a call raises ---- *)
Lemma rets_follow_history nin p : forall h tr st, agree h tr st -> h_nin h = nin ->
  exists rest, expected_rets nin st p = run_rets h tr p ++ rest /\
               (forall h' tr', run h tr p = (h', tr', None) -> rest = []).
Proof.
  induction p as [|c r IH]; intros h tr st Ha Hnin.
  - exists []. split; [reflexivity|]. reflexivity.
  - pose proof (step_sim nin h tr st c Ha Hnin) as Hs.
    pose proof (ret_agree nin h tr st c Ha Hnin) as Hr.
    cbn [expected_rets run_rets run].
    destruct (explicit_cmd nin st c) as [[q okc] st1].
    destruct (step h tr c) as [[h1 tr1] [e|]]; cbn in Hs.
    + eexists. split; [reflexivity|]. intros h' tr' Hx. discriminate.
    + destruct Hs as (Hn1 & Hok & _ & Ha1). subst okc.
      destruct (IH h1 tr1 st1 Ha1 (eq_trans Hn1 Hnin)) as (rest & E & Hfin).
      exists rest. split; [|exact Hfin]. rewrite Hr, E. reflexivity.
Qed.

Theorem returned_values_follow_history nin track p :
  exists rest, expected nin track p = run_tracked_rets nin track p ++ rest /\
               (forall h tr, run_tracked nin track p = (h, tr, None) -> rest = []).
Proof. exact (rets_follow_history nin p _ _ _ (agree_init nin track) eq_refl). Qed.

(* ---- what the returned indices mean ---- *)
(* track_wires: as many indices as wires; index k of the result is where wire k of the argument is stored
   right after the call; all of them are new (not below the old length), so every older index keeps
   its wire *)
Theorem track_wires_returns_where_stored h tr ws :
  let tr' := fst (track_wires_ret tr ws) in
  let l := snd (track_wires_ret tr ws) in
  step h tr (TrackWires ws) = (h, tr', None) /\
  ret_of h tr (TrackWires ws) = RIdxs l /\
  length l = length ws /\
  (forall k w, nth_error ws k = Some w ->
     exists i, nth_error l k = Some i /\ tracked_wire tr' i = Some w /\ (Z.of_nat (length tr) <= i)%Z) /\
  (forall i, (i < Z.of_nat (length tr))%Z -> tracked_wire tr' i = tracked_wire tr i).
Proof.
  cbn zeta. split; [apply step_track_wires|]. split; [reflexivity|].
  rewrite track_wires_ret_fst, track_wires_ret_snd.
  split; [now rewrite map_length, seq_length|]. split.
  - intros k w Hk. assert (Hlt : k < length ws) by (apply nth_error_Some; congruence).
    exists (Z.of_nat (length tr + k)). split; [|split; [|lia]].
    + rewrite nth_error_map. rewrite (nth_error_nth' (seq 0 (length ws)) 0) by (now rewrite seq_length).
      rewrite seq_nth by exact Hlt. reflexivity.
    + unfold tracked_wire. destruct (Z.ltb_spec (Z.of_nat (length tr + k)) 0); [lia|].
      rewrite Nat2Z.id, nth_error_app2 by lia.
      replace (length tr + k - length tr) with k by lia.
      rewrite nth_error_map, Hk. reflexivity.
  - intros i Hi. unfold tracked_wire. destruct (i <? 0)%Z eqn:E; [reflexivity|].
    apply Z.ltb_ge in E. rewrite nth_error_app1 by lia. reflexivity.
Qed.

(* track_inputs is track_wires of the inputs *)
Theorem track_inputs_returns_where_stored h tr :
  step h tr TrackInputs = step h tr (TrackWires (inputs (h_nin h))) /\
  ret_of h tr TrackInputs = ret_of h tr (TrackWires (inputs (h_nin h))).
Proof. split; reflexivity. Qed.

(* track_wire: the index returned is the one the wire is stored at (see also track_wire_fresh_index) *)
Theorem track_wire_returns_where_stored h tr w :
  exists i, ret_of h tr (TrackWire w) = RIdx i /\ i = Z.of_nat (length tr) /\
            step h tr (TrackWire w) = (h, fst (track_wire_ret tr w), None) /\
            tracked_wire (fst (track_wire_ret tr w)) i = Some w.
Proof.
  exists (Z.of_nat (length tr)). split; [|split; [reflexivity|split; [reflexivity|]]].
  - cbn. rewrite app_length. cbn. f_equal. lia.
  - apply (track_wire_fresh_index h tr w).
Qed.

(* untrack_wire hands back the wire the index named, and the index names nothing afterwards *)
Theorem untrack_returns_the_wire h tr i h' tr' :
  step h tr (Untrack i) = (h', tr', None) ->
  exists w, tracked_wire tr i = Some w /\ ret_of h tr (Untrack i) = RWire w /\ tracked_wire tr' i = None.
Proof.
  cbn. destruct (tracked_wire tr i) as [w|] eqn:E; [|discriminate].
  intros H; inversion H; subst. exists w. split; [reflexivity|]. split; [reflexivity|].
  destruct (tracked_wire_range _ _ _ E) as [H0 Hlt].
  unfold tracked_wire. destruct (Z.ltb_spec i 0); [reflexivity|]. now rewrite nth_set_nth_same.
Qed.

(* non-vacuity: a hole, then track_wires of two outputs of a node, then the indices are used *)
Example returned_values_example :
  let p := [Untrack 0%Z; Add (mkOp 7 2) [] [AI 1%Z]; TrackWires [(2, 1); (2, 0)]%N; TrackWire (0, 0)%N;
            Add (mkOp 8 1) [] [AI 3%Z]; Extend [(mkOp 8 1, [AI 2%Z]); (mkOp 8 1, [AI 4%Z])]; TrackInputs;
            SetTrackedOutputs] in
  run_tracked_rets 2 true p =
    [RWire (0, 0); RNode 2; RIdxs [2; 3]%Z; RIdx 4%Z; RNode 3; RNodes [4; 5]; RIdxs [5; 6]%Z; RNone]%N /\
  expected 2 true p = run_tracked_rets 2 true p /\
  exists h tr, run_tracked 2 true p = (h, tr, None).
Proof. vm_compute. split; [reflexivity|]. split; [reflexivity|]. eauto. Qed.
