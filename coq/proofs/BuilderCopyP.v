(* C01 (second pass) — rule 11: a non-local edge never carries a non-copyable value, and never is an order edge, for
   every well-formed program (spec/BuilderWFS.v: wf_prog = wt_prog && ord_prog && lin_prog) of the modelled builder
   language whose builder calls do not raise; and, with all the other rules, the goal of props/C01.v:
   `valid` accepts the serialised document.

   SibLin: every link that leaves an out port of non-copyable type joins two siblings (a non-copyable wire is
   only used in the region that bound it).  OrdSib: every order link joins two siblings (the order edge of a
   non-local wire goes to the sibling ancestor; add_state_order stays inside its region). *)
From Coq Require Import NArith List Bool Arith Lia.
Import ListNotations.
From HV Require Import lib.Harness model.Validity model.Builder spec.BuilderS spec.BuilderWFS
  proofs.BuilderP proofs.BuilderExtP proofs.BuilderFrameP proofs.BuilderRulesP proofs.BuilderTypeP proofs.BuilderAcyclicP
  proofs.BuilderNonLocalP proofs.BuilderInputsP proofs.BuilderLinearP.
Local Open Scope N_scope.

(* ------------------------------------------------------------------ what _wire_up's links look like *)
Lemma WNew_shape st node ws : forall i ts new, WNew st node i ws ts new -> forall e0, In e0 new ->
  (e_soff e0 = None /\ s_parent st (e_src e0) = s_parent st (e_dst e0)) \/
  (exists a, e_soff e0 = Some a /\ e_dst e0 = node /\ In (e_src e0, a) ws).
Proof.
  intros i ts new H. induction H; intros e0 Hin; [destruct Hin|].
  apply in_app_or in Hin. destruct Hin as [Hin|[<-|Hin]].
  - destruct H0 as [->|[-> _]]; [destruct Hin|]. destruct Hin as [<-|[]]. left. split; [reflexivity|].
    cbn [olink e_src e_dst]. unfold anc_sib in H. apply anc_sib_from_sound in H. now rewrite (AncSib_parent _ _ _ _ H).
  - right. exists (snd w). cbn [vlink e_soff e_dst e_src]. split; [reflexivity|]. split; [reflexivity|]. left. now destruct w.
  - destruct (IHWNew _ Hin) as [X|(a0 & A & B & C)]; [now left|right]. exists a0. split; [exact A|]. split; [exact B|now right].
Qed.
Lemma get_wires_arg e args : forall ws, get_wires e args = Ok ws -> forall q, In q ws -> exists a, In a args /\ wport e a = Some q.
Proof.
  induction args as [|a r IH]; intros ws H q Hq; cbn [get_wires] in H.
  - inversion H; subst. destruct Hq.
  - unfold get_wire in H. destruct (lookup (e_wires e) a) as [p|] eqn:E; [|discriminate]. cbn [bind] in H.
    destruct (get_wires e r) as [ps|] eqn:E2; [|discriminate]. cbn [bind] in H. inversion H; subst ws.
    destruct Hq as [<-|Hq]; [exists a; split; [now left|exact E]|].
    destruct (IH _ eq_refl _ Hq) as (a' & A & B). exists a'. split; [now right|exact B].
Qed.

Section Copy.
  Variable tys : list tyinfo.

  Definition SibLin (st : store) : Prop := forall e a, In e (s_links st) -> e_soff e = Some a ->
    lin_at tys (s_nodes st) (e_src e, a) = true -> s_parent st (e_src e) = s_parent st (e_dst e).
  Definition Local (st : store) (e : env) (pend : list wid) (P : N) : Prop :=
    forall w, In w pend -> exists p, wport e w = Some p /\ s_parent st (fst p) = Some P.

  (* the general step *)
  Lemma SL_step st st' ext :
    Ext st st' -> LinksOK st -> s_links st' = s_links st ++ ext ->
    (forall e a, In e (s_links st) -> e_soff e = Some a -> lin_at tys (s_nodes st') (e_src e, a) = true ->
                 lin_at tys (s_nodes st) (e_src e, a) = true) ->
    (forall e a, In e ext -> e_soff e = Some a -> lin_at tys (s_nodes st') (e_src e, a) = true ->
                 s_parent st' (e_src e) = s_parent st' (e_dst e)) ->
    SibLin st -> SibLin st'.
  Proof.
    intros X K El Hold Hnew Q e a Hin Ea Hl. rewrite El in Hin. apply in_app_or in Hin. destruct Hin as [Hin|Hin]; [|eauto].
    destruct (LinksOK_in _ _ K Hin) as [Ls Ld].
    destruct (old_node_ext _ _ _ X Ls) as [Ps _]. destruct (old_node_ext _ _ _ X Ld) as [Pd _].
    rewrite Ps, Pd. eapply Q; eauto.
  Qed.
  Lemma lin_at_keep st st' p : Keep st st' -> fst p < s_len st -> lin_at tys (s_nodes st') p = lin_at tys (s_nodes st) p.
  Proof. intros K L. unfold lin_at. now rewrite (type_at_keep _ _ _ K L). Qed.

  (* the value links of one _wire_up that leave a non-copyable port join siblings *)
  Lemma WNew_siblin st1 st st' e b args ws G pend pend1 node i ts new :
    WNew st1 node i ws ts new -> Ext st st1 -> Ext st1 st' ->
    (forall q, In q ws -> lin_at tys (s_nodes st') q = lin_at tys (s_nodes st) q) ->
    get_wires e args = Ok ws -> G = G_of (s_nodes st) e -> use_wires tys G pend args = Some pend1 -> NoDup pend ->
    Local st e pend (b_parent b) -> s_parent st' node = Some (b_parent b) ->
    forall e0 a, In e0 new -> e_soff e0 = Some a -> lin_at tys (s_nodes st') (e_src e0, a) = true ->
    s_parent st' (e_src e0) = s_parent st' (e_dst e0).
  Proof.
    intros HW X1 X2 Hlin Gw EG UW ND LC HP e0 a Hin Ea Hl.
    destruct (WNew_shape _ _ _ _ _ _ HW _ Hin) as [[E _]|(a0 & A & B & C)]; [congruence|].
    rewrite Ea in A. inversion A; subst a0. rewrite B, HP.
    rewrite (Hlin _ C) in Hl.
    destruct (get_wires_arg _ _ _ Gw _ C) as (aw & Haw & Hpw).
    destruct (use_wires_spec tys _ _ _ _ UW ND) as (_ & _ & O1).
    assert (Hlw : lin_w tys G aw = true) by (subst G; now rewrite lin_w_G_of, Hpw).
    destruct (O1 _ Haw Hlw) as [Hp _]. destruct (LC _ Hp) as (p & Hp' & Hpar). rewrite Hpw in Hp'. inversion Hp'; subst p.
    cbn [fst] in Hpar. eapply parent_ext; [|exact Hpar]. eapply Ext_trans; eauto.
  Qed.

  Lemma Local_bind st e e' pend n nd rs P :
    Local st e pend P -> nthN (s_nodes st) n = Some nd -> n <> 0 -> n_parent nd = P ->
    NoDup rs -> (forall r, In r rs -> wport e r = None) ->
    (forall w, ~ In w rs -> wport e' w = wport e w) ->
    (forall j r, nth_error rs j = Some r -> wport e' r = Some (n, N.of_nat j)) ->
    Local st e' (lin_outs tys rs (val_out (n_op nd)) ++ pend) P.
  Proof.
    intros LC En Hn HP NDr Fr Eold Enew w Hw. apply in_app_or in Hw. destruct Hw as [Hw|Hw].
    - apply in_lin_outs_from in Hw. destruct Hw as (j & t & H1 & _). exists (n, N.of_nat j). split; [now apply Enew|].
      cbn [fst]. rewrite <- HP. now apply s_parent_at.
    - destruct (LC _ Hw) as (p & Hp & Hpar). exists p. split; [|exact Hpar]. rewrite Eold; [exact Hp|].
      intros Hr. rewrite (Fr _ Hr) in Hp. discriminate.
  Qed.
  Lemma Local_ext st st' e pend P : Ext st st' -> Local st e pend P -> Local st' e pend P.
  Proof. intros X LC w Hw. destruct (LC _ Hw) as (p & Hp & Hpar). exists p. split; [exact Hp|]. eapply parent_ext; eauto. Qed.
  Lemma Local_sub st e pend pend1 P : (forall w, In w pend1 -> In w pend) -> Local st e pend P -> Local st e pend1 P.
  Proof. intros S LC w Hw. apply LC. now apply S. Qed.

  Definition MS (s : stmt) : Prop := forall b st e st' e' G G' pend pend',
    exec_stmt tys s b st e = Ok (st', e') -> wt_stmt tys s G = Some G' -> lin_stmt tys s G pend = Some pend' ->
    Bpre tys st b e G -> NoDup pend -> Local st e pend (b_parent b) -> SibLin st ->
    NoDup pend' /\ Local st' e' pend' (b_parent b) /\ SibLin st' /\ WStable e e'.
  Definition MR (r : region) : Prop := forall b st e st' e' G G' ins outs pp,
    exec_region tys r b st e = Ok (st', e') -> wt_region tys r ins G = Some (G', outs) -> lin_region tys r ins G = true ->
    Bpre tys st b e G -> nthN (s_nodes st) (b_parent b) = Some (mk (DFG ins []) pp) -> SibLin st ->
    SibLin st' /\ WStable e e'.
  Definition ML (l : stmts) : Prop := forall b st e st' e' G G' pend pend',
    exec_stmts tys l b st e = Ok (st', e') -> wt_stmts tys l G = Some G' -> lin_stmts tys l G pend = Some pend' ->
    Bpre tys st b e G -> NoDup pend -> Local st e pend (b_parent b) -> SibLin st ->
    NoDup pend' /\ Local st' e' pend' (b_parent b) /\ SibLin st' /\ WStable e e'.

  Lemma Local_stable st e e' pend P : WStable e e' -> Local st e pend P -> Local st e' pend P.
  Proof. intros WS LC w Hw. destruct (LC _ Hw) as (p & Hp & Hpar). exists p. split; [now apply WS|exact Hpar]. Qed.

  Lemma no_port_link_from_placeholder st P i pp e a : LinkInv st -> nthN (s_nodes st) P = Some (mk (DFG i []) pp) ->
    In e (s_links st) -> e_src e = P -> e_soff e = Some a -> False.
  Proof.
    intros LI En Hin Es Ea. unfold LinkInv in LI. rewrite forallb_forall in LI. specialize (LI _ Hin).
    unfold link_okb, op_at in LI. rewrite Es, En, Ea in LI. cbn [option_map mk n_op] in LI.
    destruct (option_map n_op (nthN (s_nodes st) (e_dst e))) as [do_|]; [|discriminate].
    destruct (e_doff e) as [b0|]; [|discriminate]. cbn [val_out df_sig] in LI. rewrite nthN_nil in LI. discriminate.
  Qed.

  Lemma stmt_ext s b st e st' e' G : exec_stmt tys s b st e = Ok (st', e') -> Bpre tys st b e G ->
    Ext st st' /\ Inv st' /\ Keep st st'.
  Proof.
    intros H P. destruct (exec_keeps_invariants tys) as (KS & _ & _).
    destruct (KS _ _ _ _ _ _ H (bp_inv _ _ _ _ _ P) (OpenB_WB _ _ (bp_open _ _ _ _ _ P))) as [I' X].
    destruct (stmt_pre tys _ _ _ _ _ _ _ H P) as (_ & _ & _ & _ & _ & K & _). auto.
  Qed.

  Lemma exec_siblin : (forall s, MS s) /\ (forall r, MR r) /\ (forall l, ML l).
  Proof.
    destruct (exec_typed tys) as (TSs & TRr & TLl).
    apply prog_mutind; unfold MS, MR, ML.
    - (* SOp *)
      intros id o args rs b st e st' e' G G' pend pend' H W LN P ND LC SL.
      destruct (stmt_ext _ _ _ _ _ _ _ H P) as (X & I' & K).
      pose proof P as [I A O R Nn SK EG LI NO].
      cbn [lin_stmt] in LN. destruct (wire_tys G args) as [ts_s|] eqn:WT; [|discriminate].
      destruct (completed_op tys o ts_s) as [op_s|] eqn:CS; [|discriminate].
      destruct (use_wires tys G pend args) as [pend1|] eqn:UW; [|discriminate].
      destruct (fresh_ws G rs && covers tys rs (val_out op_s)) eqn:FC; [|discriminate]. inversion LN; subst pend'; clear LN.
      apply andb_true_iff in FC. destruct FC as [FR CV]. rewrite <- EG in FR.
      destruct (fresh_ws_spec _ _ _ FR) as [NDr Fr].
      destruct (use_wires_spec tys _ _ _ _ UW ND) as (N1 & I1 & O1).
      apply SOp_spec in H. destruct H as (ws & ts & op' & new & st1 & Gw & Lp & En1 & El1 & HW & C & En' & El' & ->).
      assert (ts = ts_s) by (eapply wired_types; [exact P|exact Gw|exact WT|exact En1|exact HW]). subst ts_s.
      rewrite C in CS. inversion CS; subst op_s; clear CS.
      set (n := s_len st) in *.
      assert (Hn : nthN (s_nodes st') n = Some (mk op' (b_parent b))) by (rewrite En'; unfold n, s_len; apply nthN_len).
      assert (Lb : b_parent b + 2 < n) by (pose proof (OpenB_lt _ _ O); exact H).
      assert (HP' : s_parent st' n = Some (b_parent b)) by (eapply s_parent_mk; [exact Hn|lia]).
      assert (LC1 : Local st' e pend1 (b_parent b)).
      { eapply Local_ext; [exact X|]. eapply Local_sub; [|exact LC]. intros w Hw. now apply I1. }
      split; [|split; [|split]].
      + apply NoDup_app_intro; [now apply lin_outs_NoDup|exact N1|]. intros r H1 H2. apply lin_outs_incl in H1.
        destruct (LC1 _ H2) as (p & Hp & _). rewrite (Fr _ H1) in Hp. discriminate.
      + eapply (Local_bind st' e _ pend1 n (mk op' (b_parent b)) rs); eauto; [lia| |].
        * intros w Hw. unfold bind_outs. now rewrite bind_from_notin.
        * intros j r Hj. unfold bind_outs. rewrite (bind_from_nth _ _ _ _ _ _ NDr Hj). now rewrite N.add_0_l.
      + eapply SL_step; [exact X|exact (proj2 I)|exact El'| | |exact SL].
        * intros e0 a Hin _ Hl. rewrite (lin_at_keep st st') in Hl; [exact Hl|exact K|]. exact (proj1 (LinksOK_in _ _ (proj2 I) Hin)).
        * eapply (WNew_siblin st1 st st' e b args ws G pend pend1); eauto.
          -- eapply Ext_app; exact En1.
          -- apply Ext_cnode. rewrite En1, En', !map_app. f_equal. cbn. unfold cnode. cbn. now rewrite (completed_canon tys _ _ _ C).
          -- intros q Hq. apply lin_at_keep; [exact K|]. apply (get_wires_pos _ _ _ _ R Gw _ Hq).
      + now apply WStable_bind.
    - (* SLoad *)
      intros id v cp r b st e st' e' G G' pend pend' H W LN P ND LC SL.
      destruct (stmt_ext _ _ _ _ _ _ _ H P) as (X & I' & K).
      pose proof P as [I A O R Nn SK EG LI NO].
      cbn [lin_stmt] in LN. destruct (fresh_ws G [r]) eqn:FR; [|discriminate]. inversion LN; subst pend'; clear LN.
      rewrite <- EG in FR. destruct (fresh_ws_spec _ _ _ FR) as [NDr Fr].
      apply SLoad_spec in H. destruct H as (En' & El' & ->).
      set (n := s_len st) in *.
      assert (Hc : nthN (s_nodes st') n = Some (mk (Const v) (match cp with CHere => b_parent b | CRoot => 0 end)))
        by (rewrite En'; unfold n, s_len; apply nthN_len).
      assert (Hn : nthN (s_nodes st') (n + 1) = Some (mk (LoadConst (value_ty v)) (b_parent b))).
      { rewrite En'. rewrite nthN_app_ge by (unfold n, s_len; lia). unfold n, s_len.
        replace (lenN (s_nodes st) + 1 - lenN (s_nodes st)) with 1 by lia. reflexivity. }
      assert (LC1 : Local st' e pend (b_parent b)) by (eapply Local_ext; eauto).
      split; [|split; [|split]].
      + apply NoDup_app_intro; [now apply lin_outs_NoDup|exact ND|]. intros r0 H1 H2. apply lin_outs_incl in H1.
        destruct (LC1 _ H2) as (p & Hp & _). rewrite (Fr _ H1) in Hp. discriminate.
      + eapply (Local_bind st' e _ pend (n + 1) (mk (LoadConst (value_ty v)) (b_parent b)) [r]); eauto; [lia| |].
        * intros w Hw. unfold bind_outs. now rewrite bind_from_notin.
        * intros j r0 Hj. unfold bind_outs. rewrite (bind_from_nth _ _ _ _ _ _ NDr Hj). now rewrite N.add_0_l.
      + eapply SL_step; [exact X|exact (proj2 I)|exact El'| | |exact SL].
        * intros e0 a Hin _ Hl. rewrite (lin_at_keep st st') in Hl; [exact Hl|exact K|]. exact (proj1 (LinksOK_in _ _ (proj2 I) Hin)).
        * intros e0 a [<-|[]] _ Hl. exfalso. cbn [e_src] in Hl. unfold lin_at, type_at in Hl. cbn [fst snd] in Hl.
          rewrite Hc in Hl. cbn in Hl. rewrite nthN_nil in Hl. discriminate.
      + now apply WStable_bind.
    - (* SNested *)
      intros id args body IH rs b st e st' e' G G' pend pend' H W LN P ND LC SL.
      destruct (stmt_ext _ _ _ _ _ _ _ H P) as (X & I' & K).
      pose proof P as [I A O R Nn SK EG LI NO].
      destruct (wt_SNested_inv _ _ _ _ _ _ _ W) as (ts_s & G1 & outs & WT & WR & ->).
      destruct (lin_SNested_inv _ _ _ _ _ _ _ _ _ _ _ LN WT WR) as (pend1 & UW & LRg & FR & CV & ->).
      destruct (use_wires_spec tys _ _ _ _ UW ND) as (N1 & I1 & O1).
      apply SNested_spec in H.
      destruct H as (ws & ts & new & st3 & st4 & e5 & Gw & T & Lp & En3 & El3 & HW & En4 & El4 & XR & ->).
      assert (ts = ts_s) by (eapply wired_types; [exact P|exact Gw|exact WT|exact En3|exact HW]). subst ts_s.
      destruct (nested_Bpre _ _ _ _ _ _ _ _ _ _ _ P Gw WT En3 HW En4 El4) as [P4 Hd].
      set (d := s_len st) in *.
      assert (Lb : b_parent b + 2 < d) by (pose proof (OpenB_lt _ _ O); exact H).
      assert (X4 : Ext st st4) by (eapply Ext_app; rewrite En4; exact En3).
      assert (HP4 : s_parent st4 d = Some (b_parent b)) by (eapply s_parent_mk; [exact Hd|lia]).
      assert (SL4 : SibLin st4).
      { eapply SL_step; [exact X4|exact (proj2 I)|exact El4| | |exact SL].
        - intros e0 a Hin _ Hl. rewrite En4, En3 in Hl. unfold lin_at in *. rewrite type_at_app in Hl; [exact Hl|].
          exact (proj1 (LinksOK_in _ _ (proj2 I) Hin)).
        - eapply (WNew_siblin st3 st st4 e b args ws G pend pend1); eauto.
          + eapply Ext_app; exact En3.
          + apply Ext_cnode. now rewrite En4.
          + intros q Hq. rewrite En4, En3. unfold lin_at. rewrite type_at_app; [reflexivity|].
            apply (get_wires_pos _ _ _ _ R Gw _ Hq). }
      destruct (IH _ _ _ _ _ _ _ _ _ _ XR WR LRg P4 Hd SL4) as (SL' & WS5). cbn [b_parent] in *.
      destruct (TRr _ _ _ _ _ _ _ _ _ _ _ XR WR P4 Hd) as (_ & _ & _ & EG5 & Hd'). cbn [b_parent] in Hd'.
      rewrite <- EG5 in FR. destruct (fresh_ws_spec _ _ _ FR) as [NDr Fr].
      assert (LC1 : Local st' e5 pend1 (b_parent b)).
      { eapply Local_stable; [exact WS5|]. eapply Local_ext; [exact X|]. eapply Local_sub; [|exact LC]. intros w Hw. now apply I1. }
      split; [|split; [|split]].
      + apply NoDup_app_intro; [now apply lin_outs_NoDup|exact N1|]. intros r H1 H2. apply lin_outs_incl in H1.
        destruct (LC1 _ H2) as (p & Hp & _). rewrite (Fr _ H1) in Hp. discriminate.
      + eapply (Local_bind st' e5 _ pend1 d (mk (DFG ts outs) (b_parent b)) rs); eauto; [lia| |].
        * intros w Hw. unfold bind_outs. now rewrite bind_from_notin.
        * intros j r Hj. unfold bind_outs. rewrite (bind_from_nth _ _ _ _ _ _ NDr Hj). now rewrite N.add_0_l.
      + exact SL'.
      + intros w p Hp. apply (WStable_bind e5 id d rs Fr). now apply WS5.
    - (* SOrder *)
      intros src dst b st e st' e' G G' pend pend' H W LN P ND LC SL.
      destruct (stmt_ext _ _ _ _ _ _ _ H P) as (X & I' & K).
      pose proof P as [I A O R Nn SK EG LI NO].
      cbn [lin_stmt] in LN. inversion LN; subst pend'; clear LN.
      apply SOrder_spec in H. destruct H as (a & c & Na & Nc & En' & El' & ->).
      split; [exact ND|]. split; [eapply Local_ext; eauto|]. split; [|intros w p Hp; exact Hp].
      assert (El : exists new, s_links st' = s_links st ++ new /\ forall e0, In e0 new -> e_soff e0 = None).
      { destruct El' as [El'|El']; [exists []; split; [now rewrite app_nil_r|intros e0 []]|].
        exists [olink a c]. split; [exact El'|]. intros e0 [<-|[]]. reflexivity. }
      destruct El as (new & El & Cn).
      eapply SL_step; [exact X|exact (proj2 I)|exact El| | |exact SL].
      + intros e0 a0 Hin _ Hl. now rewrite En' in Hl.
      + intros e0 a0 Hin Ea. rewrite (Cn _ Hin) in Ea. discriminate.
    - (* Region *)
      intros wids body IH oids b st e st' e' G G' ins outs pp H W LN P Hp SL.
      destruct (wt_region_inv _ _ _ _ _ _ _ _ W) as [WB WO]. rename G' into G1.
      destruct (lin_region_inv _ _ _ _ _ _ _ LN WB) as (FR & CV & pend1 & LB & UW).
      apply exec_region_inv in H. destruct H as (st1 & ws & X & Gw & SO).
      pose proof P as [I A O R Nn SK EG LI NO].
      pose proof O as (Ei & Eo & _).
      pose proof (OpenB_lt _ _ O) as Lb. fold (s_len st) in Lb.
      destruct (proj1 (proj2 A) _ _ _ _ Hp eq_refl) as [Hin _].
      rewrite <- EG in FR. destruct (fresh_ws_spec _ _ _ FR) as [NDr Fr].
      assert (P0 : Bpre tys st b (bind_outs e (b_in b) wids) (tbind G wids ins)).
      { constructor; auto.
        - apply EnvRange_bind_in; [exact R|lia|lia].
        - apply WiresNot_bind_in; [exact Nn|lia].
        - now apply StmtsOK_bind_in.
        - unfold bind_outs. rewrite Ei. rewrite (G_of_bind_from _ _ _ wids Hin). cbn [mk n_op val_out df_sig].
          unfold tbind. now rewrite EG. }
      assert (LC0 : Local st (bind_outs e (b_in b) wids) (lin_outs tys wids ins) (b_parent b)).
      { rewrite <- (app_nil_r (lin_outs tys wids ins)). rewrite Ei.
        eapply (Local_bind st e _ [] (b_parent b + 1) (mk (Input ins) (b_parent b)) wids); eauto; [intros w []|lia| |].
        - intros w Hw. unfold bind_outs. now rewrite bind_from_notin.
        - intros j r Hj. unfold bind_outs. rewrite (bind_from_nth _ _ _ _ _ _ NDr Hj). now rewrite N.add_0_l. }
      destruct (IH _ _ _ _ _ _ _ _ _ X WB LB P0 (lin_outs_NoDup tys _ _ _ NDr) LC0 SL) as (N1 & LC1 & SL1 & WS1).
      pose proof (TLl _ _ _ _ _ _ _ _ X WB P0) as P1. pose proof P1 as [I1 A1 O1 R1 Nn1 SK1 EG1 LI1 NO1].
      pose proof (set_outputs_same _ _ _ _ SO (OpenB_WB _ _ O1)) as S1.
      destruct (set_outputs_spec _ _ _ _ SO O1) as (ts & new & i1 & pp' & HW & El' & Hp1 & En').
      destruct O1 as (_ & _ & i2 & pp2 & Hp2 & Ho2).
      set (p := b_parent b) in *. rewrite <- EG1 in UW. rewrite Eo in HW.
      assert (Lo : p + 2 < lenN (s_nodes st1)) by (eapply nthN_lt; eauto).
      assert (Hlin : forall q, fst q <> p -> lin_at tys (s_nodes st') q = lin_at tys (s_nodes st1) q).
      { intros q Hq. unfold lin_at, type_at. rewrite En'. rewrite nthN_set_nth_neq by exact Hq.
        destruct (N.eq_dec (fst q) (p + 2)) as [E2|E2].
        - rewrite E2, nthN_set_nth_eq by exact Lo. rewrite Ho2. cbn. now rewrite !nthN_nil.
        - now rewrite nthN_set_nth_neq by exact E2. }
      assert (HPo : s_parent st' (p + 2) = Some p).
      { eapply parent_ext; [exact (Same_Ext _ _ S1)|]. eapply s_parent_mk; [exact Ho2|lia]. }
      split.
      + eapply SL_step; [exact (Same_Ext _ _ S1)|exact (proj2 I1)|exact El'| | |exact SL1].
        * intros e0 a Hin0 Ea Hl. destruct (N.eq_dec (e_src e0) p) as [Es|Es].
          -- exfalso. eapply no_port_link_from_placeholder; eauto.
          -- now rewrite Hlin in Hl.
        * eapply (WNew_siblin st1 st1 st' e' b oids ws (G_of (s_nodes st1) e') pend1 []); eauto.
          -- apply Ext_refl.
          -- exact (Same_Ext _ _ S1).
          -- intros q Hq. apply Hlin. destruct (get_wires_In _ _ _ Gw _ Hq) as [w Hw]. exact (Nn1 _ _ Hw).
      + intros w q Hq. apply WS1. now apply (WStable_bind_in e (b_in b) wids Fr).
    - (* SNil *)
      intros b st e st' e' G G' pend pend' H W LN P ND LC SL. cbn in H, LN. inversion H; inversion LN; subst.
      split; [exact ND|]. split; [exact LC|]. split; [exact SL|intros w p Hp; exact Hp].
    - (* SCons *)
      intros s IHs r IHr b st e st' e' G G' pend pend' H W LN P ND LC SL.
      destruct (wt_SCons_inv _ _ _ _ _ W) as (G1 & W1 & W2). destruct (lin_SCons_inv _ _ _ _ _ _ _ LN W1) as (p1 & L1 & L2).
      apply exec_SCons_inv in H. destruct H as (st1 & e1 & X1 & X2).
      destruct (IHs _ _ _ _ _ _ _ _ _ X1 W1 L1 P ND LC SL) as (N1 & LC1 & SL1 & WS1).
      destruct (IHr _ _ _ _ _ _ _ _ _ X2 W2 L2 (TSs _ _ _ _ _ _ _ _ X1 W1 P) N1 LC1 SL1) as (N2 & LC2 & SL2 & WS2).
      split; [exact N2|]. split; [exact LC2|]. split; [exact SL2|]. intros w p Hp. apply WS2. now apply WS1.
  Qed.
End Copy.

(* ------------------------------------------------------------------ order links join siblings *)
Definition OrdSib (st : store) : Prop := forall e, In e (s_links st) -> e_soff e = None ->
  s_parent st (e_src e) = s_parent st (e_dst e).
Definition ScopeParent (st : store) (e : env) (P : N) (scope : list sid) : Prop :=
  forall s, In s scope -> exists n, lookup (e_stmts e) s = Some n /\ s_parent st n = Some P.

Lemma OS_step st st' ext :
  Ext st st' -> LinksOK st -> s_links st' = s_links st ++ ext ->
  (forall e, In e ext -> e_soff e = None -> s_parent st' (e_src e) = s_parent st' (e_dst e)) ->
  OrdSib st -> OrdSib st'.
Proof.
  intros X K El Hnew Q e Hin Ea. rewrite El in Hin. apply in_app_or in Hin. destruct Hin as [Hin|Hin]; [|eauto].
  destruct (LinksOK_in _ _ K Hin) as [Ls Ld].
  destruct (old_node_ext _ _ _ X Ls) as [Ps _]. destruct (old_node_ext _ _ _ X Ld) as [Pd _].
  rewrite Ps, Pd. eauto.
Qed.
Lemma WNew_ordsib st1 st' node ws i ts new : WNew st1 node i ws ts new -> Ext st1 st' ->
  forall e0, In e0 new -> e_soff e0 = None -> s_parent st' (e_src e0) = s_parent st' (e_dst e0).
Proof.
  intros HW X e0 Hin Ea. pose proof (WNew_LinksOK _ _ _ _ _ _ HW) as K. rewrite forallb_forall in K. specialize (K _ Hin).
  apply andb_true_iff in K. destruct K as [Ls Ld]. apply N.ltb_lt in Ls, Ld.
  destruct (WNew_shape _ _ _ _ _ _ HW _ Hin) as [[_ E]|(a & A & _)]; [|congruence].
  destruct (old_node_ext _ _ _ X Ls) as [Ps _]. destruct (old_node_ext _ _ _ X Ld) as [Pd _]. now rewrite Ps, Pd.
Qed.
Lemma before_In s s' l : before s s' l = true -> In s l /\ In s' l.
Proof.
  induction l as [|x r IH]; cbn [before]; [discriminate|]. destruct (N.eqb_spec x s') as [->|_].
  - intros H. apply memN_In in H. split; [now right|now left].
  - intros H. destruct (IH H). split; now right.
Qed.
Lemma ScopeParent_ext st st' e P scope : Ext st st' -> ScopeParent st e P scope -> ScopeParent st' e P scope.
Proof. intros X SP s Hs. destruct (SP _ Hs) as (n & Hn & Hp). exists n. split; [exact Hn|]. eapply parent_ext; eauto. Qed.
Lemma ScopeParent_push st e P scope used id n rs :
  ScopeParent st e P scope -> (forall s, In s scope -> In s used) -> ~ In id used -> s_parent st n = Some P ->
  ScopeParent st (bind_outs (bind_stmt e id n) n rs) P (id :: scope).
Proof.
  intros SP Inc Hid HP s [<-|Hs].
  - exists n. split; [rewrite lookup_bind_stmt, N.eqb_refl; reflexivity|exact HP].
  - destruct (SP _ Hs) as (m & Hm & Hp). exists m. split; [|exact Hp]. rewrite lookup_bind_stmt.
    destruct (N.eqb_spec s id) as [->|_]; [elim Hid; auto|exact Hm].
Qed.

Section OrdMain.
  Variable tys : list tyinfo.

  Definition OSs (s : stmt) : Prop := forall b st e st' e' scope used scope' used',
    exec_stmt tys s b st e = Ok (st', e') -> ord_stmt s scope used = Some (scope', used') ->
    Cpre st b e -> ScopeParent st e (b_parent b) scope -> (forall x, In x scope -> In x used) -> OrdSib st ->
    ScopeParent st' e' (b_parent b) scope' /\ (forall x, In x scope' -> In x used') /\ OrdSib st' /\
    StmtsFresh e e' used /\ (forall x, In x used -> In x used').
  Definition OSr (r : region) : Prop := forall b st e st' e' used used',
    exec_region tys r b st e = Ok (st', e') -> ord_region r used = Some used' -> Cpre st b e -> OrdSib st ->
    OrdSib st' /\ StmtsFresh e e' used /\ (forall x, In x used -> In x used').
  Definition OSl (l : stmts) : Prop := forall b st e st' e' scope used scope' used',
    exec_stmts tys l b st e = Ok (st', e') -> ord_stmts l scope used = Some (scope', used') ->
    Cpre st b e -> ScopeParent st e (b_parent b) scope -> (forall x, In x scope -> In x used) -> OrdSib st ->
    ScopeParent st' e' (b_parent b) scope' /\ (forall x, In x scope' -> In x used') /\ OrdSib st' /\
    StmtsFresh e e' used /\ (forall x, In x used -> In x used').

  Lemma exec_ordsib : (forall s, OSs s) /\ (forall r, OSr r) /\ (forall l, OSl l).
  Proof.
    apply prog_mutind; unfold OSs, OSr, OSl.
    - (* SOp *)
      intros id o args rs b st e st' e' scope used scope' used' H OD P SP Inc Q. cbn [ord_stmt] in OD.
      destruct (memN id used) eqn:Mid; [discriminate|]. inversion OD; subst scope' used'; clear OD.
      apply memN_false in Mid.
      destruct (cpre_stmt tys _ _ _ _ _ _ H P) as ([I' A' O' R'] & K & X & L). destruct P as [I A O R].
      apply SOp_spec in H. destruct H as (ws & ts & op' & new & st1 & Gw & Lp & En1 & El1 & HW & Cc & En' & El' & ->).
      pose proof (OpenB_lt _ _ O) as Lb. fold (s_len st) in Lb.
      assert (Ec : map cnode (s_nodes st') = map cnode (s_nodes st1)).
      { rewrite En1, En', !map_app. f_equal. cbn. unfold cnode. cbn. now rewrite (completed_canon tys _ _ _ Cc). }
      assert (HP' : s_parent st' (s_len st) = Some (b_parent b)).
      { eapply s_parent_mk; [rewrite En'; unfold s_len; apply nthN_len|lia]. }
      split; [|split; [|split; [|split]]].
      + apply ScopeParent_push with (used := used); auto. eapply ScopeParent_ext; eauto.
      + intros x [<-|Hx]; [now left|right; auto].
      + eapply OS_step; [exact X|exact (proj2 I)|exact El'| |exact Q]. eapply WNew_ordsib; [exact HW|]. now apply Ext_cnode.
      + now apply StmtsFresh_bind.
      + intros x Hx. now right.
    - (* SLoad *)
      intros id v cp r b st e st' e' scope used scope' used' H OD P SP Inc Q. cbn [ord_stmt] in OD.
      destruct (memN id used) eqn:Mid; [discriminate|]. inversion OD; subst scope' used'; clear OD.
      apply memN_false in Mid.
      destruct (cpre_stmt tys _ _ _ _ _ _ H P) as ([I' A' O' R'] & K & X & L). destruct P as [I A O R].
      apply SLoad_spec in H. destruct H as (En' & El' & ->).
      pose proof (OpenB_lt _ _ O) as Lb. fold (s_len st) in Lb.
      assert (Hn : nthN (s_nodes st') (s_len st + 1) = Some (mk (LoadConst (value_ty v)) (b_parent b))).
      { rewrite En'. rewrite nthN_app_ge by (unfold s_len; lia). unfold s_len.
        replace (lenN (s_nodes st) + 1 - lenN (s_nodes st)) with 1 by lia. reflexivity. }
      assert (HP' : s_parent st' (s_len st + 1) = Some (b_parent b)) by (eapply s_parent_mk; [exact Hn|lia]).
      split; [|split; [|split; [|split]]].
      + apply ScopeParent_push with (used := used); auto. eapply ScopeParent_ext; eauto.
      + intros x [<-|Hx]; [now left|right; auto].
      + eapply OS_step; [exact X|exact (proj2 I)|exact El'| |exact Q]. intros e0 [<-|[]] Ea. discriminate Ea.
      + now apply StmtsFresh_bind.
      + intros x Hx. now right.
    - (* SNested *)
      intros id args body IH rs b st e st' e' scope used scope' used' H OD P SP Inc Q. cbn [ord_stmt] in OD.
      destruct (memN id used) eqn:Mid; [discriminate|]. apply memN_false in Mid.
      match type of OD with match ?x with _ => _ end = _ => destruct x as [used1|] eqn:OR; [|discriminate] end.
      inversion OD; subst scope' used'; clear OD.
      destruct (cpre_stmt tys _ _ _ _ _ _ H P) as ([I' A' O' R'] & K & X & L). destruct P as [I A O R].
      apply SNested_spec in H.
      destruct H as (ws & ts & new & st3 & st4 & e5 & Gw & T & Lp & En3 & El3 & HW & En4 & El4 & XR & ->).
      destruct (nested_entry _ _ _ _ _ _ _ _ I A O R (get_wires_pos _ _ _ _ R Gw) En3 HW En4 El4) as (I4 & A4 & O4 & R4 & L4).
      pose proof (OpenB_lt _ _ O) as Lb. fold (s_len st) in Lb.
      set (d := s_len st) in *.
      assert (X4 : Ext st st4) by (eapply Ext_app; rewrite En4; exact En3).
      assert (Hd4 : nthN (s_nodes st4) d = Some (mk (DFG ts []) (b_parent b))) by (rewrite En4, En3; apply nthN_len).
      assert (Q4 : OrdSib st4).
      { eapply OS_step; [exact X4|exact (proj2 I)|exact El4| |exact Q]. eapply WNew_ordsib; [exact HW|]. apply Ext_cnode. now rewrite En4. }
      assert (P4 : Cpre st4 {| b_parent := d; b_in := d + 1; b_out := d + 2 |} e) by (constructor; auto).
      destruct (IH _ _ _ _ _ _ _ XR OR P4 Q4) as (Q' & F5 & Inc5).
      destruct (exec_keeps_invariants tys) as (_ & KR & _).
      destruct (KR _ _ _ _ _ _ XR I4 (OpenB_WB _ _ O4)) as [_ X45].
      assert (HP' : s_parent st' d = Some (b_parent b)).
      { eapply parent_ext; [exact X45|]. eapply s_parent_mk; [exact Hd4|lia]. }
      split; [|split; [|split; [|split]]].
      + intros s [<-|Hs].
        * exists d. split; [rewrite lookup_bind_stmt, N.eqb_refl; reflexivity|exact HP'].
        * destruct (SP _ Hs) as (m & Hm & Hp). exists m. split; [|exact (parent_ext _ _ _ _ X Hp)].
          rewrite lookup_bind_stmt. destruct (N.eqb_spec s id) as [->|_]; [elim Mid; auto|]. rewrite F5; [exact Hm|]. right. auto.
      + intros x [<-|Hx]; [apply Inc5; now left|apply Inc5; right; auto].
      + exact Q'.
      + intros s Hs. rewrite lookup_bind_stmt. destruct (N.eqb_spec s id) as [->|_]; [contradiction|]. apply F5. now right.
      + intros x Hx. apply Inc5. now right.
    - (* SOrder *)
      intros src dst b st e st' e' scope used scope' used' H OD P SP Inc Q. cbn [ord_stmt] in OD.
      destruct (order_fwd scope src dst) eqn:OF; [|discriminate]. inversion OD; subst scope' used'; clear OD.
      destruct (cpre_stmt tys _ _ _ _ _ _ H P) as ([I' A' O' R'] & K & X & L). destruct P as [I A O R].
      apply SOrder_spec in H. destruct H as (a & c & Na & Nc & En' & El' & ->).
      pose proof (OpenB_lt _ _ O) as Lb. fold (s_len st) in Lb.
      split; [eapply ScopeParent_ext; eauto|]. split; [exact Inc|]. split; [|split; [intros s Hs; reflexivity|auto]].
      destruct El' as [El'|El'].
      + eapply (OS_step st st' []); [exact X|exact (proj2 I)|now rewrite El', app_nil_r|intros e0 []|exact Q].
      + eapply OS_step; [exact X|exact (proj2 I)|exact El'| |exact Q].
        intros e0 [<-|[]] _. cbn [olink e_src e_dst]. rewrite !(s_parent_nodes st' st En').
        destruct O as (Ei & Eo & i & pp & Hp & Ho). destruct (proj1 (proj2 A) _ _ _ _ Hp eq_refl) as [Hi _].
        assert (PI : s_parent st (b_in b) = Some (b_parent b)) by (rewrite Ei; eapply s_parent_mk; [exact Hi|lia]).
        assert (PO : s_parent st (b_out b) = Some (b_parent b)) by (rewrite Eo; eapply s_parent_mk; [exact Ho|lia]).
        assert (PS : forall s n, In s scope -> lookup (e_stmts e) s = Some n -> s_parent st n = Some (b_parent b)).
        { intros s n Hs Hn. destruct (SP _ Hs) as (m & Hm & Hpm). congruence. }
        destruct src as [| |s], dst as [| |s']; cbn [order_fwd] in OF; try discriminate; cbn [node_of] in Na, Nc.
        * inversion Na; inversion Nc; subst a c. congruence.
        * inversion Na; subst a. destruct (lookup (e_stmts e) s') as [m|] eqn:Es; [|discriminate]. inversion Nc; subst m.
          apply memN_In in OF. rewrite (PS _ _ OF Es). exact PI.
        * inversion Nc; subst c. destruct (lookup (e_stmts e) s) as [m|] eqn:Es; [|discriminate]. inversion Na; subst m.
          apply memN_In in OF. rewrite (PS _ _ OF Es). now rewrite PO.
        * destruct (lookup (e_stmts e) s) as [m|] eqn:Es; [|discriminate]. inversion Na; subst m.
          destruct (lookup (e_stmts e) s') as [m|] eqn:Es'; [|discriminate]. inversion Nc; subst m.
          destruct (before_In _ _ _ OF) as [H1 H2]. now rewrite (PS _ _ H1 Es), (PS _ _ H2 Es').
    - (* Region *)
      intros wids body IH oids b st e st' e' used used' H OD P Q. cbn [ord_region] in OD.
      match type of OD with match ?x with _ => _ end = _ => destruct x as [[sc used1]|] eqn:OB; [|discriminate] end.
      inversion OD; subst used1; clear OD.
      apply exec_region_inv in H. destruct H as (st1 & ws & XB & Gw & SO).
      pose proof P as [I A O R]. pose proof (OpenB_lt _ _ O) as Lb. fold (s_len st) in Lb. pose proof O as (Ei & _).
      assert (P0 : Cpre st b (bind_outs e (b_in b) wids)) by (constructor; auto; apply EnvRange_bind_in; [exact R|lia|lia]).
      destruct (IH _ _ _ _ _ _ _ _ _ XB OB P0) as (_ & _ & Q1 & F1 & Inc1); [intros s []|intros x []|exact Q|].
      destruct (cpre_stmts tys _ _ _ _ _ _ XB P0) as ([I1 A1 O1 R1] & K1 & X1 & L1).
      pose proof (set_outputs_same _ _ _ _ SO (OpenB_WB _ _ O1)) as S1.
      destruct (set_outputs_spec _ _ _ _ SO O1) as (ts & new & i1 & pp1 & HW & El' & Hp1 & En').
      split; [|split; [|exact Inc1]].
      + eapply OS_step; [exact (Same_Ext _ _ S1)|exact (proj2 I1)|exact El'| |exact Q1].
        eapply WNew_ordsib; [exact HW|exact (Same_Ext _ _ S1)].
      + intros s Hs. rewrite (F1 s Hs). unfold bind_outs. now rewrite bind_outs_from_stmts.
    - (* SNil *)
      intros b st e st' e' scope used scope' used' H OD P SP Inc Q. cbn in H, OD. inversion H; inversion OD; subst.
      split; [exact SP|]. split; [exact Inc|]. split; [exact Q|]. split; [intros s Hs; reflexivity|auto].
    - (* SCons *)
      intros s IHs r IHr b st e st' e' scope used scope' used' H OD P SP Inc Q. cbn [ord_stmts] in OD.
      match type of OD with match ?x with _ => _ end = _ => destruct x as [[sc1 us1]|] eqn:O1; [|discriminate] end.
      apply exec_SCons_inv in H. destruct H as (st1 & e1 & X1 & X2).
      destruct (IHs _ _ _ _ _ _ _ _ _ X1 O1 P SP Inc Q) as (SP1 & Inc1 & Q1 & F1 & U1).
      destruct (cpre_stmt tys _ _ _ _ _ _ X1 P) as (P1 & _).
      destruct (IHr _ _ _ _ _ _ _ _ _ X2 OD P1 SP1 Inc1 Q1) as (SP2 & Inc2 & Q2 & F2 & U2).
      split; [exact SP2|]. split; [exact Inc2|]. split; [exact Q2|]. split; [eapply StmtsFresh_trans; eauto|auto].
  Qed.
End OrdMain.

(* ------------------------------------------------------------------ rule 11 on the document *)
Lemma walk_not_noncopyable g es static src fp fpp : forall fuel anc entered,
  walk fuel g es static src fp fpp anc entered <> ENonCopyable.
Proof.
  intros fuel. induction fuel as [|f IH]; intros anc entered; cbn [walk]; [discriminate|].
  destruct (parent_of g anc) as [ap|]; [|discriminate].
  destruct (ap =? fp).
  - destruct (entered || _); [discriminate|]. destruct (negb static && _); discriminate.
  - destruct (optN_eqb (Some ap) fpp && negb static).
    + destruct (negb _); [discriminate|]. destruct (entered || _); [discriminate|]. destruct (dominates g es ap fp anc); discriminate.
    + apply IH.
Qed.
Lemma classify_noncopyable_inv tys g es r : classify tys g es r = ENonCopyable ->
  exists fp tp, parent_of g (r_src r) = Some fp /\ parent_of g (r_dst r) = Some tp /\ fp <> tp /\
    is_static (r_kind r) = false /\ forall t, r_kind r = KValue t -> ty_copy tys t = false.
Proof.
  unfold classify. destruct (parent_of g (r_src r)) as [fp|]; [|discriminate].
  destruct (parent_of g (r_dst r)) as [tp|]; [|discriminate].
  destruct (N.eqb_spec fp tp) as [|Hne]; [discriminate|].
  destruct (negb (is_static (r_kind r)) && negb match r_kind r with KValue t => ty_copy tys t | _ => false end) eqn:E.
  - intros _. apply andb_true_iff in E. destruct E as [E1 E2]. apply negb_true_iff in E1, E2.
    exists fp, tp. repeat split; auto. intros t Ht. now rewrite Ht in E2.
  - intros H. exfalso. eapply walk_not_noncopyable; eauto.
Qed.

Lemma link_ok_kind st e : link_okb (s_nodes st) e = true ->
  exists r, resolve (to_serial st) (ser st e) = Some r /\ r_src r = e_src e /\ r_dst r = e_dst e /\
    match e_soff e with
    | None => True
    | Some a => (exists nd t, nthN (s_nodes st) (e_src e) = Some nd /\ nthN (val_out (n_op nd)) a = Some t /\ r_kind r = KValue t)
                \/ is_static (r_kind r) = true
    end.
Proof.
  unfold link_okb, resolve, op_of, op_at, ser, constrain_out, constrain_in, s_op, to_serial.
  cbn [g_nodes e_src e_dst e_soff e_doff].
  destruct (nthN (s_nodes st) (e_src e)) as [ns|] eqn:Es; [|discriminate]. cbn [option_map].
  destruct (option_map n_op (nthN (s_nodes st) (e_dst e))) as [do_|] eqn:Ed; [|discriminate].
  destruct (e_soff e) as [a|], (e_doff e) as [b|]; try discriminate.
  - destruct (nthN (val_out (n_op ns)) a) as [t|] eqn:Ea.
    + destruct (nthN (val_in do_) b) as [t'|] eqn:Eb.
      * intros _. rewrite (proj1 (kind_out_value _ _ _ Ea)). eexists. repeat split. left. exists ns, t. auto.
      * destruct (n_op ns); try discriminate. cbn in Ea. rewrite nthN_nil in Ea. discriminate.
    + destruct (n_op ns) eqn:Eo; try discriminate. destruct do_; try discriminate. intros H.
      apply andb_true_iff in H. destruct H as [H H3]. apply andb_true_iff in H. destruct H as [H1 H2].
      apply N.eqb_eq in H1. subst a. cbn. eexists. repeat split. now right.
  - intros H. apply andb_true_iff in H. destruct H as [H1 H2].
    rewrite (proj1 (kind_out_order _ H1)). eexists. repeat split.
Qed.

Lemma nonlocal_copyable_of tys st : LinkInv st -> SibLin tys st -> OrdSib st -> ConstLinks st ->
  r_nonlocal_copyable tys (to_serial st) = true.
Proof.
  intros LI SL OS CL. unfold r_nonlocal_copyable, no_code. apply forallb_forall. intros r Hr. apply negb_true_iff.
  destruct (classify tys (to_serial st) (redges (to_serial st)) r) eqn:Ec; try reflexivity. exfalso.
  apply classify_noncopyable_inv in Ec. destruct Ec as (fp & tp & Hps & Hpd & Hne & Hst & Hcp).
  unfold redges in Hr. apply in_flat_map in Hr. destruct Hr as (e' & He' & Hr).
  destruct (resolve (to_serial st) e') as [r'|] eqn:Er; [|destruct Hr]. destruct Hr as [<-|[]].
  rewrite to_serial_edges in He'. apply in_map_iff in He'. destruct He' as (e & <- & He).
  unfold LinkInv in LI. rewrite forallb_forall in LI.
  destruct (link_ok_kind _ _ (LI _ He)) as (r0 & Hr0 & Hs & Hd & Hk). rewrite Er in Hr0. inversion Hr0; subst r0; clear Hr0.
  rewrite Hs, Hd, !parent_of_serial in *.
  destruct (e_soff e) as [a|] eqn:Ea.
  - destruct Hk as [(nd & t & En & Et & Ek)|Hk]; [|congruence].
    specialize (Hcp _ Ek).
    assert (Hl : lin_at tys (s_nodes st) (e_src e, a) = true) by (unfold lin_at, type_at; cbn [fst snd]; now rewrite En, Et, Hcp).
    pose proof (SL e a He Ea Hl) as Q. congruence.
  - pose proof (OS e He Ea) as Q. congruence.
Qed.

(* ------------------------------------------------------------------ the theorems *)
Lemma exec_prog_sib tys p st : wt_prog tys p = true -> ord_prog p = true -> lin_prog tys p = true ->
  exec_prog tys p = Ok st -> SibLin tys st /\ OrdSib st.
Proof.
  destruct p as [ins body]. unfold wt_prog, ord_prog, lin_prog. intros W OD LN H.
  destruct (wt_region tys body ins []) as [[G' outs]|] eqn:WR; [|discriminate].
  destruct (ord_region body []) as [used'|] eqn:OR; [|discriminate].
  apply exec_prog_inv in H. destruct H as [e' H].
  destruct (exec_siblin tys) as (_ & MRr & _). destruct (exec_ordsib tys) as (_ & ORr & _).
  assert (P0 : Cpre (st0 ins) b0 e0).
  { constructor; [apply init_Inv|apply init_Abase|apply init_OpenB|apply init_EnvRange]. }
  split.
  - refine (proj1 (MRr _ _ _ _ _ _ _ _ _ _ _ H WR LN (init_Bpre tys ins) eq_refl _)). intros e a [].
  - refine (proj1 (ORr _ _ _ _ _ _ _ _ H OR P0 _)). intros e [].
Qed.

Theorem run_nonlocal_copyable tys p g : wf_prog tys p = true -> run tys p = Ok g -> r_nonlocal_copyable tys g = true.
Proof.
  unfold wf_prog, run. intros WF H. apply andb_true_iff in WF. destruct WF as [WF LN]. apply andb_true_iff in WF. destruct WF as [W OD].
  bd H. rename v into st. inversion H; subst; clear H.
  destruct (exec_prog_typed _ _ _ W E) as [LI _]. destruct (exec_prog_sib _ _ _ W OD LN E) as [SL OS].
  apply nonlocal_copyable_of; auto. eapply exec_prog_const_links; eauto.
Qed.

(* the goal of props/C01.v for the modelled language *)
Theorem run_valid tys p g : r_table tys = true -> wf_prog tys p = true -> run tys p = Ok g ->
  valid {| v_tys := tys; v_main := g; v_subs := [] |} = true.
Proof.
  intros T WF H. pose proof WF as WF'. unfold wf_prog in WF'.
  apply andb_true_iff in WF'. destruct WF' as [WF' LN]. apply andb_true_iff in WF'. destruct WF' as [W OD].
  destruct (run_structural _ _ _ H) as (R0 & R1 & R2).
  destruct (run_io_root_func _ _ _ H) as (R3 & R6 & R13 & R16).
  destruct (run_ports_kinds _ _ _ W H) as (R5 & R7 & R4 & R17).
  pose proof (run_inputs_once _ _ _ W H) as R8. pose proof (run_linear_once _ _ _ W LN H) as R9.
  pose proof (run_acyclic _ _ _ OD H) as R10. pose proof (run_nonlocal_copyable _ _ _ WF H) as R11.
  destruct (run_nonlocal tys _ _ H) as (R12 & R14 & R15).
  unfold valid, valid_graph, rules. cbn [v_tys v_main v_subs forallb].
  now rewrite T, R0, R1, R2, R3, R4, R5, R6, R7, R8, R9, R10, R11, R12, R13, R14, R15, R16, R17.
Qed.

Example ex2_wf : wf_prog ex2_tys ex2_prog = true /\ r_table ex2_tys = true.
Proof. split; vm_compute; reflexivity. Qed.
