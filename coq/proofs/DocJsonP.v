(* C03 — every document the model renders validates against the SerialHugr / Package shape, for ALL serial
   documents (hence for every HUGR the model serialises), relative to any schema file `root` whose OpType
   definition accepts the operation objects; and relative to a schema FILE whose definitions are those
   shapes up to norm / schema_equiv (def_matches, evaluated on the regenerated constants elsewhere). *)
From Coq Require Import List Bool ZArith String Ascii Arith Lia.
Import ListNotations.
From HV Require Import lib.Harness model.Schema model.SchemaStrip model.SerialHugr model.DocJson proofs.SchemaP
  proofs.SchemaStripP.
Open Scope string_scope.

Lemma forallb_map_true {A} (f : A -> json) (P : json -> bool) (l : list A) :
  (forall x, P (f x) = true) -> forallb P (map f l) = true.
Proof. intros H. induction l as [|x r IH]; cbn; [reflexivity|]. now rewrite H, IH. Qed.

(* ------------------------------------------------------------------ one schema object, sub-validation abstract *)
Section Objects.
  Variable V : json -> json -> bool.
  Variable root : json.

  Lemma chk_type_only t d : type_ok t d = true -> chk_object V root [("type", JStr t)] d = true.
  Proof. intros H. unfold chk_object. cbn. now rewrite H. Qed.
  Lemma chk_anyOf2_l a b d : V a d = true -> chk_object V root [("anyOf", JArr [a; b])] d = true.
  Proof. intros H. unfold chk_object. cbn. now rewrite H. Qed.
  Lemma chk_anyOf2_r a b d : V b d = true -> chk_object V root [("anyOf", JArr [a; b])] d = true.
  Proof. intros H. unfold chk_object. cbn. rewrite H. now destruct (V a d). Qed.
  Lemma chk_tuple2 a b x y : V a x = true -> V b y = true ->
    chk_object V root [("maxItems", JNum 2); ("minItems", JNum 2); ("prefixItems", JArr [a; b]); ("type", JStr "array")]
      (JArr [x; y]) = true.
  Proof. intros H1 H2. unfold chk_object. cbn. now rewrite H1, H2. Qed.
  Lemma chk_array_of it l : forallb (V it) l = true ->
    chk_object V root [("items", it); ("type", JStr "array")] (JArr l) = true.
  Proof. intros H. unfold chk_object. cbn. now rewrite H. Qed.
  Lemma chk_entry name d :
    chk_object V root [("$ref", JStr (ref_prefix ++ name))] d =
    match resolve root (ref_prefix ++ name) with Some s => V s d | None => false end.
  Proof. unfold chk_object. cbn. reflexivity. Qed.

  Lemma chk_SerialHugr ver ns es m e :
    V sch_version ver = true -> V sch_nodes ns = true -> V sch_edges es = true -> V sch_meta m = true ->
    V sch_encoder e = true ->
    chk_object V root shape_SerialHugr_members
      (JObj [("version", ver); ("nodes", ns); ("edges", es); ("metadata", m); ("encoder", e)]) = true.
  Proof.
    intros H1 H2 H3 H4 H5. unfold chk_object, shape_SerialHugr_members.
    cbn -[sch_version sch_nodes sch_edges sch_meta sch_encoder].
    now rewrite H1, H2, H3, H4, H5.
  Qed.
  Lemma chk_Package ms es :
    V sch_modules ms = true -> V sch_extensions es = true ->
    chk_object V root shape_Package_members (JObj [("modules", ms); ("extensions", es)]) = true.
  Proof.
    intros H1 H2. unfold chk_object, shape_Package_members. cbn -[sch_modules sch_extensions].
    now rewrite H1, H2.
  Qed.
End Objects.

(* `validates (S f) root (JObj kvs) d` is one chk_object *)
Lemma validates_S f root kvs d : validates (S f) root (JObj kvs) d = chk_object (validates f root) root kvs d.
Proof. reflexivity. Qed.

(* ------------------------------------------------------------------ the pieces of a document *)
Section Pieces.
  Variable root : json.
  Variables sop md : Type.
  Variable op_fields : sop -> obj.
  Variable md_fields : md -> obj.
  Variable encoder : option string.

  Lemma val_type f t d : type_ok t d = true -> validates (S f) root (sch_type t) d = true.
  Proof. intros H. unfold sch_type. rewrite validates_S. now apply chk_type_only. Qed.
  Lemma val_int f n : validates (S f) root sch_int (nat_json n) = true.
  Proof. now apply val_type. Qed.
  Lemma val_optint f (k : option nat) :
    validates (S (S f)) root sch_optint (match k with Some k => nat_json k | None => JNull end) = true.
  Proof.
    unfold sch_optint. rewrite validates_S. destruct k.
    - apply chk_anyOf2_l. apply val_int.
    - apply chk_anyOf2_r. now apply val_type.
  Qed.
  Lemma val_port f (p : sport) : validates (S (S (S f))) root sch_port (port_json p) = true.
  Proof.
    unfold sch_port, port_json. rewrite validates_S. apply chk_tuple2; [apply val_int|apply val_optint].
  Qed.
  Lemma val_edge f (e : sedge) : validates (S (S (S (S f)))) root sch_edge (edge_json e) = true.
  Proof. unfold sch_edge, edge_json. rewrite validates_S. apply chk_tuple2; apply val_port. Qed.
  Lemma val_edges f (es : list sedge) :
    validates (S (S (S (S (S f))))) root sch_edges (JArr (map edge_json es)) = true.
  Proof.
    unfold sch_edges, sch_array. rewrite validates_S. apply chk_array_of. apply forallb_map_true. intros e. apply val_edge.
  Qed.
  Lemma val_version f : validates (S f) root sch_version (JStr "live") = true.
  Proof. now apply val_type. Qed.
  Lemma val_mditem f (m : option md) : validates (S (S f)) root sch_mditem (md_json md_fields m) = true.
  Proof.
    unfold sch_mditem. rewrite validates_S. destruct m; [apply chk_anyOf2_l|apply chk_anyOf2_r]; now apply val_type.
  Qed.
  Lemma val_meta f (m : option (list (option md))) :
    validates (S (S (S (S f)))) root sch_meta (meta_json md_fields m) = true.
  Proof.
    unfold sch_meta. rewrite validates_S. destruct m as [l|]; [apply chk_anyOf2_l|apply chk_anyOf2_r; now apply val_type].
    unfold sch_array. rewrite validates_S. apply chk_array_of. apply forallb_map_true. intros x. apply val_mditem.
  Qed.
  Lemma val_encoder f : validates (S (S f)) root sch_encoder (str_opt_json encoder) = true.
  Proof.
    unfold sch_encoder. rewrite validates_S. destruct encoder; [apply chk_anyOf2_l|apply chk_anyOf2_r]; now apply val_type.
  Qed.

  (* the operation objects are what the file's OpType definition accepts, whatever the parent index *)
  Definition ops_valid (f : nat) : Prop :=
    forall (o : sop) (p : nat), accepts f root "OpType" (node_obj op_fields o p) = true.

  Lemma val_nodes f (ns : list (snode sop)) : ops_valid f ->
    validates (S f) root sch_nodes (JArr (map (node_json op_fields) ns)) = true.
  Proof.
    intros Hop. unfold sch_nodes, sch_array. rewrite validates_S. apply chk_array_of. apply forallb_map_true.
    intros n. apply Hop.
  Qed.

  (* against the shape: for every serial document *)
  Theorem doc_validates_shape : forall g (s : serial sop md),
    ops_valid (4 + g) ->
    validates (6 + g) root shape_SerialHugr (doc_json op_fields md_fields encoder s) = true.
  Proof.
    intros g s Hop. unfold shape_SerialHugr, doc_json. cbn [Nat.add]. rewrite validates_S. apply chk_SerialHugr.
    - apply val_version.
    - now apply val_nodes.
    - apply val_edges.
    - apply val_meta.
    - apply val_encoder.
  Qed.
End Pieces.

(* ------------------------------------------------------------------ against a schema file *)
(* a definition that matches a shape validates exactly like the shape *)
Lemma accepts_via_shape root name shape f d :
  def_matches root name shape = true -> self_equiv root = true ->
  accepts (S f) root name d = validates f root shape d.
Proof.
  unfold def_matches, self_equiv, accepts, entry. intros Hm Hr. rewrite validates_S, chk_entry.
  destruct (resolve root (ref_prefix ++ name)) as [s|]; [|discriminate].
  unfold canon in Hm, Hr.
  rewrite <- (norm_preserves_validation f root s), <- (norm_preserves_validation f root shape).
  rewrite <- (strip_preserves_validation f (norm root) (norm s)), <- (strip_preserves_validation f (norm root) (norm shape)).
  now apply schema_equiv_preserves_validation.
Qed.

Section File.
  Variable root : json.
  Hypothesis Hself : self_equiv root = true.
  Hypothesis Hdoc : def_matches root "SerialHugr" shape_SerialHugr = true.
  Variables sop md : Type.
  Variable op_fields : sop -> obj.
  Variable md_fields : md -> obj.

  Theorem doc_accepted : forall encoder f (s : serial sop md),
    4 <= f -> ops_valid root sop op_fields f ->
    accepts (3 + f) root "SerialHugr" (doc_json op_fields md_fields encoder s) = true.
  Proof.
    intros encoder f s Hf Hop. destruct f as [|[|[|[|g]]]]; try lia.
    change (3 + S (S (S (S g)))) with (S (6 + g)).
    rewrite (accepts_via_shape _ _ _ _ _ Hdoc Hself). now apply doc_validates_shape.
  Qed.

  Hypothesis Hpkg : def_matches root "Package" shape_Package = true.
  Theorem pkg_accepted : forall f (mods : list (serial sop md)) (exts : list json),
    4 <= f -> ops_valid root sop op_fields f ->
    (forall e, In e exts -> accepts (3 + f) root "Extension" e = true) ->
    accepts (6 + f) root "Package" (pkg_json op_fields md_fields mods exts) = true.
  Proof.
    intros f mods exts Hf Hop Hext. change (6 + f) with (S (S (S (3 + f)))).
    rewrite (accepts_via_shape _ _ _ _ _ Hpkg Hself). unfold shape_Package, pkg_json.
    rewrite validates_S. apply chk_Package.
    - unfold sch_modules, sch_array. rewrite validates_S. apply chk_array_of. apply forallb_map_true. intros s.
      now apply doc_accepted.
    - unfold sch_extensions, sch_array. rewrite validates_S. apply chk_array_of. apply forallb_forall. exact Hext.
  Qed.
End File.
