(* Proofs for C16: Node indexing equals Python's sequence semantics for every n >= 0 and every Z. *)
From Coq Require Import ZArith List Bool Lia.
Import ListNotations.
From HV Require Import model.NodeIndex spec.NodeIndexS.
Open Scope Z_scope.

Lemma or0_some s : or0 (Some s) = s.
Proof. destruct s; reflexivity. Qed.
Lemma or1_pos step : match step with None => True | Some s => 0 < s end -> or1 step = step_of step.
Proof. destruct step as [s|]; [|reflexivity]. cbn. destruct s; try reflexivity; lia. Qed.

Ltac cmp :=
  repeat match goal with
  | |- context [?a <? ?b] => destruct (Z.ltb_spec a b)
  | |- context [?a <=? ?b] => destruct (Z.leb_spec a b)
  | |- context [?a >=? ?b] => let E := fresh in destruct (a >=? b) eqn:E; [apply Z.geb_le in E | rewrite Z.geb_leb in E; apply Z.leb_gt in E]
  end; cbn [andb negb orb]; try reflexivity; try lia; try (f_equal; lia).

Theorem int_index_python n i : 0 <= n -> index_int (Some n) i = py_index n i.
Proof. intros Hn. unfold index_int, normalize, py_index. rewrite andb_true_r. cmp. Qed.

Theorem int_index_unknown i : index_int None i = if i <? 0 then Err IndexError else Ok i.
Proof. reflexivity. Qed.

Lemma normalize_start n start : 0 <= n ->
  normalize (Some n) (or0 start) true = if below n start then Err IndexError else Ok (adj n start 0).
Proof.
  intros Hn. destruct start as [s|]; [rewrite or0_some|]; unfold normalize, adj, below, or0;
    rewrite andb_false_r; cmp.
Qed.
Lemma normalize_stop n stop : 0 <= n ->
  normalize (Some n) (match stop with Some e => e | None => n end) true =
  if below n stop then Err IndexError else Ok (adj n stop n).
Proof. intros Hn. unfold normalize, adj, below. rewrite andb_false_r. destruct stop as [e|]; cmp. Qed.

Lemma zrange_bounds a b s j : 0 < s -> In j (zrange a b s) -> a <= j < b.
Proof.
  intros Hs Hin. unfold zrange in Hin. apply in_map_iff in Hin. destruct Hin as (k & <- & Hk).
  apply in_seq in Hk. destruct Hk as [_ Hk]. cbn in Hk.
  assert (Hq : Z.of_nat k < (b - a + s - 1) / s) by lia.
  pose proof (Z.mul_div_le (b - a + s - 1) s Hs). nia.
Qed.

Lemma mapM_id {A} (f : A -> res A) l : (forall x, In x l -> f x = Ok x) -> mapM f l = Ok l.
Proof.
  induction l as [|x r IH]; intros H; cbn; [reflexivity|].
  rewrite (H x) by now left. cbn. rewrite IH by (intros y Hy; apply H; now right). reflexivity.
Qed.

Lemma adj_range n x d : 0 <= n -> 0 <= d <= n -> 0 <= adj n x d <= n.
Proof. intros Hn Hd. unfold adj. destruct x as [v|]; [|assumption]. destruct (Z.ltb_spec v 0); lia. Qed.

(* full statement for slices: positive step, any bounds, any n >= 0 *)
Theorem slice_python n start stop step :
  0 <= n -> match step with None => True | Some s => 0 < s end ->
  index_slice (Some n) start stop step = slice_spec n start stop step.
Proof.
  intros Hn Hstep. unfold index_slice, slice_spec, py_slice.
  rewrite (or1_pos step Hstep).
  assert (Hpos : 0 < step_of step) by (destruct step; cbn; lia).
  replace (match stop with Some e => Some e | None => Some n end)
    with (Some (match stop with Some e => e | None => n end)) by (destruct stop; reflexivity).
  rewrite (normalize_start n start Hn), (normalize_stop n stop Hn).
  destruct (below n start); cbn [orb bind]; [reflexivity|].
  destruct (below n stop); cbn [bind]; [reflexivity|].
  apply mapM_id. intros j Hj. apply (zrange_bounds _ _ _ _ Hpos) in Hj.
  pose proof (adj_range n start 0 Hn ltac:(lia)). pose proof (adj_range n stop n Hn ltac:(lia)).
  rewrite int_index_python by assumption. unfold py_index. cmp.
Qed.

Lemma zrange_unit n : 0 <= n -> zrange 0 n 1 = map Z.of_nat (seq 0 (Z.to_nat n)).
Proof.
  intros Hn. unfold zrange. replace ((n - 0 + 1 - 1) / 1) with n by (rewrite Z.div_1_r; lia).
  apply map_ext. intros k. lia.
Qed.

Theorem iter_in_order n : 0 <= n -> iter_node (Some n) = Ok (map Z.of_nat (seq 0 (Z.to_nat n))).
Proof.
  intros Hn. unfold iter_node. rewrite slice_python by (cbn; auto; lia).
  unfold slice_spec, py_slice. cbn [below orb adj step_of]. now rewrite zrange_unit.
Qed.

Theorem iter_unknown : iter_node None = Err ValueError.
Proof. reflexivity. Qed.

Theorem tuple_index_python n xs : 0 <= n -> index_tuple (Some n) xs = mapM (py_index n) xs.
Proof.
  intros Hn. unfold index_tuple. induction xs as [|x r IH]; cbn [mapM]; [reflexivity|].
  now rewrite int_index_python, IH.
Qed.

(* the pointwise reading: the slice holds exactly the members of range(n)[start:stop:step] *)
Lemma zrange_mem a b s j : 0 < s -> (In j (zrange a b s) <-> a <= j < b /\ (j - a) mod s = 0).
Proof.
  intros Hs. split.
  - intros Hin. split; [eapply zrange_bounds; eassumption|].
    unfold zrange in Hin. apply in_map_iff in Hin. destruct Hin as (k & <- & _).
    replace (a + Z.of_nat k * s - a) with (Z.of_nat k * s) by lia. apply Z_mod_mult.
  - intros [Hb Hm]. unfold zrange. apply in_map_iff.
    apply Z.mod_divide in Hm; [|lia]. destruct Hm as [q Hq].
    assert (0 <= q) by nia.
    exists (Z.to_nat q). split; [lia|]. apply in_seq. split; [lia|]. cbn.
    assert (q < (b - a + s - 1) / s); [|lia].
    apply Z.lt_le_trans with (m := (q * s + s) / s).
    + rewrite Z.div_add_l by lia. rewrite Z.div_same by lia. lia.
    + apply Z.div_le_mono; lia.
Qed.

Theorem slice_members n start stop step j :
  0 <= n -> match step with None => True | Some s => 0 < s end ->
  below n start = false -> below n stop = false ->
  exists l, index_slice (Some n) start stop step = Ok l /\ (In j l <-> in_py_slice n start stop step j).
Proof.
  intros Hn Hstep Hs He. rewrite slice_python by assumption. unfold slice_spec. rewrite Hs, He. cbn [orb].
  eexists. split; [reflexivity|]. unfold py_slice, in_py_slice. apply zrange_mem. destruct step; cbn; lia.
Qed.

(* ports compare by node index, offset and direction only *)
Lemma port_eqb_spec a b : reflect (a = b) (port_eqb a b).
Proof.
  destruct a as [[i o] d], b as [[j p] e]. cbn.
  destruct (Z.eqb_spec i j); cbn; [|constructor; congruence].
  destruct (Z.eqb_spec o p); cbn; [|constructor; congruence].
  destruct (Bool.eqb_spec d e); constructor; congruence.
Qed.

(* ---- builder handles know their count ---- *)
Lemma item_len_nonneg args it n : item_len args it = Some n -> 0 <= n.
Proof.
  destruct it as [|i|i]; cbn.
  - intros [= <-]. lia.
  - destruct (nth_error args i) as [[|len]|]; try discriminate. intros [= <-]. lia.
  - destruct (nth_error args i) as [[|len]|]; try discriminate. intros [= <-]. lia.
Qed.
Lemma inst_len_nonneg args row : forall n, inst_len args row = Some n -> 0 <= n.
Proof.
  induction row as [|it r IH]; cbn; intros n H.
  - injection H as <-. lia.
  - destruct (item_len args it) as [a|] eqn:Ea; [|discriminate].
    destruct (inst_len args r) as [b|]; [|discriminate].
    injection H as <-. apply item_len_nonneg in Ea. specialize (IH b eq_refl). lia.
Qed.
(* no row variable, well-kinded: the instantiation keeps the arity of the body *)
Lemma inst_len_no_rows args row :
  (forall it, In it row -> item_len args it = Some 1) -> inst_len args row = Some (Z.of_nat (length row)).
Proof.
  induction row as [|it r IH]; intros H; [reflexivity|].
  cbn [inst_len length]. rewrite (H it (or_introl eq_refl)), IH by (intros x Hx; apply H; right; exact Hx).
  f_equal. lia.
Qed.
Lemma inst_len_app args r1 r2 :
  inst_len args (r1 ++ r2) =
  match inst_len args r1, inst_len args r2 with Some a, Some b => Some (a + b) | _, _ => None end.
Proof.
  induction r1 as [|it r IH]; cbn [app inst_len].
  - destruct (inst_len args r2); reflexivity.
  - rewrite IH. destruct (item_len args it), (inst_len args r), (inst_len args r2); try reflexivity.
    f_equal. lia.
Qed.
(* a row variable alone contributes exactly the length of its sequence argument *)
Lemma inst_len_row args i len : nth_error args i = Some (ASeq len) -> inst_len args [RRow i] = Some (Z.of_nat len).
Proof. intros H. cbn. rewrite H. f_equal. lia. Qed.

Theorem builder_count_spec s : shape_wf s = true ->
  exists n, 0 <= n /\ value_outputs s = Some n /\ builder_count s = Some n.
Proof.
  destruct s as [nin nout|k|k| |body args io|k|j r]; cbn [shape_wf value_outputs builder_count]; intros H.
  - apply andb_prop in H. destruct H as [_ H]. exists nout. split; [lia|split; reflexivity].
  - exists k. split; [lia|split; reflexivity].
  - exists 1. split; [lia|split; reflexivity].
  - exists 1. split; [lia|split; reflexivity].
  - destruct (inst_len args body) as [n|] eqn:E; [|discriminate]. apply Z.eqb_eq in H. subst io.
    exists n. split; [exact (inst_len_nonneg _ _ _ E)|split; reflexivity].
  - exists k. split; [lia|split; reflexivity].
  - apply andb_prop in H. destruct H as [H1 H2]. exists (j + r). split; [lia|split; reflexivity].
Qed.
Theorem builder_handle_iter s : shape_wf s = true ->
  exists n, value_outputs s = Some n /\ iter_node (builder_count s) = Ok (map Z.of_nat (seq 0 (Z.to_nat n))).
Proof.
  intros H. destruct (builder_count_spec s H) as (n & Hn & Hv & Hb). exists n. split; [exact Hv|].
  rewrite Hb. exact (iter_in_order n Hn).
Qed.
Theorem builder_handle_index s i : shape_wf s = true ->
  exists n, value_outputs s = Some n /\ index_int (builder_count s) i = py_index n i.
Proof.
  intros H. destruct (builder_count_spec s H) as (n & Hn & Hv & Hb). exists n. split; [exact Hv|].
  rewrite Hb. exact (int_index_python n i Hn).
Qed.

(* ---- one operation object used for several nodes: every handle carries the count AFTER its own wiring ---- *)
Lemma add_op_obj_spec o ws : use_wf (kind_of o) ws = true ->
  exists o' n, add_op_obj o ws = Ok (o', n) /\ kind_of o' = kind_of o /\
               use_outputs (kind_of o) ws = Some n /\ 0 <= n.
Proof.
  unfold use_wf. intros H. apply andb_prop in H. destruct H as [H Hu]. apply andb_prop in H. destruct H as [Hw Hk].
  destruct o as [t|t|t|b|m]; cbn [kind_of] in *.
  - destruct ws as [|[|k|a b] [|w2 r]]; try discriminate Hu.
    cbn in Hw. exists (OUnpack (Some k)), k. repeat split; try reflexivity.
    rewrite andb_true_r in Hw. apply Z.leb_le in Hw. exact Hw.
  - destruct ws as [|[|k|a b] r]; try discriminate Hu.
    cbn [use_outputs] in *. destruct (Z.of_nat (length r) =? a); [|discriminate Hu].
    exists (OCallInd (Some b)), b. repeat split; try reflexivity.
    cbn in Hw. apply andb_prop in Hw. destruct Hw as [Hw _]. apply andb_prop in Hw. destruct Hw as [_ Hb].
    apply Z.leb_le in Hb. exact Hb.
  - exists (OMake (Some (Z.of_nat (length ws)))), 1. repeat split; try reflexivity. lia.
  - destruct ws as [|w [|w2 r]]; try discriminate Hu.
    exists (ONoop true), 1. repeat split; try reflexivity. lia.
  - exists (OFixed m), m. repeat split; try reflexivity. apply Z.leb_le in Hk. exact Hk.
Qed.
Theorem reuse_counts_spec : forall uses o,
  Forall (fun ws => use_wf (kind_of o) ws = true) uses ->
  exists ns, reuse_counts o uses = Ok ns /\
             Forall2 (fun ws n => use_outputs (kind_of o) ws = Some n /\ 0 <= n) uses ns.
Proof.
  induction uses as [|ws r IH]; intros o H.
  - exists []. split; [reflexivity|constructor].
  - inversion H as [|x l Hws Hr]; subst.
    destruct (add_op_obj_spec o ws Hws) as (o' & n & Ha & Hk & Hu & Hn).
    rewrite <- Hk in Hr. destruct (IH o' Hr) as (ns & Hns & Hall).
    exists (n :: ns). split.
    + cbn [reuse_counts]. rewrite Ha. cbn [bind]. rewrite Hns. reflexivity.
    + constructor; [split; assumption|]. rewrite <- Hk. exact Hall.
Qed.
Lemma Forall2_nth_l {A B} (P : A -> B -> Prop) l1 l2 : Forall2 P l1 l2 ->
  forall j a, nth_error l1 j = Some a -> exists b, nth_error l2 j = Some b /\ P a b.
Proof.
  induction 1 as [|x y l1 l2 Hxy _ IH]; intros j a Hj.
  - destruct j; discriminate.
  - destruct j as [|j]; cbn in *.
    + injection Hj as <-. exists y. split; [reflexivity|exact Hxy].
    + exact (IH j a Hj).
Qed.
Theorem reused_op_handle_count o uses j ws :
  Forall (fun ws => use_wf (kind_of o) ws = true) uses -> nth_error uses j = Some ws ->
  exists n, 0 <= n /\ use_outputs (kind_of o) ws = Some n /\ reuse_count o uses j = Some n.
Proof.
  intros H Hj. destruct (reuse_counts_spec uses o H) as (ns & Hns & Hall).
  destruct (Forall2_nth_l _ _ _ Hall j ws Hj) as (n & Hn & Hu & H0).
  exists n. split; [exact H0|split; [exact Hu|]]. unfold reuse_count. rewrite Hns. exact Hn.
Qed.
Theorem reused_op_handle_iter o uses j ws :
  Forall (fun ws => use_wf (kind_of o) ws = true) uses -> nth_error uses j = Some ws ->
  exists n, use_outputs (kind_of o) ws = Some n /\
            iter_node (reuse_count o uses j) = Ok (map Z.of_nat (seq 0 (Z.to_nat n))).
Proof.
  intros H Hj. destruct (reused_op_handle_count o uses j ws H Hj) as (n & Hn & Hu & Hc).
  exists n. split; [exact Hu|]. rewrite Hc. exact (iter_in_order n Hn).
Qed.
Theorem reused_op_handle_index o uses j ws i :
  Forall (fun ws => use_wf (kind_of o) ws = true) uses -> nth_error uses j = Some ws ->
  exists n, use_outputs (kind_of o) ws = Some n /\ index_int (reuse_count o uses j) i = py_index n i.
Proof.
  intros H Hj. destruct (reused_op_handle_count o uses j ws H Hj) as (n & Hn & Hu & Hc).
  exists n. split; [exact Hu|]. rewrite Hc. exact (int_index_python n i Hn).
Qed.
(* the state the object was constructed in / left in by earlier uses does not matter *)
Corollary reused_op_count_history_free o1 o2 pre1 pre2 ws :
  kind_of o1 = kind_of o2 ->
  Forall (fun ws => use_wf (kind_of o1) ws = true) (pre1 ++ [ws]) ->
  Forall (fun ws => use_wf (kind_of o2) ws = true) (pre2 ++ [ws]) ->
  reuse_count o1 (pre1 ++ [ws]) (length pre1) = reuse_count o2 (pre2 ++ [ws]) (length pre2).
Proof.
  intros Hk H1 H2.
  assert (E1 : nth_error (pre1 ++ [ws]) (length pre1) = Some ws)
    by (rewrite nth_error_app2, Nat.sub_diag by lia; reflexivity).
  assert (E2 : nth_error (pre2 ++ [ws]) (length pre2) = Some ws)
    by (rewrite nth_error_app2, Nat.sub_diag by lia; reflexivity).
  destruct (reused_op_handle_count _ _ _ _ H1 E1) as (n1 & _ & Hu1 & Hc1).
  destruct (reused_op_handle_count _ _ _ _ H2 E2) as (n2 & _ & Hu2 & Hc2).
  rewrite Hc1, Hc2. rewrite Hk in Hu1. congruence.
Qed.
