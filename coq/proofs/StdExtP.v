(* C10 — theorems about the REGENERATED data (gen/StdExt.v is rewritten from the repository on every
   run; these proofs are re-checked against what is on disk now). *)
From Coq Require Import NArith ZArith List Bool Arith.
Import ListNotations.
From HV Require Import lib.PyDict lib.Harness model.Types model.ExtDefs spec.ExtDefsS proofs.ExtDefsP gen.StdExt.

(* the bundled directory and the specification directory hold the same *.json file names and every
   file has the same bytes *)
Lemma bundled_eq_spec_l : same_tree bundled_tree spec_tree = true.
Proof. vm_compute. reflexivity. Qed.
Lemma std_files_nonempty_l : (Nat.leb 1 (length spec_tree) && forallb (fun f : path * packed => N.ltb 0 (pk_len (snd f))) spec_tree) = true.
Proof. vm_compute. reflexivity. Qed.

Definition loads (d : path * jext) : bool :=
  match deserialize jid jid (snd d) with Ok _ => true | Err _ => false end.
Lemma std_loads_b : forallb loads std_docs = true.
Proof. vm_compute. reflexivity. Qed.
(* every bundled file loads; what it loads to holds only operations that name it as owner and requirement,
   and writing it back gives a document that is a fixed point of load-and-write *)
Lemma std_loads_l : forall d, In d std_docs ->
  exists e, deserialize jid jid (snd d) = Ok e /\ names_owner e /\
            exists s, to_serial jid jid e = Ok s /\ reload jid jid jid jid s = Ok s /\ s_names_owner s.
Proof.
  intros d Hin. pose proof (proj1 (forallb_forall _ _) std_loads_b d Hin) as H. unfold loads in H.
  destruct (deserialize jid jid (snd d)) as [e|] eqn:E; [|discriminate].
  exists e. split; [reflexivity|]. split; [eapply deserialize_names_owner; exact E|].
  eapply (reload_fixed_point jid jid jid jid); [reflexivity|reflexivity|exact E].
Qed.
(* one structured document per bundled file *)
Lemma std_docs_cover_l : map fst std_docs = map fst bundled_tree.
Proof. vm_compute. reflexivity. Qed.

Lemma helpers_denote_definitions_l : forallb (helper_ok (map snd std_docs)) std_helpers = true.
Proof. vm_compute. reflexivity. Qed.
Lemma helpers_nonempty_l :
  (existsb (fun h => match h_kind h with HType => true | _ => false end) std_helpers &&
   existsb (fun h => match h_kind h with HOp => true | _ => false end) std_helpers &&
   existsb (fun h => match h_kind h with HConst => true | _ => false end) std_helpers) = true.
Proof. vm_compute. reflexivity. Qed.
