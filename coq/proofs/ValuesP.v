(* Proofs for C14: constants inhabit the type they report. *)
From Coq Require Import ZArith NArith List Bool Arith Lia.
Import ListNotations.
From HV Require Import lib.Harness model.Types model.TypesEq model.Values spec.TypesS spec.ValuesS proofs.TypesP.

(* ------------------------------------------------------------------ structural equality of types *)
Lemma list_eqb_sound_F {A} (eqb : A -> A -> bool) l :
  Forall (fun a => forall b, eqb a b = true -> a = b) l -> forall m, list_eqb eqb l m = true -> l = m.
Proof.
  induction 1 as [|x r Hx _ IH]; intros [|y s]; cbn; try congruence.
  intros H. apply andb_true_iff in H as [H1 H2]. f_equal; auto.
Qed.
Lemma list_eqb_refl_F {A} (eqb : A -> A -> bool) l :
  Forall (fun a => eqb a a = true) l -> list_eqb eqb l l = true.
Proof. induction 1 as [|x r Hx _ IH]; cbn; [reflexivity|]. now rewrite Hx, IH. Qed.
Lemma N_list_eqb_eq (a b : list N) : list_eqb N.eqb a b = true <-> a = b.
Proof.
  split.
  - apply list_eqb_sound_F. apply Forall_forall. intros x _ y. apply N.eqb_eq.
  - intros <-. apply list_eqb_refl_F. apply Forall_forall. intros x _. apply N.eqb_refl.
Qed.

Section TPInd.
  Variable P : typaram -> Prop.
  Hypothesis H1 : forall b, P (PType b).
  Hypothesis H2 : forall u, P (PNat u).
  Hypothesis H3 : P PString.
  Hypothesis H4 : forall p, P p -> P (PList p).
  Hypothesis H5 : forall ps, Forall P ps -> P (PTuple ps).
  Hypothesis H6 : P PExts.
  Fixpoint typaram_ind2 (p : typaram) : P p :=
    let fix go (l : list typaram) : Forall P l :=
      match l with [] => Forall_nil _ | x :: r => Forall_cons x (typaram_ind2 x) (go r) end in
    match p with
    | PType b => H1 b | PNat u => H2 u | PString => H3 | PList q => H4 q (typaram_ind2 q)
    | PTuple ps => H5 ps (go ps) | PExts => H6
    end.
End TPInd.

Lemma typaram_eqb_tuple x y : typaram_eqb (PTuple x) (PTuple y) = list_eqb typaram_eqb x y.
Proof.
  simpl. revert y. induction x as [|a r IH]; intros [|b s]; try reflexivity. cbn [list_eqb]. now rewrite <- IH.
Qed.
Lemma typaram_eqb_eq : forall a b, typaram_eqb a b = true <-> a = b.
Proof.
  assert (S : forall a b, typaram_eqb a b = true -> a = b).
  { apply (typaram_ind2 (fun a => forall b, typaram_eqb a b = true -> a = b)).
    - intros b [] H; try discriminate. cbn in H. apply bound_eqb_eq in H. congruence.
    - intros u [] H; try discriminate. cbn in H. destruct u, ub; cbn in H; try discriminate; [|reflexivity].
      apply N.eqb_eq in H. congruence.
    - intros [] H; try discriminate. reflexivity.
    - intros p IH [] H; try discriminate. cbn in H. f_equal. now apply IH.
    - intros ps IH [] H; try discriminate. rewrite typaram_eqb_tuple in H. f_equal.
      now apply (list_eqb_sound_F _ _ IH).
    - intros [] H; try discriminate. reflexivity. }
  assert (R : forall a, typaram_eqb a a = true).
  { apply (typaram_ind2 (fun a => typaram_eqb a a = true)); try reflexivity.
    - intros []; reflexivity.
    - intros [u|]; cbn; [apply N.eqb_refl|reflexivity].
    - intros p IH. exact IH.
    - intros ps IH. rewrite typaram_eqb_tuple. now apply list_eqb_refl_F. }
  intros a b. split; [apply S|intros <-; apply R].
Qed.
Lemma typaram_list_eqb_eq (a b : list typaram) : list_eqb typaram_eqb a b = true <-> a = b.
Proof.
  split.
  - apply list_eqb_sound_F. apply Forall_forall. intros x _ y. apply typaram_eqb_eq.
  - intros <-. apply list_eqb_refl_F. apply Forall_forall. intros x _. now apply typaram_eqb_eq.
Qed.
Lemma defbound_eqb_iff a b : defbound_eqb a b = true <-> a = b.
Proof.
  split; [apply defbound_eqb_eq|]. intros <-. destruct a; cbn.
  - now apply bound_eqb_eq.
  - apply list_eqb_refl_F. apply Forall_forall. intros x _. apply Nat.eqb_refl.
Qed.
Lemma typedef_eqb_eq a b : typedef_eqb a b = true <-> a = b.
Proof.
  unfold typedef_eqb. rewrite !andb_true_iff, !N.eqb_eq, typaram_list_eqb_eq, defbound_eqb_iff.
  destruct a, b; cbn. split; [intros [[[[-> ->] ->] ->] ->]; reflexivity|intros H; injection H; auto].
Qed.
Lemma extclass_eqb_eq a b : extclass_eqb a b = true <-> a = b.
Proof. destruct a, b; cbn; try rewrite Nat.eqb_eq; split; congruence. Qed.

(* unfolding the local loops of ty_eqb *)
Lemma ty_eqb_rows x y : ty_eqb (TSum x) (TSum y) = list_eqb (list_eqb ty_eqb) x y.
Proof.
  simpl. revert y. induction x as [|a r IH]; intros [|b s]; try reflexivity. cbn [list_eqb]. rewrite <- IH. f_equal.
  clear. revert b. induction a as [|u v IHa]; intros [|w z]; try reflexivity. cbn [list_eqb]. now rewrite <- IHa.
Qed.
Lemma ty_eqb_func i o r i' o' r' :
  ty_eqb (TFunc i o r) (TFunc i' o' r') = list_eqb ty_eqb i i' && list_eqb ty_eqb o o' && list_eqb N.eqb r r'.
Proof.
  simpl. assert (H : forall a b, (fix row (l m : list ty) : bool :=
     match l, m with [], [] => true | x :: r, y :: s => ty_eqb x y && row r s | _, _ => false end) a b = list_eqb ty_eqb a b).
  { induction a as [|u v IHa]; intros [|w z]; try reflexivity. cbn [list_eqb]. now rewrite <- IHa. }
  now rewrite !H.
Qed.
Lemma ty_eqb_poly ps i o r ps' i' o' r' :
  ty_eqb (TPoly ps i o r) (TPoly ps' i' o' r') =
  list_eqb typaram_eqb ps ps' && list_eqb ty_eqb i i' && list_eqb ty_eqb o o' && list_eqb N.eqb r r'.
Proof.
  simpl. assert (H : forall a b, (fix row (l m : list ty) : bool :=
     match l, m with [], [] => true | x :: r, y :: s => ty_eqb x y && row r s | _, _ => false end) a b = list_eqb ty_eqb a b).
  { induction a as [|u v IHa]; intros [|w z]; try reflexivity. cbn [list_eqb]. now rewrite <- IHa. }
  now rewrite !H.
Qed.
Lemma args_eqb_unfold : forall a b, (fix args (l m : list tyarg) : bool :=
     match l, m with [], [] => true | x :: r, y :: s => tyarg_eqb x y && args r s | _, _ => false end) a b
     = list_eqb tyarg_eqb a b.
Proof. induction a as [|u v IHa]; intros [|w z]; try reflexivity. cbn [list_eqb]. now rewrite <- IHa. Qed.
Lemma ty_eqb_opaque e id x b e' id' y b' :
  ty_eqb (TOpaque e id x b) (TOpaque e' id' y b') = N.eqb e e' && N.eqb id id' && list_eqb tyarg_eqb x y && bound_eqb b b'.
Proof. simpl. now rewrite args_eqb_unfold. Qed.
Lemma ty_eqb_ext d x c d' y c' :
  ty_eqb (TExt d x c) (TExt d' y c') = typedef_eqb d d' && list_eqb tyarg_eqb x y && extclass_eqb c c'.
Proof. simpl. now rewrite args_eqb_unfold. Qed.
Lemma tyarg_eqb_seq x y : tyarg_eqb (ASeq x) (ASeq y) = list_eqb tyarg_eqb x y.
Proof. simpl. now rewrite args_eqb_unfold. Qed.

Lemma ty_eqb_sound : forall a b, ty_eqb a b = true -> a = b.
Proof.
  apply (ty_ind2 (fun a => forall b, ty_eqb a b = true -> a = b) (fun a => forall b, tyarg_eqb a b = true -> a = b)).
  - intros rs IH [] H; try discriminate. rewrite ty_eqb_rows in H. f_equal.
    revert H. apply list_eqb_sound_F. eapply Forall_impl; [|exact IH]. intros r Hr m. now apply list_eqb_sound_F.
  - intros n [] H; try discriminate. cbn in H. apply Nat.eqb_eq in H. congruence.
  - intros i b [] H; try discriminate. cbn in H. apply andb_true_iff in H as [H1 H2].
    apply Nat.eqb_eq in H1. apply bound_eqb_eq in H2. congruence.
  - intros i b [] H; try discriminate. cbn in H. apply andb_true_iff in H as [H1 H2].
    apply Nat.eqb_eq in H1. apply bound_eqb_eq in H2. congruence.
  - intros [] H; try discriminate. reflexivity.
  - intros [] H; try discriminate. reflexivity.
  - intros n b [] H; try discriminate. cbn in H. apply andb_true_iff in H as [H1 H2].
    apply N.eqb_eq in H1. apply bound_eqb_eq in H2. congruence.
  - intros i o r Hi Ho [] H; try discriminate. rewrite ty_eqb_func in H.
    apply andb_true_iff in H as [H H3]. apply andb_true_iff in H as [H1 H2].
    apply (list_eqb_sound_F _ _ Hi) in H1. apply (list_eqb_sound_F _ _ Ho) in H2. apply N_list_eqb_eq in H3. congruence.
  - intros ps i o r Hi Ho [] H; try discriminate. rewrite ty_eqb_poly in H.
    apply andb_true_iff in H as [H H3]. apply andb_true_iff in H as [H H2]. apply andb_true_iff in H as [H0 H1].
    apply (list_eqb_sound_F _ _ Hi) in H1. apply (list_eqb_sound_F _ _ Ho) in H2. apply N_list_eqb_eq in H3.
    apply typaram_list_eqb_eq in H0. congruence.
  - intros e id a b Ha [] H; try discriminate. rewrite ty_eqb_opaque in H.
    apply andb_true_iff in H as [H H3]. apply andb_true_iff in H as [H H2]. apply andb_true_iff in H as [H0 H1].
    apply N.eqb_eq in H0, H1. apply (list_eqb_sound_F _ _ Ha) in H2. apply bound_eqb_eq in H3. congruence.
  - intros d a c Ha [] H; try discriminate. rewrite ty_eqb_ext in H.
    apply andb_true_iff in H as [H H3]. apply andb_true_iff in H as [H1 H2].
    apply typedef_eqb_eq in H1. apply (list_eqb_sound_F _ _ Ha) in H2. apply extclass_eqb_eq in H3. congruence.
  - intros t IH [] H; try discriminate. cbn in H. f_equal. now apply IH.
  - intros n [] H; try discriminate. cbn in H. apply N.eqb_eq in H. congruence.
  - intros n [] H; try discriminate. cbn in H. apply N.eqb_eq in H. congruence.
  - intros l IH [] H; try discriminate. rewrite tyarg_eqb_seq in H. f_equal. now apply (list_eqb_sound_F _ _ IH).
  - intros es [] H; try discriminate. cbn in H. apply N_list_eqb_eq in H. congruence.
  - intros i p [] H; try discriminate. cbn in H. apply andb_true_iff in H as [H1 H2].
    apply Nat.eqb_eq in H1. apply typaram_eqb_eq in H2. congruence.
Qed.

Lemma ty_eqb_refl : forall a, ty_eqb a a = true.
Proof.
  apply (ty_ind2 (fun a => ty_eqb a a = true) (fun a => tyarg_eqb a a = true)).
  - intros rs IH. rewrite ty_eqb_rows. apply list_eqb_refl_F. eapply Forall_impl; [|exact IH].
    intros r Hr. now apply list_eqb_refl_F.
  - intros n. cbn. apply Nat.eqb_refl.
  - intros i b. cbn. rewrite Nat.eqb_refl. now apply bound_eqb_eq.
  - intros i b. cbn. rewrite Nat.eqb_refl. now apply bound_eqb_eq.
  - reflexivity.
  - reflexivity.
  - intros n b. cbn. rewrite N.eqb_refl. now apply bound_eqb_eq.
  - intros i o r Hi Ho. rewrite ty_eqb_func, (list_eqb_refl_F _ _ Hi), (list_eqb_refl_F _ _ Ho). now apply N_list_eqb_eq.
  - intros ps i o r Hi Ho. rewrite ty_eqb_poly, (list_eqb_refl_F _ _ Hi), (list_eqb_refl_F _ _ Ho).
    rewrite (proj2 (typaram_list_eqb_eq ps ps) eq_refl). now apply N_list_eqb_eq.
  - intros e id a b Ha. rewrite ty_eqb_opaque, !N.eqb_refl, (list_eqb_refl_F _ _ Ha). now apply bound_eqb_eq.
  - intros d a c Ha. rewrite ty_eqb_ext, (list_eqb_refl_F _ _ Ha), (proj2 (typedef_eqb_eq d d) eq_refl).
    now apply extclass_eqb_eq.
  - intros t IH. exact IH.
  - intros n. cbn. apply N.eqb_refl.
  - intros n. cbn. apply N.eqb_refl.
  - intros l IH. rewrite tyarg_eqb_seq. now apply list_eqb_refl_F.
  - intros es. cbn. now apply N_list_eqb_eq.
  - intros i p. cbn. rewrite Nat.eqb_refl. now apply typaram_eqb_eq.
Qed.

Lemma ty_eqb_eq a b : ty_eqb a b = true <-> a = b.
Proof. split; [apply ty_eqb_sound|intros <-; apply ty_eqb_refl]. Qed.
Lemma same_tyb_spec a b : same_tyb a b = true <-> same_ty a b.
Proof. apply ty_eqb_eq. Qed.
Lemma same_ty_refl a : same_ty a a.
Proof. reflexivity. Qed.
Lemma same_ty_sym a b : same_ty a b -> same_ty b a.
Proof. unfold same_ty. congruence. Qed.
Lemma same_ty_trans a b c : same_ty a b -> same_ty b c -> same_ty a c.
Proof. unfold same_ty. congruence. Qed.

(* ------------------------------------------------------------------ tnorm, unfolded *)
Lemma tnorm_sum rs : tnorm (TSum rs) = TSum (map (map tnorm) rs).
Proof. reflexivity. Qed.
Lemma tnorm_func i o r : tnorm (TFunc i o r) = TFunc (map tnorm i) (map tnorm o) r.
Proof. reflexivity. Qed.
Lemma tnorm_ext d a c :
  tnorm (TExt d a c) = TOpaque (td_ext d) (td_name d) (map anorm a)
                               (match tbound (TExt d a c) with Some b => b | None => Any end).
Proof. reflexivity. Qed.
Lemma same_ty_rows r1 r2 : Forall2 same_ty r1 r2 <-> map tnorm r1 = map tnorm r2.
Proof.
  split.
  - induction 1 as [|x y l m H _ IH]; cbn; [reflexivity|]. unfold same_ty in H. congruence.
  - revert r2. induction r1 as [|x l IH]; intros [|y m] H; cbn in H; try discriminate; constructor.
    + unfold same_ty. congruence.
    + apply IH. congruence.
Qed.
Lemma same_ty_tuple_inv row t : same_ty (TSum [row]) t ->
  exists row', sum_rows t = Some [row'] /\ Forall2 same_ty row row'.
Proof.
  unfold same_ty. rewrite tnorm_sum. cbn [map]. destruct t; try discriminate.
  - rewrite tnorm_sum. intros H. injection H as H. destruct rows as [|r [|? ?]]; cbn in H; try discriminate.
    injection H as H. exists r. split; [reflexivity|]. now apply same_ty_rows.
  - cbn. destruct n as [|[|n]]; cbn; try discriminate. intros H. injection H as H.
    exists []. split; [reflexivity|]. destruct row; [constructor|discriminate].
Qed.
Lemma same_ty_tuple_rows t row : sum_rows t = Some [row] -> same_ty (TSum [row]) t.
Proof.
  destruct t; try discriminate; cbn.
  - intros H. injection H as ->. reflexivity.
  - destruct n as [|[|n]]; cbn; try discriminate. intros H. injection H as <-. reflexivity.
Qed.

(* ------------------------------------------------------------------ induction principles *)
Section SInd.
  Variables (P : sval -> Prop) (Q : spayload -> Prop).
  Hypothesis HSum : forall tag typ vs, Forall P vs -> P (SSum tag typ vs).
  Hypothesis HTuple : forall vs, Forall P vs -> P (STuple vs).
  Hypothesis HFunc : forall d bi bo, P (SFunc d bi bo).
  Hypothesis HExt : forall nm typ p exts, Q p -> P (SExt nm typ p exts).
  Hypothesis HInt : forall w v, Q (SPInt w v).
  Hypothesis HFloat : Q SPFloat.
  Hypothesis HString : Q SPString.
  Hypothesis HSeq : forall vs elem, Forall P vs -> Q (SPSeq vs elem).
  Hypothesis HStatic : forall vs elem nm, Forall P vs -> Q (SPStatic vs elem nm).
  Hypothesis HOther : Q SPOther.
  Fixpoint sval_ind2 (s : sval) : P s :=
    let fix go (l : list sval) : Forall P l :=
      match l with [] => Forall_nil _ | x :: r => Forall_cons x (sval_ind2 x) (go r) end in
    match s with
    | SSum tag typ vs => HSum tag typ vs (go vs)
    | STuple vs => HTuple vs (go vs)
    | SFunc d bi bo => HFunc d bi bo
    | SExt nm typ p exts => HExt nm typ p exts (spayload_ind2 p)
    end
  with spayload_ind2 (p : spayload) : Q p :=
    let fix go (l : list sval) : Forall P l :=
      match l with [] => Forall_nil _ | x :: r => Forall_cons x (sval_ind2 x) (go r) end in
    match p with
    | SPInt w v => HInt w v | SPFloat => HFloat | SPString => HString
    | SPSeq vs elem => HSeq vs elem (go vs)
    | SPStatic vs elem nm => HStatic vs elem nm (go vs)
    | SPOther => HOther
    end.
End SInd.

Section EInd.
  Variable P : vexpr -> Prop.
  Hypothesis H1 : forall tag typ vs, Forall P vs -> P (ESum tag typ vs).
  Hypothesis H2 : forall tag n, P (EUnitSum tag n).
  Hypothesis H3 : forall b, P (EBool b).
  Hypothesis H4 : forall vs, Forall P vs -> P (ETuple vs).
  Hypothesis H5 : forall vs, Forall P vs -> P (ESome vs).
  Hypothesis H6 : forall ts, P (ENone ts).
  Hypothesis H7 : forall vs rts, Forall P vs -> P (ELeft vs rts).
  Hypothesis H8 : forall lts vs, Forall P vs -> P (ERight lts vs).
  Hypothesis H9 : forall sig, P (EFunc sig).
  Hypothesis H10 : forall nm typ exts, P (EExt nm typ exts).
  Hypothesis H11 : forall v w, P (EInt v w).
  Hypothesis H12 : P EFloat.
  Hypothesis H13 : P EString.
  Hypothesis H14 : forall vs elem, Forall P vs -> P (EArray vs elem).
  Hypothesis H15 : forall vs elem, Forall P vs -> P (EList vs elem).
  Hypothesis H16 : forall vs elem nm, Forall P vs -> P (EStatic vs elem nm).
  Fixpoint vexpr_ind2 (e : vexpr) : P e :=
    let fix go (l : list vexpr) : Forall P l :=
      match l with [] => Forall_nil _ | x :: r => Forall_cons x (vexpr_ind2 x) (go r) end in
    match e with
    | ESum tag typ vs => H1 tag typ vs (go vs) | EUnitSum tag n => H2 tag n | EBool b => H3 b
    | ETuple vs => H4 vs (go vs) | ESome vs => H5 vs (go vs) | ENone ts => H6 ts
    | ELeft vs rts => H7 vs rts (go vs) | ERight lts vs => H8 lts vs (go vs)
    | EFunc sig => H9 sig | EExt nm typ exts => H10 nm typ exts | EInt v w => H11 v w
    | EFloat => H12 | EString => H13
    | EArray vs elem => H14 vs elem (go vs) | EList vs elem => H15 vs elem (go vs)
    | EStatic vs elem nm => H16 vs elem nm (go vs)
    end.
End EInd.

(* ------------------------------------------------------------------ reflection of the judgment *)
Lemma forall2b_spec {A B} (f : A -> B -> bool) (R : A -> B -> Prop) l :
  Forall (fun x => forall y, f x y = true <-> R x y) l -> forall m, forall2b f l m = true <-> Forall2 R l m.
Proof.
  induction 1 as [|x r Hx _ IH]; intros [|y s]; cbn; try (split; [discriminate|intros H; inversion H]).
  - split; constructor.
  - rewrite andb_true_iff, Hx, IH. split; [intros []; constructor; auto|intros H; inversion H; auto].
Qed.

Section Refl.
  Variable std : stddefs.
  Definition payload_b (nm : cname) (typ : ty) (p : spayload) (exts : list name) : bool :=
    match nm, p with
    | CInt, SPInt w v => Nat.leb w 6 && same_tyb typ (s_int std w) && has_ext (td_ext (d_int std)) exts
    | CF64, SPFloat => same_tyb typ (s_float std) && has_ext (td_ext (d_float std)) exts
    | CString, SPString => same_tyb typ (s_string std) && has_ext (td_ext (d_string std)) exts
    | CArray, SPSeq vs elem =>
        same_tyb typ (s_array std (length vs) elem) && forallb (fun v => has_type_b std v elem) vs &&
        has_ext (td_ext (d_array std)) exts
    | CList, SPSeq vs elem =>
        same_tyb typ (s_list std elem) && forallb (fun v => has_type_b std v elem) vs && has_ext (td_ext (d_list std)) exts
    | CStatic, SPStatic vs elem _ =>
        same_tyb typ (s_static std elem) && forallb (fun v => has_type_b std v elem) vs &&
        has_ext (td_ext (d_static std)) exts
    | COther _, SPOther => true
    | _, _ => false
    end.

  Lemma all2_unfold : forall vs row,
    (fix all2 (vs : list sval) (row : list ty) {struct vs} : bool :=
       match vs, row with
       | [], [] => true
       | v :: vr, t' :: tr => has_type_b std v t' && all2 vr tr
       | _, _ => false
       end) vs row = forall2b (has_type_b std) vs row.
  Proof. induction vs as [|v r IH]; intros [|t tr]; try reflexivity. cbn [forall2b]. now rewrite <- IH. Qed.
  Lemma alle_unfold : forall vs elem,
    (fix alle (vs : list sval) (elem : ty) {struct vs} : bool :=
       match vs with [] => true | v :: r => has_type_b std v elem && alle r elem end) vs elem
    = forallb (fun v => has_type_b std v elem) vs.
  Proof. induction vs as [|v r IH]; intros elem; [reflexivity|]. cbn [forallb]. now rewrite <- IH. Qed.

  Lemma has_type_b_sum tag typ vs t :
    has_type_b std (SSum tag typ vs) t =
    same_tyb typ t && match sum_rows typ with
                      | Some rows => match nth_error rows tag with Some row => forall2b (has_type_b std) vs row | None => false end
                      | None => false
                      end.
  Proof. simpl. destruct (sum_rows typ); [|reflexivity]. destruct (nth_error l tag); [|reflexivity]. now rewrite all2_unfold. Qed.
  Lemma has_type_b_tuple vs t :
    has_type_b std (STuple vs) t = match sum_rows t with Some [row] => forall2b (has_type_b std) vs row | _ => false end.
  Proof. simpl. destruct (sum_rows t) as [[|row [|? ?]]|]; try reflexivity. now rewrite all2_unfold. Qed.
  Lemma has_type_b_ext nm typ p exts t :
    has_type_b std (SExt nm typ p exts) t = same_tyb typ t && payload_b nm typ p exts.
  Proof. simpl. unfold payload_b. destruct nm, p; try reflexivity; now rewrite alle_unfold. Qed.

  Lemma has_ext_spec e exts : has_ext e exts = true <-> In e exts.
  Proof.
    unfold has_ext. induction exts as [|x r IH]; cbn; [split; [discriminate|tauto]|].
    rewrite orb_true_iff, IH, N.eqb_eq. split; intros [H|H]; auto.
  Qed.
  Lemma rows_sameb_spec a b : rows_sameb a b = true <-> rows_same a b.
  Proof.
    unfold rows_sameb, rows_same. revert b. induction a as [|x r IH]; intros [|y s]; cbn;
      try (split; [discriminate|intros H; inversion H]).
    - split; constructor.
    - rewrite andb_true_iff, same_tyb_spec, IH. split; [intros []; constructor; auto|intros H; inversion H; auto].
  Qed.

  Lemma Forall2_conv (vs : list sval) : 
    Forall (fun s => forall t t', has_type std s t -> same_ty t t' -> has_type std s t') vs ->
    forall row row', Forall2 (has_type std) vs row -> Forall2 same_ty row row' -> Forall2 (has_type std) vs row'.
  Proof.
    induction 1 as [|v r Hv _ IH]; intros row row' H1 H2; inversion H1; subst; inversion H2; subst; constructor; eauto.
  Qed.
  Lemma has_type_conv : forall s t t', has_type std s t -> same_ty t t' -> has_type std s t'.
  Proof.
    apply (sval_ind2 (fun s => forall t t', has_type std s t -> same_ty t t' -> has_type std s t') (fun _ => True));
      try exact I; try (intros; exact I).
    - intros tag typ vs _ t t' H E. inversion H; subst. eapply HT_sum; eauto. eapply same_ty_trans; eauto.
    - intros vs IH t t' H E. inversion H; subst.
      destruct (same_ty_tuple_inv row t') as [row' [Hr Hs]].
      { eapply same_ty_trans; [|exact E]. now apply same_ty_tuple_rows. }
      eapply HT_tuple; [exact Hr|]. eapply Forall2_conv; eauto.
    - intros d bi bo t t' H E. inversion H; subst. apply HT_func; auto. eapply same_ty_trans; eauto.
    - intros nm typ p exts _ t t' H E. inversion H; subst. apply HT_ext; auto. eapply same_ty_trans; eauto.
  Qed.

  (* has_type_b decides has_type *)
  Theorem has_type_b_spec : forall s t, has_type_b std s t = true <-> has_type std s t.
  Proof.
    apply (sval_ind2 (fun s => forall t, has_type_b std s t = true <-> has_type std s t)
                     (fun p => forall nm typ exts, payload_b nm typ p exts = true <-> payload_ok std nm typ p exts)).
    - intros tag typ vs IH t. rewrite has_type_b_sum, andb_true_iff, same_tyb_spec. split.
      + intros [E H]. destruct (sum_rows typ) as [rows|] eqn:Er; [|discriminate].
        destruct (nth_error rows tag) as [row|] eqn:En; [|discriminate].
        eapply HT_sum; eauto. now apply (forall2b_spec _ _ _ IH).
      + intros H. inversion H; subst. split; [assumption|].
        match goal with Hr : sum_rows typ = _ |- _ => rewrite Hr end.
        match goal with Hn : nth_error _ tag = _ |- _ => rewrite Hn end.
        now apply (forall2b_spec _ _ _ IH).
    - intros vs IH t. rewrite has_type_b_tuple. split.
      + intros H. destruct (sum_rows t) as [[|row [|? ?]]|] eqn:Er; try discriminate.
        eapply HT_tuple; eauto. now apply (forall2b_spec _ _ _ IH).
      + intros H. inversion H; subst.
        match goal with Hr : sum_rows t = _ |- _ => rewrite Hr end. now apply (forall2b_spec _ _ _ IH).
    - intros d bi bo t. cbn [has_type_b]. rewrite !andb_true_iff, same_tyb_spec, !rows_sameb_spec. split.
      + intros [[H1 H2] H3]. now apply HT_func.
      + intros H. inversion H; subst. auto.
    - intros nm typ p exts IH t. rewrite has_type_b_ext, andb_true_iff, same_tyb_spec, IH. split.
      + intros [H1 H2]. now apply HT_ext.
      + intros H. inversion H; subst. auto.
    - intros w v nm typ exts. destruct nm; cbn [payload_b]; try (split; [discriminate|intros H; inversion H]).
      rewrite !andb_true_iff, Nat.leb_le, same_tyb_spec, has_ext_spec. split.
      + intros [[H1 H2] H3]. now constructor.
      + intros H. inversion H; subst. auto.
    - intros nm typ exts. destruct nm; cbn [payload_b]; try (split; [discriminate|intros H; inversion H]).
      rewrite !andb_true_iff, same_tyb_spec, has_ext_spec. split.
      + intros [H2 H3]. now constructor.
      + intros H. inversion H; subst. auto.
    - intros nm typ exts. destruct nm; cbn [payload_b]; try (split; [discriminate|intros H; inversion H]).
      rewrite !andb_true_iff, same_tyb_spec, has_ext_spec. split.
      + intros [H2 H3]. now constructor.
      + intros H. inversion H; subst. auto.
    - intros vs elem IH nm typ exts.
      assert (Hall : forallb (fun v => has_type_b std v elem) vs = true <-> Forall (fun v => has_type std v elem) vs).
      { rewrite forallb_forall, Forall_forall. rewrite Forall_forall in IH.
        split; intros H v Hv; apply (IH v Hv), H, Hv. }
      destruct nm; cbn [payload_b]; try (split; [discriminate|intros H; inversion H]).
      + rewrite !andb_true_iff, same_tyb_spec, has_ext_spec, Hall. split.
        * intros [[H1 H2] H3]. now constructor.
        * intros H. inversion H; subst. auto.
      + rewrite !andb_true_iff, same_tyb_spec, has_ext_spec, Hall. split.
        * intros [[H1 H2] H3]. now constructor.
        * intros H. inversion H; subst. auto.
    - intros vs elem n IH nm typ exts.
      assert (Hall : forallb (fun v => has_type_b std v elem) vs = true <-> Forall (fun v => has_type std v elem) vs).
      { rewrite forallb_forall, Forall_forall. rewrite Forall_forall in IH.
        split; intros H v Hv; apply (IH v Hv), H, Hv. }
      destruct nm; cbn [payload_b]; try (split; [discriminate|intros H; inversion H]).
      rewrite !andb_true_iff, same_tyb_spec, has_ext_spec, Hall. split.
      + intros [[H1 H2] H3]. now constructor.
      + intros H. inversion H; subst. auto.
    - intros nm typ exts. destruct nm; cbn [payload_b]; try (split; [discriminate|intros H; inversion H]).
      split; [intros _; constructor|reflexivity].
  Qed.
End Refl.

(* ------------------------------------------------------------------ spellings: the judgment does not see them *)
Definition gpay (p : spayload) : spayload :=
  match p with
  | SPSeq vs elem => SPSeq (map (fun v => general v elem) vs) elem
  | SPStatic vs elem n => SPStatic (map (fun v => general v elem) vs) elem n
  | _ => p
  end.
Lemma gzip_unfold : forall vs row,
  (fix zip (vs : list sval) (row : list ty) {struct vs} : list sval :=
     match vs, row with
     | v :: vr, t' :: tr => general v t' :: zip vr tr
     | _, _ => vs
     end) vs row = gzip general vs row.
Proof. induction vs as [|v r IH]; intros [|t tr]; try reflexivity. cbn [gzip]. now rewrite <- IH. Qed.
Lemma each_unfold : forall vs elem,
  (fix each (vs : list sval) (elem : ty) {struct vs} : list sval :=
     match vs with [] => [] | v :: r => general v elem :: each r elem end) vs elem
  = map (fun v => general v elem) vs.
Proof. induction vs as [|v r IH]; intros elem; [reflexivity|]. cbn [map]. now rewrite <- IH. Qed.
Lemma general_sum tag typ vs t :
  general (SSum tag typ vs) t =
  SSum tag typ match sum_rows typ with
               | Some rows => match nth_error rows tag with Some row => gzip general vs row | None => vs end
               | None => vs
               end.
Proof. simpl. destruct (sum_rows typ); [|reflexivity]. destruct (nth_error l tag); [|reflexivity]. now rewrite gzip_unfold. Qed.
Lemma general_tuple vs t :
  general (STuple vs) t = match sum_rows t with Some [row] => SSum 0 t (gzip general vs row) | _ => STuple vs end.
Proof. simpl. destruct (sum_rows t) as [[|row [|? ?]]|]; try reflexivity. now rewrite gzip_unfold. Qed.
Lemma general_ext nm typ p exts t : general (SExt nm typ p exts) t = SExt nm typ (gpay p) exts.
Proof. simpl. destruct p; try reflexivity; now rewrite each_unfold. Qed.

Section Spell.
  Variable std : stddefs.
  Lemma gzip_has_type vs :
    Forall (fun s => forall t, has_type_b std (general s t) t = has_type_b std s t) vs ->
    forall row, forall2b (has_type_b std) (gzip general vs row) row = forall2b (has_type_b std) vs row.
  Proof.
    induction 1 as [|v r Hv _ IH]; intros [|t tr]; try reflexivity.
    cbn [gzip forall2b]. now rewrite Hv, IH.
  Qed.
  Lemma each_has_type vs elem :
    Forall (fun s => forall t, has_type_b std (general s t) t = has_type_b std s t) vs ->
    forallb (fun v => has_type_b std v elem) (map (fun v => general v elem) vs) = forallb (fun v => has_type_b std v elem) vs.
  Proof. induction 1 as [|v r Hv _ IH]; [reflexivity|]. cbn [map forallb]. now rewrite Hv, IH. Qed.

  (* the general spelling of a value inhabits exactly the types the value as written inhabits: the Tuple shorthand
     and the tag-0 sum value carrying the one-row sum type are one value to the judgment *)
  Theorem general_has_type_b : forall s t, has_type_b std (general s t) t = has_type_b std s t.
  Proof.
    apply (sval_ind2 (fun s => forall t, has_type_b std (general s t) t = has_type_b std s t)
                     (fun p => forall nm typ exts, payload_b std nm typ (gpay p) exts = payload_b std nm typ p exts)).
    - intros tag typ vs IH t. rewrite general_sum, !has_type_b_sum.
      destruct (sum_rows typ) as [rows|]; [|reflexivity]. destruct (nth_error rows tag) as [row|]; [|reflexivity].
      now rewrite (gzip_has_type vs IH).
    - intros vs IH t. rewrite general_tuple, has_type_b_tuple.
      destruct (sum_rows t) as [[|row [|? ?]]|] eqn:Er; try (rewrite has_type_b_tuple, Er; reflexivity).
      rewrite has_type_b_sum, Er. cbn [nth_error]. rewrite (gzip_has_type vs IH).
      assert (E : same_tyb t t = true) by (apply same_tyb_spec, same_ty_refl). now rewrite E.
    - reflexivity.
    - intros nm typ p exts IH t. now rewrite general_ext, !has_type_b_ext, IH.
    - reflexivity.
    - reflexivity.
    - reflexivity.
    - intros vs elem IH nm typ exts. cbn [gpay]. destruct nm; cbn [payload_b]; try reflexivity;
        now rewrite ?map_length, (each_has_type vs elem IH).
    - intros vs elem n IH nm typ exts. cbn [gpay]. destruct nm; cbn [payload_b]; try reflexivity;
        now rewrite (each_has_type vs elem IH).
    - reflexivity.
  Qed.
  Theorem general_has_type s t : has_type std (general s t) t <-> has_type std s t.
  Proof. rewrite <- !has_type_b_spec, general_has_type_b. reflexivity. Qed.

  (* the two spellings of a tuple *)
  Corollary tuple_spellings vs row t :
    sum_rows t = Some [row] -> (has_type std (STuple vs) t <-> has_type std (SSum 0 t vs) t).
  Proof.
    intros Er. rewrite <- !has_type_b_spec, has_type_b_tuple, has_type_b_sum, Er. cbn [nth_error].
    assert (E : same_tyb t t = true) by (apply same_tyb_spec, same_ty_refl). now rewrite E.
  Qed.
End Spell.

(* ------------------------------------------------------------------ the constructors are well typed *)
Section Main.
  Variable std : stddefs.
  Local Notation std_ok := (std_ok std).
  Local Notation field_ok := (field_ok std).
  Local Notation wf_expr := (wf_expr std).
  Lemma tys_unfold : forall l,
    (fix tys (l : list vexpr) : option (list ty) :=
       match l with
       | [] => Some []
       | x :: r => match type_of std x, tys r with Some t, Some ts => Some (t :: ts) | _, _ => None end
       end) l = types_of std l.
  Proof. induction l as [|x r IH]; [reflexivity|]. unfold types_of in *. cbn [mapO]. now rewrite <- IH. Qed.
  Lemma sers_unfold : forall l,
    (fix sers (l : list vexpr) : option (list sval) :=
       match l with
       | [] => Some []
       | x :: r => match ser std x, sers r with Some s, Some ss => Some (s :: ss) | _, _ => None end
       end) l = mapO (ser std) l.
  Proof. induction l as [|x r IH]; [reflexivity|]. cbn [mapO]. now rewrite <- IH. Qed.

  Lemma mapO_length {A B} (f : A -> option B) l ys : mapO f l = Some ys -> length ys = length l.
  Proof. intros H. apply mapO_Forall2 in H. induction H; cbn; congruence. Qed.

  Definition WT (x : vexpr) : Prop :=
    wf_expr x = true -> forall t s, type_of std x = Some t -> ser std x = Some s -> has_type std s t.

  Lemma fields_typed vs : Forall WT vs -> forallb wf_expr vs = true ->
    forall ts ss, types_of std vs = Some ts -> mapO (ser std) vs = Some ss -> Forall2 (has_type std) ss ts.
  Proof.
    unfold types_of. induction 1 as [|x r Hx _ IH]; cbn [forallb mapO]; intros Hw ts ss Ht Hs.
    - injection Ht as <-. injection Hs as <-. constructor.
    - apply andb_true_iff in Hw as [Hw1 Hw2].
      destruct (type_of std x) as [t|] eqn:Et; [|discriminate]. destruct (mapO (type_of std) r) as [ts'|]; [|discriminate].
      destruct (ser std x) as [s|] eqn:Es; [|discriminate]. destruct (mapO (ser std) r) as [ss'|]; [|discriminate].
      injection Ht as <-. injection Hs as <-. constructor; auto.
  Qed.
  (* caller-chosen field types: each value's reported type is the expected one *)
  Lemma fields_checked vs : Forall WT vs -> forallb wf_expr vs = true ->
    forall row ss, forall2b field_ok vs row = true -> mapO (ser std) vs = Some ss -> Forall2 (has_type std) ss row.
  Proof.
    induction 1 as [|x r Hx _ IH]; cbn [forallb mapO forall2b]; intros Hw row ss Hf Hs.
    - destruct row; [|discriminate]. injection Hs as <-. constructor.
    - destruct row as [|t row]; [discriminate|]. apply andb_true_iff in Hw as [Hw1 Hw2].
      apply andb_true_iff in Hf as [Hf1 Hf2]. unfold ValuesS.field_ok in Hf1.
      destruct (type_of std x) as [t'|] eqn:Et; [|discriminate]. apply same_tyb_spec in Hf1.
      destruct (ser std x) as [s|] eqn:Es; [|discriminate]. destruct (mapO (ser std) r) as [ss'|]; [|discriminate].
      injection Hs as <-. constructor; [|now apply IH].
      eapply has_type_conv; [|exact Hf1]. now apply Hx.
  Qed.
  Lemma elems_checked vs elem : Forall WT vs -> forallb wf_expr vs = true ->
    forallb (fun x => field_ok x elem) vs = true ->
    forall ss, mapO (ser std) vs = Some ss -> Forall (fun v => has_type std v elem) ss.
  Proof.
    induction 1 as [|x r Hx _ IH]; cbn [forallb mapO]; intros Hw Hf ss Hs.
    - injection Hs as <-. constructor.
    - apply andb_true_iff in Hw as [Hw1 Hw2]. apply andb_true_iff in Hf as [Hf1 Hf2]. unfold ValuesS.field_ok in Hf1.
      destruct (type_of std x) as [t'|] eqn:Et; [|discriminate]. apply same_tyb_spec in Hf1.
      destruct (ser std x) as [s|] eqn:Es; [|discriminate]. destruct (mapO (ser std) r) as [ss'|]; [|discriminate].
      injection Hs as <-. constructor; [|now apply IH].
      eapply has_type_conv; [|exact Hf1]. now apply Hx.
  Qed.

  Lemma nth_error_repeat {A} (x : A) n k : k < n -> nth_error (repeat x n) k = Some x.
  Proof. revert k. induction n as [|n IH]; intros [|k] H; cbn; try lia; [reflexivity|]. apply IH. lia. Qed.
  Lemma rows_same_refl l : rows_same l l.
  Proof. induction l; constructor; auto. reflexivity. Qed.

  (* the std collection types: the subclass's type and the definition-driven one are the same type *)
  Lemma array_same n elem : std_ok -> same_ty (array_t std n elem) (s_array std n elem).
  Proof.
    intros [H _]. unfold same_ty, array_t, s_array. rewrite !tnorm_ext. f_equal.
    pose proof (elem_agrees_from_params (d_array std) 1 [ANat (N.of_nat n)] elem [] eq_refl H) as E.
    cbn [app] in E. now rewrite E.
  Qed.
  Lemma list_same elem : std_ok -> same_ty (list_t std elem) (s_list std elem).
  Proof.
    intros [_ [H _]]. unfold same_ty, list_t, s_list. rewrite !tnorm_ext. f_equal.
    pose proof (elem_agrees_from_params (d_list std) 0 [] elem [] eq_refl H) as E.
    cbn [app] in E. now rewrite E.
  Qed.
  Lemma static_same elem : std_ok -> static_array_accepts elem = Some true ->
    same_ty (static_t std elem) (s_static std elem).
  Proof.
    intros [_ [_ H]] Ha. unfold same_ty, static_t, s_static. rewrite !tnorm_ext. f_equal.
    now rewrite (proj1 (elem_agrees_explicit (d_static std) elem H Ha)).
  Qed.

  Theorem expr_well_typed : std_ok -> forall e, WT e.
  Proof.
    intros Hstd. apply vexpr_ind2; unfold WT.
    - (* raw Sum *) intros tag typ vs IH Hw t s Ht Hs. cbn in Ht. injection Ht as <-.
      cbn [ser] in Hs. rewrite sers_unfold in Hs. destruct (mapO (ser std) vs) as [ss|] eqn:Ess; [|discriminate].
      injection Hs as <-. cbn [ValuesS.wf_expr] in Hw. apply andb_true_iff in Hw as [Hw1 Hw2].
      destruct (sum_rows typ) as [rows|] eqn:Er; [|discriminate].
      destruct (nth_error rows tag) as [row|] eqn:En; [|discriminate].
      eapply HT_sum; eauto using same_ty_refl. eapply fields_checked; eauto.
    - intros tag n Hw t s Ht Hs. cbn in Ht, Hs, Hw. injection Ht as <-. injection Hs as <-.
      apply Nat.ltb_lt in Hw. eapply HT_sum; [apply same_ty_refl|reflexivity|now apply nth_error_repeat|constructor].
    - intros b _ t s Ht Hs. cbn in Ht, Hs. injection Ht as <-. injection Hs as <-.
      eapply HT_sum; [apply same_ty_refl|reflexivity| |constructor]. destruct b; reflexivity.
    - (* Tuple *) intros vs IH Hw t s Ht Hs. cbn [type_of ser ValuesS.wf_expr] in *. rewrite tys_unfold in Ht. rewrite sers_unfold in Hs.
      destruct (types_of std vs) as [ts|] eqn:Ets; [|discriminate]. destruct (mapO (ser std) vs) as [ss|] eqn:Ess; [|discriminate].
      injection Ht as <-. injection Hs as <-. eapply HT_tuple; [reflexivity|]. eapply fields_typed; eauto.
    - (* Some *) intros vs IH Hw t s Ht Hs. cbn [type_of ser ValuesS.wf_expr] in *. rewrite tys_unfold in Ht. rewrite sers_unfold in Hs.
      destruct (types_of std vs) as [ts|] eqn:Ets; [|discriminate]. destruct (mapO (ser std) vs) as [ss|] eqn:Ess; [|discriminate].
      injection Ht as <-. injection Hs as <-.
      eapply HT_sum; [apply same_ty_refl|reflexivity|reflexivity|]. eapply fields_typed; eauto.
    - intros ts _ t s Ht Hs. cbn in Ht, Hs. injection Ht as <-. injection Hs as <-.
      eapply HT_sum; [apply same_ty_refl|reflexivity|reflexivity|constructor].
    - (* Left *) intros vs rts IH Hw t s Ht Hs. cbn [type_of ser ValuesS.wf_expr] in *. rewrite tys_unfold in Ht. rewrite sers_unfold in Hs.
      destruct (types_of std vs) as [ts|] eqn:Ets; [|discriminate]. destruct (mapO (ser std) vs) as [ss|] eqn:Ess; [|discriminate].
      injection Ht as <-. injection Hs as <-.
      eapply HT_sum; [apply same_ty_refl|reflexivity|reflexivity|]. eapply fields_typed; eauto.
    - (* Right *) intros lts vs IH Hw t s Ht Hs. cbn [type_of ser ValuesS.wf_expr] in *. rewrite tys_unfold in Ht. rewrite sers_unfold in Hs.
      destruct (types_of std vs) as [ts|] eqn:Ets; [|discriminate]. destruct (mapO (ser std) vs) as [ss|] eqn:Ess; [|discriminate].
      injection Ht as <-. injection Hs as <-.
      eapply HT_sum; [apply same_ty_refl|reflexivity|reflexivity|]. eapply fields_typed; eauto.
    - intros sig _ t s Ht Hs. cbn in Ht, Hs. injection Ht as <-. injection Hs as <-.
      apply HT_func; [apply same_ty_refl|apply rows_same_refl|apply rows_same_refl].
    - intros nm typ exts Hw t s Ht Hs. cbn in Ht, Hs. injection Ht as <-. injection Hs as <-.
      destruct nm; try discriminate. apply HT_ext; [apply same_ty_refl|constructor].
    - intros v w Hw t s Ht Hs. cbn in Ht, Hs, Hw. injection Ht as <-. injection Hs as <-. apply Nat.leb_le in Hw.
      apply HT_ext; [apply same_ty_refl|]. constructor; [assumption|apply same_ty_refl|now left].
    - intros _ t s Ht Hs. cbn in Ht, Hs. injection Ht as <-. injection Hs as <-.
      apply HT_ext; [apply same_ty_refl|]. constructor; [apply same_ty_refl|now left].
    - intros _ t s Ht Hs. cbn in Ht, Hs. injection Ht as <-. injection Hs as <-.
      apply HT_ext; [apply same_ty_refl|]. constructor; [apply same_ty_refl|now left].
    - (* Array *) intros vs elem IH Hw t s Ht Hs. cbn [type_of ser ValuesS.wf_expr] in *. rewrite sers_unfold in Hs.
      destruct (mapO (ser std) vs) as [ss|] eqn:Ess; [|discriminate]. injection Ht as <-. injection Hs as <-.
      apply andb_true_iff in Hw as [Hw1 Hw2]. apply HT_ext; [apply same_ty_refl|].
      constructor; [|eapply elems_checked; eauto|now left].
      rewrite (mapO_length _ _ _ Ess). now apply array_same.
    - (* List *) intros vs elem IH Hw t s Ht Hs. cbn [type_of ser ValuesS.wf_expr] in *. rewrite sers_unfold in Hs.
      destruct (mapO (ser std) vs) as [ss|] eqn:Ess; [|discriminate]. injection Ht as <-. injection Hs as <-.
      apply andb_true_iff in Hw as [Hw1 Hw2]. apply HT_ext; [apply same_ty_refl|].
      constructor; [now apply list_same|eapply elems_checked; eauto|now left].
    - (* StaticArray *) intros vs elem nm IH Hw t s Ht Hs. cbn [type_of ser ValuesS.wf_expr] in *. rewrite sers_unfold in Hs.
      destruct (static_array_accepts elem) as [[|]|] eqn:Ea; try discriminate.
      destruct (mapO (ser std) vs) as [ss|] eqn:Ess; [|discriminate]. injection Ht as <-. injection Hs as <-.
      apply andb_true_iff in Hw as [Hw1 Hw2]. apply HT_ext; [apply same_ty_refl|].
      constructor; [now apply static_same|eapply elems_checked; eauto|now left].
  Qed.

  Lemma helper_only_wf : forall e, helper_only e = true -> wf_expr e = true.
  Proof.
    apply (vexpr_ind2 (fun e => helper_only e = true -> wf_expr e = true)); cbn [helper_only ValuesS.wf_expr]; try (intros; congruence).
    - intros vs IH H. rewrite forallb_forall in *. rewrite Forall_forall in IH. auto.
    - intros vs IH H. rewrite forallb_forall in *. rewrite Forall_forall in IH. auto.
    - intros vs rts IH H. rewrite forallb_forall in *. rewrite Forall_forall in IH. auto.
    - intros lts vs IH H. rewrite forallb_forall in *. rewrite Forall_forall in IH. auto.
  Qed.

  (* values built with the helper constructors alone always inhabit the type they report *)
  Theorem helpers_well_typed : std_ok -> forall e t s, helper_only e = true ->
    type_of std e = Some t -> ser std e = Some s -> has_type std s t.
  Proof. intros Hstd e t s H. apply expr_well_typed; [assumption|]. now apply helper_only_wf. Qed.
End Main.

(* ------------------------------------------------------------------ uniqueness; raw sums and arrays, exactly *)
Section More.
  Variable std : stddefs.

  Lemma has_type_unique : forall s t1 t2, has_type std s t1 -> has_type std s t2 -> same_ty t1 t2.
  Proof.
    apply (sval_ind2 (fun s => forall t1 t2, has_type std s t1 -> has_type std s t2 -> same_ty t1 t2) (fun _ => True));
      try exact I; try (intros; exact I).
    - intros tag typ vs _ t1 t2 H1 H2. inversion H1; subst. inversion H2; subst.
      eapply same_ty_trans; [apply same_ty_sym|]; eassumption.
    - intros vs IH t1 t2 H1 H2. inversion H1 as [|? ? row1 Hr1 Hf1| |]; subst. inversion H2 as [|? ? row2 Hr2 Hf2| |]; subst.
      apply same_ty_tuple_rows in Hr1, Hr2.
      eapply same_ty_trans; [apply same_ty_sym; exact Hr1|]. eapply same_ty_trans; [|exact Hr2].
      unfold same_ty. rewrite !tnorm_sum. cbn [map]. do 2 f_equal. apply same_ty_rows.
      clear - IH Hf1 Hf2. revert row1 row2 Hf1 Hf2. induction IH as [|v r Hv _ IHr]; intros row1 row2 Hf1 Hf2;
        inversion Hf1; subst; inversion Hf2; subst; constructor; eauto.
    - intros d bi bo t1 t2 H1 H2. inversion H1; subst. inversion H2; subst.
      eapply same_ty_trans; [apply same_ty_sym|]; eassumption.
    - intros nm typ p exts _ t1 t2 H1 H2. inversion H1; subst. inversion H2; subst.
      eapply same_ty_trans; [apply same_ty_sym|]; eassumption.
  Qed.

  Lemma Forall2_unique ss : forall ts row, Forall2 (has_type std) ss ts -> Forall2 (has_type std) ss row -> Forall2 same_ty ts row.
  Proof.
    induction ss as [|s r IH]; intros ts row H1 H2; inversion H1; subst; inversion H2; subst; constructor; eauto.
    eapply has_type_unique; eauto.
  Qed.
  Lemma Forall2_conv_rows ss : forall ts row, Forall2 (has_type std) ss ts -> Forall2 same_ty ts row -> Forall2 (has_type std) ss row.
  Proof.
    induction ss as [|s r IH]; intros ts row H1 H2; inversion H1; subst; inversion H2; subst; constructor; eauto.
    eapply has_type_conv; eauto.
  Qed.

  (* a raw val.Sum(tag, typ, vals) over well-typed fields inhabits the type it reports (its `typ`) exactly
     when the tag selects a variant of `typ` and the fields' reported types are that variant's row *)
  Theorem raw_sum_well_typed_iff : std_ok std -> forall tag typ vs ts ss,
    forallb (wf_expr std) vs = true -> types_of std vs = Some ts -> mapO (ser std) vs = Some ss ->
    type_of std (ESum tag typ vs) = Some typ /\ ser std (ESum tag typ vs) = Some (SSum tag typ ss) /\
    (has_type std (SSum tag typ ss) typ <->
     exists rows row, sum_rows typ = Some rows /\ nth_error rows tag = Some row /\ Forall2 same_ty ts row).
  Proof.
    intros Hstd tag typ vs ts ss Hw Ht Hs. split; [reflexivity|]. split.
    { cbn [ser]. now rewrite sers_unfold, Hs. }
    assert (Hf : Forall2 (has_type std) ss ts).
    { apply (fields_typed std vs); auto. apply Forall_forall. intros x _. now apply expr_well_typed. }
    split.
    - intros H. inversion H; subst. do 2 eexists. repeat split; eauto. eapply Forall2_unique; eauto.
    - intros [rows [row [H1 [H2 H3]]]]. eapply HT_sum; eauto using same_ty_refl. eapply Forall2_conv_rows; eauto.
  Qed.

  (* the sugar constructors: the sum type and the tag each of them builds *)
  Theorem helper_types : forall vs ts ss, types_of std vs = Some ts -> mapO (ser std) vs = Some ss ->
    (type_of std (ETuple vs) = Some (TSum [ts]) /\ ser std (ETuple vs) = Some (STuple ss)) /\
    (type_of std (ESome vs) = Some (TSum [[]; ts]) /\ ser std (ESome vs) = Some (SSum 1 (TSum [[]; ts]) ss)) /\
    (forall rts, type_of std (ELeft vs rts) = Some (TSum [ts; rts]) /\
                 ser std (ELeft vs rts) = Some (SSum 0 (TSum [ts; rts]) ss)) /\
    (forall lts, type_of std (ERight lts vs) = Some (TSum [lts; ts]) /\
                 ser std (ERight lts vs) = Some (SSum 1 (TSum [lts; ts]) ss)) /\
    (forall tys, type_of std (ENone tys) = Some (TSum [[]; tys]) /\ ser std (ENone tys) = Some (SSum 0 (TSum [[]; tys]) [])) /\
    (forall tag n, type_of std (EUnitSum tag n) = Some (TUnitSum n) /\ ser std (EUnitSum tag n) = Some (SSum tag (TUnitSum n) [])) /\
    (forall b, type_of std (EBool b) = Some (TUnitSum 2) /\
               ser std (EBool b) = Some (SSum (if b then 1 else 0) (TUnitSum 2) [])) /\
    (forall sig, type_of std (EFunc sig) = Some (TFunc (fs_in sig) (fs_out sig) (fs_reqs sig))).
  Proof.
    intros vs ts ss Ht Hs.
    repeat split; intros; cbn [type_of ser]; rewrite ?tys_unfold, ?sers_unfold, ?Ht, ?Hs; reflexivity.
  Qed.

  (* the std constants: reported type, defining extension, embedded elements *)
  Theorem std_constants :
    (forall v w, type_of std (EInt v w) = Some (int_t std w) /\
                 ser std (EInt v w) = Some (SExt CInt (int_t std w) (SPInt w v) [td_ext (d_int std)])) /\
    (type_of std EFloat = Some (float_t std) /\ ser std EFloat = Some (SExt CF64 (float_t std) SPFloat [td_ext (d_float std)])) /\
    (type_of std EString = Some (string_t std) /\
     ser std EString = Some (SExt CString (string_t std) SPString [td_ext (d_string std)])) /\
    (forall vs elem ss, mapO (ser std) vs = Some ss ->
       type_of std (EArray vs elem) = Some (array_t std (length vs) elem) /\ length ss = length vs /\
       ser std (EArray vs elem) = Some (SExt CArray (array_t std (length vs) elem) (SPSeq ss elem) [td_ext (d_array std)]) /\
       type_of std (EList vs elem) = Some (list_t std elem) /\
       ser std (EList vs elem) = Some (SExt CList (list_t std elem) (SPSeq ss elem) [td_ext (d_list std)]) /\
       (forall nm, static_array_accepts elem = Some true ->
          type_of std (EStatic vs elem nm) = Some (static_t std elem) /\
          ser std (EStatic vs elem nm) = Some (SExt CStatic (static_t std elem) (SPStatic ss elem nm) [td_ext (d_static std)]))).
  Proof.
    repeat split; try reflexivity.
    - eapply mapO_length; eauto.
    - cbn [ser]. now rewrite sers_unfold, H.
    - cbn [ser]. now rewrite sers_unfold, H.
    - cbn [type_of]. now rewrite H0.
    - cbn [ser]. now rewrite sers_unfold, H, H0.
  Qed.

  (* a std collection constant over well-typed elements is well typed exactly when every element reports
     the declared element type *)
  Theorem collection_well_typed_iff : std_ok std -> forall vs elem ts ss,
    forallb (wf_expr std) vs = true -> types_of std vs = Some ts -> mapO (ser std) vs = Some ss ->
    (has_type std (SExt CArray (array_t std (length vs) elem) (SPSeq ss elem) [td_ext (d_array std)]) (array_t std (length vs) elem)
     <-> Forall (fun t => same_ty t elem) ts) /\
    (has_type std (SExt CList (list_t std elem) (SPSeq ss elem) [td_ext (d_list std)]) (list_t std elem)
     <-> Forall (fun t => same_ty t elem) ts).
  Proof.
    intros Hstd vs elem ts ss Hw Ht Hs.
    assert (Hf : Forall2 (has_type std) ss ts).
    { apply (fields_typed std vs); auto. apply Forall_forall. intros x _. now apply expr_well_typed. }
    assert (Hiff : Forall (fun v => has_type std v elem) ss <-> Forall (fun t => same_ty t elem) ts).
    { clear - Hf. induction Hf as [|s t ss ts Hst _ IH]; [split; constructor|].
      split; intros H; inversion H; subst; constructor; try tauto.
      - eapply has_type_unique; eauto.
      - eapply has_type_conv; eauto. }
    rewrite <- Hiff. split; split.
    - intros H. inversion H; subst. match goal with Hp : payload_ok _ _ _ _ _ |- _ => inversion Hp; subst; assumption end.
    - intros H. apply HT_ext; [apply same_ty_refl|]. constructor; [|assumption|now left].
      rewrite (mapO_length _ _ _ Hs). now apply array_same.
    - intros H. inversion H; subst. match goal with Hp : payload_ok _ _ _ _ _ |- _ => inversion Hp; subst; assumption end.
    - intros H. apply HT_ext; [apply same_ty_refl|]. constructor; [now apply list_same|assumption|now left].
  Qed.

  (* Const offers the reported type on its static port; the LoadConstant built for it produces that type *)
  Theorem const_port_and_load_agree : forall e t, type_of std e = Some t ->
    const_port_type std e = Some t /\ load_const_type std e = Some t /\ load_sig std e = Some ([], [t]) /\
    (std_ok std -> wf_expr std e = true -> forall s, ser std e = Some s -> has_type std s t).
  Proof.
    intros e t H. unfold const_port_type, load_sig, load_const_type. rewrite H. repeat split.
    intros Hstd Hw s Hs. now apply (expr_well_typed std Hstd e Hw).
  Qed.
End More.

(* ------------------------------------------------------------------ non-vacuity *)
Definition ex_std : stddefs :=
  let mk n ps b := {| td_ext := n; td_name := n; td_descr := 0%N; td_params := ps; td_bound := b |} in
  {| d_int := mk 1%N [PNat (Some 7%N)] (Explicit Copyable); d_float := mk 2%N [] (Explicit Copyable);
     d_string := mk 3%N [] (Explicit Copyable); d_array := mk 4%N [PNat None; PType Any] (FromParams [1]);
     d_list := mk 5%N [PType Any] (FromParams [0]); d_static := mk 6%N [PType Copyable] (Explicit Copyable) |}.
Example values_example :
  let e := ESum 1 (TSum [[TQubit]; [TUnitSum 2; array_t ex_std 2 (TSum [[]; [int_t ex_std 3]])]])
                [EBool true; EArray [ESome [EInt 5 3]; ENone [int_t ex_std 3]] (TSum [[]; [int_t ex_std 3]])] in
  std_ok ex_std /\ wf_expr ex_std e = true /\
  exists t s, type_of ex_std e = Some t /\ ser ex_std e = Some s /\ has_type ex_std s t /\
  (* and a wrong tag is rejected by the judgment *)
  ~ has_type ex_std (SSum 0 (TUnitSum 2) [SSum 0 (TUnitSum 1) []]) (TUnitSum 2).
Proof.
  cbv zeta. split; [repeat split|]. split; [reflexivity|]. do 2 eexists. split; [reflexivity|]. split; [reflexivity|].
  split; [apply has_type_b_spec; reflexivity|]. intros H. apply has_type_b_spec in H. discriminate.
Qed.

(* the guard on the std definitions is what the JSON definition files say (re-translated on every run) *)
From HV Require Import gen.StdBounds.
Lemma std_ok_from_json std :
  In (td_bound (d_array std)) [std_array_bound_py; std_array_bound_spec] ->
  In (td_bound (d_list std)) [std_list_bound_py; std_list_bound_spec] ->
  In (td_bound (d_static std)) [std_static_array_bound_py; std_static_array_bound_spec] -> std_ok std.
Proof.
  intros H1 H2 H3. unfold std_ok.
  destruct H1 as [H1|[H1|[]]], H2 as [H2|[H2|[]]], H3 as [H3|[H3|[]]]; rewrite <- H1, <- H2, <- H3; repeat split.
Qed.
Lemma std_okb_spec std : std_okb std = true <-> std_ok std.
Proof.
  unfold std_okb, std_ok. rewrite !andb_true_iff, !defbound_eqb_iff. tauto.
Qed.

(* ------------------------------------------------------------------ histories on one Const node *)
(* nothing is remembered: every observation in a history is the observation of a fresh node holding the value
   held at that moment *)
Lemma history_fresh std : forall steps cur,
  run_hist std cur steps = map (observe_const std) (held_at cur steps).
Proof.
  induction steps as [|st r IH]; intros cur; [reflexivity|].
  destruct st as [e|]; cbn [run_hist held_at map]; [apply IH | now rewrite IH].
Qed.
Lemma observe_const_ok std : std_ok std -> forall e, obs_ok std e (observe_const std e).
Proof.
  intros Hstd e Hw t s Ht Hs. cbn in Ht, Hs |- *.
  destruct (const_port_and_load_agree std e t Ht) as (Hp & _ & Hl & Hty).
  split; [exact (Hty Hstd Hw s Hs)|]. now split.
Qed.
(* hence every observation of a history satisfies the property for the value held then *)
Lemma history_inhabits std : std_ok std -> forall steps cur,
  Forall2 (obs_ok std) (held_at cur steps) (run_hist std cur steps).
Proof.
  intros Hstd steps cur. rewrite history_fresh.
  induction (held_at cur steps) as [|e r IH]; cbn [map]; constructor; [now apply observe_const_ok | exact IH].
Qed.
(* non-vacuity: a stubbed function Bool -> () is observed, finished to Bool -> Bool, observed again; the two
   observations differ and each one is the fresh observation of the value of its moment *)
Example history_example :
  let stub := EFunc {| fs_in := [TUnitSum 2]; fs_out := []; fs_reqs := [] |} in
  let done := EFunc {| fs_in := [TUnitSum 2]; fs_out := [TUnitSum 2]; fs_reqs := [] |} in
  let steps := [HObs; HSet done; HObs; HObs] in
  held_at stub steps = [stub; done; done] /\
  map ho_type (run_hist ex_std stub steps) =
    [Some (TFunc [TUnitSum 2] [] []); Some (TFunc [TUnitSum 2] [TUnitSum 2] []); Some (TFunc [TUnitSum 2] [TUnitSum 2] [])] /\
  Forall2 (obs_ok ex_std) (held_at stub steps) (run_hist ex_std stub steps).
Proof.
  cbv zeta. split; [reflexivity|]. split; [reflexivity|]. apply history_inhabits.
  destruct values_example as (H & _). exact H.
Qed.
