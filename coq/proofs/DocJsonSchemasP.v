(* C03 — facts about the REGENERATED published strict schema (coq/gen/Schemas.v), re-proved on every run:
   its SerialHugr and Package definitions are the shapes of model/DocJson.v (up to canon = strip . norm and
   schema_equiv: key order, order of `required`, "additionalProperties": true, annotations), so the
   theorems of proofs/DocJsonP.v speak about the file that is on disk now. *)
From Coq Require Import List Bool ZArith String Arith Lia.
Import ListNotations.
From HV Require Import lib.Harness model.Schema model.SerialHugr model.DocJson model.NodeParent proofs.SchemaP proofs.DocJsonP
  proofs.NodeParentP proofs.DataEquivP gen.Schemas.
Open Scope string_scope.
Open Scope nat_scope.

Lemma strict_self_equiv : self_equiv published_hugr_strict = true.
Proof. vm_compute. reflexivity. Qed.
Lemma strict_SerialHugr_shape : def_matches published_hugr_strict "SerialHugr" shape_SerialHugr = true.
Proof. vm_compute. reflexivity. Qed.
Lemma strict_Package_shape : def_matches published_hugr_strict "Package" shape_Package = true.
Proof. vm_compute. reflexivity. Qed.

(* OpType and the 21 operation classes of its oneOf apply to the member `parent` nothing but {"type": "integer"} and
   never compare the whole object with a constant: the verdict on an operation object does not depend on the parent
   index (proofs/NodeParentP.v) *)
Lemma strict_OpType_parent_cert : pclosed published_hugr_strict (optype_names published_hugr_strict) = true.
Proof. vm_compute. reflexivity. Qed.
Lemma strict_OpType_alternatives : List.length (optype_names published_hugr_strict) = 22.
Proof. vm_compute. reflexivity. Qed.

(* "the operation objects are valid", assumed for the parent index 0 only *)
Definition ops_valid0 (root : json) (sop : Type) (op_fields : sop -> obj) (f : nat) : Prop :=
  forall o : sop, accepts f root "OpType" (node_obj op_fields o 0) = true.
Lemma ops_valid0_all root sop op_fields f :
  pclosed root (optype_names root) = true -> ops_valid0 root sop op_fields f -> ops_valid root sop op_fields f.
Proof.
  intros Hc H o p. unfold node_obj, nat_json.
  change (JObj (("parent", JNum (Z.of_nat p)) :: op_fields o)) with (pnode (Z.of_nat p) (op_fields o)).
  rewrite (accepts_parent_indep root _ "OpType" Hc (or_introl eq_refl) f _ (Z.of_nat 0)). apply H.
Qed.

Section Published.
  Variables sop md : Type.
  Variable op_fields : sop -> obj.
  Variable md_fields : md -> obj.

  Theorem published_doc_accepted : forall encoder f (s : serial sop md),
    4 <= f -> ops_valid published_hugr_strict sop op_fields f ->
    accepts (3 + f) published_hugr_strict "SerialHugr" (doc_json op_fields md_fields encoder s) = true.
  Proof. exact (doc_accepted _ strict_self_equiv strict_SerialHugr_shape sop md op_fields md_fields). Qed.

  Theorem published_pkg_accepted : forall f (mods : list (serial sop md)) (exts : list json),
    4 <= f -> ops_valid published_hugr_strict sop op_fields f ->
    (forall e, In e exts -> accepts (3 + f) published_hugr_strict "Extension" e = true) ->
    accepts (6 + f) published_hugr_strict "Package" (pkg_json op_fields md_fields mods exts) = true.
  Proof.
    exact (pkg_accepted _ strict_self_equiv strict_SerialHugr_shape sop md op_fields md_fields strict_Package_shape).
  Qed.

  (* for the documents of the model of Hugr._to_serial *)
  Variable op : Type.
  Variable enc : op -> sop.
  Variable ndp : op -> dir -> option nat.
  Variable md_is_nil : md -> bool.
  Theorem published_model_doc_accepted : forall (encoder : option string) (f : nat) (h : hugr op md) (s : serial sop md),
    4 <= f -> ops_valid0 published_hugr_strict sop op_fields f ->
    to_serial enc ndp md_is_nil h = Some s ->
    accepts (3 + f) published_hugr_strict "SerialHugr" (doc_json op_fields md_fields encoder s) = true.
  Proof.
    intros e f h s Hf Hop _. apply published_doc_accepted; [exact Hf|].
    now apply ops_valid0_all; [exact strict_OpType_parent_cert|].
  Qed.
  Theorem published_model_pkg_accepted : forall (f : nat) (hs : list (hugr op md)) (mods : list (serial sop md)) (exts : list json),
    4 <= f -> ops_valid0 published_hugr_strict sop op_fields f ->
    mapM (to_serial enc ndp md_is_nil) hs = Some mods ->
    (forall e, In e exts -> accepts (3 + f) published_hugr_strict "Extension" e = true) ->
    accepts (6 + f) published_hugr_strict "Package" (pkg_json op_fields md_fields mods exts) = true.
  Proof.
    intros f hs mods exts Hf Hop _ He. apply published_pkg_accepted; [exact Hf| |exact He].
    now apply ops_valid0_all; [exact strict_OpType_parent_cert|].
  Qed.

  (* ... and for any JSON value that is the model's rendering AS DATA (objects as maps): what the per-case tie
     `data_equiv (doc_json (to_serial h)) emitted` establishes of the text hugr-py wrote *)
  Theorem published_emitted_doc_accepted : forall (encoder : option string) (f : nat) (h : hugr op md) (s : serial sop md)
      (emitted : json),
    4 <= f -> ops_valid0 published_hugr_strict sop op_fields f ->
    to_serial enc ndp md_is_nil h = Some s ->
    data_equiv (doc_json op_fields md_fields encoder s) emitted = true ->
    accepts (3 + f) published_hugr_strict "SerialHugr" emitted = true.
  Proof.
    intros e f h s j Hf Hop Hs Hj. rewrite <- (accepts_data_equiv _ _ _ _ _ Hj).
    exact (published_model_doc_accepted e f h s Hf Hop Hs).
  Qed.
  Theorem published_emitted_pkg_accepted : forall (f : nat) (hs : list (hugr op md)) (mods : list (serial sop md))
      (exts : list json) (emitted : json),
    4 <= f -> ops_valid0 published_hugr_strict sop op_fields f ->
    mapM (to_serial enc ndp md_is_nil) hs = Some mods ->
    (forall e, In e exts -> accepts (3 + f) published_hugr_strict "Extension" e = true) ->
    data_equiv (pkg_json op_fields md_fields mods exts) emitted = true ->
    accepts (6 + f) published_hugr_strict "Package" emitted = true.
  Proof.
    intros f hs mods exts j Hf Hop Hs He Hj. rewrite <- (accepts_data_equiv _ _ _ _ _ Hj).
    exact (published_model_pkg_accepted f hs mods exts Hf Hop Hs He).
  Qed.
End Published.

(* non-vacuity on the real constant: two operations whose objects the published OpType accepts with every parent
   index, a document with an edge, metadata and a hole-free node list, and a package around it *)
Inductive ex_op := XModule | XInput.
Definition ex_fields (o : ex_op) : obj :=
  match o with
  | XModule => [("op", JStr "Module")]
  | XInput => [("op", JStr "Input"); ("types", JArr [])]
  end.
Definition ex_md (m : nat) : obj := [("k", nat_json m)].
Lemma ex_ops_valid : ops_valid published_hugr_strict ex_op ex_fields 10.
Proof. intros [] p; vm_compute; reflexivity. Qed.
Definition ex_serial : serial ex_op nat :=
  {| s_nodes := [{| s_op := XModule; s_parent := 0 |}; {| s_op := XInput; s_parent := 0 |}];
     s_edges := [((1, Some 0), (1, None))]; s_meta := Some [None; Some 7] |}.
Example ex_doc_accepted :
  accepts 13 published_hugr_strict "SerialHugr" (doc_json ex_fields ex_md (Some "hugr-py v0") ex_serial) = true /\
  accepts 16 published_hugr_strict "Package" (pkg_json ex_fields ex_md [ex_serial; ex_serial] []) = true.
Proof.
  split.
  - apply (published_doc_accepted ex_op nat ex_fields ex_md _ 10); [lia|exact ex_ops_valid].
  - apply (published_pkg_accepted ex_op nat ex_fields ex_md 10); [lia|exact ex_ops_valid|intros e []].
Qed.
(* ... and the validator rejects the same document with a wrong edge / an extra member, so acceptance says something *)
Example ex_doc_rejected :
  accepts 13 published_hugr_strict "SerialHugr"
    (JObj [("version", JStr "live"); ("nodes", JArr []); ("edges", JArr [JArr [JArr [JNum 0%Z; JNull]]])]) = false /\
  accepts 13 published_hugr_strict "SerialHugr"
    (JObj [("version", JStr "live"); ("nodes", JArr []); ("edges", JArr []); ("extra", JNull)]) = false /\
  accepts 13 published_hugr_strict "SerialHugr"
    (JObj [("version", JStr "live"); ("nodes", JArr [JObj [("parent", JNull); ("op", JStr "Module")]]); ("edges", JArr [])]) = false.
Proof. vm_compute. auto. Qed.
