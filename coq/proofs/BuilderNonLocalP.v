(* C01 (second pass) — the bridge from the store-level statement `ExtOrder` (proofs/BuilderExtP.v) to the booleans
   of `valid` that classify non-local edges on the serialised document, for EVERY program of the modelled builder
   language whose builder calls do not raise (no well-formedness premise):
     rule 14 r_ext_order_edge     a value edge that enters a nested region has its order edge
     rule 12 r_nonlocal_relation  every non-local edge is an Ext edge (or static edge from an ancestor region)
     rule 15 r_dominance          vacuous: no edge is classified as a Dom edge
   i.e. the validator's ancestor walk (`walk`, on fuel) classifies every resolved edge of the document as local,
   as a good non-local edge, or as non-copyable (rule 11, not claimed here). *)
From Coq Require Import NArith List Bool Arith Lia.
Import ListNotations.
From HV Require Import lib.Harness model.Validity model.Builder spec.BuilderS spec.BuilderWFS
  proofs.BuilderP proofs.BuilderExtP proofs.BuilderFrameP proofs.BuilderRulesP proofs.BuilderTypeP proofs.BuilderAcyclicP.
Local Open Scope N_scope.

(* ------------------------------------------------------------------ static links: Const -> LoadConst *)
(* a port link that starts at a Const node: the constant lives in the region of its target or in a region
   around it *)
(* and every link joins two numbered ports or two order ports *)
Definition shape_ok (e : edge) : bool := Bool.eqb (is_some (e_soff e)) (is_some (e_doff e)).
Definition const_link_ok (st : store) (e : edge) : Prop :=
  shape_ok e = true /\
  (port_link e = true -> is_const_kind (s_op st (e_src e)) = true ->
   exists pc pd, s_parent st (e_src e) = Some pc /\ s_parent st (e_dst e) = Some pd /\ AncEq (s_parent st) pc pd).
Definition ConstLinks (st : store) : Prop := forall e, In e (s_links st) -> const_link_ok st e.

Lemma CL_step st st' ext :
  Ext st st' -> LinksOK st -> s_links st' = s_links st ++ ext ->
  (forall e, In e ext -> const_link_ok st' e) -> ConstLinks st -> ConstLinks st'.
Proof.
  intros X K El Hnew Q e Hin. rewrite El in Hin. apply in_app_or in Hin. destruct Hin as [Hin|Hin]; [|now apply Hnew].
  destruct (LinksOK_in _ _ K Hin) as [Ls Ld]. destruct (old_node_ext _ _ _ X Ls) as [Ps Cs].
  destruct (old_node_ext _ _ _ X Ld) as [Pd _].
  destruct (Q e Hin) as [Sh Qe]. split; [exact Sh|].
  intros Hp Hc. rewrite Cs in Hc. destruct (Qe Hp Hc) as (pc & pd & A & B & C).
  exists pc, pd. split; [now rewrite Ps|]. split; [now rewrite Pd|].
  eapply AncEq_mono; [|exact C]. intros k q. now apply parent_ext.
Qed.
Lemma CL_nodes st st' : Ext st st' -> LinksOK st -> s_links st' = s_links st -> ConstLinks st -> ConstLinks st'.
Proof. intros X K El. refine (CL_step st st' [] X K _ _); [now rewrite app_nil_r|intros e []]. Qed.

Lemma typed_not_const st w t : port_type st w = Ok t -> is_const_kind (s_op st (fst w)) = false.
Proof.
  unfold port_type. destruct (s_op st (fst w)) as [o|]; [|reflexivity]. destruct o; cbn; try reflexivity.
  rewrite nthN_nil. discriminate.
Qed.
(* the links of one _wire_up are not static links, also in any later store *)
Lemma WNew_const st node ws : forall i ts new, WNew st node i ws ts new ->
  forall st', Ext st st' -> forall e, In e new -> const_link_ok st' e.
Proof.
  intros i ts new H. induction H; intros st' X e Hin; [destruct Hin|].
  apply in_app_or in Hin. destruct Hin as [Hin|[<-|Hin]].
  - destruct H0 as [->|[-> _]]; [destruct Hin|]. destruct Hin as [<-|[]]. split; [reflexivity|]. intros Hp. discriminate Hp.
  - split; [reflexivity|]. intros _ Hc. cbn [vlink e_src] in Hc. destruct (old_node_ext _ _ _ X H2) as [_ Cs]. rewrite Cs in Hc.
    rewrite (typed_not_const _ _ _ H1) in Hc. discriminate.
  - eapply IHWNew; eauto.
Qed.

(* every node hangs below the root *)
Lemma root_anc st : bounded (s_nodes st) = true -> forall k n, (N.to_nat n < k)%nat -> n < s_len st -> n <> 0 ->
  Anc (s_parent st) 0 n.
Proof.
  intros Hb k. induction k as [|k IH]; intros n Lk Ln Hn; [lia|].
  destruct (nthN_some_lt _ _ Ln) as [nd E]. pose proof (s_parent_at _ _ _ E Hn) as HP.
  pose proof (s_parent_lt _ _ _ Hb HP) as Lt.
  destruct (N.eq_dec (n_parent nd) 0) as [E0|E0].
  - apply Anc_direct. now rewrite <- E0.
  - eapply Anc_step; [exact HP|]. apply IH; [lia|lia|exact E0].
Qed.

Section ConstMain.
  Variable tys : list tyinfo.

  Definition DS (s : stmt) : Prop := forall b st e st' e',
    exec_stmt tys s b st e = Ok (st', e') -> Cpre st b e -> ConstLinks st -> ConstLinks st'.
  Definition DR (r : region) : Prop := forall b st e st' e',
    exec_region tys r b st e = Ok (st', e') -> Cpre st b e -> ConstLinks st -> ConstLinks st'.
  Definition DL (l : stmts) : Prop := forall b st e st' e',
    exec_stmts tys l b st e = Ok (st', e') -> Cpre st b e -> ConstLinks st -> ConstLinks st'.

  Lemma exec_const_links : (forall s, DS s) /\ (forall r, DR r) /\ (forall l, DL l).
  Proof.
    apply prog_mutind; unfold DS, DR, DL.
    - (* SOp *)
      intros id o args rs b st e st' e' H P Q.
      destruct (cpre_stmt tys _ _ _ _ _ _ H P) as (P' & K & X & L). destruct P as [I A O R].
      apply SOp_spec in H. destruct H as (ws & ts & op' & new & st1 & Gw & Lp & En1 & El1 & HW & Cc & En' & El' & ->).
      eapply CL_step; [exact X|exact (proj2 I)|exact El'| |exact Q].
      eapply WNew_const; [exact HW|]. apply Ext_cnode. rewrite En1, En', !map_app. f_equal. cbn. unfold cnode. cbn.
      now rewrite (completed_canon tys _ _ _ Cc).
    - (* SLoad *)
      intros id v cp r b st e st' e' H P Q.
      destruct (cpre_stmt tys _ _ _ _ _ _ H P) as ([I' A' O' R'] & K & X & L). destruct P as [I A O R].
      apply SLoad_spec in H. destruct H as (En' & El' & ->).
      pose proof (OpenB_lt _ _ O) as Lb. fold (s_len st) in Lb.
      assert (B' : bounded (s_nodes st') = true) by exact (proj1 (proj2 (proj2 (proj1 I')))).
      assert (Hc : nthN (s_nodes st') (s_len st) = Some (mk (Const v) (match cp with CHere => b_parent b | CRoot => 0 end)))
        by (rewrite En'; unfold s_len; apply nthN_len).
      assert (Hn : nthN (s_nodes st') (s_len st + 1) = Some (mk (LoadConst (value_ty v)) (b_parent b))).
      { rewrite En'. rewrite nthN_app_ge by (unfold s_len; lia). unfold s_len.
        replace (lenN (s_nodes st) + 1 - lenN (s_nodes st)) with 1 by lia. reflexivity. }
      eapply CL_step; [exact X|exact (proj2 I)|exact El'| |exact Q].
      intros e0 [<-|[]]. split; [reflexivity|]. intros _ _. cbn [e_src e_dst].
      exists (match cp with CHere => b_parent b | CRoot => 0 end), (b_parent b).
      split; [eapply s_parent_mk; [exact Hc|lia]|]. split; [eapply s_parent_mk; [exact Hn|lia]|].
      destruct cp; [now left|]. destruct (N.eq_dec (b_parent b) 0) as [->|Hne]; [now left|right].
      eapply (root_anc st' B' (S (N.to_nat (b_parent b)))); [lia| |exact Hne].
      rewrite (s_len_app _ _ _ En'). lia.
    - (* SNested *)
      intros id args body IH rs b st e st' e' H P Q.
      destruct P as [I A O R].
      apply SNested_spec in H.
      destruct H as (ws & ts & new & st3 & st4 & e5 & Gw & T & Lp & En3 & El3 & HW & En4 & El4 & XR & ->).
      destruct (nested_entry _ _ _ _ _ _ _ _ I A O R (get_wires_pos _ _ _ _ R Gw) En3 HW En4 El4) as (I4 & A4 & O4 & R4 & L4).
      assert (X4 : Ext st st4) by (eapply Ext_app; rewrite En4; exact En3).
      eapply IH; [exact XR|constructor; eauto|].
      eapply CL_step; [exact X4|exact (proj2 I)|exact El4| |exact Q].
      eapply WNew_const; [exact HW|]. apply Ext_cnode. now rewrite En4.
    - (* SOrder *)
      intros src dst b st e st' e' H P Q.
      destruct (cpre_stmt tys _ _ _ _ _ _ H P) as (P' & K & X & L). destruct P as [I A O R].
      apply SOrder_spec in H. destruct H as (a & c & Na & Nc & En' & El' & ->).
      destruct El' as [El'|El']; [eapply CL_nodes; eauto; exact (proj2 I)|].
      eapply CL_step; [exact X|exact (proj2 I)|exact El'| |exact Q].
      intros e0 [<-|[]]. split; [reflexivity|]. intros Hp. discriminate Hp.
    - (* Region *)
      intros wids body IH oids b st e st' e' H P Q.
      apply exec_region_inv in H. destruct H as (st1 & ws & XB & Gw & SO).
      pose proof P as [I A O R]. pose proof (OpenB_lt _ _ O) as Lb. fold (s_len st) in Lb. pose proof O as (Ei & _).
      assert (P0 : Cpre st b (bind_outs e (b_in b) wids)) by (constructor; auto; apply EnvRange_bind_in; [exact R|lia|lia]).
      pose proof (IH _ _ _ _ _ XB P0 Q) as Q1.
      destruct (cpre_stmts tys _ _ _ _ _ _ XB P0) as ([I1 A1 O1 R1] & K1 & X1 & L1).
      pose proof (set_outputs_same _ _ _ _ SO (OpenB_WB _ _ O1)) as S1.
      destruct (set_outputs_spec _ _ _ _ SO O1) as (ts & new & i1 & pp1 & HW & El' & Hp1 & En').
      eapply CL_step; [exact (Same_Ext _ _ S1)|exact (proj2 I1)|exact El'| |exact Q1].
      eapply WNew_const; [exact HW|exact (Same_Ext _ _ S1)].
    - (* SNil *)
      intros b st e st' e' H P Q. cbn in H. now inversion H; subst.
    - (* SCons *)
      intros s IHs r IHr b st e st' e' H P Q.
      apply exec_SCons_inv in H. destruct H as (st1 & e1 & X1 & X2).
      destruct (cpre_stmt tys _ _ _ _ _ _ X1 P) as (P1 & _).
      eapply IHr; eauto.
  Qed.

  Theorem exec_prog_const_links p st : exec_prog tys p = Ok st -> ConstLinks st.
  Proof.
    destruct p as [ins body]. intros H. apply exec_prog_inv in H. destruct H as [e' H].
    destruct exec_const_links as (_ & DRr & _).
    eapply DRr; [exact H| |intros e []].
    constructor; [apply init_Inv|apply init_Abase|apply init_OpenB|apply init_EnvRange].
  Qed.
End ConstMain.

(* ------------------------------------------------------------------ the validator's ancestor walk *)
Lemma parent_of_serial st n : parent_of (to_serial st) n = s_parent st n. Proof. reflexivity. Qed.
Lemma op_of_serial st n : op_of (to_serial st) n = s_op st n. Proof. reflexivity. Qed.

Lemma walk_static_ok g es src fp fpp : (forall n m, parent_of g n = Some m -> m < n) ->
  forall fuel anc, (N.to_nat anc < fuel)%nat -> Anc (parent_of g) fp anc ->
  walk fuel g es true src fp fpp anc false = EOk.
Proof.
  intros Hlt fuel. induction fuel as [|f IH]; intros anc Lf HA; [lia|]. cbn [walk].
  inversion HA as [n Hp|n m Hp HA']; subst n; rewrite Hp; cbn [negb andb orb].
  - now rewrite N.eqb_refl.
  - destruct (m =? fp); [reflexivity|]. rewrite andb_false_r. apply IH; [|exact HA'].
    specialize (Hlt _ _ Hp). lia.
Qed.

Lemma AncSib_gt par fp t a : (forall n m, par n = Some m -> m < n) -> AncSib par (Some fp) t a -> fp < t.
Proof.
  intros Hlt H. remember (Some fp) as sp eqn:Esp. induction H as [t tp H1 H2|t tp a H1 H2 H3 IH]; subst sp.
  - inversion H2; subst tp. now apply Hlt.
  - specialize (Hlt _ _ H1). lia.
Qed.

Lemma walk_value_ok g es src fp : (forall n m, parent_of g n = Some m -> m < n) -> NoFunc g ->
  forall fuel anc a, (N.to_nat anc < fuel)%nat -> AncSib (parent_of g) (Some fp) anc a ->
  walk fuel g es false src fp (parent_of g fp) anc false = if has_order_edge es src a then EOk else EMissingOrder.
Proof.
  intros Hlt NF fuel. induction fuel as [|f IH]; intros anc a Lf HA; [lia|]. cbn [walk].
  assert (Hent : (false || (negb false && match op_of g anc with Some o => is_funcdefn o | None => false end)) = false).
  { cbn [orb negb andb]. destruct (op_of g anc) as [o|] eqn:Eo; [exact (NF _ _ Eo)|reflexivity]. }
  inversion HA as [t tp H1 H2|t tp a' H1 H2 H3]; subst.
  - rewrite H1, Hent. inversion H2; subst tp. rewrite N.eqb_refl. cbn [negb andb].
    now destruct (has_order_edge es src a).
  - rewrite H1, Hent. destruct (N.eqb_spec tp fp) as [->|Hne]; [congruence|].
    pose proof (AncSib_gt _ _ _ _ Hlt H3) as Lt.
    assert (Hdom : optN_eqb (Some tp) (parent_of g fp) && negb false = false).
    { destruct (parent_of g fp) as [x|] eqn:Ex; [|reflexivity]. cbn. rewrite andb_true_r. apply N.eqb_neq.
      specialize (Hlt _ _ Ex). lia. }
    rewrite Hdom. apply IH; [|exact H3]. specialize (Hlt _ _ H1). lia.
Qed.

(* ------------------------------------------------------------------ the kind of a resolved edge *)
Lemma kind_out_value_inv o a t : kind_out o a = Some (KValue t) -> nthN (val_out o) a = Some t.
Proof.
  unfold kind_out. destruct (a <? lenN (val_out o)).
  - destruct (nthN (val_out o) a); cbn; intros H; inversion H; reflexivity.
  - destruct (is_some (static_out o) && (a =? lenN (val_out o))).
    + destruct o; cbn; try discriminate; intros H; inversion H.
    + destruct (a <? count_out o); [|discriminate]. destruct o; cbn; try discriminate; intros H; inversion H.
Qed.
Lemma kind_out_base o k : kind_out o (base_out o) = Some k -> is_static k = false /\ (forall t, k <> KValue t).
Proof.
  unfold kind_out, base_out. set (n := lenN (val_out o)). set (s := b2N (is_some (static_out o))).
  destruct (N.ltb_spec (n + s) n); [lia|].
  assert (E : is_some (static_out o) && (n + s =? n) = false).
  { subst s. destruct (static_out o); cbn [is_some b2N]; [|reflexivity]. cbn [andb]. apply N.eqb_neq. lia. }
  rewrite E. destruct (n + s <? count_out o); [|discriminate].
  clear. destruct o; cbn; try discriminate; intros HH; inversion HH; split; try reflexivity; discriminate.
Qed.
Lemma kind_out_static_model o a k : model_op o = true -> kind_out o a = Some k -> is_static k = true ->
  a = 0 /\ exists v, o = Const v.
Proof.
  intros M. unfold kind_out. destruct (a <? lenN (val_out o)).
  - destruct (nthN (val_out o) a); cbn; intros H; inversion H; subst; discriminate.
  - destruct (is_some (static_out o) && (a =? lenN (val_out o))) eqn:E.
    + destruct o; cbn in *; try discriminate. apply N.eqb_eq in E. intros _ _. split; [exact E|eauto].
    + destruct (a <? count_out o); [|discriminate]. destruct o; cbn; try discriminate; intros H; inversion H; subst; discriminate.
Qed.

Lemma AncSib_cases par sp t a : AncSib par sp t a -> a = t \/ exists c, par c = Some a.
Proof.
  intros H. induction H as [t tp H1 H2|t tp a H1 H2 H3 IH]; [now left|right].
  destruct IH as [->|IH]; eauto.
Qed.

(* an order link of the store between a node with an order out-port and one with an order in-port is a
   resolved order edge of the document *)
Lemma order_link_resolves st o s a so da :
  In o (s_links st) -> is_order_link s a o = true -> s_op st s = Some so -> s_op st a = Some da ->
  ord_out so = true -> ord_in da = true -> has_order_edge (redges (to_serial st)) s a = true.
Proof.
  intros Hin Ho Es Ea Oo Oi. unfold is_order_link in Ho.
  apply andb_true_iff in Ho. destruct Ho as [Ho Hoff]. apply andb_true_iff in Ho. destruct Ho as [H1 H2].
  apply N.eqb_eq in H1, H2. destruct (e_soff o) eqn:Eso; [discriminate|]. destruct (e_doff o) eqn:Edo; [discriminate|].
  unfold has_order_edge. apply existsb_exists.
  exists {| r_src := s; r_so := base_out so; r_dst := a; r_do := base_in da; r_kind := KOrder |}. split.
  - unfold redges. apply in_flat_map. exists (ser st o). split; [rewrite to_serial_edges; now apply in_map|].
    unfold resolve, ser. cbn [e_src e_dst e_soff e_doff]. rewrite !op_of_serial, H1, H2, Es, Ea.
    unfold constrain_out, constrain_in. rewrite Eso, Edo, Es, Ea.
    rewrite (proj1 (kind_out_order _ Oo)). now left.
  - cbn. now rewrite !N.eqb_refl.
Qed.

(* ------------------------------------------------------------------ every resolved edge is local, a good non-local edge, or non-copyable *)
Lemma classify_ok tys st e r :
  Inv st -> ModelOps (s_nodes st) -> LinksPos st -> ExtOrder st -> ConstLinks st ->
  In e (s_links st) -> resolve (to_serial st) (ser st e) = Some r ->
  let c := classify tys (to_serial st) (redges (to_serial st)) r in c = ELocal \/ c = EOk \/ c = ENonCopyable.
Proof.
  intros [G K] M LP EO CL Hin Hr.
  assert (Hb : bounded (s_nodes st) = true) by exact (proj1 (proj2 (proj2 G))).
  assert (Hlt : forall n m, parent_of (to_serial st) n = Some m -> m < n) by (intros n m H; eapply s_parent_lt; eauto).
  destruct (resolve_ends _ _ _ Hr) as [Es Ed]. cbn [ser e_src e_dst] in Es, Ed.
  destruct (LinksOK_in _ _ K Hin) as [Ls Ld].
  unfold LinksPos in LP. rewrite forallb_forall in LP. specialize (LP _ Hin).
  apply andb_true_iff in LP. destruct LP as [P1 P2]. apply negb_true_iff in P1, P2. apply N.eqb_neq in P1, P2.
  destruct (nthN_some_lt _ _ Ls) as [ns Ens]. destruct (nthN_some_lt _ _ Ld) as [nd End].
  pose proof (s_parent_at _ _ _ Ens P1) as Hps. pose proof (s_parent_at _ _ _ End P2) as Hpd.
  remember (n_parent ns) as fp eqn:Efp. remember (n_parent nd) as tp eqn:Etp. clear Efp Etp.
  cbv zeta. unfold classify. rewrite Es, Ed, !parent_of_serial, Hps, Hpd.
  destruct (N.eqb_spec fp tp) as [Eq|Hne]; [now left|]. right.
  assert (Lf : (N.to_nat tp < length (g_nodes (to_serial st)))%nat).
  { pose proof (s_parent_lt _ _ _ Hb Hpd). unfold s_len, lenN in Ld. unfold to_serial. cbn [g_nodes]. lia. }
  (* the kind at the source *)
  unfold resolve in Hr. cbn [ser e_src e_dst e_soff e_doff] in Hr. rewrite !op_of_serial in Hr.
  assert (Eso : s_op st (e_src e) = Some (n_op ns)) by (unfold s_op; now rewrite Ens).
  assert (Edo : s_op st (e_dst e) = Some (n_op nd)) by (unfold s_op; now rewrite End).
  rewrite Eso, Edo in Hr.
  destruct (CL e Hin) as [Sh CLe].
  destruct (e_soff e) as [a|] eqn:Ea.
  - (* a numbered out port *)
    unfold shape_ok in Sh. rewrite Ea in Sh. cbn [is_some] in Sh. destruct (e_doff e) as [b|] eqn:Eb; [|discriminate Sh].
    assert (PL : port_link e = true) by (unfold port_link; now rewrite Ea, Eb).
    cbn [constrain_out constrain_in] in Hr.
    destruct (kind_out (n_op ns) a) as [k|] eqn:Ek; [|discriminate]. inversion Hr; subst r; clear Hr. cbn [r_kind r_src r_dst].
    destruct (is_static k) eqn:Est.
    + (* static: Const -> LoadConst from an enclosing region *)
      cbn [negb andb]. left.
      destruct (kind_out_static_model _ _ _ (forallb_nthN _ _ _ _ M Ens) Ek Est) as (_ & v & Ev).
      assert (Hc : is_const_kind (s_op st (e_src e)) = true) by (rewrite Eso, Ev; reflexivity).
      destruct (CLe PL Hc) as (pc & pd & A & B & C). rewrite Hps in A. rewrite Hpd in B. inversion A; inversion B; subst pc pd.
      destruct C as [C|C]; [contradiction|].
      apply walk_static_ok; [exact Hlt|exact Lf|exact C].
    + destruct k as [t| | | |]; try discriminate Est; cbn [negb andb]; try (right; reflexivity).
      destruct (ty_copy tys t); cbn [negb]; [|right; reflexivity]. left.
      pose proof (kind_out_value_inv _ _ _ Ek) as Ht.
      assert (Hc : is_const_kind (s_op st (e_src e)) = false).
      { rewrite Eso. destruct (n_op ns); try reflexivity. cbn in Ht. rewrite nthN_nil in Ht. discriminate. }
      destruct (EO e Hin PL Hc) as (x & HA & HO). rewrite Hps in HA.
      inversion HA as [t0 tp0 H1 H2|t0 tp0 a0 H1 H2 H3]; subst.
      * rewrite Hpd in H1. inversion H1; subst tp0. inversion H2. congruence.
      * rewrite Hpd in H1. inversion H1; subst tp0. clear H1.
        rewrite (walk_value_ok (to_serial st) (redges (to_serial st)) (e_src e) fp Hlt (model_no_func _ M) _ tp x); [|exact Lf|exact H3].
        assert (HOE : has_order_edge (redges (to_serial st)) (e_src e) x = true).
        { destruct HO as [->|(o & Ho & Io)].
          - exfalso. pose proof (AncSib_parent _ _ _ _ H3) as Q. rewrite Hpd in Q. inversion Q. contradiction.
          - assert (Hx : exists ndx, nthN (s_nodes st) x = Some ndx /\ is_dfg (n_op ndx) = true).
            { assert (Htp : tp = n_parent nd) by (pose proof (s_parent_at _ _ _ End P2) as Q; rewrite Hpd in Q; now inversion Q).
              destruct (AncSib_cases _ _ _ _ H3) as [Ex|[c Hc']].
              - rewrite Ex, Htp. eapply (parent_is_dfg _ _ _ (proj1 G) M End P2).
              - unfold s_parent in Hc'. destruct (N.eqb_spec c 0); [discriminate|].
                destruct (nthN (s_nodes st) c) as [ndc|] eqn:Ec; [|discriminate]. cbn in Hc'. inversion Hc'; subst x.
                eapply (parent_is_dfg _ _ _ (proj1 G) M Ec n). }
            destruct Hx as (ndx & Ex & Dx).
            eapply order_link_resolves; [exact Ho|exact Io|exact Eso| |eapply model_out_ord; [exact (forallb_nthN _ _ _ _ M Ens)|exact Ht]|exact (is_dfg_ord_in _ Dx)].
            unfold s_op. now rewrite Ex. }
        now rewrite HOE.
  - (* an order link *)
    unfold shape_ok in Sh. rewrite Ea in Sh. cbn [is_some] in Sh. destruct (e_doff e) as [b|] eqn:Eb; [discriminate Sh|].
    cbn [constrain_out constrain_in] in Hr. rewrite Eso, Edo in Hr.
    destruct (kind_out (n_op ns) (base_out (n_op ns))) as [k|] eqn:Ek; [|discriminate]. inversion Hr; subst r; clear Hr. cbn [r_kind r_src r_dst].
    destruct (kind_out_base _ _ Ek) as [Est Hnv]. rewrite Est. cbn [negb andb]. right.
    destruct k; try reflexivity. elim (Hnv t). reflexivity.
Qed.

(* ------------------------------------------------------------------ the theorem *)
Lemma redges_classified tys st :
  Inv st -> ModelOps (s_nodes st) -> LinksPos st -> ExtOrder st -> ConstLinks st ->
  forall r, In r (redges (to_serial st)) ->
  let c := classify tys (to_serial st) (redges (to_serial st)) r in c = ELocal \/ c = EOk \/ c = ENonCopyable.
Proof.
  intros I M LP EO CL r Hr. unfold redges in Hr. apply in_flat_map in Hr. destruct Hr as (e' & He' & Hr).
  destruct (resolve (to_serial st) e') as [r'|] eqn:Er; [|destruct Hr]. destruct Hr as [<-|[]].
  rewrite to_serial_edges in He'. apply in_map_iff in He'. destruct He' as (e & <- & He).
  eapply classify_ok; eauto.
Qed.
Lemma no_code_of tys st c :
  Inv st -> ModelOps (s_nodes st) -> LinksPos st -> ExtOrder st -> ConstLinks st ->
  c <> ELocal -> c <> EOk -> c <> ENonCopyable -> no_code tys (to_serial st) c = true.
Proof.
  intros I M LP EO CL N1 N2 N3. unfold no_code. apply forallb_forall. intros r Hr. apply negb_true_iff.
  destruct (redges_classified tys st I M LP EO CL r Hr) as [E|[E|E]]; cbv zeta in E; rewrite E;
    destruct c; try reflexivity; congruence.
Qed.

Theorem run_nonlocal tys p g : run tys p = Ok g ->
  r_nonlocal_relation tys g = true /\ r_ext_order_edge tys g = true /\ r_dominance tys g = true.
Proof.
  unfold run. intros H. bd H. rename v into st. inversion H; subst; clear H.
  destruct (exec_prog_frame _ _ _ E) as [I (M & _ & LP)].
  pose proof (exec_prog_ext_order tys _ _ E) as EO. pose proof (exec_prog_const_links tys _ _ E) as CL.
  unfold r_nonlocal_relation, r_ext_order_edge, r_dominance.
  rewrite !(no_code_of tys st) by (auto; discriminate). auto.
Qed.

(* non-vacuity: a program with a non-local value edge (wire 1 used inside the nested region) and a non-local
   static edge (constant kept at the root, loaded inside the nested region); both are classified as good *)
Definition ex3_tys : list tyinfo := [TAtom true; TSum true [[]; []]].
Definition ex3_prog : prog :=
  PDfg [0] (Region [1]
    (SCons (SNested 1 [] (Region []
        (SCons (SLoad 2 (VSum 1 0 []) CRoot 2)
        (SCons (SOp 3 ONoop [1] [3]) SNil)) [2; 3]) [4; 5]) SNil) [5]).
Example ex3_nonlocal : exists g, run ex3_tys ex3_prog = Ok g /\
  valid {| v_tys := ex3_tys; v_main := g; v_subs := [] |} = true /\
  existsb (fun r => ecode_eqb (classify ex3_tys g (redges g) r) EOk && negb (is_static (r_kind r))) (redges g) = true /\
  existsb (fun r => ecode_eqb (classify ex3_tys g (redges g) r) EOk && is_static (r_kind r)) (redges g) = true.
Proof. eexists. split; [vm_compute; reflexivity|]. repeat split; vm_compute; reflexivity. Qed.
