(* C02 -- the round-trip theorems of proofs/SerialHugrP.v with the operation-level facts assumed only for the
   operations that OCCUR in the HUGR (a predicate P on operations that holds of every live node), instead of
   for all operations.  This is the form the concrete codec of C05 can discharge: its round-trip theorems hold
   for the operations a constructor can have built and whose encoding returns (OpOK), not for every value of
   the operation type.  proofs/SerialHugrP.v is unchanged; the three proofs below follow doc_canonical /
   roundtrip_fixpoint / roundtrip_iso there, reading the two facts at P (n_op n) for a node n of h.
   New here: [roundtrip_ops_on] -- the loaded operation at rank i is literally dec (enc o). *)
From Coq Require Import List Bool Arith Lia Permutation.
Import ListNotations.
From HV Require Import lib.Harness model.SerialHugr spec.SerialHugrS proofs.SerialHugrP.

Section On.
  Variables op sop md : Type.
  Variable enc : op -> sop.
  Variable dec : sop -> op.
  Variable ndp : op -> dir -> option nat.
  Variable md_nil : md.
  Variable md_is_nil : md -> bool.
  Variables vports sports : op -> dir -> nat.
  Variable has_order : op -> bool.
  Hypothesis ndp_spec : forall o d, ndp o d = if has_order o then Some (vports o d + sports o d) else None.
  Hypothesis md_nil_is_nil : md_is_nil md_nil = true.
  Hypothesis md_nil_unique : forall m, md_is_nil m = true -> m = md_nil.
  (* the operations the facts are known for *)
  Variable P : op -> Prop.
  Hypothesis enc_dec_enc : forall o, P o -> enc (dec (enc o)) = enc o.
  Hypothesis ndp_dec_enc : forall o d, P o -> ndp (dec (enc o)) d = ndp o d.

  Notation node := (node op md).
  Notation hugr := (hugr op md).
  Notation serial := (serial sop md).
  Notation to_serial := (to_serial enc ndp md_is_nil).
  Notation from_serial := (from_serial dec ndp md_nil).
  Notation guard_b := (guard_b vports sports has_order).
  Notation port_exists := (port_exists vports sports has_order).
  Notation addr := (addr vports sports).
  Notation get_meta := (get_meta sop md md_nil).
  Notation meta_of := (meta_of op md md_is_nil).
  Notation Canonical := (Canonical op sop md enc dec md_is_nil).
  Notation dec_off := (dec_off op md ndp).
  Notation dec_edge := (dec_edge op md ndp).
  Notation ischild := (ischild sop).
  Notation parent_or_self := (parent_or_self op md).
  Notation parent_fact := (parent_fact op md).

  Local Notation to_serial_doc := (SerialHugrP.to_serial_doc op sop md enc ndp md_nil md_is_nil vports sports has_order ndp_spec).
  Local Notation serial_index_sane := (SerialHugrP.serial_index_sane op sop md enc ndp md_nil md_is_nil vports sports has_order ndp_spec).
  Local Notation to_serial_total := (SerialHugrP.to_serial_total op sop md enc ndp md_nil md_is_nil vports sports has_order ndp_spec).
  Local Notation io_facts := (SerialHugrP.io_facts op md md_nil md_is_nil).
  Local Notation lives_In := (SerialHugrP.lives_In op md md_nil md_is_nil).
  Local Notation pe_facts := (SerialHugrP.pe_facts op md vports sports has_order).
  Local Notation ser_link_guarded := (SerialHugrP.ser_link_guarded op md ndp md_nil md_is_nil vports sports has_order ndp_spec).
  Local Notation meta_of_length := (SerialHugrP.meta_of_length op md md_is_nil).
  Local Notation live_lives := (SerialHugrP.live_lives op md).
  Local Notation meta_of_nonnil := (SerialHugrP.meta_of_nonnil op md md_is_nil).
  Local Notation from_serial_canonical := (SerialHugrP.from_serial_canonical op sop md enc dec ndp md_nil md_is_nil).
  Local Notation canonical_fixpoint := (SerialHugrP.canonical_fixpoint op sop md enc dec ndp md_nil md_is_nil md_nil_is_nil).
  Local Notation lives_incr := (SerialHugrP.lives_incr op md).
  Local Notation is_live_get := (SerialHugrP.is_live_get op md).
  Local Notation rank_injective := (SerialHugrP.rank_injective op md md_nil md_is_nil).
  Local Notation meta_of_nth := (SerialHugrP.meta_of_nth op md md_is_nil).
  Local Notation port_exists_live := (SerialHugrP.port_exists_live op md vports sports has_order).

  (* every live node carries an operation the facts are known for *)
  Definition OpsIn (h : hugr) : Prop := forall i n, get_node h i = Some n -> P (n_op n).

  Lemma doc_canonical_on (h : hugr) s : guard_b h = true -> OpsIn h -> to_serial h = Some s -> Canonical s.
  Proof.
    intros G HP Hs. pose proof (to_serial_doc h s G Hs) as D. destruct (serial_index_sane h s G Hs) as [Hr0 [S1 [S2 S3]]].
    destruct D as [Dl Dn De Dm]. pose proof G as G'. unfold SerialHugrS.guard_b in G'. apply andb_prop in G'.
    destruct G' as [Gi Gp]. destruct (io_facts h Gi) as [Hroot _].
    repeat split.
    - intros E. rewrite E in Dl. cbn in Dl. apply lives_In in Hroot. destruct (lives h); [contradiction|discriminate].
    - intros k x Hx. destruct k as [|k].
      + left. split; [reflexivity|]. destruct S1 as [r [Hr Hp]]. rewrite Hx in Hr. now injection Hr as ->.
      + right. split; [lia|]. apply S2; [lia|assumption].
    - apply S3. assumption.
    - apply S3. assumption.
    - rewrite De in H. apply in_map_iff in H. destruct H as [l [<- Hl]]. destruct (pe_facts h Gp l Hl) as [Ho Hi].
      destruct (ser_link_guarded h l Ho Hi) as [a [b [Ea [Eb _]]]]. unfold SerialHugrS.expected_edge. cbn. congruence.
    - rewrite De in H. apply in_map_iff in H. destruct H as [l [<- Hl]]. destruct (pe_facts h Gp l Hl) as [Ho Hi].
      destruct (ser_link_guarded h l Ho Hi) as [a [b [Ea [Eb _]]]]. unfold SerialHugrS.expected_edge. cbn. congruence.
    - intros y Hy. apply In_nth_error in Hy. destruct Hy as [k Hk].
      assert (Hk' : k < length (lives h)) by (rewrite <- Dl; apply nth_error_Some; congruence).
      destruct (nth_error (lives h) k) as [i|] eqn:Ei; [|apply nth_error_None in Ei; lia].
      destruct (Dn k i Ei) as [n [Hn Hy]]. rewrite Hk in Hy. injection Hy as ->. cbn. apply enc_dec_enc.
      exact (HP i n Hn).
    - exists (meta_of (h_nodes h)). split; [exact Dm|]. split.
      + rewrite (meta_of_length _ 0). fold (live h). now rewrite live_lives.
      + apply meta_of_nonnil.
  Qed.

  Theorem roundtrip_fixpoint_on (h : hugr) s : guard_b h = true -> OpsIn h -> to_serial h = Some s ->
    exists h', from_serial s = Some h' /\ to_serial h' = Some s.
  Proof.
    intros G HP Hs. pose proof (doc_canonical_on h s G HP Hs) as HC.
    destruct (from_serial_canonical s HC) as [ns [ns' [Hfs _]]]. eexists. split; [exact Hfs|].
    now apply canonical_fixpoint.
  Qed.

  Theorem roundtrip_fixpoint_total_on (h : hugr) : guard_b h = true -> OpsIn h ->
    exists s h', to_serial h = Some s /\ from_serial s = Some h' /\ to_serial h' = Some s.
  Proof.
    intros G HP. destruct (to_serial_total h G) as [s Hs]. destruct (roundtrip_fixpoint_on h s G HP Hs) as [h' [H1 H2]]. eauto.
  Qed.

  (* the loaded node at the rank of a live node: its operation is the decoded encoding, literally *)
  Lemma loaded_node_on (h : hugr) s ns ns' : guard_b h = true -> to_serial h = Some s ->
    Built op sop md dec md_nil s (s_nodes s) ns -> skel op md ns ns' ->
    forall i n, get_node h i = Some n ->
      exists nk nk', nth_error ns (rank h i) = Some nk /\ nth_error ns' (rank h i) = Some nk' /\
        n_op nk' = n_op nk /\ n_parent nk' = n_parent nk /\ n_children nk' = n_children nk /\ n_md nk' = n_md nk /\
        n_op nk = dec (enc (n_op n)) /\
        n_parent nk = (if rank h i =? 0 then None else Some (rank h (parent_or_self i n))) /\
        n_children nk = filter (ischild (s_nodes s) (rank h i)) (seq 0 (length (s_nodes s))) /\
        n_md nk = get_meta s (rank h i).
  Proof.
    intros G Hs [Hlen HB] [Hlen' Hsk]. pose proof (to_serial_doc h s G Hs) as [Dl Dn De Dm].
    assert (Hnth : forall i, is_live h i = true -> nth_error (lives h) (rank h i) = Some i).
    { intros i Hi. apply index_of_nth. apply index_of_rank; [apply lives_incr|now apply lives_In]. }
    intros i n Hn. assert (Hi : is_live h i = true) by (apply is_live_get; eauto).
    destruct (Dn _ _ (Hnth i Hi)) as [n' [Hn' Hy]]. rewrite Hn in Hn'. injection Hn' as <-.
    destruct (HB _ _ Hy) as [nk [Hnk [Hop [Hpar [Hch [Hmd _]]]]]].
    destruct (Hsk _ _ Hnk) as [nk' [Hnk' [E1 [E2 [E3 E4]]]]]. exists nk, nk'. cbn in Hop, Hpar. repeat split; assumption.
  Qed.

  Theorem roundtrip_iso_on (h : hugr) s : guard_b h = true -> OpsIn h -> to_serial h = Some s ->
    exists h', from_serial s = Some h' /\ Iso enc h h' /\
      (forall i n, get_node h i = Some n ->
         exists n', get_node h' (rank h i) = Some n' /\ n_op n' = dec (enc (n_op n))).
  Proof.
    intros G HP Hs. pose proof (doc_canonical_on h s G HP Hs) as HC.
    destruct (from_serial_canonical s HC) as [ns [ns' [Hfs [HBu HSk]]]].
    pose proof (loaded_node_on h s ns ns' G Hs HBu HSk) as Hnode.
    destruct HBu as [Hlen HB]. destruct HSk as [Hlen' Hsk].
    eexists. split; [exact Hfs|].
    pose proof (to_serial_doc h s G Hs) as [Dl Dn De Dm]. destruct (serial_index_sane h s G Hs) as [Hr0 _].
    pose proof G as G'. unfold SerialHugrS.guard_b in G'. apply andb_prop in G'. destruct G' as [Gi Gp].
    destruct (io_facts h Gi) as [Hroot F].
    assert (Hnth : forall i, is_live h i = true -> nth_error (lives h) (rank h i) = Some i).
    { intros i Hi. apply index_of_nth. apply index_of_rank; [apply lives_incr|now apply lives_In]. }
    split; [constructor|].
    - (* no holes, as many nodes as live nodes *)
      intros k. unfold is_live. cbn [h_nodes]. rewrite nth_error_map. rewrite <- Dl, <- Hlen, Hlen'.
      destruct (nth_error ns' k) eqn:E; cbn; split; intros H; try reflexivity; try discriminate.
      + apply nth_error_Some. congruence.
      + apply nth_error_None in E. lia.
    - intros i n Hn. assert (Hi : is_live h i = true) by (apply is_live_get; eauto).
      destruct (Hnode i n Hn) as [nk [nk' [Hnk [Hnk' [E1 [E2 [E3 [E4 [Hop [Hpar [Hch Hmd]]]]]]]]]]].
      destruct (F i Hi) as [n' [Hn' [Hp Hc]]]. rewrite Hn in Hn'. injection Hn' as <-.
      exists nk'. split; [unfold get_node; cbn [h_nodes]; now rewrite nth_error_map, Hnk'|].
      split; [rewrite E1, Hop; apply enc_dec_enc; exact (HP i n Hn)|]. split; [|split].
      + (* parent *)
        rewrite E2, Hpar. unfold SerialHugrP.parent_or_self, SerialHugrP.parent_fact in *. destruct (n_parent n) as [p|]; cbn [option_map].
        * destruct Hp as [_ [_ Hne]]. destruct (Nat.eqb_spec (rank h i) 0) as [E|_]; [|reflexivity].
          exfalso. apply Hne. apply (rank_injective h); [assumption..|congruence].
        * subst i. now rewrite Hr0.
      + (* children, in order *)
        rewrite E3, Hch, Hc, Dl, <- (map_rank_seq (lives h) (lives_incr h)), filter_map_comm.
        f_equal. apply filter_ext_in. intros c Hc'. apply lives_In in Hc'. fold (rank h c).
        unfold SerialHugrP.ischild. destruct (proj1 (is_live_get h c) Hc') as [nc Hnc].
        destruct (Dn _ _ (Hnth c Hc')) as [nc' [Hnc' Hy]]. rewrite Hnc in Hnc'. injection Hnc' as <-. rewrite Hy. cbn [s_parent snode_of].
        destruct (F c Hc') as [nc' [Hnc' [Hpc _]]]. rewrite Hnc in Hnc'. injection Hnc' as <-.
        unfold is_child, parent_of. rewrite Hnc. unfold SerialHugrP.parent_or_self, SerialHugrP.parent_fact in *.
        destruct (n_parent nc) as [q|].
        * destruct Hpc as [Hq [_ Hne]].
          assert (rank h c <> 0) by (intros E; apply Hne; apply (rank_injective h); [assumption..|congruence]).
          destruct (Nat.ltb_spec 0 (rank h c)); [|lia]. cbn [andb].
          destruct (Nat.eqb_spec q i) as [->|Hqi]; [now rewrite Nat.eqb_refl|].
          destruct (Nat.eqb_spec (rank h q) (rank h i)) as [E|_]; [|reflexivity].
          exfalso. apply Hqi. now apply (rank_injective h).
        * subst c. rewrite Hr0. reflexivity.
      + (* metadata *)
        rewrite E4, Hmd. unfold SerialHugr.get_meta. rewrite Dm.
        pose proof (Hnth i Hi) as Hk. rewrite <- live_lives in Hk. unfold live in Hk.
        destruct (meta_of_nth (h_nodes h) 0 _ _ Hk) as [n' [Hn' Hm]]. rewrite Nat.sub_0_r in Hn'.
        unfold get_node in Hn. rewrite Hn' in Hn. injection Hn as ->.
        destruct (meta_of (h_nodes h)) as [|m0 M] eqn:EM; [destruct (rank h i); discriminate|].
        rewrite Hm. destruct (md_is_nil (n_md n)) eqn:En; [symmetry; now apply md_nil_unique|reflexivity].
    - cbn [h_root]. now rewrite Hr0.
    - (* links: the same list, renumbered; order links stay order links *)
      cbn [h_links]. rewrite De, map_map. erewrite map_ext_in; [apply Permutation_refl|].
      intros l Hl. destruct (pe_facts h Gp l Hl) as [Ho Hi].
      assert (Hoff : forall p d, port_exists h p d = true ->
                dec_off ns (rank h (fst p)) (off_of (addr h p d)) d = snd p).
      { intros p d Hp. pose proof (port_exists_live h p d Hp) as Hlp. unfold SerialHugrS.port_exists in Hp.
        destruct (get_node h (fst p)) as [n|] eqn:En; [|discriminate].
        destruct (Hnode _ _ En) as [nk [_ [Hnk [_ [_ [_ [_ [_ [Hop _]]]]]]]]].
        unfold SerialHugrP.dec_off. rewrite Hnk, Hop, (ndp_dec_enc _ _ (HP _ _ En)), ndp_spec. unfold SerialHugrS.addr. rewrite En.
        destruct (has_order (n_op n)); destruct (snd p) as [|k]; cbn [off_of]; try discriminate; try reflexivity.
        - now rewrite Nat.eqb_refl.
        - apply Nat.ltb_lt in Hp. destruct (Nat.eqb_spec k (vports (n_op n) d + sports (n_op n) d)); [lia|reflexivity]. }
      unfold SerialHugrP.dec_edge, SerialHugrS.expected_edge, rename_link, rename_port. cbn [fst snd].
      rewrite (Hoff _ _ Ho), (Hoff _ _ Hi). reflexivity.
    - (* the loaded operations *)
      intros i n Hn. destruct (Hnode i n Hn) as [nk [nk' [_ [Hnk' [E1 [_ [_ [_ [Hop _]]]]]]]]].
      exists nk'. split; [unfold get_node; cbn [h_nodes]; now rewrite nth_error_map, Hnk'|congruence].
  Qed.
End On.
Arguments OpsIn {op md}.
