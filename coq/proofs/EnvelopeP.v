(* Proofs for C09: header laws for all byte strings; envelope round trip modulo the oracles. *)
From Coq Require Import NArith List Bool Lia Arith.
Import ListNotations.
From HV Require Import lib.Harness model.Envelope.
Open Scope N_scope.

Lemma bytes_eqb_spec a b : reflect (a = b) (bytes_eqb a b).
Proof. apply list_eqb_spec. exact N.eqb_spec. Qed.

Lemma fmt_of_value f : fmt_of (fmt_value f) = Some f.
Proof. destruct f; reflexivity. Qed.
Lemma fmt_of_some b f : fmt_of b = Some f -> b = fmt_value f.
Proof.
  unfold fmt_of. destruct (N.eqb_spec b 1); [intros [= <-]; assumption|].
  destruct (N.eqb_spec b 2); [intros [= <-]; assumption|].
  destruct (N.eqb_spec b 63); [intros [= <-]; assumption|discriminate].
Qed.
Lemma fmt_of_none b : fmt_of b = None <-> b <> 1 /\ b <> 2 /\ b <> 63.
Proof.
  unfold fmt_of. destruct (N.eqb_spec b 1); [split; [discriminate|tauto]|].
  destruct (N.eqb_spec b 2); [split; [discriminate|tauto]|].
  destruct (N.eqb_spec b 63); [split; [discriminate|tauto]|tauto].
Qed.

Lemma land1_odd n : negb (N.land n 1 =? 0) = N.odd n.
Proof. destruct n as [|[p|p|]]; reflexivity. Qed.

(* documented layout of the ten header bytes *)
Theorem header_layout h :
  exists flags, header_to_bytes h = MAGIC ++ [fmt_value (hformat h); flags] /\
    N.testbit flags 0 = hzstd h /\ N.testbit flags 7 = false /\ N.testbit flags 6 = true /\
    length (header_to_bytes h) = 10%nat.
Proof. destruct h as [f z]. eexists. split; [reflexivity|]. destruct z; repeat split. Qed.

Theorem header_roundtrip h rest : header_from_bytes (header_to_bytes h ++ rest) = Ok h.
Proof. destruct h as [[] []]; reflexivity. Qed.

(* exact characterisation of what the header decoder accepts, for every byte string *)
Theorem header_accepts_iff d h :
  header_from_bytes d = Ok h <->
  exists flags rest, d = MAGIC ++ [fmt_value (hformat h); flags] ++ rest /\ hzstd h = N.odd flags.
Proof.
  unfold header_from_bytes. split.
  - destruct (Nat.ltb_spec (length d) 10); [discriminate|].
    destruct (bytes_eqb_spec (firstn 8 d) MAGIC) as [Hm|]; [|discriminate]. cbn [negb].
    destruct (fmt_of (nth 8 d 0)) as [f|] eqn:Hf; [|discriminate]. intros [= <-]. cbn [hformat hzstd].
    apply fmt_of_some in Hf.
    do 10 (destruct d as [|? d]; [cbn in *; lia|]). cbn in Hm, Hf. injection Hm as -> -> -> -> -> -> -> ->.
    subst. eexists _, d. split; [reflexivity|].
    apply land1_odd.
  - intros (flags & rest & -> & Hz). destruct h as [f z]. cbn [hformat hzstd] in *. subst z.
    cbn [length app MAGIC]. cbn [firstn nth]. change (bytes_eqb _ MAGIC) with (bytes_eqb MAGIC MAGIC).
    destruct (bytes_eqb_spec MAGIC MAGIC); [|congruence]. cbn [negb Nat.ltb Nat.leb].
    rewrite fmt_of_value. f_equal. f_equal. apply land1_odd.
Qed.

(* too short, different magic number, or unknown format byte: ValueError, never decoded *)
Theorem header_rejects d :
  (length d < 10)%nat \/ firstn 8 d <> MAGIC \/ (nth 8 d 0 <> 1 /\ nth 8 d 0 <> 2 /\ nth 8 d 0 <> 63) ->
  header_from_bytes d = Err ValueError.
Proof.
  unfold header_from_bytes. intros H.
  destruct (Nat.ltb_spec (length d) 10); [reflexivity|].
  destruct (bytes_eqb_spec (firstn 8 d) MAGIC); cbn [negb]; [|reflexivity].
  destruct (fmt_of (nth 8 d 0)) eqn:Hf; [|reflexivity].
  exfalso. destruct H as [H|[H|H]]; [lia|contradiction|]. apply fmt_of_none in H. congruence.
Qed.
Theorem header_total d : header_from_bytes d = Err ValueError \/ exists h, header_from_bytes d = Ok h.
Proof.
  unfold header_from_bytes. destruct (Nat.ltb (length d) 10); [now left|].
  destruct (negb _); [now left|]. destruct (fmt_of _); [right; eauto|now left].
Qed.

(* the finite sweep over all 2^16 (format, flags) byte pairs, inside Coq *)
Definition sweep_ok (fb fl : N) : bool :=
  match header_from_bytes (MAGIC ++ [fb; fl]), fmt_of fb with
  | Ok h, Some f => (fmt_value (hformat h) =? fb) && Bool.eqb (hzstd h) (N.odd fl)
  | Err ValueError, None => true
  | _, _ => false
  end.
Definition all_bytes : list N := map N.of_nat (seq 0 256).
Theorem header_sweep_all_pairs :
  forallb (fun fb => forallb (fun fl => sweep_ok fb fl) all_bytes) all_bytes = true.
Proof. vm_compute. reflexivity. Qed.

Section RT.
  Variable package : Type.
  Variable json_payload : package -> bytes.
  Variable json_parse : bytes -> option package.
  Variable compress : N -> bytes -> bytes.
  Variable decompress : bytes -> option bytes.
  Variable utf8_ok : bytes -> bool.
  Hypothesis zstd_inverse : forall lvl p, decompress (compress lvl p) = Some p.
  Hypothesis json_inverse : forall p, json_parse (json_payload p) = Some p.

  Lemma skipn_header h rest : skipn 10 (header_to_bytes h ++ rest) = rest.
  Proof. destruct h as [[] []]; reflexivity. Qed.

  (* every JSON configuration, compressed at any level or not *)
  Theorem envelope_roundtrip p c e : make_envelope package json_payload compress p c = Ok e ->
    read_envelope package json_parse decompress e = Ok p.
  Proof.
    unfold make_envelope, read_envelope. destruct c as [f z]. cbn [cformat czstd].
    destruct f; try discriminate. intros H.
    match type of H with Ok ?x = Ok _ => assert (He : x = e) by congruence end. subst e. clear H.
    rewrite header_roundtrip, skipn_header. unfold make_header. cbn [hformat hzstd cformat czstd].
    destruct z as [lvl|].
    - rewrite zstd_inverse, json_inverse. reflexivity.
    - rewrite json_inverse. reflexivity.
  Qed.
  Theorem envelope_header_is_documented p c e : make_envelope package json_payload compress p c = Ok e ->
    firstn 10 e = header_to_bytes (make_header c) /\
    hzstd (make_header c) = match czstd c with Some _ => true | None => false end.
  Proof.
    unfold make_envelope. destruct c as [f z]. cbn [cformat czstd]. destruct f; try discriminate.
    intros H. match type of H with Ok ?x = Ok _ => assert (He : x = e) by congruence end. subst e. clear H.
    split; [|reflexivity]. unfold make_header; cbn [cformat czstd]. destruct z; reflexivity.
  Qed.
  (* text encoding is offered only for ASCII-printable formats *)
  Theorem str_only_ascii_formats p c e :
    make_envelope_str package json_payload compress utf8_ok p c = Ok e -> cformat c = JSON.
  Proof. unfold make_envelope_str. destruct (cformat c); cbn; try discriminate; reflexivity. Qed.
  Theorem str_roundtrip p c e :
    make_envelope_str package json_payload compress utf8_ok p c = Ok e ->
    read_envelope package json_parse decompress e = Ok p.
  Proof.
    unfold make_envelope_str. destruct (negb _); [discriminate|].
    destruct (make_envelope _ _ _ p c) as [e'|] eqn:E; [|discriminate].
    destruct (utf8_ok e'); [|discriminate]. intros [= <-]. eapply envelope_roundtrip; eassumption.
  Qed.
  (* unknown / truncated input is rejected before any decoding *)
  Theorem read_rejects e : header_from_bytes e = Err ValueError ->
    read_envelope package json_parse decompress e = Err ValueError.
  Proof. unfold read_envelope. now intros ->. Qed.

  (* histories on ONE package object (encode, change it, encode again ...): what an encoding returns depends
     only on the contents the object has at that moment and on the configuration, not on earlier steps *)
  Theorem history_fresh s : forall p q r,
    In (q, r) (run_steps package json_payload compress utf8_ok p s) ->
    exists c, r = make_envelope package json_payload compress q c \/
              r = make_envelope_str package json_payload compress utf8_ok q c.
  Proof.
    induction s as [|[c|c|f] s IH]; intros p q r; cbn [run_steps In].
    - tauto.
    - intros [H|H]; [|eauto]. injection H as Hp Hr. subst. eauto.
    - intros [H|H]; [|eauto]. injection H as Hp Hr. subst. eauto.
    - eauto.
  Qed.
  (* ... and every envelope a history produces decodes to the contents the object had when it was encoded *)
  Theorem history_roundtrip s p q e :
    In (q, Ok e) (run_steps package json_payload compress utf8_ok p s) ->
    read_envelope package json_parse decompress e = Ok q.
  Proof.
    intros H. apply history_fresh in H. destruct H as (c & [H|H]); symmetry in H.
    - eapply envelope_roundtrip; eassumption.
    - eapply str_roundtrip; eassumption.
  Qed.
End RT.

(* non-trivial instance: contents = a version number bumped by each change; the second encoding carries 1 *)
Example history_example :
  map snd (run_steps N (fun v => [v]) (fun _ b => b) (fun _ => true) 0
             [SEncode N {| cformat := JSON; czstd := None |}; SMutate N N.succ;
              SEncodeStr N {| cformat := JSON; czstd := None |}])
  = [Ok (MAGIC ++ [63; 64; 0]); Ok (MAGIC ++ [63; 64; 1])].
Proof. reflexivity. Qed.
