(* Proofs for C07: the computed bound is Copyable exactly when every constituent can be copied. *)
From Coq Require Import NArith List Bool Arith Lia.
Import ListNotations.
From HV Require Import lib.Harness model.Types spec.TypesS gen.StdBounds.

(* ------------------------------------------------------------------ join *)
Fixpoint join_go (res : bound) (l : list bound) : bound :=
  match l with
  | [] => res
  | Any :: _ => Any
  | b :: r => join_go (match res with Copyable => b | _ => res end) r
  end.
Lemma join_unfold bs : join bs = join_go Copyable bs.
Proof. reflexivity. Qed.

Lemma join_go_copyable res l : join_go res l = Copyable <-> res = Copyable /\ Forall (eq Copyable) l.
Proof.
  revert res. induction l as [|b r IH]; intros res; cbn [join_go].
  - split; [intros ->; split; constructor | intros [H _]; exact H].
  - destruct b.
    + rewrite IH. destruct res; split; intros [H1 H2]; try discriminate; split; auto.
      inversion H2; auto.
    + split; [discriminate|]. intros [_ H]. inversion H; discriminate.
Qed.

Lemma join_copyable_iff bs : join bs = Copyable <-> Forall (eq Copyable) bs.
Proof. rewrite join_unfold, join_go_copyable. tauto. Qed.

Lemma join_any_iff bs : join bs = Any <-> In Any bs.
Proof.
  destruct (join bs) eqn:E.
  - apply join_copyable_iff in E. split; [discriminate|]. intros H.
    rewrite Forall_forall in E. specialize (E _ H). discriminate.
  - split; [intros _|reflexivity].
    destruct (in_dec (fun a b : bound => ltac:(decide equality) : {a = b} + {a <> b}) Any bs) as [H|H]; [exact H|].
    assert (Hc : join bs = Copyable); [|congruence].
    apply join_copyable_iff. apply Forall_forall. intros [] Hx; [reflexivity|contradiction].
Qed.

(* least upper bound in the order Copyable <= Any *)
Lemma join_is_lub bs : is_lub bs (join bs).
Proof.
  split.
  - intros b Hb. destruct b; [reflexivity|]. apply join_any_iff in Hb. rewrite Hb. reflexivity.
  - intros u Hu. destruct (join bs) eqn:E; [reflexivity|].
    apply join_any_iff in E. exact (Hu _ E).
Qed.
Lemma join_singleton b : join [b] = b.
Proof. destruct b; reflexivity. Qed.
Lemma join_app_copy a b : join (a ++ b) = Copyable <-> join a = Copyable /\ join b = Copyable.
Proof. rewrite !join_copyable_iff, Forall_app. tauto. Qed.

(* ------------------------------------------------------------------ unfolding the nested loops *)
Lemma tbound_sum rs : tbound (TSum rs) = match rows_bounds rs with Some bs => Some (join bs) | None => None end.
Proof.
  simpl.
  match goal with |- match ?R rs with _ => _ end = _ => assert (H : forall l, R l = rows_bounds l) end.
  { induction l as [|x r IH]; [reflexivity|]. cbn [rows_bounds]. rewrite <- IH.
    match goal with |- match ?R x with _ => _ end = _ => assert (H : forall l, R l = row_bounds l) end.
    { induction l as [|y s IHs]; [reflexivity|]. unfold row_bounds in *. cbn [mapO]. rewrite <- IHs. reflexivity. }
    rewrite H. reflexivity. }
  rewrite H. reflexivity.
Qed.

Lemma tbound_ext_elem d a i :
  tbound (TExt d a (ElemAt i)) = match at_idx a i with Some (Some b) => Some b | _ => None end.
Proof.
  simpl.
  match goal with |- match ?R a i with _ => _ end = _ => assert (H : forall l k, R l k = at_idx l k) end.
  { induction l as [|x r IH]; intros k.
    - destruct k; reflexivity.
    - destruct k as [|k]; [destruct x; reflexivity|]. unfold at_idx. cbn [nth_error].
      destruct x; apply IH. }
  rewrite H. reflexivity.
Qed.

Lemma tbound_ext_generic d a :
  tbound (TExt d a Generic) =
  match td_bound d with Explicit b => Some b | FromParams idx => from_params a idx [] end.
Proof.
  simpl. destruct (td_bound d) as [b|idx]; [reflexivity|].
  generalize (@nil bound). induction idx as [|i r IH]; intros acc; [reflexivity|].
  cbn [from_params].
  match goal with |- ?L = ?R => let L' := eval simpl in L in change (L' = R) end.
  match goal with |- match ?R a i with _ => _ end = _ => assert (H : forall l k, R l k = at_idx l k) end.
  { induction l as [|x s IHs]; intros k.
    - destruct k; reflexivity.
    - destruct k as [|k]; [destruct x; reflexivity|]. unfold at_idx. cbn [nth_error].
      destruct x; apply IHs. }
  rewrite H. destruct (at_idx a i) as [[b|]|]; [apply IH|apply IH|reflexivity].
Qed.

Lemma classes_ok_sum rs : classes_ok (TSum rs) = forallb (forallb classes_ok) rs.
Proof. reflexivity. Qed.
Lemma classes_ok_ext d a c :
  classes_ok (TExt d a c) =
  forallb arg_ok a &&
  match c with
  | Generic => true
  | ElemAt i => defbound_eqb (td_bound d) (FromParams [i]) ||
                (defbound_eqb (td_bound d) (Explicit Copyable) &&
                 match at_idx a i with Some (Some Copyable) => true | _ => false end)
  end.
Proof. reflexivity. Qed.

Lemma copy_b_sum rs : copy_b (TSum rs) = forallb (forallb copy_b) rs.
Proof. reflexivity. Qed.
Definition copy_at (a : list tyarg) (i : nat) : bool :=
  match nth_error a i with Some (AType t) => copy_b t | _ => true end.
Lemma copy_b_ext d a c :
  copy_b (TExt d a c) =
  match td_bound d with Explicit b => bound_eqb b Copyable | FromParams idx => forallb (copy_at a) idx end.
Proof.
  simpl. destruct (td_bound d) as [b|idx]; [reflexivity|].
  induction idx as [|i r IH]; [reflexivity|]. cbn [forallb]. rewrite <- IH. f_equal.
  unfold copy_at. clear. revert i. induction a as [|x s IHs]; intros i.
  - destruct i; reflexivity.
  - destruct i as [|i]; [destruct x; reflexivity|]. cbn [nth_error]. destruct x; apply IHs.
Qed.

Lemma wf_b_sum rs : wf_b (TSum rs) = forallb (forallb wf_b) rs.
Proof. reflexivity. Qed.
Lemma wf_b_ext d a c :
  wf_b (TExt d a c) =
  forallb wf_arg a &&
  match td_bound d with Explicit _ => true | FromParams idx => forallb (fun i => Nat.ltb i (length a)) idx end &&
  match c with Generic => true | ElemAt i => match nth_error a i with Some (AType _) => true | _ => false end end.
Proof. reflexivity. Qed.

(* ------------------------------------------------------------------ small facts *)
Lemma bound_eqb_eq a b : bound_eqb a b = true <-> a = b.
Proof. destruct a, b; cbn; split; congruence. Qed.
Lemma nat_list_eqb_eq (a b : list nat) : list_eqb Nat.eqb a b = true -> a = b.
Proof.
  revert b. induction a as [|x r IH]; intros [|y s]; cbn; try congruence.
  intros H. apply andb_true_iff in H as [H1 H2]. apply Nat.eqb_eq in H1. f_equal; auto.
Qed.
Lemma defbound_eqb_eq a b : defbound_eqb a b = true -> a = b.
Proof.
  destruct a, b; cbn; try discriminate; intros H.
  - apply bound_eqb_eq in H. congruence.
  - apply nat_list_eqb_eq in H. congruence.
Qed.

Lemma mapO_Forall2 {A B} (f : A -> option B) l ys : mapO f l = Some ys -> Forall2 (fun x y => f x = Some y) l ys.
Proof.
  revert ys. induction l as [|x r IH]; cbn; intros ys H.
  - injection H as <-. constructor.
  - destruct (f x) eqn:E; [|discriminate]. destruct (mapO f r); [|discriminate].
    injection H as <-. constructor; auto.
Qed.

(* ------------------------------------------------------------------ the main theorem *)
Definition P (t : ty) : Prop :=
  classes_ok t = true -> forall b, tbound t = Some b -> (b = Copyable <-> Copy t).
Definition Q (a : tyarg) : Prop := forall t, a = AType t -> P t.

Lemma row_copy l bs : Forall P l -> forallb classes_ok l = true -> row_bounds l = Some bs ->
  (Forall (eq Copyable) bs <-> Forall Copy l).
Proof.
  unfold row_bounds. intros HP. revert bs. induction HP as [|x r Hx _ IH]; cbn; intros bs Hc Hb.
  - injection Hb as <-. split; constructor.
  - apply andb_true_iff in Hc as [Hc1 Hc2].
    destruct (tbound x) as [b|] eqn:Ex; [|discriminate]. destruct (mapO tbound r) as [bs'|]; [|discriminate].
    injection Hb as <-. specialize (IH _ Hc2 eq_refl). specialize (Hx Hc1 _ Ex).
    split; intros H; inversion H; subst; constructor; try tauto. apply eq_sym. tauto.
Qed.
Lemma rows_copy rs bs : Forall (Forall P) rs -> forallb (forallb classes_ok) rs = true ->
  rows_bounds rs = Some bs -> (Forall (eq Copyable) bs <-> Forall (Forall Copy) rs).
Proof.
  intros HP. revert bs. induction HP as [|x r Hx _ IH]; cbn [rows_bounds forallb]; intros bs Hc Hb.
  - injection Hb as <-. split; constructor.
  - apply andb_true_iff in Hc as [Hc1 Hc2].
    destruct (row_bounds x) as [b|] eqn:Ex; [|discriminate]. destruct (rows_bounds r) as [bs'|]; [|discriminate].
    injection Hb as <-. specialize (IH _ Hc2 eq_refl). pose proof (row_copy _ _ Hx Hc1 Ex) as Hr.
    rewrite Forall_app. split; [intros [H1 H2]; constructor; tauto|intros H; inversion H; subst; tauto].
Qed.

Definition idx_copy (a : list tyarg) (i : nat) : Prop := forall t, nth_error a i = Some (AType t) -> Copy t.

Lemma from_params_copy a : Forall Q a -> forallb arg_ok a = true ->
  forall idx acc b, from_params a idx acc = Some b ->
  (b = Copyable <-> Forall (eq Copyable) acc /\ Forall (idx_copy a) idx).
Proof.
  intros HQ Hok. induction idx as [|i r IH]; intros acc b H; cbn [from_params] in H.
  - injection H as <-. rewrite join_copyable_iff. split.
    + intros H. split; [|constructor]. apply Forall_rev in H. rewrite rev_involutive in H. exact H.
    + intros [H _]. apply Forall_rev. exact H.
  - unfold at_idx in H. destruct (nth_error a i) as [x|] eqn:En; [|discriminate].
    assert (Hnt : (forall t, x <> AType t) -> from_params a r acc = Some b ->
                  (b = Copyable <-> Forall (eq Copyable) acc /\ Forall (idx_copy a) (i :: r))).
    { intros Hx H'. rewrite (IH _ _ H'). split; intros [H1 H2]; split; auto.
      - constructor; auto. intros t Ht. rewrite En in Ht. injection Ht as ->. now destruct (Hx t).
      - inversion H2; auto. }
    destruct x as [t| | | | |]; try (apply Hnt; [intros t; discriminate|exact H]).
    destruct (tbound t) as [bt|] eqn:Et; [|discriminate].
    rewrite (IH _ _ H).
    assert (Ht : bt = Copyable <-> Copy t).
    { rewrite Forall_forall in HQ. apply nth_error_In in En as Hin. apply (HQ _ Hin t eq_refl); [|exact Et].
      rewrite forallb_forall in Hok. apply (Hok _ Hin). }
    split.
    + intros [H1 H2]. inversion H1; subst. split; auto. constructor; auto.
      intros t' Ht'. rewrite En in Ht'. injection Ht' as <-. tauto.
    + intros [H1 H2]. inversion H2 as [|? ? Hi Hr]; subst. split; auto. constructor; auto.
      apply eq_sym. apply Ht. apply Hi. exact En.
Qed.

Lemma Copy_ext_params d a c idx : td_bound d = FromParams idx ->
  (Copy (TExt d a c) <-> Forall (idx_copy a) idx).
Proof.
  intros Hd. split.
  - intros H. inversion H; subst; [congruence|]. assert (idx0 = idx) by congruence. subst. assumption.
  - intros H. eapply CExtParams; eauto.
Qed.
Lemma Copy_ext_explicit d a c b : td_bound d = Explicit b -> (Copy (TExt d a c) <-> b = Copyable).
Proof.
  intros Hd. split.
  - intros H. inversion H; subst; congruence.
  - intros ->. now apply CExtExplicit.
Qed.

Lemma bound_copy_all : forall t, P t.
Proof.
  apply (ty_ind2 P Q); unfold P, Q.
  - (* Sum *) intros rs IH Hc b Hb. rewrite tbound_sum in Hb. rewrite classes_ok_sum in Hc.
    destruct (rows_bounds rs) as [bs|] eqn:E; [|discriminate]. injection Hb as <-.
    rewrite join_copyable_iff, (rows_copy _ _ IH Hc E).
    split; [apply CSum|intros H; inversion H; assumption].
  - intros n _ b H. injection H as <-. split; [constructor|reflexivity].
  - intros i b _ b' H. injection H as <-. split; [intros ->; constructor|intros H; inversion H; reflexivity].
  - intros i b _ b' H. injection H as <-. split; [intros ->; constructor|intros H; inversion H; reflexivity].
  - intros _ b H. injection H as <-. split; [constructor|reflexivity].
  - intros _ b H. injection H as <-. split; [discriminate|intros H; inversion H].
  - intros n b _ b' H. injection H as <-. split; [intros ->; constructor|intros H; inversion H; reflexivity].
  - intros i o r _ _ _ b H. injection H as <-. split; [constructor|reflexivity].
  - intros ps i o r _ _ _ b H. injection H as <-. split; [constructor|reflexivity].
  - intros e id a b _ _ b' H. injection H as <-. split; [intros ->; constructor|intros H; inversion H; reflexivity].
  - (* ExtType *) intros d a c HQ Hc b Hb. rewrite classes_ok_ext in Hc. apply andb_true_iff in Hc as [Ha Hc].
    destruct c as [|i].
    + rewrite tbound_ext_generic in Hb. destruct (td_bound d) as [b0|idx] eqn:Ed.
      * injection Hb as <-. rewrite (Copy_ext_explicit _ _ _ _ Ed). tauto.
      * rewrite (Copy_ext_params _ _ _ _ Ed). rewrite (from_params_copy a HQ Ha _ _ _ Hb).
        split; [tauto|intros H; split; [constructor|exact H]].
    + rewrite tbound_ext_elem in Hb. apply orb_true_iff in Hc as [Hc|Hc].
      * apply defbound_eqb_eq in Hc. rewrite (Copy_ext_params _ _ _ _ Hc).
        destruct (at_idx a i) as [[bi|]|] eqn:Ei; try discriminate. injection Hb as <-.
        assert (Hf : from_params a [i] [] = Some bi).
        { cbn [from_params]. rewrite Ei. cbn [rev app]. now rewrite join_singleton. }
        rewrite (from_params_copy a HQ Ha _ _ _ Hf). split; [tauto|intros H; split; [constructor|exact H]].
      * apply andb_true_iff in Hc as [Hc1 Hc2]. apply defbound_eqb_eq in Hc1.
        rewrite (Copy_ext_explicit _ _ _ _ Hc1).
        destruct (at_idx a i) as [[[|]|]|]; try discriminate. injection Hb as <-. tauto.
  - intros t H t' E. injection E as <-. exact H.
  - discriminate. - discriminate. - discriminate. - discriminate. - discriminate.
Qed.

Theorem bound_copyable_iff : forall t, classes_ok t = true -> tbound t <> None ->
  (tbound t = Some Copyable <-> Copy t).
Proof.
  intros t Hc Hn. destruct (tbound t) as [b|] eqn:E; [|congruence].
  rewrite <- (bound_copy_all t Hc b E). split; congruence.
Qed.

(* the boolean spec reflects the inductive one (no guard needed) *)
Lemma copy_b_spec : forall t, copy_b t = true <-> Copy t.
Proof.
  apply (ty_ind2 (fun t => copy_b t = true <-> Copy t)
                 (fun a => forall t, a = AType t -> (copy_b t = true <-> Copy t))).
  - intros rs IH. rewrite copy_b_sum.
    assert (H : forallb (forallb copy_b) rs = true <-> Forall (Forall Copy) rs).
    { induction IH as [|x r Hx _ IHr]; cbn [forallb]; [split; constructor|].
      rewrite andb_true_iff, IHr.
      assert (Hr : forallb copy_b x = true <-> Forall Copy x).
      { induction Hx as [|y s Hy _ IHs]; cbn [forallb]; [split; constructor|].
        rewrite andb_true_iff, IHs, Hy. split; [intros []; constructor; auto|intros H; inversion H; auto]. }
      rewrite Hr. split; [intros []; constructor; auto|intros H; inversion H; auto]. }
    rewrite H. split; [apply CSum|intros H'; inversion H'; assumption].
  - intros; cbn; split; [constructor|reflexivity].
  - intros i b; cbn. rewrite bound_eqb_eq. split; [intros ->; constructor|intros H; inversion H; reflexivity].
  - intros i b; cbn. rewrite bound_eqb_eq. split; [intros ->; constructor|intros H; inversion H; reflexivity].
  - cbn; split; [constructor|reflexivity].
  - cbn; split; [discriminate|intros H; inversion H].
  - intros n b; cbn. rewrite bound_eqb_eq. split; [intros ->; constructor|intros H; inversion H; reflexivity].
  - intros; cbn; split; [constructor|reflexivity].
  - intros; cbn; split; [constructor|reflexivity].
  - intros e id a b _; cbn. rewrite bound_eqb_eq. split; [intros ->; constructor|intros H; inversion H; reflexivity].
  - intros d a c HQ. rewrite copy_b_ext. destruct (td_bound d) as [b|idx] eqn:Ed.
    + rewrite (Copy_ext_explicit _ _ _ _ Ed). apply bound_eqb_eq.
    + rewrite (Copy_ext_params _ _ _ _ Ed), forallb_forall, Forall_forall.
      assert (H : forall i, copy_at a i = true <-> idx_copy a i).
      { intros i. unfold copy_at, idx_copy. destruct (nth_error a i) as [x|] eqn:En.
        - destruct x as [t| | | | |]; try (split; [intros _ t' Ht'; discriminate|reflexivity]).
          rewrite Forall_forall in HQ. rewrite (HQ _ (nth_error_In _ _ En) t eq_refl).
          split; [intros H t' Ht'; injection Ht' as <-; exact H|intros H; now apply H].
        - split; [intros _ t Ht; discriminate|reflexivity]. }
      split; intros H' i Hi; apply H, H', Hi.
  - intros t H t' E. injection E as <-. exact H.
  - discriminate. - discriminate. - discriminate. - discriminate. - discriminate.
Qed.

(* well-formed types have a bound (type_bound() does not raise) *)
Lemma from_params_total a idx : (forall i, In i idx -> at_idx a i <> None) ->
  forall acc, from_params a idx acc <> None.
Proof.
  induction idx as [|i r IH]; intros H acc; cbn [from_params]; [discriminate|].
  destruct (at_idx a i) as [[b|]|] eqn:E.
  - apply IH. intros j Hj. apply H. now right.
  - apply IH. intros j Hj. apply H. now right.
  - exfalso. apply (H i); [now left|exact E].
Qed.

Theorem wf_total : forall t, wf_b t = true -> tbound t <> None.
Proof.
  apply (ty_ind2 (fun t => wf_b t = true -> tbound t <> None)
                 (fun a => forall t, a = AType t -> wf_b t = true -> tbound t <> None)); try (cbn; discriminate).
  - intros rs IH Hw. rewrite wf_b_sum in Hw. rewrite tbound_sum.
    assert (H : rows_bounds rs <> None).
    { induction IH as [|x r Hx _ IHr]; cbn [rows_bounds forallb] in *; [discriminate|].
      apply andb_true_iff in Hw as [Hw1 Hw2]. specialize (IHr Hw2).
      assert (Hr : row_bounds x <> None).
      { unfold row_bounds. induction Hx as [|y s Hy _ IHs]; cbn [mapO forallb] in *; [discriminate|].
        apply andb_true_iff in Hw1 as [Hy1 Hy2]. specialize (IHs Hy2). specialize (Hy Hy1).
        destruct (tbound y); [|congruence]. destruct (mapO tbound s); [discriminate|congruence]. }
      destruct (row_bounds x); [|congruence]. destruct (rows_bounds r); [discriminate|congruence]. }
    destruct (rows_bounds rs); [discriminate|congruence].
  - intros d a c HQ Hw. rewrite wf_b_ext in Hw. apply andb_true_iff in Hw as [Hw Hc].
    apply andb_true_iff in Hw as [Ha Hi].
    assert (Hat : forall i t, nth_error a i = Some (AType t) -> tbound t <> None).
    { intros i t En. rewrite Forall_forall in HQ. apply (HQ _ (nth_error_In _ _ En) t eq_refl).
      rewrite forallb_forall in Ha. apply (Ha _ (nth_error_In _ _ En)). }
    destruct c as [|i].
    + rewrite tbound_ext_generic. destruct (td_bound d) as [b|idx]; [discriminate|].
      apply from_params_total. intros i Hin. rewrite forallb_forall in Hi. specialize (Hi _ Hin).
      apply Nat.ltb_lt in Hi. unfold at_idx. destruct (nth_error a i) as [x|] eqn:En.
      * destruct x; try discriminate. specialize (Hat _ _ En). destruct (tbound t); [discriminate|congruence].
      * apply nth_error_None in En. lia.
    + rewrite tbound_ext_elem. unfold at_idx. destruct (nth_error a i) as [x|] eqn:En; [|discriminate].
      destruct x; try discriminate. specialize (Hat _ _ En). destruct (tbound t); [discriminate|congruence].
  - intros t H t' E. injection E as <-. exact H.
Qed.

(* ------------------------------------------------------------------ the remaining clauses *)
Theorem empty_sum_copyable :
  tbound (TSum []) = Some Copyable /\ (forall n, tbound (TUnitSum n) = Some Copyable) /\
  (forall rs, Forall (eq []) rs -> tbound (TSum rs) = Some Copyable).
Proof.
  split; [reflexivity|]. split; [reflexivity|]. intros rs H. rewrite tbound_sum.
  assert (E : rows_bounds rs = Some []).
  { induction H as [|x r <- _ IH]; [reflexivity|]. cbn. now rewrite IH. }
  rewrite E. reflexivity.
Qed.

Theorem sum_bound_is_join_of_elements : forall rs bs, rows_bounds rs = Some bs ->
  tbound (TSum rs) = Some (join bs) /\ is_lub bs (join bs) /\
  Forall2 (fun t b => tbound t = Some b) (concat rs) bs.
Proof.
  intros rs bs H. rewrite tbound_sum, H. split; [reflexivity|]. split; [apply join_is_lub|].
  revert bs H. induction rs as [|x r IH]; cbn [rows_bounds concat]; intros bs H.
  - injection H as <-. constructor.
  - destruct (row_bounds x) as [b|] eqn:Ex; [|discriminate]. destruct (rows_bounds r) as [bs'|]; [|discriminate].
    injection H as <-. apply Forall2_app; [|now apply IH]. now apply mapO_Forall2.
Qed.

(* ExtType._to_opaque / _to_serial write the computed bound, at every extension type of the document *)
Theorem serialized_bound_is_computed :
  (forall t e id a b, to_opaque t = Some (TOpaque e id a b) -> tbound t = Some b /\ tbound (TOpaque e id a b) = Some b) /\
  (forall t bs, ser_bounds t = Some bs -> Forall2 (fun u b => tbound u = Some b) (ser_exts t) bs) /\
  (forall d a c b, ser_bounds (TExt d a c) = Some b -> hd_error b = tbound (TExt d a c)).
Proof.
  split; [|split].
  - intros t e id a b H. destruct t; try discriminate. unfold to_opaque in H.
    destruct (tbound (TExt d args c)) as [b'|]; [|discriminate]. injection H as _ _ _ <-. split; reflexivity.
  - intros t bs H. now apply mapO_Forall2.
  - intros d a c b H. unfold ser_bounds in H.
    assert (E : exists l, ser_exts (TExt d a c) = TExt d a c :: l) by (eexists; reflexivity).
    destruct E as [l E]. rewrite E in H. cbn [mapO] in H.
    destruct (tbound (TExt d a c)); [|discriminate]. destruct (mapO tbound l); [|discriminate].
    injection H as <-. reflexivity.
Qed.

(* the std subclasses' overrides agree with the generic computation from their definition *)
Lemma elem_agrees_from_params d i pre elem post : length pre = i -> td_bound d = FromParams [i] ->
  tbound (TExt d (pre ++ AType elem :: post) (ElemAt i)) = tbound (TExt d (pre ++ AType elem :: post) Generic).
Proof.
  intros Hl Hd. rewrite tbound_ext_elem, tbound_ext_generic, Hd. cbn [from_params]. unfold at_idx.
  rewrite nth_error_app2 by lia. replace (i - length pre) with 0 by lia. cbn [nth_error].
  destruct (tbound elem) as [b|]; [|reflexivity]. cbn [rev app]. now rewrite join_singleton.
Qed.
Lemma elem_agrees_explicit d elem : td_bound d = Explicit Copyable -> static_array_accepts elem = Some true ->
  tbound (TExt d [AType elem] (ElemAt 0)) = tbound (TExt d [AType elem] Generic) /\
  classes_ok (TExt d [AType elem] (ElemAt 0)) = classes_ok elem.
Proof.
  intros Hd Ha. rewrite classes_ok_ext, tbound_ext_elem, tbound_ext_generic, Hd. unfold static_array_accepts in Ha.
  unfold at_idx. cbn [nth_error forallb arg_ok]. destruct (tbound elem) as [[|]|]; try discriminate.
  split; [reflexivity|]. cbn. now rewrite !andb_true_r.
Qed.

Theorem std_overrides_agree :
  (forall d n elem, In (td_bound d) [std_array_bound_py; std_array_bound_spec] ->
     tbound (TExt d [n; AType elem] (ElemAt 1)) = tbound (TExt d [n; AType elem] Generic)) /\
  (forall d elem, In (td_bound d) [std_list_bound_py; std_list_bound_spec] ->
     tbound (TExt d [AType elem] (ElemAt 0)) = tbound (TExt d [AType elem] Generic)) /\
  (forall d elem, In (td_bound d) [std_static_array_bound_py; std_static_array_bound_spec] ->
     static_array_accepts elem = Some true ->
     tbound (TExt d [AType elem] (ElemAt 0)) = tbound (TExt d [AType elem] Generic)) /\
  (* the positions the subclasses read are the type parameters of the definitions *)
  (Forall (fun ps => exists b, nth_error ps 1 = Some (PType b)) [std_array_params_py; std_array_params_spec] /\
   Forall (fun ps => exists b, nth_error ps 0 = Some (PType b)) [std_list_params_py; std_list_params_spec] /\
   Forall (fun ps => nth_error ps 0 = Some (PType Copyable)) [std_static_array_params_py; std_static_array_params_spec]).
Proof.
  split; [|split; [|split]].
  - intros d n elem H. apply (elem_agrees_from_params d 1 [n] elem []); [reflexivity|].
    cbn in H. destruct H as [<-|[<-|[]]]; reflexivity.
  - intros d elem H. apply (elem_agrees_from_params d 0 [] elem []); [reflexivity|].
    cbn in H. destruct H as [<-|[<-|[]]]; reflexivity.
  - intros d elem H Ha. apply elem_agrees_explicit; [|exact Ha].
    cbn in H. destruct H as [<-|[<-|[]]]; reflexivity.
  - repeat split; repeat constructor; eexists; reflexivity.
Qed.

(* StaticArray's constructor raises exactly for elements that cannot be copied *)
Theorem static_array_rejects_iff_linear : forall elem,
  (forall b, tbound elem = Some b -> (static_array_accepts elem = Some false <-> b = Any)) /\
  (classes_ok elem = true -> tbound elem <> None -> (static_array_accepts elem = Some true <-> Copy elem)) /\
  (static_array_accepts elem = None <-> tbound elem = None).
Proof.
  intros elem. unfold static_array_accepts. split; [|split].
  - intros b ->. destruct b; cbn; split; congruence.
  - intros Hc Hn. rewrite <- (bound_copyable_iff elem Hc Hn).
    destruct (tbound elem) as [[|]|]; cbn; split; congruence.
  - destruct (tbound elem); split; congruence.
Qed.

(* ------------------------------------------------------------------ non-vacuity *)
Definition ex_def : typedef := {| td_ext := 1%N; td_name := 2%N; td_descr := 0%N;
                                  td_params := [PType Any; PNat None; PType Any]; td_bound := FromParams [2; 0; 1] |}.
Example bound_example :
  let t := TSum [[TExt ex_def [AType TUSize; ANat 3%N; AType (TSum [[]; [TFunc [TQubit] [] []]])] Generic]; []] in
  let u := TExt ex_def [AType TQubit; ANat 3%N; AType TUSize] Generic in
  classes_ok t = true /\ wf_b t = true /\ tbound t = Some Copyable /\ Copy t /\
  classes_ok u = true /\ wf_b u = true /\ tbound u = Some Any /\ ~ Copy u.
Proof.
  cbv zeta. repeat split; try reflexivity.
  - apply copy_b_spec. reflexivity.
  - intros H. apply copy_b_spec in H. discriminate.
Qed.
