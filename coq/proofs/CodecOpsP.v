(* Proofs for C05, operation layer (all 21 serialised kinds + ExtOp + the sugar tag operations),
   parametric in the payload of function-valued constants. *)
From Coq Require Import NArith List Bool Arith Lia.
Import ListNotations.
From HV Require Import lib.Harness model.Types model.SerialTypes model.Codec model.CodecVals model.CodecOps
  spec.CodecS proofs.CodecP proofs.CodecValsP.

(* ---- unconditional rewriting facts about rows ---- *)
Lemma row_des_ser l : row_des (row_ser l) = row_nf l.
Proof. apply row_AB. Qed.
Lemma row_ser_nf l : row_ser (row_nf l) = row_ser l.
Proof. apply row_AB. Qed.
Lemma rows_des_ser l : rows_des (rows_ser l) = map (map ty_nf) l.
Proof. apply rows_AB. Qed.
Lemma rows_ser_nf l : rows_ser (map (map ty_nf) l) = rows_ser l.
Proof. apply rows_AB. Qed.
Lemma poly_AB p : poly_deserialize (poly_to_serial p) = poly_nf p /\ poly_to_serial (poly_nf p) = poly_to_serial p.
Proof.
  destruct p as [ps f]. unfold poly_deserialize, poly_to_serial, poly_nf. cbn.
  destruct (func_AB f) as [A B]. now rewrite A, B, params_roundtrip.
Qed.
Lemma enc_nf t : enc (ty_nf t) = enc t.
Proof. unfold enc. now destruct (ty_AB t) as [_ ->]. Qed.
Lemma encs_nf l : encs (row_nf l) = encs l.
Proof. unfold encs, row_nf. rewrite map_map. apply map_ext. intros; apply enc_nf. Qed.
Lemma nlen_nf l : nlen (row_nf l) = nlen l.
Proof. unfold nlen, row_nf. now rewrite map_length. Qed.
Lemma func_nf_in f : ft_in (func_nf f) = row_nf (ft_in f). Proof. reflexivity. Qed.
Lemma func_nf_out f : ft_out (func_nf f) = row_nf (ft_out f). Proof. reflexivity. Qed.
Lemma poly_enc_nf p : poly_enc (poly_nf p) = poly_enc p.
Proof. unfold poly_enc. destruct p as [ps f]. cbn [poly_nf pt_body]. destruct (func_AB f) as [_ ->]. reflexivity. Qed.
Lemma row_nf_app a b : row_nf (a ++ b) = row_nf a ++ row_nf b.
Proof. apply map_app. Qed.
Lemma enc_unit_sum n : enc (TSum (repeat [] n)) = enc (TUnitSum n).
Proof.
  unfold enc. cbn. rewrite Nnat.Nat2N.id. f_equal. induction n; cbn; congruence.
Qed.
Lemma sum_nf_rows s : rows_of (sum_nf s) = map (map ty_nf) (rows_of s).
Proof. reflexivity. Qed.
Lemma enc_sum_nf s : has_rows s = true -> enc (sum_nf s) = enc s.
Proof.
  unfold has_rows, sum_nf, rows_of. destruct s; cbn [variant_rows]; try discriminate; intros _.
  - change (TSum (map (map ty_nf) rows)) with (ty_nf (TSum rows)). apply enc_nf.
  - rewrite <- enc_unit_sum. f_equal. f_equal. induction n; cbn; congruence.
Qed.

Lemma encs_nf' l : map enc (row_nf l) = map enc l.
Proof. apply encs_nf. Qed.
Lemma func_as_ty_nf f : func_as_ty (func_nf f) = ty_nf (func_as_ty f).
Proof. reflexivity. Qed.
Lemma func_ser_rows i o d : func_to_serial (FT (row_nf i) (row_nf o) d) = func_to_serial (FT i o d).
Proof. exact (proj2 (func_AB (FT i o d))). Qed.
Lemma poly_ser_rows ps i o : poly_to_serial (PT ps (mkfunc (row_nf i) (row_nf o))) = poly_to_serial (PT ps (mkfunc i o)).
Proof. exact (proj2 (poly_AB (PT ps (mkfunc i o)))). Qed.
Lemma poly_enc_rows ps i o : poly_enc (PT ps (mkfunc (row_nf i) (row_nf o))) = poly_enc (PT ps (mkfunc i o)).
Proof. exact (poly_enc_nf (PT ps (mkfunc i o))). Qed.
Lemma enc_sum2_nf a b : enc (TSum [row_nf a; row_nf b]) = enc (TSum [a; b]).
Proof. exact (enc_nf (TSum [a; b])). Qed.
Lemma nlen_rows_nf l : nlen (map (map ty_nf) l) = nlen l.
Proof. unfold nlen. now rewrite map_length. Qed.
Lemma nth_rows_nf l n : nth_error (map (map ty_nf) l) n = option_map row_nf (nth_error l n).
Proof. apply nth_error_map. Qed.

Section OpsP.
  Variables H SH : Type.
  Variable h_enc : H -> SH.
  Variable h_dec : SH -> H.
  Variable h_nf : H -> H.
  Variable h_type : H -> functype.
  Variable h_ok : H -> bool.
  Hypothesis h_rt : forall h, h_ok h = true ->
    h_dec (h_enc h) = h_nf h /\ h_enc (h_nf h) = h_enc h /\ func_to_serial (h_type (h_nf h)) = func_to_serial (h_type h).

  Notation op := (op H).
  Notation to_serial := (op_to_serial H SH h_enc).
  Notation deser := (op_deserialize H SH h_dec).
  Notation nf := (op_nf H h_nf).
  Notation facts_of := (op_facts H h_type).

  (* what the constructors guarantee: _CallOrLoad.__init__ fixes instantiation / type arguments of a
     monomorphic signature and checks the argument count of a polymorphic one *)
  Definition CallWF (sig : polytype) (inst : functype) (ta : list tyarg) : Prop :=
    match pt_params sig with [] => inst = pt_body sig /\ ta = [] | ps => length ps = length ta end.
  Definition OpOK (o : op) : Prop :=
    op_ok H h_ok o = true /\
    match o with OCall s i a | OLoadFunc s i a => CallWF s i a | _ => True end.

  Lemma call_attrs_nf sig inst ta : CallWF sig inst ta ->
    call_attrs (poly_nf sig) (func_nf inst) (map arg_nf ta) = (func_nf inst, map arg_nf ta).
  Proof.
    unfold CallWF, call_attrs. destruct sig as [ps f]. cbn. destruct ps; [|reflexivity]. now intros [-> ->].
  Qed.

  Theorem op_roundtrip_all : forall o parent, OpOK o ->
    deser (to_serial o parent) = nf o /\ to_serial (nf o) parent = to_serial o parent /\ facts_of (nf o) = facts_of o.
  Proof.
    intros o parent [O W].
    destruct o; cbn [op_to_serial op_deserialize op_nf op_facts op_ok] in *;
      unfold sig2, encs;
      rewrite ?row_des_ser, ?row_ser_nf, ?rows_des_ser, ?rows_ser_nf, ?sum_nf_rows, ?rows_ser_nf,
              ?func_ser_rows, ?poly_ser_rows, ?poly_enc_rows;
      repeat match goal with
             | |- context [poly_deserialize (poly_to_serial ?p)] => rewrite (proj1 (poly_AB p))
             | |- context [poly_to_serial (poly_nf ?p)] => rewrite (proj2 (poly_AB p))
             | |- context [func_deserialize (func_to_serial ?p)] => rewrite (proj1 (func_AB p))
             | |- context [func_to_serial (func_nf ?p)] => rewrite (proj2 (func_AB p))
             | |- context [map arg_deserialize (map arg_to_serial ?p)] => rewrite (proj1 (args_AB p))
             | |- context [map arg_to_serial (map arg_nf ?p)] => rewrite (proj2 (args_AB p))
             | |- context [ty_deserialize (ty_to_serial ?p)] => rewrite (proj1 (ty_AB p))
             | |- context [ty_to_serial (ty_nf ?p)] => rewrite (proj2 (ty_AB p))
             end;
      rewrite ?func_as_ty_nf, ?poly_enc_nf, ?func_nf_in, ?func_nf_out, <- ?row_nf_app;
      cbn [map ft_in ft_out ft_reqs pt_body pt_params mkfunc];
      rewrite ?enc_nf, ?encs_nf', ?nlen_nf, ?enc_sum2_nf, ?nlen_rows_nf;
      try (repeat split; reflexivity).
    - (* Const *)
      destruct (value_roundtrip_all H SH h_enc h_dec h_nf h_type h_ok h_rt v O) as (A & B & C & _).
      rewrite A, B. repeat split. unfold enc. now rewrite C.
    - (* DataflowBlock *) rewrite (enc_sum_nf sum O). repeat split.
    - (* Call *) rewrite (call_attrs_nf _ _ _ W). repeat split;
        try (unfold nlen; destruct instantiation as [fi fo fr]; cbn; unfold row_nf; now rewrite map_length).
    - (* LoadFunc *) rewrite (call_attrs_nf _ _ _ W). repeat split.
    - (* Conditional *) rewrite (enc_sum_nf sum O). repeat split.
    - (* Case *) unfold mkfunc. rewrite func_ser_rows. repeat split.
    - (* CFG *) unfold mkfunc. rewrite func_ser_rows. repeat split.
    - (* Tag *) rewrite (enc_sum_nf sum O), nth_rows_nf. repeat split.
      destruct (nth_error (rows_of sum) (N.to_nat tag)); cbn [option_map]; [|reflexivity]. now rewrite encs_nf'.
  Qed.

  (* the sugar tag operations are Tag operations: same class of encoding, and the general Tag with the same
     tag and rows has the same signature facts *)
  Lemma sugar_tag_is_tag : forall s, exists tag rows, sugar_tag H s = OTag tag (TSum rows) /\
    match s with
    | TgSome l => tag = 1%N /\ rows = [[]; l]
    | TgRight l r | TgBreak l r => tag = 1%N /\ rows = [l; r]
    | TgLeft l r | TgContinue l r => tag = 0%N /\ rows = [l; r]
    end.
  Proof. intros [l|l r|l r|l r|l r]; cbn; eauto. Qed.

  (* an extension operation comes back as the opaque operation with the same extension, name, signature,
     type arguments and description *)
  Lemma extop_opaque : forall d sig args f parent, extop_sig d sig = Some f ->
    deser (to_serial (OExtOp d sig args) parent) =
      OCustom (od_name d) (func_nf f) (od_descr d) (od_ext d) (map arg_nf args) /\
    f_outer (facts_of (OCustom (od_name d) (func_nf f) (od_descr d) (od_ext d) (map arg_nf args))) =
      f_outer (facts_of (OExtOp d sig args)).
  Proof.
    intros d sig args f parent E. cbn [op_to_serial op_deserialize op_facts f_outer]. rewrite E. cbn [sig_or_empty].
    rewrite (proj1 (func_AB f)), (proj1 (args_AB args)). split; [reflexivity|].
    unfold sig2, encs. now rewrite func_nf_in, func_nf_out, !encs_nf'.
  Qed.

  (* ---- converse: a serial operation this library did not produce ---- *)
  Variable sh_norm : SH -> SH.
  Variable sh_wf : SH -> bool.
  Hypothesis h_rs : forall sh, sh_wf sh = true -> h_enc (h_dec sh) = sh_norm sh.
  Definition sop_wf (s : sop SH) : bool :=
    match s with SConst _ v => svalue_wf SH sh_wf v | _ => true end.
  Definition sop_norm_h (s : sop SH) : sop SH :=
    match s with SConst p v => SConst p (svalue_norm SH sh_norm v) | _ => sop_norm SH s end.
  Lemma row_ser_des l : row_ser (row_des l) = l.
  Proof. apply row_reserial. Qed.
  Lemma rows_ser_des l : rows_ser (rows_des l) = l.
  Proof. unfold rows_ser, rows_des. induction l as [|x r IH]; cbn; [reflexivity|]. now rewrite IH, (proj1 (row_reserial x)). Qed.
  Lemma args_ser_des l : map arg_to_serial (map arg_deserialize l) = l.
  Proof. induction l as [|x r IH]; cbn; [reflexivity|]. now rewrite IH, (proj1 (arg_reserial_all x)). Qed.
  Theorem op_reserial_all : forall s, sop_wf s = true ->
    to_serial (deser s) (sop_parent SH s) = sop_norm_h s.
  Proof.
    intros s Wf. destruct s; cbn [op_to_serial op_deserialize sop_parent sop_norm_h sop_norm sop_wf rows_of variant_rows] in *;
      rewrite ?row_ser_des, ?rows_ser_des, ?args_ser_des, ?func_reserial, ?poly_reserial, ?(proj1 (ty_reserial_all _));
      try reflexivity.
    - (* FuncDefn *) destruct signature as [ps [i o r]]. unfold poly_to_serial, poly_deserialize, func_deserialize, mkfunc, func_to_serial, sfunc_noreqs.
      cbn. now rewrite params_reserial, (proj1 (row_reserial i)), (proj1 (row_reserial o)).
    - (* Const *) now rewrite (value_reserial_all H SH h_enc h_dec sh_norm sh_wf h_rs v Wf).
    - (* Call *) destruct func_sig as [ps f]. unfold call_attrs, scall_norm, poly_deserialize.
      cbn [pt_params sp_params sp_body pt_body]. destruct ps as [|p ps]; cbn [map]; cbn [op_to_serial];
        unfold poly_to_serial; cbn [map pt_params pt_body];
        rewrite ?args_ser_des, ?func_reserial, ?params_reserial, ?param_reserial; reflexivity.
    - (* LoadFunction *) destruct func_sig as [ps f]. unfold call_attrs, scall_norm, poly_deserialize.
      cbn [pt_params sp_params sp_body pt_body]. destruct ps as [|p ps]; cbn [map]; cbn [op_to_serial];
        unfold poly_to_serial; cbn [map pt_params pt_body];
        rewrite ?args_ser_des, ?func_reserial, ?params_reserial, ?param_reserial; reflexivity.
    - (* DFG *) destruct signature as [i o r]. unfold func_to_serial, func_deserialize. cbn.
      now rewrite (proj1 (row_reserial i)), (proj1 (row_reserial o)).
    - (* Case *) destruct signature as [i o r]. unfold func_to_serial, func_deserialize, mkfunc, sfunc_noreqs. cbn.
      now rewrite (proj1 (row_reserial i)), (proj1 (row_reserial o)).
    - (* CFG *) destruct signature as [i o r]. unfold func_to_serial, func_deserialize, mkfunc, sfunc_noreqs. cbn.
      now rewrite (proj1 (row_reserial i)), (proj1 (row_reserial o)).
  Qed.
End OpsP.
