(* Proofs for C06, histories: the node store of model/OpsStore.v holds, at every index, the operation the
   last step touching that index put there (spec/OpsStoreS.v), and the port queries asked of the store are the
   ones the specification assigns to that operation -- after every history, whatever was asked before. *)
From Coq Require Import ZArith NArith List Bool Arith Lia.
Import ListNotations.
From HV Require Import lib.Harness model.Types model.Ops model.OpsStore spec.OpsS spec.OpsStoreS proofs.OpsP.
Local Open Scope Z_scope.

Section StoreP.
  Variable V : Type.
  Variable vtype : V -> result ty.
  Notation op := (op V).
  Notation sstep := (sstep V).
  Notation store := (store V).
  Notation ct := (ctype_of V vtype).

  Lemma lookup_remove_same (s : store) n : lookup (remove s n) n = None.
  Proof.
    induction s as [|[m o] r IH]; cbn; [reflexivity|].
    destruct (m =? n) eqn:E; [exact IH|]. cbn. rewrite E. exact IH.
  Qed.
  Lemma lookup_remove_other (s : store) m n : (m =? n) = false -> lookup (remove s m) n = lookup s n.
  Proof.
    intros Hmn. induction s as [|[k o] r IH]; cbn; [reflexivity|].
    destruct (k =? m) eqn:E.
    - apply Z.eqb_eq in E. subst k. rewrite Hmn. exact IH.
    - cbn. destruct (k =? n); [reflexivity|exact IH].
  Qed.
  Definition put_of (st : sstep) : option op := match st with SPut _ o => Some o | SDel _ => None end.
  Lemma lookup_apply (s : store) st n :
    lookup (apply s st) n = if touchesb n st then put_of st else lookup s n.
  Proof.
    destruct st as [m o|m]; cbn.
    - destruct (m =? n) eqn:E; [reflexivity|]. now apply lookup_remove_other.
    - destruct (m =? n) eqn:E.
      + apply Z.eqb_eq in E. subst. apply lookup_remove_same.
      + now apply lookup_remove_other.
  Qed.
  Lemma run_snoc (s : store) l st : run s (l ++ [st]) = apply (run s l) st.
  Proof. unfold run. now rewrite fold_left_app. Qed.
  Lemma spec_current_snoc (l : list sstep) st n :
    spec_current (l ++ [st]) n = if touchesb n st then put_of st else spec_current l n.
  Proof.
    unfold spec_current. rewrite rev_unit. cbn [last_touch].
    destruct (touchesb n st); [destruct st; reflexivity|reflexivity].
  Qed.

  (* the store after a history holds, at every index, what the last step touching the index put there *)
  Theorem lookup_run_spec (l : list sstep) n : lookup (run [] l) n = spec_current l n.
  Proof.
    induction l as [|st l IH] using rev_ind; [reflexivity|].
    rewrite run_snoc, lookup_apply, spec_current_snoc, IH. reflexivity.
  Qed.

  Lemma touchesb_iff n (st : sstep) : touchesb n st = true <-> touches n st.
  Proof. destruct st; cbn; apply Z.eqb_eq. Qed.
  Lemma touchesb_false n (st : sstep) : ~ touches n st -> touchesb n st = false.
  Proof. intros H. destruct (touchesb n st) eqn:E; [|reflexivity]. now apply touchesb_iff in E. Qed.

  Theorem current_iff (l : list sstep) n o : current l n o <-> spec_current l n = Some o.
  Proof.
    split.
    - intros H. induction H as [l n o|l st n o _ IH Hn].
      + rewrite spec_current_snoc. cbn. now rewrite Z.eqb_refl.
      + rewrite spec_current_snoc, (touchesb_false _ _ Hn). exact IH.
    - revert o. induction l as [|st l IH] using rev_ind; intros o H.
      + discriminate H.
      + rewrite spec_current_snoc in H. destruct (touchesb n st) eqn:E.
        * destruct st as [m o'|m]; cbn in H; [|discriminate H].
          inversion H; subst o'. cbn in E. apply Z.eqb_eq in E. subst m. constructor.
        * apply cur_keep; [now apply IH|]. intros Ht. apply touchesb_iff in Ht. congruence.
  Qed.
  Theorem vacant_iff (l : list sstep) n : vacant l n <-> spec_current l n = None.
  Proof.
    split.
    - intros H. induction H as [n|l n|l st n _ IH Hn].
      + reflexivity.
      + rewrite spec_current_snoc. cbn. now rewrite Z.eqb_refl.
      + rewrite spec_current_snoc, (touchesb_false _ _ Hn). exact IH.
    - induction l as [|st l IH] using rev_ind; intros H.
      + constructor.
      + rewrite spec_current_snoc in H. destruct (touchesb n st) eqn:E.
        * destruct st as [m o'|m]; cbn in H; [discriminate H|].
          cbn in E. apply Z.eqb_eq in E. subst m. constructor.
        * apply vac_keep; [now apply IH|]. intros Ht. apply touchesb_iff in Ht. congruence.
  Qed.

  Theorem store_holds_last_op (l : list sstep) n o : lookup (run [] l) n = Some o <-> current l n o.
  Proof. rewrite lookup_run_spec. symmetry. apply current_iff. Qed.
  Theorem store_vacant (l : list sstep) n : lookup (run [] l) n = None <-> vacant l n.
  Proof. rewrite lookup_run_spec. symmetry. apply vacant_iff. Qed.

  (* ---- the property's clauses after an arbitrary history ---- *)
  Theorem hist_port_kind_correct (l : list sstep) n o d z k :
    current l n o -> spec_port_kind ct o d z = Port k ->
    store_port_kind vtype (run [] l) n d z = Some (Ret k).
  Proof.
    intros Hc Hs. apply store_holds_last_op in Hc. unfold store_port_kind, at_node. rewrite Hc.
    f_equal. now apply port_kind_correct.
  Qed.
  Theorem hist_no_invented_port (l : list sstep) n o d z :
    current l n o -> spec_port_kind ct o d z = NoPort ->
    exists r, store_port_kind vtype (run [] l) n d z = Some r /\ is_typed r = false.
  Proof.
    intros Hc Hs. apply store_holds_last_op in Hc. unfold store_port_kind, at_node. rewrite Hc.
    eexists; split; [reflexivity|]. now apply port_kind_no_invented_port.
  Qed.
  Theorem hist_value_out_type_is_kind_payload (l : list sstep) n z t :
    store_port_kind vtype (run [] l) n Out z = Some (Ret (ValueKind t)) <->
    store_port_type vtype (run [] l) n Out z = Some (Ret (Some t)).
  Proof.
    unfold store_port_kind, store_port_type, at_node.
    destruct (lookup (run [] l) n) as [o|]; [|split; discriminate].
    split; intros H; inversion H as [H1]; f_equal.
    - now apply value_out_type_is_kind_payload.
    - now apply value_out_type_is_kind_payload.
  Qed.
  Theorem hist_signature_is_specified (l : list sstep) n o s :
    current l n o -> has_sig o s ->
    exists f, at_node (run [] l) n (@df_sig V) = Some (Ret f) /\ (f_in f, f_out f) = s.
  Proof.
    intros Hc Hs. apply store_holds_last_op in Hc. unfold at_node. rewrite Hc.
    destruct (sig_sound V o s Hs) as [f [Hf He]]. exists f. now rewrite Hf.
  Qed.
  Theorem hist_num_out_correct (l : list sstep) n o k :
    current l n o -> spec_num_out o = Some k -> store_num_out (run [] l) n = Some (Ret (Z.of_nat k)).
  Proof.
    intros Hc Hs. apply store_holds_last_op in Hc. unfold store_num_out, at_node. rewrite Hc.
    f_equal. now apply num_out_correct.
  Qed.
  Theorem hist_vacant_no_answer (l : list sstep) n d z :
    vacant l n -> store_port_kind vtype (run [] l) n d z = None /\ store_port_type vtype (run [] l) n d z = None.
  Proof.
    intros Hv. apply store_vacant in Hv. unfold store_port_kind, store_port_type, at_node. now rewrite Hv.
  Qed.
  (* nothing is remembered: two histories that leave the same operation at an index answer alike there *)
  Theorem hist_answers_ignore_the_past (l1 l2 : list sstep) n :
    (forall o, current l1 n o <-> current l2 n o) ->
    forall d z, store_port_kind vtype (run [] l1) n d z = store_port_kind vtype (run [] l2) n d z /\
                store_port_type vtype (run [] l1) n d z = store_port_type vtype (run [] l2) n d z /\
                store_op_port_type (run [] l1) n d z = store_op_port_type (run [] l2) n d z /\
                store_outer_sig (run [] l1) n = store_outer_sig (run [] l2) n /\
                store_inner_sig (run [] l1) n = store_inner_sig (run [] l2) n /\
                store_num_out (run [] l1) n = store_num_out (run [] l2) n.
  Proof.
    intros H d z.
    assert (E : lookup (run [] l1) n = lookup (run [] l2) n).
    { destruct (lookup (run [] l1) n) as [o|] eqn:E1.
      - apply store_holds_last_op in E1. apply H in E1. apply store_holds_last_op in E1. now rewrite E1.
      - destruct (lookup (run [] l2) n) as [o|] eqn:E2; [|reflexivity].
        apply store_holds_last_op in E2. apply H in E2. apply store_holds_last_op in E2. congruence. }
    unfold store_port_kind, store_port_type, store_op_port_type, store_outer_sig, store_inner_sig,
      store_num_out, at_node. rewrite E. repeat split.
  Qed.
End StoreP.

(* non-vacuity: a Noop on usize at index 3 is deleted and the index is reused by a MakeTuple of [qubit, usize];
   the output port (3, 0) then has the tuple type and kind; the deleted-and-not-reused index 4 has no answer *)
Definition ex_hist : list (sstep ty) :=
  [SPut 3 (ONoop (Some TUSize)); SPut 4 (ONoop (Some TQubit)); SDel 3; SDel 4;
   SPut 3 (OMakeTuple (Some [TQubit; TUSize]))].
Example ex_hist_reuse :
  current ex_hist 3 (OMakeTuple (Some [TQubit; TUSize])) /\ vacant ex_hist 4 /\
  store_port_type vt0 (run [] ex_hist) 3 Out 0 = Some (Ret (Some (TSum [[TQubit; TUSize]]))) /\
  store_port_kind vt0 (run [] ex_hist) 3 Out 0 = Some (Ret (ValueKind (TSum [[TQubit; TUSize]]))) /\
  store_port_type vt0 (run [] [SPut 3 (ONoop (Some TUSize))]) 3 Out 0 = Some (Ret (Some TUSize)).
Proof.
  split; [apply current_iff; reflexivity|]. split; [apply vacant_iff; reflexivity|].
  repeat split; vm_compute; reflexivity.
Qed.
