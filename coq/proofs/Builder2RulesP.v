(* C01 (third pass) — rules of `valid` for EVERY program of the extended builder language whose builder calls do not
   raise, from the frame invariants of proofs/Builder2FrameP.v (only premise: croot_ok):
     rule 6  r_root_no_edges, rule 13 r_no_edge_into_func (no FuncDefn nodes), rule 16 r_cfg_edges (no CF edges);
   and the derivation of rule 3 (r_io_rows) from the closedness of all containers, used by the typed layer
   (the `rest` part of a TailLoop's Output row is the only part of rule 3 that needs the typing premise). *)
From Coq Require Import NArith List Bool Arith Lia.
Import ListNotations.
From HV Require Import lib.Harness model.Validity model.Builder model.Builder2 spec.BuilderS proofs.BuilderP
  proofs.BuilderExtP proofs.BuilderFrameP proofs.BuilderRulesP proofs.Builder2UnfoldP proofs.Builder2InvP proofs.Builder2P
  spec.Builder2WFS proofs.Builder2FrameP.
Local Open Scope N_scope.

(* ------------------------------------------------------------------ what a whole program leaves behind *)
Lemma EnvPos_env0 : EnvPos env0.
Proof. split; intros ? ? []. Qed.

Lemma exec_prog2_frame tys p st e1 : exec_prog2 tys p env0 = Ok (st, e1) -> croot_ok p = true ->
  Inv2 st /\ Fbase2 st /\ ClosedFrom 0 (s_nodes st).
Proof.
  intros H Hc. destruct (exec2_keeps_invariants tys) as (_ & _ & _ & _ & HP). destruct (exec2_frame tys) as (_ & _ & _ & _ & FP).
  destruct (HP p _ _ _ H Hc) as [I _]. destruct (FP p _ _ _ H Hc EnvPos_env0) as (F & _ & C). auto.
Qed.

(* ------------------------------------------------------------------ rule 13: no FuncDefn, so no edge into one *)
Lemma model2_no_func st : ModelOps2 (s_nodes st) -> NoFunc (to_serial st).
Proof.
  intros M n o. unfold op_of, to_serial. cbn [g_nodes]. destruct (nthN (s_nodes st) n) as [nd|] eqn:E; [|discriminate].
  cbn. intros H. inversion H; subst. pose proof (forallb_nthN _ _ _ _ M E) as Hm. cbn beta in Hm.
  now destruct (n_op nd).
Qed.

(* ------------------------------------------------------------------ rule 16: no control-flow edges *)
Lemma kind_out_model2_not_cf o a k : model_op2 o = true -> kind_out o a = Some k -> is_cf k = false.
Proof.
  intros M. unfold kind_out.
  destruct (a <? lenN (val_out o)).
  - destruct (nthN (val_out o) a); cbn; intros H; inversion H; reflexivity.
  - destruct (is_some (static_out o) && (a =? lenN (val_out o))).
    + destruct o; cbn; try discriminate M; intros H; inversion H; reflexivity.
    + destruct (a <? count_out o); [|discriminate].
      destruct o; cbn; try discriminate M; intros H; inversion H; reflexivity.
Qed.
Lemma cfg_edges_of2 g : (forall n o, op_of g n = Some o -> model_op2 o = true) -> r_cfg_edges g = true.
Proof.
  intros M. unfold r_cfg_edges. apply forallb_forall. intros r Hin.
  unfold redges in Hin. apply in_flat_map in Hin. destruct Hin as (e & _ & Hr).
  unfold resolve in Hr. destruct (op_of g (e_src e)) as [so|] eqn:Es; [|destruct Hr].
  destruct (op_of g (e_dst e)) as [do_|]; [|destruct Hr].
  destruct (match e_soff e with Some x => Some x | None => other_port_out so end) as [a|]; [|destruct Hr].
  destruct (match e_doff e with Some x => Some x | None => other_port_in do_ end) as [b|]; [|destruct Hr].
  destruct (kind_out so a) as [k|] eqn:Ek; [|destruct Hr]. destruct Hr as [<-|[]]. cbn [r_kind].
  now rewrite (kind_out_model2_not_cf _ _ _ (M _ _ Es) Ek).
Qed.
Lemma model_ops2_serial st : ModelOps2 (s_nodes st) -> forall n o, op_of (to_serial st) n = Some o -> model_op2 o = true.
Proof.
  intros M n o. unfold op_of, to_serial. cbn [g_nodes]. destruct (nthN (s_nodes st) n) as [nd|] eqn:E; [|discriminate].
  cbn. intros H. inversion H; subst. exact (forallb_nthN _ _ _ _ M E).
Qed.

Theorem run2_root_func_cfg tys p g : croot_ok p = true -> run2 tys p = Ok g ->
  r_root_no_edges g = true /\ r_no_edge_into_func tys g = true /\ r_cfg_edges g = true.
Proof.
  intros Hc H. unfold run2 in H. bd H. destruct v as [st e1]. cbn [fst] in H. inversion H; subst; clear H.
  destruct (exec_prog2_frame _ _ _ _ E Hc) as (_ & (M & _ & LP) & _).
  split; [|split].
  - now apply root_no_edges_to_serial.
  - apply no_edge_into_func_of. now apply model2_no_func.
  - apply cfg_edges_of2. now apply model_ops2_serial.
Qed.

(* ------------------------------------------------------------------ rule 3 from closedness *)
(* io_strict with the TailLoop clause at full strength *)
Definition io_full (l : list vnode) (p : N) (o : vop) : Prop :=
  match o with
  | TailLoop ji jo rest c =>
      nthN l (p + 1) = Some (mk (Input (ji ++ rest)) p) /\ nthN l (p + 2) = Some (mk (Output (c :: rest)) p)
  | _ => io_strict l p o
  end.
Definition ClosedFull (l : list vnode) : Prop := forall p nd, nthN l p = Some nd -> io_full l p (n_op nd).

Lemma nthN_skipn {A} (l : list A) a j : nthN (skipn (N.to_nat a) l) j = nthN l (a + j).
Proof.
  unfold nthN. replace (N.to_nat (a + j)) with (N.to_nat a + N.to_nat j)%nat by lia.
  revert l. induction (N.to_nat a) as [|n IH]; intros l; [reflexivity|]. destruct l as [|x l]; cbn.
  - now destruct (N.to_nat j).
  - apply IH.
Qed.
Lemma lenN_firstn {A} (l : list A) a : a <= lenN l -> lenN (firstn (N.to_nat a) l) = a.
Proof. unfold lenN. intros H. rewrite firstn_length_le by lia. lia. Qed.

(* the children found in a tail that consists of case blocks followed by nodes with other parents *)
Lemma block_children p (F : row -> vop) : forall rows (tl : list vnode) (a : N),
  (forall k row, nthN rows k = Some row ->
     nthN tl (3 * k) = Some (mk (F row) p) /\
     (exists x, nthN tl (3 * k + 1) = Some x /\ n_parent x <> p) /\ (exists y, nthN tl (3 * k + 2) = Some y /\ n_parent y <> p)) ->
  (forall j x, 3 * lenN rows <= j -> nthN tl j = Some x -> n_parent x <> p) ->
  a <> 0 -> flat_map (sel p) (index_from tl a) = map F rows.
Proof.
  induction rows as [|r rest IH]; intros tl a Hk Hb Ha.
  - cbn [map]. apply flat_map_nil. intros [i x] Hin. apply in_index_from in Hin. destruct Hin as [_ Hn].
    unfold sel. cbn [fst snd]. specialize (Hb _ _ (N.le_0_l _) Hn).
    replace (n_parent x =? p) with false by (symmetry; now apply N.eqb_neq). now rewrite andb_false_r.
  - destruct (Hk 0 r eq_refl) as (A & (x & B & Bx) & (y & C & Cy)). change (3 * 0) with 0 in *.
    destruct tl as [|n0 [|n1 [|n2 tl']]]; try discriminate.
    cbn in A, B, C. inversion A; subst n0. inversion B; subst n1. inversion C; subst n2.
    cbn [index_from flat_map map]. unfold sel at 1 2 3. cbn [fst snd mk n_parent n_op].
    replace (a =? 0) with false by (symmetry; now apply N.eqb_neq). rewrite N.eqb_refl. cbn [negb andb app].
    replace (n_parent x =? p) with false by (symmetry; now apply N.eqb_neq).
    replace (n_parent y =? p) with false by (symmetry; now apply N.eqb_neq). rewrite !andb_false_r. cbn [app]. f_equal.
    apply IH.
    + intros k row Hr. destruct (Hk (k + 1) row) as (A' & (x' & B' & Bx') & (y' & C' & Cy')); [now rewrite nthN_S|].
      replace (3 * (k + 1)) with (3 * k + 3) in * by lia.
      replace (3 * k + 3 + 1) with (3 * k + 1 + 3) in B' by lia. replace (3 * k + 3 + 2) with (3 * k + 2 + 3) in C' by lia.
      rewrite nthN_S3 in A', B', C'. eauto 8.
    + intros j z Hj Hz. apply (Hb (j + 3) z); [rewrite lenN_cons; lia|now rewrite nthN_S3].
    + lia.
Qed.

Lemma cond_children l p rows others outs s pp :
  bounded l = true -> r_child_tags (Gn l) = true -> CasePos l -> ClosedFull l ->
  nthN l p = Some (mk (Conditional rows others outs s) pp) ->
  child_ops (Gn l) p = map (fun row => Case (row ++ others) outs) rows.
Proof.
  intros Hb Ht CP CF Hp. pose proof (nthN_lt _ _ _ Hp) as Lp.
  pose proof (CF _ _ Hp) as Hio. cbn [mk n_op io_full io_strict] in Hio.
  rewrite <- (firstn_skipn (N.to_nat (p + 1)) l) at 1. rewrite child_ops_app.
  assert (E1 : child_ops (Gn (firstn (N.to_nat (p + 1)) l)) p = []).
  { unfold child_ops. cbn [Gn g_nodes]. apply flat_map_nil. intros [i x] Hin. cbn [fst snd].
    pose proof (in_indexed _ _ _ Hin) as Hn. pose proof (nthN_lt _ _ _ Hn) as Li. rewrite lenN_firstn in Li by lia.
    assert (Hl : nthN l i = Some x).
    { rewrite <- (firstn_skipn (N.to_nat (p + 1)) l). apply nthN_app1. exact Hn. }
    destruct (bounded_in _ _ _ Hb (nthN_in_indexed _ _ _ Hl)) as [->|Hpar]; [reflexivity|].
    replace (n_parent x =? p) with false by (symmetry; apply N.eqb_neq; lia). now rewrite andb_false_r. }
  rewrite E1, lenN_firstn by lia. cbn [app].
  apply block_children; [| |lia].
  - intros k row Hr. rewrite !nthN_skipn. pose proof (Hio k row Hr) as Hc.
    replace (p + 1 + 3 * k) with (p + 1 + 3 * k) in Hc by lia.
    pose proof (CF _ _ Hc) as Hcase. cbn [mk n_op io_full io_strict] in Hcase. destruct Hcase as [A B].
    split; [exact Hc|]. split.
    + eexists. split; [replace (p + 1 + (3 * k + 1)) with (p + 1 + 3 * k + 1) by lia; exact A|]. cbn. lia.
    + eexists. split; [replace (p + 1 + (3 * k + 2)) with (p + 1 + 3 * k + 2) by lia; exact B|]. cbn. lia.
  - intros j x Hj Hx Hpar. rewrite nthN_skipn in Hx.
    (* a node with parent p is a Case, hence inside the block *)
    unfold r_child_tags in Ht. rewrite forallb_forall in Ht. specialize (Ht _ (nthN_in_indexed _ _ _ Hx)). cbn [fst snd] in Ht.
    replace (p + 1 + j =? 0) with false in Ht by (symmetry; apply N.eqb_neq; lia). cbn [orb] in Ht.
    unfold op_of in Ht. cbn [Gn g_nodes] in Ht. rewrite Hpar, Hp in Ht. cbn [option_map mk n_op] in Ht.
    destruct (n_op x) eqn:Eo; try discriminate Ht.
    destruct (CP _ _ Hx) as (pnd & rows' & k & Ep & Er & Hjk & Hk); [now rewrite Eo|].
    rewrite Hpar, Hp in Ep. inversion Ep; subst pnd. cbn in Er. inversion Er; subst rows'. lia.
Qed.

Lemma rows_eqb_refl rs : rows_eqb rs rs = true.
Proof. unfold rows_eqb. induction rs as [|r rs IH]; cbn; [reflexivity|]. now rewrite row_eqb_refl, IH. Qed.

Lemma cond_rows_check rows others outs :
  forallb (fun rc : row * vop => match snd rc with
                                | Case ci co => row_eqb ci (fst rc ++ others) && row_eqb co outs
                                | _ => false
                                end) (combine rows (map (fun row => Case (row ++ others) outs) rows)) = true.
Proof. induction rows as [|r rows IH]; cbn; [reflexivity|]. now rewrite !row_eqb_refl, IH. Qed.

Lemma io_rows_of2 l : bounded l = true -> r_child_tags (Gn l) = true -> ModelOps2 l -> CasePos l -> ClosedFull l ->
  r_io_rows (Gn l) = true.
Proof.
  intros Hb Ht M CP CF. unfold r_io_rows. apply forallb_forall. intros [p nd] Hin. cbn [fst snd Gn g_nodes].
  pose proof (in_indexed _ _ _ Hin) as E. pose proof (forallb_nthN _ _ _ _ M E) as Hm. cbn beta in Hm.
  pose proof (CF _ _ E) as Hio.
  destruct (n_op nd) eqn:Eo; try discriminate Hm; try reflexivity; cbn [io_full io_strict] in Hio.
  - (* DFG *) destruct Hio as [A B]. destruct (child_ops_first_two _ _ _ _ Hb A B) as [rest ->].
    cbn [inner_sig]. now rewrite !row_eqb_refl.
  - (* Conditional *)
    cbn [inner_sig]. destruct nd as [o pp]. cbn in Eo. subst o.
    rewrite (cond_children l p _ _ _ _ pp Hb Ht CP CF E).
    unfold lenN. rewrite map_length, N.eqb_refl. cbn [andb]. apply cond_rows_check.
  - (* Case *) destruct Hio as [A B]. destruct (child_ops_first_two _ _ _ _ Hb A B) as [rest ->].
    cbn [inner_sig]. now rewrite !row_eqb_refl.
  - (* TailLoop *) destruct Hio as [A B]. destruct (child_ops_first_two _ _ _ _ Hb A B) as [rst ->].
    cbn [inner_sig]. now rewrite !row_eqb_refl.
Qed.
