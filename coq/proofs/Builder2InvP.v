(* C01 (third pass) — inversion lemmas for the interpreter of model/Builder2.v: what a successful run of each
   statement / region / case list / program consists of.  Used by every induction over the extended language. *)
From Coq Require Import NArith List Bool Arith Lia.
Import ListNotations.
From HV Require Import lib.Harness model.Validity model.Builder model.Builder2 proofs.BuilderP proofs.Builder2UnfoldP.
Local Open Scope N_scope.

Definition mkb (p i o : N) : dfb := {| b_parent := p; b_in := i; b_out := o |}.

Lemma init_io_inv st p ins st' b : init_io st p ins = Ok (st', b) ->
  exists st1 i o, add_node st (Input ins) p = Ok (st1, i) /\ add_node st1 (Output []) p = Ok (st', o) /\ b = mkb p i o.
Proof.
  unfold init_io. intros H. bd H. destruct v as [st1 i]. cbn [fst snd] in H. bd H. destruct v as [st2 o].
  cbn [fst snd] in H. inversion H; subst. eauto 7.
Qed.

Lemma set_outputs2_inv tys st b ws st' : set_outputs2 tys st b ws = Ok st' ->
  exists st0 ts st1 po po',
    wire_up st (b_out b) ws = Ok (st0, ts) /\ set_op st0 (b_out b) (Output ts) = Ok st1 /\
    s_op st1 (b_parent b) = Some po /\ set_out_types2 tys po ts = Ok po' /\ set_op st1 (b_parent b) po' = Ok st'.
Proof.
  unfold set_outputs2. intros H. bd H. destruct v as [st0 ts]. cbn [fst snd] in H. bd H. rename v into st1.
  destruct (s_op st1 (b_parent b)) as [po|] eqn:E1; [|discriminate]. bd H. rename v into po'.
  exists st0, ts, st1, po, po'. auto.
Qed.

Section Inv.
  Variable tys : list tyinfo.

  Lemma exec_TOp_inv id o args rs b st e st' e' :
    exec_stmt2 tys (TOp id o args rs) b st e = Ok (st', e') ->
    exists ws st1 n st2 ts op',
      get_wires e args = Ok ws /\ add_node st (initial_op o) (b_parent b) = Ok (st1, n) /\
      wire_up st1 n ws = Ok (st2, ts) /\ completed_op tys o ts = Ok op' /\ set_op st2 n op' = Ok st' /\
      e' = bind_outs (bind_stmt e id n) n rs.
  Proof.
    rewrite exec_stmt2_TOp. intros H. bd H. rename v into ws. bd H. destruct v as [st1 n1]. cbn [fst snd] in H.
    bd H. destruct v as [st2 ts]. cbn [fst snd] in H. bd H. rename v into op'. bd H. rename v into st3.
    inversion H; subst; clear H. exists ws, st1, n1, st2, ts, op'. repeat split; assumption.
  Qed.

  Lemma exec_TCallInd_inv id args rs b st e st' e' :
    exec_stmt2 tys (TCallInd id args rs) b st e = Ok (st', e') ->
    exists ws st1 n st2 ts op',
      get_wires e args = Ok ws /\ add_node st (CallIndirect [] [] 0) (b_parent b) = Ok (st1, n) /\
      wire_up st1 n ws = Ok (st2, ts) /\ completed_callind tys ts = Ok op' /\ set_op st2 n op' = Ok st' /\
      e' = bind_outs (bind_stmt e id n) n rs.
  Proof.
    rewrite exec_stmt2_TCallInd. intros H. bd H. rename v into ws. bd H. destruct v as [st1 n1]. cbn [fst snd] in H.
    bd H. destruct v as [st2 ts]. cbn [fst snd] in H. bd H. rename v into op'. bd H. rename v into st3.
    inversion H; subst; clear H. exists ws, st1, n1, st2, ts, op'. repeat split; assumption.
  Qed.

  Lemma exec_TLoad_inv id v cp r b st e st' e' :
    exec_stmt2 tys (TLoad id v cp r) b st e = Ok (st', e') ->
    exists st1 c st2 l,
      add_node st (Const v) (match cp with CHere => b_parent b | CRoot => 0 end) = Ok (st1, c) /\
      add_node st1 (LoadConst (value_ty v)) (b_parent b) = Ok (st2, l) /\
      add_link st2 c (Some 0) l (Some 0) = Ok st' /\ e' = bind_outs (bind_stmt e id l) l [r].
  Proof.
    rewrite exec_stmt2_TLoad. intros H. bd H. destruct v0 as [st1 c]. cbn [fst snd] in H. bd H. destruct v0 as [st2 l].
    cbn [fst snd] in H. bd H. rename v0 into st3. inversion H; subst; clear H.
    exists st1, c, st2, l. repeat split; assumption.
  Qed.

  Lemma exec_TNested_inv id args body rs b st e st' e' :
    exec_stmt2 tys (TNested id args body rs) b st e = Ok (st', e') ->
    exists ws ts st1 d st2 i st3 o st4 ts4 e5,
      get_wires e args = Ok ws /\ wire_types st ws = Ok ts /\
      add_node st (DFG ts []) (b_parent b) = Ok (st1, d) /\ add_node st1 (Input ts) d = Ok (st2, i) /\
      add_node st2 (Output []) d = Ok (st3, o) /\ wire_up st3 d ws = Ok (st4, ts4) /\
      exec_region2 tys body (mkb d i o) st4 e = Ok (st', e5) /\
      e' = bind_outs (bind_stmt e5 id d) d rs.
  Proof.
    rewrite exec_stmt2_TNested. intros H. bd H. rename v into ws. bd H. rename v into ts. bd H. destruct v as [st1 d].
    cbn [fst snd] in H. bd H. destruct v as [st3 io]. cbn [fst snd] in H.
    destruct (init_io_inv _ _ _ _ _ E2) as (st2 & i & o & A1 & A2 & ->).
    bd H. destruct v as [st4 ts4]. cbn [fst snd] in H. bd H. destruct v as [st5 e5]. cbn [fst snd] in H.
    inversion H; subst; clear H.
    eexists _, _, _, _, _, _, _, _, _, _, _. repeat split; try eassumption.
  Qed.

  Lemma exec_TOrder_inv src dst b st e st' e' :
    exec_stmt2 tys (TOrder src dst) b st e = Ok (st', e') ->
    exists a c, node_of b e src = Ok a /\ node_of b e dst = Ok c /\ add_order_link st a c = Ok st' /\ e' = e.
  Proof.
    rewrite exec_stmt2_TOrder. intros H. bd H. bd H. bd H. inversion H; subst; clear H. eauto 6.
  Qed.

  Lemma exec_TLoop_inv id just rest body rs b st e st' e' :
    exec_stmt2 tys (TLoop id just rest body rs) b st e = Ok (st', e') ->
    exists jw rw jt rt st1 d st2 i st3 o st4 ts4 e5,
      get_wires e just = Ok jw /\ get_wires e rest = Ok rw /\ wire_types st jw = Ok jt /\ wire_types st rw = Ok rt /\
      add_node st (TailLoop (jt ++ rt) [] [] (lenN jt)) (b_parent b) = Ok (st1, d) /\ add_node st1 (Input (jt ++ rt)) d = Ok (st2, i) /\
      add_node st2 (Output []) d = Ok (st3, o) /\ wire_up st3 d (jw ++ rw) = Ok (st4, ts4) /\
      exec_region2 tys body (mkb d i o) st4 e = Ok (st', e5) /\
      e' = bind_outs (bind_stmt e5 id d) d rs.
  Proof.
    rewrite exec_stmt2_TLoop. intros H. bd H. rename v into jw. bd H. rename v into rw. bd H. rename v into jt.
    bd H. rename v into rt. bd H. destruct v as [st1 d]. cbn [fst snd] in H. bd H. destruct v as [st3 io].
    cbn [fst snd] in H. destruct (init_io_inv _ _ _ _ _ E4) as (st2 & i & o & A1 & A2 & ->).
    bd H. destruct v as [st4 ts4]. cbn [fst snd] in H. bd H. destruct v as [st5 e5]. cbn [fst snd] in H.
    inversion H; subst; clear H.
    eexists _, _, _, _, _, _, _, _, _, _, _, _, _. repeat split; try eassumption.
  Qed.

  Lemma exec_TCond_inv id cond args cs rs b st e st' e' :
    exec_stmt2 tys (TCond id cond args cs rs) b st e = Ok (st', e') ->
    exists cw ws t others cp rows st1 c st2 bs st3 ts3 e4 bs' cur',
      get_wire e cond = Ok cw /\ get_wires e args = Ok ws /\ wire_types st (cw :: ws) = Ok (t :: others) /\
      nthN tys t = Some (TSum cp rows) /\
      add_node st (Conditional rows others [] t) (b_parent b) = Ok (st1, c) /\
      make_cases st1 c rows others = Ok (st2, bs) /\ wire_up st2 c (cw :: ws) = Ok (st3, ts3) /\
      exec_cases2 tys cs c bs None st3 e = Ok (st', e4, bs', cur') /\ cases_done bs' cur' = true /\
      e' = bind_outs (bind_stmt e4 id c) c rs.
  Proof.
    rewrite exec_stmt2_TCond. intros H. bd H. rename v into cw. bd H. rename v into ws. bd H. rename v into ts.
    destruct ts as [|t others]; [discriminate|].
    destruct (nthN tys t) as [[cp rows| |]|] eqn:Et; try discriminate.
    bd H. destruct v as [st1 c]. cbn [fst snd] in H. bd H. destruct v as [st2 bs]. cbn [fst snd] in H.
    bd H. destruct v as [st3 ts3]. cbn [fst snd] in H. bd H. destruct v as [[[st4 e4] bs'] cur'].
    destruct (cases_done bs' cur') eqn:Ed; [|discriminate]. inversion H; subst; clear H.
    eexists _, _, _, _, _, _, _, _, _, _, _, _, _, _, _. repeat split; try eassumption.
  Qed.

  Lemma exec_TInsert_inv id sub args rs b st e st' e' :
    exec_stmt2 tys (TInsert id sub args rs) b st e = Ok (st', e') ->
    exists sti e1 ws st1 m r ts,
      exec_prog2 tys sub e = Ok (sti, e1) /\ get_wires e1 args = Ok ws /\
      insert_hugr st sti (b_parent b) = Ok (st1, m) /\ nthN m 0 = Some r /\
      wire_up st1 r ws = Ok (st', ts) /\ e' = bind_outs (bind_stmt e1 id r) r rs.
  Proof.
    rewrite exec_stmt2_TInsert. intros H. bd H. destruct v as [sti e1]. cbn [fst snd] in H. bd H. rename v into ws.
    bd H. destruct v as [st1 m]. cbn [fst snd] in H. destruct (nthN m 0) as [r|] eqn:Er; [|discriminate].
    bd H. destruct v as [st2 ts]. cbn [fst snd] in H. inversion H; subst; clear H.
    eexists _, _, _, _, _, _, _. repeat split; try eassumption.
  Qed.

  Lemma exec_Reg_inv ins body outs b st e st' e' :
    exec_region2 tys (Reg ins body outs) b st e = Ok (st', e') ->
    exists st1 ws,
      exec_stmts2 tys body b st (bind_outs e (b_in b) ins) = Ok (st1, e') /\ get_wires e' outs = Ok ws /\
      set_outputs2 tys st1 b ws = Ok st'.
  Proof.
    rewrite exec_region2_Reg. intros H. bd H. destruct v as [st1 e1]. cbn [fst snd] in H. bd H. rename v into ws.
    bd H. inversion H; subst; clear H. eauto.
  Qed.

  Lemma exec_TCons_inv s r b st e st' e' :
    exec_stmts2 tys (TCons s r) b st e = Ok (st', e') ->
    exists st1 e1, exec_stmt2 tys s b st e = Ok (st1, e1) /\ exec_stmts2 tys r b st1 e1 = Ok (st', e').
  Proof.
    rewrite exec_stmts2_TCons. intros H. bd H. destruct v as [st1 e1]. cbn [fst snd] in H. eauto.
  Qed.
  Lemma exec_TNil_inv b st e st' e' : exec_stmts2 tys TNil b st e = Ok (st', e') -> st' = st /\ e' = e.
  Proof. rewrite exec_stmts2_TNil. intros H. inversion H; auto. Qed.

  Lemma exec_CCons_inv i r rest cond bs cur st e res :
    exec_cases2 tys (CCons i r rest) cond bs cur st e = Ok res ->
    exists cb st1 e1 ts st2 cur2,
      nthN bs i = Some (cb, false) /\ exec_region2 tys r cb st e = Ok (st1, e1) /\ out_types st1 cb = Ok ts /\
      update_outputs st1 cond cur ts = Ok (st2, cur2) /\
      exec_cases2 tys rest cond (set_nth bs (N.to_nat i) (cb, true)) cur2 st2 e1 = Ok res.
  Proof.
    rewrite exec_cases2_CCons. intros H. destruct (nthN bs i) as [[cb [|]]|] eqn:Eb; try discriminate.
    bd H. destruct v as [st1 e1]. cbn [fst snd] in H. bd H. rename v into ts. bd H. destruct v as [st2 cur2].
    cbn [fst snd] in H. eexists _, _, _, _, _, _. repeat split; try eassumption.
  Qed.
  Lemma exec_CNil_inv cond bs cur st e res :
    exec_cases2 tys CNil cond bs cur st e = Ok res -> res = (st, e, bs, cur).
  Proof. rewrite exec_cases2_CNil. intros H. now inversion H. Qed.

  Lemma exec_QDfg_inv ins body e st' e' :
    exec_prog2 tys (QDfg ins body) e = Ok (st', e') ->
    exec_region2 tys body (mkb 0 1 2)
      {| s_nodes := [mk (DFG ins []) 0; mk (Input ins) 0; mk (Output []) 0]; s_links := [] |} e = Ok (st', e').
  Proof. rewrite exec_prog2_QDfg. cbn. auto. Qed.
  Lemma exec_QLoop_inv just rest body e st' e' :
    exec_prog2 tys (QLoop just rest body) e = Ok (st', e') ->
    exec_region2 tys body (mkb 0 1 2)
      {| s_nodes := [mk (TailLoop (just ++ rest) [] [] (lenN just)) 0; mk (Input (just ++ rest)) 0; mk (Output []) 0]; s_links := [] |} e
      = Ok (st', e').
  Proof. rewrite exec_prog2_QLoop. cbn. auto. Qed.
  Lemma exec_QCond_inv rows others sumty cs e st' e' :
    exec_prog2 tys (QCond rows others sumty cs) e = Ok (st', e') ->
    exists st1 bs bs' cur',
      make_cases (new_store (Conditional rows others [] sumty)) 0 rows others = Ok (st1, bs) /\
      exec_cases2 tys cs 0 bs None st1 e = Ok (st', e', bs', cur') /\ cases_done bs' cur' = true.
  Proof.
    rewrite exec_prog2_QCond. intros H. bd H. destruct v as [st1 bs]. cbn [fst snd] in H. bd H.
    destruct v as [[[st4 e4] bs'] cur']. destruct (cases_done bs' cur') eqn:Ed; [|discriminate].
    inversion H; subst; clear H. eauto 7.
  Qed.
End Inv.

Lemma update_outputs_inv st cond cur ts st' cur' : update_outputs st cond cur ts = Ok (st', cur') ->
  (cur = None /\ cur' = Some ts /\ exists rows others o s,
     s_op st cond = Some (Conditional rows others o s) /\ set_op st cond (Conditional rows others ts s) = Ok st') \/
  (cur = Some ts /\ cur' = cur /\ st' = st).
Proof.
  unfold update_outputs. destruct cur as [o|].
  - unfold row_eqb. destruct (list_eqb_spec N.eqb N.eqb_spec o ts) as [Eq|]; [|discriminate]. intros H. inversion H; subst. now right.
  - destruct (s_op st cond) as [[]|] eqn:E; try discriminate. intros H. bd H. inversion H; subst.
    left. split; [reflexivity|split; [reflexivity|]]. eauto 7.
Qed.

Lemma insert_hugr_inv st inner parent st' m : insert_hugr st inner parent = Ok (st', m) ->
  exists st1, insert_nodes st parent [] (s_nodes inner) 0 = Ok (st1, m) /\ insert_links st1 m (s_links inner) = Ok st'.
Proof.
  unfold insert_hugr. intros H. bd H. destruct v as [st1 m1]. cbn [fst snd] in H. bd H. inversion H; subst. eauto.
Qed.

(* ------------------------------------------------------------------ mutual induction over the extended language *)
Scheme stmt2_mut := Induction for stmt2 Sort Prop
  with region2_mut := Induction for region2 Sort Prop
  with stmts2_mut := Induction for stmts2 Sort Prop
  with cases2_mut := Induction for cases2 Sort Prop
  with prog2_mut := Induction for prog2 Sort Prop.
Combined Scheme prog2_mutind from stmt2_mut, region2_mut, stmts2_mut, cases2_mut, prog2_mut.

Lemma exec_cases2_no_builders tys cs cond cur st e st' e' bs' cur' :
  exec_cases2 tys cs cond [] cur st e = Ok (st', e', bs', cur') -> cur' = cur /\ bs' = [].
Proof.
  destruct cs as [|i r rest].
  - intros H. apply exec_CNil_inv in H. now inversion H.
  - intros H. apply exec_CCons_inv in H. destruct H as (cb & st1 & e1 & ts & st2 & cur2 & Hn & _).
    unfold nthN in Hn. now destruct (N.to_nat i).
Qed.

Lemma in_set_nth {A} (l : list A) n x y : In y (set_nth l n x) -> y = x \/ In y l.
Proof.
  revert n. induction l as [|a l IH]; intros [|n]; cbn; try tauto.
  - intros [H|H]; auto.
  - intros [H|H]; auto. destruct (IH n H); auto.
Qed.
Lemma nthN_In {A} (l : list A) i x : nthN l i = Some x -> In x l.
Proof. unfold nthN. apply nth_error_In. Qed.
