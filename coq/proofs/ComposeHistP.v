(* C02, histories composed with the concrete operation layer and with builder programs.
   proofs/HugrHistP.v proves the guard an invariant of histories that start at Hugr(root_op).  Here:
     hrun_guard         the same from ANY store state satisfying C04's invariant whose view is inside the guard
                        (the inductions of HugrHistP.v are already stated for an arbitrary start state; the guard of
                        the start state gives Ord and PE back)
     hrun_AllOps        the operations of the final state are the operations of the start state and of the calls
                        (add_node / add_const / insert_hugr sources), so "C05's op_ok on the nodes" is a premise on
                        the calls
     state_roundtrip_on the round trip from any such state, with the operation-level facts only for the operations
                        that occur (proofs/SerialHugrOnP.v). *)
From Coq Require Import List Bool Arith ZArith Lia Permutation.
Import ListNotations.
From HV Require Import lib.PyDict lib.Harness model.BiMapM proofs.BiMapP model.Graph spec.GraphS
     proofs.GraphP proofs.GraphInvP proofs.InsertP.
From HV Require Import model.SerialHugr spec.SerialHugrS proofs.SerialHugrP proofs.SerialHugrOnP
     model.HugrHist spec.HugrHistS proofs.HugrHistP.

Section FromState.
  Context {Op Meta : Type}.
  Variables vports sports : Op -> dir -> nat.
  Variable has_order : Op -> bool.
  Notation store := (Graph.hugr Op Meta).
  Notation gget := (@Graph.get_node Op Meta).
  Notation guard := (guard_b vports sports has_order).

  (* the guard of a state's view gives the two history invariants back *)
  Lemma guard_Ord (h : store) : Inv h -> index_ordered_b (view h) = true -> Ord h.
  Proof.
    intros HI G. pose proof HI as (_ & _ & _ & ((rd & Er & _) & _)).
    destruct (io_facts Op Meta (nd_meta rd) (fun _ => true) (view h) G) as [_ F].
    assert (Hn : forall n d, gget h n = Some d ->
              parent_fact Op Meta (view h) n (vnode d) /\
              nd_children d = filter (is_child (view h) n) (lives (view h))).
    { intros n d E. assert (L : is_live (view h) n = true) by (apply view_live; congruence).
      destruct (F n L) as (nn & En & Pf & Ch). rewrite view_get, E in En. cbn in En. injection En as <-. auto. }
    split.
    - intros n d p E Pp. destruct (Hn n d E) as [Pf _]. unfold parent_fact in Pf. cbn [vnode n_parent] in Pf.
      rewrite Pp in Pf. tauto.
    - intros n d E. destruct (Hn n d E) as [_ ->]. apply incr_filter. apply (lives_incr Op Meta).
  Qed.
  Lemma guard_PE (h : store) : ports_exist_b vports sports has_order (view h) = true -> PE vports sports has_order h.
  Proof.
    unfold ports_exist_b. rewrite forallb_forall. intros H s t Hin.
    specialize (H (vlink (s, t))). cbn [view h_links] in H. specialize (H (in_map vlink _ _ Hin)).
    apply andb_prop in H. exact H.
  Qed.

  (* the guard is an invariant of histories without index reuse from any guarded state *)
  Theorem hrun_guard (h0 : store) cs : Inv h0 -> guard (view h0) = true ->
    hist_ok h0 cs = true -> hist_on_ports vports sports has_order h0 cs = true ->
    all_return h0 cs = true /\ Inv (hrun h0 cs) /\ guard (view (hrun h0 cs)) = true.
  Proof.
    intros HI G HH HC. unfold guard_b in G. apply andb_prop in G. destruct G as [Gi Gp].
    destruct (hrun_inv cs h0 HI (guard_Ord h0 HI Gi) HH) as (HI' & HO' & Hret).
    split; [exact Hret|]. split; [exact HI'|]. unfold guard_b. rewrite (ord_index_ordered _ HI' HO'). cbn [andb].
    apply PE_ports_exist. apply hrun_PE; [exact HI|now apply guard_PE|now apply hist_ok_in_guard|exact HC].
  Qed.

  (* ---------------------------------------------------------------- the operations of a state *)
  Variable P : Op -> Prop.
  Definition AllOps (h : store) : Prop := forall n d, gget h n = Some d -> P (nd_op d).
  Definition basic_ops (b : bcmd Op Meta) : Prop :=
    match b with AddNode o _ _ _ | AddConst o _ _ => P o | _ => True end.
  Definition cmd_ops (c : hcmd Op Meta) : Prop :=
    match c with
    | HB b => basic_ops b
    | HSetMeta _ _ => True
    | HInsert o _ src _ => P o /\ Forall basic_ops src
    end.

  Lemma AllOps_view (h : store) : AllOps h -> OpsIn P (view h).
  Proof.
    intros A i n En. rewrite view_get in En. destruct (gget h i) as [d|] eqn:E; [|discriminate].
    cbn in En. injection En as <-. exact (A i d E).
  Qed.

  Lemma init_AllOps o m : P o -> AllOps (init o m).
  Proof.
    intros Po n d. unfold init, add_node_raw. cbn. destruct n as [|[|n]]; cbn; try discriminate. intros [= <-]. exact Po.
  Qed.

  Lemma add_node_AllOps (h : store) o pp k m h' n r : Inv h -> gget h pp <> None -> AllOps h -> P o ->
    add_node_raw h o (Some pp) k m = (h', n, r) -> AllOps h'.
  Proof.
    intros (_ & HF & _) Hpp A Po Hadd. destruct (gget h pp) as [pd|] eqn:Ep; [|congruence].
    destruct (add_node_effect h o pp k m pd HF Ep) as (h1 & n1 & Hadd1 & _ & Hget & _).
    rewrite Hadd in Hadd1. injection Hadd1 as <- <- _.
    intros x d. rewrite Hget. destruct (Nat.eqb x n); [intros [= <-]; exact Po|].
    destruct (Nat.eqb x pp); [intros [= <-]; exact (A pp pd Ep)|apply A].
  Qed.

  Lemma bstep_AllOps (h : store) b h' rt r : Inv h -> basic_in_guard h b = true -> bstep h b = (h', rt, r) ->
    AllOps h -> basic_ops b -> AllOps h'.
  Proof.
    intros HI HG Hb A Pb. destruct (guard_next h b h' rt r HI HG Hb) as (g' & Hs & _ & _ & _).
    destruct (basic_adds b) eqn:Hadd.
    - destruct b as [o p k m|o p m|s t|x y|s t|n]; try discriminate; cbn [bstep basic_in_guard basic_ops] in *.
      + destruct (add_node h o p k m) as [[h1 n1] r1] eqn:E. injection Hb as <- _ _. unfold add_node in E.
        eapply (add_node_AllOps h o (dfl h p) k m h1 n1 r1 HI); [|exact A|exact Pb|exact E].
        unfold s_live in HG. destruct (gget h (dfl h p)); congruence.
      + destruct (add_node h o p None m) as [[h1 n1] r1] eqn:E. injection Hb as <- _ _. unfold add_node in E.
        eapply (add_node_AllOps h o (dfl h p) None m h1 n1 r1 HI); [|exact A|exact Pb|exact E].
        unfold s_live in HG. destruct (gget h (dfl h p)); congruence.
    - intros x d' E. destruct (bstep_back h b h' rt r g' x d' HI Hb Hs Hadd E) as (d & E0 & -> & _). exact (A x d E0).
  Qed.

  Lemma brun_AllOps bs : forall h : store, Inv h -> Ord h -> every_basic basic_ok h bs = true ->
    AllOps h -> Forall basic_ops bs -> AllOps (brun h bs).
  Proof.
    induction bs as [|b r IH]; intros h HI HO HH A F; cbn [brun fold_left]; [assumption|].
    cbn [every_basic] in HH. apply andb_prop in HH. destruct HH as [Hb Hr]. inversion F as [|? ? Fb Fr]; subst.
    destruct (bstep h b) as [[h' rt] res] eqn:E. destruct (bstep_Ord h b h' rt res HI HO Hb E) as (_ & HI' & HO').
    unfold basic_ok in Hb. apply andb_prop in Hb. destruct Hb as [Hg _].
    pose proof (bstep_AllOps h b h' rt res HI Hg E A Fb) as A'. cbn [fst] in *. exact (IH h' HI' HO' Hr A' Fr).
  Qed.

  Lemma hstep_AllOps (h : store) c : Inv h -> call_in_guard h c = true -> AllOps h -> cmd_ops c -> AllOps (fst (hstep h c)).
  Proof.
    intros HI HG A Pc. destruct c as [b|n m|o m src p]; cbn [hstep cmd_ops call_in_guard] in *.
    - destruct (bstep h b) as [[h' rt] r] eqn:E. cbn [fst]. eapply bstep_AllOps; eassumption.
    - unfold s_live in HG. destruct (gget h n) as [d|] eqn:E; [|discriminate].
      destruct (set_meta_effect h n m d E) as [-> Hget]. cbn [fst]. intros x dx. rewrite Hget.
      destruct (Nat.eqb x n); [intros [= <-]; exact (A n d E)|apply A].
    - destruct Pc as [Po Fs]. apply andb_prop in HG. destruct HG as [Hsrc Hp].
      destruct (init_inv o m) as [HI0 _]. destruct (brun_Ord src (init o m) HI0 (init_Ord o m) Hsrc) as [HIB HOB].
      pose proof (brun_AllOps src (init o m) HI0 (init_Ord o m) Hsrc (init_AllOps o m Po) Fs) as AB.
      assert (HWF : WF (brun (init o m) src)).
      { exists (fun x => x). intros x d q E Pq. destruct HOB as [O1 _]. eapply O1; eassumption. }
      destruct (insert_ok [] h (brun (init o m) src) p HI HIB HWF) as (A' & mp & Hins & _ & HIF).
      { unfold s_live, dfl in Hp. destruct (gget h _); congruence. }
      rewrite Hins. cbn [fst]. intros x d' E.
      destruct (if_only _ _ _ _ _ HIF x ltac:(congruence)) as [Hold|[c Hc]].
      + destruct (gget h x) as [d|] eqn:Ed; [|congruence]. rewrite (if_old _ _ _ _ _ HIF x d Ed) in E. injection E as <-.
        destruct (Nat.eqb x _); exact (A x d Ed).
      + assert (Hb : gget (brun (init o m) src) c <> None) by (apply (if_dom _ _ _ _ _ HIF); congruence).
        destruct (gget (brun (init o m) src) c) as [b|] eqn:Eb; [|congruence].
        destruct (if_copy _ _ _ _ _ HIF c x b Hc Eb) as (d2 & Ed2 & F & _). rewrite E in Ed2. injection Ed2 as <-.
        rewrite F. exact (AB c b Eb).
  Qed.

  Theorem hrun_AllOps cs : forall h : store, Inv h -> Ord h -> hist_ok h cs = true ->
    AllOps h -> Forall cmd_ops cs -> AllOps (hrun h cs).
  Proof.
    induction cs as [|c r IH]; intros h HI HO HH A F; cbn [hrun fold_left]; [assumption|].
    unfold hist_ok in HH. cbn [every_call] in HH. apply andb_prop in HH. destruct HH as [Hc Hr].
    inversion F as [|? ? Fc Fr]; subst.
    destruct (hstep_inv h c HI HO Hc) as (_ & HI' & HO').
    unfold call_ok in Hc. apply andb_prop in Hc. destruct Hc as [Hg _].
    exact (IH _ HI' HO' Hr (hstep_AllOps h c HI Hg A Fc) Fr).
  Qed.
End FromState.

(* ------------------------------------------------------------------ the round trip from any guarded state *)
Section StateRoundTrip.
  Variables op sop md : Type.
  Variable enc : op -> sop.
  Variable dec : sop -> op.
  Variable ndp : op -> dir -> option nat.
  Variable md_nil : md.
  Variable md_is_nil : md -> bool.
  Variables vports sports : op -> dir -> nat.
  Variable has_order : op -> bool.
  Hypothesis ndp_spec : forall o d, ndp o d = if has_order o then Some (vports o d + sports o d) else None.
  Hypothesis md_nil_is_nil : md_is_nil md_nil = true.
  Hypothesis md_nil_unique : forall m, md_is_nil m = true -> m = md_nil.
  Variable P : op -> Prop.
  Hypothesis enc_dec_enc : forall o, P o -> enc (dec (enc o)) = enc o.
  Hypothesis ndp_dec_enc : forall o d, P o -> ndp (dec (enc o)) d = ndp o d.

  Theorem state_roundtrip_on (h0 : Graph.hugr op md) (cs : list (hcmd op md)) :
    Inv h0 -> guard_b vports sports has_order (view h0) = true ->
    hist_ok h0 cs = true -> hist_on_ports vports sports has_order h0 cs = true ->
    AllOps P h0 -> Forall (cmd_ops P) cs ->
    all_return h0 cs = true /\
    exists s h', to_serial enc ndp md_is_nil (view (hrun h0 cs)) = Some s /\
                 from_serial dec ndp md_nil s = Some h' /\ to_serial enc ndp md_is_nil h' = Some s /\
                 Iso enc (view (hrun h0 cs)) h'.
  Proof.
    intros HI G HH HC A F. destruct (hrun_guard vports sports has_order h0 cs HI G HH HC) as (Hret & HI' & G').
    split; [exact Hret|].
    pose proof G as G0. unfold guard_b in G0. apply andb_prop in G0. destruct G0 as [Gi _].
    pose proof (AllOps_view P _ (hrun_AllOps P cs h0 HI (guard_Ord h0 HI Gi) HH A F)) as HP.
    destruct (to_serial_total op sop md enc ndp md_nil md_is_nil vports sports has_order ndp_spec _ G') as [s Hs].
    destruct (roundtrip_fixpoint_on op sop md enc dec ndp md_nil md_is_nil vports sports has_order ndp_spec
                md_nil_is_nil P enc_dec_enc _ s G' HP Hs) as [h' [Hf Hs']].
    destruct (roundtrip_iso_on op sop md enc dec ndp md_nil md_is_nil vports sports has_order ndp_spec
                md_nil_unique P enc_dec_enc ndp_dec_enc _ s G' HP Hs) as [h2 [Hf2 [HIso _]]].
    rewrite Hf in Hf2. injection Hf2 as <-. exists s, h'. auto.
  Qed.
End StateRoundTrip.
