(* C13 (seeded round 5) — proofs: a program that leaves a part unfinished (spec/BuilderPartsS.v, stated on the
   calls made) cannot be serialised by the model of the builders' bookkeeping (model/BuilderParts.v), wherever
   the part sits; a program that finishes everything serialises.  In particular declaring a function's outputs
   does not finish the function. *)
From Coq Require Import List Bool Setoid.
Import ListNotations.
From HV Require Import lib.Harness model.Tracked model.BuilderErr spec.BuilderErrS proofs.BuilderErrP
  model.BuilderParts spec.BuilderPartsS.

Lemma existsb_ext_in {A} (f g : A -> bool) l : (forall x, f x = g x) -> existsb f l = existsb g l.
Proof. intros H. induction l as [|x r IH]; cbn; [reflexivity|]. now rewrite H, IH. Qed.

(* ---------------------------------------------------------------- the specification's boolean form *)
Lemma unfinished_b_spec p : unfinished_b p = true <-> Unfinished p.
Proof.
  destruct p as [d f|f|cs|bs ex|f|o w]; cbn [unfinished_b Unfinished].
  1,2,5,6: apply negb_true_iff.
  - rewrite orb_true_iff. split.
    + intros [H|H].
      * left. apply existsb_exists in H. destruct H as (c & Hin & Hc). exists c. split; [exact Hin|].
        intros ->. discriminate.
      * right. destruct cs; [reflexivity|discriminate].
    + intros [(c & Hin & Hc)| ->]; [left|right; reflexivity].
      apply existsb_exists. exists c. split; [exact Hin|]. destruct c; try reflexivity. congruence.
  - rewrite orb_true_iff, negb_true_iff. split.
    + intros [H|H]; [left|right; exact H].
      apply existsb_exists in H. destruct H as (b & Hin & Hb). destruct b; [discriminate|exact Hin].
    + intros [H|H]; [left|right; exact H]. apply existsb_exists. exists false. auto.
Qed.
Lemma left_unfinished_b_spec ps : left_unfinished_b ps = true <-> LeftUnfinished ps.
Proof.
  unfold left_unfinished_b, LeftUnfinished. rewrite existsb_exists.
  split; intros (p & Hin & H); exists p; (split; [exact Hin|]); now apply unfinished_b_spec.
Qed.

Section PartsP.
  Variable T : Type.

  (* ---------------------------------------------------------------- Incomplete, computed *)
  Definition none_b (f : option (row T)) : bool := match f with None => true | Some _ => false end.
  Definition incomplete_b (nodes : list (opfields T)) : bool := existsb (existsb none_b) nodes.

  Lemma incomplete_b_spec nodes : incomplete_b nodes = true <-> Incomplete nodes.
  Proof.
    unfold incomplete_b, Incomplete. rewrite existsb_exists. split.
    - intros (o & Hin & H). apply existsb_exists in H. destruct H as (f & Hf & Hn).
      destruct f; [discriminate|]. eauto.
    - intros (o & Hin & Hn). exists o. split; [exact Hin|]. apply existsb_exists. exists None.
      split; [exact Hn|reflexivity].
  Qed.
  Lemma incomplete_b_cons o r : incomplete_b (o :: r) = existsb none_b o || incomplete_b r.
  Proof. reflexivity. Qed.
  Lemma incomplete_b_app a b : incomplete_b (a ++ b) = incomplete_b a || incomplete_b b.
  Proof. apply existsb_app. Qed.
  Lemma incomplete_b_flat_map {A} (f : A -> list (opfields T)) l :
    incomplete_b (flat_map f l) = existsb (fun x => incomplete_b (f x)) l.
  Proof. induction l as [|x r IH]; cbn [flat_map existsb]; [reflexivity|]. now rewrite incomplete_b_app, IH. Qed.
  Lemma none_fld b : none_b (fld T b) = negb b.
  Proof. destruct b; reflexivity. Qed.

  (* the builders' bookkeeping agrees with the specification, part by part *)
  Lemma case_fields_incomplete c : incomplete_b (case_fields T c) = negb (is_finished c).
  Proof. destruct c; reflexivity. Qed.
  Lemma block_fields_incomplete b : incomplete_b (block_fields T b) = negb b.
  Proof. destruct b; reflexivity. Qed.
  Lemma part_fields_unfinished p : incomplete_b (part_fields T p) = unfinished_b p.
  Proof.
    destruct p as [d f|f|cs|bs ex|f|o w]; cbn [part_fields unfinished_b].
    - destruct d, f; reflexivity.
    - destruct f; reflexivity.
    - rewrite incomplete_b_cons, incomplete_b_flat_map, (existsb_ext_in _ _ cs case_fields_incomplete).
      cbn [existsb]. rewrite none_fld.
      destruct (existsb (fun c => negb (is_finished c)) cs) eqn:E; [now rewrite orb_true_r|].
      destruct cs as [|c r]; [reflexivity|]. cbn [existsb] in *.
      destruct (is_finished c); [reflexivity|discriminate E].
    - rewrite !incomplete_b_cons, incomplete_b_flat_map, (existsb_ext_in _ _ bs block_fields_incomplete).
      cbn [existsb]. rewrite none_fld.
      destruct ex, (existsb negb bs); reflexivity.
    - destruct f; reflexivity.
    - destruct w; reflexivity.
  Qed.
  Lemma parts_incomplete_iff ps : Incomplete (flat_map (part_fields T) ps) <-> LeftUnfinished ps.
  Proof.
    rewrite <- incomplete_b_spec, incomplete_b_flat_map, <- left_unfinished_b_spec. unfold left_unfinished_b.
    rewrite (existsb_ext_in _ _ ps part_fields_unfinished). reflexivity.
  Qed.

  (* ---------------------------------------------------------------- the property's clause *)
  Theorem unfinished_part_serialise_raises ps : LeftUnfinished ps <-> serialise_parts T ps = Err IncompleteOp.
  Proof. unfold serialise_parts. rewrite <- incomplete_op_serialise_raises. symmetry. apply parts_incomplete_iff. Qed.
  Theorem finished_parts_serialise ps : ~ LeftUnfinished ps -> serialise_parts T ps = Ok tt.
  Proof. intros H. apply complete_ops_serialise. now rewrite parts_incomplete_iff. Qed.
  (* at any position of the program *)
  Theorem unfinished_anywhere_raises pre p post : Unfinished p ->
    serialise_parts T (pre ++ p :: post) = Err IncompleteOp.
  Proof.
    intros H. apply unfinished_part_serialise_raises. exists p. split; [|exact H].
    apply in_or_app. right. now left.
  Qed.
  (* announcing a function's outputs is not building them *)
  Theorem declared_outputs_do_not_finish pre declared post :
    serialise_parts T (pre ++ PFunc declared false :: post) = Err IncompleteOp.
  Proof. apply unfinished_anywhere_raises. reflexivity. Qed.
  (* the verdict is one of the two: never some other outcome *)
  Theorem serialise_parts_decided ps :
    serialise_parts T ps = (if left_unfinished_b ps then Err IncompleteOp else Ok tt).
  Proof.
    destruct (left_unfinished_b ps) eqn:E.
    - now apply unfinished_part_serialise_raises, left_unfinished_b_spec.
    - apply finished_parts_serialise. intros H. apply left_unfinished_b_spec in H. congruence.
  Qed.
End PartsP.

(* non-vacuity: the seeded shape (a declared function used by a finished caller, never built), a conditional
   none of whose cases was requested, a CFG without exit branch; and a program that finishes everything *)
Example ex_declared_unbuilt :
  serialise_parts nat [PFunc true false; PFunc true true] = Err IncompleteOp
  /\ serialise_parts nat [PDfg true; PCond []; POp PNoop true] = Err IncompleteOp
  /\ serialise_parts nat [PCfg [true; true] false] = Err IncompleteOp
  /\ serialise_parts nat [PFunc true true; PFunc false true; PCond [CFinished; CFinished]; PCfg [true] true;
                          PLoop true; POp PMakeTuple true] = Ok tt
  /\ LeftUnfinished [PFunc true false; PFunc true true] /\ ~ LeftUnfinished [PFunc true true; PCfg [true] true].
Proof.
  repeat split; try reflexivity.
  - exists (PFunc true false). split; [now left|reflexivity].
  - intros H. apply left_unfinished_b_spec in H. discriminate.
Qed.
