(* C01 (second pass) — frame properties of the builder model: what each builder call leaves untouched, the
   shape of the links `_wire_up` adds, inversion lemmas for `exec`, and the premise-free invariants that the
   later files build on (only operations of the modelled language occur, every dataflow container is followed
   by its Input and Output nodes whose rows are the container's inner signature, the open builder's Output
   node and container still carry their placeholders, the interpreter's environment only mentions existing
   non-root nodes, no link touches the root). *)
From Coq Require Import NArith List Bool Arith Lia.
Import ListNotations.
From HV Require Import lib.Harness model.Validity model.Builder spec.BuilderS proofs.BuilderP proofs.BuilderExtP.
Local Open Scope N_scope.

(* ------------------------------------------------------------------ lists *)
Lemma nth_error_set_nth_eq {A} (l : list A) n x : (n < length l)%nat -> nth_error (set_nth l n x) n = Some x.
Proof. revert n. induction l as [|a l IH]; intros [|n] H; cbn in *; try lia; [reflexivity|]. apply IH. lia. Qed.
Lemma nth_error_set_nth_neq {A} (l : list A) n m x : m <> n -> nth_error (set_nth l n x) m = nth_error l m.
Proof.
  revert n m. induction l as [|a l IH]; intros [|n] [|m] H; cbn; try reflexivity; try congruence.
  apply IH. congruence.
Qed.
Lemma nthN_set_nth_eq {A} (l : list A) n x : n < lenN l -> nthN (set_nth l (N.to_nat n) x) n = Some x.
Proof. unfold nthN, lenN. intros H. apply nth_error_set_nth_eq. lia. Qed.
Lemma nthN_set_nth_neq {A} (l : list A) n m x : m <> n -> nthN (set_nth l (N.to_nat n) x) m = nthN l m.
Proof. unfold nthN. intros H. apply nth_error_set_nth_neq. lia. Qed.
Lemma lenN_set_nth {A} (l : list A) n x : lenN (set_nth l n x) = lenN l.
Proof. unfold lenN. now rewrite length_set_nth. Qed.
Lemma nthN_app_lt {A} (l r : list A) i : i < lenN l -> nthN (l ++ r) i = nthN l i.
Proof. unfold nthN, lenN. intros H. apply nth_error_app1. lia. Qed.
Lemma nthN_app_ge {A} (l r : list A) i : lenN l <= i -> nthN (l ++ r) i = nthN r (i - lenN l).
Proof.
  unfold nthN, lenN. intros H. rewrite nth_error_app2 by lia. f_equal. lia.
Qed.
Lemma nthN_none_ge {A} (l : list A) i : lenN l <= i -> nthN l i = None.
Proof. unfold nthN, lenN. intros H. apply nth_error_None. lia. Qed.
Lemma nthN_0 {A} (x : A) l : nthN (x :: l) 0 = Some x. Proof. reflexivity. Qed.
Lemma nthN_S {A} (x : A) l i : nthN (x :: l) (i + 1) = nthN l i.
Proof. unfold nthN. replace (N.to_nat (i + 1)) with (S (N.to_nat i)) by lia. reflexivity. Qed.
Lemma forallb_set_nth {A} (f : A -> bool) l n x :
  forallb f l = true -> f x = true -> forallb f (set_nth l n x) = true.
Proof.
  revert n. induction l as [|a l IH]; intros [|n] H Hx; cbn in *; try reflexivity;
    apply andb_true_iff in H; destruct H as [H1 H2]; apply andb_true_iff; split; auto.
Qed.
Lemma forallb_nthN {A} (f : A -> bool) l i x : forallb f l = true -> nthN l i = Some x -> f x = true.
Proof. intros H E. rewrite forallb_forall in H. apply H. unfold nthN in E. eapply nth_error_In; eauto. Qed.

(* ------------------------------------------------------------------ the primitives, once more *)
Lemma set_op_ok st n o st' : set_op st n o = Ok st' ->
  exists nd, nthN (s_nodes st) n = Some nd /\
             s_nodes st' = set_nth (s_nodes st) (N.to_nat n) (mk o (n_parent nd)) /\ s_links st' = s_links st.
Proof.
  unfold set_op. destruct (nthN (s_nodes st) n) as [nd|]; [|discriminate]. intros H. inversion H; subst.
  exists nd. auto.
Qed.
Lemma s_len_set_op st n o st' : set_op st n o = Ok st' -> s_len st' = s_len st.
Proof. intros H. destruct (set_op_ok _ _ _ _ H) as (nd & _ & E & _). unfold s_len. now rewrite E, lenN_set_nth. Qed.

Lemma s_parent_nodes a b : s_nodes a = s_nodes b -> forall n, s_parent a n = s_parent b n.
Proof. intros E n. unfold s_parent. now rewrite E. Qed.
Lemma anc_sib_from_nodes a b : s_nodes a = s_nodes b -> forall fuel sp t, anc_sib_from fuel a sp t = anc_sib_from fuel b sp t.
Proof.
  intros E fuel. induction fuel as [|f IH]; intros sp t; cbn [anc_sib_from]; [reflexivity|].
  rewrite (s_parent_nodes a b E). destruct (s_parent b t); [|reflexivity]. now rewrite IH.
Qed.
Lemma anc_sib_nodes a b : s_nodes a = s_nodes b -> forall s t, anc_sib a s t = anc_sib b s t.
Proof. intros E s t. unfold anc_sib. rewrite E, (s_parent_nodes a b E). now apply anc_sib_from_nodes. Qed.
Lemma port_type_nodes a b : s_nodes a = s_nodes b -> forall w, port_type a w = port_type b w.
Proof. intros E w. unfold port_type, s_op. now rewrite E. Qed.
Lemma s_len_nodes a b : s_nodes a = s_nodes b -> s_len a = s_len b.
Proof. unfold s_len. now intros ->. Qed.

Lemma add_link_lt st s so d do_ st' : add_link st s so d do_ = Ok st' -> s < s_len st /\ d < s_len st.
Proof.
  unfold add_link. destruct (N.ltb_spec s (s_len st)); destruct (N.ltb_spec d (s_len st)); cbn; try discriminate. auto.
Qed.

(* the ancestor found by _ancestral_sibling has a parent: it is not the root *)
Lemma anc_sib_from_has_parent fuel : forall st sp t a, anc_sib_from fuel st sp t = Some a -> exists p, s_parent st a = Some p.
Proof.
  induction fuel as [|f IH]; intros st sp t a; cbn [anc_sib_from]; [discriminate|].
  destruct (s_parent st t) as [tp|] eqn:E; [|discriminate].
  destruct (optN_eqb (Some tp) sp).
  - intros H. inversion H; subst. eauto.
  - apply IH.
Qed.
Lemma s_parent_some_pos st n p : s_parent st n = Some p -> n <> 0.
Proof. unfold s_parent. destruct (N.eqb_spec n 0); [discriminate|auto]. Qed.

(* ------------------------------------------------------------------ the links _wire_up adds *)
Definition olink (s d : N) : edge := {| e_src := s; e_soff := None; e_dst := d; e_doff := None |}.
Definition vlink (w : N * N) (d i : N) : edge :=
  {| e_src := fst w; e_soff := Some (snd w); e_dst := d; e_doff := Some i |}.

(* WNew st node i ws ts new: wiring ws into the ports i, i+1, ... of node appended the links `new`; for
   every wire the value link, preceded by the order link to the ancestor a of node that is a sibling of the
   wire's source when a is not node itself and that order link was not there yet *)
Inductive WNew (st : store) (node : N) : N -> list (N * N) -> row -> list edge -> Prop :=
| WN_nil i : WNew st node i [] [] []
| WN_cons i w ws t ts a pre rest :
    anc_sib st (fst w) node = Some a ->
    (pre = [] \/ (pre = [olink (fst w) a] /\ a <> node)) ->
    port_type st w = Ok t ->
    fst w < s_len st -> node < s_len st ->
    WNew st node (i + 1) ws ts rest ->
    WNew st node i (w :: ws) (t :: ts) (pre ++ vlink w node i :: rest).

Lemma WNew_nodes a b node i ws ts new : s_nodes a = s_nodes b -> WNew a node i ws ts new -> WNew b node i ws ts new.
Proof.
  intros E H. induction H; [constructor|].
  econstructor; eauto.
  - now rewrite <- (anc_sib_nodes a b E).
  - now rewrite <- (port_type_nodes a b E).
  - now rewrite <- (s_len_nodes a b E).
  - now rewrite <- (s_len_nodes a b E).
Qed.

Lemma wire_up_port_spec st node i w st' t : wire_up_port st node i w = Ok (st', t) ->
  s_nodes st' = s_nodes st /\
  exists a pre, anc_sib st (fst w) node = Some a /\ (pre = [] \/ (pre = [olink (fst w) a] /\ a <> node)) /\
                s_links st' = s_links st ++ pre ++ [vlink w node i] /\ port_type st w = Ok t /\
                fst w < s_len st /\ node < s_len st.
Proof.
  unfold wire_up_port. destruct (anc_sib st (fst w) node) as [a|] eqn:EA; [|discriminate]. intros H.
  destruct (a =? node) eqn:Ean.
  - cbn [bind] in H. bd H. rename v into st2. bd H. inversion H; subst; clear H.
    destruct (add_link_lt _ _ _ _ _ _ E) as [L1 L2]. apply add_link_ok in E. destruct E as [En El].
    split; [exact En|]. exists a, []. repeat split; auto.
    now rewrite <- (port_type_nodes _ _ En).
  - bd H. rename v into st1. bd H. rename v into st2. bd H. inversion H; subst; clear H.
    destruct (add_order_link_cases _ _ _ _ E) as (En1 & _ & El1).
    destruct (add_link_lt _ _ _ _ _ _ E0) as [L1 L2]. apply add_link_ok in E0. destruct E0 as [En2 El2].
    rewrite (s_len_nodes _ _ En1) in L1, L2.
    split; [congruence|]. apply N.eqb_neq in Ean.
    destruct El1 as [El1|El1].
    + exists a, []. repeat split; auto; [rewrite El2, El1; reflexivity|].
      rewrite <- (port_type_nodes st' st); [assumption|congruence].
    + exists a, [olink (fst w) a]. repeat split; auto.
      * rewrite El2, El1, <- app_assoc. reflexivity.
      * rewrite <- (port_type_nodes st' st); [assumption|congruence].
Qed.

Lemma wire_up_from_spec ws : forall st node i st' ts, wire_up_from st node i ws = Ok (st', ts) ->
  s_nodes st' = s_nodes st /\ exists new, s_links st' = s_links st ++ new /\ WNew st node i ws ts new.
Proof.
  induction ws as [|w r IH]; intros st node i st' ts; cbn [wire_up_from].
  - intros H. inversion H; subst. split; [reflexivity|]. exists []. split; [now rewrite app_nil_r|constructor].
  - intros H. bd H. destruct v as [st1 t]. cbn [fst snd] in H. bd H. destruct v as [st2 ts2]. cbn [fst snd] in H.
    inversion H; subst; clear H.
    destruct (wire_up_port_spec _ _ _ _ _ _ E) as (En1 & a & pre & HA & Hpre & El1 & HT & L1 & L2).
    destruct (IH _ _ _ _ _ E0) as (En2 & new & El2 & HW).
    split; [congruence|]. exists (pre ++ vlink w node i :: new). split.
    + rewrite El2, El1, <- !app_assoc. reflexivity.
    + econstructor; eauto. eapply WNew_nodes; [exact En1|exact HW].
Qed.

(* ------------------------------------------------------------------ inversion of exec *)
Lemma exec_SOp_inv tys id o args rs b st e st' e' :
  exec_stmt tys (SOp id o args rs) b st e = Ok (st', e') ->
  exists ws st1 n st2 ts op',
    get_wires e args = Ok ws /\ add_node st (initial_op o) (b_parent b) = Ok (st1, n) /\
    wire_up st1 n ws = Ok (st2, ts) /\ completed_op tys o ts = Ok op' /\ set_op st2 n op' = Ok st' /\
    e' = bind_outs (bind_stmt e id n) n rs.
Proof.
  intros H. cbn [exec_stmt] in H. bd H. rename v into ws. bd H. destruct v as [st1 n1]. cbn [fst snd] in H.
  bd H. destruct v as [st2 ts]. cbn [fst snd] in H. bd H. rename v into op'. bd H. rename v into st3.
  inversion H; subst; clear H. exists ws, st1, n1, st2, ts, op'. repeat split; assumption.
Qed.
Lemma exec_SLoad_inv tys id v cp r b st e st' e' :
  exec_stmt tys (SLoad id v cp r) b st e = Ok (st', e') ->
  exists st1 c st2 l,
    add_node st (Const v) (match cp with CHere => b_parent b | CRoot => 0 end) = Ok (st1, c) /\
    add_node st1 (LoadConst (value_ty v)) (b_parent b) = Ok (st2, l) /\
    add_link st2 c (Some 0) l (Some 0) = Ok st' /\ e' = bind_outs (bind_stmt e id l) l [r].
Proof.
  intros H. cbn [exec_stmt] in H. bd H. destruct v0 as [st1 c]. cbn [fst snd] in H. bd H. destruct v0 as [st2 l].
  cbn [fst snd] in H. bd H. rename v0 into st3. inversion H; subst; clear H.
  exists st1, c, st2, l. repeat split; assumption.
Qed.
Lemma exec_SNested_inv tys id args body rs b st e st' e' :
  exec_stmt tys (SNested id args body rs) b st e = Ok (st', e') ->
  exists ws ts st1 d st2 i st3 o st4 ts4 e5,
    get_wires e args = Ok ws /\ wire_types st ws = Ok ts /\
    add_node st (DFG ts []) (b_parent b) = Ok (st1, d) /\ add_node st1 (Input ts) d = Ok (st2, i) /\
    add_node st2 (Output []) d = Ok (st3, o) /\ wire_up st3 d ws = Ok (st4, ts4) /\
    exec_region tys body {| b_parent := d; b_in := i; b_out := o |} st4 e = Ok (st', e5) /\
    e' = bind_outs (bind_stmt e5 id d) d rs.
Proof.
  intros H. cbn [exec_stmt] in H. bd H. rename v into ws. bd H. rename v into ts. bd H. destruct v as [st1 d].
  cbn [fst snd] in H. unfold init_io in H. bd H. destruct v as [st3 io].
  unfold init_io in E2. bd E2. destruct v as [st2a i]. cbn [fst snd] in E2. bd E2. destruct v as [st2b o]. cbn [fst snd] in E2.
  inversion E2; subst; clear E2. cbn [fst snd] in H.
  bd H. destruct v as [st4 ts4]. cbn [fst snd] in H. bd H. destruct v as [st5 e5]. cbn [fst snd] in H.
  inversion H; subst; clear H.
  eexists _, _, _, _, _, _, _, _, _, _, _. repeat split; try eassumption.
Qed.
Lemma exec_SOrder_inv tys src dst b st e st' e' :
  exec_stmt tys (SOrder src dst) b st e = Ok (st', e') ->
  exists a c, node_of b e src = Ok a /\ node_of b e dst = Ok c /\ add_order_link st a c = Ok st' /\ e' = e.
Proof.
  intros H. cbn [exec_stmt] in H. bd H. bd H. bd H. inversion H; subst; clear H. eauto 6.
Qed.
Lemma exec_region_inv tys ins body outs b st e st' e' :
  exec_region tys (Region ins body outs) b st e = Ok (st', e') ->
  exists st1 ws,
    exec_stmts tys body b st (bind_outs e (b_in b) ins) = Ok (st1, e') /\ get_wires e' outs = Ok ws /\
    set_outputs st1 b ws = Ok st'.
Proof.
  intros H. cbn [exec_region] in H. bd H. destruct v as [st1 e1]. cbn [fst snd] in H. bd H. rename v into ws.
  bd H. inversion H; subst; clear H. eauto.
Qed.
Lemma exec_SCons_inv tys s r b st e st' e' :
  exec_stmts tys (SCons s r) b st e = Ok (st', e') ->
  exists st1 e1, exec_stmt tys s b st e = Ok (st1, e1) /\ exec_stmts tys r b st1 e1 = Ok (st', e').
Proof. intros H. cbn [exec_stmts] in H. bd H. destruct v as [st1 e1]. cbn [fst snd] in H. eauto. Qed.
Lemma set_outputs_inv st b ws st' : set_outputs st b ws = Ok st' ->
  exists st1 ts st2 po,
    wire_up st (b_out b) ws = Ok (st1, ts) /\ set_op st1 (b_out b) (Output ts) = Ok st2 /\
    s_op st2 (b_parent b) = Some po /\ set_op st2 (b_parent b) (set_out_types po ts) = Ok st'.
Proof.
  unfold set_outputs. intros H. bd H. destruct v as [st1 ts]. cbn [fst snd] in H. bd H. rename v into st2.
  destruct (s_op st2 (b_parent b)) as [po|] eqn:E3; [|discriminate]. eauto 8.
Qed.

(* ------------------------------------------------------------------ the environment *)
Lemma lookup_In {A} (l : list (N * A)) k v : lookup l k = Some v -> In (k, v) l.
Proof.
  induction l as [|[k' v'] l IH]; cbn; [discriminate|]. destruct (N.eqb_spec k k') as [->|_].
  - intros H. inversion H. now left.
  - intros H. right. auto.
Qed.
Lemma get_wires_In e ws : forall ps, get_wires e ws = Ok ps -> forall p, In p ps -> exists w, In (w, p) (e_wires e).
Proof.
  induction ws as [|w r IH]; intros ps; cbn [get_wires].
  - intros H. inversion H. intros p [].
  - unfold get_wire. destruct (lookup (e_wires e) w) as [q|] eqn:E; [|discriminate]. cbn [bind].
    destruct (get_wires e r) as [qs|]; [|discriminate]. cbn [bind]. intros H. inversion H; subst.
    intros p [<-|Hp]; [exists w; now apply lookup_In|eauto].
Qed.

(* every node mentioned by the environment exists and is not the root *)
Definition EnvRange (st : store) (e : env) : Prop :=
  (forall w p, In (w, p) (e_wires e) -> 0 < fst p /\ fst p < s_len st) /\
  (forall s n, In (s, n) (e_stmts e) -> 0 < n /\ n < s_len st).
(* no wire starts at node x (used with x = the open container) *)
Definition WiresNot (x : N) (e : env) : Prop := forall w p, In (w, p) (e_wires e) -> fst p <> x.
(* the environment grew only by nodes created after st *)
Definition EnvExt (st : store) (e e' : env) : Prop :=
  (forall w p, In (w, p) (e_wires e') -> In (w, p) (e_wires e) \/ s_len st <= fst p) /\
  (forall s n, In (s, n) (e_stmts e') -> In (s, n) (e_stmts e) \/ s_len st <= n).

Lemma EnvExt_refl st e : EnvExt st e e. Proof. split; auto. Qed.
Lemma EnvExt_trans st st1 e e1 e2 : s_len st <= s_len st1 -> EnvExt st e e1 -> EnvExt st1 e1 e2 -> EnvExt st e e2.
Proof.
  intros L [A1 A2] [B1 B2]. split.
  - intros w p H. destruct (B1 _ _ H) as [H1|H1]; [auto|right; lia].
  - intros s n H. destruct (B2 _ _ H) as [H1|H1]; [auto|right; lia].
Qed.
Lemma WiresNot_ext st e e' x : EnvExt st e e' -> x < s_len st -> WiresNot x e -> WiresNot x e'.
Proof. intros [A _] L W w p H. destruct (A _ _ H) as [H1|H1]; [eauto|lia]. Qed.
Lemma EnvRange_mono st st' e : s_len st <= s_len st' -> EnvRange st e -> EnvRange st' e.
Proof.
  intros L [A B]. split.
  - intros w p H. destruct (A _ _ H). split; lia.
  - intros s n H. destruct (B _ _ H). split; lia.
Qed.

Lemma bind_outs_from_wires ws : forall e node i w p,
  In (w, p) (e_wires (bind_outs_from e node i ws)) -> In (w, p) (e_wires e) \/ fst p = node.
Proof.
  induction ws as [|x r IH]; intros e node i w p; cbn [bind_outs_from]; [auto|].
  intros H. apply IH in H. destruct H as [H|H]; [|auto]. cbn [e_wires] in H. destruct H as [H|H]; [|auto].
  inversion H; subst. now right.
Qed.
Lemma bind_outs_from_stmts ws : forall e node i, e_stmts (bind_outs_from e node i ws) = e_stmts e.
Proof. induction ws as [|x r IH]; intros e node i; cbn [bind_outs_from]; [reflexivity|]. now rewrite IH. Qed.

Lemma EnvRange_bind st e id n rs : EnvRange st e -> 0 < n -> n < s_len st ->
  EnvRange st (bind_outs (bind_stmt e id n) n rs).
Proof.
  intros [A B] P L. unfold bind_outs. split.
  - intros w p H. apply bind_outs_from_wires in H. destruct H as [H|H]; [apply (A _ _ H)|]. rewrite H. auto.
  - intros s m H. rewrite bind_outs_from_stmts in H. cbn in H. destruct H as [H|H]; [inversion H; subst; auto|eauto].
Qed.
Lemma EnvRange_bind_in st e n ws : EnvRange st e -> 0 < n -> n < s_len st -> EnvRange st (bind_outs e n ws).
Proof.
  intros [A B] P L. unfold bind_outs. split.
  - intros w p H. apply bind_outs_from_wires in H. destruct H as [H|H]; [apply (A _ _ H)|]. rewrite H. auto.
  - intros s m H. rewrite bind_outs_from_stmts in H. eauto.
Qed.
Lemma EnvExt_bind st e id n rs : s_len st <= n -> EnvExt st e (bind_outs (bind_stmt e id n) n rs).
Proof.
  intros L. unfold bind_outs. split.
  - intros w p H. apply bind_outs_from_wires in H. destruct H as [H|H]; [now left|right; lia].
  - intros s m H. rewrite bind_outs_from_stmts in H. cbn in H. destruct H as [H|H]; [inversion H; subst; right; lia|auto].
Qed.
Lemma WiresNot_bind e id n rs x : WiresNot x e -> n <> x -> WiresNot x (bind_outs (bind_stmt e id n) n rs).
Proof.
  intros W Hn w p H. unfold bind_outs in H. apply bind_outs_from_wires in H. destruct H as [H|H]; [eapply W; eauto|congruence].
Qed.
Lemma WiresNot_bind_in e n ws x : WiresNot x e -> n <> x -> WiresNot x (bind_outs e n ws).
Proof.
  intros W Hn w p H. unfold bind_outs in H. apply bind_outs_from_wires in H. destruct H as [H|H]; [eapply W; eauto|congruence].
Qed.

Lemma node_of_range st b e r n : node_of b e r = Ok n -> EnvRange st e ->
  0 < b_in b -> b_in b < s_len st -> 0 < b_out b -> b_out b < s_len st -> 0 < n /\ n < s_len st.
Proof.
  intros H [_ B] I1 I2 O1 O2. destruct r as [| |s]; cbn in H.
  - inversion H; subst. auto.
  - inversion H; subst. auto.
  - destruct (lookup (e_stmts e) s) as [m|] eqn:E; [|discriminate]. inversion H; subst.
    apply lookup_In in E. eauto.
Qed.

(* ------------------------------------------------------------------ what stays untouched *)
Definition Keep (st st' : store) : Prop := forall n, n < s_len st -> nthN (s_nodes st') n = nthN (s_nodes st) n.
Definition KeepX (x y : N) (st st' : store) : Prop :=
  forall n, n < s_len st -> n <> x -> n <> y -> nthN (s_nodes st') n = nthN (s_nodes st) n.

Lemma Keep_refl st : Keep st st. Proof. intros n _. reflexivity. Qed.
Lemma Keep_trans a b c : s_len a <= s_len b -> Keep a b -> Keep b c -> Keep a c.
Proof. intros L H1 H2 n Hn. rewrite H2 by lia. now apply H1. Qed.
Lemma Keep_nodes a b : s_nodes b = s_nodes a -> Keep a b.
Proof. intros E n _. now rewrite E. Qed.
Lemma Keep_app a b ext : s_nodes b = s_nodes a ++ ext -> Keep a b.
Proof. intros E n Hn. rewrite E. now apply nthN_app_lt. Qed.
Lemma Keep_set_op a n o b : set_op a n o = Ok b -> forall st0, s_len st0 <= n -> s_len st0 <= s_len a -> Keep st0 a -> Keep st0 b.
Proof.
  intros H st0 L1 L2 K m Hm. destruct (set_op_ok _ _ _ _ H) as (nd & _ & E & _). rewrite E.
  rewrite nthN_set_nth_neq by lia. now apply K.
Qed.
Lemma Keep_KeepX x y a b : Keep a b -> KeepX x y a b.
Proof. intros K n Hn _ _. now apply K. Qed.
Lemma Ext_len a b : Ext a b -> s_len a <= s_len b.
Proof.
  intros [ext E]. unfold s_len, lenN. apply (f_equal (@length _)) in E. rewrite app_length, !map_length in E. lia.
Qed.

(* ------------------------------------------------------------------ only operations of the modelled language *)
Definition model_op (o : vop) : bool :=
  match o with
  | DFG _ _ | Input _ | Output _ | ExtOp _ _ | Tag _ _ _ | Const _ | LoadConst _ => true
  | _ => false
  end.
Definition ModelOps (l : list vnode) : Prop := forallb (fun nd => model_op (n_op nd)) l = true.
Definition is_dfg (o : vop) : bool := match o with DFG _ _ => true | _ => false end.

Lemma model_op_canon o : model_op (canon o) = model_op o. Proof. now destruct o. Qed.
Lemma is_dfg_canon o : is_dfg (canon o) = is_dfg o. Proof. now destruct o. Qed.
Lemma initial_model o : model_op (initial_op o) = true. Proof. now destruct o. Qed.
Lemma initial_not_dfg o : is_dfg (initial_op o) = false. Proof. now destruct o. Qed.
Lemma canon_eq_model o o' : canon o = canon o' -> model_op o = model_op o' /\ is_dfg o = is_dfg o'.
Proof. intros H. rewrite <- (model_op_canon o), <- (is_dfg_canon o), H, model_op_canon, is_dfg_canon. auto. Qed.

Lemma ModelOps_app l ext : ModelOps l -> ModelOps ext -> ModelOps (l ++ ext).
Proof. unfold ModelOps. intros A B. now rewrite forallb_app, A, B. Qed.
Lemma ModelOps_set l n x : ModelOps l -> model_op (n_op x) = true -> ModelOps (set_nth l n x).
Proof. intros A B. now apply forallb_set_nth. Qed.

(* under the permitted parent/child pairs, a parent that is an operation of the model is a DFG *)
Lemma allowed_model_parent p c : allowed_child p c = true -> model_op p = true -> is_dfg p = true.
Proof. destruct p; cbn; try discriminate; auto. Qed.

Lemma in_index_from_conv {A} (l : list A) : forall k m x,
  nth_error l m = Some x -> In (k + N.of_nat m, x) (index_from l k).
Proof.
  induction l as [|y l IH]; intros k [|m] x; cbn [nth_error index_from]; try discriminate.
  - intros H. inversion H; subst. left. f_equal. lia.
  - intros H. right. replace (k + N.of_nat (S m)) with (k + 1 + N.of_nat m) by lia. now apply IH.
Qed.
Lemma nthN_in_indexed {A} (l : list A) n x : nthN l n = Some x -> In (n, x) (indexed l).
Proof.
  unfold nthN, indexed. intros H. apply (in_index_from_conv l 0) in H. now rewrite N.add_0_l, N2Nat.id in H.
Qed.

Lemma parent_is_dfg l n nd : r_child_tags (Gn l) = true -> ModelOps l -> nthN l n = Some nd -> n <> 0 ->
  exists pd, nthN l (n_parent nd) = Some pd /\ is_dfg (n_op pd) = true.
Proof.
  intros T M E Hn. unfold r_child_tags in T. rewrite forallb_forall in T.
  specialize (T _ (nthN_in_indexed _ _ _ E)). cbn [fst snd] in T.
  apply orb_true_iff in T. destruct T as [T|T]; [apply N.eqb_eq in T; contradiction|].
  unfold op_of in T. cbn [Gn g_nodes] in T. destruct (nthN l (n_parent nd)) as [pd|] eqn:Ep; [|discriminate].
  cbn [option_map] in T. exists pd. split; [reflexivity|].
  eapply allowed_model_parent; eauto. eapply (forallb_nthN _ _ _ _ M Ep).
Qed.

(* ------------------------------------------------------------------ containers and their Input / Output nodes *)
(* every dataflow container is immediately followed by its Input and its Output node, and their rows are
   the container's inner signature.  Holds at every statement boundary, also for the containers still being
   built: there the placeholders agree (DFG ins [] / Output []). *)
Definition io_ok (l : list vnode) : Prop := forall p nd i o, nthN l p = Some nd -> n_op nd = DFG i o ->
  nthN l (p + 1) = Some (mk (Input i) p) /\ nthN l (p + 2) = Some (mk (Output o) p).

(* the builder b is open: its container and Output node still carry the placeholders *)
Definition OpenB (l : list vnode) (b : dfb) : Prop :=
  b_in b = b_parent b + 1 /\ b_out b = b_parent b + 2 /\
  exists i pp, nthN l (b_parent b) = Some (mk (DFG i []) pp) /\
               nthN l (b_parent b + 2) = Some (mk (Output []) (b_parent b)).

Definition LinksPos (st : store) : Prop :=
  forallb (fun e => negb (e_src e =? 0) && negb (e_dst e =? 0)) (s_links st) = true.

Lemma OpenB_WB st b : OpenB (s_nodes st) b -> WB st b.
Proof.
  intros (_ & Eo & i & pp & Hp & Ho). split.
  - eexists. split; [exact Hp|reflexivity].
  - rewrite Eo. eexists. split; [exact Ho|reflexivity].
Qed.
Lemma OpenB_lt l b : OpenB l b -> b_parent b + 2 < lenN l.
Proof. intros (_ & _ & i & pp & _ & Ho). eapply nthN_lt; eauto. Qed.
Lemma OpenB_keep st st' b : Keep st st' -> OpenB (s_nodes st) b -> OpenB (s_nodes st') b.
Proof.
  intros K O. pose proof (OpenB_lt _ _ O) as L. destruct O as (Ei & Eo & i & pp & Hp & Ho).
  split; [exact Ei|]. split; [exact Eo|]. exists i, pp. unfold s_len in K. rewrite !K by (unfold s_len; lia). auto.
Qed.

Lemma nthN_snoc_inv {A} (l : list A) x k y : nthN (l ++ [x]) k = Some y -> nthN l k = Some y \/ (k = lenN l /\ y = x).
Proof.
  intros H. destruct (N.lt_ge_cases k (lenN l)) as [L|L].
  - rewrite nthN_app_lt in H by exact L. now left.
  - rewrite nthN_app_ge in H by exact L. right. destruct (N.eq_dec k (lenN l)) as [->|Hne].
    + rewrite N.sub_diag in H. cbn in H. inversion H. auto.
    + unfold nthN in H. replace (N.to_nat (k - lenN l)) with (S (N.to_nat (k - lenN l - 1))) in H by lia.
      cbn in H. destruct (N.to_nat (k - lenN l - 1)); discriminate.
Qed.

Lemma io_ok_app_leaf l x : io_ok l -> is_dfg (n_op x) = false -> io_ok (l ++ [x]).
Proof.
  intros H Hx p nd i o E Eo. apply nthN_snoc_inv in E. destruct E as [E|[_ ->]].
  - destruct (H _ _ _ _ E Eo) as [A B]. split; now apply nthN_app1.
  - rewrite Eo in Hx. discriminate.
Qed.

Lemma io_ok_app_region l ts p :
  io_ok l -> io_ok (l ++ [mk (DFG ts []) p; mk (Input ts) (lenN l); mk (Output []) (lenN l)]).
Proof.
  intros H q nd i o E Eo. destruct (N.lt_ge_cases q (lenN l)) as [L|L].
  - rewrite nthN_app_lt in E by exact L. destruct (H _ _ _ _ E Eo) as [A B]. split; now apply nthN_app1.
  - rewrite nthN_app_ge in E by exact L.
    destruct (N.eq_dec q (lenN l)) as [->|Hne].
    + rewrite N.sub_diag in E. cbn in E. inversion E; subst. cbn in Eo. inversion Eo; subst.
      rewrite !nthN_app_ge by lia.
      replace (lenN l + 1 - lenN l) with 1 by lia. replace (lenN l + 2 - lenN l) with 2 by lia. split; reflexivity.
    + exfalso. unfold nthN in E.
      destruct (N.to_nat (q - lenN l)) as [|[|[|k]]] eqn:Ek; cbn in E; try lia.
      * inversion E; subst. discriminate.
      * inversion E; subst. discriminate.
      * destruct k; discriminate.
Qed.

Lemma io_ok_set_leaf l n nd x :
  io_ok l -> nthN l n = Some nd -> is_input (n_op nd) = false -> is_output (n_op nd) = false ->
  is_dfg (n_op x) = false -> io_ok (set_nth l (N.to_nat n) x).
Proof.
  intros H En Hi Ho Hx p nd0 i o E Eo. pose proof (nthN_lt _ _ _ En) as Ln.
  destruct (N.eq_dec p n) as [->|Hne].
  - rewrite nthN_set_nth_eq in E by exact Ln. inversion E; subst. rewrite Eo in Hx. discriminate.
  - rewrite nthN_set_nth_neq in E by exact Hne. destruct (H _ _ _ _ E Eo) as [A B].
    assert (p + 1 <> n) by (intros <-; rewrite A in En; inversion En; subst; discriminate).
    assert (p + 2 <> n) by (intros <-; rewrite B in En; inversion En; subst; discriminate).
    rewrite !nthN_set_nth_neq by assumption. auto.
Qed.

Lemma io_ok_close l p i pp ts :
  io_ok l -> nthN l p = Some (mk (DFG i []) pp) ->
  io_ok (set_nth (set_nth l (N.to_nat (p + 2)) (mk (Output ts) p)) (N.to_nat p) (mk (DFG i ts) pp)).
Proof.
  intros H Ep q nd i0 o0 E Eo.
  destruct (H _ _ _ _ Ep eq_refl) as [A B].
  pose proof (nthN_lt _ _ _ Ep) as Lp. pose proof (nthN_lt _ _ _ B) as Lo.
  destruct (N.eq_dec q p) as [->|Hqp].
  - rewrite nthN_set_nth_eq in E by (now rewrite lenN_set_nth). inversion E; subst. cbn in Eo. inversion Eo; subst.
    split.
    + rewrite !nthN_set_nth_neq by lia. exact A.
    + rewrite nthN_set_nth_neq by lia. now rewrite nthN_set_nth_eq.
  - rewrite nthN_set_nth_neq in E by exact Hqp.
    destruct (N.eq_dec q (p + 2)) as [->|Hq2].
    + rewrite nthN_set_nth_eq in E by exact Lo. inversion E; subst. discriminate.
    + rewrite nthN_set_nth_neq in E by exact Hq2. destruct (H _ _ _ _ E Eo) as [A' B'].
      assert (q + 1 <> p) by (intros <-; rewrite A' in Ep; inversion Ep).
      assert (q + 2 <> p) by (intros <-; rewrite B' in Ep; inversion Ep).
      assert (q + 1 <> p + 2) by (intros X; assert (q = p + 1) by lia; subst q; rewrite A in E; inversion E; subst; discriminate).
      assert (q + 2 <> p + 2) by lia.
      rewrite !nthN_set_nth_neq by assumption. auto.
Qed.

(* ------------------------------------------------------------------ whole-statement characterisations *)
Lemma set_nth_snoc {A} (l : list A) x y : set_nth (l ++ [x]) (length l) y = l ++ [y].
Proof. induction l as [|a l IH]; cbn; [reflexivity|]. now rewrite IH. Qed.

Lemma wire_up_spec st node ws st' ts : wire_up st node ws = Ok (st', ts) ->
  s_nodes st' = s_nodes st /\ exists new, s_links st' = s_links st ++ new /\ WNew st node 0 ws ts new.
Proof. apply wire_up_from_spec. Qed.

Lemma SOp_spec tys id o args rs b st e st' e' :
  exec_stmt tys (SOp id o args rs) b st e = Ok (st', e') ->
  exists ws ts op' new st1,
    get_wires e args = Ok ws /\ b_parent b < s_len st /\
    s_nodes st1 = s_nodes st ++ [mk (initial_op o) (b_parent b)] /\ s_links st1 = s_links st /\
    WNew st1 (s_len st) 0 ws ts new /\ completed_op tys o ts = Ok op' /\
    s_nodes st' = s_nodes st ++ [mk op' (b_parent b)] /\ s_links st' = s_links st ++ new /\
    e' = bind_outs (bind_stmt e id (s_len st)) (s_len st) rs.
Proof.
  intros H. apply exec_SOp_inv in H. destruct H as (ws & st1 & n & st2 & ts & op' & G & A & W & C & S & Ee).
  apply add_node_ok in A. destruct A as (Lp & -> & En1 & El1).
  apply wire_up_spec in W. destruct W as (En2 & new & El2 & HW).
  destruct (set_op_ok _ _ _ _ S) as (nd & Hn & En3 & El3).
  exists ws, ts, op', new, st1. repeat split; auto.
  - rewrite En3, En2, En1. rewrite En2, En1 in Hn. unfold s_len in Hn. rewrite nthN_len in Hn. inversion Hn; subst nd.
    unfold s_len, lenN. rewrite Nat2N.id. cbn [mk n_parent]. apply set_nth_snoc.
  - rewrite El3, El2, El1. reflexivity.
Qed.

Lemma SLoad_spec tys id v cp r b st e st' e' :
  exec_stmt tys (SLoad id v cp r) b st e = Ok (st', e') ->
  s_nodes st' = s_nodes st ++ [mk (Const v) (match cp with CHere => b_parent b | CRoot => 0 end);
                               mk (LoadConst (value_ty v)) (b_parent b)] /\
  s_links st' = s_links st ++ [{| e_src := s_len st; e_soff := Some 0; e_dst := s_len st + 1; e_doff := Some 0 |}] /\
  e' = bind_outs (bind_stmt e id (s_len st + 1)) (s_len st + 1) [r].
Proof.
  intros H. apply exec_SLoad_inv in H. destruct H as (st1 & c & st2 & l & A1 & A2 & L & Ee).
  apply add_node_ok in A1. destruct A1 as (Lc & -> & En1 & El1).
  apply add_node_ok in A2. destruct A2 as (Lp & -> & En2 & El2).
  apply add_link_ok in L. destruct L as [En3 El3].
  assert (Hl : s_len st1 = s_len st + 1) by (unfold s_len; rewrite En1, lenN_app; reflexivity).
  rewrite Hl in *. repeat split; auto.
  - rewrite En3, En2, En1, <- app_assoc. reflexivity.
  - rewrite El3, El2, El1. reflexivity.
Qed.

Lemma wire_types_lt st ws : forall ts, wire_types st ws = Ok ts -> forall w, In w ws -> fst w < s_len st.
Proof.
  induction ws as [|w r IH]; intros ts; cbn [wire_types]; [intros _ w []|].
  intros H. bd H. bd H. inversion H; subst; clear H. intros w' [<-|Hin]; [|eauto].
  unfold port_type, s_op in E. destruct (nthN (s_nodes st) (fst w)) eqn:En; [|discriminate]. eapply nthN_lt; eauto.
Qed.
Lemma WNew_types st3 node ws : forall i ts4 new, WNew st3 node i ws ts4 new ->
  forall st ts, wire_types st ws = Ok ts -> (forall n, n < s_len st -> nthN (s_nodes st3) n = nthN (s_nodes st) n) ->
  ts4 = ts.
Proof.
  intros i ts4 new H. induction H; intros st0 ts0 HT K; cbn [wire_types] in HT.
  - now inversion HT.
  - bd HT. bd HT. inversion HT; subst; clear HT. f_equal; [|eapply IHWNew; eauto].
    assert (L : fst w < s_len st0).
    { unfold port_type, s_op in E. destruct (nthN (s_nodes st0) (fst w)) eqn:En; [|discriminate]. eapply nthN_lt; eauto. }
    unfold port_type, s_op in *. rewrite (K _ L) in H1. rewrite H1 in E. now inversion E.
Qed.

Lemma SNested_spec tys id args body rs b st e st' e' :
  exec_stmt tys (SNested id args body rs) b st e = Ok (st', e') ->
  exists ws ts new st3 st4 e5,
    get_wires e args = Ok ws /\ wire_types st ws = Ok ts /\ b_parent b < s_len st /\
    s_nodes st3 = s_nodes st ++ [mk (DFG ts []) (b_parent b); mk (Input ts) (s_len st); mk (Output []) (s_len st)] /\
    s_links st3 = s_links st /\
    WNew st3 (s_len st) 0 ws ts new /\ s_nodes st4 = s_nodes st3 /\ s_links st4 = s_links st ++ new /\
    exec_region tys body {| b_parent := s_len st; b_in := s_len st + 1; b_out := s_len st + 2 |} st4 e = Ok (st', e5) /\
    e' = bind_outs (bind_stmt e5 id (s_len st)) (s_len st) rs.
Proof.
  intros H. apply exec_SNested_inv in H.
  destruct H as (ws & ts & st1 & d & st2 & i & st3 & o & st4 & ts4 & e5 & G & T & A1 & A2 & A3 & W & R & Ee).
  apply add_node_ok in A1. destruct A1 as (Lp & -> & En1 & El1).
  apply add_node_ok in A2. destruct A2 as (_ & -> & En2 & El2).
  apply add_node_ok in A3. destruct A3 as (_ & -> & En3 & El3).
  apply wire_up_spec in W. destruct W as (En4 & new & El4 & HW).
  assert (H1 : s_len st1 = s_len st + 1) by (unfold s_len; rewrite En1, lenN_app; reflexivity).
  assert (H2 : s_len st2 = s_len st + 2) by (unfold s_len in *; rewrite En2, lenN_app, H1; cbn; lia).
  rewrite H1, H2 in *.
  assert (EQ : s_nodes st3 = s_nodes st ++ [mk (DFG ts []) (b_parent b); mk (Input ts) (s_len st); mk (Output []) (s_len st)]).
  { rewrite En3, En2, En1, <- !app_assoc. reflexivity. }
  assert (ts4 = ts).
  { eapply WNew_types; eauto. intros n Hn. rewrite EQ. now apply nthN_app_lt. }
  subst ts4. exists ws, ts, new, st3, st4, e5. repeat split; auto; congruence.
Qed.

Lemma set_outputs_spec st b ws st' : set_outputs st b ws = Ok st' -> OpenB (s_nodes st) b ->
  exists ts new i pp,
    WNew st (b_out b) 0 ws ts new /\ s_links st' = s_links st ++ new /\
    nthN (s_nodes st) (b_parent b) = Some (mk (DFG i []) pp) /\
    s_nodes st' = set_nth (set_nth (s_nodes st) (N.to_nat (b_parent b + 2)) (mk (Output ts) (b_parent b)))
                          (N.to_nat (b_parent b)) (mk (DFG i ts) pp).
Proof.
  intros H (Ei & Eo & i & pp & Hp & Ho). apply set_outputs_inv in H.
  destruct H as (st1 & ts & st2 & po & W & S1 & Hpo & S2).
  apply wire_up_spec in W. destruct W as (En1 & new & El1 & HW).
  destruct (set_op_ok _ _ _ _ S1) as (nd1 & Hn1 & En2 & El2).
  destruct (set_op_ok _ _ _ _ S2) as (nd2 & Hn2 & En3 & El3).
  rewrite Eo, En1, Ho in Hn1. inversion Hn1; subst nd1. cbn [mk n_parent] in En2.
  rewrite En2, En1, Eo, nthN_set_nth_neq, Hp in Hn2 by lia. inversion Hn2; subst nd2. cbn [mk n_parent] in En3.
  unfold s_op in Hpo. rewrite En2, En1, Eo, nthN_set_nth_neq, Hp in Hpo by lia. cbn in Hpo. inversion Hpo; subst po.
  cbn [set_out_types] in En3.
  exists ts, new, i, pp. repeat split; auto.
  - rewrite El3, El2, El1. reflexivity.
  - rewrite En3, En2, En1, Eo. reflexivity.
Qed.

Lemma SOrder_spec tys src dst b st e st' e' :
  exec_stmt tys (SOrder src dst) b st e = Ok (st', e') ->
  exists a c, node_of b e src = Ok a /\ node_of b e dst = Ok c /\ s_nodes st' = s_nodes st /\
              (s_links st' = s_links st \/ s_links st' = s_links st ++ [olink a c]) /\ e' = e.
Proof.
  intros H. apply exec_SOrder_inv in H. destruct H as (a & c & Na & Nc & L & ->).
  destruct (add_order_link_cases _ _ _ _ L) as (En & _ & El). exists a, c. auto 6.
Qed.

(* ------------------------------------------------------------------ the links _wire_up adds never touch the root *)
Lemma anc_sib_pos st s t a : anc_sib st s t = Some a -> a <> 0.
Proof.
  unfold anc_sib. intros H. apply anc_sib_from_has_parent in H. destruct H as [p H]. eapply s_parent_some_pos; eauto.
Qed.
Lemma WNew_pos st node ws : forall i ts new, WNew st node i ws ts new ->
  (forall w, In w ws -> 0 < fst w) -> 0 < node ->
  forallb (fun e => negb (e_src e =? 0) && negb (e_dst e =? 0)) new = true.
Proof.
  intros i ts new H. induction H; intros Hw Hn; [reflexivity|].
  assert (P : 0 < fst w) by (apply Hw; now left).
  assert (X : forall s d, 0 < s -> d <> 0 -> negb (s =? 0) && negb (d =? 0) = true).
  { intros s d Hs Hd. apply andb_true_iff. split; apply negb_true_iff, N.eqb_neq; lia. }
  rewrite forallb_app. apply andb_true_iff. split.
  - destruct H0 as [->|[-> _]]; [reflexivity|]. cbn. rewrite andb_true_r. apply X; [exact P|].
    eapply anc_sib_pos; eauto.
  - cbn [forallb vlink e_src e_dst]. apply andb_true_iff. split; [apply X; lia|].
    apply IHWNew; [intros w' Hw'; apply Hw; now right|exact Hn].
Qed.
Lemma get_wires_pos st e args ws : EnvRange st e -> get_wires e args = Ok ws ->
  forall w, In w ws -> 0 < fst w /\ fst w < s_len st.
Proof. intros [A _] G w Hin. destruct (get_wires_In _ _ _ G _ Hin) as [x Hx]. eapply A; eauto. Qed.
Lemma LinksPos_app st st' new : s_links st' = s_links st ++ new -> LinksPos st ->
  forallb (fun e => negb (e_src e =? 0) && negb (e_dst e =? 0)) new = true -> LinksPos st'.
Proof. unfold LinksPos. intros -> A B. now rewrite forallb_app, A, B. Qed.

(* ------------------------------------------------------------------ the premise-free invariants of exec *)
Lemma EnvExt_weaken st st4 e e5 : s_len st <= s_len st4 -> EnvExt st4 e e5 -> EnvExt st e e5.
Proof.
  intros L [A B]. split.
  - intros w p H. destruct (A _ _ H); [auto|right; lia].
  - intros s n H. destruct (B _ _ H); [auto|right; lia].
Qed.
(* as EnvExt, but wires may also start at the Input node x of the region that was run *)
Definition EnvExtIn (st : store) (x : N) (e e' : env) : Prop :=
  (forall w p, In (w, p) (e_wires e') -> In (w, p) (e_wires e) \/ s_len st <= fst p \/ fst p = x) /\
  (forall s n, In (s, n) (e_stmts e') -> In (s, n) (e_stmts e) \/ s_len st <= n).
Lemma EnvExtIn_EnvExt st0 st x e e' : s_len st0 <= s_len st -> s_len st0 <= x -> EnvExtIn st x e e' -> EnvExt st0 e e'.
Proof.
  intros L Lx [A B]. split.
  - intros w p H. destruct (A _ _ H) as [H1|[H1|H1]]; [auto|right; lia|right; lia].
  - intros s n H. destruct (B _ _ H) as [H1|H1]; [auto|right; lia].
Qed.

Section FrameMain.
  Variable tys : list tyinfo.

  Definition Abase (st : store) : Prop := ModelOps (s_nodes st) /\ io_ok (s_nodes st) /\ LinksPos st.

  Definition FS (s : stmt) : Prop := forall b st e st' e',
    exec_stmt tys s b st e = Ok (st', e') -> Abase st -> OpenB (s_nodes st) b -> EnvRange st e ->
    Abase st' /\ Keep st st' /\ s_len st <= s_len st' /\ EnvRange st' e' /\ EnvExt st e e'.
  Definition FR (r : region) : Prop := forall b st e st' e',
    exec_region tys r b st e = Ok (st', e') -> Abase st -> OpenB (s_nodes st) b -> EnvRange st e ->
    Abase st' /\ KeepX (b_parent b) (b_out b) st st' /\ s_len st <= s_len st' /\ EnvRange st' e' /\
    EnvExtIn st (b_in b) e e' /\
    exists i o pp, nthN (s_nodes st) (b_parent b) = Some (mk (DFG i []) pp) /\
                   nthN (s_nodes st') (b_parent b) = Some (mk (DFG i o) pp).
  Definition FL (l : stmts) : Prop := forall b st e st' e',
    exec_stmts tys l b st e = Ok (st', e') -> Abase st -> OpenB (s_nodes st) b -> EnvRange st e ->
    Abase st' /\ Keep st st' /\ s_len st <= s_len st' /\ EnvRange st' e' /\ EnvExt st e e'.

  Lemma s_len_app st st' ext : s_nodes st' = s_nodes st ++ ext -> s_len st' = s_len st + lenN ext.
  Proof. unfold s_len. intros ->. apply lenN_app. Qed.

  Lemma exec_frame : (forall s, FS s) /\ (forall r, FR r) /\ (forall l, FL l).
  Proof.
    apply prog_mutind; unfold FS, FR, FL.
    - (* SOp *)
      intros id o args rs b st e st' e' H (M & IO & LP) OB ER.
      apply SOp_spec in H. destruct H as (ws & ts & op' & new & st1 & G & Lp & En1 & El1 & HW & C & En' & El' & ->).
      pose proof (completed_canon tys _ _ _ C) as Hc. apply canon_eq_model in Hc. destruct Hc as [Hm Hd].
      rewrite initial_model in Hm. rewrite initial_not_dfg in Hd.
      pose proof (OpenB_lt _ _ OB) as Lb. fold (s_len st) in Lb.
      assert (Hl : s_len st' = s_len st + 1) by (rewrite (s_len_app _ _ _ En'); reflexivity).
      split; [split; [|split]|split; [|split; [|split]]].
      + rewrite En'. apply ModelOps_app; [exact M|]. unfold ModelOps. cbn. now rewrite Hm.
      + rewrite En'. now apply io_ok_app_leaf.
      + eapply LinksPos_app; [exact El'|exact LP|]. eapply WNew_pos; [exact HW| |lia].
        intros w Hw. eapply get_wires_pos; eauto.
      + eapply Keep_app; eauto.
      + lia.
      + apply EnvRange_bind; [eapply EnvRange_mono; [|exact ER]; lia|lia|lia].
      + apply EnvExt_bind. lia.
    - (* SLoad *)
      intros id v cp r b st e st' e' H (M & IO & LP) OB ER.
      apply SLoad_spec in H. destruct H as (En' & El' & ->).
      pose proof (OpenB_lt _ _ OB) as Lb. fold (s_len st) in Lb.
      assert (Hl : s_len st' = s_len st + 2) by (rewrite (s_len_app _ _ _ En'); reflexivity).
      split; [split; [|split]|split; [|split; [|split]]].
      + rewrite En'. apply ModelOps_app; [exact M|reflexivity].
      + rewrite En'. change (s_nodes st ++ [?a; ?c]) with (s_nodes st ++ [a] ++ [c]). rewrite app_assoc.
        apply io_ok_app_leaf; [apply io_ok_app_leaf; [exact IO|reflexivity]|reflexivity].
      + eapply LinksPos_app; [exact El'|exact LP|]. cbn. rewrite andb_true_r.
        apply andb_true_iff. split; apply negb_true_iff, N.eqb_neq; lia.
      + eapply Keep_app; eauto.
      + lia.
      + apply EnvRange_bind; [eapply EnvRange_mono; [|exact ER]; lia|lia|lia].
      + apply EnvExt_bind. lia.
    - (* SNested *)
      intros id args body IH rs b st e st' e' H (M & IO & LP) OB ER.
      apply SNested_spec in H.
      destruct H as (ws & ts & new & st3 & st4 & e5 & G & T & Lp & En3 & El3 & HW & En4 & El4 & R & ->).
      pose proof (OpenB_lt _ _ OB) as Lb. fold (s_len st) in Lb.
      assert (Hl3 : s_len st3 = s_len st + 3) by (rewrite (s_len_app _ _ _ En3); reflexivity).
      assert (Hl4 : s_len st4 = s_len st + 3) by (rewrite (s_len_nodes _ _ En4); exact Hl3).
      set (d := s_len st) in *.
      assert (A4 : Abase st4).
      { split; [|split].
        - rewrite En4, En3. apply ModelOps_app; [exact M|reflexivity].
        - rewrite En4, En3. apply io_ok_app_region. exact IO.
        - eapply LinksPos_app; [exact El4|exact LP|]. eapply WNew_pos; [exact HW| |lia].
          intros w Hw. eapply get_wires_pos; eauto. }
      assert (O4 : OpenB (s_nodes st4) {| b_parent := d; b_in := d + 1; b_out := d + 2 |}).
      { split; [reflexivity|]. split; [reflexivity|]. exists ts, (b_parent b). cbn [b_parent]. rewrite En4, En3. split.
        - apply nthN_len.
        - rewrite nthN_app_ge by (subst d; unfold s_len; lia). subst d. unfold s_len.
          replace (lenN (s_nodes st) + 2 - lenN (s_nodes st)) with 2 by lia. reflexivity. }
      assert (R4 : EnvRange st4 e) by (eapply EnvRange_mono; [|exact ER]; lia).
      destruct (IH _ _ _ _ _ R A4 O4 R4) as (A' & KX & L' & ER' & EX & _). cbn [b_parent b_in b_out] in *.
      split; [exact A'|]. split; [|split; [|split]].
      + intros n Hn. rewrite KX by (fold d in Hn; lia). rewrite En4, En3. now apply nthN_app_lt.
      + lia.
      + apply EnvRange_bind; [exact ER'|lia|lia].
      + eapply EnvExt_trans with (st1 := st) (e1 := e5); [lia| |apply EnvExt_bind; lia].
        eapply EnvExtIn_EnvExt; [|  |exact EX]; lia.
    - (* SOrder *)
      intros src dst b st e st' e' H (M & IO & LP) OB ER.
      apply SOrder_spec in H. destruct H as (a & c & Na & Nc & En' & El' & ->).
      pose proof (OpenB_lt _ _ OB) as Lb. fold (s_len st) in Lb. destruct OB as (Ei & Eo & _).
      assert (Ha : 0 < a /\ a < s_len st) by (eapply node_of_range; eauto; lia).
      assert (Hc : 0 < c /\ c < s_len st) by (eapply node_of_range; eauto; lia).
      split; [split; [|split]|split; [|split; [|split]]].
      + now rewrite En'.
      + now rewrite En'.
      + destruct El' as [El'|El']; [unfold LinksPos; now rewrite El'|].
        eapply LinksPos_app; [exact El'|exact LP|]. cbn. rewrite andb_true_r.
        apply andb_true_iff. split; apply negb_true_iff, N.eqb_neq; lia.
      + now apply Keep_nodes.
      + rewrite (s_len_nodes _ _ En'). lia.
      + eapply EnvRange_mono; [|exact ER]. rewrite (s_len_nodes _ _ En'). lia.
      + apply EnvExt_refl.
    - (* Region *)
      intros ins body IH outs b st e st' e' H A OB ER.
      apply exec_region_inv in H. destruct H as (st1 & ws & X & G & SO).
      pose proof (OpenB_lt _ _ OB) as Lb. fold (s_len st) in Lb.
      pose proof OB as (Ei & Eo & i0 & pp0 & Hp0 & Ho0).
      assert (R0 : EnvRange st (bind_outs e (b_in b) ins)) by (apply EnvRange_bind_in; [exact ER|lia|lia]).
      destruct (IH _ _ _ _ _ X A OB R0) as ((M1 & IO1 & LP1) & K1 & L1 & ER1 & EX1).
      pose proof (OpenB_keep _ _ _ K1 OB) as OB1.
      destruct (set_outputs_spec _ _ _ _ SO OB1) as (ts & new & i & pp & HW & El' & Hp1 & En').
      assert (Hl : s_len st' = s_len st1) by (unfold s_len; now rewrite En', !lenN_set_nth).
      assert (Hpe : mk (DFG i []) pp = mk (DFG i0 []) pp0) by (rewrite K1 in Hp1 by lia; congruence).
      inversion Hpe; subst i0 pp0; clear Hpe.
      split; [split; [|split]|split; [|split; [|split; [|split]]]].
      + rewrite En'. apply ModelOps_set; [apply ModelOps_set; [exact M1|reflexivity]|reflexivity].
      + rewrite En'. now apply io_ok_close.
      + eapply LinksPos_app; [exact El'|exact LP1|]. eapply WNew_pos; [exact HW| |lia].
        intros w Hw. eapply get_wires_pos; eauto.
      + intros n Hn N1 N2. rewrite Eo in N2. rewrite En', !nthN_set_nth_neq by assumption. now apply K1.
      + lia.
      + eapply EnvRange_mono; [|exact ER1]. lia.
      + destruct EX1 as [E1 E2]. split.
        * intros w p Hin. destruct (E1 _ _ Hin) as [H1|H1]; [|auto].
          unfold bind_outs in H1. apply bind_outs_from_wires in H1. destruct H1; auto.
        * intros s n Hin. destruct (E2 _ _ Hin) as [H1|H1]; [|auto].
          unfold bind_outs in H1. rewrite bind_outs_from_stmts in H1. auto.
      + exists i, ts, pp. split; [exact Hp0|]. rewrite En'. apply nthN_set_nth_eq. rewrite lenN_set_nth.
        eapply nthN_lt; eauto.
    - (* SNil *)
      intros b st e st' e' H A OB ER. cbn in H. inversion H; subst.
      split; [exact A|]. split; [apply Keep_refl|]. split; [lia|]. split; [exact ER|apply EnvExt_refl].
    - (* SCons *)
      intros s IHs r IHr b st e st' e' H A OB ER.
      apply exec_SCons_inv in H. destruct H as (st1 & e1 & X1 & X2).
      destruct (IHs _ _ _ _ _ X1 A OB ER) as (A1 & K1 & L1 & ER1 & EX1).
      destruct (IHr _ _ _ _ _ X2 A1 (OpenB_keep _ _ _ K1 OB) ER1) as (A2 & K2 & L2 & ER2 & EX2).
      split; [exact A2|]. split; [eapply Keep_trans; eauto|]. split; [lia|]. split; [exact ER2|].
      eapply EnvExt_trans; eauto.
  Qed.
End FrameMain.
