From HV Require Import model.Export spec.ExportS.
