(* C12 — proofs: the model of the exporter (model/Export.v) satisfies every clause of the
   specification (spec/ExportS.v) on every HUGR that meets the validity guard.  Structural induction
   over the hierarchy; no bound on size or nesting. *)
From Coq Require Import ZArith List Bool Arith Lia Relations.
Import ListNotations.
From HV Require Import lib.Harness model.Export spec.ExportS.
Open Scope Z_scope.

(* ------------------------------------------------------------------ ports and components *)

Lemma port_eqb_spec : forall p q : port, port_eqb p q = true <-> p = q.
Proof.
  intros [[a d] o] [[a' d'] o']. unfold port_eqb. rewrite !andb_true_iff, !Z.eqb_eq, eqb_true_iff.
  split; [intros [[-> ->] ->]; reflexivity | intros H; inversion H; auto].
Qed.
Lemma port_eqb_refl : forall p, port_eqb p p = true.
Proof. intros p. apply port_eqb_spec. reflexivity. Qed.
Lemma port_eqb_reflect : forall p q : port, reflect (p = q) (port_eqb p q).
Proof. intros p q. apply iff_reflect. symmetry. apply port_eqb_spec. Qed.

Lemma conn_mono : forall l r p q, conn r p q -> conn (l :: r) p q.
Proof.
  intros l r p q H. induction H as [x y [l0 [Hin [-> ->]]] | x | x y _ IH | x y z _ IH1 _ IH2].
  - apply rst_step. exists l0. split; [right; exact Hin | split; reflexivity].
  - apply rst_refl.
  - apply rst_sym. exact IH.
  - eapply rst_trans; eassumption.
Qed.

(* the labelling computed by the union-find is the component relation of the links *)
Theorem rep_spec : forall ls p q, rep ls p = rep ls q <-> conn ls p q.
Proof.
  induction ls as [|l r IH]; intros p q.
  - cbn. split.
    + intros ->. apply rst_refl.
    + intros H. induction H as [x y [l0 [[] _]] | x | x y _ IH' | x y z _ IH1 _ IH2]; congruence.
  - cbn [rep]. set (f := rep r). set (a := f (srcp l)). set (b := f (dstp l)). cbv zeta.
    assert (Hab : conn (l :: r) (srcp l) (dstp l)).
    { apply rst_step. exists l. split; [left; reflexivity | split; reflexivity]. }
    split.
    + intros H.
      destruct (port_eqb (f p) b) eqn:Ep; destruct (port_eqb (f q) b) eqn:Eq.
      * apply port_eqb_spec in Ep, Eq. apply conn_mono. apply IH. fold f. congruence.
      * apply port_eqb_spec in Ep.
        (* p ~ dst, src ~ q *)
        assert (conn r p (dstp l)) by (apply IH; exact Ep).
        assert (conn r (srcp l) q) by (apply IH; exact H).
        eapply rst_trans; [apply conn_mono; eassumption|].
        eapply rst_trans; [apply rst_sym; exact Hab|]. apply conn_mono; assumption.
      * apply port_eqb_spec in Eq.
        assert (conn r q (dstp l)) by (apply IH; exact Eq).
        assert (conn r p (srcp l)) by (apply IH; fold f; fold a; congruence).
        eapply rst_trans; [apply conn_mono; eassumption|].
        eapply rst_trans; [exact Hab|]. apply rst_sym. apply conn_mono; assumption.
      * apply conn_mono. apply IH. exact H.
    + intros H.
      induction H as [x y [l0 [[<-|Hin] [-> ->]]] | x | x y _ IH' | x y z _ IH1 _ IH2].
      * fold a. fold b. rewrite port_eqb_refl.
        destruct (port_eqb a b) eqn:E; reflexivity.
      * assert (E : f (srcp l0) = f (dstp l0)).
        { apply IH. apply rst_step. exists l0. auto. }
        rewrite E. reflexivity.
      * reflexivity.
      * symmetry. exact IH'.
      * congruence.
Qed.

(* ------------------------------------------------------------------ induction over the hierarchy *)

Lemma htree_ind2 (P : htree -> Prop) :
  (forall i ch, Forall P ch -> P (HNode i ch)) -> forall t, P t.
Proof.
  intros H. fix IH 1. intros [i ch]. apply H.
  induction ch as [|c r IHr]; constructor; [apply IH | exact IHr].
Qed.

(* ------------------------------------------------------------------ lists *)

Lemma kids_cons {E} keep c ch (e : E) ech :
  kids keep (c :: ch) (e :: ech) = if keep (kind_t c) then e :: kids keep ch ech else kids keep ch ech.
Proof. unfold kids. cbn. destruct (keep (kind_t c)); reflexivity. Qed.

Lemma kids_map {E F} keep (g : E -> F) ch : forall ech,
  map g (kids keep ch ech) = kids keep ch (map g ech).
Proof.
  induction ch as [|c r IH]; intros [|e ech]; try reflexivity.
  cbn [map]. rewrite !kids_cons. destruct (keep (kind_t c)); cbn [map]; rewrite IH; reflexivity.
Qed.

Lemma kids_length {E} keep ch (f : htree -> E) :
  length (kids keep ch (map f ch)) = length (filter (fun c => keep (kind_t c)) ch).
Proof.
  induction ch as [|c r IH]; [reflexivity|].
  cbn [map filter]. rewrite kids_cons. destruct (keep (kind_t c)); cbn [length]; rewrite IH; reflexivity.
Qed.

Lemma find_app {A} (p : A -> bool) l1 l2 :
  find p (l1 ++ l2) = match find p l1 with Some x => Some x | None => find p l2 end.
Proof. induction l1 as [|a r IH]; cbn; [reflexivity|]. destruct (p a); [reflexivity | exact IH]. Qed.

Lemma find_none_filter {A} (p : A -> bool) l : filter p l = [] -> find p l = None.
Proof.
  induction l as [|a r IH]; cbn; [reflexivity|]. destruct (p a); [discriminate | exact IH].
Qed.

Lemma filter_rev_nil {A} (p : A -> bool) l : filter p l = [] -> filter p (rev l) = [].
Proof.
  induction l as [|a r IH]; cbn; [reflexivity|].
  destruct (p a) eqn:E; [discriminate|]. intros H. rewrite filter_app, IH by exact H. cbn. rewrite E. reflexivity.
Qed.

(* with at most one candidate the last one is the first one *)
Lemma find_rev_unique {A} (p : A -> bool) l :
  (length (filter p l) <= 1)%nat -> find p (rev l) = find p l.
Proof.
  induction l as [|a r IH]; [reflexivity|].
  cbn [rev filter find]. rewrite find_app. destruct (p a) eqn:E.
  - cbn [length]. intros H. assert (Hn : filter p r = []) by (destruct (filter p r); [reflexivity | cbn in H; lia]).
    rewrite (find_none_filter p (rev r)) by (apply filter_rev_nil; exact Hn). cbn. rewrite E. reflexivity.
  - intros H. rewrite IH by exact H. destruct (find p r); [reflexivity|]. cbn. rewrite E. reflexivity.
Qed.

Lemma forallb_map {A B} (f : A -> B) (p : B -> bool) l : forallb p (map f l) = forallb (fun x => p (f x)) l.
Proof. induction l as [|a r IH]; cbn; [reflexivity | rewrite IH; reflexivity]. Qed.

Lemma combine_map_self {A B} (g : A -> B) (l : list A) :
  combine l (map g l) = map (fun x => (x, g x)) l.
Proof. induction l as [|a r IH]; cbn; [reflexivity | rewrite IH; reflexivity]. Qed.

Lemma in_ports_length i n : length (in_ports i n) = n.
Proof. unfold in_ports. rewrite map_length, seq_length. reflexivity. Qed.
Lemma out_ports_length i n : length (out_ports i n) = n.
Proof. unfold out_ports. rewrite map_length, seq_length. reflexivity. Qed.

(* ------------------------------------------------------------------ the exported tree, named *)

Section Named.
  Variable h : hugr.
  Context {L Sy : Type} (f : port -> L) (g : Z -> Sy).
  Let root := h_root h.
  Let ns := nodes_of root.
  Let ls := h_links h.

  (* the model's exported node for a hierarchy node, after naming *)
  Definition E (t : htree) : enode L Sy := map_node f g (exp_node ns ls t).
  Definition F (t : htree) : htree * enode L Sy := (t, E t).
  Definition named_module : eregion L Sy := map_region f g (export_ports h).

  Lemma E_unfold i ch : E (HNode i ch) = map_node f g (exp_shallow ns ls i ch (map (exp_node ns ls) ch)).
  Proof. reflexivity. Qed.

  Definition dfgR (ch : list htree) : eregion L Sy :=
    ERegion RData (map f (dfg_srcs ch)) (map f (dfg_tgts ch)) (kids exported ch (map E ch)) (dfg_hints ns ls ch).
  Definition cfgR (ch : list htree) : eregion L Sy :=
    ERegion RControl (map f (cfg_srcs ch)) (map f (cfg_tgts ch)) (kids is_block ch (map E ch)) [].

  Lemma map_dfg_region ch :
    map_region f g (dfg_region ns ls ch (map (exp_node ns ls) ch)) = dfgR ch.
  Proof.
    unfold dfg_region, dfgR. cbn [map_region]. rewrite kids_map, map_map. reflexivity.
  Qed.
  Lemma map_cfg_region ch :
    map_region f g (cfg_region ch (map (exp_node ns ls) ch)) = cfgR ch.
  Proof.
    unfold cfg_region, cfgR. cbn [map_region]. rewrite kids_map, map_map. reflexivity.
  Qed.

  (* regions of a named node, by kind *)
  Definition regs_of (i : ninfo) (ch : list htree) : list (eregion L Sy) :=
    match n_kind i with
    | KDFG | KLoop | KBlock | KFuncDefn | KCase => [dfgR ch]
    | KCFG => [cfgR ch]
    | KCond => map (map_region f g) (flat_map e_regs (map (exp_node ns ls) ch))
    | _ => []
    end.
  Lemma E_regs i ch : e_regs (E (HNode i ch)) = regs_of i ch.
  Proof.
    rewrite E_unfold. unfold regs_of, exp_shallow.
    destruct (n_kind i); cbn [map_node e_regs map]; rewrite <- ?map_dfg_region, <- ?map_cfg_region;
      try reflexivity.
  Qed.

  Lemma cond_regs ch :
    forallb (fun c => is_case (kind_t c)) ch = true ->
    map (map_region f g) (flat_map e_regs (map (exp_node ns ls) ch)) = map (fun c => dfgR (children c)) ch.
  Proof.
    induction ch as [|[ci cch] r IH]; [reflexivity|].
    cbn [forallb map flat_map]. rewrite andb_true_iff. intros [Hc Hr].
    unfold kind_t in Hc. cbn [info] in Hc.
    cbn [exp_node]. unfold exp_shallow at 1.
    destruct (n_kind ci); try discriminate.
    cbn [e_regs app map children]. rewrite map_dfg_region, IH by exact Hr. reflexivity.
  Qed.

  (* ---- the pairing of the specification, on the model's output, enumerates the model nodes *)
  Lemma zipk_kids keep ch :
    Forall (fun c => pairs c (E c) = map F (model_nodes c)) ch ->
    zipk keep pairs ch (kids keep ch (map E ch)) = map F (fmk keep model_nodes ch).
  Proof.
    induction ch as [|c r IH]; intros HF; [reflexivity|].
    inversion HF as [|? ? Hc Hr]; subst.
    cbn [map]. rewrite kids_cons. cbn [zipk fmk]. destruct (keep (kind_t c)).
    - rewrite map_app, Hc. f_equal. apply IH. exact Hr.
    - apply IH. exact Hr.
  Qed.

  Lemma pairs_export : forall t, tree_wf t = true -> pairs t (E t) = map F (model_nodes t).
  Proof.
    apply (htree_ind2 (fun t => tree_wf t = true -> pairs t (E t) = map F (model_nodes t))).
    intros i ch IH Hwf. cbn [tree_wf] in Hwf. apply andb_true_iff in Hwf. destruct Hwf as [Hn Hch].
    assert (IH' : Forall (fun c => pairs c (E c) = map F (model_nodes c)) ch).
    { rewrite Forall_forall in *. intros c Hc. apply IH; [exact Hc|].
      rewrite forallb_forall in Hch. apply Hch. exact Hc. }
    cbn [pairs model_nodes map]. unfold F at 1. f_equal.
    rewrite E_regs. unfold regs_of.
    destruct (n_kind i) eqn:K; try reflexivity.
    - (* FuncDefn *) cbn [r_ch dfgR]. apply zipk_kids. exact IH'.
    - (* DFG *) cbn [r_ch dfgR]. apply zipk_kids. exact IH'.
    - (* CFG *) cbn [r_ch cfgR]. apply zipk_kids. exact IH'.
    - (* Block *) cbn [r_ch dfgR]. apply zipk_kids. exact IH'.
    - (* Cond *)
      unfold node_wf in Hn. rewrite K in Hn. rewrite cond_regs by exact Hn.
      clear IH Hch K. induction ch as [|[ci cch] r IHr]; [reflexivity|].
      cbn [forallb] in Hn. apply andb_true_iff in Hn. destruct Hn as [Hc Hr].
      inversion IH' as [|? ? Hc' Hr']; subst.
      cbn [map flat_map]. rewrite map_app. rewrite <- IHr by assumption. f_equal.
      (* the Case child: its own pairing starts with itself, then its exported children *)
      unfold kind_t in Hc. cbn [info] in Hc.
      cbn [pairs model_nodes map] in Hc'. rewrite E_regs in Hc'. unfold regs_of in Hc'.
      destruct (n_kind ci); try discriminate.
      injection Hc' as Hc'. cbn [children dfgR r_ch] in *. exact Hc'.
    - (* Case *) cbn [r_ch dfgR]. apply zipk_kids. exact IH'.
    - (* Loop *) cbn [r_ch dfgR]. apply zipk_kids. exact IH'.
  Qed.
End Named.

(* ------------------------------------------------------------------ well-formedness reaches every model node *)

Definition good (k : opk) : bool :=
  match k with
  | KDFG | KLoop | KBlock | KCFG | KCond | KFuncDefn | KFuncDecl | KAliasDecl | KAliasDefn
  | KCall | KLoadFunc | KLoadConst | KCallInd | KTag | KExt => true
  | _ => false
  end.
Definition Q (s : htree) : Prop := tree_wf s = true /\ good (kind_t s) = true.

Lemma model_nodes_head t : model_nodes t = t :: tl (model_nodes t).
Proof. destruct t; reflexivity. Qed.

Lemma fmk_Q keep ch :
  Forall (fun c => tree_wf c = true -> Forall Q (tl (model_nodes c))) ch ->
  forallb tree_wf ch = true ->
  (forall c, In c ch -> keep (kind_t c) = true -> good (kind_t c) = true) ->
  Forall Q (fmk keep model_nodes ch).
Proof.
  induction ch as [|c r IH]; intros HF Hw Hg; [constructor|].
  inversion HF as [|? ? Hc Hr]; subst. cbn [forallb] in Hw. apply andb_true_iff in Hw. destruct Hw as [Hwc Hwr].
  cbn [fmk]. destruct (keep (kind_t c)) eqn:Kc.
  - apply Forall_app. split.
    + rewrite model_nodes_head. constructor.
      * split; [exact Hwc | apply Hg; [left; reflexivity | exact Kc]].
      * apply Hc. exact Hwc.
    + apply IH; [exact Hr | exact Hwr | intros d Hd; apply Hg; right; exact Hd].
  - apply IH; [exact Hr | exact Hwr | intros d Hd; apply Hg; right; exact Hd].
Qed.

Lemma df_child_good k : df_child k = true -> exported k = true -> good k = true.
Proof. destruct k; cbn; intros; try discriminate; reflexivity. Qed.
Lemma mod_child_good k : mod_child k = true -> exported k = true -> good k = true.
Proof. destruct k; cbn; intros; try discriminate; reflexivity. Qed.
Lemma is_block_good k : is_block k = true -> good k = true.
Proof. destruct k; cbn; intros; try discriminate; reflexivity. Qed.

Lemma model_nodes_wf : forall t, tree_wf t = true -> Forall Q (tl (model_nodes t)).
Proof.
  apply (htree_ind2 (fun t => tree_wf t = true -> Forall Q (tl (model_nodes t)))).
  intros i ch IH Hwf. cbn [tree_wf] in Hwf. apply andb_true_iff in Hwf. destruct Hwf as [Hn Hch].
  cbn [model_nodes tl]. unfold node_wf in Hn.
  assert (Hdf : forallb (fun c => df_child (kind_t c)) ch && at_most_one is_input ch && at_most_one is_output ch = true ->
                Forall Q (fmk exported model_nodes ch)).
  { intros H. apply andb_true_iff in H. destruct H as [H _]. apply andb_true_iff in H. destruct H as [H _].
    apply fmk_Q; [exact IH | exact Hch |]. intros c Hc Kc. rewrite forallb_forall in H.
    apply df_child_good; [apply H; exact Hc | exact Kc]. }
  destruct (n_kind i) eqn:K; try constructor; try (apply Hdf; exact Hn).
  - (* CFG *) apply fmk_Q; [exact IH | exact Hch |]. intros c _ Kc. apply is_block_good. exact Kc.
  - (* Cond *)
    clear Hdf K. induction ch as [|[ci cch] r IHr]; [constructor|].
    inversion IH as [|? ? Hc Hr]; subst.
    cbn [forallb] in Hn, Hch. apply andb_true_iff in Hn, Hch. destruct Hn as [Hk Hn]. destruct Hch as [Hwc Hwr].
    cbn [flat_map]. apply Forall_app. split; [|apply IHr; assumption].
    specialize (Hc Hwc). unfold kind_t in Hk. cbn [info] in Hk. cbn [model_nodes tl] in Hc.
    destruct (n_kind ci); try discriminate. exact Hc.
Qed.

(* ------------------------------------------------------------------ the clauses, node by node *)

Lemma zz_list_refl : forall l, list_eqb zz_eqb l l = true.
Proof.
  induction l as [|[a b] r IH]; [reflexivity|]. cbn [list_eqb]. rewrite IH.
  unfold zz_eqb, pair_eqb. cbn [fst snd]. rewrite !Z.eqb_refl. reflexivity.
Qed.

Section Clauses.
  Variable h : hugr.
  Context {L Sy : Type} (f : port -> L) (g : Z -> Sy).
  Context (seqb : Sy -> Sy -> bool).
  Hypothesis seqb_spec : forall a b, seqb a b = true <-> a = b.
  Hypothesis g_inj : forall a b, g a = g b -> a = b.
  Let root := h_root h.
  Let ns := nodes_of root.
  Let ls := h_links h.
  Hypothesis Hvalid : valid_b h = true.

  Notation E := (E h f g).
  Notation F := (F h f g).

  Lemma valid_parts :
    kind_t root = KModule /\ tree_wf root = true /\
    nodupb Z.eqb (map n_idx (s_nodes root)) = true /\ forallb (static_ok h) (all_model_nodes h) = true.
  Proof.
    pose proof Hvalid as H. unfold valid_b in H.
    apply andb_true_iff in H. destruct H as [H H4]. apply andb_true_iff in H. destruct H as [H H3].
    apply andb_true_iff in H. destruct H as [H1 H2].
    repeat split; try assumption.
    change (kind_t (h_root h) = KModule). destruct (kind_t (h_root h)); try discriminate; reflexivity.
  Qed.

  Lemma root_children_wf : forallb tree_wf (children root) = true /\ node_wf (info root) (children root) = true.
  Proof.
    destruct valid_parts as (_ & Hwf & _). destruct root as [i ch]. cbn [tree_wf] in Hwf.
    apply andb_true_iff in Hwf. destruct Hwf as [A B]. split; assumption.
  Qed.

  Lemma all_nodes_Q : Forall Q (all_model_nodes h).
  Proof.
    destruct valid_parts as (Hk & _ & _). destruct root_children_wf as [Hch Hn].
    unfold all_model_nodes. fold root. apply fmk_Q.
    - apply Forall_forall. intros c _. apply model_nodes_wf.
    - exact Hch.
    - intros c Hc Kc. unfold node_wf in Hn. unfold kind_t in Hk. rewrite Hk in Hn.
      rewrite forallb_forall in Hn. apply mod_child_good; [apply Hn; exact Hc | exact Kc].
  Qed.

  Lemma all_pairs_export : all_pairs h (named_module h f g) = map F (all_model_nodes h).
  Proof.
    destruct root_children_wf as [Hch _].
    unfold all_pairs, named_module, export_ports, module_region, all_model_nodes. fold root ns ls.
    cbn [map_region r_ch]. rewrite kids_map, map_map.
    apply (zipk_kids h f g). apply Forall_forall. intros c Hc. apply pairs_export.
    rewrite forallb_forall in Hch. apply Hch. exact Hc.
  Qed.

  (* a clause holds of the model as soon as it holds node by node *)
  Lemma clause_by_nodes (c : htree -> enode L Sy -> bool) :
    (forall s, In s (all_model_nodes h) -> Q s -> c s (E s) = true) ->
    forallb (fun p => c (fst p) (snd p)) (all_pairs h (named_module h f g)) = true.
  Proof.
    intros H. rewrite all_pairs_export, forallb_map. apply forallb_forall. intros s Hs. cbn [F fst snd].
    apply H; [exact Hs|]. pose proof all_nodes_Q as HQ. rewrite Forall_forall in HQ. apply HQ. exact Hs.
  Qed.

  (* fields of a named node *)
  Lemma E_meta s : good (kind_t s) = true -> e_meta (E s) = n_meta (info s).
  Proof.
    destruct s as [i ch]. unfold kind_t. cbn [info]. intros Hg. rewrite E_unfold. unfold exp_shallow.
    destruct (n_kind i); try discriminate; reflexivity.
  Qed.
  Lemma E_ins s : good (kind_t s) = true -> e_ins (E s) = map f (in_ports (idx_t s) (n_in (info s))).
  Proof.
    destruct s as [i ch]. unfold kind_t, idx_t. cbn [info]. intros Hg. rewrite E_unfold. unfold exp_shallow.
    destruct (n_kind i); try discriminate; reflexivity.
  Qed.
  Lemma E_outs s : good (kind_t s) = true -> e_outs (E s) = map f (out_ports (idx_t s) (n_out (info s))).
  Proof.
    destruct s as [i ch]. unfold kind_t, idx_t. cbn [info]. intros Hg. rewrite E_unfold. unfold exp_shallow.
    destruct (n_kind i); try discriminate; reflexivity.
  Qed.
  Lemma E_sig s : good (kind_t s) = true -> e_sig (E s) = n_sig (info s).
  Proof.
    destruct s as [i ch]. unfold kind_t. cbn [info]. intros Hg. rewrite E_unfold. unfold exp_shallow.
    destruct (n_kind i); try discriminate; reflexivity.
  Qed.
  Lemma E_regs' s : e_regs (E s) = regs_of h f g (info s) (children s).
  Proof. destruct s as [i ch]. apply E_regs. Qed.

  (* ---- clause 7 *)
  Theorem model_metadata_carried : metadata_carried h (named_module h f g) = true.
  Proof.
    unfold metadata_carried. apply clause_by_nodes. intros s _ [_ Hg]. unfold l_meta.
    rewrite E_meta by exact Hg. apply zz_list_refl.
  Qed.

  (* ---- sources and targets of regions *)
  Lemma wf_dfg_unique s :
    tree_wf s = true ->
    match kind_t s with KDFG | KLoop | KBlock | KFuncDefn | KCase => True | _ => False end ->
    at_most_one is_input (children s) = true /\ at_most_one is_output (children s) = true.
  Proof.
    destruct s as [i ch]. unfold kind_t. cbn [info children tree_wf]. intros Hw Hk.
    apply andb_true_iff in Hw. destruct Hw as [Hn _]. unfold node_wf in Hn.
    destruct (n_kind i); try contradiction;
      (apply andb_true_iff in Hn; destruct Hn as [Hn B]; apply andb_true_iff in Hn; destruct Hn as [_ A];
       split; assumption).
  Qed.

  Lemma last_first p ch : at_most_one p ch = true -> last_such p ch = s_first p ch.
  Proof.
    unfold at_most_one, last_such, s_first. intros H. apply Nat.leb_le in H.
    apply find_rev_unique. exact H.
  Qed.

  Lemma dfg_ports_fact ch :
    at_most_one is_input ch = true -> at_most_one is_output ch = true ->
    dfg_ports_ok ch (dfgR h f g ch) = true.
  Proof.
    intros Hi Ho. unfold dfg_ports_ok, dfgR. cbn [r_srcs r_tgts]. rewrite !map_length.
    unfold dfg_srcs, dfg_tgts. rewrite (last_first _ _ Hi), (last_first _ _ Ho).
    destruct (s_first is_input ch); destruct (s_first is_output ch);
      rewrite ?out_ports_length, ?in_ports_length; cbn [length]; rewrite ?Nat.eqb_refl; reflexivity.
  Qed.

  Lemma wf_children s : tree_wf s = true -> forallb tree_wf (children s) = true.
  Proof.
    destruct s as [i ch]. cbn [tree_wf children]. intros H. apply andb_true_iff in H. tauto.
  Qed.
  Lemma wf_cond_cases s : tree_wf s = true -> kind_t s = KCond ->
    forallb (fun c => is_case (kind_t c)) (children s) = true.
  Proof.
    destruct s as [i ch]. unfold kind_t. cbn [tree_wf children info]. intros H K.
    apply andb_true_iff in H. destruct H as [Hn _]. unfold node_wf in Hn. rewrite K in Hn. exact Hn.
  Qed.
  Lemma wf_cfg_exit s : tree_wf s = true -> kind_t s = KCFG -> at_most_one is_exit (children s) = true.
  Proof.
    destruct s as [i ch]. unfold kind_t. cbn [tree_wf children info]. intros H K.
    apply andb_true_iff in H. destruct H as [Hn _]. unfold node_wf in Hn. rewrite K in Hn.
    apply andb_true_iff in Hn. tauto.
  Qed.

  Lemma cond_regs' s : tree_wf s = true -> kind_t s = KCond ->
    e_regs (E s) = map (fun c => dfgR h f g (children c)) (children s).
  Proof.
    intros Hw K. rewrite E_regs'. unfold regs_of. unfold kind_t in K. rewrite K.
    apply cond_regs. apply (wf_cond_cases s Hw K).
  Qed.

  (* ---- clause 2 *)
  Theorem model_ports_exactly_signature : ports_exactly_signature h (named_module h f g) = true.
  Proof.
    unfold ports_exactly_signature. apply andb_true_iff. split; [reflexivity|].
    apply clause_by_nodes. intros s _ [Hw Hg]. unfold l_ports.
    rewrite E_ins, E_outs, E_sig by exact Hg. rewrite !map_length, in_ports_length, out_ports_length.
    rewrite !Nat.eqb_refl, Z.eqb_refl. cbn [andb].
    destruct (kind_t s) eqn:K; try reflexivity.
    - (* FuncDefn *) rewrite E_regs'. unfold regs_of. unfold kind_t in K. rewrite K.
      destruct (wf_dfg_unique s Hw) as [A B]; [unfold kind_t; rewrite K; exact I|]. apply dfg_ports_fact; assumption.
    - rewrite E_regs'. unfold regs_of. unfold kind_t in K. rewrite K.
      destruct (wf_dfg_unique s Hw) as [A B]; [unfold kind_t; rewrite K; exact I|]. apply dfg_ports_fact; assumption.
    - (* CFG *) rewrite E_regs'. unfold regs_of. pose proof (wf_cfg_exit s Hw K) as Hx. unfold kind_t in K. rewrite K.
      unfold cfg_ports_ok, cfgR. cbn [r_srcs r_tgts]. rewrite !map_length.
      unfold cfg_srcs, cfg_tgts, first_such. rewrite (last_first _ _ Hx). unfold s_first.
      destruct (find (fun c => is_block (kind_t c)) (children s));
        destruct (find (fun c => is_exit (kind_t c)) (children s));
        rewrite ?in_ports_length; cbn [length]; rewrite ?Nat.eqb_refl; reflexivity.
    - rewrite E_regs'. unfold regs_of. unfold kind_t in K. rewrite K.
      destruct (wf_dfg_unique s Hw) as [A B]; [unfold kind_t; rewrite K; exact I|]. apply dfg_ports_fact; assumption.
    - (* Cond *) rewrite (cond_regs' s Hw K).
      pose proof (wf_children s Hw) as Hc. pose proof (wf_cond_cases s Hw K) as Hk.
      induction (children s) as [|c r IH]; [reflexivity|].
      cbn [forallb map] in *. apply andb_true_iff in Hc, Hk. destruct Hc as [Hc1 Hc2]. destruct Hk as [Hk1 Hk2].
      rewrite IH by assumption. rewrite andb_true_r.
      destruct (wf_dfg_unique c Hc1) as [A B]; [destruct (kind_t c); try discriminate; exact I|].
      apply dfg_ports_fact; assumption.
    - rewrite E_regs'. unfold regs_of. unfold kind_t in K. rewrite K.
      destruct (wf_dfg_unique s Hw) as [A B]; [unfold kind_t; rewrite K; exact I|]. apply dfg_ports_fact; assumption.
  Qed.

  (* ---- clause 1 *)
  Lemma static_same i : static_source ns ls i = s_static h i.
  Proof. reflexivity. Qed.

  Lemma nodes_static_ok s : In s (all_model_nodes h) -> static_ok h s = true.
  Proof.
    destruct valid_parts as (_ & _ & _ & H). rewrite forallb_forall in H. apply H.
  Qed.

  Lemma tag_fact s : In s (all_model_nodes h) -> good (kind_t s) = true -> tag_ok h (info s) (e_op (E s)) = true.
  Proof.
    intros Hin Hg. pose proof (nodes_static_ok s Hin) as Hs.
    destruct s as [i ch]. unfold kind_t in *. cbn [info] in *. rewrite E_unfold. unfold exp_shallow, tag_ok.
    unfold static_ok, kind_t in Hs. cbn [info] in Hs.
    destruct (n_kind i) eqn:K; try discriminate; cbn [map_node map_op e_op]; try reflexivity.
    (* LoadConst *)
    unfold const_val. rewrite static_same. fold ls.
    destruct (s_static h i) as [c|]; [|discriminate]. rewrite Hs. cbn [oget]. rewrite Z.eqb_refl. reflexivity.
  Qed.

  Lemma region_ok_dfg ch : region_ok exported RData ch (dfgR h f g ch) = true.
  Proof.
    unfold region_ok, dfgR, count_kids. cbn [r_kind r_ch rkind_eqb andb]. rewrite kids_length. apply Nat.eqb_refl.
  Qed.
  Lemma region_ok_cfg ch : region_ok is_block RControl ch (cfgR h f g ch) = true.
  Proof.
    unfold region_ok, cfgR, count_kids. cbn [r_kind r_ch rkind_eqb andb]. rewrite kids_length. apply Nat.eqb_refl.
  Qed.

  Theorem model_regions_mirror_hierarchy : regions_mirror_hierarchy h (named_module h f g) = true.
  Proof.
    destruct valid_parts as (Hk & _).
    unfold regions_mirror_hierarchy. fold root. rewrite Hk. cbn [opk_eqb andb].
    apply andb_true_iff. split.
    - unfold region_ok, named_module, export_ports, module_region, count_kids. fold root ns ls.
      cbn [map_region r_kind r_ch rkind_eqb andb]. rewrite map_length, kids_length. apply Nat.eqb_refl.
    - apply clause_by_nodes. intros s Hin [Hw Hg]. unfold l_struct. rewrite (tag_fact s Hin Hg). cbn [andb].
      destruct (kind_t s) eqn:K; try discriminate; rewrite E_regs'; unfold regs_of;
        try (unfold kind_t in K; rewrite K; try reflexivity; try apply region_ok_dfg; apply region_ok_cfg).
      (* Cond *)
      fold (regs_of h f g (info s) (children s)). rewrite <- E_regs'. rewrite (cond_regs' s Hw K).
      pose proof (wf_cond_cases s Hw K) as Hc.
      induction (children s) as [|c r IH]; [reflexivity|].
      cbn [forallb map forallb2] in *. apply andb_true_iff in Hc. destruct Hc as [Hc1 Hc2].
      rewrite Hc1, region_ok_dfg, IH by exact Hc2. reflexivity.
  Qed.

  (* ---- clause 5 *)
  Lemma E_defsym s : def_sym (E s) = if is_func (kind_t s) then Some (g (idx_t s)) else None.
  Proof.
    destruct s as [i ch]. unfold kind_t, idx_t, def_sym. cbn [info]. rewrite E_unfold. unfold exp_shallow.
    destruct (n_kind i); reflexivity.
  Qed.
  Lemma E_appsym s :
    app_sym (E s) = match kind_t s with
                    | KCall | KLoadFunc => Some (g (oget (func_sym ns ls (info s))))
                    | _ => None end.
  Proof.
    destruct s as [i ch]. unfold kind_t, app_sym. cbn [info]. rewrite E_unfold. unfold exp_shallow.
    destruct (n_kind i); reflexivity.
  Qed.

  Lemma seqb_refl a : seqb a a = true.
  Proof. apply seqb_spec. reflexivity. Qed.

  Theorem model_applied_symbols_defined : applied_symbols_defined seqb h (named_module h f g) = true.
  Proof.
    unfold applied_symbols_defined. cbv zeta. apply clause_by_nodes. intros s Hin [Hw Hg].
    pose proof (nodes_static_ok s Hin) as Hs. unfold static_ok in Hs.
    unfold l_sym. rewrite E_appsym.
    assert (Hcall : (kind_t s = KCall \/ kind_t s = KLoadFunc) ->
      match s_static h (info s) with
      | Some f0 =>
          is_func (n_kind f0) &&
          existsb (fun q => (idx_t (fst q) =? n_idx f0) &&
                            match def_sym (snd q) with Some s' => seqb (g (oget (func_sym ns ls (info s)))) s' | None => false end)
                  (all_pairs h (named_module h f g)) &&
          forallb (fun q => match def_sym (snd q) with
                            | Some s' => implb (seqb (g (oget (func_sym ns ls (info s)))) s') (idx_t (fst q) =? n_idx f0)
                            | None => true end) (all_pairs h (named_module h f g))
      | None => false
      end = true).
    { intros HK. assert (Hs' : match s_static h (info s) with
                               | Some f0 => is_func (n_kind f0) &&
                                   existsb (fun u => (idx_t u =? n_idx f0) && is_func (kind_t u)) (all_model_nodes h)
                               | None => false end = true) by (destruct HK as [HK | HK]; rewrite HK in Hs; exact Hs).
      unfold func_sym. rewrite static_same.
      destruct (s_static h (info s)) as [fi|]; [|discriminate].
      apply andb_true_iff in Hs'. destruct Hs' as [Hf Hex]. rewrite Hf. cbn [oget andb].
      rewrite all_pairs_export. apply andb_true_iff. split.
      - apply existsb_exists in Hex. destruct Hex as [u [Hu Hu']]. apply andb_true_iff in Hu'. destruct Hu' as [Hi Hfu].
        apply existsb_exists. exists (F u). split; [apply in_map; exact Hu|]. cbn [F fst snd].
        rewrite Hi, E_defsym, Hfu. cbn [andb]. apply Z.eqb_eq in Hi. rewrite Hi. apply seqb_refl.
      - rewrite forallb_map. apply forallb_forall. intros u _. cbn [F fst snd]. rewrite E_defsym.
        destruct (is_func (kind_t u)); [|reflexivity].
        destruct (seqb (g (n_idx fi)) (g (idx_t u))) eqn:Es; [|reflexivity]. cbn [implb].
        apply seqb_spec in Es. apply g_inj in Es. rewrite Es. apply Z.eqb_refl. }
    destruct (kind_t s); try reflexivity; apply Hcall; auto.
  Qed.

  (* ---- clauses 3 and 4: which port every listed name stands for *)
  Definition pf (p : port) : port * L := (p, f p).

  Lemma combine_ports X : combine X (map f X) = map pf X.
  Proof. apply combine_map_self. Qed.

  Lemma occ_dfg_fact ch :
    at_most_one is_input ch = true -> at_most_one is_output ch = true ->
    occ_dfg ch (dfgR h f g ch) = map pf (region_ports ch).
  Proof.
    intros Hi Ho. unfold occ_dfg, region_ports, dfgR. cbn [r_srcs r_tgts]. rewrite !map_length.
    unfold dfg_srcs, dfg_tgts. rewrite (last_first _ _ Hi), (last_first _ _ Ho). rewrite map_app.
    destruct (s_first is_input ch); destruct (s_first is_output ch);
      rewrite ?out_ports_length, ?in_ports_length, ?combine_ports; reflexivity.
  Qed.

  Lemma occ_node_fact s : Q s -> occ_node s (E s) = map pf (local_ports s).
  Proof.
    intros [Hw Hg]. unfold occ_node, local_ports.
    rewrite E_ins, E_outs by exact Hg. rewrite !map_length, in_ports_length, out_ports_length, !combine_ports.
    rewrite !map_app. f_equal. f_equal.
    destruct (kind_t s) eqn:K; try reflexivity.
    - rewrite E_regs'. unfold regs_of. unfold kind_t in K. rewrite K.
      destruct (wf_dfg_unique s Hw) as [A B]; [unfold kind_t; rewrite K; exact I|]. apply occ_dfg_fact; assumption.
    - rewrite E_regs'. unfold regs_of. unfold kind_t in K. rewrite K.
      destruct (wf_dfg_unique s Hw) as [A B]; [unfold kind_t; rewrite K; exact I|]. apply occ_dfg_fact; assumption.
    - (* CFG *) rewrite E_regs'. unfold regs_of. pose proof (wf_cfg_exit s Hw K) as Hx. unfold kind_t in K. rewrite K.
      unfold occ_cfg, cfg_ports, cfgR. cbn [r_srcs r_tgts]. rewrite !map_length.
      unfold cfg_srcs, cfg_tgts, first_such. rewrite (last_first _ _ Hx). unfold s_first. rewrite map_app.
      destruct (find (fun c => is_block (kind_t c)) (children s));
        destruct (find (fun c => is_exit (kind_t c)) (children s));
        rewrite ?in_ports_length, ?combine_ports; reflexivity.
    - rewrite E_regs'. unfold regs_of. unfold kind_t in K. rewrite K.
      destruct (wf_dfg_unique s Hw) as [A B]; [unfold kind_t; rewrite K; exact I|]. apply occ_dfg_fact; assumption.
    - (* Cond *) rewrite (cond_regs' s Hw K).
      pose proof (wf_children s Hw) as Hc. pose proof (wf_cond_cases s Hw K) as Hk.
      induction (children s) as [|c r IH]; [reflexivity|].
      cbn [forallb map flat_map] in *. apply andb_true_iff in Hc, Hk. destruct Hc as [Hc1 Hc2]. destruct Hk as [Hk1 Hk2].
      rewrite IH by assumption. rewrite map_app. f_equal.
      destruct (wf_dfg_unique c Hc1) as [A B]; [destruct (kind_t c); try discriminate; exact I|].
      apply occ_dfg_fact; assumption.
    - rewrite E_regs'. unfold regs_of. unfold kind_t in K. rewrite K.
      destruct (wf_dfg_unique s Hw) as [A B]; [unfold kind_t; rewrite K; exact I|]. apply occ_dfg_fact; assumption.
  Qed.

  Lemma all_occ_export : all_occ h (named_module h f g) = map pf (listed_ports h).
  Proof.
    unfold all_occ, listed_ports. rewrite all_pairs_export.
    pose proof all_nodes_Q as HQ. induction (all_model_nodes h) as [|s r IH]; [reflexivity|].
    inversion HQ as [|? ? Hs Hr]; subst. cbn [map flat_map F fst snd]. rewrite map_app, <- IH by exact Hr.
    f_equal. apply occ_node_fact. exact Hs.
  Qed.

  (* ---- clause 6, the proved half: hints start at a keyed exported child *)
  Lemma kid_pairs_fact keep ch srcs tgts hs k :
    kid_pairs keep ch (ERegion k srcs tgts (kids keep ch (map E ch)) hs) =
    map F (filter (fun c => keep (kind_t c)) ch).
  Proof.
    unfold kid_pairs. cbn [r_ch]. induction ch as [|c r IH]; [reflexivity|].
    cbn [map filter]. rewrite kids_cons. cbn [zipk]. destruct (keep (kind_t c)); [|exact IH].
    cbn [app map]. rewrite IH. reflexivity.
  Qed.

  Lemma E_keys s : good (kind_t s) = true ->
    e_keys (E s) = if needs_key ns ls (idx_t s) then [idx_t s] else [].
  Proof.
    destruct s as [i ch]. unfold kind_t, idx_t. cbn [info]. intros Hg. rewrite E_unfold. unfold exp_shallow.
    destruct (n_kind i); try discriminate; reflexivity.
  Qed.

  Lemma hints_src_fact ch :
    forallb (fun c => df_child (kind_t c)) ch = true -> hints_src_keyed ch (dfgR h f g ch) = true.
  Proof.
    intros Hdf. unfold hints_src_keyed, dfgR. cbv zeta. rewrite kid_pairs_fact. cbn [r_hints].
    apply forallb_forall. intros [a b] Hin. unfold dfg_hints in Hin. apply in_flat_map in Hin.
    destruct Hin as [c [Hc Hin]]. destruct (exported (kind_t c)) eqn:Ex; [|contradiction].
    unfold hints_of in Hin. apply in_map_iff in Hin. destruct Hin as [s0 [Heq Hs0]]. inversion Heq; subst a b.
    apply existsb_exists. exists (F c). split.
    - apply in_map. apply filter_In. split; assumption.
    - cbn [F fst snd]. rewrite Z.eqb_refl. cbn [andb].
      rewrite forallb_forall in Hdf. rewrite E_keys by (apply df_child_good; [apply Hdf; exact Hc | exact Ex]).
      assert (Hk : needs_key ns ls (idx_t c) = true).
      { unfold needs_key. apply orb_true_iff. left. apply existsb_exists. exists s0.
        apply filter_In in Hs0. destruct Hs0 as [A B]. split; assumption. }
      rewrite Hk. cbn [mem]. rewrite Z.eqb_refl. reflexivity.
  Qed.

  Lemma wf_df_children s : tree_wf s = true ->
    match kind_t s with KDFG | KLoop | KBlock | KFuncDefn | KCase => True | _ => False end ->
    forallb (fun c => df_child (kind_t c)) (children s) = true.
  Proof.
    destruct s as [i ch]. unfold kind_t. cbn [info children tree_wf]. intros Hw Hk.
    apply andb_true_iff in Hw. destruct Hw as [Hn _]. unfold node_wf in Hn.
    destruct (n_kind i); try contradiction;
      (apply andb_true_iff in Hn; destruct Hn as [Hn _]; apply andb_true_iff in Hn; destruct Hn as [A _]; exact A).
  Qed.

  Theorem model_order_hints_source_keyed : order_hints_source_keyed h (named_module h f g) = true.
  Proof.
    unfold order_hints_source_keyed. apply clause_by_nodes. intros s _ [Hw Hg]. unfold l_hints_src.
    destruct (kind_t s) eqn:K; try reflexivity.
    - rewrite E_regs'. unfold regs_of. pose proof (wf_df_children s Hw) as Hd. unfold kind_t in K, Hd. rewrite K in *.
      apply hints_src_fact. apply Hd. exact I.
    - rewrite E_regs'. unfold regs_of. pose proof (wf_df_children s Hw) as Hd. unfold kind_t in K, Hd. rewrite K in *.
      apply hints_src_fact. apply Hd. exact I.
    - rewrite E_regs'. unfold regs_of. pose proof (wf_df_children s Hw) as Hd. unfold kind_t in K, Hd. rewrite K in *.
      apply hints_src_fact. apply Hd. exact I.
    - (* Cond *) rewrite (cond_regs' s Hw K).
      pose proof (wf_children s Hw) as Hc. pose proof (wf_cond_cases s Hw K) as Hk.
      induction (children s) as [|c r IH]; [reflexivity|].
      cbn [forallb map] in *. apply andb_true_iff in Hc, Hk. destruct Hc as [Hc1 Hc2]. destruct Hk as [Hk1 Hk2].
      rewrite IH by assumption. rewrite andb_true_r. apply hints_src_fact. apply (wf_df_children c Hc1).
      destruct (kind_t c); try discriminate; exact I.
    - rewrite E_regs'. unfold regs_of. pose proof (wf_df_children s Hw) as Hd. unfold kind_t in K, Hd. rewrite K in *.
      apply hints_src_fact. apply Hd. exact I.
  Qed.
End Clauses.

(* ------------------------------------------------------------------ the model's own names *)

Section Final.
  Variable h : hugr.
  Hypothesis Hvalid : valid_b h = true.
  Let ls := h_links h.
  Definition idZ (z : Z) : Z := z.

  Lemma export_named : export h = named_module h (rep ls) idZ.
  Proof. reflexivity. Qed.

  Lemma Zeqb_spec' : forall a b : Z, Z.eqb a b = true <-> a = b.
  Proof. intros. apply Z.eqb_eq. Qed.

  Theorem export_link_names_iff_connected : link_names_iff_connected port_eqb h (export h).
  Proof.
    unfold link_names_iff_connected. intros p n q n' Hp Hq. rewrite export_named in Hp, Hq.
    rewrite (all_occ_export h (rep ls) idZ Hvalid) in Hp, Hq.
    apply in_map_iff in Hp, Hq. destruct Hp as [p0 [Ep _]]. destruct Hq as [q0 [Eq _]].
    unfold pf in Ep, Eq. inversion Ep; inversion Eq; subst. rewrite port_eqb_spec. apply rep_spec.
  Qed.

  Theorem export_link_names_b : link_names_iff_connected_b port_eqb h (export h) = true.
  Proof.
    unfold link_names_iff_connected_b. cbv zeta. rewrite export_named, (all_occ_export h (rep ls) idZ Hvalid).
    rewrite map_map. apply forallb_forall. intros a Ha. apply forallb_forall. intros b Hb.
    apply in_map_iff in Ha, Hb. destruct Ha as [p [<- _]]. destruct Hb as [q [<- _]]. cbn [pf fst snd].
    fold ls. apply eqb_reflx.
  Qed.

  Theorem export_single_producer : stars_b h = true -> single_producer_or_single_consumer port_eqb h (export h) = true.
  Proof.
    intros Hs. unfold single_producer_or_single_consumer. cbv zeta.
    rewrite export_named, (all_occ_export h (rep ls) idZ Hvalid). exact Hs.
  Qed.
End Final.

(* the boolean monitor for link names is sound for the relational statement, for any naming *)
Theorem link_names_b_sound {L Sy} (leqb : L -> L -> bool) h (m : eregion L Sy) :
  link_names_iff_connected_b leqb h m = true -> link_names_iff_connected leqb h m.
Proof.
  unfold link_names_iff_connected_b, link_names_iff_connected. cbv zeta. intros H p n q n' Hp Hq.
  rewrite forallb_forall in H.
  specialize (H (rep (h_links h) p, n)). rewrite forallb_forall in H.
  assert (Hp' : In (rep (h_links h) p, n) (map (fun pn => (rep (h_links h) (fst pn), snd pn)) (all_occ h m))).
  { apply in_map_iff. exists (p, n). split; [reflexivity | exact Hp]. }
  assert (Hq' : In (rep (h_links h) q, n') (map (fun pn => (rep (h_links h) (fst pn), snd pn)) (all_occ h m))).
  { apply in_map_iff. exists (q, n'). split; [reflexivity | exact Hq]. }
  specialize (H Hp' _ Hq'). cbn [fst snd] in H. apply eqb_prop in H. rewrite H, port_eqb_spec. apply rep_spec.
Qed.

(* ------------------------------------------------------------------ the theorems about Hugr.to_model *)

Section Main.
  Variable h : hugr.
  Hypothesis Hv : valid_b h = true.
  Let R := rep (h_links h).

  Theorem export_regions_mirror_hierarchy : regions_mirror_hierarchy h (export h) = true.
  Proof. exact (model_regions_mirror_hierarchy h R idZ Hv). Qed.
  Theorem export_ports_exactly_signature : ports_exactly_signature h (export h) = true.
  Proof. exact (model_ports_exactly_signature h R idZ Hv). Qed.
  Theorem export_applied_symbols_defined : applied_symbols_defined Z.eqb h (export h) = true.
  Proof. exact (model_applied_symbols_defined h R idZ Z.eqb Zeqb_spec' (fun a b H => H) Hv). Qed.
  Theorem export_order_hints_source_keyed : order_hints_source_keyed h (export h) = true.
  Proof. exact (model_order_hints_source_keyed h R idZ Hv). Qed.
  Theorem export_metadata_carried : metadata_carried h (export h) = true.
  Proof. exact (model_metadata_carried h R idZ Hv). Qed.
End Main.

(* ------------------------------------------------------------------ the guard is satisfiable *)

(* module { decl f; defn main { Input; Output; Call f; Not; order edge Call -> Not } } *)
Definition ex_hugr : hugr :=
  mkH (HNode (mkN 0 KModule 0 0 (-1) 0 0 0 [])
        [HNode (mkN 1 KFuncDecl 0 0 (-1) 1 0 0 []) [];
         HNode (mkN 2 KFuncDefn 0 0 (-1) 2 0 0 [(7, 8)])
           [HNode (mkN 3 KInput 0 1 (-1) 0 0 0 []) [];
            HNode (mkN 4 KOutput 1 0 (-1) 0 0 0 []) [];
            HNode (mkN 5 KCall 1 1 1 0 3 0 []) [];
            HNode (mkN 6 KExt 1 1 (-1) 0 4 0 [(5, 6)]) []]])
      [mkL 1 0 5 1; mkL 3 0 5 0; mkL 5 0 6 0; mkL 6 0 4 0; mkL 5 (-1) 6 (-1)].

Example ex_valid : valid_b ex_hugr = true /\ valid_order_b ex_hugr = true /\ stars_b ex_hugr = true.
Proof. vm_compute. repeat split. Qed.
Example ex_no_error : export_err ex_hugr = false.
Proof. vm_compute. reflexivity. Qed.
(* on this HUGR the model meets every clause, the order-hint clause included *)
Example ex_spec : spec_b port_eqb Z.eqb ex_hugr (export ex_hugr) = true.
Proof. vm_compute. reflexivity. Qed.
(* and the clauses are not trivially true: listing the static port of the call breaks two of them *)
Example ex_spec_rejects :
  let bad := match export ex_hugr with
             | ERegion k s t [d; ENode o sg i ou [ERegion k' s' t' (ENode co csg ci cou cr ck cm :: rest) hh] ks m] hs =>
                 ERegion k s t [d; ENode o sg i ou
                   [ERegion k' s' t' (ENode co csg (ci ++ [rep (h_links ex_hugr) (inp 5 1)]) cou cr ck cm :: rest) hh] ks m] hs
             | r => r
             end in
  ports_exactly_signature ex_hugr bad = false.
Proof. vm_compute. reflexivity. Qed.
