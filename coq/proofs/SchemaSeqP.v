(* C17 — proofs about sequences of schema-defining rebuilds (model/SchemaSeq.v against spec/SchemaSeqS.v). *)
From Coq Require Import List Bool String Arith.
Import ListNotations.
From HV Require Import lib.Harness model.Schema model.SchemaSeq spec.SchemaS spec.SchemaSeqS proofs.SchemaP.
Open Scope string_scope.
Open Scope list_scope.

Lemma family_eqb_refl : forall f, family_eqb f f = true.
Proof. destruct f; reflexivity. Qed.
Lemma family_eqb_eq : forall a b, family_eqb a b = true -> a = b.
Proof. destruct a, b; simpl; intro H; try reflexivity; discriminate. Qed.

Lemma run_steps_app : forall h st s, run_steps st (h ++ [s]) = rebuild (run_steps st h) s.
Proof. intros h st s. unfold run_steps. rewrite fold_left_app. reflexivity. Qed.

Lemma in_class_map_governed : forall f g, governed f g -> in_class_map f g = true.
Proof. intros f g [H | H]; subst g; simpl; [reflexivity | apply family_eqb_refl]. Qed.
Lemma in_class_map_not_governed : forall f g, ~ governed f g -> in_class_map f g = false.
Proof.
  intros f g H. destruct g as [ | f' | ]; simpl; try reflexivity.
  - exfalso. apply H. left. reflexivity.
  - destruct (family_eqb f f') eqn:E; [ | reflexivity ].
    exfalso. apply H. right. apply family_eqb_eq in E. subst f'. reflexivity.
Qed.

(* the model of the rebuild machinery is history independent, from ANY start state and for ANY history *)
Theorem model_history_independent : forall st0, HistoryIndependent (run_steps st0).
Proof.
  intros st0 h f c g G. rewrite run_steps_app. unfold rebuild. cbn [fst snd].
  rewrite (in_class_map_governed _ _ G). reflexivity.
Qed.
Theorem model_others_untouched : forall st0, OthersUntouched (run_steps st0).
Proof.
  intros st0 h f c g G. rewrite run_steps_app. unfold rebuild. cbn [fst snd].
  rewrite (in_class_map_not_governed _ _ G). reflexivity.
Qed.
(* hence two processes whose last rebuild is the same agree on everything that rebuild governs *)
Corollary same_last_step_same_config : forall st1 st2 h1 h2 f c g, governed f g ->
  run_steps st1 (h1 ++ [(f, c)]) g = run_steps st2 (h2 ++ [(f, c)]) g.
Proof. intros. rewrite !model_history_independent; auto. Qed.

(* while the other roots are in their import-time state the expected file IS the published file *)
Lemma expected_no_other_root : forall pub st f c,
  (forall f', family_eqb f f' = false -> st (GRoot f') = None) -> expected pub st f c = pub f c.
Proof.
  intros pub st f c H. unfold expected, subst_of, families.
  assert (E : forall f', (if family_eqb f f' then [] else
     match st (GRoot f') with
     | None => []
     | Some c' => match def_of (pub f c) (root_name f'), def_of (pub f' c') (root_name f') with
                  | Some _, Some d => [(root_name f', d)] | _, _ => [] end
     end) = @nil (string * json)).
  { intro f'. destruct (family_eqb f f') eqn:E; [reflexivity | rewrite (H _ E); reflexivity]. }
  cbn [flat_map]. rewrite !E. reflexivity.
Qed.
Lemma expected_no_subst : forall pub st f c, subst_of pub st f c = [] -> expected pub st f c = pub f c.
Proof. intros pub st f c H. unfold expected. rewrite H. reflexivity. Qed.
(* a fresh process that rebuilds one root only, any number of times with any configurations *)
Lemma only_family_leaves_others : forall f h st f',
  forallb (fun s => family_eqb (fst s) f) h = true -> family_eqb f f' = false ->
  run_steps st h (GRoot f') = st (GRoot f').
Proof.
  intros f h. induction h as [ | s h IH]; intros st f' Hh Hf; [reflexivity | ].
  cbn [forallb] in Hh. apply andb_true_iff in Hh. destruct Hh as [Hs Hh].
  unfold run_steps in *. cbn [fold_left]. rewrite (IH _ _ Hh Hf).
  unfold rebuild. cbn [in_class_map]. apply family_eqb_eq in Hs. rewrite Hs, Hf. reflexivity.
Qed.
Theorem expected_single_family : forall pub f h c,
  forallb (fun s => family_eqb (fst s) f) h = true ->
  expected pub (run_steps init (h ++ [(f, c)])) f c = pub f c.
Proof.
  intros pub f h c Hh. apply expected_no_other_root. intros f' Hf.
  rewrite (only_family_leaves_others f); [reflexivity | | exact Hf].
  rewrite forallb_app. rewrite Hh. cbn. rewrite family_eqb_refl. reflexivity.
Qed.

(* the boolean run check implies the Prop-level statement *)
Theorem run_ok_sound : forall pub r st, run_ok pub st r = true -> RunSame pub st r.
Proof.
  intros pub r. induction r as [ | [s g] r IH]; intros st H; [exact I | ].
  cbn [run_ok] in H. apply andb_true_iff in H. destruct H as [H1 H2].
  cbn [RunSame]. split; [ | apply IH; exact H2 ].
  exact (same_documents_accepted _ _ H1).
Qed.

(* non-vacuity: the trigger shape (another root with an EQUAL configuration just before) on a two-definition file *)
Example ex_def (c : bool) : json := JObj [("type", JStr "object"); ("additionalProperties", JBool (negb c))].
Example ex_pub (f : family) (c : bool) : json :=
  JObj [("$defs", JObj ((root_name f, ex_def c) ::
                        match f with FHugr => [] | FTesting => [("SerialHugr", JObj [("type", JStr "object")])] end))].
Example ex_state_after : run_steps init [(FTesting, true); (FHugr, true)] (GRoot FHugr) = Some true /\
                         run_steps init [(FTesting, true); (FHugr, true)] GOps = Some true /\
                         run_steps init [(FHugr, true); (FTesting, false)] (GRoot FHugr) = Some true /\
                         run_steps init [(FHugr, true); (FTesting, false)] GOps = Some false.
Proof. vm_compute. auto. Qed.
Example ex_run_ok :
  run_ok ex_pub init [((FTesting, true), ex_pub FTesting true); ((FHugr, true), ex_pub FHugr true)] = true /\
  (* a process that skipped the second rebuild's root (SerialHugr still without additionalProperties: false) *)
  run_ok ex_pub init [((FTesting, true), ex_pub FTesting true);
                      ((FHugr, true), JObj [("$defs", JObj [("SerialHugr", JObj [("type", JStr "object")])])])] = false /\
  (* the testing file after a strict HUGR rebuild holds the strict SerialHugr *)
  def_of (expected ex_pub (run_steps init [(FHugr, true); (FTesting, false)]) FTesting false) "SerialHugr"
    = def_of (ex_pub FHugr true) "SerialHugr".
Proof. vm_compute. auto. Qed.
