(* C17 — proofs about coq/model/Schema.v, for ALL schemas and documents:
   norm preserves validation; schema_equiv preserves validation; hence equal-up-to-norm schema files
   accept the same documents. *)
From Coq Require Import List Bool ZArith String Ascii Arith Lia.
Import ListNotations.
From HV Require Import lib.Harness model.Schema.
Open Scope string_scope.

(* ------------------------------------------------------------------ lookup / keys *)
Lemma lookup_Some_In k o v : lookup k o = Some v -> In (k, v) o.
Proof.
  induction o as [|[k' v'] r IH]; cbn; [discriminate|].
  destruct (String.eqb_spec k k') as [->|Hne]; intros H.
  - injection H as ->. now left.
  - right. auto.
Qed.
Lemma lookup_None k o : lookup k o = None <-> ~ In k (keys o).
Proof.
  induction o as [|[k' v'] r IH]; cbn; [tauto|].
  destruct (String.eqb_spec k k') as [->|Hne].
  - split; [discriminate|]. intros H. exfalso. apply H. now left.
  - rewrite IH. split; intros H; [intros [E|E]; [congruence|auto] | tauto].
Qed.
Lemma lookup_In_keys k o v : lookup k o = Some v -> In k (keys o).
Proof. intros H. apply lookup_Some_In in H. apply (in_map fst) in H. exact H. Qed.
Lemma In_keys_lookup k o : In k (keys o) -> exists v, lookup k o = Some v.
Proof.
  intros H. destruct (lookup k o) eqn:E; [eauto|]. apply lookup_None in E. contradiction.
Qed.
Lemma lookup_In k o v : NoDup (keys o) -> In (k, v) o -> lookup k o = Some v.
Proof.
  induction o as [|[k' v'] r IH]; cbn; [tauto|]. intros Hnd [E|Hin].
  - injection E as -> ->. now rewrite String.eqb_refl.
  - inversion Hnd; subst. destruct (String.eqb_spec k k') as [->|Hne]; [|auto].
    exfalso. apply H1. apply (in_map fst) in Hin. exact Hin.
Qed.
Lemma nodupkeys_NoDup o : nodupkeys o = true -> NoDup (keys o).
Proof.
  unfold nodupkeys. intros H. destruct (nodupb_spec String.eqb String.eqb_spec (keys o)); [assumption|discriminate].
Qed.
Lemma keys_length o : List.length (keys o) = List.length o.
Proof. apply map_length. Qed.

(* ------------------------------------------------------------------ json induction, json_eqb sound *)
Section JsonInd.
  Variable P : json -> Prop.
  Hypothesis HNull : P JNull.
  Hypothesis HBool : forall b, P (JBool b).
  Hypothesis HNum : forall z, P (JNum z).
  Hypothesis HFlt : forall s, P (JFlt s).
  Hypothesis HStr : forall s, P (JStr s).
  Hypothesis HArr : forall l, Forall P l -> P (JArr l).
  Hypothesis HObj : forall kvs, Forall (fun kv => P (snd kv)) kvs -> P (JObj kvs).
  Fixpoint json_ind2 (j : json) : P j :=
    match j with
    | JNull => HNull
    | JBool b => HBool b
    | JNum z => HNum z
    | JFlt s => HFlt s
    | JStr s => HStr s
    | JArr l => HArr l ((fix go (l : list json) : Forall P l :=
                           match l with
                           | [] => Forall_nil P
                           | x :: r => Forall_cons x (json_ind2 x) (go r)
                           end) l)
    | JObj kvs => HObj kvs ((fix go (l : obj) : Forall (fun kv => P (snd kv)) l :=
                               match l with
                               | [] => Forall_nil _
                               | (k, v) :: r => Forall_cons (k, v) (json_ind2 v) (go r)
                               end) kvs)
    end.
End JsonInd.

Lemma json_eqb_sound : forall a b, json_eqb a b = true -> a = b.
Proof.
  induction a as [| | | | |l IH|kvs IH] using json_ind2; intros [] H; cbn in H; try discriminate; try reflexivity.
  - apply Bool.eqb_prop in H. congruence.
  - apply Z.eqb_eq in H. congruence.
  - apply String.eqb_eq in H. congruence.
  - apply String.eqb_eq in H. congruence.
  - f_equal. revert l0 H. induction IH as [|x r Hx _ IHr]; intros [|y s] H; try discriminate; [reflexivity|].
    apply andb_true_iff in H as [H1 H2]. f_equal; auto.
  - f_equal. revert kvs0 H. induction IH as [|[k v] r Hx _ IHr]; intros [|[l w] s] H; try discriminate; [reflexivity|].
    apply andb_true_iff in H as [H1 H3]. apply andb_true_iff in H1 as [H1 H2].
    apply String.eqb_eq in H1. cbn in Hx. f_equal; [f_equal; auto|auto].
Qed.

(* ------------------------------------------------------------------ relations on optional lookups *)
Definition orel (R : json -> json -> bool) (a b : option json) : Prop :=
  match a, b with
  | None, None => True
  | Some v, Some w => R v w = true
  | _, _ => False
  end.

Lemma maprel_spec R x y : maprel R x y = true -> forall k, orel (R k) (lookup k x) (lookup k y).
Proof.
  unfold maprel. intros H k.
  apply andb_true_iff in H as [H Hall]. apply andb_true_iff in H as [H Hny]. apply andb_true_iff in H as [Hlen Hnx].
  apply Nat.eqb_eq in Hlen. apply nodupkeys_NoDup in Hnx. apply nodupkeys_NoDup in Hny.
  rewrite forallb_forall in Hall.
  destruct (lookup k x) as [v|] eqn:Ex.
  - apply lookup_Some_In in Ex. specialize (Hall _ Ex). cbn in Hall.
    destruct (lookup k y); [exact Hall|discriminate].
  - destruct (lookup k y) as [w|] eqn:Ey; [|exact I]. exfalso.
    apply lookup_None in Ex. apply Ex. apply lookup_In_keys in Ey.
    assert (Hincl : incl (keys x) (keys y)).
    { intros k' Hk'. apply In_keys_lookup in Hk' as [v' Hv']. apply lookup_Some_In in Hv'.
      specialize (Hall _ Hv'). cbn in Hall. destruct (lookup k' y) eqn:E; [|discriminate].
      eapply lookup_In_keys; eauto. }
    apply (NoDup_length_incl Hnx) in Hincl; [auto|]. rewrite !keys_length. lia.
Qed.
Lemma maprel_keys R x y : maprel R x y = true -> forall k, In k (keys x) <-> In k (keys y).
Proof.
  intros H k. pose proof (maprel_spec R x y H k) as Hk.
  split; intros Hin; apply In_keys_lookup in Hin as [v Hv]; rewrite Hv in Hk.
  - destruct (lookup k y) eqn:E; [eapply lookup_In_keys; eauto|contradiction].
  - destruct (lookup k x) eqn:E; [eapply lookup_In_keys; eauto|contradiction].
Qed.

Lemma list_rel_map R x y (F G : json -> bool) :
  list_rel R x y = true -> (forall p q, R p q = true -> F p = G q) -> map F x = map G y.
Proof.
  revert y. induction x as [|p x IH]; intros [|q y] H HF; cbn in *; try discriminate; [reflexivity|].
  apply andb_true_iff in H as [H1 H2]. f_equal; auto.
Qed.
Lemma list_rel_zip R x y V1 V2 ds :
  list_rel R x y = true -> (forall p q d, R p q = true -> V1 p d = V2 q d) ->
  zip_with V1 x ds = zip_with V2 y ds.
Proof.
  revert y ds. induction x as [|p x IH]; intros [|q y] ds H HF; cbn in *; try discriminate; [reflexivity|].
  apply andb_true_iff in H as [H1 H2]. destruct ds; [reflexivity|]. f_equal; auto.
Qed.
Lemma list_rel_length R x y : list_rel R x y = true -> List.length x = List.length y.
Proof.
  revert y. induction x as [|p x IH]; intros [|q y] H; cbn in *; try discriminate; [reflexivity|].
  apply andb_true_iff in H as [_ H]. f_equal; auto.
Qed.

Lemma set_incl_In a b : set_incl a b = true -> forall x, In x a -> In x b.
Proof.
  unfold set_incl. rewrite forallb_forall. intros H x Hx. specialize (H x Hx).
  apply existsb_exists in H as (y & Hy & E). apply json_eqb_sound in E. now subst.
Qed.
Lemma set_eq_forallb a b P : set_eq a b = true -> forallb P a = forallb P b.
Proof.
  unfold set_eq. intros H. apply andb_true_iff in H as [H1 H2].
  apply eq_true_iff_eq. rewrite !forallb_forall. split; intros H x Hx; apply H; eapply set_incl_In; eauto.
Qed.
Lemma set_eq_existsb a b P : set_eq a b = true -> existsb P a = existsb P b.
Proof.
  unfold set_eq. intros H. apply andb_true_iff in H as [H1 H2].
  apply eq_true_iff_eq. rewrite !existsb_exists.
  split; intros (x & Hx & Px); exists x; (split; [eapply set_incl_In; eauto|exact Px]).
Qed.

Lemma forallb_ext' {A} (f g : A -> bool) l : (forall x, f x = g x) -> forallb f l = forallb g l.
Proof. intros H. induction l as [|x r IH]; cbn; [reflexivity|]. now rewrite H, IH. Qed.

(* ------------------------------------------------------------------ schema_equiv preserves validation *)
(* the relation schema_equiv puts on the values of keyword k *)
Definition krel (k : string) (v w : json) : bool :=
  match kind_of (kw_of k) with
  | KdSchema => schema_equiv v w
  | KdList => match v, w with JArr vs, JArr ws => list_rel schema_equiv vs ws | _, _ => false end
  | KdMap => match v, w with JObj ps, JObj qs => maprel (fun _ => schema_equiv) ps qs | _, _ => false end
  | KdSet => match v, w with JArr vs, JArr ws => set_eq vs ws | _, _ => false end
  | KdPayload => json_eqb v w
  | KdData => data_equiv v w
  | KdUnknown => false
  end.
Lemma schema_equiv_obj x y : schema_equiv (JObj x) (JObj y) = maprel krel x y.
Proof. reflexivity. Qed.

Definition listrel_b (v w : json) : bool :=
  match v, w with JArr vs, JArr ws => list_rel schema_equiv vs ws | _, _ => false end.
Definition maprel_b (v w : json) : bool :=
  match v, w with JObj ps, JObj qs => maprel (fun _ => schema_equiv) ps qs | _, _ => false end.
Definition setrel_b (v w : json) : bool :=
  match v, w with JArr vs, JArr ws => set_eq vs ws | _, _ => false end.

Lemma orel_payload a b : orel json_eqb a b -> a = b.
Proof. destruct a, b; cbn; try tauto. intros E. apply json_eqb_sound in E. congruence. Qed.

Section Equiv.
  Variables r1 r2 : json.
  Variables V1 V2 : json -> json -> bool.
  Hypothesis HV : forall s1 s2 d, schema_equiv s1 s2 = true -> V1 s1 d = V2 s2 d.
  Hypothesis Hres : forall r, orel schema_equiv (resolve r1 r) (resolve r2 r).

  Lemma eq_chk_props a b d : orel maprel_b a b -> chk_props V1 a d = chk_props V2 b d.
  Proof.
    destruct a as [[]|], b as [[]|]; cbn; try tauto; try discriminate. intros H.
    destruct d; try reflexivity. apply forallb_ext'. intros kv.
    pose proof (maprel_spec _ _ _ H (fst kv)) as Hk.
    destruct (lookup (fst kv) kvs), (lookup (fst kv) kvs0); cbn in Hk; try tauto. now apply HV.
  Qed.
  Lemma eq_in_props a b k : orel maprel_b a b -> in_props k a = in_props k b.
  Proof.
    destruct a as [[]|], b as [[]|]; cbn; try tauto; try discriminate. intros H.
    pose proof (maprel_spec _ _ _ H k) as Hk. unfold has_key.
    destruct (lookup k kvs), (lookup k kvs0); cbn in Hk; tauto.
  Qed.
  Lemma eq_chk_addl p q a b d :
    orel maprel_b p q -> orel schema_equiv a b -> chk_addl V1 p a d = chk_addl V2 q b d.
  Proof.
    intros Hp. destruct a, b; cbn; try tauto. intros H. destruct d; try reflexivity.
    apply forallb_ext'. intros kv. rewrite (eq_in_props p q _ Hp). destruct (in_props (fst kv) q); [reflexivity|].
    now apply HV.
  Qed.
  Lemma eq_chk_required a b d : orel setrel_b a b -> chk_required a d = chk_required b d.
  Proof.
    destruct a as [[]|], b as [[]|]; cbn; try tauto; try discriminate. intros H.
    destruct d; try reflexivity. now apply set_eq_forallb.
  Qed.
  Lemma eq_chk_enum a b d : orel setrel_b a b -> chk_enum a d = chk_enum b d.
  Proof.
    destruct a as [[]|], b as [[]|]; cbn; try tauto; try discriminate. intros H. now apply set_eq_existsb.
  Qed.
  Lemma eq_chk_prefix a b d : orel listrel_b a b -> chk_prefix V1 a d = chk_prefix V2 b d.
  Proof.
    destruct a as [[]|], b as [[]|]; cbn; try tauto; try discriminate. intros H.
    destruct d; try reflexivity. f_equal. eapply list_rel_zip; eauto.
  Qed.
  Lemma eq_prefix_len a b : orel listrel_b a b -> prefix_len a = prefix_len b.
  Proof.
    destruct a as [[]|], b as [[]|]; cbn; try tauto; try discriminate. apply list_rel_length.
  Qed.
  Lemma eq_chk_items p q a b d :
    orel listrel_b p q -> orel schema_equiv a b -> chk_items V1 p a d = chk_items V2 q b d.
  Proof.
    intros Hp. destruct a, b; cbn; try tauto. intros H. destruct d; try reflexivity.
    rewrite (eq_prefix_len _ _ Hp). apply forallb_ext'. intros x. now apply HV.
  Qed.
  Lemma eq_chk_anyOf a b d : orel listrel_b a b -> chk_anyOf V1 a d = chk_anyOf V2 b d.
  Proof.
    destruct a as [[]|], b as [[]|]; cbn; try tauto; try discriminate. intros H.
    f_equal. eapply list_rel_map; eauto.
  Qed.
  Lemma eq_chk_oneOf a b d : orel listrel_b a b -> chk_oneOf V1 a d = chk_oneOf V2 b d.
  Proof.
    destruct a as [[]|], b as [[]|]; cbn; try tauto; try discriminate. intros H.
    do 2 f_equal. eapply list_rel_map; eauto.
  Qed.
  Lemma eq_chk_ref a b d : orel json_eqb a b -> chk_ref V1 r1 a d = chk_ref V2 r2 b d.
  Proof.
    intros H. apply orel_payload in H. subst b. destruct a as [[]|]; try reflexivity. cbn.
    specialize (Hres s). destruct (resolve r1 s), (resolve r2 s); cbn in Hres; try tauto. now apply HV.
  Qed.

  Lemma eq_known_keys x y : maprel krel x y = true -> known_keys x = known_keys y.
  Proof.
    intros H. unfold known_keys. apply eq_true_iff_eq. rewrite !forallb_forall.
    split; intros Hall k Hk; apply Hall; [apply (proj2 (maprel_keys _ _ _ H k)) | apply (proj1 (maprel_keys _ _ _ H k))]; exact Hk.
  Qed.

  Lemma eq_chk_object x y d :
    maprel krel x y = true -> chk_object V1 r1 x d = chk_object V2 r2 y d.
  Proof.
    intros H. pose proof (maprel_spec _ _ _ H) as HR. unfold chk_object.
    rewrite (eq_known_keys _ _ H).
    rewrite (orel_payload _ _ (HR "type")), (orel_payload _ _ (HR "const")),
            (orel_payload _ _ (HR "minItems")), (orel_payload _ _ (HR "maxItems")),
            (orel_payload _ _ (HR "uniqueItems")), (orel_payload _ _ (HR "pattern")).
    rewrite (eq_chk_enum _ _ d (HR "enum")), (eq_chk_required _ _ d (HR "required")),
            (eq_chk_props _ _ d (HR "properties")),
            (eq_chk_addl _ _ _ _ d (HR "properties") (HR "additionalProperties")),
            (eq_chk_prefix _ _ d (HR "prefixItems")),
            (eq_chk_items _ _ _ _ d (HR "prefixItems") (HR "items")),
            (eq_chk_anyOf _ _ d (HR "anyOf")), (eq_chk_oneOf _ _ d (HR "oneOf")),
            (eq_chk_ref _ _ d (HR "$ref")).
    reflexivity.
  Qed.
End Equiv.

Lemma resolve_equiv r1 r2 : schema_equiv r1 r2 = true -> forall r, orel schema_equiv (resolve r1 r) (resolve r2 r).
Proof.
  intros H r. unfold resolve. destruct (prefix ref_prefix r); [|exact I].
  destruct r1 as [| | | | | |x], r2 as [| | | | | |y]; try (cbn in H; discriminate); try (cbn; exact I).
  rewrite schema_equiv_obj in H. pose proof (maprel_spec _ _ _ H "$defs") as Hd.
  destruct (lookup "$defs" x) as [v|], (lookup "$defs" y) as [w|]; cbn in Hd; try tauto; try exact I.
  change (krel "$defs" v w) with (maprel_b v w) in Hd.
  destruct v, w; cbn in Hd; try discriminate; try exact I.
  exact (maprel_spec _ _ _ Hd _).
Qed.

Theorem schema_equiv_preserves_validation : forall fuel r1 r2,
  schema_equiv r1 r2 = true ->
  forall s1 s2 d, schema_equiv s1 s2 = true -> validates fuel r1 s1 d = validates fuel r2 s2 d.
Proof.
  intros fuel r1 r2 Hr. pose proof (resolve_equiv _ _ Hr) as Hres.
  induction fuel as [|f IH]; intros s1 s2 d H;
    destruct s1 as [| | | | | |x], s2 as [| | | | | |y]; try (cbn in H; discriminate).
  - apply Bool.eqb_prop in H. now subst.
  - reflexivity.
  - apply Bool.eqb_prop in H. now subst.
  - rewrite schema_equiv_obj in H. cbn [validates]. now apply eq_chk_object.
Qed.

(* ------------------------------------------------------------------ norm preserves validation *)
Lemma norm_obj kvs : norm (JObj kvs) = JObj (norm_entries (nodupkeys kvs) kvs).
Proof.
  cbn [norm]. f_equal. generalize (nodupkeys kvs) as b. intros b.
  induction kvs as [|[k v] r IH]; [reflexivity|].
  cbn [norm_entries]. unfold drops, norm_val. rewrite <- IH.
  destruct (kw_of k); reflexivity.
Qed.

Lemma lookup_map_norm n ps :
  lookup n (map (fun p => (fst p, norm (snd p))) ps) = option_map norm (lookup n ps).
Proof.
  induction ps as [|[k v] r IH]; [reflexivity|]. cbn. destruct (n =? k); [reflexivity|exact IH].
Qed.
Lemma keys_norm_entries_incl b l k : In k (keys (norm_entries b l)) -> In k (keys l).
Proof.
  induction l as [|[k0 v0] r IH]; cbn; [tauto|]. destruct (drops b k0 v0); cbn; intuition.
Qed.
Lemma drops_b b k v : drops b k v = true -> b = true.
Proof. unfold drops. destruct (kw_of k); try discriminate. intros H. now apply andb_true_iff in H as [H _]. Qed.
Lemma drops_known b k v : drops b k v = true -> known_kw k = true.
Proof. unfold drops, known_kw. destruct (kw_of k); try discriminate. reflexivity. Qed.

Lemma lookup_norm_entries b l k :
  (b = true -> NoDup (keys l)) ->
  lookup k (norm_entries b l) =
  match lookup k l with
  | None => None
  | Some v => if drops b k v then None else Some (norm_val k v)
  end.
Proof.
  induction l as [|[k0 v0] r IH]; intros Hnd; [reflexivity|].
  assert (Hr : b = true -> NoDup (keys r)) by (intros E; specialize (Hnd E); now inversion Hnd).
  cbn [norm_entries lookup]. destruct (drops b k0 v0) eqn:Ed.
  - destruct (String.eqb_spec k k0) as [->|Hne]; [|auto].
    rewrite Ed. specialize (Hnd (drops_b _ _ _ Ed)). inversion Hnd; subst.
    destruct (lookup k0 (norm_entries b r)) eqn:E; [|reflexivity].
    exfalso. apply H1. eapply keys_norm_entries_incl. eapply lookup_In_keys; eauto.
  - cbn [lookup]. destruct (String.eqb_spec k k0) as [->|Hne]; [now rewrite Ed|auto].
Qed.
Lemma lookup_norm_id b l k :
  (b = true -> NoDup (keys l)) -> (forall v, drops b k v = false) -> (forall v, norm_val k v = v) ->
  lookup k (norm_entries b l) = lookup k l.
Proof.
  intros Hnd Hd Hv. rewrite lookup_norm_entries by assumption.
  destruct (lookup k l); [|reflexivity]. now rewrite Hd, Hv.
Qed.
Lemma lookup_norm_nodrop b l k :
  (b = true -> NoDup (keys l)) -> (forall v, drops b k v = false) ->
  lookup k (norm_entries b l) = option_map (norm_val k) (lookup k l).
Proof.
  intros Hnd Hd. rewrite lookup_norm_entries by assumption.
  destruct (lookup k l); [|reflexivity]. now rewrite Hd.
Qed.
Lemma known_keys_norm b l : known_keys (norm_entries b l) = known_keys l.
Proof.
  unfold known_keys. induction l as [|[k v] r IH]; [reflexivity|]. cbn [norm_entries].
  destruct (drops b k v) eqn:Ed; cbn [keys map fst forallb].
  - rewrite (drops_known _ _ _ Ed). exact IH.
  - fold (keys (norm_entries b r)). fold (keys r). now rewrite IH.
Qed.
Lemma forallb_all_true {A} (f : A -> bool) l : (forall x, f x = true) -> forallb f l = true.
Proof. intros H. induction l; cbn; [reflexivity|]. now rewrite H. Qed.

Lemma resolve_norm root r : resolve (norm root) r = option_map norm (resolve root r).
Proof.
  unfold resolve. destruct (prefix ref_prefix r); [|reflexivity].
  destruct root as [| | | | | |kvs]; try reflexivity. rewrite norm_obj.
  rewrite lookup_norm_nodrop; [|apply nodupkeys_NoDup|reflexivity].
  destruct (lookup "$defs" kvs) as [v|]; [|reflexivity]. cbn [option_map].
  destruct v; try reflexivity.
  change (norm_val "$defs" (JObj kvs0)) with (JObj (map (fun p => (fst p, norm (snd p))) kvs0)).
  apply lookup_map_norm.
Qed.

Section Norm.
  Variable root : json.
  Variables V1 V2 : json -> json -> bool.
  Hypothesis HV : forall s d, V1 (norm s) d = V2 s d.
  Hypothesis HT : forall d, V2 (JBool true) d = true.

  Lemma n_zip ps xs : zip_with V1 (map norm ps) xs = zip_with V2 ps xs.
  Proof. revert xs. induction ps as [|p r IH]; intros [|x xs]; cbn; try reflexivity. now rewrite HV, IH. Qed.
  Lemma n_map ss d : map (fun s => V1 s d) (map norm ss) = map (fun s => V2 s d) ss.
  Proof. rewrite map_map. apply map_ext. intros s. apply HV. Qed.

  Lemma n_chk_props a d : chk_props V1 (option_map (norm_val "properties") a) d = chk_props V2 a d.
  Proof.
    destruct a as [v|]; [|reflexivity]. destruct v; try reflexivity.
    change (norm_val "properties" (JObj kvs)) with (JObj (map (fun p => (fst p, norm (snd p))) kvs)).
    cbn. destruct d; try reflexivity. apply forallb_ext'. intros kv. rewrite lookup_map_norm.
    destruct (lookup (fst kv) kvs); cbn; [apply HV|reflexivity].
  Qed.
  Lemma n_in_props a k : in_props k (option_map (norm_val "properties") a) = in_props k a.
  Proof.
    destruct a as [v|]; [|reflexivity]. destruct v; try reflexivity.
    change (norm_val "properties" (JObj kvs)) with (JObj (map (fun p => (fst p, norm (snd p))) kvs)).
    cbn. unfold has_key. rewrite lookup_map_norm. now destruct (lookup k kvs).
  Qed.
  Lemma n_chk_addl b p a d :
    chk_addl V1 (option_map (norm_val "properties") p)
      (match a with None => None | Some v => if drops b "additionalProperties" v then None
                                             else Some (norm_val "additionalProperties" v) end) d
    = chk_addl V2 p a d.
  Proof.
    destruct a as [v|]; [|reflexivity].
    change (drops b "additionalProperties" v) with (b && is_true v).
    change (norm_val "additionalProperties" v) with (norm v).
    destruct (b && is_true v) eqn:E.
    - apply andb_true_iff in E as [_ E]. destruct v as [|[]| | | | |]; try discriminate. cbn.
      destruct d; try reflexivity. symmetry. apply forallb_all_true. intros kv.
      destruct (in_props (fst kv) p); [reflexivity|apply HT].
    - cbn. destruct d; try reflexivity. apply forallb_ext'. intros kv. rewrite n_in_props.
      destruct (in_props (fst kv) p); [reflexivity|apply HV].
  Qed.
  Lemma n_chk_prefix a d : chk_prefix V1 (option_map (norm_val "prefixItems") a) d = chk_prefix V2 a d.
  Proof.
    destruct a as [v|]; [|reflexivity]. destruct v; try reflexivity.
    change (norm_val "prefixItems" (JArr l)) with (JArr (map norm l)). cbn.
    destruct d; try reflexivity. now rewrite n_zip.
  Qed.
  Lemma n_prefix_len a : prefix_len (option_map (norm_val "prefixItems") a) = prefix_len a.
  Proof.
    destruct a as [v|]; [|reflexivity]. destruct v; try reflexivity.
    change (norm_val "prefixItems" (JArr l)) with (JArr (map norm l)). cbn. apply map_length.
  Qed.
  Lemma n_chk_items p a d :
    chk_items V1 (option_map (norm_val "prefixItems") p) (option_map (norm_val "items") a) d = chk_items V2 p a d.
  Proof.
    destruct a as [v|]; [|reflexivity]. change (norm_val "items" v) with (norm v). cbn.
    destruct d; try reflexivity. rewrite n_prefix_len. apply forallb_ext'. intros x. apply HV.
  Qed.
  Lemma n_chk_anyOf a d : chk_anyOf V1 (option_map (norm_val "anyOf") a) d = chk_anyOf V2 a d.
  Proof.
    destruct a as [v|]; [|reflexivity]. destruct v; try reflexivity.
    change (norm_val "anyOf" (JArr l)) with (JArr (map norm l)). cbn. now rewrite n_map.
  Qed.
  Lemma n_chk_oneOf a d : chk_oneOf V1 (option_map (norm_val "oneOf") a) d = chk_oneOf V2 a d.
  Proof.
    destruct a as [v|]; [|reflexivity]. destruct v; try reflexivity.
    change (norm_val "oneOf" (JArr l)) with (JArr (map norm l)). cbn. now rewrite n_map.
  Qed.
  Lemma n_chk_ref a d : chk_ref V1 (norm root) a d = chk_ref V2 root a d.
  Proof.
    destruct a as [v|]; [|reflexivity]. destruct v; try reflexivity. cbn. rewrite resolve_norm.
    destruct (resolve root s); cbn; [apply HV|reflexivity].
  Qed.

  Lemma n_chk_object kvs d :
    chk_object V1 (norm root) (norm_entries (nodupkeys kvs) kvs) d = chk_object V2 root kvs d.
  Proof.
    unfold chk_object. set (b := nodupkeys kvs).
    assert (Hnd : b = true -> NoDup (keys kvs)) by apply nodupkeys_NoDup.
    rewrite known_keys_norm.
    rewrite (lookup_norm_id b kvs "type" Hnd (fun _ => eq_refl) (fun _ => eq_refl)).
    rewrite (lookup_norm_id b kvs "const" Hnd (fun _ => eq_refl) (fun _ => eq_refl)).
    rewrite (lookup_norm_id b kvs "enum" Hnd (fun _ => eq_refl) (fun _ => eq_refl)).
    rewrite (lookup_norm_id b kvs "minItems" Hnd (fun _ => eq_refl) (fun _ => eq_refl)).
    rewrite (lookup_norm_id b kvs "maxItems" Hnd (fun _ => eq_refl) (fun _ => eq_refl)).
    rewrite (lookup_norm_id b kvs "uniqueItems" Hnd (fun _ => eq_refl) (fun _ => eq_refl)).
    rewrite (lookup_norm_id b kvs "pattern" Hnd (fun _ => eq_refl) (fun _ => eq_refl)).
    rewrite (lookup_norm_id b kvs "required" Hnd (fun _ => eq_refl) (fun _ => eq_refl)).
    rewrite (lookup_norm_id b kvs "$ref" Hnd (fun _ => eq_refl) (fun _ => eq_refl)).
    rewrite (lookup_norm_nodrop b kvs "properties" Hnd (fun _ => eq_refl)).
    rewrite (lookup_norm_nodrop b kvs "prefixItems" Hnd (fun _ => eq_refl)).
    rewrite (lookup_norm_nodrop b kvs "items" Hnd (fun _ => eq_refl)).
    rewrite (lookup_norm_nodrop b kvs "anyOf" Hnd (fun _ => eq_refl)).
    rewrite (lookup_norm_nodrop b kvs "oneOf" Hnd (fun _ => eq_refl)).
    rewrite (lookup_norm_entries b kvs "additionalProperties" Hnd).
    rewrite n_chk_props, n_chk_addl, n_chk_prefix, n_chk_items, n_chk_anyOf, n_chk_oneOf, n_chk_ref.
    reflexivity.
  Qed.
End Norm.

Theorem norm_preserves_validation : forall fuel root s d,
  validates fuel (norm root) (norm s) d = validates fuel root s d.
Proof.
  intros fuel root. induction fuel as [|f IH]; intros s d; destruct s as [| | | | | |kvs]; try reflexivity.
  rewrite norm_obj.
    change (chk_object (validates f (norm root)) (norm root) (norm_entries (nodupkeys kvs) kvs) d
            = chk_object (validates f root) root kvs d).
    apply n_chk_object; [exact IH|].
    intros d'. destruct f; reflexivity.
Qed.

(* ------------------------------------------------------------------ consequences *)
Lemma norm_entry name : norm (entry name) = entry name.
Proof. reflexivity. Qed.
Lemma entry_equiv name : schema_equiv (entry name) (entry name) = true.
Proof.
  unfold entry. rewrite schema_equiv_obj. unfold maprel. cbn.
  rewrite String.eqb_refl. reflexivity.
Qed.

(* two schema files that are equal up to norm accept exactly the same documents, as any of their definitions *)
Theorem same_documents_accepted : forall p g,
  schema_equiv (norm p) (norm g) = true ->
  forall fuel name d, accepts fuel p name d = accepts fuel g name d.
Proof.
  intros p g H fuel name d. unfold accepts.
  rewrite <- (norm_preserves_validation fuel p), <- (norm_preserves_validation fuel g).
  rewrite norm_entry. apply schema_equiv_preserves_validation; [exact H|apply entry_equiv].
Qed.

(* more generally, for any schema read relative to the two files *)
Theorem same_documents_accepted_gen : forall p g,
  schema_equiv (norm p) (norm g) = true ->
  forall fuel s d, schema_equiv (norm s) (norm s) = true ->
  validates fuel p s d = validates fuel g s d.
Proof.
  intros p g H fuel s d Hs.
  rewrite <- (norm_preserves_validation fuel p), <- (norm_preserves_validation fuel g).
  now apply schema_equiv_preserves_validation.
Qed.

(* non-vacuity: norm really erases something, schema_equiv really ignores key order, and the hypotheses
   of same_documents_accepted hold of a pair of different files *)
Example ex_p : json := JObj [("$defs", JObj [("A", JObj [("type", JStr "object"); ("additionalProperties", JBool true);
                               ("required", JArr [JStr "x"; JStr "y"]);
                               ("properties", JObj [("x", JObj [("type", JStr "integer")])])])]); ("title", JStr "t")].
Example ex_g : json := JObj [("title", JStr "t"); ("$defs", JObj [("A", JObj [("required", JArr [JStr "y"; JStr "x"]);
                               ("properties", JObj [("x", JObj [("type", JStr "integer")])]); ("type", JStr "object")])])].
Example ex_equiv : schema_equiv (norm ex_p) (norm ex_g) = true /\ schema_equiv ex_p ex_g = false /\ json_eqb ex_p ex_g = false.
Proof. vm_compute. auto. Qed.
Example ex_accepts :
  accepts 10 ex_p "A" (JObj [("y", JNull); ("x", JNum 1); ("z", JNull)]) = true /\
  accepts 10 ex_g "A" (JObj [("y", JNull); ("x", JNum 1); ("z", JNull)]) = true /\
  accepts 10 ex_p "A" (JObj [("y", JNull); ("x", JStr "1")]) = false /\
  accepts 10 ex_p "A" (JObj [("x", JNum 1)]) = false.
Proof. vm_compute. auto. Qed.
