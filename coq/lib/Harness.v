(* Shared helpers for the correspondence / monitor runs (no proofs needed by the theorems). *)
From Coq Require Import List Bool Arith ZArith NArith.
Import ListNotations.

(* indices (0-based) of the cases on which a boolean check fails *)
Fixpoint failing_from {A} (f : A -> bool) (l : list A) (i : nat) : list nat :=
  match l with
  | [] => []
  | x :: r => if f x then failing_from f r (S i) else i :: failing_from f r (S i)
  end.
Definition failing {A} (f : A -> bool) (l : list A) : list nat := failing_from f l 0.

Fixpoint list_eqb {A} (eqb : A -> A -> bool) (a b : list A) : bool :=
  match a, b with
  | [], [] => true
  | x :: r, y :: s => eqb x y && list_eqb eqb r s
  | _, _ => false
  end.
Definition option_eqb {A} (eqb : A -> A -> bool) (a b : option A) : bool :=
  match a, b with
  | None, None => true
  | Some x, Some y => eqb x y
  | _, _ => false
  end.
Definition pair_eqb {A B} (ea : A -> A -> bool) (eb : B -> B -> bool) (a b : A * B) : bool :=
  ea (fst a) (fst b) && eb (snd a) (snd b).

Fixpoint mem {A} (eqb : A -> A -> bool) (x : A) (l : list A) : bool :=
  match l with [] => false | y :: r => eqb x y || mem eqb x r end.
Fixpoint nodupb {A} (eqb : A -> A -> bool) (l : list A) : bool :=
  match l with [] => true | x :: r => negb (mem eqb x r) && nodupb eqb r end.
(* removes the first occurrence *)
Fixpoint remove1 {A} (eqb : A -> A -> bool) (x : A) (l : list A) : option (list A) :=
  match l with
  | [] => None
  | y :: r => if eqb x y then Some r
              else match remove1 eqb x r with Some r' => Some (y :: r') | None => None end
  end.
(* equality as multisets *)
Fixpoint perm_eqb {A} (eqb : A -> A -> bool) (a b : list A) : bool :=
  match a with
  | [] => match b with [] => true | _ => false end
  | x :: r => match remove1 eqb x b with Some b' => perm_eqb eqb r b' | None => false end
  end.
Definition incl_b {A} (eqb : A -> A -> bool) (a b : list A) : bool :=
  forallb (fun x => mem eqb x b) a.
Definition seteq_b {A} (eqb : A -> A -> bool) (a b : list A) : bool :=
  incl_b eqb a b && incl_b eqb b a.

Lemma list_eqb_spec {A} (eqb : A -> A -> bool) :
  (forall a b, reflect (a = b) (eqb a b)) -> forall a b, reflect (a = b) (list_eqb eqb a b).
Proof.
  intros H a. induction a as [|x r IH]; intros [|y s]; cbn; try (constructor; congruence).
  destruct (H x y) as [->|Hne]; cbn; [|constructor; congruence].
  destruct (IH s) as [->|Hne]; constructor; congruence.
Qed.
Lemma mem_spec {A} (eqb : A -> A -> bool) :
  (forall a b, reflect (a = b) (eqb a b)) -> forall x l, reflect (In x l) (mem eqb x l).
Proof.
  intros H x l. induction l as [|y r IH]; cbn; [constructor; tauto|].
  destruct (H x y) as [->|Hne]; cbn; [constructor; now left|].
  destruct IH; constructor; [now right|]. intros [E|E]; congruence.
Qed.
Lemma nodupb_spec {A} (eqb : A -> A -> bool) :
  (forall a b, reflect (a = b) (eqb a b)) -> forall l, reflect (NoDup l) (nodupb eqb l).
Proof.
  intros H l. induction l as [|x r IH]; cbn; [constructor; constructor|].
  destruct (mem_spec eqb H x r); cbn.
  - constructor. intros Hn; inversion Hn; contradiction.
  - destruct IH; constructor; [now constructor|]. intros Hn; inversion Hn; contradiction.
Qed.
