(* C15 — Index-based (tracked) wiring is equivalent to explicit wiring. *)
From Coq Require Import ZArith NArith List Bool Arith.
Import ListNotations.
From HV Require Import lib.Harness model.Tracked spec.TrackedS proofs.TrackedP.

(* a tracked program that runs to the end builds exactly the HUGR (nodes in order with their metadata,
   links in order) that the plain builder builds from the explicit program, in which every integer is
   replaced by the wire it denotes in the abstract binding history at that moment *)
Theorem C15_tracked_simulates_explicit : forall nin track p h tr,
  run_tracked nin track p = (h, tr, None) ->
  exists q fin, explicit nin track p = (q, true, fin) /\ run_plain nin q = (h, None).
Proof. exact tracked_simulates_explicit. Qed.

(* the same when the run stops with an exception: the HUGR at that moment is the one the explicit
   program has built; either the plain builder raises the same error, or an integer names no tracked wire
   (IndexError) and the explicit program up to there ran through *)
Theorem C15_tracked_simulates_explicit_errors : forall nin track p h tr e q ok fin,
  run_tracked nin track p = (h, tr, Some e) -> explicit nin track p = (q, ok, fin) ->
  run_plain nin q = (h, Some e) \/ (e = EIndex /\ ok = false /\ run_plain nin q = (h, None)).
Proof. exact tracked_simulates_explicit_errors. Qed.

(* an integer denotes the most recent wire stored at that index (latest event of the history) *)
Theorem C15_int_denotes_latest : forall nin track p h tr r q ok fin,
  run_tracked nin track p = (h, tr, r) -> explicit nin track p = (q, ok, fin) ->
  (r = None \/ (r = Some EIndex /\ ok = false /\ run_plain nin q = (h, None))) ->
  forall i, tracked_wire tr i = denotes fin i.
Proof. exact int_denotes_latest. Qed.

(* add connects the wires tracked before the call ... *)
Theorem C15_add_connects_then_rebinds : forall h tr op m args h' tr',
  t_add h tr op m args = (h', tr', None) ->
  exists ws, to_wires tr args = Some ws /\ add_op h op m ws = (h', None) /\
             tr' = rebind tr (new_name h) 0%N args.
Proof. exact add_connects_then_rebinds. Qed.
Theorem C15_add_records_node_and_links : forall h op m ws h',
  add_op h op m ws = (h', None) ->
  h_nodes h' = h_nodes h ++ [(op, m)] /\ h_links h' = h_links h ++ number_from (new_name h) 0%N ws.
Proof. exact add_records_node_and_links. Qed.

(* ... then rebinds each integer argument (last occurrence) to the new node's output at the argument's
   position; the code does this whatever the number of outputs of the operation, so an index can come to
   name a port the node does not have (using it later raises inside the plain builder, in both programs) *)
Theorem C15_rebinding_by_position : forall h tr op m args h' tr',
  t_add h tr op m args = (h', tr', None) ->
  (forall pos i, nth_error args pos = Some (AI i) ->
     (forall pos', pos < pos' -> nth_error args pos' <> Some (AI i)) ->
     tracked_wire tr' i = Some (new_name h, N.of_nat pos)) /\
  (forall i, ~ In (AI i) args -> tracked_wire tr' i = tracked_wire tr i) /\
  length tr' = length tr.
Proof. exact rebinding_by_position. Qed.

(* a command is a value: added a second time (the same Python object or an equal one) its integers are
   resolved again — the integer at position pos (last occurrence) is wired from output pos of the node the
   FIRST add made, wire arguments are wired as they are, and the index moves on to the second node *)
Theorem C15_repeated_command_chains : forall h tr op m m' args h1 tr1 h2 tr2,
  t_add h tr op m args = (h1, tr1, None) ->
  t_add h1 tr1 op m' args = (h2, tr2, None) ->
  exists ws2,
    h_nodes h2 = h_nodes h ++ [(op, m); (op, m')] /\
    h_links h2 = h_links h1 ++ number_from (new_name h1) 0%N ws2 /\
    length ws2 = length args /\
    (forall pos w, nth_error args pos = Some (AW w) -> nth_error ws2 pos = Some w) /\
    (forall pos i, nth_error args pos = Some (AI i) ->
       (forall pos', pos < pos' -> nth_error args pos' <> Some (AI i)) ->
       nth_error ws2 pos = Some (new_name h, N.of_nat pos) /\
       tracked_wire tr2 i = Some (new_name h1, N.of_nat pos)).
Proof. exact repeated_command_chains. Qed.

(* untracking frees an index for good; new wires get fresh indices *)
Theorem C15_untrack_is_permanent : forall h tr i h1 tr1,
  step h tr (Untrack i) = (h1, tr1, None) ->
  forall p h2 tr2 r, run h1 tr1 p = (h2, tr2, r) -> tracked_wire tr2 i = None.
Proof. exact untrack_is_permanent. Qed.
Theorem C15_track_wire_fresh_index : forall h tr w,
  step h tr (TrackWire w) = (h, tr ++ [Some w], None) /\
  tracked_wire (tr ++ [Some w]) (Z.of_nat (length tr)) = Some w /\
  forall i, (i < Z.of_nat (length tr))%Z -> tracked_wire (tr ++ [Some w]) i = tracked_wire tr i.
Proof. exact track_wire_fresh_index. Qed.

(* outputs from tracked indices: the live wires in increasing index order, k-th to output port k *)
Theorem C15_tracked_outputs_in_index_order : forall h tr h' tr',
  step h tr SetTrackedOutputs = (h', tr', None) ->
  tr' = tr /\ h_nodes h' = h_nodes h /\
  h_links h' = h_links h ++ number_from NOUT 0%N (live_by_index tr).
Proof. exact tracked_outputs_in_index_order. Qed.
Theorem C15_indexed_outputs_in_argument_order : forall h tr args h' tr',
  step h tr (SetIndexedOutputs args) = (h', tr', None) ->
  exists ws, to_wires tr args = Some ws /\ tr' = tr /\ h_links h' = h_links h ++ number_from NOUT 0%N ws.
Proof. exact indexed_outputs_in_argument_order. Qed.

Print Assumptions C15_tracked_simulates_explicit.
Print Assumptions C15_tracked_simulates_explicit_errors.
Print Assumptions C15_int_denotes_latest.
Print Assumptions C15_add_connects_then_rebinds.
Print Assumptions C15_add_records_node_and_links.
Print Assumptions C15_rebinding_by_position.
Print Assumptions C15_untrack_is_permanent.
Print Assumptions C15_track_wire_fresh_index.
Print Assumptions C15_tracked_outputs_in_index_order.
Print Assumptions C15_indexed_outputs_in_argument_order.
Print Assumptions C15_repeated_command_chains.

(* ------------------------------------------------------------------ second pass: composition with C01 *)
From HV Require Import model.Validity model.Builder spec.BuilderWFS model.TrackedBuilder proofs.TrackedValidP.

(* The plain-builder model of model/Tracked.v and C01's builder model (model/Builder.v) build the same graph on the
   fragment both have (Dfg root; add_op / add / extend of operations with a fixed signature, Tag, Noop / MakeTuple /
   UnpackTuple; one final set_outputs): if the explicit program q runs through in Tracked.v and its translation
   to_builder q is well typed (wt_prog), then Builder.run does not raise (a progress statement: C01's own theorems
   assume it) and its document is doc_of of the node/link log: root, Input, Output, one child of the root per logged
   node in creation order whose operation is the completion of the given specification, and the logged links port
   for port in insertion order. *)
Theorem C15_plain_model_is_C01_builder : forall tys ins specs q h,
  frag q = true ->
  wt_prog tys (to_builder ins specs q) = true ->
  run_plain (lenN ins) q = (h, None) ->
  exists outs ops,
    length ops = length (h_nodes h) /\ OpsOK tys specs ops /\
    Builder.run tys (to_builder ins specs q) = Ok (doc_of ins outs ops h).
Proof. exact plain_builder_same_graph. Qed.

(* C01's validity theorem for the tracked dataflow builder.  For every tracked program (track_wire / track_wires /
   track_inputs / untrack_wire / add / extend in any order and any mix of integer and wire arguments, ended by its
   only set_tracked_outputs / set_indexed_outputs: tfrag) whose explicit translation is a well-formed builder program
   in the sense of C01 (wf_prog) and on which no builder call raises: the explicit translation runs to the end in
   C01's builder model, the document it serialises is exactly the HUGR the tracked builder built, and it satisfies
   the whole validity predicate. *)
Theorem C15_tracked_programs_valid : forall tys ins specs track p h tr,
  r_table tys = true ->
  tfrag p = true ->
  wf_prog tys (to_builder ins specs (explicit_prog (lenN ins) track p)) = true ->
  run_tracked (lenN ins) track p = (h, tr, None) ->
  exists outs ops,
    length ops = length (h_nodes h) /\ OpsOK tys specs ops /\
    Builder.run tys (to_builder ins specs (explicit_prog (lenN ins) track p)) = Ok (doc_of ins outs ops h) /\
    valid {| v_tys := tys; v_main := doc_of ins outs ops h; v_subs := [] |} = true.
Proof. exact tracked_programs_valid. Qed.

(* the premises are satisfiable: two tracked qubits, a two-qubit gate on (0, 1) with metadata, a gate on index 1 with
   an explicit classical wire before the index (extend), a one-qubit gate on 0, set_tracked_outputs *)
Theorem C15_tracked_valid_example :
  r_table circ_tys = true /\ tfrag circ_prog = true /\
  wf_prog circ_tys (to_builder circ_ins circ_specs (explicit_prog 3 false circ_prog)) = true /\
  exists h tr, run_tracked 3 false circ_prog = (h, tr, None) /\ length (h_nodes h) = 3%nat /\ length (h_links h) = 7%nat /\
    tr = [Some (4, 0); Some (3, 1)]%N /\
    exists outs ops,
      Builder.run circ_tys (to_builder circ_ins circ_specs (explicit_prog 3 false circ_prog)) = Ok (doc_of circ_ins outs ops h) /\
      outs = [0; 0]%N /\ ops = [ExtOp [0; 0] [0; 0]; ExtOp [1; 0] [1; 0]; ExtOp [0] [0]]%N /\
      valid {| v_tys := circ_tys; v_main := doc_of circ_ins outs ops h; v_subs := [] |} = true.
Proof. exact circuit_example. Qed.

(* The premise stated on the TRACKED program.  `twf` (spec/TrackedWFS.v) is a boolean computed from the text of the
   tracked program alone — it follows the tracked table symbolically, knows the output row of every node by name and
   keeps the non-copyable wires still to be consumed: every integer names a tracked index at that moment; every wire
   used (through an index or explicitly) is an existing output port; argument types are the operation's input row
   (or complete a partial operation); the declared number of outputs is the operation's; every non-copyable wire is
   consumed exactly once, by one later argument or by the final set_*_outputs.  A program it accepts lies in the
   fragment, makes no builder call of the tracked-builder model raise, and its explicit translation is well formed
   in the sense of C01 ... *)
From HV Require Import spec.TrackedWFS proofs.TrackedWFP.
Theorem C15_tracked_wf_sound : forall tys ins specs track p,
  twf tys ins specs track p = true ->
  tfrag p = true /\
  (exists h tr, run_tracked (lenN ins) track p = (h, tr, None)) /\
  wf_prog tys (to_builder ins specs (explicit_prog (lenN ins) track p)) = true.
Proof. exact twf_sound. Qed.

(* ... hence, with no premise about runs: every tracked program accepted by twf builds a HUGR whose document
   (root, Input, Output, the added nodes in creation order, exactly the tracked builder's links) satisfies the whole
   validity predicate. *)
Theorem C15_wellformed_tracked_programs_valid : forall tys ins specs track p,
  r_table tys = true ->
  twf tys ins specs track p = true ->
  exists h tr outs ops,
    run_tracked (lenN ins) track p = (h, tr, None) /\
    length ops = length (h_nodes h) /\ OpsOK tys specs ops /\
    Builder.run tys (to_builder ins specs (explicit_prog (lenN ins) track p)) = Ok (doc_of ins outs ops h) /\
    valid {| v_tys := tys; v_main := doc_of ins outs ops h; v_subs := [] |} = true.
Proof. exact tracked_wf_programs_valid. Qed.

(* the circuit of C15_tracked_valid_example is accepted by twf *)
Theorem C15_tracked_wf_example : twf circ_tys circ_ins circ_specs false circ_prog = true.
Proof. exact circuit_twf. Qed.

(* the premise is needed: hugr-py's tracked builder accepts a program that untracks a qubit and never uses it again;
   the document is rejected by the validity predicate; twf rejects the program *)
Theorem C15_tracked_wf_needed :
  twf circ_tys [0; 0]%N [OFixed [0; 0] [0; 0]]%N true drop_prog = false /\
  (exists h tr, run_tracked 2 true drop_prog = (h, tr, None)) /\
  exists g, Builder.run circ_tys (to_builder [0; 0]%N [OFixed [0; 0] [0; 0]]%N (explicit_prog 2 true drop_prog)) = Ok g /\
            valid {| v_tys := circ_tys; v_main := g; v_subs := [] |} = false.
Proof. exact twf_needed. Qed.

Print Assumptions C15_plain_model_is_C01_builder.
Print Assumptions C15_tracked_programs_valid.
Print Assumptions C15_tracked_valid_example.
Print Assumptions C15_tracked_wf_sound.
Print Assumptions C15_wellformed_tracked_programs_valid.
Print Assumptions C15_tracked_wf_example.
Print Assumptions C15_tracked_wf_needed.

(* ------------------------------------------------------------------ returned values (seeded C15-i) *)
(* The integers a program uses are the values track_wire / track_wires / track_inputs returned: "the wire stored at
   that index" reaches the caller through them.  model/TrackedRet.v says what every call hands back (mirroring the
   code: one track_wire per element of the argument), spec/TrackedRetS.v says it on the abstract binding history. *)
From HV Require Import model.TrackedRet spec.TrackedRetS proofs.TrackedRetP.

(* for every program: the values the calls of the tracked builder hand back are the ones the history prescribes
   (fresh indices in the order the wires were given; the wire an untracked index denoted; the new nodes) - all of
   them when the run ends without an exception, the beginning of them when a call raises *)
Theorem C15_returned_values_follow_history : forall nin track p,
  exists rest, expected nin track p = run_tracked_rets nin track p ++ rest /\
               (forall h tr, run_tracked nin track p = (h, tr, None) -> rest = []).
Proof. exact returned_values_follow_history. Qed.

(* track_wires returns one index per wire, in order; right after the call index k of the result names wire k of the
   argument; all returned indices are new, every older index keeps its wire *)
Theorem C15_track_wires_returns_where_stored : forall h tr ws,
  let tr' := fst (track_wires_ret tr ws) in
  let l := snd (track_wires_ret tr ws) in
  step h tr (TrackWires ws) = (h, tr', None) /\
  ret_of h tr (TrackWires ws) = RIdxs l /\
  length l = length ws /\
  (forall k w, nth_error ws k = Some w ->
     exists i, nth_error l k = Some i /\ tracked_wire tr' i = Some w /\ (Z.of_nat (length tr) <= i)%Z) /\
  (forall i, (i < Z.of_nat (length tr))%Z -> tracked_wire tr' i = tracked_wire tr i).
Proof. exact track_wires_returns_where_stored. Qed.
Theorem C15_track_inputs_returns_where_stored : forall h tr,
  step h tr TrackInputs = step h tr (TrackWires (inputs (h_nin h))) /\
  ret_of h tr TrackInputs = ret_of h tr (TrackWires (inputs (h_nin h))).
Proof. exact track_inputs_returns_where_stored. Qed.
Theorem C15_track_wire_returns_where_stored : forall h tr w,
  exists i, ret_of h tr (TrackWire w) = RIdx i /\ i = Z.of_nat (length tr) /\
            step h tr (TrackWire w) = (h, fst (track_wire_ret tr w), None) /\
            tracked_wire (fst (track_wire_ret tr w)) i = Some w.
Proof. exact track_wire_returns_where_stored. Qed.

(* untrack_wire hands back the wire the index named; the index names nothing afterwards *)
Theorem C15_untrack_returns_the_wire : forall h tr i h' tr',
  step h tr (Untrack i) = (h', tr', None) ->
  exists w, tracked_wire tr i = Some w /\ ret_of h tr (Untrack i) = RWire w /\ tracked_wire tr' i = None.
Proof. exact untrack_returns_the_wire. Qed.

Print Assumptions C15_returned_values_follow_history.
Print Assumptions C15_track_wires_returns_where_stored.
Print Assumptions C15_track_inputs_returns_where_stored.
Print Assumptions C15_track_wire_returns_where_stored.
Print Assumptions C15_untrack_returns_the_wire.
