(* C12 — property-level theorems (placeholder until the proofs land). *)
From HV Require Import model.Export spec.ExportS.
