(* C12 — the model export is well scoped and faithful to the HUGR: property-level theorems.
   h ranges over all abstract HUGRs (hierarchy of any size and depth, any list of links);
   valid_b h is the validity guard (module root, well-formed hierarchy, distinct node indices, static
   edges from definitions/constants that are nodes of the module); export h is the model of
   Hugr.to_model() (link names = component representatives, symbols = defining node). *)
From Coq Require Import ZArith List Bool.
From HV Require Import model.Export model.ExportNum model.ExportUF spec.ExportS spec.ExportCanon spec.ModelAttrsS
  gen.ModelAttrs proofs.ExportP proofs.ModelAttrsP proofs.ExportOrderP proofs.ExportNumP proofs.ExportCanonP
  proofs.ExportUFP proofs.ExportKeysP.
From Coq Require Import NArith.
From HV Require Import lib.Harness model.ExportMangle proofs.ExportMangleP.

(* the union-find labelling names two ports alike exactly when the links join them *)
Theorem C12_components : forall ls p q, rep ls p = rep ls q <-> conn ls p q.
Proof. exact rep_spec. Qed.
Print Assumptions C12_components.

Theorem C12_regions_mirror_hierarchy :
  forall h, valid_b h = true -> regions_mirror_hierarchy h (export h) = true.
Proof. exact export_regions_mirror_hierarchy. Qed.
Print Assumptions C12_regions_mirror_hierarchy.

Theorem C12_ports_exactly_signature :
  forall h, valid_b h = true -> ports_exactly_signature h (export h) = true.
Proof. exact export_ports_exactly_signature. Qed.
Print Assumptions C12_ports_exactly_signature.

Theorem C12_link_names_iff_connected :
  forall h, valid_b h = true -> link_names_iff_connected port_eqb h (export h).
Proof. exact export_link_names_iff_connected. Qed.
Print Assumptions C12_link_names_iff_connected.

(* the monitor's decision procedure implies the relational statement, whatever the names are *)
Theorem C12_link_names_monitor_sound :
  forall (L Sy : Type) (leqb : L -> L -> bool) h (m : eregion L Sy),
    link_names_iff_connected_b leqb h m = true -> link_names_iff_connected leqb h m.
Proof. exact @link_names_b_sound. Qed.
Print Assumptions C12_link_names_monitor_sound.

(* stars_b h: among the listed ports of every link component of the HUGR there is exactly one output
   or exactly one input (value edges fan out, control edges fan in) *)
Theorem C12_single_producer_or_single_consumer :
  forall h, valid_b h = true -> stars_b h = true ->
            single_producer_or_single_consumer port_eqb h (export h) = true.
Proof. exact export_single_producer. Qed.
Print Assumptions C12_single_producer_or_single_consumer.

Theorem C12_applied_symbols_defined :
  forall h, valid_b h = true -> applied_symbols_defined Z.eqb h (export h) = true.
Proof. exact export_applied_symbols_defined. Qed.
Print Assumptions C12_applied_symbols_defined.

(* partial: proved = every order hint of a region starts at an exported child of the region that
   carries the hint's first key.  Missing = completeness (every sibling order edge has a hint), the key
   on the target node and uniqueness of keys (order_hints_complete_and_keyed); these are evaluated on
   every case, on the implementation's module and on the model's. *)
Theorem C12_order_hints_source_keyed_partial :
  forall h, valid_b h = true -> order_hints_source_keyed h (export h) = true.
Proof. exact export_order_hints_source_keyed. Qed.
Print Assumptions C12_order_hints_source_keyed_partial.

(* clause 6 in full: in the export of a valid module every state-order link between two exported
   siblings of a dataflow region has a hint on that region whose keys are on the two nodes, the keys
   of a region are pairwise distinct, and every hint is such an edge.  Guard: valid_b, valid_order_b
   (order successors are siblings or the region's Output) and order_ports_b (an offset -1 port is linked
   to an offset -1 port). *)
Theorem C12_order_hints_complete_and_keyed :
  forall h, valid_b h = true -> valid_order_b h = true -> order_ports_b h = true ->
            order_hints_complete_and_keyed h (export h) = true.
Proof. exact export_order_hints_complete_and_keyed. Qed.
Print Assumptions C12_order_hints_complete_and_keyed.

(* order_ports_b cannot be dropped: a link from an order port to a value port makes the exporter
   emit a hint that is no state-order edge *)
Theorem C12_order_hints_guard_needed :
  exists h, valid_b h = true /\ valid_order_b h = true /\ export_err h = false /\
            order_hints_complete_and_keyed h (export h) = false.
Proof. exact hints_need_order_ports. Qed.
Print Assumptions C12_order_hints_guard_needed.

(* totality: on a valid module the export raises exactly when some CFG of the model has no basic block
   (export_region_cfg: "CFG ... has no entry block"); every other raise site of export.py is excluded
   by valid_b *)
Theorem C12_export_total_iff :
  forall h, valid_b h = true -> (export_err h = false <-> cfg_entries_b h = true).
Proof. exact export_total_iff. Qed.
Print Assumptions C12_export_total_iff.

Theorem C12_export_total :
  forall h, valid_b h = true -> cfg_entries_b h = true -> to_model h = Some (export h).
Proof. exact export_no_error. Qed.
Print Assumptions C12_export_total.

(* valid_b (with valid_order_b, order_ports_b, stars_b) alone does not give totality *)
Theorem C12_valid_alone_not_total :
  exists h, valid_b h = true /\ valid_order_b h = true /\ order_ports_b h = true /\ stars_b h = true /\
            export_err h = true.
Proof. exact valid_not_total. Qed.
Print Assumptions C12_valid_alone_not_total.

(* the monitor's decision procedure for link names is also complete: it cannot raise a false alarm *)
Theorem C12_link_names_monitor_complete :
  forall (L Sy : Type) (leqb : L -> L -> bool) h (m : eregion L Sy),
    link_names_iff_connected leqb h m -> link_names_iff_connected_b leqb h m = true.
Proof. exact @link_names_b_complete. Qed.
Print Assumptions C12_link_names_monitor_complete.

(* first-use numbering of link names (model/ExportNum.v: link_name = dict of roots in insertion order,
   visits = the calls of a successful export in the order of the code, num = the name of a port).
   The name returned at every call is num of the port ... *)
Theorem C12_first_use_names :
  forall h, fst (link_names (rep (h_links h)) nil (visits h)) = List.map (num h) (visits h).
Proof. exact names_given_are_num. Qed.
Print Assumptions C12_first_use_names.

(* ... and on the ports a valid export lists the numbers are a renaming of the link components *)
Theorem C12_first_use_numbering_is_renaming :
  forall h, valid_b h = true ->
  forall p q, List.In p (listed_ports h) -> List.In q (listed_ports h) ->
              (num h p = num h q <-> conn (h_links h) p q).
Proof. exact num_listed. Qed.
Print Assumptions C12_first_use_numbering_is_renaming.

(* so the numbered export satisfies the link-name clause, and with it every clause the monitor evaluates *)
Theorem C12_numbered_link_names_iff_connected :
  forall h, valid_b h = true -> link_names_iff_connected Nat.eqb h (export_numbered h).
Proof. exact numbered_link_names_iff_connected. Qed.
Print Assumptions C12_numbered_link_names_iff_connected.

Theorem C12_numbered_export_meets_spec :
  forall h, valid_b h = true -> valid_order_b h = true -> order_ports_b h = true -> stars_b h = true ->
            spec_b Nat.eqb Z.eqb h (export_numbered h) = true.
Proof. exact numbered_spec. Qed.
Print Assumptions C12_numbered_export_meets_spec.

(* the comparison up to renaming of the correspondence check (spec/ExportCanon.v: canon) cannot tell the
   numbered export from export h: what corr ties to the implementation is also the numbered model *)
Theorem C12_numbered_export_same_up_to_renaming :
  forall h, valid_b h = true -> canon Nat.eqb Z.eqb (export_numbered h) = canon port_eqb Z.eqb (export h).
Proof. exact canon_numbered. Qed.
Print Assumptions C12_numbered_export_same_up_to_renaming.

(* the union-find as the code has it (model/ExportUF.v: parents/sizes maps, find with path splitting on
   fuel = number of links + 1, union by size): two ports get the same root exactly when the links join them
   (in particular the fuel is never exhausted) *)
Theorem C12_union_find_components :
  forall ls p q, uf_root ls p = uf_root ls q <-> conn ls p q.
Proof. exact uf_components. Qed.
Print Assumptions C12_union_find_components.

(* link_name over that union-find, lookups rewriting parents as they go: the names of the calls of an export
   are the first-use numbers of the roots *)
Theorem C12_code_link_names :
  forall h, code_names h = List.map (num_uf h) (visits h).
Proof. exact code_names_are_num_uf. Qed.
Print Assumptions C12_code_link_names.

(* the export named by the code's own procedure meets the whole specification and is, up to the renaming of
   the correspondence check, the export the other theorems speak about *)
Theorem C12_code_export_meets_spec :
  forall h, valid_b h = true -> valid_order_b h = true -> order_ports_b h = true -> stars_b h = true ->
            spec_b Nat.eqb Z.eqb h (export_code h) = true.
Proof. exact code_spec. Qed.
Print Assumptions C12_code_export_meets_spec.

Theorem C12_code_export_same_up_to_renaming :
  forall h, valid_b h = true -> canon Nat.eqb Z.eqb (export_code h) = canon port_eqb Z.eqb (export h).
Proof. exact canon_code. Qed.
Print Assumptions C12_code_export_same_up_to_renaming.

(* order-hint keys are labels: clause 6 holds for the export under every injective labelling of the keyed
   nodes (rl_region kappa relabels every key and every hint of the tree; the model itself uses the node index) *)
Theorem C12_order_hints_any_key_labelling :
  forall (kappa : Z -> Z) h, (forall a b, kappa a = kappa b -> a = b) ->
    valid_b h = true -> valid_order_b h = true -> order_ports_b h = true ->
    order_hints_complete_and_keyed h (rl_region kappa (export h)) = true.
Proof. exact export_order_hints_any_labelling. Qed.
Print Assumptions C12_order_hints_any_key_labelling.

(* the comparison of the correspondence check (canon_full: link names, symbols and keys up to renaming) does
   not see an injective relabelling of the keys, whatever the tree *)
Theorem C12_comparison_blind_to_key_labelling :
  forall (L Sy : Type) (leqb : L -> L -> bool) (seqb : Sy -> Sy -> bool) (kappa : Z -> Z) (m : eregion L Sy),
    (forall a b, kappa a = kappa b -> a = b) ->
    canon_full leqb seqb (rl_region kappa m) = canon_full leqb seqb m.
Proof. exact @canon_full_relabel. Qed.
Print Assumptions C12_comparison_blind_to_key_labelling.

(* the same for the comparison corr makes since the keys no hint mentions are dropped first (canon_cmp =
   canon_keys after prune_keys after canon): a harmless change of the key labelling can never make corr fail *)
Theorem C12_pruned_comparison_blind_to_key_labelling :
  forall (L Sy : Type) (leqb : L -> L -> bool) (seqb : Sy -> Sy -> bool) (kappa : Z -> Z) (m : eregion L Sy),
    (forall a b, kappa a = kappa b -> a = b) ->
    canon_cmp leqb seqb (rl_region kappa m) = canon_cmp leqb seqb m.
Proof. exact @canon_cmp_relabel. Qed.
Print Assumptions C12_pruned_comparison_blind_to_key_labelling.

Theorem C12_metadata_carried :
  forall h, valid_b h = true -> metadata_carried h (export h) = true.
Proof. exact export_metadata_carried. Qed.
Print Assumptions C12_metadata_carried.

(* regenerated data: attribute names read by hugr-model/src/v0/ast/python.rs = dataclass fields *)
Theorem C12_binding_attrs_match : attrs_match_b rs_reads rs_built py_fields = true.
Proof. exact attrs_match. Qed.
Print Assumptions C12_binding_attrs_match.

(* ---- the spelling of function symbols (model/ExportMangle.v: mangle name idx = "_<name>_<idx>", the code's
   _mangle_name; names are ANY strings over code points).  The model above abstracts the symbol of a function to
   the index of its defining node; these theorems are what the abstraction stands on. *)

(* injective in the pair (name, node index): `main`, the empty name, names with underscores and digits, a name
   spelt like the mangled form of another function — no two functions of a module share a symbol *)
Theorem C12_mangle_injective :
  forall n1 i1 n2 i2, mangle n1 i1 = mangle n2 i2 -> n1 = n2 /\ i1 = i2.
Proof. exact mangle_inj. Qed.
Print Assumptions C12_mangle_injective.

(* for every assignment nm of names to nodes, the export with the symbols spelt as the code spells them meets
   every clause of the specification (clause 5: the symbol a Call / LoadFunc applies is the symbol of exactly the
   definition / declaration its static edge comes from) *)
Theorem C12_mangled_export_meets_spec :
  forall h (nm : Z -> list N),
    valid_b h = true -> valid_order_b h = true -> order_ports_b h = true -> stars_b h = true ->
    spec_b port_eqb (list_eqb N.eqb) h (export_mangled nm h) = true.
Proof. exact mangled_spec. Qed.
Print Assumptions C12_mangled_export_meets_spec.

(* and the comparison the correspondence check makes does not see the spelling: index or mangled string *)
Theorem C12_mangled_export_same_up_to_renaming :
  forall h (nm : Z -> list N),
    canon port_eqb (list_eqb N.eqb) (export_mangled nm h) = canon port_eqb Z.eqb (export h).
Proof. exact mangled_canon. Qed.
Print Assumptions C12_mangled_export_same_up_to_renaming.

(* the two sites that derive a function's symbol (definition / declaration: gd; call / load: the identity here)
   must agree: a valid module (`retry` calls and loads `main`) on which clause 5 holds for the code's spelling
   and fails as soon as the definition site spells `main` plainly *)
Theorem C12_symbol_sites_must_agree :
  exists h nm gd,
    valid_b h = true /\
    applied_symbols_defined (list_eqb N.eqb) h (export_mangled nm h) = true /\
    applied_symbols_defined (list_eqb N.eqb) h (sites_region gd (fun s => s) (export_mangled nm h)) = false.
Proof. exact symbol_sites_must_agree. Qed.
Print Assumptions C12_symbol_sites_must_agree.
